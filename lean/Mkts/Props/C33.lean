import Mkts.Lemmas.Csv
/-!
# C33 — CSV import loads every row or reports an error

Model: `Mkts.Csv` (cmd/connect/loader, the loop of cmd/connect/session/load.go).  The input is the
list of CSV records after lexing (`encoding/csv` is trusted, its FieldsPerRecord / blank-line /
bare-quote behaviour is modelled by `read`); `load cfg header records k` is `ReadMetadata` on the
header row followed by the loop `for { CSVtoNumpyMulti(chunkSize = k) … }`; its result is the
status and the list of datasets handed to the writer.

* `C33_partial`: for every file whose records are all well-formed (`GoodRec`: right field count,
  no bare quote, time field readable in the configured format, every value parsable for its bucket
  column type) and EVERY chunk size k ≥ 1: status ok, and the datasets concatenated are exactly
  the parsed rows of all records, in order; no dataset is empty or longer than k.
* the full statement (`C33_full`) is false of the code: a record with a wrong field count (or any
  other reader error) is taken for the end of the input (`C33_cex_silent`), an unreadable time
  field makes the loader dereference nil (`C33_cex_panic`); with the "tuning" of the time format
  the outcome even depends on the chunk size (`C33_cex_chunk_dependent`).
-/
namespace Mkts.Props.C33
open Mkts.Csv

/-- well-formed configuration: usable time zone, no column type `NewNumpyDataset` rejects -/
structure GoodCfg (cfg : Config) : Prop where
  tz : ∀ _ : cfg.tz = .invalid, False
  noBool : cfg.schema.any (fun c => c.2 == .bool) = false

/-- every well-formed file is loaded completely, with the parsed values, for EVERY chunk size -/
theorem C33_partial (cfg : Config) (header : Rec) (records : List Rec) (idx : List Nat) (k : Nat)
    (hk : 1 ≤ k) (hcfg : GoodCfg cfg) (hmeta : readMetadata cfg header = some (0, idx))
    (hrec : ∀ r ∈ records, GoodRec cfg header.length idx r) :
    (load cfg header records k).status = .ok ∧
    (load cfg header records k).chunks.flatten = records.map (rowOf cfg idx) ∧
    ∀ c ∈ (load cfg header records k).chunks, c.length ≤ k ∧ c ≠ [] := by
  unfold load
  rw [hmeta]
  simp only [bne_self_eq_false, Bool.false_eq_true, if_false]
  exact loadLoop_good cfg header.length idx k hk hcfg.tz hcfg.noBool _ records (by omega) hrec

/-- in particular the loaded rows do not depend on the chunk size -/
theorem C33_chunk_independent (cfg : Config) (header : Rec) (records : List Rec) (idx : List Nat)
    (k k' : Nat) (hk : 1 ≤ k) (hk' : 1 ≤ k') (hcfg : GoodCfg cfg)
    (hmeta : readMetadata cfg header = some (0, idx))
    (hrec : ∀ r ∈ records, GoodRec cfg header.length idx r) :
    (load cfg header records k).chunks.flatten = (load cfg header records k').chunks.flatten := by
  rw [(C33_partial cfg header records idx k hk hcfg hmeta hrec).2.1,
      (C33_partial cfg header records idx k' hk' hcfg hmeta hrec).2.1]

/-- what a loaded row contains: the parsed time and, for every bucket column, the parsed value of
    the CSV field the header maps it to (`GoodRec` makes every `getD` default irrelevant) -/
theorem C33_row_values (cfg : Config) (n : Nat) (idx : List Nat) (r : Rec) (h : GoodRec cfg n idx r) :
    (∃ t, parseTime cfg (r.getD 0 []) 0 = .ok (some t) ∧
      (rowOf cfg idx r).epoch = t / 1000000000 ∧ (rowOf cfg idx r).nanos = t % 1000000000) ∧
    (rowOf cfg idx r).vals.length = (cfg.schema.zip idx).length ∧
    ∀ ci ∈ cfg.schema.zip idx, ∃ v, parseVal ci.1.2 (r.getD ci.2 []) = some v ∧ v ∈ (rowOf cfg idx r).vals := by
  refine ⟨?_, by simp [rowOf], ?_⟩
  · obtain ⟨t, ht⟩ := h.time
    have e : timeNs cfg r = t := by unfold timeNs; rw [ht]
    exact ⟨t, ht, by simp only [rowOf, e], by simp only [rowOf, e]⟩
  · intro ci hci
    have := h.vals ci hci
    cases hv : parseVal ci.1.2 (r.getD ci.2 []) with
    | none => rw [hv] at this; cases this
    | some v =>
      refine ⟨v, rfl, ?_⟩
      simp only [rowOf, List.mem_map]
      exact ⟨ci, hci, by rw [hv]; rfl⟩

/-! ## the general form of the silent truncation -/

/-- For EVERY file of the shape (well-formed records) ++ [record with a wrong field count or a bare
    quote] ++ (anything at all) and every chunk size: the load ends with status ok, and what was
    handed to the writer is exactly the rows before the malformed record.  The malformed record and
    everything after it are dropped without an error. -/
theorem C33_truncation (cfg : Config) (header : Rec) (good : List Rec) (bad : Rec) (rest : List Rec)
    (idx : List Nat) (k : Nat) (hk : 1 ≤ k) (hcfg : GoodCfg cfg)
    (hmeta : readMetadata cfg header = some (0, idx))
    (hgood : ∀ r ∈ good, GoodRec cfg header.length idx r) (hbad : BadRec header.length bad) :
    (load cfg header (good ++ bad :: rest) k).status = .ok ∧
    (load cfg header (good ++ bad :: rest) k).chunks.flatten = good.map (rowOf cfg idx) := by
  unfold load
  rw [hmeta]
  simp only [bne_self_eq_false, Bool.false_eq_true, if_false]
  exact loadLoop_truncated cfg header.length idx k hk hcfg.tz hcfg.noBool bad rest hbad _ good (by omega) hgood

/-! ## the full statement is false of the code -/

def isPanic : Status → Bool
  | .panicNil | .panicSlice | .panicOther => true
  | _ => false

def isBlank (r : Rec) : Bool := r == [[]]

/-- C33 as stated: whenever no error is reported every data row (non-blank record) has been handed
    to the writer — and the loader does not crash -/
def C33_full : Prop :=
  ∀ (cfg : Config) (header : Rec) (records : List Rec) (k : Nat), 1 ≤ k →
    isPanic (load cfg header records k).status = false ∧
    ((load cfg header records k).status = .ok →
      ((load cfg header records k).chunks.map List.length).sum = (records.filter (fun r => !isBlank r)).length)

def cfgTs : Config :=
  { fmt := .timestamp, tz := .zone Mkts.Time.utc, schema := [(['V'], .i64)], isVariable := false }
def hdr : Rec := [['E', 'p', 'o', 'c', 'h'], ['V']]

/-- three rows, the second has an extra field: one row is loaded, `ok`, nothing reported -/
def silentFile : List Rec := [[['1'], ['1', '0']], [['2'], ['2', '0'], ['9']], [['3'], ['3', '0']]]

theorem C33_cex_silent_run :
    load cfgTs hdr silentFile 1000000 = ⟨.ok, [[⟨1, 0, [10]⟩]]⟩ := by decide +kernel

/-- an unreadable time field in the second row: nil dereference, also nothing loaded -/
def panicFile : List Rec := [[['1'], ['1', '0']], [['a', 'b', 'c'], ['2', '0']]]

theorem C33_cex_panic_run : load cfgTs hdr panicFile 1000000 = ⟨.panicNil, []⟩ := by decide +kernel

theorem C33_cex_silent : ¬ C33_full := by
  intro h
  have h2 := (h cfgTs hdr silentFile 1000000 (by decide)).2
  rw [C33_cex_silent_run] at h2
  exact absurd (h2 rfl) (by decide)

theorem C33_cex_panic : ¬ C33_full := by
  intro h
  have h1 := (h cfgTs hdr panicFile 1000000 (by decide)).1
  rw [C33_cex_panic_run] at h1
  exact absurd h1 (by decide)

/-- `timeFormat: timestamp` without a `timeZone`: `Time.In(nil)` panics on the first row -/
theorem C33_cex_timestamp_no_zone :
    load { cfgTs with tz := .empty } hdr [[['1'], ['1', '0']]] 1000000 = ⟨.panicOther, []⟩ := by
  decide +kernel

def cfgLay : Config :=
  { fmt := .layout, tz := .zone Mkts.Time.utc, schema := [], isVariable := true }
def t1 : Str := "20161230 21:37:57".toList
def t2 : Str := "20161230 21:37:58 140000".toList
def t3 : Str := "20161230 21:37:59".toList
def short : Str := "2016".toList

/-- rows in the plain, the extended ("nanosecond extension") and again the plain time format:
    loaded completely with chunk size 1, nil dereference with chunk size 3 — the `formatAdj` state
    is per chunk; and a short time field after the tuning slices out of range -/
theorem C33_cex_chunk_dependent :
    (load cfgLay [['E', 'p', 'o', 'c', 'h']] [[t1], [t2], [t3]] 1).status = .ok ∧
    ((load cfgLay [['E', 'p', 'o', 'c', 'h']] [[t1], [t2], [t3]] 1).chunks.map List.length).sum = 3 ∧
    (load cfgLay [['E', 'p', 'o', 'c', 'h']] [[t1], [t2], [t3]] 3).status = .panicNil ∧
    (load cfgLay [['E', 'p', 'o', 'c', 'h']] [[t2], [short]] 3).status = .panicSlice := by
  decide +kernel

/-! ## non-vacuity: a two-row file satisfying every hypothesis of `C33_partial` -/

def okFile : List Rec := [[['1'], ['1', '0']], [['2', '.', '5'], ['-', '7']]]

example : GoodCfg cfgTs := ⟨fun h => by simp [cfgTs] at h, by decide⟩
example : readMetadata cfgTs hdr = some (0, [1]) := by decide +kernel
example : ∀ r ∈ okFile, GoodRec cfgTs hdr.length [1] r := by
  intro r hr
  simp only [okFile, List.mem_cons, List.not_mem_nil, or_false] at hr
  rcases hr with rfl | rfl
  · exact ⟨by decide, by decide, by decide, ⟨1000000000, by decide +kernel⟩, by decide +kernel⟩
  · exact ⟨by decide, by decide, by decide, ⟨2500000000, by decide +kernel⟩, by decide +kernel⟩
example : load cfgTs hdr okFile 1 = ⟨.ok, [[⟨1, 0, [10]⟩], [⟨2, 500000000, [-7]⟩]]⟩ := by decide +kernel

end Mkts.Props.C33
