import Mkts.Model.Time
/-! Helper lemmas about the calendar / index model (core Lean; `omega`). -/
namespace Mkts.Time

theorem jan1_mono (y : Int) : jan1 y < jan1 (y + 1) := by unfold jan1; omega

theorem jan1_le_yearOfDays (d : Int) : jan1 (yearOfDays d) ≤ d := by
  unfold yearOfDays
  simp only []
  split
  · assumption
  split
  · assumption
  split
  · assumption
  split
  · assumption
  unfold jan1; omega

theorem lt_jan1_succ_yearOfDays (d : Int) : d < jan1 (yearOfDays d + 1) := by
  unfold yearOfDays
  simp only []
  split
  · unfold jan1; omega
  split
  · have : (1970 + d * 400 / 146097 + 1 + 1) = (1970 + d * 400 / 146097 + 2) := by omega
    rw [this]; omega
  split
  · omega
  split
  · have : (1970 + d * 400 / 146097 - 1 + 1) = (1970 + d * 400 / 146097) := by omega
    rw [this]; omega
  · have : (1970 + d * 400 / 146097 - 2 + 1) = (1970 + d * 400 / 146097 - 1) := by omega
    rw [this]; omega

theorem jan1_strictMono {a b : Int} (h : a < b) : jan1 a < jan1 b := by
  unfold jan1; omega

theorem jan1_le_of_le {a b : Int} (h : a ≤ b) : jan1 a ≤ jan1 b := by
  unfold jan1; omega

/-- the year of a day is the unique year whose span contains it -/
theorem yearOfDays_unique (d y : Int) (h1 : jan1 y ≤ d) (h2 : d < jan1 (y + 1)) : yearOfDays d = y := by
  have a := jan1_le_yearOfDays d
  have b := lt_jan1_succ_yearOfDays d
  rcases Int.lt_trichotomy (yearOfDays d) y with h | h | h
  · have : jan1 (yearOfDays d + 1) ≤ jan1 y := jan1_le_of_le (by omega)
    omega
  · exact h
  · have : jan1 (y + 1) ≤ jan1 (yearOfDays d) := jan1_le_of_le (by omega)
    omega

@[simp] theorem utc_lookup (s : Int) : utc.lookup s = (0, none, none) := rfl
@[simp] theorem utc_offsetAt (s : Int) : utc.offsetAt s = 0 := rfl
@[simp] theorem utc_dateToUnix (s : Int) : utc.dateToUnix s = s := rfl

theorem utc_yearStart (y : Int) : yearStart utc y = jan1 y * 86400000000000 := by
  simp [yearStart, secPerDay, nsPerSec]; omega

theorem utc_localDays (t : Int) : localDays utc t = t / 86400000000000 := by
  simp only [localDays, secOf, utc_offsetAt, secPerDay, nsPerSec]; omega

theorem tdiv_eq_ediv {a b : Int} (ha : 0 ≤ a) (_hb : 0 < b) : a.tdiv b = a / b := by
  exact Int.tdiv_eq_ediv_of_nonneg ha

end Mkts.Time
