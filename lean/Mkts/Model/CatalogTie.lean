import Mkts.Model.Catalog
import Mkts.Model.Skel
import Mkts.Extracted.Skeletons
/-! Which `Variant` of the catalog code the CURRENT source implements: read off the regenerated
skeletons of `removeSubDir`, `AddTimeBucket`, `RemoveTimeBucket`, `GetSubDirectoryAndAddFile`
(regenerated from the source on every run).  Core Lean only. -/
namespace Mkts.CatalogTie
open Mkts.Catalog Mkts.Extracted.Skel

def hasSub : List String → List String → Bool
  | [], pat => pat.isEmpty
  | a :: l, pat => pat.isPrefixOf (a :: l) || hasSub l pat

def indexOf? (a : String) : List String → Nat → Option Nat
  | [], _ => none
  | x :: rest, i => if x = a then some i else indexOf? a rest (i + 1)

/-- `removeSubDir` walks the direct map (`Range`) and deletes inside the callback -/
def deepDeleteInCode : Bool :=
  hasSub catalog_Directory_removeSubDir ["call:directMap.Delete", "}", "return", "}", "call:directMap.Range"]

/-- `AddTimeBucket` compares the counts and calls `checkCategoryNameFile` before the first `os.Mkdir` -/
def checkFirstInCode : Bool :=
  match indexOf? "if:len(catkeySplit) != len(datakeySplit){" catalog_Directory_AddTimeBucket 0,
        indexOf? "call:checkCategoryNameFile" catalog_Directory_AddTimeBucket 0,
        indexOf? "call:os.Mkdir" catalog_Directory_AddTimeBucket 0 with
  | some l, some c, some m => l < c && c < m
  | _, _, _ => false

def mutMuHeld : List String := ["call:d.mutMu.Lock", "defer{", "call:d.mutMu.Unlock", "}"]

/-- the three structure-changing operations take the root's `mutMu` (deferred unlock) -/
def serialisedInCode : Bool :=
  mutMuHeld.isPrefixOf catalog_Directory_AddTimeBucket &&
  mutMuHeld.isPrefixOf catalog_Directory_GetSubDirectoryAndAddFile &&
  hasSub catalog_Directory_RemoveTimeBucket (mutMuHeld ++ ["call:tbk.GetItems"])

def codeVariant : Variant := ⟨deepDeleteInCode, checkFirstInCode, serialisedInCode⟩

end Mkts.CatalogTie
