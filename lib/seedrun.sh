#!/bin/bash
# Apply one seeded change to /repo, run the named checks, restore /repo.
# usage: lib/seedrun.sh seeded/<id> Cxx [Cyy ...]     (TIER=quick|thorough, default quick)
d=$(cd "$1" && pwd); shift
cd /verif
if ! git -C /repo diff --quiet; then echo "/repo working tree not clean"; exit 2; fi
git -C /repo apply "$d/patch.diff" || { echo "patch does not apply"; exit 2; }
mkdir -p .work/seed-evidence
for p in "$@"; do
  t0=$(date +%s)
  out=$(VERIF_EVIDENCE_DIR=/verif/.work/seed-evidence ./check $p --tier ${TIER:-quick} 2>&1 | grep "^VIOLATION\|^OK\|^BROKEN" | head -3 | cut -c1-400 | tr '\n' ' ')
  echo "$(basename $d) $p $(( $(date +%s) - t0 ))s: $out"
done
git -C /repo checkout -- .
# bring the generated facts back to the unchanged tree
rm -f .build/factgen.key
mkdir -p .work/seed-ex && ./.build/factgen /repo .work/seed-ex go/factgen/wants.d >/dev/null 2>&1
for f in .work/seed-ex/*.lean; do cmp -s "$f" "lean/Mkts/Extracted/$(basename "$f")" || cp "$f" "lean/Mkts/Extracted/$(basename "$f")"; done
