import Mkts.Model.Calendar
import Mkts.Lemmas.Time
/-! Lemmas about the month calendar and ISO weeks (core Lean; `omega`). -/
namespace Mkts.Time
set_option linter.unusedSimpArgs false

theorem leapDays_cases (y : Int) : leapDays y = 0 ∨ leapDays y = 1 := by
  unfold leapDays; split <;> simp

/-- length of a civil year -/
theorem jan1_succ (y : Int) : jan1 (y + 1) = jan1 y + 365 + leapDays y := by
  unfold leapDays isLeap jan1
  split <;> rename_i h <;> simp at h <;> omega

theorem yday_range (d : Int) :
    0 ≤ d - jan1 (yearOfDays d) ∧ d - jan1 (yearOfDays d) < 365 + leapDays (yearOfDays d) := by
  have a := jan1_le_yearOfDays d
  have b := lt_jan1_succ_yearOfDays d
  rw [jan1_succ] at b
  omega

theorem monthOfYday_range (y yd : Int) : 1 ≤ monthOfYday y yd ∧ monthOfYday y yd ≤ 12 := by
  unfold monthOfYday
  repeat' split
  all_goals omega

theorem cumDays_1' (y : Int) : cumDays y 1 = 0 := by simp [cumDays]
theorem cumDays_2' (y : Int) : cumDays y 2 = 31 := by simp [cumDays]
theorem cumDays_3' (y : Int) : cumDays y 3 = 59 + leapDays y := by simp [cumDays]
theorem cumDays_4' (y : Int) : cumDays y 4 = 90 + leapDays y := by simp [cumDays]
theorem cumDays_5' (y : Int) : cumDays y 5 = 120 + leapDays y := by simp [cumDays]
theorem cumDays_6' (y : Int) : cumDays y 6 = 151 + leapDays y := by simp [cumDays]
theorem cumDays_7' (y : Int) : cumDays y 7 = 181 + leapDays y := by simp [cumDays]
theorem cumDays_8' (y : Int) : cumDays y 8 = 212 + leapDays y := by simp [cumDays]
theorem cumDays_9' (y : Int) : cumDays y 9 = 243 + leapDays y := by simp [cumDays]
theorem cumDays_10' (y : Int) : cumDays y 10 = 273 + leapDays y := by simp [cumDays]
theorem cumDays_11' (y : Int) : cumDays y 11 = 304 + leapDays y := by simp [cumDays]
theorem cumDays_12' (y : Int) : cumDays y 12 = 334 + leapDays y := by simp [cumDays]
theorem cumDays_13' (y : Int) : cumDays y 13 = 365 + leapDays y := by simp [cumDays]

theorem month_cases (m : Int) (h1 : 1 ≤ m) (h2 : m ≤ 12) :
    m = 1 ∨ m = 2 ∨ m = 3 ∨ m = 4 ∨ m = 5 ∨ m = 6 ∨ m = 7 ∨ m = 8 ∨ m = 9 ∨ m = 10 ∨ m = 11 ∨ m = 12 := by
  omega

/-- the month found for a day-of-year brackets it -/
theorem cumDays_monthOfYday (y yd : Int) (h0 : 0 ≤ yd) (h1 : yd < 365 + leapDays y) :
    cumDays y (monthOfYday y yd) ≤ yd ∧ yd < cumDays y (monthOfYday y yd + 1) := by
  have hl := leapDays_cases y
  unfold monthOfYday
  repeat' split
  all_goals (simp only [Int.reduceAdd, cumDays_1', cumDays_2', cumDays_3', cumDays_4', cumDays_5', cumDays_6', cumDays_7', cumDays_8', cumDays_9', cumDays_10', cumDays_11', cumDays_12', cumDays_13']; omega)

theorem monthOfYday_cumDays (y m : Int) (h1 : 1 ≤ m) (h2 : m ≤ 12) : monthOfYday y (cumDays y m) = m := by
  rcases month_cases m h1 h2 with h | h | h | h | h | h | h | h | h | h | h | h
  all_goals
    subst h
    simp only [cumDays_1', cumDays_2', cumDays_3', cumDays_4', cumDays_5', cumDays_6', cumDays_7', cumDays_8', cumDays_9', cumDays_10', cumDays_11', cumDays_12', cumDays_13']
    rcases leapDays_cases y with hl | hl <;> simp [monthOfYday, hl]

theorem cumDays_range (y m : Int) (h1 : 1 ≤ m) (h2 : m ≤ 12) : 0 ≤ cumDays y m ∧ cumDays y m < 365 + leapDays y := by
  have hl := leapDays_cases y
  rcases month_cases m h1 h2 with h | h | h | h | h | h | h | h | h | h | h | h
  all_goals (subst h; simp only [cumDays_1', cumDays_2', cumDays_3', cumDays_4', cumDays_5', cumDays_6', cumDays_7', cumDays_8', cumDays_9', cumDays_10', cumDays_11', cumDays_12', cumDays_13']; omega)

theorem cumDays_13 (y : Int) : cumDays y 13 = 365 + leapDays y := cumDays_13' y

theorem monthOfDays_range (d : Int) : 1 ≤ monthOfDays d ∧ monthOfDays d ≤ 12 := monthOfYday_range _ _

/-- the first day of a day's month is at or before the day -/
theorem monthFloorDays_le (d : Int) : monthFloorDays d ≤ d := by
  have r := yday_range d
  have h := cumDays_monthOfYday (yearOfDays d) (d - jan1 (yearOfDays d)) r.1 r.2
  unfold monthFloorDays monthStartDays monthOfDays
  omega

/-- the first day of the next month is after the day -/
theorem lt_monthCeilDays (d : Int) : d < monthCeilDays d := by
  have r := yday_range d
  have h := cumDays_monthOfYday (yearOfDays d) (d - jan1 (yearOfDays d)) r.1 r.2
  unfold monthCeilDays monthStartDays
  simp only []
  split
  · rename_i hm
    unfold monthOfDays at hm
    rw [hm] at h
    have c13 := cumDays_13 (yearOfDays d)
    have e : (12 : Int) + 1 = 13 := by decide
    rw [e] at h
    rw [jan1_succ]
    have : cumDays (yearOfDays d + 1) 1 = 0 := by unfold cumDays; simp
    omega
  · unfold monthOfDays
    omega

theorem yearOfDays_monthStart (y m : Int) (h1 : 1 ≤ m) (h2 : m ≤ 12) : yearOfDays (monthStartDays y m) = y := by
  have c := cumDays_range y m h1 h2
  apply yearOfDays_unique
  · unfold monthStartDays; omega
  · rw [jan1_succ]; unfold monthStartDays; omega

theorem monthOfDays_monthStart (y m : Int) (h1 : 1 ≤ m) (h2 : m ≤ 12) : monthOfDays (monthStartDays y m) = m := by
  unfold monthOfDays
  rw [yearOfDays_monthStart y m h1 h2]
  have : monthStartDays y m - jan1 y = cumDays y m := by unfold monthStartDays; omega
  rw [this, monthOfYday_cumDays y m h1 h2]

theorem yearOfDays_monthFloor (d : Int) : yearOfDays (monthFloorDays d) = yearOfDays d := by
  have r := monthOfDays_range d
  exact yearOfDays_monthStart _ _ r.1 r.2

theorem monthOfDays_monthFloor (d : Int) : monthOfDays (monthFloorDays d) = monthOfDays d := by
  have r := monthOfDays_range d
  exact monthOfDays_monthStart _ _ r.1 r.2

/-- years are at least 365 days long -/
theorem jan1_add_ge (a k : Int) (hk : 0 ≤ k) : jan1 a + 365 * k ≤ jan1 (a + k) := by
  unfold jan1; omega

/-- the year of a day at most `365·k` days later is at most `k` years later -/
theorem yearOfDays_diff_le (d e k : Int) (hk : 0 ≤ k) (h : e ≤ d + 365 * k) :
    yearOfDays e - yearOfDays d ≤ k := by
  apply Classical.byContradiction
  intro hc
  have a := jan1_le_yearOfDays e
  have b := lt_jan1_succ_yearOfDays d
  have m : jan1 (yearOfDays d + 1 + k) ≤ jan1 (yearOfDays e) := jan1_le_of_le (by omega)
  have g := jan1_add_ge (yearOfDays d + 1) k hk
  omega

end Mkts.Time
