import Mkts.Proto
import Mkts.Model.CatalogConc
import Mkts.Driver.Catalog
/-!
Driver for the `catrace` op (C17 concurrent part), Go side: go/harness/catalog_ops.go.
  catrace <nowYear> <variant> <setup;…> <t1> <t2> <sched>
variants: `seq01`, `seq10` (one request after the other), `par` (all enabled interleavings must end
in the same state), `dc` (the schedule `<sched>`: a string of thread numbers 0/1, one per atom).
-/
namespace Mkts.Driver.CatalogConc
open Mkts.Proto Mkts.Catalog Mkts.CatalogConc Mkts.Driver.Catalog

def mkThread (nowYear : Int) (sh : Shared) (s : String) : Option Thread :=
  match s.splitOn ":" with
  | ["C", items, cats, sch] => do
    let n ← parseNat sch
    match getTimeFrame (splitItems items) (splitItems cats) with
    | .ok => pure (Thread.mkCreate (splitItems items) (splitItems cats) nowYear n)
    | e => pure (.done e)
  | ["D", items] => some (Thread.mkDestroy (splitItems items))
  | ["W", items, _, ys] => do
    let yl ← parseIntList ys
    match yl, lookupP (splitItems items) sh.dmap with
    | [y], some _ => pure (Thread.mkAddYear (splitItems items) y)
    | _, _ => none
  | _ => none

def runSetup (nowYear : Int) : List String → Shared → Option Shared
  | [], sh => some sh
  | s :: rest, sh => do
    let th ← mkThread nowYear sh s
    let sys := runSeq 0 64 ⟨[th], sh⟩
    runSetup nowYear rest sys.sh

/-- thread 0 (a Destroy) runs until its next atom is the final `root.removeSubDir` -/
def runUntilF2 : Nat → Sys → Sys
  | 0, s => s
  | f + 1, s =>
    match s.threads[0]? with
    | some (Thread.destroy _ _ _ DPc.f2) => s
    | _ => match s.step 0 with
      | none => s
      | some s' => runUntilF2 f s'

def resStr (t : Thread) : String :=
  match t.result with
  | some r => r.str
  | none => "running"

def render (keys : List Path) (s : Sys) : String :=
  let sh := s.sh
  let live := sortS (dedup (((reachDirs sh.heap 5 0).filter (fun p => p.length == 3)).map pathStr))
  let fl := sortS ((catalogYears sh).map (fun e => pathStr e.1 ++ "/" ++ toString e.2 ++ ".bin"))
  let dk := sortS ((diskYears sh).map (fun e => pathStr e.1 ++ "/" ++ toString e.2 ++ ".bin"))
  let c := CatalogConc.consistent sh && keys.all (CatalogConc.dmapAgree sh)
  let rl := listTbk (load sh.disk)
  " ".intercalate ((s.threads.zipIdx.map (fun (t, i) => s!"T{i+1}={resStr t}")) ++
    ["L=" ++ joinOr live, "F=" ++ joinOr fl, "K=" ++ joinOr dk, "RL=" ++ joinOr rl, (if c then "/1" else "/0")])

def stepKey (s : String) : List Path :=
  match s.splitOn ":" with
  | _ :: items :: _ => let p := splitItems items; if p.length == 3 then [p] else []
  | _ => []

def catraceOp : Mkts.Proto.Op := fun args =>
  match args with
  | [ny, variant, setup, t1, t2, sched] =>
    match parseInt ny with
    | none => badArgs
    | some nowYear =>
      match runSetup nowYear (if setup == "-" then [] else setup.splitOn ";") Shared.init with
      | none => "unsupported"
      | some sh =>
        match mkThread nowYear sh t1, mkThread nowYear sh t2 with
        | some th1, some th2 =>
          let sys : Sys := ⟨[th1, th2], sh⟩
          let keys := stepKey t1 ++ stepKey t2
          let fin : Option Sys :=
            if variant == "seq01" then some (runSeq 1 64 (runSeq 0 64 sys))
            else if variant == "seq10" then some (runSeq 0 64 (runSeq 1 64 sys))
            else if variant == "dc" then
              -- the directed schedule of the harness: Destroy up to (not including) its final
              -- root.removeSubDir, then the whole Create, then the rest of Destroy
              some (runSeq 0 64 (runSeq 1 64 (runUntilF2 64 sys)))
            else if variant == "sched" then
              (sched.toList.mapM (fun c => if c == '0' then some 0 else if c == '1' then some 1 else none)).bind sys.run
            else if variant == "par" then
              match (explore 64 sys).map (render keys) |>.eraseDups with
              | [_] => (explore 64 sys).head?
              | _ => none
            else none
          match fin with
          | none => "M:nondet-or-disabled"
          | some f =>
            let line := render keys f
            let ok := f.finished
            -- hypothesis of the concurrent partial theorem: a Destroy and a Create that overlap
            -- in time work on different symbols
            let sym (s : String) : String := match s.splitOn ":" with
              | _ :: items :: _ => (splitItems items).headD ""
              | _ => ""
            let hyps := if variant == "dc" && t1.startsWith "D:" && t2.startsWith "C:" && sym t1 == sym t2
              then ["destroy_concurrent_with_create_same_symbol"] else []
            s!"M:{line}{if ok then "" else " unfinished"}\tS:~ /1\tH:{",".intercalate hyps}"
        | _, _ => "unsupported"
  | _ => badArgs

def ops : OpTable := [("catrace", catraceOp)]

end Mkts.Driver.CatalogConc
