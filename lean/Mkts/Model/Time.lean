import Mkts.Extracted.Facts
/-!
# Time model (mirrors `utils/io/timeindex.go`, `utils/io/metadata.go: FileSize`)

Instants are `Int` nanoseconds since the Unix epoch.  Go's `time` package is *modelled*:
the proleptic Gregorian calendar by the usual day-count formulas, a location as a finite
transition table, `time.Date` by Go's documented two-lookup rule.  Core Lean only.
-/
namespace Mkts.Time

def nsPerSec : Int := 1000000000
def secPerDay : Int := 86400
def dayNs : Int := 86400 * 1000000000

/-- days since 1970-01-01 of January 1 of civil year `y` (proleptic Gregorian) -/
def jan1 (y : Int) : Int :=
  365 * (y - 1970) + (y - 1) / 4 - (y - 1) / 100 + (y - 1) / 400 - 477

/-- civil year containing day number `d` (days since 1970-01-01): estimate, then pick the year
    of the five-year window around the estimate whose January 1 is the last one ≤ `d`. -/
def yearOfDays (d : Int) : Int :=
  let y0 := 1970 + (d * 400) / 146097
  if jan1 (y0 + 2) ≤ d then y0 + 2
  else if jan1 (y0 + 1) ≤ d then y0 + 1
  else if jan1 y0 ≤ d then y0
  else if jan1 (y0 - 1) ≤ d then y0 - 1
  else y0 - 2

def isLeap (y : Int) : Bool := (y % 4 == 0 && y % 100 != 0) || y % 400 == 0

/-- A location: offset (seconds east of UTC) in force before the first transition, then
    ascending `(unix second, offset)` transitions. -/
structure Zone where
  init : Int
  trans : List (Int × Int)
deriving Repr

def utc : Zone := { init := 0, trans := [] }

/-- Go's `Location.lookup`: offset in force at `sec` and the bounds `[start, end)` of that period.
    `none` bounds stand for −∞ / +∞. -/
def Zone.lookupAux : List (Int × Int) → Int → Int → Option Int → (Int × Option Int × Option Int)
  | [], _, off, start => (off, start, none)
  | (t, o) :: rest, sec, off, start =>
    if sec < t then (off, start, some t) else Zone.lookupAux rest sec o (some t)

def Zone.lookup (z : Zone) (sec : Int) : (Int × Option Int × Option Int) :=
  Zone.lookupAux z.trans sec z.init none

def Zone.offsetAt (z : Zone) (sec : Int) : Int := (z.lookup sec).1

/-- `time.Date(...).Unix()` for a civil wall-clock reading given as seconds since the civil epoch
    (`unixAsIfUTC`), Go's rule: look the offset up at that reading, and once more if the shifted
    instant falls outside the period found. -/
def Zone.dateToUnix (z : Zone) (unixAsIfUTC : Int) : Int :=
  let (off, st, en) := z.lookup unixAsIfUTC
  if off != 0 then
    let u := unixAsIfUTC - off
    let inside := (match st with | none => true | some s => decide (s ≤ u)) &&
                  (match en with | none => true | some e => decide (u < e))
    if inside then u else unixAsIfUTC - z.offsetAt u
  else unixAsIfUTC

/-- floor division of an instant into whole seconds -/
def secOf (ns : Int) : Int := ns / nsPerSec

def localDays (z : Zone) (ns : Int) : Int := (secOf ns + z.offsetAt (secOf ns)) / secPerDay

/-- `t.In(zone).Year()` -/
def localYear (z : Zone) (ns : Int) : Int := yearOfDays (localDays z ns)

/-- instant (ns) of `time.Date(y, January, 1, 0,0,0,0, zone)` -/
def yearStart (z : Zone) (y : Int) : Int := z.dateToUnix (jan1 y * secPerDay) * nsPerSec

/-- `t.In(zone).YearDay()` (1-based) -/
def yearDay (z : Zone) (ns : Int) : Int :=
  localDays z ns - jan1 (localYear z ns) + 1

def headersize : Int := Mkts.Extracted.utils_io_Headersize

/-- `TimeToIndex(t, tf)` with the configured zone `z` -/
def timeToIndex (z : Zone) (t tf : Int) : Int :=
  if tf == dayNs then yearDay z t - 1
  else 1 + (t - yearStart z (localYear z t)).tdiv tf

/-- `IndexToTime(index, tf, year)`; for 1D `t0.AddDate(0,0,index)` is `Date(year, 1, 1+index, ...)` -/
def indexToTime (z : Zone) (index tf year : Int) : Int :=
  if tf == dayNs then z.dateToUnix ((jan1 year + index) * secPerDay) * nsPerSec
  else yearStart z year + tf * (index - 1)

/-- `IndexToOffset(index, recordSize)` -/
def indexToOffset (index recSize : Int) : Int := (index - 1) * recSize + headersize

/-- `TimeToOffset` -/
def timeToOffset (z : Zone) (t tf recSize : Int) : Int := indexToOffset (timeToIndex z t tf) recSize

/-- `FileSize(tf, year, recordSize)`; NB the code uses the *process* zone `time.Local`, passed
    here as `zl`, not the configured one. -/
def fileSize (zl : Zone) (tf year recSize : Int) : Int :=
  headersize + ((yearStart zl (year + 1) - yearStart zl year).tdiv tf) * recSize

end Mkts.Time
