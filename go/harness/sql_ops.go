package main

// `sqlstore` op (C19, C20): one line = a scenario against one real in-process server instance:
// the steps of the `store` op (C: create, W: write, Q: query, I, L, D — see instance.go) plus
//
//	X:<sql text hex>:<structured form>
//
// which runs the SQL statement exactly like frontend.DataService.executeSQL does
// (sqlparser.BuildQueryTree -> NewExecutableStatement -> Materialize: real ANTLR lexer/parser,
// real visitor, real planner/reader, real post-filter, real writer for INSERT INTO).  This side
// uses ONLY the SQL text; the Lean driver uses the structured form and checks that it prints to
// the same text (Mkts/Driver/Sql.lean `renderSql`).

import (
	"fmt"
	"os"
	"strconv"
	"strings"
	"time"

	mio "github.com/alpacahq/marketstore/v4/utils/io"
	"github.com/alpacahq/marketstore/v4/sqlparser"
)

func sqlErrClass(msg string) string {
	m := strings.ToLower(msg)
	switch {
	case strings.Contains(m, "query columns not found"):
		return "err:colnotfound"
	case strings.Contains(m, "unable to convert string to date"):
		return "err:date"
	case strings.Contains(m, "unable to find these columns"):
		return "err:insertcols"
	case strings.Contains(m, "unable to match data columns"):
		return "err:colmismatch"
	case strings.Contains(m, "non date predicate"):
		return "err:epochpred"
	case strings.Contains(m, "source column named"):
		return "err:rename"
	case strings.Contains(m, "unsupported"), strings.Contains(m, "not supported"), strings.Contains(m, "only primary expressions"):
		return "err:unsupported"
	case strings.Contains(m, "no files returned from query parse"), strings.Contains(m, "not in catalog"),
		strings.Contains(m, "path not found"), strings.Contains(m, "does not contain"), strings.Contains(m, "not found in catalog"):
		return "err:nokey"
	case strings.Contains(m, "syntax error"), strings.Contains(m, "mismatched input"), strings.Contains(m, "no viable alternative"),
		strings.Contains(m, "extraneous input"), strings.Contains(m, "missing "), strings.Contains(m, "token recognition"):
		return "err:syntax"
	}
	return "err:other"
}

// renderSQL prints a Materialize result: `<n>[<names in returned order, Epoch included>]` then the
// rows joined by `+`, each row = the hex of every column's element (little endian) joined by `,`.
func renderSQL(cs *mio.ColumnSeries) string {
	if cs == nil {
		return "nil"
	}
	if cs.GetColumn("Rows Written") != nil {
		if c, ok := cs.GetColumn("Rows Written").([]float32); ok && len(c) == 1 {
			return "ins:" + strconv.Itoa(int(c[0]))
		}
		return "ins:?"
	}
	n := cs.Len()
	if n == 0 {
		return "0[]"
	}
	names := cs.GetColumnNames()
	type bc struct {
		b  []byte
		sz int
	}
	var cols []bc
	for _, nm := range names {
		b := mio.CastToByteSlice(cs.GetColumn(nm))
		if len(b)%n != 0 {
			// a column whose length differs from the first column's (RestrictViaBitmap skipped it)
			return fmt.Sprintf("ragged:%s", nm)
		}
		cols = append(cols, bc{b, len(b) / n})
	}
	var sb strings.Builder
	fmt.Fprintf(&sb, "%d[%s]", n, strings.Join(names, ","))
	for i := 0; i < n; i++ {
		if i > 0 {
			sb.WriteByte('+')
		}
		for j, c := range cols {
			if j > 0 {
				sb.WriteByte(',')
			}
			sb.WriteString(hx(c.b[i*c.sz : (i+1)*c.sz]))
		}
	}
	return sb.String()
}

func (in *Inst) runSQL(text string) string {
	showErr := os.Getenv("VERIF_SHOW_ERR") != ""
	fail := func(err error) string {
		if showErr {
			fmt.Fprintln(os.Stderr, "SQLERR:", err.Error())
		}
		return "X=" + sqlErrClass(err.Error())
	}
	// the code prints parse errors / "Query returned n rows" with fmt.Println: silence stdout
	devnull, _ := os.OpenFile(os.DevNull, os.O_WRONLY, 0)
	saved := os.Stdout
	if devnull != nil && !showErr {
		os.Stdout = devnull
		defer func() { os.Stdout = saved; devnull.Close() }()
	}
	queryTree, err := sqlparser.BuildQueryTree(text)
	if err != nil {
		if showErr {
			fmt.Fprintln(os.Stderr, "SQLERR(parse):", err.Error())
		}
		return "X=err:syntax"
	}
	es, err := sqlparser.NewExecutableStatement(queryTree)
	if err != nil {
		return fail(err)
	}
	cs, err := es.Materialize(in.c.GetAggRunner(), in.c.GetCatalogDir())
	if err != nil {
		return fail(err)
	}
	return "X=" + renderSQL(cs)
}

// sqlstore <nowYear> <step> <step> ...
func sqlStoreOp(a []string) (res string) {
	root := scratchDir("sqlstore")
	defer os.RemoveAll(root)
	var out []string
	var in *Inst
	func() {
		defer func() {
			if r := recover(); r != nil {
				lastPanic = fmt.Sprint(r)
				out = append(out, "startup_panic")
			}
		}()
		in = startInst(root, nil)
	}()
	if in == nil {
		return strings.Join(out, " ")
	}
	defer func() { in.abandon() }()
	nowYear := time.Now().UTC().Year()
	if a[0] != strconv.Itoa(nowYear) {
		return "harness:bad-arg now-year " + a[0] + " != " + strconv.Itoa(nowYear)
	}
	for _, step := range a[1:] {
		func() {
			defer func() {
				if r := recover(); r != nil {
					lastPanic = fmt.Sprint(r)
					out = append(out, step[:1]+"="+panicClass(r))
				}
			}()
			if strings.HasPrefix(step, "X:") {
				f := strings.SplitN(step, ":", 3)
				b, err := unhx(f[1])
				if err != nil {
					panic("bad-arg sqlhex")
				}
				out = append(out, in.runSQL(string(b)))
				return
			}
			out = append(out, in.runStoreStep(step))
		}()
	}
	return strings.Join(out, " ")
}

func init() {
	ops["sqlstore"] = sqlStoreOp
	slowOps["sqlstore"] = true
}
