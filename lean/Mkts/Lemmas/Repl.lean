import Mkts.Model.Repl
import Mkts.Lemmas.Store
import Mkts.Props.C30
/-! Helper lemmas for C25: every fixed write command is the slot of some instant, and converting such a
command back to a row (interval start) and writing it again yields the same command. -/
namespace Mkts.Repl
open Mkts.Time Mkts.Bytes Mkts.Store Mkts.Props

/-- the command addresses the slot of some written instant -/
def Aligned (tf : Int) (c : Cmd) : Prop :=
  ∃ sec : Int, c.year = localYear utc (nsOfSec sec) ∧ c.index = timeToIndex utc (nsOfSec sec) tf

theorem writeRecordsAux_aligned (tf : Int) (rows : List Row) :
    ∀ (cc : Option Cmd) (pi py : Int) (acc : List Cmd),
      (∀ c, cc = some c → Aligned tf c) → (∀ c ∈ acc, Aligned tf c) →
      ∀ c ∈ writeRecordsAux tf rows cc pi py acc, Aligned tf c := by
  induction rows with
  | nil =>
    intro cc pi py acc hcc hacc c hc
    cases cc with
    | none => simp [writeRecordsAux] at hc; exact hacc c hc
    | some c0 =>
      simp [writeRecordsAux] at hc
      rcases hc with hc | hc
      · exact hacc c hc
      · subst hc; exact hcc _ rfl
  | cons r rest ih =>
    intro cc pi py acc hcc hacc c hc
    cases cc with
    | none =>
      simp only [writeRecordsAux] at hc
      exact ih _ _ _ acc (by intro c' h'; cases h'; exact ⟨r.sec, rfl, rfl⟩) hacc c hc
    | some c0 =>
      simp only [writeRecordsAux] at hc
      split at hc
      · refine ih _ _ _ acc ?_ hacc c hc
        intro c' h'; cases h'
        obtain ⟨s, h1, h2⟩ := hcc c0 rfl
        exact ⟨s, h1, h2⟩
      · refine ih _ _ _ (c0 :: acc) (by intro c' h'; cases h'; exact ⟨r.sec, rfl, rfl⟩) ?_ c hc
        intro c' h'
        rcases List.mem_cons.mp h' with h' | h'
        · subst h'; exact hcc _ rfl
        · exact hacc c' h'

theorem writeRecords_aligned (tf : Int) (rows : List Row) : ∀ c ∈ writeRecords tf rows, Aligned tf c := by
  unfold writeRecords
  exact writeRecordsAux_aligned tf rows none 0 0 [] (by intro c h; cases h) (by intro c h; cases h)

theorem writeRecords_single (tf : Int) (r : Row) :
    writeRecords tf [r] = [⟨localYear utc (nsOfSec r.sec), timeToIndex utc (nsOfSec r.sec) tf, r.payload⟩] := by
  simp [writeRecords, writeRecordsAux]

/-- the row `wtSetToCS` builds for a fixed command: the interval start in seconds, the payload -/
def replicaRow (tf : Int) (c : Cmd) : Row := ⟨indexToTime utc c.index tf c.year / nsPerSec, c.payload⟩

theorem roundtrip_time (tf : Int) (c : Cmd) (htf : 0 < tf) (hs : nsPerSec ∣ tf) (ha : Aligned tf c) :
    localYear utc (nsOfSec (replicaRow tf c).sec) = c.year ∧
    timeToIndex utc (nsOfSec (replicaRow tf c).sec) tf = c.index := by
  obtain ⟨sec, hy, hi⟩ := ha
  obtain ⟨q, hq⟩ := hs
  by_cases hd : tf = dayNs
  · -- one slot per calendar day
    subst hd
    have h1 := C30.utc_timeToIndex_1D (nsOfSec sec)
    have a := jan1_le_yearOfDays (nsOfSec sec / 86400000000000)
    have b := lt_jan1_succ_yearOfDays (nsOfSec sec / 86400000000000)
    have et : nsOfSec (replicaRow dayNs c).sec = (nsOfSec sec / 86400000000000) * 86400000000000 := by
      simp only [replicaRow, nsOfSec, indexToTime, beq_self_eq_true, if_true, utc_dateToUnix, secPerDay, nsPerSec]
      rw [hi, hy, h1]
      simp only [localYear, utc_localDays, nsOfSec, nsPerSec]
      omega
    rw [et]
    constructor
    · rw [hy]; simp only [localYear, utc_localDays]
      congr 1; omega
    · rw [C30.utc_timeToIndex_1D, hi, h1]
      simp only [localYear, utc_localDays]
      have : (nsOfSec sec / 86400000000000 * 86400000000000) / 86400000000000 = nsOfSec sec / 86400000000000 := by omega
      rw [this]
  · have hint := C30.C30_interval utc C30.utc_coherent (nsOfSec sec) tf htf hd
    have hlt := C30.utc_coherent.lt (nsOfSec sec)
    rw [← hy, ← hi] at hint
    rw [← hy] at hlt
    have hit : indexToTime utc c.index tf c.year = yearStart utc c.year + tf * (c.index - 1) := by
      simp [indexToTime, hd]
    have hin : yearStart utc c.year + tf * (c.index - 1) < yearStart utc (c.year + 1) := by
      rw [← hit]; omega
    have hrt := C30.C30_roundtrip utc C30.utc_coherent c.year c.index tf htf hd hint.2.2 hin
    have et : nsOfSec (replicaRow tf c).sec = indexToTime utc c.index tf c.year := by
      simp only [replicaRow, nsOfSec]
      rw [hit, utc_yearStart, hq]
      simp only [nsPerSec]
      have : jan1 c.year * 86400000000000 + 1000000000 * q * (c.index - 1) =
          1000000000 * (jan1 c.year * 86400 + q * (c.index - 1)) := by
        rw [Int.mul_add, Int.mul_assoc]; omega
      rw [this, Int.mul_ediv_cancel_left _ (by decide), Int.mul_comm]
    rw [et]; exact hrt

/-- `wtSetToCS` followed by the replica's own `WriteRecords` reproduces the master's command -/
theorem replica_cmd_roundtrip (tf : Int) (c : Cmd) (htf : 0 < tf) (hs : nsPerSec ∣ tf) (ha : Aligned tf c) :
    writeRecords tf [replicaRow tf c] = [c] := by
  rw [writeRecords_single]
  obtain ⟨h1, h2⟩ := roundtrip_time tf c htf hs ha
  rw [h1, h2]
  rfl

end Mkts.Repl
