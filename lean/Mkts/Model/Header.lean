import Mkts.Model.Bytes
import Mkts.Extracted.Facts
import Mkts.Extracted.Skeletons
/-!
# Year-file header: `Header.Load` (encode), `readHeader`/`load` (decode), `NewTimeBucketInfo`
(`utils/io/metadata.go`), core Lean only.

The header is a fixed 37024-byte struct (`Extracted.headerLayout`): seven little-endian int64
fields with the 256-byte description after the version, 1024 name fields of 32 bytes, 1024 type
bytes, 2920 reserved bytes.  `Header.Load` `copy`s strings into the fixed fields (silent
truncation) and indexes the arrays with `i < NElements` (index panic above 1024 columns);
`load` reads the names back with `bytes.Trim(field, "\x00")` (NULs at BOTH ends are dropped).
-/
namespace Mkts.Header
open Mkts.Bytes

abbrev Str := List UInt8

def descBytes : Nat := Mkts.Extracted.utils_io_descriptionHeaderBytes.toNat
def nameBytes : Nat := Mkts.Extracted.utils_io_elementNameHeaderBytes.toNat
def maxElems : Nat := Mkts.Extracted.utils_io_maxNumElements.toNat
def reserved2Bytes : Nat := Mkts.Extracted.utils_io_reservedHeader2Bytes.toNat * 8
def headersize : Nat := Mkts.Extracted.utils_io_Headersize.toNat

/-- `TimeBucketInfo` (the fields that go to disk) -/
structure TBI where
  version : Nat
  description : Str
  year : Nat
  timeframe : Nat
  recordType : Nat
  recordLength : Nat
  names : List Str
  types : List Nat
deriving Repr, DecidableEq

def zeros (n : Nat) : Bytes := List.replicate n 0

/-- `copy(dst[:n], s)` into a zeroed field -/
def padTo (n : Nat) (s : Str) : Bytes := s.take n ++ zeros (n - s.length)

@[simp] theorem zeros_length (n : Nat) : (zeros n).length = n := by simp [zeros]

theorem padTo_length (n : Nat) (s : Str) : (padTo n s).length = n := by
  simp [padTo, List.length_take]; omega

def encNames (names : List Str) : Bytes := names.flatMap (padTo nameBytes)

def encTypes (types : List Nat) : Bytes := types.map UInt8.ofNat

/-- `WriteHeader` = `Header.Load` + the raw struct bytes; `none` = index-out-of-range panic
    (more than 1024 elements) -/
def encode (f : TBI) : Option Bytes :=
  let n := f.types.length
  if n > maxElems then none else
  some (le 8 f.version ++ padTo descBytes f.description ++ le 8 f.year ++ le 8 f.timeframe ++
    le 8 f.recordType ++ le 8 n ++ le 8 f.recordLength ++ zeros 8 ++
    (encNames (f.names.take n) ++ zeros ((maxElems - n) * nameBytes)) ++
    (encTypes f.types ++ zeros (maxElems - n)) ++ zeros reserved2Bytes)

/-- `bytes.Trim(b, "\x00")` -/
def trimNul (b : Bytes) : Bytes :=
  ((b.dropWhile (· == 0)).reverse.dropWhile (· == 0)).reverse

def decNames : Nat → Bytes → List Str
  | 0, _ => []
  | n + 1, b => trimNul (b.take nameBytes) :: decNames n (b.drop nameBytes)

/-- `readHeader` + `load` on the first `Headersize` bytes of a year file; `none` = the read fails
    (short file ⇒ `log.Fatal` in `initFromFile`) or NElements exceeds the arrays -/
def decode (b : Bytes) : Option TBI :=
  if b.length < headersize then none else
  let fld (off len : Nat) : Bytes := (b.drop off).take len
  let n := leDecode (fld 288 8)
  if n > maxElems then none else
  some {
    version := leDecode (fld 0 8)
    description := trimNul (fld 8 descBytes)
    year := leDecode (fld 264 8)
    timeframe := leDecode (fld 272 8)
    recordType := leDecode (fld 280 8)
    recordLength := leDecode (fld 296 8)
    names := decNames n (b.drop 312)
    types := ((b.drop (312 + maxElems * nameBytes)).take n).map (·.toNat) }

/-- field offsets implied by `encode`'s concatenation order -/
def layout : List (String × Nat × Nat) :=
  let sizes : List (String × Nat) := [("Version", 8), ("Description", descBytes), ("Year", 8), ("Timeframe", 8),
    ("RecordType", 8), ("NElements", 8), ("RecordLength", 8), ("reserved1", 8),
    ("ElementNames", maxElems * nameBytes), ("ElementTypes", maxElems), ("reserved2", reserved2Bytes)]
  (sizes.foldl (fun (acc : List (String × Nat × Nat) × Nat) e => (acc.1 ++ [(e.1, acc.2, e.2)], acc.2 + e.2)) ([], 0)).1

/-- no NUL at either end (so that `bytes.Trim` is the identity) -/
def noEdgeNul (s : Str) : Prop := s.head? ≠ some 0 ∧ s.getLast? ≠ some 0

instance (s : Str) : Decidable (noEdgeNul s) := by unfold noEdgeNul; infer_instance

/-- a schema the header stores faithfully -/
structure WF (f : TBI) : Prop where
  lenEq : f.names.length = f.types.length
  count : f.types.length ≤ maxElems
  names : ∀ s ∈ f.names, s.length ≤ nameBytes ∧ noEdgeNul s
  types : ∀ t ∈ f.types, t < 256
  desc : f.description.length ≤ descBytes ∧ noEdgeNul f.description
  version : f.version < 2 ^ 64
  year : f.year < 2 ^ 64
  timeframe : f.timeframe < 2 ^ 64
  recordType : f.recordType < 2 ^ 64
  recordLength : f.recordLength < 2 ^ 64

/-! ## `NewTimeBucketInfo` -/

def epochName : Str := [69, 112, 111, 99, 104]

def alignedSize (n : Nat) : Nat := if n % 8 = 0 then n else n + 8 - n % 8

/-- `NewTimeBucketInfo(tf, path, description, year, dsv, recordType)`: the Epoch column is dropped,
    `sizes` gives the byte size of each element type (attributeMap; unknown ⇒ 0) -/
def newTimeBucketInfo (size : Nat → Nat) (tf : Nat) (desc : Str) (year : Nat) (dsv : List (Str × Nat)) (recordType : Nat) : TBI :=
  let cols := dsv.filter (fun c => c.1 != epochName)
  let fieldLen := (cols.map (fun c => size c.2)).foldl (· + ·) 0
  { version := Mkts.Extracted.utils_io_FileinfoVersion.toNat, description := desc, year := year, timeframe := tf,
    recordType := recordType,
    recordLength := if recordType == 0 then alignedSize fieldLen + 8 else if recordType == 1 then 24 else 0,
    names := cols.map (·.1), types := cols.map (·.2) }

/-! ## `TimeBucketInfo.Validate` (added by the repairs of C15-F14, F9, F1) -/

def dayNs : Nat := 86400000000000

/-- offset of `ElementTypes` in the header -/
def typesOffset : Nat := 312 + maxElems * nameBytes

/-- the three tests of `Validate`; each is applied iff `flags` says the source has it -/
structure ValidateFlags where
  count : Bool
  names : Bool
  daily : Bool
deriving DecidableEq, Repr

def validSchema (fl : ValidateFlags) (t : TBI) : Bool :=
  (!fl.count || decide (t.types.length ≤ maxElems)) &&
  (!fl.names || t.names.all (fun s => decide (s.length ≤ nameBytes) && trimNul s == s)) &&
  (!fl.daily || !(t.recordType == 0 && t.timeframe == dayNs) ||
    decide ((t.recordLength : Int) ≤ (headersize : Int) - typesOffset - t.types.length))

def countAtom : String := "if:len(f.elementTypes) > maxNumElements{"
def namesAtom : String :=
  "if:len(name) > elementNameHeaderBytes || string(bytes.Trim([]byte(name), \"\\x00\")) != name{"
def dailyAtom : String :=
  "if:f.recordType == FIXED && f.timeframe == utils.Day && int(f.recordLength) > Headersize - elementTypesOffset - len(f.elementTypes){"

def hasSub : List String → List String → Bool
  | [], pat => pat.isEmpty
  | a :: l, pat => pat.isPrefixOf (a :: l) || hasSub l pat

/-- `AddTimeBucket` calls `f.Validate()` and returns its error before it makes anything -/
def addCallsInfoValidate : Bool :=
  let sk := Mkts.Extracted.Skel.catalog_Directory_AddTimeBucket
  hasSub sk ["call:f.Validate", "if:err != nil{", "return", "}"] &&
  (sk.takeWhile (· != "call:f.Validate")).all (fun a =>
    !["call:filepath.Join", "call:os.Mkdir", "call:writeCategoryNameFile", "call:newTimeBucketInfoFromTemplate"].contains a)

/-- which tests the CURRENT source performs before a bucket is created (regenerated skeletons of
    `TimeBucketInfo.Validate` and `AddTimeBucket`); all `false` = the code before the repairs -/
def codeFlags : ValidateFlags :=
  let sk := Mkts.Extracted.Skel.utils_io_TimeBucketInfo_Validate
  let rej (atom : String) : Bool := addCallsInfoValidate && hasSub sk [atom, "call:fmt.Errorf", "return", "}"]
  ⟨rej countAtom, rej namesAtom, rej dailyAtom⟩

/-- does the source have a `Validate` method at all (harness prints `V=-` otherwise) -/
def hasInfoValidate : Bool := !Mkts.Extracted.Skel.utils_io_TimeBucketInfo_Validate.isEmpty

/-- the flags of `Validate` itself (function level: independent of who calls it) -/
def methodFlags : ValidateFlags :=
  let sk := Mkts.Extracted.Skel.utils_io_TimeBucketInfo_Validate
  let rej (atom : String) : Bool := hasSub sk [atom, "call:fmt.Errorf", "return", "}"]
  ⟨rej countAtom, rej namesAtom, rej dailyAtom⟩

/-- overwrite `b` at `off` with `w` (a `pwrite` inside the existing extent) -/
def overwrite (b : Bytes) (off : Nat) (w : Bytes) : Bytes :=
  b.take off ++ w.take (b.length - off) ++ b.drop (off + w.length)

/-- non-zero runs `(offset, bytes)` of a byte string: the compact rendering the driver and the
    harness print for a header -/
def runsAux : Bytes → Nat → Option (Nat × Bytes) → List (Nat × Bytes) → List (Nat × Bytes)
  | [], _, cur, acc => (match cur with | some (o, r) => (o, r.reverse) :: acc | none => acc).reverse
  | x :: rest, i, cur, acc =>
    if x == 0 then
      (match cur with
        | some (o, r) => runsAux rest (i + 1) none ((o, r.reverse) :: acc)
        | none => runsAux rest (i + 1) none acc)
    else
      (match cur with
        | some (o, r) => runsAux rest (i + 1) (some (o, x :: r)) acc
        | none => runsAux rest (i + 1) (some (i, [x])) acc)

def runs (b : Bytes) : List (Nat × Bytes) := runsAux b 0 none []

end Mkts.Header
