import Mkts.Props.C11
/-!
# C12 — Row limits return the first or last N rows of the range (fixed-length buckets)

In the model a limited query is the unlimited one followed by `take N` (direction FIRST) or
`takeLast N` (direction LAST); the theorems below are the laws the property states.  The chunked
backward file scan (`readBackward`/`seekBackward`, 8192 records per read, several year files) is
*modelled* as "the filled slots of the byte range, in order" and validated by the correspondence
run on sparse files whose rows straddle the read-chunk boundaries; it is not verified step by step.
-/
namespace Mkts.Props.C12
open Mkts.Store Mkts.Time Mkts.Bytes

theorem C12_first (tf : Int) (s : Slots) (st en : Option Int) (n : Nat) :
    query tf s ⟨st, en, some (n, true)⟩ = (query tf s ⟨st, en, none⟩).take n := rfl

theorem C12_last (tf : Int) (s : Slots) (st en : Option Int) (n : Nat) :
    query tf s ⟨st, en, some (n, false)⟩ = takeLast n (query tf s ⟨st, en, none⟩) := rfl

theorem takeLast_length {α} (n : Nat) (l : List α) : (takeLast n l).length = min n l.length := by
  simp [takeLast]; omega

theorem takeLast_all {α} (n : Nat) (l : List α) (h : l.length ≤ n) : takeLast n l = l := by
  simp [takeLast, Nat.sub_eq_zero_of_le h]

theorem takeLast_suffix {α} (n : Nat) (l : List α) : takeLast n l <:+ l := by
  simp [takeLast, List.drop_suffix]

/-- a limit at least as large as the row count changes nothing, in either direction -/
theorem C12_enough (tf : Int) (s : Slots) (st en : Option Int) (n : Nat) (dir : Bool)
    (h : (query tf s ⟨st, en, none⟩).length ≤ n) :
    query tf s ⟨st, en, some (n, dir)⟩ = query tf s ⟨st, en, none⟩ := by
  cases dir
  · rw [C12_last]; exact takeLast_all n _ h
  · rw [C12_first]; exact List.take_of_length_le h

/-- exactly min(N, rows) rows come back -/
theorem C12_count (tf : Int) (s : Slots) (st en : Option Int) (n : Nat) (dir : Bool) :
    (query tf s ⟨st, en, some (n, dir)⟩).length = min n (query tf s ⟨st, en, none⟩).length := by
  cases dir
  · rw [C12_last, takeLast_length]
  · rw [C12_first, List.length_take]

example : query 60000000000 (applyHist 60000000000 [[⟨1577836800, [1]⟩, ⟨1577836860, [2]⟩, ⟨1577836920, [3]⟩]])
    ⟨none, none, some (2, false)⟩ = [⟨1577836860, [2]⟩, ⟨1577836920, [3]⟩] := by decide

end Mkts.Props.C12
