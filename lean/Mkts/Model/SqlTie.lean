import Mkts.Extracted.Skeletons
/-!
Tie of the SQL model (C19, C20) to the statements of the Go source it depends on: features of the
regenerated effect skeletons (`go/factgen/wants.d/Sql.json`) that the repaired behaviour rests on.
Each `Bool` below is pinned to `true` by a `decide` theorem in `Props/C19.lean` / `Props/C20.lean`;
reverting one of the repairs changes the regenerated skeleton, the theorem fails and the check
goes to the search step (where the spec side of the `sqlstore` op exposes the behaviour with a
concrete statement).  Core Lean only.
-/
namespace Mkts.SqlTie
open Mkts.Extracted.Skel

def hasInfix (pat : List String) : List String → Bool
  | [] => pat.isEmpty
  | a :: t => pat.isPrefixOf (a :: t) || hasInfix pat t

def countInfix (pat : List String) : List String → Nat
  | [] => 0
  | a :: t => (if pat.isPrefixOf (a :: t) then 1 else 0) + countInfix pat t

def materialize : List String := sqlparser_SelectRelation_Materialize

/-- `AddComparison` keeps the tighter bound (below / equal-and-strict test, `DelOption` before the
    `Set…`), flags two different equalities -/
def addComparisonTightens : Bool :=
  sqlparser_StaticPredicate_AddComparison ==
    ["switch{", "case:io.EQ{", "call:sp.ContentsEnum.IsSet", "if:sp.ContentsEnum.IsSet(EQUALITY){",
     "call:sp.comparable", "call:sp.comparable", "call:io.GenericComparison",
     "call:sp.comparable", "call:sp.comparable", "call:io.GenericComparison", "if:lt || gt{", "set:sp.contradiction", "}", "}",
     "set:sp.equal", "call:sp.ContentsEnum.AddOption", "}",
     "case:io.LT,io.LTE{", "if:sp.max == nil{", "call:sp.SetMax", "return", "}",
     "call:sp.comparable", "call:sp.comparable", "call:io.GenericComparison", "if:err != nil{", "return", "}",
     "call:sp.comparable", "call:sp.comparable", "call:io.GenericComparison",
     "if:below || (!above && op == io.LT){", "call:sp.ContentsEnum.DelOption", "call:sp.SetMax", "}", "}",
     "case:io.GT,io.GTE{", "if:sp.min == nil{", "call:sp.SetMin", "return", "}",
     "call:sp.comparable", "call:sp.comparable", "call:io.GenericComparison", "if:err != nil{", "return", "}",
     "call:sp.comparable", "call:sp.comparable", "call:io.GenericComparison",
     "if:above || (!below && op == io.GT){", "call:sp.ContentsEnum.DelOption", "call:sp.SetMin", "}", "}",
     "}", "return"]

/-- bounds are compared through `sp.comparable`: Epoch literals on the nanosecond scale -/
def comparesOnOneScale : Bool :=
  sqlparser_StaticPredicate_comparable ==
    ["call:sp.Column.GetName", "if:ok && sp.Column != nil && sp.Column.GetName() == \"Epoch\"{",
     "call:convertUnitToNanosec", "return", "}", "return"]

/-- `Merge` hands the bounds to `AddComparison` without pre-setting any flag on the target -/
def mergeDelegates : Bool :=
  (sqlparser_StaticPredicateGroup_Merge.take 29) ==
    ["if:sp == nil{", "call:fmt.Errorf", "return", "}", "call:spg.Add", "call:sp.ContentsEnum.IsSet",
     "if:sp.ContentsEnum.IsSet(MINBOUND){", "call:sp.ContentsEnum.IsSet", "if:sp.ContentsEnum.IsSet(INCLUSIVEMIN){",
     "call:tgtSP.AddComparison", "}", "else{", "call:tgtSP.AddComparison", "}", "}",
     "call:sp.ContentsEnum.IsSet", "if:sp.ContentsEnum.IsSet(MAXBOUND){", "call:sp.ContentsEnum.IsSet",
     "if:sp.ContentsEnum.IsSet(INCLUSIVEMAX){", "call:tgtSP.AddComparison", "}", "else{", "call:tgtSP.AddComparison",
     "}", "}", "call:sp.ContentsEnum.IsSet", "if:sp.ContentsEnum.IsSet(EQUALITY){", "call:tgtSP.AddComparison", "}"]

def isFalseSeesContradiction : Bool :=
  sqlparser_StaticPredicate_IsFalse ==
    -- (with arguments: the bounds contradict only when min is STRICTLY above max, `io.GT`)
    ["if:sp.contradiction{", "return", "}", "call:sp.comparable(sp.min)", "call:sp.comparable(sp.max)",
     "call:io.GenericComparison(sp.comparable(sp.min), sp.comparable(sp.max), io.GT)", "return"]

/-- push-down: literal through `convertUnitToNanosec`, then the one-nanosecond step for bounds that
    are NOT inclusive, then `time.Unix` → `SetStart` / `SetEnd` -/
def pushdownConvertsAndAdjustsExclusive : Bool :=
  hasInfix ["call:convertUnitToNanosec", "call:sp.ContentsEnum.IsSet", "if:!sp.ContentsEnum.IsSet(INCLUSIVEMIN){", "}",
            "call:time.Unix", "call:q.SetStart"] materialize &&
  hasInfix ["call:convertUnitToNanosec", "call:sp.ContentsEnum.IsSet", "if:!sp.ContentsEnum.IsSet(INCLUSIVEMAX){", "}",
            "call:time.Unix", "call:q.SetEnd"] materialize

/-- Epoch branch of the row filter: the bound is converted before each of the three loops, inside
    the loop only the row value is -/
def epochBoundConvertedOnce : Bool :=
  countInfix ["call:io.GetValueAsInt64", "if:name == \"Epoch\"{", "call:convertUnitToNanosec", "}", "range:col{",
              "if:name == \"Epoch\"{", "call:convertUnitToNanosec", "}", "if:nanosecs != nil{"] materialize == 3 &&
  countInfix ["call:convertUnitToNanosec"] materialize == 8

/-- int8/int16/unsigned columns are widened before the type switch -/
def widensSmallIntegers : Bool :=
  hasInfix ["call:outputColumnSeries.GetColumn", "call:widenIntegerColumn", "typeswitch{"] materialize &&
  sqlparser_widenIntegerColumn ==
    ["typeswitch{", "case:[]int8{", "call:toInt64s", "return", "}", "case:[]int16{", "call:toInt64s", "return", "}",
     "case:[]uint8{", "call:toInt64s", "return", "}", "case:[]uint16{", "call:toInt64s", "return", "}",
     "case:[]uint32{", "call:toInt64s", "return", "}", "case:[]uint64{", "call:toInt64s", "return", "}", "}", "return"]

/-- the int32 case compares `int64(val)` with the un-narrowed literal -/
def int32ComparedWide : Bool :=
  ["if:int64(val) != eqval{", "if:int64(val) < minval{", "if:int64(val) <= minval{", "if:int64(val) > maxval{",
   "if:int64(val) >= maxval{"].all (fun a => materialize.contains a) &&
  !(["if:val != int32(eqval){", "if:val < int32(minval){", "if:val <= int32(minval){", "if:val > int32(maxval){",
     "if:val >= int32(maxval){"].any (fun a => materialize.contains a))

/-- `LIMIT 0` is a limit: the parser records the clause, the visitor copies it, the final
    restriction tests it -/
def limitClauseRecorded : Bool :=
  hasInfix ["call:strconv.Atoi", "set:term.limit", "set:term.hasLimit", "}"] sqlparser_NewQueryNoWithParse &&
  hasInfix ["set:sr.Limit", "set:sr.hasLimit"] sqlparser_ExecutableStatement_VisitQueryNoWithParse &&
  hasInfix ["if:sr.hasLimit || sr.Limit != 0{", "call:outputColumnSeries.RestrictLength", "}", "return"] materialize

/-- projection and aliases in one pass over the select list, no `Project` / `Rename` on a shared series -/
def projectionOnePass : Bool :=
  hasInfix ["if:!sr.IsSelectAll && !skipProjection{", "call:io.NewColumnSeries", "range:sr.SelectList{",
            "call:outputColumnSeries.GetColumn", "if:col == nil{", "call:fmt.Errorf", "return", "}",
            "if:item.IsAliased{", "}", "call:projected.AddColumn", "}", "}"] materialize &&
  !materialize.contains "call:outputColumnSeries.Rename" && !materialize.contains "call:outputColumnSeries.Project"

end Mkts.SqlTie
