import Mkts.Lemmas.Numpy
/-!
# C27 — Query/write wire format round-trips

Model: `Mkts.Numpy` (`NewNumpyDataset`, `NewNumpyMultiDataset`, `Append`, `ToColumnSeries(start,len)`,
both `ToColumnSeriesMap` decoders, the composition loop of `executeQuery`); msgpack is the identity
on the dataset's exported fields (trusted; exercised for real by the correspondence run).  Column
values are opaque byte strings of the element type's size.

Two defects found by this check have been repaired in the code and the model moved with it (the
model reads each variant off the regenerated skeletons, `Mkts.Numpy.appendChecksTypes`,
`guardsNoColumns`, `emptyBucketDecoded`; the `code_*` theorems below pin the repaired variants):
* C27-F13 series without rows keep their columns in both decoders and are no longer dropped;
* C27-F27 `Append` refuses a series whose column types differ from the dataset's.
With them the property holds at full strength: `C27_roundtrip`.
-/
namespace Mkts.Props.C27
open Mkts.Rows Mkts.Numpy Mkts.Bytes

/-- bucket lists the property speaks about: at least one bucket, distinct normalised keys
(`TimeBucketKey.String()` is always normalised), and per series at least one column, distinct
column names (invariant of `AddColumn`), wire-supported element types, columns of the series'
length (zero included), elements of their type's size; all series of one dataset have the same
column names and element types in the same order (otherwise `Append` refuses, which is the
designed behaviour) -/
def ValidBuckets (bs : List (String × ColumnSeries)) : Prop :=
  bs ≠ [] ∧ (bs.map (·.1)).Nodup ∧ (∀ b ∈ bs, ValidBucket b) ∧
  (∀ b ∈ bs, ∀ b' ∈ bs, b.2.cols.map (·.name) = b'.2.cols.map (·.name)) ∧
  (∀ b ∈ bs, ∀ b' ∈ bs, b.2.cols.map (·.typ) = b'.2.cols.map (·.typ))

instance (bs : List (String × ColumnSeries)) : Decidable (ValidBuckets bs) := by
  unfold ValidBuckets ValidBucket; infer_instance

/-- composing the dataset succeeds and both decoders return exactly the original buckets
(keys, column names, column order, element types, values) -/
def RoundTrips (bs : List (String × ColumnSeries)) : Prop :=
  ∃ n, compose bs = .ok (some n) ∧ n.toColumnSeriesMap = .ok (expectCSM bs) ∧
    n.toColumnSeriesMapClient = .ok (expectCSM bs)

/-- The property at full strength: any number of buckets, any lengths including zero, all wire
types, all values. -/
theorem C27_roundtrip (bs : List (String × ColumnSeries)) (hv : ValidBuckets bs) : RoundTrips bs := by
  obtain ⟨hne, hk, hb, hn, ht⟩ := hv
  cases bs with
  | nil => exact absurd rfl hne
  | cons b0 rest =>
    obtain ⟨n, h, ha, hb', _, _⟩ := compose_roundtrip b0 rest hk hb
      (fun b hb' => shapes_of_names_types _ _ (hn b hb' b0 (by simp)) (ht b hb' b0 (by simp)))
    exact ⟨n, h, ha, hb'⟩

/-- Inside the composed dataset the bookkeeping maps hold the running offsets and the lengths. -/
theorem C27_bookkeeping (bs : List (String × ColumnSeries)) (hv : ValidBuckets bs) :
    ∃ n, compose bs = .ok (some n) ∧ n.startIndex = starts 0 bs ∧ n.lengths = lens bs := by
  obtain ⟨hne, hk, hb, hn, ht⟩ := hv
  cases bs with
  | nil => exact absurd rfl hne
  | cons b0 rest =>
    obtain ⟨n, h, _, _, hs, hl⟩ := compose_roundtrip b0 rest hk hb
      (fun b hb' => shapes_of_names_types _ _ (hn b hb' b0 (by simp)) (ht b hb' b0 (by simp)))
    exact ⟨n, h, hs, hl⟩

/-! ## the repaired variants are the ones in the source (regenerated skeletons) -/

theorem code_append_checks_types : appendChecksTypes = true := by decide
theorem code_guards_no_columns : guardsNoColumns = true := by decide
theorem code_empty_bucket_decoded : emptyBucketDecoded = true := by decide

/-! ## the former counterexamples (witnesses corpus/C27/fixed_*.ops) -/

def b8 (x : UInt8) : Bytes := [x, 0, 0, 0, 0, 0, 0, 0]
def keyA : String := "A/1Min/V:Symbol/Timeframe/AttributeGroup"
def keyB : String := "B/1Min/V:Symbol/Timeframe/AttributeGroup"

/-- bucket A with one row, bucket B with the same columns and no rows (C27-F13 before the repair:
B was missing from the server-side decoder's map) -/
def exEmpty : List (String × ColumnSeries) :=
  [(keyA, ⟨[⟨"Epoch", INT64, [b8 1]⟩, ⟨"X", INT32, [[5, 0, 0, 0]]⟩], []⟩),
   (keyB, ⟨[⟨"Epoch", INT64, []⟩, ⟨"X", INT32, []⟩], []⟩)]

/-- only a series without rows (before the repair both decoders lost the columns) -/
def exAllEmpty : List (String × ColumnSeries) := [(keyB, ⟨[⟨"Epoch", INT64, []⟩, ⟨"X", INT32, []⟩], []⟩)]

example : ValidBuckets exEmpty ∧ ValidBuckets exAllEmpty := by decide
example : RoundTrips exEmpty := C27_roundtrip exEmpty (by decide)
example : RoundTrips exAllEmpty := C27_roundtrip exAllEmpty (by decide)

/-- `X` is int32 in bucket A and float32 in bucket B (C27-F27 before the repair: accepted, B's
column came back typed int32) -/
def exTypes : List (String × ColumnSeries) :=
  [(keyA, ⟨[⟨"Epoch", INT64, [b8 1]⟩, ⟨"X", INT32, [[5, 0, 0, 0]]⟩], []⟩),
   (keyB, ⟨[⟨"Epoch", INT64, [b8 2]⟩, ⟨"X", FLOAT32, [[0, 0, 128, 63]]⟩], []⟩)]

/-- such a dataset is now refused -/
theorem C27_types_refused : compose exTypes = .error "err:append-types" := by decide

/-! ## non-vacuity -/

def sample : List (String × ColumnSeries) :=
  [(keyA, ⟨[⟨"Epoch", INT64, [b8 1, b8 2]⟩, ⟨"X", FLOAT32, [[5, 0, 0, 0], [6, 0, 0, 0]]⟩], []⟩),
   (keyB, ⟨[⟨"Epoch", INT64, [b8 3]⟩, ⟨"X", FLOAT32, [[7, 0, 0, 0]]⟩], []⟩)]

example : ValidBuckets sample := by decide
example : RoundTrips sample := C27_roundtrip sample (by decide)
example : ∃ n, compose sample = .ok (some n) ∧ n.startIndex = [(keyA, 0), (keyB, 2)] ∧ n.nds.length = 3 :=
  ⟨_, rfl, by decide, by decide⟩

end Mkts.Props.C27
