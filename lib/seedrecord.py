#!/usr/bin/env python3
"""Reads .work/sr_*.log (lines of lib/seedrun_par.sh / seedrun.sh) into seeded/<id>/meta.json and
regenerates seeded/RESULTS.md."""
import glob, json, os, re
V = os.path.dirname(os.path.dirname(os.path.abspath(__file__)))
for lf in sorted(glob.glob(os.path.join(V, ".work", "sr_*.log"))):
    for line in open(lf):
        m = re.match(r"(\S+) (C\d\d) (quick|thorough) (\d+)s: (.*)", line.strip())
        if not m:
            continue
        sid, prop, tier, secs, out = m.groups()
        mp = os.path.join(V, "seeded", sid, "meta.json")
        if not os.path.exists(mp):
            continue
        meta = json.load(open(mp))
        out = re.sub(r"replay=\S*/replays/", "replay=replays/", out)
        meta.setdefault("checks_run", {})["%s:%s" % (prop, tier)] = {"secs": int(secs), "result": out.strip()[:300]}
        json.dump(meta, open(mp, "w"), indent=1)
rows = []
for mp in sorted(glob.glob(os.path.join(V, "seeded", "*", "meta.json"))):
    sid = os.path.basename(os.path.dirname(mp))
    meta = json.load(open(mp))
    cr = meta.get("checks_run", {})
    caught_by = [k for k, v in cr.items() if "VIOLATION" in v["result"]]
    meta["caught"] = bool(caught_by)
    meta["caught_by"] = ", ".join(caught_by)
    kinds = []
    for k in caught_by:
        rp = os.path.join(V, "seeded", sid, "replay_%s.json" % k.split(":")[0])
        if os.path.exists(rp):
            r = json.load(open(rp))
            kinds.append(r.get("kind", "?") + ("+broken-proof" if r.get("broken_obligations") else ""))
    meta["violation_kind"] = ", ".join(kinds)
    json.dump(meta, open(mp, "w"), indent=1)
    missed = [k for k, v in cr.items() if "VIOLATION" not in v["result"]]
    rows.append("| %s | %s | %s | %s | %s | %s |" % (sid, meta.get("property"), (meta.get("summary", "")[:160] + "…").replace("|", "/"),
                                               ", ".join(meta.get("files", [])), meta["caught_by"] or "**NOT CAUGHT**" if cr else "(not run yet)",
                                               meta["violation_kind"] + ("; missed by " + ", ".join(missed) if missed else "") + (" — SUPERSEDED: " + meta["superseded_by_fix"] if meta.get("superseded_by_fix") else "")))
s = "# Seeded changes and what the checks did with them\n\nEach row: a realistic property-breaking change made by a fresh sub-agent that saw only the property text and a scratch worktree of /repo; confirmed by me (demo passes on HEAD, fails with the change, builds, 322-test suite passes). `caught by` lists the checks that reported a VIOLATION with the change applied; the replay it named is kept as seeded/<id>/replay_<Cxx>.json.\n\n| seed | property | change | files | caught by | how |\n|---|---|---|---|---|---|\n" + "\n".join(rows) + "\n"
open(os.path.join(V, "seeded", "RESULTS.md"), "w").write(s)
print(len(rows), "seeds;", sum(1 for r in rows if "NOT CAUGHT" in r), "not caught")
