import Mkts.Proto
import Mkts.Model.Timeframe
import Mkts.Driver.Time
/-! Driver ops for `utils/timeframe.go` (C31; window helpers shared with C21/C22). -/
namespace Mkts.Driver.Timeframe
open Mkts.Proto Mkts.Time Mkts.Timeframe
open Mkts.Driver.Time (parseZone b2s)

def bytesToStr (b : List UInt8) : Str := b.map (fun x => Char.ofNat x.toNat)
def strToBytes (s : Str) : List UInt8 := s.map (fun c => UInt8.ofNat c.toNat)
def parseStr (tok : String) : Option Str := (hexToBytes tok).map bytesToStr
def showStr (s : Str) : String := bytesToHex (strToBytes s)

/-- instant as `<unix sec>:<nanosecond>` -/
def showInstant (t : Int) : String := s!"{t / 1000000000}:{t % 1000000000}"

def isUtc (z : Zone) : Bool := z.init == 0 && z.trans.isEmpty

/-- names of `_partial` hypotheses of `Props/C31.lean` that are false for this input -/
def windowHyps (cd : CandleDuration) (z : Zone) (ts : Int) : List String :=
  let dflt := cd.suffix != .D && cd.suffix != .M
  (if dflt && cd.mult == 0 then ["mult_zero"] else []) ++
  (if cd.duration != cd.mult * suffixDur cd.suffix then ["mult_overflow"] else []) ++
  (if cd.suffix == .W && cd.mult ≥ 2 then ["multi_week"] else []) ++
  (if !isUtc z && cd.suffix == .W then ["week_non_utc"] else []) ++
  (if !isUtc z && (cd.suffix == .D || cd.suffix == .M) &&
      (localDays z (truncate cd z ts) != (if cd.suffix == .D then localDays z ts else monthFloorDays (localDays z ts)))
    then ["day_start_missing"] else []) ++
  (if !isUtc z && cd.suffix == .D && localDays z (ts + dayNs) == localDays z ts then ["day_longer_than_24h"] else [])

/-- `cdwin <hex string> <sec> <nsec> <usec> <unsec> <zone>` -/
def cdwinOp : Op := fun args =>
  match args with
  | [ss, s1, n1, s2, n2, zs] =>
    match parseStr ss, parseInt s1, parseInt n1, parseInt s2, parseInt n2, parseZone zs with
    | some str, some sec, some nsec, some usec, some unsec, some z =>
      match candleDurationFromString str with
      | none => "M:err:notfound"
      | some cd =>
        let ts := sec * 1000000000 + nsec
        let u := usec * 1000000000 + unsec
        let tr := truncate cd z ts
        let ce := ceil cd z ts
        let w := isWithin cd z ts tr
        let w2 := isWithin cd z u tr
        let w3 := isWithin cd z ts u
        let q := queryableTimeframe cd
        let qn := match queryableNrecords cd q.1 7 with
          | some n => toString n
          | none => "panic:nil"
        let qd := match timeframeFromString q.1 with
          | some d => d != 0 && cd.duration.tmod d == 0
          | none => false
        let p := b2s (decide (tr ≤ ts)) ++ b2s (decide (ts < ce)) ++ b2s w ++ b2s qd
        let hyps := windowHyps cd z ts
        s!"M:dur={cd.duration} tr={showInstant tr} ce={showInstant ce} w={b2s w} w2={b2s w2} w3={b2s w3} qtf={showStr q.1} qn={qn} P={p}\tS:~P=1111\tH:{",".intercalate hyps}"
    | _, _, _, _, _, _ => badArgs
  | _ => badArgs

def canonical (d : Int) : Bool := decide (second ≤ d) && decide (d ≤ year) && d % lowerUnit d == 0

def showRoundTrip (d : Int) : String × Bool :=
  match timeframeFromDuration d with
  | none => ("print=nil re=nil", false)
  | some (s, d') =>
    match timeframeFromString s with
    | none => (s!"print={showStr s}:{d'} re=nil", false)
    | some r => (s!"print={showStr s}:{d'} re={r}", r == d)

/-- `tfparse <hex string>`: parse, print the duration back, parse again -/
def tfparseOp : Op := fun args =>
  match args with
  | [ss] =>
    match parseStr ss with
    | some str =>
      match timeframeFromString str with
      | none => "M:nil"
      | some d =>
        let (txt, ok) := showRoundTrip d
        let hyps := if canonical d then [] else ["noncanonical_duration"]
        s!"M:dur={d} {txt} P={b2s ok}\tS:~P=1\tH:{",".intercalate hyps}"
    | none => badArgs
  | _ => badArgs

/-- `tfdur <int64 ns>`: print a duration, parse it back -/
def tfdurOp : Op := fun args =>
  match args with
  | [ds] =>
    match parseInt ds with
    | some d =>
      let (txt, ok) := showRoundTrip d
      if d < second then s!"M:{txt} P={b2s ok}"
      else
        let hyps := if canonical d then [] else ["noncanonical_duration"]
        s!"M:{txt} P={b2s ok}\tS:~P=1\tH:{",".intercalate hyps}"
    | none => badArgs
  | _ => badArgs

/-- `tftable`: the exported table `utils.Timeframes` -/
def tftableOp : Op := fun _ =>
  "M:" ++ ",".intercalate (timeframes.map (fun tf => s!"{showStr tf.1}:{tf.2}"))

def ops : OpTable := [("cdwin", cdwinOp), ("tfparse", tfparseOp), ("tfdur", tfdurOp), ("tftable", tftableOp)]

end Mkts.Driver.Timeframe
