import Mkts.Lemmas.Ticks
import Mkts.Lemmas.Rne
/-!
# C10 — Sub-interval timestamp encoding is monotone and precise

Model: `Mkts.Ticks` (`utils/io/timeindex.go: GetIntervalTicks32Bit`, `IndexToTimeDepr`;
`executor/rewritebuffer.go: GetTimeFromTicks`).  Every theorem below that mentions `R : Rnd` holds
for **every** rounding operator with relative error `2^-53` that is monotone and exact on
integers up to `2^53` (IEEE binary64 round-to-nearest-even is one; `Rnd.exact` is another).
A timeframe is given by `ipd` (intervals per day) and `tfs` (its length in seconds) with
`ipd * tfs = 86400` — all of `utils.Timeframes`.  `d` is the offset of the timestamp from the
start of its interval in nanoseconds, `start` the unix second of the interval start.

The decoder as written computes the second as `uint64(math.Round(fs*1e8)/1e8)`, which rounds the
second **up** whenever the fractional part of `fs` is ≥ 0.999999995 while the nanosecond field
keeps `.99999999x`: the decoded time is then one second late (finding C10-F5).  So `C10_full` is
false (`C10_cex_*`), `C10_partial` holds with exactly that class excluded, and the full statement
is proved for the repaired decoder `getTimeFromTicksFixed` (`C10_fixed`, `C10_fixed_1sec`).
-/
namespace Mkts.Props.C10
open Mkts.Ticks

/-- what C10 asks of a decoded value `out` for the offset `d` in an interval of `tfs` seconds
    starting at unix second `start`: same interval, never late, at most one resolution step
    (`tf/2^32`, plus the 1 ns granularity of the nanosecond field) early, a nanosecond field
    below 1e9, and exact for 1-second intervals -/
def Precise (start tfs d : ℤ) (out : Decoded) : Prop :=
  start ≤ out.sec ∧ 0 ≤ out.nanos ∧ out.nanos < 1000000000 ∧
  out.offsetNs start ≤ d ∧
  (d - out.offsetNs start) * 4294967296 ≤ tfs * 1000000000 + 4294967296 ∧
  (tfs = 1 → out = ⟨start, d⟩)

/-! ## the encoder -/

/-- no `uint32` wrap inside an interval: the float handed to `uint32(...)` lies in `[0, 2^32)`,
    so the conversion is a plain floor on every platform -/
theorem C10_no_wrap (R : Rnd) (ipd tfs d : ℤ) (h1 : 1 ≤ ipd) (hday : ipd * tfs = 86400)
    (hd0 : 0 ≤ d) (hd1 : d < tfs * 1000000000) :
    0 ≤ encodeF R.r ipd d ∧ encodeF R.r ipd d < 4294967296 ∧
    encode R.r ipd d = ⌊encodeF R.r ipd d⌋ ∧ 0 ≤ encode R.r ipd d ∧ encode R.r ipd d < 4294967296 := by
  obtain ⟨a, b, c, e, f, _⟩ := encode_core R ipd tfs d h1 hday hd0 hd1
  exact ⟨a, b, c, e, f⟩

/-- the encoding preserves order inside an interval -/
theorem C10_encode_mono (R : Rnd) (ipd tfs d1 d2 : ℤ) (h1 : 1 ≤ ipd) (hday : ipd * tfs = 86400)
    (hd0 : 0 ≤ d1) (h12 : d1 ≤ d2) (hd2 : d2 < tfs * 1000000000) :
    encode R.r ipd d1 ≤ encode R.r ipd d2 :=
  encode_mono_core R ipd tfs d1 d2 h1 hday hd0 h12 hd2

/-! ## from the Go entry point to the encoder -/

/-- `IndexToTimeDepr` (float arithmetic) is exact for every timeframe dividing a day -/
theorem C10_base_time_exact (R : Rnd) (index ipd tfs : ℤ) (h1 : 1 ≤ ipd) (hday : ipd * tfs = 86400)
    (hi1 : 1 ≤ index) (hi2 : index ≤ 366 * ipd) :
    indexToTimeDeprOffset R.r index ipd = (index - 1) * (tfs * 1000000000) :=
  indexToTimeDeprOffset_exact R index ipd tfs h1 hday hi1 hi2

/-- `GetIntervalTicks32Bit(ts, index, ipd)` is `encode` of the offset of `ts` from the start of
    slot `index` as defined by `IndexToTime` (C30), for sub-day timeframes in UTC -/
theorem C10_ticks_of_offset (R : Rnd) (ts index ipd tfs : ℤ) (h1 : 1 ≤ ipd) (hday : ipd * tfs = 86400)
    (htf : tfs * 1000000000 ≠ Mkts.Time.dayNs) (hi1 : 1 ≤ index) (hi2 : index ≤ 366 * ipd)
    (hd0 : 0 ≤ ts - Mkts.Time.indexToTime Mkts.Time.utc index (tfs * 1000000000) (Mkts.Time.localYear Mkts.Time.utc ts))
    (hd1 : ts - Mkts.Time.indexToTime Mkts.Time.utc index (tfs * 1000000000) (Mkts.Time.localYear Mkts.Time.utc ts)
      < tfs * 1000000000) :
    getIntervalTicks32Bit R.r ts index ipd =
      encode R.r ipd (ts - Mkts.Time.indexToTime Mkts.Time.utc index (tfs * 1000000000)
        (Mkts.Time.localYear Mkts.Time.utc ts)) :=
  getIntervalTicks32Bit_eq R ts index ipd tfs h1 hday htf hi1 hi2 hd0 hd1

/-! ## the repaired decoder: the full property -/

/-- sharp form of the error bound: never late, early by less than `tf/2^32 + 0.54` ns -/
theorem C10_fixed_bound (R : Rnd) (start ipd tfs d : ℤ) (h1 : 1 ≤ ipd) (hday : ipd * tfs = 86400)
    (hs0 : 0 ≤ start) (hs1 : start + 86403 < 18446744073709551616)
    (hd0 : 0 ≤ d) (hd1 : d < tfs * 1000000000) :
    (getTimeFromTicksFixed R.r start ipd (encode R.r ipd d)).offsetNs start ≤ d ∧
    ((d : ℚ) - (getTimeFromTicksFixed R.r start ipd (encode R.r ipd d)).offsetNs start
      < (tfs : ℚ) * 1000000000 / 4294967296 + 27 / 50) := by
  obtain ⟨_, _, _, hk0, hk1, _⟩ := encode_core R ipd tfs d h1 hday hd0 hd1
  obtain ⟨hoff, _⟩ := fixed_offset R start ipd _ h1 hk0 hk1 hs0 (by omega)
  obtain ⟨hle, hlt⟩ := roundtrip_core R ipd tfs d h1 hday hd0 hd1
  have hres := resolution_bound R ipd tfs h1 hday
  have htfs : 1 ≤ tfs := by nlinarith
  have htfs2 : tfs ≤ 86400 := by nlinarith
  have htq0 : (1:ℚ) ≤ tfs := by exact_mod_cast htfs
  have htq : (tfs:ℚ) ≤ 86400 := by exact_mod_cast htfs2
  rw [hoff]
  refine ⟨hle, ?_⟩
  have : (tfs : ℚ) * 1000000000 / 4294967295.99 ≤ (tfs : ℚ) * 1000000000 / 4294967296 + 1 / 100 := by
    rw [div_add' _ _ _ (by norm_num), div_le_div_iff₀ (by norm_num) (by norm_num)]
    nlinarith
  linarith

/-- **C10 for the repaired decoder** (`fixes/C10_floor_carry.patch`), every rounding operator,
    every timeframe, every offset, every interval start -/
theorem C10_fixed (R : Rnd) (start ipd tfs d : ℤ) (h1 : 1 ≤ ipd) (hday : ipd * tfs = 86400)
    (hs0 : 0 ≤ start) (hs1 : start + 86403 < 18446744073709551616)
    (hd0 : 0 ≤ d) (hd1 : d < tfs * 1000000000) :
    Precise start tfs d (getTimeFromTicksFixed R.r start ipd (encode R.r ipd d)) := by
  obtain ⟨_, _, _, hk0, hk1, _⟩ := encode_core R ipd tfs d h1 hday hd0 hd1
  obtain ⟨hoff, hn0, hn1, hsec⟩ := fixed_offset R start ipd _ h1 hk0 hk1 hs0 (by omega)
  obtain ⟨hle, hlt⟩ := C10_fixed_bound R start ipd tfs d h1 hday hs0 hs1 hd0 hd1
  set out := getTimeFromTicksFixed R.r start ipd (encode R.r ipd d) with hout
  have hstep : (d - out.offsetNs start) * 4294967296 ≤ tfs * 1000000000 + 4294967296 := by
    have : (((d - out.offsetNs start) * 4294967296 : ℤ) : ℚ) < ((tfs * 1000000000 + 4294967296 : ℤ) : ℚ) := by
      push_cast
      have := mul_lt_mul_of_pos_right hlt (show (0:ℚ) < 4294967296 by norm_num)
      have e : ((tfs : ℚ) * 1000000000 / 4294967296 + 27 / 50) * 4294967296
          = (tfs : ℚ) * 1000000000 + 27 / 50 * 4294967296 := by ring
      rw [e] at this
      linarith
    have : (d - out.offsetNs start) * 4294967296 < tfs * 1000000000 + 4294967296 := by exact_mod_cast this
    omega
  refine ⟨hsec, hn0, hn1, hle, hstep, ?_⟩
  intro h1s
  subst h1s
  have hlt' : ((d - out.offsetNs start : ℤ) : ℚ) < ((1 : ℤ) : ℚ) := by
    push_cast; norm_num at hlt; linarith
  have hlt'' : d - out.offsetNs start < 1 := by exact_mod_cast hlt'
  have hoffd : out.offsetNs start = d := by omega
  unfold Decoded.offsetNs at hoffd
  have hsecs : out.sec = start := by omega
  have : out.nanos = d := by rw [hsecs] at hoffd; omega
  cases hv : out with
  | mk s n => rw [hv] at hsecs this; simp only at hsecs this; rw [hsecs, this]

/-- 1-second intervals, repaired decoder: exact to the nanosecond for all `10^9` offsets -/
theorem C10_fixed_1sec (R : Rnd) (start d : ℤ) (hs0 : 0 ≤ start) (hs1 : start + 86403 < 18446744073709551616)
    (hd0 : 0 ≤ d) (hd1 : d < 1000000000) :
    getTimeFromTicksFixed R.r start 86400 (encode R.r 86400 d) = ⟨start, d⟩ :=
  (C10_fixed R start 86400 1 d (by norm_num) (by norm_num) hs0 hs1 hd0 (by omega)).2.2.2.2.2 rfl

/-! ## order preservation of the repaired decoder -/

/-- the repaired decoder is monotone in the ticks: a larger tick count never decodes to an earlier
    instant (every rounding operator, every `ipd ≥ 1`, all `uint32` tick values) -/
theorem C10_decode_mono (R : Rnd) (start ipd k1 k2 : ℤ) (h1 : 1 ≤ ipd) (hs0 : 0 ≤ start)
    (hs1 : start + 86402 < 18446744073709551616) (h0 : 0 ≤ k1) (hk : k1 ≤ k2) (h2 : k2 < 4294967296) :
    (getTimeFromTicksFixed R.r start ipd k1).sec * 1000000000 + (getTimeFromTicksFixed R.r start ipd k1).nanos ≤
    (getTimeFromTicksFixed R.r start ipd k2).sec * 1000000000 + (getTimeFromTicksFixed R.r start ipd k2).nanos := by
  obtain ⟨ho1, _⟩ := fixed_offset R start ipd k1 h1 h0 (by omega) hs0 hs1
  obtain ⟨ho2, _⟩ := fixed_offset R start ipd k2 h1 (by omega) h2 hs0 hs1
  have hm := fixedOff_mono R ipd k1 k2 h1 h0 hk h2
  unfold Decoded.offsetNs at ho1 ho2
  omega

/-- write then read preserves the order of timestamps inside an interval: for offsets `d1 ≤ d2`
    of one interval the decoded instants are in the same order (every rounding operator, every
    timeframe dividing a day) -/
theorem C10_roundtrip_mono (R : Rnd) (start ipd tfs d1 d2 : ℤ) (h1 : 1 ≤ ipd) (hday : ipd * tfs = 86400)
    (hs0 : 0 ≤ start) (hs1 : start + 86402 < 18446744073709551616)
    (hd0 : 0 ≤ d1) (h12 : d1 ≤ d2) (hd2 : d2 < tfs * 1000000000) :
    (getTimeFromTicksFixed R.r start ipd (encode R.r ipd d1)).sec * 1000000000 +
      (getTimeFromTicksFixed R.r start ipd (encode R.r ipd d1)).nanos ≤
    (getTimeFromTicksFixed R.r start ipd (encode R.r ipd d2)).sec * 1000000000 +
      (getTimeFromTicksFixed R.r start ipd (encode R.r ipd d2)).nanos := by
  obtain ⟨_, _, _, hk10, _, _⟩ := encode_core R ipd tfs d1 h1 hday hd0 (by omega)
  obtain ⟨_, _, _, _, hk21, _⟩ := encode_core R ipd tfs d2 h1 hday (by omega) hd2
  exact C10_decode_mono R start ipd _ _ h1 hs0 hs1 hk10
    (C10_encode_mono R ipd tfs d1 d2 h1 hday hd0 h12 hd2) hk21

/-! ## the theorems at the operator the code runs: `rne` (IEEE binary64 round-to-nearest-even),
    proved to be an `Rnd` in `Lemmas/Rne.lean` (`rneRnd`) -/

/-- C10 for the repaired decoder with the executable IEEE operator -/
theorem C10_fixed_rne (start ipd tfs d : ℤ) (h1 : 1 ≤ ipd) (hday : ipd * tfs = 86400)
    (hs0 : 0 ≤ start) (hs1 : start + 86403 < 18446744073709551616)
    (hd0 : 0 ≤ d) (hd1 : d < tfs * 1000000000) :
    Precise start tfs d (getTimeFromTicksFixed rne start ipd (encode rne ipd d)) :=
  C10_fixed rneRnd start ipd tfs d h1 hday hs0 hs1 hd0 hd1

/-- the repaired decoder with `rne` is monotone in the ticks -/
theorem C10_decode_mono_rne (start ipd k1 k2 : ℤ) (h1 : 1 ≤ ipd) (hs0 : 0 ≤ start)
    (hs1 : start + 86402 < 18446744073709551616) (h0 : 0 ≤ k1) (hk : k1 ≤ k2) (h2 : k2 < 4294967296) :
    (getTimeFromTicksFixed rne start ipd k1).sec * 1000000000 + (getTimeFromTicksFixed rne start ipd k1).nanos ≤
    (getTimeFromTicksFixed rne start ipd k2).sec * 1000000000 + (getTimeFromTicksFixed rne start ipd k2).nanos :=
  C10_decode_mono rneRnd start ipd k1 k2 h1 hs0 hs1 h0 hk h2

/-- write then read with `rne` preserves the order of timestamps inside an interval -/
theorem C10_roundtrip_mono_rne (start ipd tfs d1 d2 : ℤ) (h1 : 1 ≤ ipd) (hday : ipd * tfs = 86400)
    (hs0 : 0 ≤ start) (hs1 : start + 86402 < 18446744073709551616)
    (hd0 : 0 ≤ d1) (h12 : d1 ≤ d2) (hd2 : d2 < tfs * 1000000000) :
    (getTimeFromTicksFixed rne start ipd (encode rne ipd d1)).sec * 1000000000 +
      (getTimeFromTicksFixed rne start ipd (encode rne ipd d1)).nanos ≤
    (getTimeFromTicksFixed rne start ipd (encode rne ipd d2)).sec * 1000000000 +
      (getTimeFromTicksFixed rne start ipd (encode rne ipd d2)).nanos :=
  C10_roundtrip_mono rneRnd start ipd tfs d1 d2 h1 hday hs0 hs1 hd0 h12 hd2

/-! ## the decoder as written -/

/-- the property at full strength for the code as written -/
def C10_full : Prop :=
  ∀ (R : Rnd) (start ipd tfs d : ℤ), 1 ≤ ipd → ipd * tfs = 86400 → 0 ≤ start →
    start + 86403 < 18446744073709551616 → 0 ≤ d → d < tfs * 1000000000 →
    Precise start tfs d (getTimeFromTicksOld R.r start ipd (encode R.r ipd d))

/-- **C10 for the code as written**, with exactly the class of finding C10-F5 excluded: the rounded
    second `uint64(math.Round(fs*1e8)/1e8)` equals the whole second (`sec_rounds_up`) and the
    nanosecond field is below 1e9 (`nanos_1e9`) -/
theorem C10_partial (R : Rnd) (start ipd tfs d : ℤ) (h1 : 1 ≤ ipd) (hday : ipd * tfs = 86400)
    (hs0 : 0 ≤ start) (hs1 : start + 86403 < 18446744073709551616)
    (hd0 : 0 ≤ d) (hd1 : d < tfs * 1000000000)
    (sec_rounds_up : secRoundsUp R.r ipd (encode R.r ipd d) = false)
    (nanos_1e9 : nanosOverflow R.r ipd (encode R.r ipd d) = false) :
    Precise start tfs d (getTimeFromTicksOld R.r start ipd (encode R.r ipd d)) := by
  have hsec : roundedOff R.r ipd (encode R.r ipd d) = wholeOff R.r ipd (encode R.r ipd d) := by
    unfold secRoundsUp at sec_rounds_up
    simpa using sec_rounds_up
  have hns : nanosRaw R.r ipd (encode R.r ipd d) < 1000000000 := by
    unfold nanosOverflow at nanos_1e9
    simpa using nanos_1e9
  rw [asis_eq_fixed R.r start ipd _ hsec hns]
  exact C10_fixed R start ipd tfs d h1 hday hs0 hs1 hd0 hd1

/-- the excluded class in terms of what the decoder returns (any tick value, any timeframe):
    nanosecond field `≤ 999 999 994` ⇒ the second is right; `≥ 999 999 996` ⇒ the second is one
    too many (`999 999 995` depends on the last bits) -/
theorem C10_class (R : Rnd) (ipd k : ℤ) (h1 : 1 ≤ ipd) (hk0 : 0 ≤ k) (hk1 : k < 4294967296)
    (hadj : adj R.r ipd k = false) :
    (nanosRaw R.r ipd k ≤ 999999994 → secRoundsUp R.r ipd k = false) ∧
    (999999996 ≤ nanosRaw R.r ipd k →
      secRoundsUp R.r ipd k = true ∧ roundedOff R.r ipd k = wholeOff R.r ipd k + 1) := by
  obtain ⟨a, b⟩ := roundedOff_cases R ipd k h1 hk0 hk1 hadj
  unfold secRoundsUp
  constructor
  · intro h; rw [a h]; simp
  · intro h; rw [b h]; simp

/-- in the excluded class the decoded instant is exactly one second later than the repaired
    decoder's (which is never late): `sec` one more, same nanoseconds -/
theorem C10_late_by_one_second (R : Rnd) (start ipd k : ℤ) (h1 : 1 ≤ ipd) (hk0 : 0 ≤ k) (hk1 : k < 4294967296)
    (hs0 : 0 ≤ start) (hs1 : start + 86403 < 18446744073709551616)
    (hup : roundedOff R.r ipd k = wholeOff R.r ipd k + 1) :
    (getTimeFromTicksOld R.r start ipd k).offsetNs start = fixedOff R.r ipd k + 1000000000 := by
  rw [asis_offset R start ipd k h1 hk0 hk1 hs0 hs1 (Or.inr hup), hup]
  unfold fixedOff; ring

/-- 1-second intervals, code as written: what comes back for every offset (every `R`) -/
theorem C10_1sec (R : Rnd) (start d : ℤ) (hs0 : 0 ≤ start) (hs1 : start + 86403 < 18446744073709551616)
    (hd0 : 0 ≤ d) (hd1 : d < 1000000000) :
    (getTimeFromTicksOld R.r start 86400 (encode R.r 86400 d)).nanos = d ∧
    (d ≤ 999999994 → getTimeFromTicksOld R.r start 86400 (encode R.r 86400 d) = ⟨start, d⟩) ∧
    (999999996 ≤ d → getTimeFromTicksOld R.r start 86400 (encode R.r 86400 d) = ⟨start + 1, d⟩) := by
  obtain ⟨_, _, _, hk0, hk1, _⟩ := encode_core R 86400 1 d (by norm_num) (by norm_num) hd0 (by omega)
  have hfix := C10_fixed_1sec R start d hs0 hs1 hd0 hd1
  set k := encode R.r 86400 d with hk
  obtain ⟨_, _, hW0, hW1, hN0, hN1, _, _, _, hadjT⟩ := decode_core R 86400 k (by norm_num) hk0 hk1
  -- the repaired decoder returned ⟨start, d⟩ without carry: nanosRaw = d, wholeOff = 0
  have hpieces : nanosRaw R.r 86400 k = d ∧ wholeOff R.r 86400 k = 0 := by
    unfold getTimeFromTicksFixed two64 at hfix
    split at hfix
    · have h1 := congrArg Decoded.sec hfix
      have h2 := congrArg Decoded.nanos hfix
      simp only at h1 h2
      rw [Int.emod_eq_of_lt (by omega) (by omega)] at h1
      omega
    · have h1 := congrArg Decoded.sec hfix
      have h2 := congrArg Decoded.nanos hfix
      simp only at h1 h2
      rw [Int.emod_eq_of_lt (by omega) (by omega)] at h1
      omega
  obtain ⟨hN, hW⟩ := hpieces
  have hadj : adj R.r 86400 k = false := by
    cases h : adj R.r 86400 k with
    | false => rfl
    | true => have := (hadjT h).1; omega
  obtain ⟨hok, hlate⟩ := roundedOff_cases R 86400 k (by norm_num) hk0 hk1 hadj
  refine ⟨?_, ?_, ?_⟩
  · unfold getTimeFromTicksOld; exact hN
  · intro h
    unfold getTimeFromTicksOld two64
    rw [hok (by omega), hW, hN, Int.emod_eq_of_lt (by omega) (by omega)]; simp
  · intro h
    unfold getTimeFromTicksOld two64
    rw [hlate (by omega), hW, hN, Int.emod_eq_of_lt (by omega) (by omega)]; simp

/-- counterexample to the full statement, valid for **every** rounding operator: the last four
    nanoseconds of any 1-second interval come back one second late -/
theorem C10_cex_1sec : ¬ C10_full := by
  intro h
  have hp := h Rnd.exact 0 86400 1 999999996 (by norm_num) (by norm_num) (by norm_num) (by norm_num)
    (by norm_num) (by norm_num)
  have hl := (C10_1sec Rnd.exact 0 999999996 (by norm_num) (by norm_num) (by norm_num) (by norm_num)).2.2
    (by norm_num)
  rw [hl] at hp
  have := hp.2.2.2.1
  unfold Decoded.offsetNs at this
  norm_num at this

/-! ## concrete witnesses with the executable IEEE operator `rne` (replayed on the Go code by the
    correspondence run: corpus/C10/known_F5.ops) -/

/-- 1Min bucket, timestamp exactly 20 s after the interval start (a whole-second timestamp):
    decoded as 20.999999995 s -/
theorem C10_cex_1min_whole_second :
    encode rne 1440 20000000000 = 1431655765 ∧
    getTimeFromTicksOld rne 1546300800 1440 1431655765 = ⟨1546300820, 999999995⟩ ∧
    getTimeFromTicksFixed rne 1546300800 1440 1431655765 = ⟨1546300819, 999999995⟩ := by
  decide +kernel

/-- a nanosecond field of 1e9 (and the second rounded up as well) -/
theorem C10_cex_nanos_1e9 :
    getTimeFromTicksOld rne 0 2880 2433814801 = ⟨17, 1000000000⟩ ∧
    getTimeFromTicksFixed rne 0 2880 2433814801 = ⟨17, 0⟩ := by
  decide +kernel

/-- 1-second bucket with `rne`: offset 999 999 995 (the one value the `∀ R` theorem `C10_1sec`
    leaves open) is decoded correctly, 999 999 996 is one second late -/
theorem C10_cex_1sec_rne :
    getTimeFromTicksOld rne 0 86400 (encode rne 86400 999999995) = ⟨0, 999999995⟩ ∧
    getTimeFromTicksOld rne 0 86400 (encode rne 86400 999999996) = ⟨1, 999999996⟩ := by
  decide +kernel

/-- 1D buckets: `TimeToIndex` is 0-based for 1D while `IndexToTimeDepr` subtracts one, so the base
    time handed to the encoder is one day early and the float exceeds `2^32` for *every* timestamp
    (the `uint32` conversion then wraps on amd64, which happens to give the right ticks) -/
theorem C10_cex_1D_wrap :
    indexToTimeDepr rne (Mkts.Time.timeToIndex Mkts.Time.utc 1546387200000000000 Mkts.Time.dayNs) 1 2019
      = 1546387200000000000 - 86400000000000 ∧
    (4294967296 : ℚ) ≤ encodeF rne 1 (86400000000000 + 0) ∧
    getIntervalTicks32Bit rne 1546387200000000000 1 1 = 0 := by
  decide +kernel

/-! ## non-vacuity -/

example : ∃ R : Rnd, R.r (1/3) = 1/3 := ⟨Rnd.exact, rfl⟩
example : (1:ℤ) ≤ 1440 ∧ (1440:ℤ) * 60 = 86400 ∧ (0:ℤ) ≤ 20000000000 ∧ (20000000000:ℤ) < 60 * 1000000000 := by norm_num
/-- the hypotheses of `C10_partial` hold for a concrete non-trivial input … -/
example : secRoundsUp rne 1440 (encode rne 1440 20383000000) = false ∧
    nanosOverflow rne 1440 (encode rne 1440 20383000000) = false ∧
    getTimeFromTicksOld rne 1546300800 1440 (encode rne 1440 20383000000) = ⟨1546300820, 382999997⟩ := by
  decide +kernel
/-- … and fail for the witness of the finding -/
example : secRoundsUp rne 1440 (encode rne 1440 20000000000) = true := by decide +kernel

/-- `C10_decode_mono` is not vacuous and not trivially an equality: consecutive ticks of a 1Min
    bucket decode 14 ns apart -/
example : fixedOff rne 1440 1431655765 = 19999999995 ∧ fixedOff rne 1440 1431655766 = 20000000009 := by
  decide +kernel

end Mkts.Props.C10
