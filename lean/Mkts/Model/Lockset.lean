import Mkts.Extracted.Accesses
/-!
# Lock-set discipline over the regenerated access table (C18, data-race part)

Not a model of executions: a decidable predicate over facts extracted from the Go source
(`go/factgen/accesses.go`): every syntactic access of a shared variable with the locks lexically
held in the enclosing function.  `locksetOk v` holds iff, ignoring initialisation (`i`), the
variable is only read, or only accessed through `sync/atomic`, or some lock is held at every access
(in write mode at every write).  Purely lexical (a lock held by a caller is not seen), hence
conservative: `locksetOk` cannot hold for an access that takes no lock.
-/
namespace Mkts.Lockset

abbrev Access := String × String × String × List (String × String)

def var (a : Access) : String := a.1
def fn (a : Access) : String := a.2.1
def kind (a : Access) : String := a.2.2.1
def locks (a : Access) : List (String × String) := a.2.2.2

/-- the shared (non-initialising) accesses of a variable -/
def sharedAccesses (acc : List Access) (v : String) : List Access :=
  acc.filter (fun a => var a == v && kind a != "i")

def protectedBy (n : String) (a : Access) : Bool :=
  if kind a == "r" then (locks a).contains (n, "R") || (locks a).contains (n, "W")
  else if kind a == "w" then (locks a).contains (n, "W")
  else false

def locksetOk (acc : List Access) (v : String) : Bool :=
  let as := sharedAccesses acc v
  as.all (fun a => kind a == "r") || as.all (fun a => kind a == "a") ||
  (match as with
   | [] => true
   | a0 :: _ => (locks a0).any (fun l => as.all (protectedBy l.1)))

/-- (function, kind) of the shared accesses, in source order -/
def who (acc : List Access) (v : String) : List (String × String) :=
  (sharedAccesses acc v).map (fun a => (fn a, kind a))

/-- (function, locks held) of the WRITES to a variable outside the functions in `ctors`
    (constructors work on an object nobody else can see yet) -/
def writesOutside (acc : List Access) (v : String) (ctors : List String) : List (String × List (String × String)) :=
  ((sharedAccesses acc v).filter (fun a => kind a == "w" && !ctors.contains (fn a))).map (fun a => (fn a, locks a))

/-- functions that READ a variable with no lock lexically held, outside `ctors` (duplicates removed) -/
def unlockedReaders (acc : List Access) (v : String) (ctors : List String) : List String :=
  (((sharedAccesses acc v).filter (fun a => kind a == "r" && (locks a).isEmpty && !ctors.contains (fn a))).map fn).eraseDups

end Mkts.Lockset
