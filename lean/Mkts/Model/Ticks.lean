import Mkts.Extracted.Facts
import Mkts.Model.Time
/-!
# Sub-interval tick encoding (C10)

Executable model of

* `utils/io/timeindex.go`  : `IndexToTimeDepr`, `GetIntervalTicks32Bit` (writer side, called by
  `executor/writer.go: appendIntervalTicks`), including `time.Duration.Seconds()` and the
  `uint32(float64)` conversion,
* `executor/rewritebuffer.go`: `GetTimeFromTicks` (reader side, called by `RewriteBuffer`),
  including `math.Floor`, `math.Round(x*1e8)/1e8`, and the `uint64` / `uint32` conversions.

A float64 value is its exact rational value (`Rat`, core Lean); a float64 operation is the exact
operation followed by a rounding operator `r : Rat → Rat` which is a *parameter* of every model
function.  The driver instantiates `r := rne` (IEEE-754 binary64 round-to-nearest-even, written
below with integer arithmetic only; no Lean `Float` anywhere), the theorems in `Props/C10.lean`
quantify over every `r` satisfying the `Rnd` interface.

Conversions that are exact in binary64 *by type* carry no `r`: `float64(uint32)`,
`float64(nsec)` with `|nsec| < 1e9`, `float64(sec)` with `|sec| ≤ 2^63/1e9`, the literals
`1e9`, `1e8`, `0.5`, `86400`.  `float64(int64)` of `index-1` and `intervalsPerDay` does carry `r`.
Float→integer conversions follow what the Go compiler emits on amd64 (CVTTSD2SQ then
truncation of the register; checked by the correspondence run on out-of-range values).
Inf/NaN cannot arise for `intervalsPerDay ≥ 1`; `intervalsPerDay ≤ 0` is outside the model
(the ops return `err:ipd` on both sides without calling the code).
-/
namespace Mkts.Ticks
open Mkts.Time

/-! ## IEEE-754 binary64 round-to-nearest-even on exact rationals -/

/-- `2^e` as a rational, `e : Int` -/
def pow2 (e : Int) : Rat :=
  if 0 ≤ e then ((2 ^ e.toNat : Nat) : Rat) else mkRat 1 (2 ^ (-e).toNat)

/-- `⌊log₂ x⌋` for `x > 0` (via `Nat.log2` of numerator and denominator, then one correction) -/
def ilog2 (x : Rat) : Int :=
  let e0 : Int := (Nat.log2 x.num.natAbs : Int) - (Nat.log2 x.den : Int)
  if pow2 e0 ≤ x then e0 else e0 - 1

/-- nearest integer, ties to even -/
def roundEven (y : Rat) : Int :=
  let f := y.floor
  let t := y - (f : Rat)
  if t < 1/2 then f else if 1/2 < t then f + 1 else if f % 2 = 0 then f else f + 1

/-- round-to-nearest-even to 53 significant bits (unbounded exponent range: equals IEEE binary64
    whenever the result is a normal number, i.e. `2^-1022 ≤ |result| < 2^1024`; every value that
    occurs in this model lies between `1e-10` and `1e19` or is zero) -/
def rne (x : Rat) : Rat :=
  if x = 0 then 0 else
    let a := if 0 ≤ x then x else -x
    let s := pow2 (ilog2 a - 52)
    ((roundEven (x / s) : Int) : Rat) * s

/-! ## binary64 bit patterns (for the direct comparison of `rne` with the hardware, op `fop`) -/

/-- value of a binary64 bit pattern; `none` for zero, subnormals, infinities and NaN -/
def f64ToRat (b : Nat) : Option Rat :=
  let sign : Nat := b / 2 ^ 63 % 2
  let e : Nat := b / 2 ^ 52 % 2048
  let m : Nat := b % 2 ^ 52
  if e = 0 ∨ e = 2047 then none
  else
    let v : Rat := ((2 ^ 52 + m : Nat) : Rat) * pow2 ((e : Int) - 1075)
    some (if sign = 1 then -v else v)

/-- bit pattern of a rational that is exactly a normal binary64 value (or `+0`), else `none` -/
def ratToF64 (x : Rat) : Option Nat :=
  if x = 0 then some 0 else
    let a := if 0 ≤ x then x else -x
    let e := ilog2 a
    let q := a / pow2 (e - 52)
    if q.den ≠ 1 ∨ e + 1023 < 1 ∨ 2046 < e + 1023 then none
    else some ((if 0 ≤ x then 0 else 2 ^ 63) + (e + 1023).toNat * 2 ^ 52 + (q.num.toNat - 2 ^ 52))

/-! ## Go conversions and library functions -/

def two32 : Int := 4294967296
def two63 : Int := 9223372036854775808
def two64 : Int := 18446744073709551616

/-- truncation toward zero -/
def truncZ (x : Rat) : Int := if 0 ≤ x then x.floor else -((-x).floor)

/-- `int64(f)` on amd64 (CVTTSD2SQ): truncation, "integer indefinite" `MinInt64` when out of range -/
def toInt64 (x : Rat) : Int :=
  let t := truncZ x
  if -two63 ≤ t ∧ t < two63 then t else -two63

/-- `uint32(f)` on amd64: low 32 bits of `int64(f)` -/
def toUint32 (x : Rat) : Int := toInt64 x % two32

/-- `uint64(f)` on amd64: `f < 2^63` → bits of `int64(f)`; else `int64(f - 2^63) ^ 2^63` -/
def toUint64 (x : Rat) : Int :=
  if x < (two63 : Rat) then toInt64 x % two64
  else (toInt64 (x - (two63 : Rat)) % two64 + two63) % two64

/-- two's complement wrap to int64 -/
def wrap64 (n : Int) : Int := (n + two63) % two64 - two63

/-- saturation of `time.Time.Sub` -/
def sat64 (n : Int) : Int := if n < -two63 then -two63 else if two63 ≤ n then two63 - 1 else n

/-- `math.Round`: nearest integer, halves away from zero (exact on floats; the result of
    rounding a float to an integer is a float) -/
def goRound (x : Rat) : Int :=
  if 0 ≤ x then (x + 1/2).floor else -((-x + 1/2).floor)

/-- `time.Duration.Seconds()`: `sec := d / Second; nsec := d % Second; float64(sec) + float64(nsec)/1e9` -/
def durSeconds (r : Rat → Rat) (d : Int) : Rat :=
  r (((d.tdiv 1000000000 : Int) : Rat) + r (((d.tmod 1000000000 : Int) : Rat) / 1000000000))

/-! ## The constant -/

/-- exact value of the float64 constant `ticksPerIntervalDivSecsPerDay` in utils/io/timeindex.go -/
def K : Rat := mkRat Mkts.Extracted.utils_io_ticksPerIntervalDivSecsPerDay_f64_num
                     Mkts.Extracted.utils_io_ticksPerIntervalDivSecsPerDay_f64_den

/-- the function-local copy in `GetTimeFromTicks` -/
def Kdec : Rat := mkRat Mkts.Extracted.executor_ticksPerIntervalDivSecsPerDay_f64_num
                        Mkts.Extracted.executor_ticksPerIntervalDivSecsPerDay_f64_den

/-- `nanosecond`, `subnanosecond` of `GetTimeFromTicks` -/
def nanosecondC : Rat := (Mkts.Extracted.executor_nanosecond : Int)
def subnanosecondC : Rat := (Mkts.Extracted.executor_subnanosecond : Int)

/-! ## Encode (writer side) -/

/-- `float64(intervalsPerDay) * ticksPerIntervalDivSecsPerDay` -/
def ticksPerSecond (r : Rat → Rat) (ipd : Int) : Rat := r (r (ipd : Rat) * K)

/-- `IndexToTimeDepr`: offset (ns) of the interval start from January 1st 00:00 UTC of the year:
    `time.Duration(float64(index-1)*float64(24*60*60)/float64(intervalsPerDay)) * time.Second` -/
def indexToTimeDeprOffset (r : Rat → Rat) (index ipd : Int) : Int :=
  wrap64 (toInt64 (r (r (r ((index - 1 : Int) : Rat) * 86400) / r (ipd : Rat))) * 1000000000)

/-- `IndexToTimeDepr(index, ipd, year)` as unix nanoseconds -/
def indexToTimeDepr (r : Rat → Rat) (index ipd year : Int) : Int :=
  yearStart utc year + indexToTimeDeprOffset r index ipd

/-- the float `ticksPerSecond * seconds` before the `uint32` conversion, as a function of
    `d = ts.Sub(baseTime)` in nanoseconds -/
def encodeF (r : Rat → Rat) (ipd d : Int) : Rat :=
  r (ticksPerSecond r ipd * durSeconds r d)

/-- ticks of an offset `d` (ns) from the base time -/
def encode (r : Rat → Rat) (ipd d : Int) : Int := toUint32 (encodeF r ipd d)

/-- `GetIntervalTicks32Bit(ts, index, intervalsPerDay)`, `ts` in unix ns (a UTC `time.Time`) -/
def getIntervalTicks32Bit (r : Rat → Rat) (ts index ipd : Int) : Int :=
  let base := indexToTimeDepr r index ipd (localYear utc ts)
  encode r ipd (sat64 (ts - base))

/-! ## Decode (reader side) -/

/-- `fractionalSeconds := float64(intervalTicks) / (float64(intervalsPerDay) * ticksPerIntervalDivSecsPerDay)` -/
def fractionalSeconds (r : Rat → Rat) (ipd ticks : Int) : Rat :=
  r ((ticks : Rat) / r ((ipd : Rat) * Kdec))

/-- `subseconds := nanosecond * (fractionalSeconds - math.Floor(fractionalSeconds))` -/
def subseconds0 (r : Rat → Rat) (fs : Rat) : Rat :=
  r (nanosecondC * r (fs - (fs.floor : Rat)))

structure Decoded where
  sec : Int
  nanos : Int
deriving DecidableEq, Repr

/-- `subseconds` of the given ticks before the `>= nanosecond` test -/
def sub0 (r : Rat → Rat) (ipd ticks : Int) : Rat := subseconds0 r (fractionalSeconds r ipd ticks)

/-- `if subseconds >= nanosecond { subseconds -= nanosecond; fractionalSeconds++ }` is taken
    (never with IEEE arithmetic, where `fs - Floor(fs)` is exact and `< 1`; an abstract rounding
    operator may reach it, so it is modelled) -/
def adj (r : Rat → Rat) (ipd ticks : Int) : Bool := decide (nanosecondC ≤ sub0 r ipd ticks)

/-- `subseconds` after the test -/
def subAdj (r : Rat → Rat) (ipd ticks : Int) : Rat :=
  if adj r ipd ticks then r (sub0 r ipd ticks - nanosecondC) else sub0 r ipd ticks

/-- `fractionalSeconds` after the test -/
def fsAdj (r : Rat → Rat) (ipd ticks : Int) : Rat :=
  if adj r ipd ticks then r (fractionalSeconds r ipd ticks + 1) else fractionalSeconds r ipd ticks

/-- `uint32(subseconds + round)` -/
def nanosRaw (r : Rat → Rat) (ipd ticks : Int) : Int := toUint32 (r (subAdj r ipd ticks + 1/2))

/-- `uint64(math.Round(fractionalSeconds*subnanosecond)/subnanosecond)` -/
def roundedOff (r : Rat → Rat) (ipd ticks : Int) : Int :=
  toUint64 (r ((goRound (r (fsAdj r ipd ticks * subnanosecondC)) : Rat) / subnanosecondC))

/-- `GetTimeFromTicks(intervalStart, intervalsPerDay, intervalTicks)` as it was BEFORE the repair
    `fix: GetTimeFromTicks floors the second` (kept to document the defect C10-F5) -/
def getTimeFromTicksOld (r : Rat → Rat) (start ipd ticks : Int) : Decoded :=
  { sec := (start + roundedOff r ipd ticks) % two64, nanos := nanosRaw r ipd ticks }

/-- whole seconds of the repaired decoder: `whole := math.Floor(fractionalSeconds)`, `whole++`
    in the adjustment branch, `uint64(whole)` -/
def wholeOff (r : Rat → Rat) (ipd ticks : Int) : Int :=
  toUint64 (if adj r ipd ticks then r (((fractionalSeconds r ipd ticks).floor : Rat) + 1)
            else ((fractionalSeconds r ipd ticks).floor : Rat))

/-- the proposed repair (fixes/C10_floor_carry.patch): the second is the floor of
    `fractionalSeconds`, and a nanosecond field of 1e9 carries into the second -/
def getTimeFromTicksFixed (r : Rat → Rat) (start ipd ticks : Int) : Decoded :=
  if 1000000000 ≤ nanosRaw r ipd ticks then
    { sec := (start + wholeOff r ipd ticks + 1) % two64, nanos := nanosRaw r ipd ticks - 1000000000 }
  else { sec := (start + wholeOff r ipd ticks) % two64, nanos := nanosRaw r ipd ticks }

/-- decoded offset from the interval start, in ns -/
def Decoded.offsetNs (x : Decoded) (start : Int) : Int := (x.sec - start) * 1000000000 + x.nanos

/-- negation of hypothesis `sec_rounds_up` of `C10_partial`: the `math.Round(fs*1e8)/1e8` second
    differs from the whole second (finding C10-F5) -/
def secRoundsUp (r : Rat → Rat) (ipd ticks : Int) : Bool :=
  roundedOff r ipd ticks != wholeOff r ipd ticks

/-- negation of hypothesis `nanos_1e9` of `C10_partial`: the nanosecond field is 1e9 (finding C10-F5) -/
def nanosOverflow (r : Rat → Rat) (ipd ticks : Int) : Bool := decide (1000000000 ≤ nanosRaw r ipd ticks)

/-! ## Timeframes (utils.Timeframes): all divide a day into whole intervals -/

/-- `TimeBucketInfo.GetIntervals`: `utils.Day.Nanoseconds() / timeframe.Nanoseconds()` -/
def intervalsPerDay (tfNs : Int) : Int := dayNs.tdiv tfNs

end Mkts.Ticks
