import Mkts.Proto
import Mkts.Model.WalProto
import Mkts.Driver.Store
/-!
Driver for the trace-level WAL checks:

  walcrash <nowYear> <a> <j> <keys> <step> <step> …
      steps as in the `store` op plus K (checkpoint) and T (rotation).  The first `a` steps
      completed (were acknowledged); the crash happened `j` effects into step number `a`
      (`*` = somewhere inside a catalog operation the WAL model does not describe).
      M: the restart output the model predicts (`*` if it predicts nothing),
      S: `?alt0||alt1` — the outputs the properties C01/C02/C03 allow: startup ok and every
         bucket showing the last-writer-wins content of the acknowledged requests, or of those
         plus the request in flight.
  waltrace <nowYear> <step> …
      M: effect kinds per step, e.g. `W:WWWWWWFPP K:WSW T:WSWTWF C:-`
-/
namespace Mkts.Driver.Wal
open Mkts.Proto Mkts.Store Mkts.WalProto Mkts.Bytes Mkts.Driver.Store

structure BInfo where
  key : String
  idx : Nat
  tf : Int
  cols : List Col

def yearTag : Int := 100000

/-- commands of a fixed write step, tagged with the bucket number in the year field -/
def stepCmds (b : BInfo) (rows : List (Int × Int × Bytes)) : List Cmd :=
  (writeRecords b.tf (rows.map (fun r => (⟨r.1, r.2.2⟩ : Row)))).map
    (fun c => { c with year := c.year + yearTag * (b.idx + 1) })

inductive PStep where
  | ev (e : Event)          -- a WAL writer event
  | create (key : String)   -- catalog only
  | unsupported

/-- parse one step, threading the bucket registry -/
def parseStep (bs : List BInfo) (st : String) : List BInfo × PStep :=
  match st.splitOn ":" with
  | ["C", key, rt, cols] =>
    match keyTf key, parseCols cols with
    | some (_, tfs, _), some cs =>
      match parseTf tfs with
      | some tf =>
        if rt == "v" then (bs, .unsupported) else
        if bs.any (·.key == key) then (bs, .create key) else (bs ++ [⟨key, bs.length, tf, cs⟩], .create key)
      | none => (bs, .unsupported)
    | _, _ => (bs, .unsupported)
  | ["W", key, rt, cols, rows] =>
    match keyTf key, parseCols cols, parseRows rows with
    | some (_, tfs, _), some cs, some rws =>
      match parseTf tfs with
      | some tf =>
        if rt == "v" || rws.isEmpty then (bs, .unsupported) else
        let (bs', b) := match bs.find? (·.key == key) with
          | some b => (bs, b)
          | none => let b : BInfo := ⟨key, bs.length, tf, cs⟩; (bs ++ [b], b)
        if b.cols != cs then (bs, .unsupported) else (bs', .ev (.flush (stepCmds b rws)))
      | none => (bs, .unsupported)
    | _, _, _ => (bs, .unsupported)
  | ["K"] => (bs, .ev .checkpoint)
  | ["T"] => (bs, .ev .rotate)
  | _ => (bs, .unsupported)

def parseSteps : List BInfo → List String → List PStep → List BInfo × List PStep
  | bs, [], acc => (bs, acc.reverse)
  | bs, st :: rest, acc => let (bs', p) := parseStep bs st; parseSteps bs' rest (p :: acc)

def eventsOf (ps : List PStep) : List Event := ps.filterMap (fun p => match p with | .ev e => some e | _ => none)

/-- rows of one bucket in a recovered (tagged) slot map -/
def bucketRows (b : BInfo) (slots : Slots) : List Row :=
  let mine : Slots := slots.filterMap (fun kv =>
    let y := kv.1.1 - yearTag * (b.idx + 1)
    if 0 ≤ y ∧ y < yearTag then some ((y, kv.1.2), kv.2) else none)
  query b.tf mine ⟨none, none, none⟩

def renderKeys (bs : List BInfo) (keys : List String) (slots : Slots) : String :=
  " ".intercalate (keys.map (fun k => match bs.find? (·.key == k) with
    | some b => k ++ "~" ++ renderRows (b.cols.map (·.name)) (bucketRows b slots)
    | none => k ++ "~err:nofiles"))

/-- Ctl after a list of events -/
def ctlAfter : Ctl → List Event → Ctl
  | c, [] => c
  | c, e :: rest => ctlAfter (eventEffects c e).2 rest

def kindChar : Effect → String
  | .walAppend _ => "W" | .walFsync => "F" | .prim _ => "P" | .sync => "S" | .walTruncate => "T" | .ack => ""

def walcrashOp : Op := fun args =>
  match args with
  | _ :: aS :: jS :: keysS :: steps =>
    match parseNat aS with
    | none => badArgs
    | some a =>
      let keys := if keysS == "-" then [] else keysS.splitOn ","
      let (_, ps) := parseSteps [] steps []
      if ps.any (fun p => match p with | .unsupported => true | _ => false) then "M:unsupported" else
      let done := ps.take a
      let (bsDone, _) := parseSteps [] (steps.take a) []
      let (bsNext, _) := parseSteps [] (steps.take (a + 1)) []
      let evDone := eventsOf done
      -- the property's alternatives: content after the acknowledged steps, or after one more
      let slotsDone := applyCmds [] (allCmds evDone)
      let alt0 := "startup=ok " ++ renderKeys bsDone keys slotsDone ++ " left="
      let evNext := eventsOf (ps.take (a + 1))
      let slotsNext := applyCmds [] (allCmds evNext)
      let alt1 := "startup=ok " ++ renderKeys bsNext keys slotsNext ++ " left="
      -- a bucket whose creation is in flight may or may not exist yet, empty
      let alt2 := "startup=ok " ++ renderKeys bsDone keys slotsNext ++ " left="
      -- … or exists already (created by the request in flight) while its rows are not applied yet
      let alt3 := "startup=ok " ++ renderKeys bsNext keys slotsDone ++ " left="
      let spec := s!"?{alt0}||{alt1}||{alt2}||{alt3}"
      match parseNat jS with
      | none => s!"M:*\tS:{spec}\tH:"
      | some j =>
        match ps.drop a with
        | .ev e :: _ =>
          let c := ctlAfter {} evDone
          let s := run {} (trace {} evDone ++ ((eventEffects c e).1.take j))
          let m := "startup=ok " ++ renderKeys (if j == 0 then bsDone else bsNext) keys (recover s) ++ " left="
          s!"M:{m}\tS:{spec}\tH:"
        | [] => s!"M:{alt0}\tS:{spec}\tH:"
        | _ =>
          s!"M:*\tS:{spec}\tH:"
  | _ => badArgs

def waltraceOp : Op := fun args =>
  match args with
  | _ :: steps =>
    let (_, ps) := parseSteps [] steps []
    let rec go (c : Ctl) : List PStep → List String → List String
      | [], acc => acc.reverse
      | .ev e :: rest, acc =>
        let (effs, c') := eventEffects c e
        let tag := match e with | .flush _ => "W" | .checkpoint => "K" | .rotate => "T"
        go c' rest ((tag ++ ":" ++ String.join (effs.map kindChar)) :: acc)
      | .create _ :: rest, acc => go c rest ("C:-" :: acc)
      | .unsupported :: rest, acc => go c rest ("?:?" :: acc)
    "M:" ++ " ".intercalate (go {} ps [])
  | _ => badArgs

def ops : OpTable := [("walcrash", walcrashOp), ("waltrace", waltraceOp)]

end Mkts.Driver.Wal
