import Mkts.Lemmas.SqlSat
import Mkts.Model.SqlTie
/-!
# C19 — SQL WHERE predicates select exactly the matching rows (fixed-length buckets, zone UTC)

`selectWhere` is the model of what `SELECT * FROM t WHERE c₁ AND … AND cₙ` returns
(`StaticPredicate` compiler, Epoch push-down into the planner, post-filter, `RestrictViaBitmap`);
`specWhere` is what the property demands: the rows of the last-writer-wins table that satisfy the
conjunction with the usual meaning.

The model describes the code AFTER the repairs of C19-F1 … F5 and the int32 half of F6 (tighter
bound kept, push-down converts the literal and steps inwards only for exclusive bounds, bound
converted once, small/unsigned integer columns widened, int32 compared in 64 bits); the statements
the repaired behaviour rests on are pinned over the regenerated skeletons (`skel_*`).  What is left
of the full statement's failure is the truncation of a DECIMAL literal on an integer column
(`C19_cex_decimal_on_int`, known finding C19-F6).
-/
namespace Mkts.Props.C19
open Mkts.Sql Mkts.Store Mkts.Time Mkts.Bytes Mkts.Props

/-- the code's answer to `SELECT * FROM t WHERE conj` on a bucket holding `s` -/
def selectWhere (tf : Int) (cols : List ColDef) (s : Slots) (conj : List Conj) : List Row :=
  selectRows ⟨"", tf, cols, s⟩ (buildGroup conj) 0

/-- the demanded answer: filter of the last-writer-wins table by the conjunction -/
def specWhere (tf : Int) (cols : List ColDef) (hist : List (List Row)) (conj : List Conj) : List Row :=
  (specAll tf hist).filter (fun r => satAll cols conj r == some true)

/-- the property speaks about the statement: every conjunct has a truth value on every stored row
    (known columns, no NaN, no decimal Epoch literal) -/
def Speaks (tf : Int) (cols : List ColDef) (hist : List (List Row)) (conj : List Conj) : Prop :=
  ∀ r ∈ specAll tf hist, satAll cols conj r ≠ none

/-- The property as stated. -/
def C19_full : Prop :=
  ∀ (tf : Int) (cols : List ColDef) (hist : List (List Row)) (conj : List Conj),
    0 < tf → tf ≠ dayNs → tf % 1000000000 = 0 → Speaks tf cols hist conj →
    selectWhere tf cols (applyHist tf hist) conj = specWhere tf cols hist conj

/-! ## tie: the statements of the source the repaired behaviour rests on (regenerated skeletons) -/

theorem skel_AddComparison : Mkts.SqlTie.addComparisonTightens = true := by decide
theorem skel_Merge : Mkts.SqlTie.mergeDelegates = true := by decide
theorem skel_IsFalse : Mkts.SqlTie.isFalseSeesContradiction = true := by decide
theorem skel_comparable : Mkts.SqlTie.comparesOnOneScale = true := by decide
theorem skel_pushdown : Mkts.SqlTie.pushdownConvertsAndAdjustsExclusive = true := by decide
set_option maxRecDepth 20000 in
theorem skel_epoch_bound_once : Mkts.SqlTie.epochBoundConvertedOnce = true := by decide
theorem skel_widen : Mkts.SqlTie.widensSmallIntegers = true := by decide
set_option maxRecDepth 20000 in
theorem skel_int32_wide : Mkts.SqlTie.int32ComparedWide = true := by decide

/-! ## BETWEEN -/

/-- `x BETWEEN lo AND hi` compiles to the two STRICT bounds `x > lo`, `x < hi` -/
theorem between_strict (col : String) (lo hi : Lit) :
    (Conj.between col lo hi).pending =
      { min := some lo, max := some hi, equal := none, inclMin := false, inclMax := false,
        epoch := col == "Epoch" } := rfl

/-- … and the post-filter applies exactly these two strict tests -/
theorem between_strict_filter (ty : ColTy) (col : String) (lo hi : Lit) (b : Bytes) :
    keepSP ty (Conj.between col lo hi).pending b = (keepVal ty .gt lo b && keepVal ty .lt hi b) :=
  keepSP_between _ ty lo hi b

/-- on an int64 column: strictly between, endpoints excluded -/
theorem between_strict_i64 (col : String) (lo hi : Int) (b : Bytes) :
    keepSP .i64 (Conj.between col (.int lo) (.int hi)).pending b =
      (decide (lo < leDecodeInt b) && decide (leDecodeInt b < hi)) := by
  rw [between_strict_filter, keepVal_i64, keepVal_i64]
  simp [keepInt]

/-! ## the compiler under one predicate per column -/

theorem C19_compile (conj : List Conj) (h : (conj.map Conj.col).Nodup) :
    buildGroup conj = conj.map (fun c => (c.col, c.pending)) := buildGroup_nodup conj h

/-- the post-filter is a filter by a per-row predicate -/
theorem C19_postfilter (cols : List ColDef) (g : Group) (rows : List Row) :
    postFilter cols g rows = rows.filter (keepRow cols g) := postFilter_eq_filter cols g rows

/-! ## a second bound on the same side: the tighter one survives -/

/-- adding an upper bound to a predicate that already has one leaves the smaller of the two (in
    `GenericComparison`'s float64 order on the predicate's comparison scale `cmpLit`; on equal values
    the strict one) -/
theorem addComparison_upper_tighter (sp : SP) (m v : Lit) (op : CmpOp) (hop : op = .lt ∨ op = .le)
    (hm : sp.max = some m)
    (hnm : Float.isNaN Float.b64 (sp.cmpLit m).asF64 = false) (hnv : Float.isNaN Float.b64 (sp.cmpLit v).asF64 = false) :
    ∃ w, (sp.addComparison op v).max = some w ∧ (w = v ∨ w = m) ∧
      fle Float.b64 (sp.cmpLit w).asF64 (sp.cmpLit m).asF64 = true ∧
      fle Float.b64 (sp.cmpLit w).asF64 (sp.cmpLit v).asF64 = true := by
  generalize hm' : sp.cmpLit m = m' at hnm ⊢
  generalize hv' : sp.cmpLit v = v' at hnv ⊢
  rcases hop with rfl | rfl
  · simp only [SP.addComparison, hm, hm', hv']
    by_cases hc : (genericComparison v' m' .lt || !genericComparison v' m' .gt && CmpOp.lt == CmpOp.lt) = true
    · rw [if_pos hc]
      refine ⟨v, rfl, Or.inl rfl, ?_, ?_⟩
      · rw [hv']
        simp only [genericComparison, fcmp, Float.lt, fle, hnm, hnv] at hc ⊢
        simp at hc ⊢; omega
      · rw [hv']; simp [fle, hnv]
    · rw [if_neg hc]
      refine ⟨m, hm, Or.inr rfl, ?_, ?_⟩
      · rw [hm']; simp [fle, hnm]
      · rw [hm']
        simp only [genericComparison, fcmp, Float.lt, fle, hnm, hnv] at hc ⊢
        simp at hc ⊢; omega
  · simp only [SP.addComparison, hm, hm', hv']
    by_cases hc : (genericComparison v' m' .lt || !genericComparison v' m' .gt && CmpOp.le == CmpOp.lt) = true
    · rw [if_pos hc]
      refine ⟨v, rfl, Or.inl rfl, ?_, ?_⟩
      · rw [hv']
        simp only [genericComparison, fcmp, Float.lt, fle, hnm, hnv] at hc ⊢
        simp at hc ⊢; omega
      · rw [hv']; simp [fle, hnv]
    · rw [if_neg hc]
      refine ⟨m, hm, Or.inr rfl, ?_, ?_⟩
      · rw [hm']; simp [fle, hnm]
      · rw [hm']
        simp only [genericComparison, fcmp, Float.lt, fle, hnm, hnv] at hc ⊢
        simp at hc ⊢; omega

/-- two different equalities on one column make the predicate false -/
theorem addComparison_eq_contradiction (sp : SP) (e v : Lit) (he : sp.equal = some e)
    (hne : genericComparison (sp.cmpLit v) (sp.cmpLit e) .lt = true ∨
           genericComparison (sp.cmpLit v) (sp.cmpLit e) .gt = true) :
    (sp.addComparison .eq v).isFalse = true := by
  rcases hne with h | h <;> simp [SP.addComparison, SP.isFalse, he, h]

/-! ## the repaired defect classes: the former counterexample statements now meet the property
(each is also a corpus witness `corpus/C19/fixed_F*.ops` executed on the real code) -/

/-- bucket used by the witnesses: 1Min, one int32 column, bars 10:00 … 10:03 on 2020-03-01 -/
def wTf : Int := 60000000000
def wCols : List ColDef := [⟨"A", .i32⟩]
def wHist : List (List Row) :=
  [[⟨1583056800, [1,0,0,0]⟩, ⟨1583056860, [2,0,0,0]⟩, ⟨1583056920, [3,0,0,0]⟩, ⟨1583056980, [4,0,0,0]⟩]]

theorem w_speaks (conj : List Conj) (h : (specAll wTf wHist).all (fun r => (satAll wCols conj r).isSome) = true) :
    Speaks wTf wCols wHist conj := by
  intro r hr hn
  have := List.all_eq_true.mp h r hr
  rw [hn] at this
  exact absurd this (by decide)

/-- F1 repaired: `A < 4 AND A < 2` (either order), `A > 1 AND A > 3`, `A <= 3 AND A < 4`, `A = 3 AND A = 4` -/
theorem C19_repaired_same_side_bounds :
    (∀ conj ∈ [[Conj.cmp "A" .lt (.int 4), .cmp "A" .lt (.int 2)], [.cmp "A" .lt (.int 2), .cmp "A" .lt (.int 4)],
               [.cmp "A" .gt (.int 1), .cmp "A" .gt (.int 3)], [.cmp "A" .le (.int 3), .cmp "A" .lt (.int 4)]],
      selectWhere wTf wCols (applyHist wTf wHist) conj = specWhere wTf wCols wHist conj) ∧
    materializeSelect [⟨"T", wTf, wCols, applyHist wTf wHist⟩]
      ⟨true, [], "T", [.cmp "A" .eq (.int 3), .cmp "A" .eq (.int 4)], 0, false⟩ = .ok ⟨[], []⟩ := by decide

/-- F2, F3, F5 repaired: inclusive upper bound on a stored bar, upper bound in epoch seconds, tiny
    epoch-seconds literal -/
theorem C19_repaired_epoch_bounds :
    ∀ conj ∈ [[Conj.cmp "Epoch" .le (.int 1583056920000000000)], [.cmp "Epoch" .lt (.int 1583056920)],
              [.cmp "Epoch" .le (.int 1583056920)], [.between "Epoch" (.int 1583056800) (.int 1583056980)],
              [.cmp "Epoch" .gt (.int 5)]],
      selectWhere wTf wCols (applyHist wTf wHist) conj = specWhere wTf wCols wHist conj := by decide

/-- Epoch bounds in different units in one WHERE clause (seconds against a datetime / nanoseconds)
    are compared on one scale: neither a false contradiction nor the wrong surviving bound
    (1583056980 s = 10:03; 1583056860000000000 ns = 10:01) -/
theorem C19_repaired_mixed_units :
    ∀ conj ∈ [[Conj.cmp "Epoch" .lt (.int 1583056980), .cmp "Epoch" .ge (.int 1583056860000000000)],
              [.cmp "Epoch" .ge (.int 1583056920), .cmp "Epoch" .ge (.int 1583056860000000000)]],
      selectWhere wTf wCols (applyHist wTf wHist) conj = specWhere wTf wCols wHist conj := by decide

/-- F4 and the range half of F6 repaired: predicate on an int16 column; literal outside int32 -/
theorem C19_repaired_column_types :
    selectWhere wTf [⟨"S", .other 2 true⟩] (applyHist wTf [[⟨1583056800, [1,0]⟩, ⟨1583056860, [2,0]⟩, ⟨1583056920, [3,0]⟩]])
        [.cmp "S" .lt (.int 2)] =
      specWhere wTf [⟨"S", .other 2 true⟩] [[⟨1583056800, [1,0]⟩, ⟨1583056860, [2,0]⟩, ⟨1583056920, [3,0]⟩]]
        [.cmp "S" .lt (.int 2)] ∧
    selectWhere wTf wCols (applyHist wTf wHist) [.cmp "A" .lt (.int 3000000000)] =
      specWhere wTf wCols wHist [.cmp "A" .lt (.int 3000000000)] := by decide

/-! ## what is still false (known finding C19-F6, decimal half) -/

/-- a decimal literal on an integer column is truncated: `A < 1.5` loses the row `A = 1`
    (0x3FF8000000000000 = 1.5) -/
theorem C19_cex_decimal_on_int : ¬ C19_full := by
  intro h
  have := h wTf wCols wHist [.cmp "A" .lt (.flt 0x3FF8000000000000)] (by decide) (by decide) (by decide)
    (w_speaks _ (by decide))
  revert this
  decide

/-! ## the partial theorem -/

/-- **C19, partial.**  For every history of writes, every sub-day timeframe of whole seconds, every
    schema and every conjunction such that

    * `wf`     : every predicate column is Epoch or a schema column and there is at most one
                 conjunct per column (BETWEEN counts as one; several conjuncts on one column are
                 merged by the tighter-bound rule, `addComparison_upper_tighter`, whose agreement
                 with the column-typed comparison is checked by the correspondence, not proved),
    * `hfit`   : integer columns get INTEGER literals (a decimal literal is truncated: C19-F6),
                 widened columns are at most 7 bytes wide (a uint64 above 2^63-1 wraps), float
                 literals are not NaN in the column's precision,
    * `hepoch` : Epoch literals denote instants representable in int64 nanoseconds,
    * `hrange` : stored stamps are representable as int64 nanoseconds,
    * `hspeaks`: the property assigns a truth value to every row (no NaN stored, …),

    `SELECT * … WHERE conj` returns exactly the stored rows satisfying the conjunction, in time
    order — whatever the literal form of the Epoch bounds (datetime, seconds, nanoseconds),
    inclusive or exclusive, on or off a stored bar. -/
theorem C19_partial (tf : Int) (cols : List ColDef) (hist : List (List Row)) (conj : List Conj)
    (htf : 0 < tf) (hd : tf ≠ dayNs) (hsec : tf % 1000000000 = 0)
    (wf : WellFormed cols conj)
    (hfit : ∀ c ∈ conj, c.col ≠ "Epoch" → ∀ d ∈ cols, d.name = c.col → ∀ l ∈ c.lits, Fits d.ty l)
    (hepoch : ∀ c ∈ conj, c.col = "Epoch" → ∀ l ∈ c.lits, LitRange l.asI64)
    (hrange : ∀ r ∈ specAll tf hist, NsRange r.sec)
    (hspeaks : Speaks tf cols hist conj) :
    selectWhere tf cols (applyHist tf hist) conj = specWhere tf cols hist conj := by
  have hall := C08.C08_subday tf hist htf hd
  unfold selectWhere specWhere selectRows readRows
  simp only [bne_self_eq_false, Bool.and_false, Bool.false_eq_true, if_false]
  rw [postFilter_eq_filter,
    filter_pushdown tf hist cols _ htf hd hsec (by rw [hall]; exact hrange), hall]
  apply List.filter_congr
  intro r hr
  have hsome : ∃ x, satAll cols conj r = some x := by
    cases h : satAll cols conj r with
    | none => exact absurd h (hspeaks r hr)
    | some x => exact ⟨x, rfl⟩
  obtain ⟨x, hx⟩ := hsome
  have hok : ∀ c ∈ conj, ConjOK cols c r := by
    intro c hc
    exact ⟨fun hE => ⟨hepoch c hc hE, hrange r hr⟩, fun hE d hd hdn l hl => hfit c hc hE d hd hdn l hl⟩
  rw [keepRow_sat cols conj r x wf hok hx, hx]
  cases x <;> rfl

/-- corollary for value columns only (no Epoch conjunct): no push-down, no edge condition -/
theorem C19_partial_values (tf : Int) (cols : List ColDef) (hist : List (List Row)) (conj : List Conj)
    (htf : 0 < tf) (hd : tf ≠ dayNs) (hsec : tf % 1000000000 = 0)
    (wf : WellFormed cols conj) (hno : ∀ c ∈ conj, c.col ≠ "Epoch")
    (hfit : ∀ c ∈ conj, ∀ d ∈ cols, d.name = c.col → ∀ l ∈ c.lits, Fits d.ty l)
    (hrange : ∀ r ∈ specAll tf hist, NsRange r.sec)
    (hspeaks : Speaks tf cols hist conj) :
    selectWhere tf cols (applyHist tf hist) conj = specWhere tf cols hist conj :=
  C19_partial tf cols hist conj htf hd hsec wf (fun c hc _ => hfit c hc)
    (fun c hc hE => absurd hE (hno c hc)) hrange hspeaks

/-! ## non-vacuity: the hypotheses of `C19_partial` hold for a non-trivial statement
    (`A >= 2 AND Epoch <= 1583056920` — inclusive, in epoch seconds, exactly on a stored bar) and the
    result is not empty -/
example : selectWhere wTf wCols (applyHist wTf wHist)
    [.cmp "A" .ge (.int 2), .cmp "Epoch" .le (.int 1583056920)]
    = [⟨1583056860, [2,0,0,0]⟩, ⟨1583056920, [3,0,0,0]⟩] := by decide

example : WellFormed wCols [.cmp "A" .ge (.int 2), .cmp "Epoch" .le (.int 1583056920)] :=
  ⟨by decide, by decide, by decide, by decide⟩

example : Fits .i32 (.int 2) := ⟨2, rfl⟩

example : LitRange (Lit.int 1583056920).asI64 := Or.inr (by decide)

end Mkts.Props.C19
