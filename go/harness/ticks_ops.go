package main

import (
	"fmt"
	"math"
	"runtime"
	"sync"
	"time"

	"github.com/alpacahq/marketstore/v4/executor"
	"github.com/alpacahq/marketstore/v4/utils"
	mio "github.com/alpacahq/marketstore/v4/utils/io"
)

// Ops for C10 (sub-interval tick encoding): the real GetIntervalTicks32Bit / GetTimeFromTicks.

type rtRes struct {
	idx, ipd, start int64
	ticks           uint32
	sec             uint64
	ns              uint32
}

func withUTC(f func()) {
	old := utils.InstanceConfig.Timezone
	utils.InstanceConfig.Timezone = time.UTC
	defer func() { utils.InstanceConfig.Timezone = old }()
	f()
}

// tickRoundTrip: what writer.go (formatRecord -> appendIntervalTicks) and readvariable.go
// (RewriteBuffer -> GetTimeFromTicks) do with one timestamp of a variable-length bucket.
func tickRoundTrip(t, tf int64) rtRes {
	ts := time.Unix(0, t).UTC()
	d := time.Duration(tf)
	idx := mio.TimeToIndex(ts, d)
	ipd := utils.Day.Nanoseconds() / d.Nanoseconds() // TimeBucketInfo.GetIntervals
	ticks := mio.GetIntervalTicks32Bit(ts, idx, ipd)
	start := mio.IndexToTime(idx, d, int16(ts.Year())).Unix()
	sec, ns := executor.GetTimeFromTicks(uint64(start), uint32(ipd), ticks)
	return rtRes{idx, ipd, start, ticks, sec, ns}
}

func (r rtRes) decNs() int64 { return int64(r.sec)*1e9 + int64(r.ns) }

func init() {
	// enc ts index ipd
	ops["enc"] = func(a []string) string {
		ts, index, ipd := atoi(a[0]), atoi(a[1]), atoi(a[2])
		if ipd <= 0 {
			return "err:ipd"
		}
		return fmt.Sprintf("ticks=%d", mio.GetIntervalTicks32Bit(time.Unix(0, ts).UTC(), index, ipd))
	}
	// dec start ipd ticks
	ops["dec"] = func(a []string) string {
		start, ipd, ticks := atoi(a[0]), atoi(a[1]), atoi(a[2])
		if ipd <= 0 {
			return "err:ipd"
		}
		sec, ns := executor.GetTimeFromTicks(uint64(start), uint32(ipd), uint32(ticks))
		return fmt.Sprintf("sec=%d ns=%d", sec, ns)
	}
	// rt t tf
	ops["rt"] = func(a []string) string {
		t, tf := atoi(a[0]), atoi(a[1])
		if tf <= 0 || utils.Day.Nanoseconds()/tf <= 0 {
			return "err:ipd"
		}
		var out string
		withUTC(func() {
			r := tickRoundTrip(t, tf)
			dec := r.decNs()
			s := r.start * 1e9
			// (t-dec)*2^32 <= tf + 2^32 without overflow: |t-dec| is small unless broken
			diff := t - dec
			step := diff <= 0 || (diff < 1<<30 && diff*4294967296 <= tf+4294967296)
			p := b2s(s <= dec) + b2s(dec < s+tf) + b2s(dec <= t) + b2s(step) + b2s(tf != 1e9 || dec == t)
			out = fmt.Sprintf("idx=%d ipd=%d start=%d ticks=%d sec=%d ns=%d P=%s", r.idx, r.ipd, r.start, r.ticks, r.sec, r.ns, p)
		})
		return out
	}
	// mono t1 t2 tf
	ops["mono"] = func(a []string) string {
		t1, t2, tf := atoi(a[0]), atoi(a[1]), atoi(a[2])
		if tf <= 0 || utils.Day.Nanoseconds()/tf <= 0 {
			return "err:ipd"
		}
		var out string
		withUTC(func() {
			x, y := tickRoundTrip(t1, tf), tickRoundTrip(t2, tf)
			p := b2s(x.ticks <= y.ticks) + b2s(x.decNs() <= y.decNs())
			out = fmt.Sprintf("k1=%d k2=%d d1=%d d2=%d P=%s", x.ticks, y.ticks, x.decNs(), y.decNs(), p)
		})
		return out
	}
	// sweep1s start lo hi : every offset lo <= d < hi of the 1-second interval starting at unix second `start`
	ops["sweep1s"] = func(a []string) string {
		start, lo, hi := atoi(a[0]), atoi(a[1]), atoi(a[2])
		var out string
		withUTC(func() {
			base := time.Unix(start, 0).UTC()
			idx := mio.TimeToIndex(base, time.Second)
			nw := runtime.NumCPU()
			if nw > 16 {
				nw = 16
			}
			type acc struct{ nsbad, late, first int64 }
			res := make([]acc, nw)
			var wg sync.WaitGroup
			chunk := (hi - lo + int64(nw) - 1) / int64(nw)
			for w := 0; w < nw; w++ {
				wg.Add(1)
				go func(w int) {
					defer wg.Done()
					r := acc{first: -1}
					from, to := lo+int64(w)*chunk, lo+int64(w+1)*chunk
					if to > hi {
						to = hi
					}
					for d := from; d < to; d++ {
						ticks := mio.GetIntervalTicks32Bit(base.Add(time.Duration(d)), idx, 86400)
						sec, ns := executor.GetTimeFromTicks(uint64(start), 86400, ticks)
						if int64(ns) != d {
							r.nsbad++
						}
						if int64(sec) != start {
							r.late++
							if r.first < 0 {
								r.first = d
							}
						}
					}
					res[w] = r
				}(w)
			}
			wg.Wait()
			tot := acc{first: -1}
			for _, r := range res {
				tot.nsbad += r.nsbad
				tot.late += r.late
				if r.first >= 0 && (tot.first < 0 || r.first < tot.first) {
					tot.first = r.first
				}
			}
			out = fmt.Sprintf("n=%d nsbad=%d late=%d firstlate=%d", hi-lo, tot.nsbad, tot.late, tot.first)
		})
		return out
	}

	// fop op a b : one float64 operation of the hardware on two bit patterns (normal operands only)
	ops["fop"] = func(a []string) string {
		x, y := math.Float64frombits(uint64(atou(a[1]))), math.Float64frombits(uint64(atou(a[2])))
		normal := func(f float64) bool {
			e := math.Float64bits(f) >> 52 & 2047
			return e != 0 && e != 2047
		}
		if !normal(x) || !normal(y) {
			return "unsupported"
		}
		var z float64
		switch a[0] {
		case "add":
			z = fadd(x, y)
		case "sub":
			z = fsub(x, y)
		case "mul":
			z = fmul(x, y)
		case "div":
			z = fdiv(x, y)
		default:
			panic("bad-arg fop")
		}
		if !normal(z) && math.Float64bits(z) != 0 {
			return "unsupported"
		}
		return fmt.Sprintf("%d", math.Float64bits(z))
	}

	gens["C10"] = genC10
}

//go:noinline
func fadd(x, y float64) float64 { return x + y }

//go:noinline
func fsub(x, y float64) float64 { return x - y }

//go:noinline
func fmul(x, y float64) float64 { return x * y }

//go:noinline
func fdiv(x, y float64) float64 { return x / y }

func atou(s string) uint64 {
	var v uint64
	if _, err := fmt.Sscanf(s, "%d", &v); err != nil {
		panic("bad-arg uint " + s)
	}
	return v
}

// genFops: float64 operations biased to exact ties (products of two odd 27-bit integers have 53 or
// 54 bits; sums with exactly half an ulp), near-ties, cancellation and random operands.
func genFops(g *Gen, n int) {
	mk := func(mant uint64, exp int) uint64 { // mant: integer < 2^53, value mant * 2^exp
		f := math.Ldexp(float64(mant), exp)
		return math.Float64bits(f)
	}
	sign := func(b uint64) uint64 {
		if g.Intn(4) == 0 {
			return b | 1<<63
		}
		return b
	}
	opsN := []string{"add", "sub", "mul", "div"}
	for i := 0; i < n; i++ {
		var a, b uint64
		op := opsN[g.Intn(4)]
		tag := "fop:random"
		switch g.Intn(6) {
		case 0: // product of two odd 27-bit numbers: exact tie whenever it has 54 bits
			a = mk(uint64(g.R.Int63n(1<<26))|1<<26|1, g.Intn(60)-30)
			b = mk(uint64(g.R.Int63n(1<<26))|1<<26|1, g.Intn(60)-30)
			op, tag = "mul", "fop:mul_tie"
		case 1: // x + half an ulp (tie), +- a little (near tie)
			m := uint64(g.R.Int63n(1<<52)) | 1<<52
			e := g.Intn(40) - 20
			a = mk(m, e)
			h := []uint64{1 << 52, 1<<52 + 1, 1<<52 - 1, 3 << 51, 1 << 51}[g.Intn(5)]
			b = mk(h, e-53)
			op, tag = []string{"add", "sub"}[g.Intn(2)], "fop:add_half_ulp"
		case 2: // cancellation
			m := uint64(g.R.Int63n(1<<52)) | 1<<52
			e := g.Intn(40) - 20
			a = mk(m, e)
			b = mk(m+uint64(g.Intn(3)), e)
			op, tag = "sub", "fop:cancel"
		case 3: // the shapes that occur in the tick computations
			a = math.Float64bits(float64(g.R.Int63n(4294967296)))
			b = math.Float64bits(float64(g.Pick(1, 24, 96, 1440, 8640, 86400)) * 49710.269629629629629629629629629)
			op, tag = []string{"div", "mul"}[g.Intn(2)], "fop:tick_shape"
		default:
			a = mk(uint64(g.R.Int63n(1<<52))|1<<52, g.Intn(120)-60)
			b = mk(uint64(g.R.Int63n(1<<52))|1<<52, g.Intn(120)-60)
		}
		g.Emit(fmt.Sprintf("fop %s %d %d", op, sign(a), sign(b)), tag, "kind:float_op")
	}
}


func genC10(g *Gen) {
	tfs := []int64{}
	for _, tf := range utils.Timeframes {
		tfs = append(tfs, tf.Duration.Nanoseconds())
	}
	tfName := func(tf int64) string { return "tf:" + utils.TimeframeFromDuration(time.Duration(tf)).String }
	// a random interval start of timeframe tf between 1971 and 2200 (UTC)
	randStart := func(tf int64) int64 {
		year := 1971 + g.Intn(230)
		if g.Intn(3) == 0 {
			year = int(g.Pick(2019, 2016, 2020, 2000, 2100, 2038, 1972))
		}
		y0 := time.Date(year, 1, 1, 0, 0, 0, 0, time.UTC)
		y1 := time.Date(year+1, 1, 1, 0, 0, 0, 0, time.UTC)
		n := int64(y1.Sub(y0)) / tf
		var k int64
		switch g.Intn(4) {
		case 0:
			k = g.Pick(0, 1, n-1, n-2)
		default:
			k = g.R.Int63n(n)
		}
		return y0.UnixNano() + k*tf
	}
	sec := int64(1e9)
	offset := func(tf int64) (int64, string) {
		res := tf/4294967296 + 1 // one resolution step, rounded up
		switch g.Intn(10) {
		case 0: // interval edges
			return g.Pick(0, 1, 2, res, res+1, 2*res, tf-1, tf-2, tf-res, tf-res-1, tf-2*res), "off:interval_edge"
		case 1: // just below / at / above a whole second (F5 class)
			s := g.R.Int63n(tf/sec) * sec
			d := s + g.Pick(0, 1, 2, 3, res, res+1, -1, -2, -3, -4, -5, -6, -7, -10, -res, -res-5, 5, 10)
			if d < 0 {
				d += sec
			}
			if d >= tf {
				d = tf - 1
			}
			return d, "off:second_edge"
		case 2: // decoded fraction near 0.999999995
			s := g.R.Int63n(tf/sec) * sec
			d := s + 999999995 + g.Pick(-12, -6, -5, -4, -3, -2, -1, 0, 1, 2, 3, 4) + g.Pick(0, 0, res, res/2)
			if d >= tf {
				d = tf - 1
			}
			return d, "off:frac_threshold"
		case 3: // whole milliseconds (typical feed timestamps)
			return g.R.Int63n(tf/1e6) * 1e6, "off:whole_ms"
		case 4: // multiples of the resolution step +-1
			k := g.R.Int63n(4294967296)
			d := int64(float64(k)*float64(tf)/4294967295.0) + g.Pick(-1, 0, 1)
			if d < 0 {
				d = 0
			}
			if d >= tf {
				d = tf - 1
			}
			return d, "off:tick_edge"
		default:
			return g.R.Int63n(tf), "off:random"
		}
	}
	genFops(g, g.N(20000, 200000))
	nrt := g.N(100000, 1500000)
	for i := 0; i < nrt; i++ {
		tf := tfs[i%len(tfs)]
		d, tag := offset(tf)
		g.Emit(fmt.Sprintf("rt %d %d", randStart(tf)+d, tf), tag, tfName(tf), "kind:roundtrip")
	}
	// order preservation: pairs in one interval, mostly close together
	nm := g.N(15000, 200000)
	for i := 0; i < nm; i++ {
		tf := tfs[i%len(tfs)]
		s := randStart(tf)
		d1, tag := offset(tf)
		var d2 int64
		res := tf/4294967296 + 1
		switch g.Intn(4) {
		case 0:
			d2 = d1 + g.Pick(0, 1, 2, res-1, res, res+1)
		case 1:
			d2 = d1 + g.R.Int63n(3*res+2)
		case 2:
			d2 = d1 + g.R.Int63n(sec)
		default:
			d2, _ = offset(tf)
		}
		if d2 >= tf {
			d2 = tf - 1
		}
		if d2 < d1 {
			d1, d2 = d2, d1
		}
		g.Emit(fmt.Sprintf("mono %d %d %d", s+d1, s+d2, tf), tag, tfName(tf), "kind:order")
	}
	// decoder alone on arbitrary tick values (every uint32, every ipd of the timeframes, a few odd ipd)
	nd := g.N(15000, 200000)
	for i := 0; i < nd; i++ {
		tf := tfs[i%len(tfs)]
		ipd := int64(86400e9) / tf
		tag := "ipd:timeframe"
		if g.Intn(10) == 0 {
			ipd = g.Pick(1, 2, 3, 7, 96, 1440, 86400, 86401, 172800, 1000000, 4294967295)
			tag = "ipd:odd"
		}
		var k int64
		switch g.Intn(5) {
		case 0:
			k = g.Pick(0, 1, 2, 3, 4, 4294967295, 4294967294, 4294967293, 2147483648, 2147483647)
			tag += ",ticks:edge"
		case 1: // ticks just below a whole decoded second
			m := g.R.Int63n(86400/ipd+1) + 1
			k = int64(float64(m)*float64(ipd)*49710.269629629629) - g.Pick(0, 1, 2)
			if k < 0 || k > 4294967295 {
				k = 4294967295
			}
			tag += ",ticks:second_edge"
		default:
			k = g.R.Int63n(4294967296)
			tag += ",ticks:random"
		}
		g.Emit(fmt.Sprintf("dec %d %d %d", g.Pick(0, 1546300800, 946684800, 4102444800), ipd, k), tag, "kind:decode")
	}
	// encoder alone on raw arguments, including instants outside the interval of `index`
	// (negative / overflowing offsets exercise the uint32 conversion) and ipd not dividing a day
	ne := g.N(5000, 50000)
	for i := 0; i < ne; i++ {
		tf := tfs[i%len(tfs)]
		ipd := int64(86400e9) / tf
		s := randStart(tf)
		ts := time.Unix(0, s).UTC()
		idx := int64(1)
		withUTC(func() { idx = mio.TimeToIndex(ts, time.Duration(tf)) })
		tag := "enc:in_interval"
		t := s + g.R.Int63n(tf)
		switch g.Intn(6) {
		case 0:
			t = s - g.Pick(1, 2, 1000, tf, 1e9, 86400e9)
			tag = "enc:before_interval"
		case 1:
			t = s + tf + g.Pick(0, 1, tf, 7*tf, 1e9, 86400e9, 400*86400e9)
			tag = "enc:after_interval"
		case 2:
			ipd = g.Pick(7, 11, 86401, 100000, 1000000, 3)
			idx = 1 + g.R.Int63n(ipd*365)
			tag = "enc:odd_ipd"
		case 3:
			idx = g.Pick(0, -1, -5, 1<<40, 1<<62, -(1 << 62), 9007199254740993)
			tag = "enc:odd_index"
		}
		g.Emit(fmt.Sprintf("enc %d %d %d", t, idx, ipd), tag, tfName(tf), "kind:encode")
	}
	g.Emit("enc 0 1 0", "enc:ipd_zero", "kind:encode")
	g.Emit("dec 0 0 5", "ipd:zero", "kind:decode")
	// exhaustive sweep of all 1e9 offsets of one 1-second interval (Go only; thorough tier), against
	// the closed form of the theorems; quick tier: the two ends and a random window
	start := int64(1546300800) + g.R.Int63n(86400*365)
	if g.Thorough() {
		const step = 20000000
		for lo := int64(0); lo < 1e9; lo += step {
			g.Emit(fmt.Sprintf("sweep1s %d %d %d", start, lo, lo+step), "kind:sweep1s")
		}
	} else {
		g.Emit(fmt.Sprintf("sweep1s %d %d %d", start, 0, 2000000), "kind:sweep1s")
		g.Emit(fmt.Sprintf("sweep1s %d %d %d", start, 998000000, 1000000000), "kind:sweep1s")
		lo := g.R.Int63n(990000000)
		g.Emit(fmt.Sprintf("sweep1s %d %d %d", start, lo, lo+2000000), "kind:sweep1s")
	}
}
