import Mkts.Model.Ticks
import Mathlib.Tactic.Linarith
import Mathlib.Tactic.NormNum
import Mathlib.Tactic.Positivity
import Mathlib.Tactic.Ring
import Mathlib.Tactic.FieldSimp
import Mathlib.Data.Rat.Floor
import Mathlib.Algebra.Order.Floor.Ring
/-!
# Lemmas for the tick encoding (C10): error analysis for every rounding operator

`Rnd` is the interface of a binary64-like rounding operator on exact rationals: relative error
at most `u = 2^-53` on non-negative arguments, monotone, exact on integers up to `2^53`.
All lemmas hold for every `R : Rnd`; `Rnd.exact` (no rounding at all) inhabits it, and
`Mkts.Ticks.rne` (the executable IEEE operator of the driver) is the intended instance.
-/
namespace Mkts.Ticks

/-- unit roundoff of binary64 -/
def u : ℚ := 1 / 9007199254740992

theorem u_eq : u = 1 / 2 ^ 53 := by norm_num [u]

structure Rnd where
  r : ℚ → ℚ
  lo : ∀ x, 0 ≤ x → x * (1 - u) ≤ r x
  hi : ∀ x, 0 ≤ x → r x ≤ x * (1 + u)
  mono : ∀ x y, x ≤ y → r x ≤ r y
  int : ∀ n : ℤ, |n| ≤ 2 ^ 53 → r n = n

namespace Rnd

/-- exact arithmetic is a rounding operator (non-vacuity of `Rnd`) -/
def exact : Rnd where
  r := id
  lo x hx := by simp only [id]; nlinarith [show (0:ℚ) ≤ u by norm_num [u]]
  hi x hx := by simp only [id]; nlinarith [show (0:ℚ) ≤ u by norm_num [u]]
  mono _ _ h := h
  int _ _ := rfl

variable (R : Rnd)

theorem nonneg {x : ℚ} (h : 0 ≤ x) : 0 ≤ R.r x := by
  have := R.lo x h
  have : 0 ≤ x * (1 - u) := mul_nonneg h (by norm_num [u])
  linarith

theorem zero : R.r 0 = 0 := by simpa using R.int 0 (by norm_num)
theorem one : R.r 1 = 1 := by simpa using R.int 1 (by norm_num)

theorem nat (n : ℕ) (h : n ≤ 2 ^ 53) : R.r (n : ℚ) = n := by
  have := R.int (n : ℤ) (by rw [abs_of_nonneg (by positivity)]; exact_mod_cast h)
  simpa using this

/-- absolute form of the upper error bound -/
theorem hi_abs {x B : ℚ} (h0 : 0 ≤ x) (hB : x ≤ B) : R.r x ≤ x + B * u := by
  have := R.hi x h0
  have : x * u ≤ B * u := mul_le_mul_of_nonneg_right hB (by norm_num [u])
  linarith

/-- absolute form of the lower error bound -/
theorem lo_abs {x B : ℚ} (h0 : 0 ≤ x) (hB : x ≤ B) : x - B * u ≤ R.r x := by
  have := R.lo x h0
  have : x * u ≤ B * u := mul_le_mul_of_nonneg_right hB (by norm_num [u])
  linarith

end Rnd

/-! ## conversions on in-range values -/

theorem floor_eq (x : ℚ) : x.floor = ⌊x⌋ := rfl

theorem toInt64_of_range {x : ℚ} (h0 : 0 ≤ x) (h1 : x < 9223372036854775808) : toInt64 x = ⌊x⌋ := by
  have hf0 : 0 ≤ ⌊x⌋ := Int.floor_nonneg.mpr h0
  have hf1 : ⌊x⌋ < 9223372036854775808 := by
    have : (⌊x⌋ : ℚ) ≤ x := Int.floor_le x
    have : ((⌊x⌋ : ℤ) : ℚ) < ((9223372036854775808 : ℤ) : ℚ) := by push_cast; linarith
    exact_mod_cast this
  simp only [toInt64, truncZ, if_pos h0, floor_eq, two63]
  rw [if_pos]
  constructor <;> omega

theorem toUint32_of_range {x : ℚ} (h0 : 0 ≤ x) (h1 : x < 4294967296) : toUint32 x = ⌊x⌋ := by
  have hf0 : 0 ≤ ⌊x⌋ := Int.floor_nonneg.mpr h0
  have hf1 : ⌊x⌋ < 4294967296 := by
    have : (⌊x⌋ : ℚ) ≤ x := Int.floor_le x
    have : ((⌊x⌋ : ℤ) : ℚ) < ((4294967296 : ℤ) : ℚ) := by push_cast; linarith
    exact_mod_cast this
  rw [toUint32, toInt64_of_range h0 (by linarith), two32]
  omega

theorem toUint64_of_range {x : ℚ} (h0 : 0 ≤ x) (h1 : x < 4294967296) : toUint64 x = ⌊x⌋ := by
  have hf0 : 0 ≤ ⌊x⌋ := Int.floor_nonneg.mpr h0
  have hf1 : ⌊x⌋ < 4294967296 := by
    have : (⌊x⌋ : ℚ) ≤ x := Int.floor_le x
    have : ((⌊x⌋ : ℤ) : ℚ) < ((4294967296 : ℤ) : ℚ) := by push_cast; linarith
    exact_mod_cast this
  have hlt : x < ((two63 : ℤ) : ℚ) := by simp only [two63]; push_cast; linarith
  rw [toUint64, if_pos hlt, toInt64_of_range h0 (by linarith), two64]
  omega

/-! ## constants -/
open Mkts.Extracted

theorem K_eq : K = 6832127434707241 / 137438953472 := by
  unfold K utils_io_ticksPerIntervalDivSecsPerDay_f64_num utils_io_ticksPerIntervalDivSecsPerDay_f64_den
  rw [Rat.mkRat_eq_div]; norm_num

theorem Kdec_eq : Kdec = K := by
  unfold K Kdec; decide

theorem nanosecondC_eq : nanosecondC = 1000000000 := by
  unfold nanosecondC executor_nanosecond; norm_num

theorem subnanosecondC_eq : subnanosecondC = 100000000 := by
  unfold subnanosecondC executor_subnanosecond; norm_num

theorem u_pos : (0:ℚ) < u := by norm_num [u]

/-- the float `float64(ipd) * ticksPerIntervalDivSecsPerDay` shared by writer and reader -/
def tps (R : Rnd) (ipd : ℤ) : ℚ := R.r ((ipd : ℚ) * K)

theorem tps_bounds (R : Rnd) (ipd : ℤ) (h1 : 1 ≤ ipd) :
    (ipd : ℚ) * K * (1 - u) ≤ tps R ipd ∧ tps R ipd ≤ (ipd : ℚ) * K * (1 + u) ∧ 49710 < tps R ipd := by
  have hi : (1:ℚ) ≤ ipd := by exact_mod_cast h1
  have hK : (49710.26 : ℚ) < K := by rw [K_eq]; norm_num
  have h0 : (0:ℚ) ≤ (ipd : ℚ) * K := by positivity
  refine ⟨R.lo _ h0, R.hi _ h0, ?_⟩
  have := R.lo _ h0
  have hu : (0:ℚ) < 1 - u := by norm_num [u]
  have : (49710.26:ℚ) * (1 - u) ≤ (ipd : ℚ) * K * (1 - u) := by
    apply mul_le_mul_of_nonneg_right _ hu.le
    nlinarith
  have : (49710:ℚ) < 49710.26 * (1 - u) := by norm_num [u]
  unfold tps; linarith

theorem fractionalSeconds_eq (R : Rnd) (ipd k : ℤ) :
    fractionalSeconds R.r ipd k = R.r ((k : ℚ) / tps R ipd) := by
  unfold fractionalSeconds tps; rw [Kdec_eq]


/-! ## the decoder -/

/-- slack of the decoder's own arithmetic, in ns -/
def eta : ℚ := 1 / 1000000

theorem floor_half (R : Rnd) : ⌊R.r (0 + 1/2)⌋ = 0 := by
  have h0 : (0:ℚ) ≤ 0 + 1/2 := by norm_num
  have a := R.lo _ h0
  have b := R.hi _ h0
  rw [Int.floor_eq_iff]
  norm_num [u] at a b ⊢
  constructor <;> linarith

/-- Error analysis of the decoder alone (any tick value, any `1 ≤ ipd ≤ 86400`): the whole second
    `W` of the repaired decoder and the nanosecond field `N` (shared by both decoders) satisfy
    `fs·1e9 - 1/2 - η < W·1e9 + N ≤ fs·1e9 + 1/2 + η` where `fs = fractionalSeconds`. -/
theorem decode_core (R : Rnd) (ipd k : ℤ) (h1 : 1 ≤ ipd) (hk0 : 0 ≤ k) (hk1 : k < 4294967296) :
    0 ≤ fractionalSeconds R.r ipd k ∧ fractionalSeconds R.r ipd k < 86401 ∧
    0 ≤ wholeOff R.r ipd k ∧ wholeOff R.r ipd k ≤ 86401 ∧
    0 ≤ nanosRaw R.r ipd k ∧ nanosRaw R.r ipd k ≤ 1000000000 ∧
    ((wholeOff R.r ipd k : ℚ) * 1000000000 + nanosRaw R.r ipd k ≤ fractionalSeconds R.r ipd k * 1000000000 + 1/2 + eta) ∧
    (fractionalSeconds R.r ipd k * 1000000000 - 1/2 - eta < (wholeOff R.r ipd k : ℚ) * 1000000000 + nanosRaw R.r ipd k) ∧
    (adj R.r ipd k = false → wholeOff R.r ipd k = ⌊fractionalSeconds R.r ipd k⌋) ∧
    (adj R.r ipd k = true → 1 ≤ wholeOff R.r ipd k ∧ nanosRaw R.r ipd k = 0) := by
  obtain ⟨hTlo, hThi, hT⟩ := tps_bounds R ipd h1
  have hT0 : (0:ℚ) < tps R ipd := by linarith
  have hkq0 : (0:ℚ) ≤ k := by exact_mod_cast hk0
  have hkq1 : (k:ℚ) ≤ 4294967295 := by
    have : k ≤ 4294967295 := by omega
    exact_mod_cast this
  have hq0 : (0:ℚ) ≤ (k:ℚ) / tps R ipd := by positivity
  have hq1 : (k:ℚ) / tps R ipd ≤ 86400.5 := by
    rw [div_le_iff₀ hT0]; nlinarith
  have hupos := u_pos
  have hu : u = 1 / 9007199254740992 := rfl
  -- fs
  have hfs_eq := fractionalSeconds_eq R ipd k
  set fs := fractionalSeconds R.r ipd k with hfs
  have hfs0 : 0 ≤ fs := by rw [hfs_eq]; exact R.nonneg hq0
  have hfs1 : fs < 86401 := by
    have := R.hi_abs hq0 hq1
    rw [hfs_eq]; rw [hu] at this; linarith
  -- floor and fraction
  have hfl0 : 0 ≤ ⌊fs⌋ := Int.floor_nonneg.mpr hfs0
  have hfl_le : (⌊fs⌋ : ℚ) ≤ fs := Int.floor_le fs
  have hfl_lt : fs < ⌊fs⌋ + 1 := Int.lt_floor_add_one fs
  have hfl1 : ⌊fs⌋ ≤ 86400 := by
    have : ((⌊fs⌋ : ℤ) : ℚ) < ((86401 : ℤ) : ℚ) := by push_cast; linarith
    have : ⌊fs⌋ < 86401 := by exact_mod_cast this
    omega
  have hg0 : 0 ≤ fs - ⌊fs⌋ := by linarith
  have hg1 : fs - ⌊fs⌋ ≤ 1 := by linarith
  -- y = r (fs - floor fs)
  set y := R.r (fs - (⌊fs⌋ : ℚ)) with hy
  have hy0 : 0 ≤ y := R.nonneg hg0
  have hy1 : y ≤ 1 := by
    have := R.mono _ _ hg1; rw [R.one] at this; exact this
  have hy_hi := R.hi_abs hg0 hg1
  have hy_lo := R.lo_abs hg0 hg1
  -- sub0 = r (1e9 * y)
  have hz0 : (0:ℚ) ≤ 1000000000 * y := by positivity
  have hz1 : (1000000000:ℚ) * y ≤ 1000000000 := by linarith
  have hsub0_eq : sub0 R.r ipd k = R.r (1000000000 * y) := by
    unfold sub0 subseconds0; rw [nanosecondC_eq]; rfl
  set s0 := sub0 R.r ipd k with hs0
  have hs0_0 : 0 ≤ s0 := by rw [hsub0_eq]; exact R.nonneg hz0
  have hs0_1 : s0 ≤ 1000000000 := by
    have := R.mono _ _ hz1
    rw [show (1000000000:ℚ) = ((1000000000:ℕ):ℚ) by norm_num, R.nat _ (by norm_num)] at this
    rw [hsub0_eq]; push_cast at this; exact this
  have hs0_hi : s0 ≤ 1000000000 * y + 1000000000 * u := by rw [hsub0_eq]; exact R.hi_abs hz0 hz1
  have hs0_lo : 1000000000 * y - 1000000000 * u ≤ s0 := by rw [hsub0_eq]; exact R.lo_abs hz0 hz1
  have hadj : adj R.r ipd k = decide ((1000000000:ℚ) ≤ s0) := by
    unfold adj; rw [nanosecondC_eq]
  by_cases hb : (1000000000:ℚ) ≤ s0
  · -- the adjustment branch
    have hadjT : adj R.r ipd k = true := by rw [hadj]; exact decide_eq_true hb
    have hs0e : s0 = 1000000000 := le_antisymm hs0_1 hb
    have hW : wholeOff R.r ipd k = ⌊fs⌋ + 1 := by
      unfold wholeOff; rw [if_pos hadjT]
      have : R.r (((fractionalSeconds R.r ipd k).floor : ℚ) + 1) = ((⌊fs⌋ + 1 : ℤ) : ℚ) := by
        have := R.int (⌊fs⌋ + 1) (by rw [abs_of_nonneg (by omega)]; norm_num; omega)
        push_cast at this ⊢; exact this
      rw [this, toUint64_of_range (by exact_mod_cast (by omega : (0:ℤ) ≤ ⌊fs⌋ + 1))
        (by exact_mod_cast (by omega : ⌊fs⌋ + 1 < 4294967296)), Int.floor_intCast]
    have hN : nanosRaw R.r ipd k = 0 := by
      unfold nanosRaw subAdj; rw [if_pos hadjT, ← hs0, hs0e, nanosecondC_eq, sub_self, R.zero]
      have h0 : (0:ℚ) ≤ 0 + 1/2 := by norm_num
      have a := R.lo _ h0
      have b := R.hi _ h0
      rw [toUint32_of_range (R.nonneg h0) (by rw [hu] at b; linarith), floor_half]
    rw [hW, hN]
    refine ⟨hfs0, hfs1, by omega, by omega, le_refl _, by norm_num, ?_, ?_, ?_, fun _ => ⟨by omega, rfl⟩⟩
    · push_cast; unfold eta; rw [hu] at *; linarith
    · push_cast; unfold eta; linarith
    · intro h; rw [hadjT] at h; cases h
  · -- the normal branch
    rw [not_le] at hb
    have hadjF : adj R.r ipd k = false := by rw [hadj]; exact decide_eq_false (not_le.mpr hb)
    have hW : wholeOff R.r ipd k = ⌊fs⌋ := by
      unfold wholeOff; rw [hadjF]; simp only [Bool.false_eq_true, if_false]
      rw [toUint64_of_range (by exact_mod_cast hfl0) (by exact_mod_cast (by omega : ⌊fs⌋ < 4294967296))]
      exact Int.floor_intCast _
    have hv0 : (0:ℚ) ≤ s0 + 1/2 := by linarith
    have hv1 : s0 + 1/2 ≤ 1000000001 := by linarith
    have hv_hi := R.hi_abs hv0 hv1
    have hv_lo := R.lo_abs hv0 hv1
    have hvb := R.hi _ hv0
    have hvlt : R.r (s0 + 1/2) < 1000000001 := by
      have : (s0 + 1/2) * (1 + u) < 1000000001 := by rw [hu]; nlinarith
      linarith
    have hN : nanosRaw R.r ipd k = ⌊R.r (s0 + 1/2)⌋ := by
      unfold nanosRaw subAdj; rw [hadjF]; simp only [Bool.false_eq_true, if_false]
      rw [← hs0, toUint32_of_range (R.nonneg hv0) (by linarith)]
    have hN0 : 0 ≤ ⌊R.r (s0 + 1/2)⌋ := Int.floor_nonneg.mpr (R.nonneg hv0)
    have hN1 : ⌊R.r (s0 + 1/2)⌋ ≤ 1000000000 := by
      have h := Int.floor_le (R.r (s0 + 1/2))
      have : ((⌊R.r (s0 + 1/2)⌋ : ℤ) : ℚ) < ((1000000001 : ℤ) : ℚ) := by push_cast; linarith
      have : ⌊R.r (s0 + 1/2)⌋ < 1000000001 := by exact_mod_cast this
      omega
    have hNle := Int.floor_le (R.r (s0 + 1/2))
    have hNlt := Int.lt_floor_add_one (R.r (s0 + 1/2))
    rw [hW, hN]
    refine ⟨hfs0, hfs1, hfl0, by omega, hN0, hN1, ?_, ?_, fun _ => rfl, fun h => by rw [hadjF] at h; cases h⟩
    · unfold eta; rw [hu] at *; linarith
    · unfold eta; rw [hu] at *; linarith


/-! ## the encoder -/

theorem ticksPerSecond_eq (R : Rnd) (ipd : ℤ) (h1 : 1 ≤ ipd) (h2 : ipd ≤ 86400) :
    ticksPerSecond R.r ipd = tps R ipd := by
  unfold ticksPerSecond tps
  rw [R.int ipd (by rw [abs_of_nonneg (by omega)]; norm_num; omega)]

/-- `Duration.Seconds()` of a non-negative duration below one day + 1 s: relative and absolute error -/
theorem durSeconds_bounds (R : Rnd) (d : ℤ) (hd0 : 0 ≤ d) (hd1 : d ≤ 86400000000000) :
    0 ≤ durSeconds R.r d ∧ durSeconds R.r d ≤ (d : ℚ) / 1000000000 * (1 + u) ^ 2 ∧
    durSeconds R.r d ≤ (d : ℚ) / 1000000000 + 86403 * u ∧
    (d : ℚ) / 1000000000 - 86403 * u ≤ durSeconds R.r d := by
  have hupos := u_pos
  have hq : d.tdiv 1000000000 = d / 1000000000 := Int.tdiv_eq_ediv_of_nonneg hd0
  have hn : d.tmod 1000000000 = d % 1000000000 := Int.tmod_eq_emod_of_nonneg hd0
  have hsplit : (d : ℚ) / 1000000000 = ((d / 1000000000 : ℤ) : ℚ) + ((d % 1000000000 : ℤ) : ℚ) / 1000000000 := by
    have : d = 1000000000 * (d / 1000000000) + d % 1000000000 := by omega
    have h2 : (d : ℚ) = 1000000000 * ((d / 1000000000 : ℤ) : ℚ) + ((d % 1000000000 : ℤ) : ℚ) := by
      exact_mod_cast this
    rw [h2]; field_simp
  have hq0 : (0:ℚ) ≤ ((d / 1000000000 : ℤ) : ℚ) := by
    have : 0 ≤ d / 1000000000 := Int.ediv_nonneg hd0 (by norm_num)
    exact_mod_cast this
  have hq1 : ((d / 1000000000 : ℤ) : ℚ) ≤ 86400 := by
    have : d / 1000000000 ≤ 86400 := by omega
    exact_mod_cast this
  have hn0 : (0:ℚ) ≤ ((d % 1000000000 : ℤ) : ℚ) / 1000000000 := by
    have : 0 ≤ d % 1000000000 := Int.emod_nonneg _ (by norm_num)
    have : (0:ℚ) ≤ ((d % 1000000000 : ℤ) : ℚ) := by exact_mod_cast this
    positivity
  have hn1 : ((d % 1000000000 : ℤ) : ℚ) / 1000000000 ≤ 1 := by
    have : d % 1000000000 < 1000000000 := Int.emod_lt_of_pos _ (by norm_num)
    have : ((d % 1000000000 : ℤ) : ℚ) ≤ 1000000000 := by exact_mod_cast this.le
    rw [div_le_one (by norm_num)]; exact this
  unfold durSeconds
  rw [hq, hn]
  set q := ((d / 1000000000 : ℤ) : ℚ)
  set f := ((d % 1000000000 : ℤ) : ℚ) / 1000000000
  have hu1 : u ≤ 1 := by norm_num [u]
  have ha0 : 0 ≤ R.r f := R.nonneg hn0
  have ha_hi := R.hi _ hn0
  have ha_hia := R.hi_abs hn0 hn1
  have ha_loa := R.lo_abs hn0 hn1
  have hqa0 : 0 ≤ q + R.r f := by linarith
  have hqa1 : q + R.r f ≤ 86402 := by linarith
  have hs_hi := R.hi _ hqa0
  have hs_hia := R.hi_abs hqa0 hqa1
  have hs_loa := R.lo_abs hqa0 hqa1
  refine ⟨R.nonneg hqa0, ?_, ?_, ?_⟩
  · rw [hsplit]
    have h1 : q + R.r f ≤ (q + f) * (1 + u) := by nlinarith
    have h2 : (q + R.r f) * (1 + u) ≤ (q + f) * (1 + u) * (1 + u) :=
      mul_le_mul_of_nonneg_right h1 (by linarith)
    calc R.r (q + R.r f) ≤ (q + R.r f) * (1 + u) := hs_hi
      _ ≤ (q + f) * (1 + u) * (1 + u) := h2
      _ = (q + f) * (1 + u) ^ 2 := by ring
  · rw [hsplit]; linarith
  · rw [hsplit]; linarith


/-- Error analysis of the encoder for an offset `d` inside an interval of `tfs` seconds,
    `ipd * tfs = 86400`: the float is in `[0, 2^32)` (no `uint32` wrap), and the tick count `k`
    satisfies `x - 172804u - 1/T < k/T ≤ x + 172804u` with `x = d/1e9` seconds. -/
theorem encode_core (R : Rnd) (ipd tfs d : ℤ) (h1 : 1 ≤ ipd) (hday : ipd * tfs = 86400)
    (hd0 : 0 ≤ d) (hd1 : d < tfs * 1000000000) :
    0 ≤ encodeF R.r ipd d ∧ encodeF R.r ipd d < 4294967296 ∧
    encode R.r ipd d = ⌊encodeF R.r ipd d⌋ ∧
    0 ≤ encode R.r ipd d ∧ encode R.r ipd d < 4294967296 ∧
    ((encode R.r ipd d : ℚ) / tps R ipd ≤ (d : ℚ) / 1000000000 + 172804 * u) ∧
    ((d : ℚ) / 1000000000 - 172804 * u - 1 / tps R ipd < (encode R.r ipd d : ℚ) / tps R ipd) := by
  have hupos := u_pos
  have hu : u = 1 / 9007199254740992 := rfl
  have htfs : 1 ≤ tfs := by nlinarith
  have hipd2 : ipd ≤ 86400 := by nlinarith
  have htfs2 : tfs ≤ 86400 := by nlinarith
  obtain ⟨hTlo, hThi, hT⟩ := tps_bounds R ipd h1
  have hT0 : (0:ℚ) < tps R ipd := by linarith
  obtain ⟨hs0, hs_rel, hs_hi, hs_lo⟩ := durSeconds_bounds R d hd0 (by nlinarith)
  set s := durSeconds R.r d with hs
  set x := (d : ℚ) / 1000000000 with hx
  have hx0 : 0 ≤ x := by
    have : (0:ℚ) ≤ d := by exact_mod_cast hd0
    positivity
  -- ipd * x ≤ 86400 - 1e-9
  have hipdq : (1:ℚ) ≤ ipd := by exact_mod_cast h1
  have hdq : (d:ℚ) ≤ tfs * 1000000000 - 1 := by
    have : d ≤ tfs * 1000000000 - 1 := by omega
    exact_mod_cast this
  have hdayq : (ipd:ℚ) * tfs = 86400 := by exact_mod_cast hday
  have hxle : x ≤ tfs - 1 / 1000000000 := by
    rw [hx, div_le_iff₀ (by norm_num)]; linarith
  have hix : (ipd:ℚ) * x ≤ 86400 - 1 / 1000000000 := by
    have : (ipd:ℚ) * x ≤ ipd * (tfs - 1 / 1000000000) := mul_le_mul_of_nonneg_left hxle (by linarith)
    nlinarith
  have hx86 : x ≤ 86400 := by
    have : (tfs:ℚ) ≤ 86400 := by exact_mod_cast htfs2
    linarith
  have hK0 : (0:ℚ) < K := by rw [K_eq]; norm_num
  -- p
  have hp_eq : encodeF R.r ipd d = R.r (tps R ipd * s) := by
    unfold encodeF; rw [ticksPerSecond_eq R ipd h1 hipd2]
  have hTs0 : 0 ≤ tps R ipd * s := by positivity
  have hp0 : 0 ≤ encodeF R.r ipd d := by rw [hp_eq]; exact R.nonneg hTs0
  have hp_hi : encodeF R.r ipd d ≤ tps R ipd * s * (1 + u) := by rw [hp_eq]; exact R.hi _ hTs0
  have hp_lo : tps R ipd * s * (1 - u) ≤ encodeF R.r ipd d := by rw [hp_eq]; exact R.lo _ hTs0
  -- no wrap
  have hTs : tps R ipd * s ≤ ((ipd : ℚ) * K * (1 + u)) * (x * (1 + u) ^ 2) :=
    mul_le_mul hThi hs_rel hs0 (by positivity)
  have hp_lt : encodeF R.r ipd d < 4294967296 := by
    have h3 : tps R ipd * s * (1 + u) ≤ ((ipd : ℚ) * K * (1 + u)) * (x * (1 + u) ^ 2) * (1 + u) :=
      mul_le_mul_of_nonneg_right hTs (by linarith)
    have h4 : ((ipd : ℚ) * K * (1 + u)) * (x * (1 + u) ^ 2) * (1 + u) = ((ipd : ℚ) * x) * (K * (1 + u) ^ 4) := by ring
    have h5 : ((ipd : ℚ) * x) * (K * (1 + u) ^ 4) ≤ (86400 - 1 / 1000000000) * (K * (1 + u) ^ 4) :=
      mul_le_mul_of_nonneg_right hix (by positivity)
    have h6 : (86400 - 1 / 1000000000) * (K * (1 + u) ^ 4) < 4294967296 := by
      rw [K_eq, hu]; norm_num
    linarith
  have hk : encode R.r ipd d = ⌊encodeF R.r ipd d⌋ := by
    unfold encode; exact toUint32_of_range hp0 hp_lt
  have hk0 : 0 ≤ ⌊encodeF R.r ipd d⌋ := Int.floor_nonneg.mpr hp0
  have hk1 : ⌊encodeF R.r ipd d⌋ < 4294967296 := by
    have h := Int.floor_le (encodeF R.r ipd d)
    have : ((⌊encodeF R.r ipd d⌋ : ℤ) : ℚ) < ((4294967296 : ℤ) : ℚ) := by push_cast; linarith
    exact_mod_cast this
  have hkle := Int.floor_le (encodeF R.r ipd d)
  have hklt := Int.lt_floor_add_one (encodeF R.r ipd d)
  have hs86 : s ≤ 86401 := by rw [hu] at hs_hi; linarith
  have hsu : s * u ≤ 86401 * u := mul_le_mul_of_nonneg_right hs86 hupos.le
  rw [hk]
  refine ⟨hp0, hp_lt, rfl, hk0, hk1, ?_, ?_⟩
  · rw [div_le_iff₀ hT0]
    have : tps R ipd * s * (1 + u) ≤ (x + 172804 * u) * tps R ipd := by
      have : s * (1 + u) ≤ x + 172804 * u := by nlinarith
      nlinarith
    linarith
  · rw [lt_div_iff₀ hT0]
    have h7 : (x - 172804 * u - 1 / tps R ipd) * tps R ipd = (x - 172804 * u) * tps R ipd - 1 := by
      field_simp
    rw [h7]
    have : (x - 172804 * u) * tps R ipd ≤ tps R ipd * s * (1 - u) := by
      have : x - 172804 * u ≤ s * (1 - u) := by nlinarith
      nlinarith
    linarith


/-! ## round trip -/

/-- decoded offset (ns) of the repaired decoder before the carry is applied -/
def fixedOff (r : ℚ → ℚ) (ipd k : ℤ) : ℤ := wholeOff r ipd k * 1000000000 + nanosRaw r ipd k

/-- Round trip through the repaired decoder, for every rounding operator: never late, and early by
    less than `1e9/T + 0.53` ns where `T` is the float `ticksPerSecond`. -/
theorem roundtrip_core (R : Rnd) (ipd tfs d : ℤ) (h1 : 1 ≤ ipd) (hday : ipd * tfs = 86400)
    (hd0 : 0 ≤ d) (hd1 : d < tfs * 1000000000) :
    fixedOff R.r ipd (encode R.r ipd d) ≤ d ∧
    ((d : ℚ) - fixedOff R.r ipd (encode R.r ipd d) < 1000000000 / tps R ipd + 53 / 100) := by
  have hu : u = 1 / 9007199254740992 := rfl
  obtain ⟨_, _, _, hk0, hk1, hkhi, hklo⟩ := encode_core R ipd tfs d h1 hday hd0 hd1
  set k := encode R.r ipd d with hk
  obtain ⟨hfs0, hfs1, hW0, hW1, hN0, hN1, hDhi, hDlo, _⟩ := decode_core R ipd k h1 hk0 hk1
  obtain ⟨_, _, hT⟩ := tps_bounds R ipd h1
  have hT0 : (0:ℚ) < tps R ipd := by linarith
  have htfs2 : tfs ≤ 86400 := by nlinarith
  have hdq : (d:ℚ) / 1000000000 ≤ 86400 := by
    rw [div_le_iff₀ (by norm_num)]
    have : d ≤ 86400 * 1000000000 := by nlinarith
    exact_mod_cast this
  have hq0 : (0:ℚ) ≤ (k:ℚ) / tps R ipd := by
    have : (0:ℚ) ≤ k := by exact_mod_cast hk0
    positivity
  have hq1 : (k:ℚ) / tps R ipd ≤ 86401 := by rw [hu] at hkhi; linarith
  have hfs_eq := fractionalSeconds_eq R ipd k
  have hfs_hi := R.hi_abs hq0 hq1
  have hfs_lo := R.lo_abs hq0 hq1
  rw [← hfs_eq] at hfs_hi hfs_lo
  have hdd : (d:ℚ) = (d:ℚ) / 1000000000 * 1000000000 := by field_simp
  have hcast : ((fixedOff R.r ipd k : ℤ) : ℚ) = (wholeOff R.r ipd k : ℚ) * 1000000000 + nanosRaw R.r ipd k := by
    unfold fixedOff; push_cast; ring
  constructor
  · have : ((fixedOff R.r ipd k : ℤ) : ℚ) < ((d + 1 : ℤ) : ℚ) := by
      rw [hcast]; push_cast; unfold eta at hDhi; rw [hu] at *; linarith
    have : fixedOff R.r ipd k < d + 1 := by exact_mod_cast this
    omega
  · rw [hcast]
    have : (1000000000:ℚ) / tps R ipd = 1 / tps R ipd * 1000000000 := by field_simp
    rw [this]; unfold eta at hDlo; rw [hu] at *; linarith


theorem durSeconds_mono (R : Rnd) (d1 d2 : ℤ) (h0 : 0 ≤ d1) (h12 : d1 ≤ d2) :
    durSeconds R.r d1 ≤ durSeconds R.r d2 := by
  have h02 : 0 ≤ d2 := le_trans h0 h12
  unfold durSeconds
  rw [Int.tdiv_eq_ediv_of_nonneg h0, Int.tmod_eq_emod_of_nonneg h0,
    Int.tdiv_eq_ediv_of_nonneg h02, Int.tmod_eq_emod_of_nonneg h02]
  apply R.mono
  have hn1 : 0 ≤ d1 % 1000000000 := Int.emod_nonneg _ (by norm_num)
  have hn1' : d1 % 1000000000 < 1000000000 := Int.emod_lt_of_pos _ (by norm_num)
  have hn2 : 0 ≤ d2 % 1000000000 := Int.emod_nonneg _ (by norm_num)
  have hf1 : ((d1 % 1000000000 : ℤ) : ℚ) / 1000000000 ≤ 1 := by
    rw [div_le_one (by norm_num)]; exact_mod_cast hn1'.le
  have hf2 : (0:ℚ) ≤ ((d2 % 1000000000 : ℤ) : ℚ) / 1000000000 := by
    have : (0:ℚ) ≤ ((d2 % 1000000000 : ℤ) : ℚ) := by exact_mod_cast hn2
    positivity
  by_cases hq : d1 / 1000000000 = d2 / 1000000000
  · rw [hq]
    have : d1 % 1000000000 ≤ d2 % 1000000000 := by omega
    have : ((d1 % 1000000000 : ℤ) : ℚ) / 1000000000 ≤ ((d2 % 1000000000 : ℤ) : ℚ) / 1000000000 := by
      apply div_le_div_of_nonneg_right _ (by norm_num)
      exact_mod_cast this
    have := R.mono _ _ this
    linarith
  · have hlt : d1 / 1000000000 + 1 ≤ d2 / 1000000000 := by omega
    have hlt' : ((d1 / 1000000000 : ℤ) : ℚ) + 1 ≤ ((d2 / 1000000000 : ℤ) : ℚ) := by exact_mod_cast hlt
    have a := R.mono _ _ hf1
    rw [R.one] at a
    have b := R.nonneg hf2
    linarith

/-- the encoder preserves order inside an interval -/
theorem encode_mono_core (R : Rnd) (ipd tfs d1 d2 : ℤ) (h1 : 1 ≤ ipd) (hday : ipd * tfs = 86400)
    (hd0 : 0 ≤ d1) (h12 : d1 ≤ d2) (hd2 : d2 < tfs * 1000000000) :
    encode R.r ipd d1 ≤ encode R.r ipd d2 := by
  obtain ⟨_, _, hk1, _⟩ := encode_core R ipd tfs d1 h1 hday hd0 (by omega)
  obtain ⟨_, _, hk2, _⟩ := encode_core R ipd tfs d2 h1 hday (by omega) hd2
  rw [hk1, hk2]
  apply Int.floor_le_floor
  have htfs : 1 ≤ tfs := by nlinarith
  have hipd2 : ipd ≤ 86400 := by nlinarith
  unfold encodeF
  apply R.mono
  rw [ticksPerSecond_eq R ipd h1 hipd2]
  obtain ⟨_, _, hT⟩ := tps_bounds R ipd h1
  exact mul_le_mul_of_nonneg_left (durSeconds_mono R d1 d2 hd0 h12) (by linarith)

/-- one resolution step: `1e9 / T ≤ tf_ns / 4294967295.99` -/
theorem resolution_bound (R : Rnd) (ipd tfs : ℤ) (h1 : 1 ≤ ipd) (hday : ipd * tfs = 86400) :
    1000000000 / tps R ipd ≤ ((tfs : ℚ) * 1000000000) / 4294967295.99 := by
  obtain ⟨hTlo, _, hT⟩ := tps_bounds R ipd h1
  have hT0 : (0:ℚ) < tps R ipd := by linarith
  have htfs : 1 ≤ tfs := by nlinarith
  have htfsq : (1:ℚ) ≤ tfs := by exact_mod_cast htfs
  have hdayq : (ipd:ℚ) * tfs = 86400 := by exact_mod_cast hday
  rw [div_le_div_iff₀ hT0 (by norm_num)]
  have h2 : (tfs:ℚ) * ((ipd : ℚ) * K * (1 - u)) ≤ tfs * tps R ipd :=
    mul_le_mul_of_nonneg_left hTlo (by linarith)
  have h3 : (tfs:ℚ) * ((ipd : ℚ) * K * (1 - u)) = 86400 * (K * (1 - u)) := by
    rw [← hdayq]; ring
  have h4 : (4294967295.99:ℚ) ≤ 86400 * (K * (1 - u)) := by
    rw [K_eq]; norm_num [u]
  nlinarith


/-! ## the rounded second of the decoder as written -/

/-- the second computed by `uint64(math.Round(fs*1e8)/1e8)` is the integer quotient of the
    rounded value by 1e8 (the division by 1e8 and the truncation lose nothing) -/
theorem roundedOff_eq (R : Rnd) (ipd k : ℤ) (h1 : 1 ≤ ipd) (hk0 : 0 ≤ k) (hk1 : k < 4294967296)
    (hadj : adj R.r ipd k = false) :
    roundedOff R.r ipd k = ⌊R.r (fractionalSeconds R.r ipd k * 100000000) + 1/2⌋ / 100000000 := by
  have hu : u = 1 / 9007199254740992 := rfl
  obtain ⟨hfs0, hfs1, _⟩ := decode_core R ipd k h1 hk0 hk1
  unfold roundedOff fsAdj
  rw [hadj]; simp only [Bool.false_eq_true, if_false]
  rw [subnanosecondC_eq]
  set fs := fractionalSeconds R.r ipd k
  have hz0 : (0:ℚ) ≤ fs * 100000000 := by positivity
  have hz1 : fs * 100000000 ≤ 8640100000000 := by linarith
  have hz'0 := R.nonneg hz0
  have hz'hi := R.hi_abs hz0 hz1
  set z' := R.r (fs * 100000000)
  have hg : goRound z' = ⌊z' + 1/2⌋ := by unfold goRound; rw [if_pos hz'0]; rfl
  rw [hg]
  set g := ⌊z' + 1/2⌋ with hgdef
  have hg0 : 0 ≤ g := Int.floor_nonneg.mpr (by linarith)
  have hgle := Int.floor_le (z' + 1/2)
  have hg1 : g ≤ 8640100000001 := by
    have : ((g : ℤ) : ℚ) < ((8640100000002 : ℤ) : ℚ) := by push_cast; rw [hu] at hz'hi; linarith
    have : g < 8640100000002 := by exact_mod_cast this
    omega
  have hsplit : (g : ℚ) / 100000000 = ((g / 100000000 : ℤ) : ℚ) + ((g % 100000000 : ℤ) : ℚ) / 100000000 := by
    have : g = 100000000 * (g / 100000000) + g % 100000000 := by omega
    have h2 : (g : ℚ) = 100000000 * ((g / 100000000 : ℤ) : ℚ) + ((g % 100000000 : ℤ) : ℚ) := by
      exact_mod_cast this
    rw [h2]; field_simp
  have hm0 : 0 ≤ g / 100000000 := by omega
  have hm1 : g / 100000000 ≤ 86402 := by omega
  have hmq0 : (0:ℚ) ≤ ((g / 100000000 : ℤ) : ℚ) := by exact_mod_cast hm0
  have hmq1 : ((g / 100000000 : ℤ) : ℚ) ≤ 86402 := by exact_mod_cast hm1
  have hw : ⌊R.r ((g : ℚ) / 100000000)⌋ = g / 100000000 := by
    by_cases hrho : g % 100000000 = 0
    · rw [hsplit, hrho]; simp only [Int.cast_zero, zero_div, add_zero]
      rw [R.int _ (by rw [abs_of_nonneg hm0]; norm_num; omega)]
      exact Int.floor_intCast _
    · have hr0 : 1 ≤ g % 100000000 := by omega
      have hr1 : g % 100000000 ≤ 99999999 := by omega
      have hrq0 : (1:ℚ) ≤ ((g % 100000000 : ℤ) : ℚ) := by exact_mod_cast hr0
      have hrq1 : ((g % 100000000 : ℤ) : ℚ) ≤ 99999999 := by exact_mod_cast hr1
      have hq0 : (0:ℚ) ≤ (g : ℚ) / 100000000 := by
        have : (0:ℚ) ≤ g := by exact_mod_cast hg0
        positivity
      have hq1 : (g : ℚ) / 100000000 ≤ 86403 := by rw [hsplit]; linarith
      have a := R.hi_abs hq0 hq1
      have b := R.lo_abs hq0 hq1
      rw [Int.floor_eq_iff]
      rw [hsplit] at a b ⊢
      rw [hu] at a b
      constructor <;> linarith
  have hwr0 : 0 ≤ R.r ((g : ℚ) / 100000000) := R.nonneg (by
    have : (0:ℚ) ≤ g := by exact_mod_cast hg0
    positivity)
  have hwr1 : R.r ((g : ℚ) / 100000000) < 4294967296 := by
    have h := Int.lt_floor_add_one (R.r ((g : ℚ) / 100000000))
    rw [hw] at h
    have : ((g / 100000000 : ℤ) : ℚ) + 1 ≤ 86403 := by linarith
    linarith
  rw [toUint64_of_range hwr0 hwr1, hw]


/-- where the rounded second goes, in terms of the decoded nanosecond field: `≤ 999 999 994`
    ⇒ the whole second; `≥ 999 999 996` ⇒ one second more -/
theorem roundedOff_cases (R : Rnd) (ipd k : ℤ) (h1 : 1 ≤ ipd) (hk0 : 0 ≤ k) (hk1 : k < 4294967296)
    (hadj : adj R.r ipd k = false) :
    (nanosRaw R.r ipd k ≤ 999999994 → roundedOff R.r ipd k = wholeOff R.r ipd k) ∧
    (999999996 ≤ nanosRaw R.r ipd k → roundedOff R.r ipd k = wholeOff R.r ipd k + 1) := by
  have hu : u = 1 / 9007199254740992 := rfl
  obtain ⟨hfs0, hfs1, _, _, hN0, hN1, hDhi, hDlo, hW, _⟩ := decode_core R ipd k h1 hk0 hk1
  have hWe := hW hadj
  rw [roundedOff_eq R ipd k h1 hk0 hk1 hadj, hWe]
  rw [hWe] at hDhi hDlo
  set fs := fractionalSeconds R.r ipd k
  have hz0 : (0:ℚ) ≤ fs * 100000000 := by positivity
  have hz1 : fs * 100000000 ≤ 8640100000000 := by linarith
  have hzhi := R.hi_abs hz0 hz1
  have hzlo := R.lo_abs hz0 hz1
  set z' := R.r (fs * 100000000)
  have hfl_le : (⌊fs⌋ : ℚ) ≤ fs := Int.floor_le fs
  have hfl_lt : fs < ⌊fs⌋ + 1 := Int.lt_floor_add_one fs
  unfold eta at hDhi hDlo
  rw [hu] at hzhi hzlo
  constructor
  · intro hN
    have hNq : (nanosRaw R.r ipd k : ℚ) ≤ 999999994 := by exact_mod_cast hN
    have hlo : ⌊fs⌋ * 100000000 ≤ ⌊z' + 1/2⌋ := by
      rw [Int.le_floor]; push_cast; linarith
    have hhi : ⌊z' + 1/2⌋ < (⌊fs⌋ + 1) * 100000000 := by
      rw [Int.floor_lt]; push_cast; linarith
    omega
  · intro hN
    have hNq : (999999996 : ℚ) ≤ (nanosRaw R.r ipd k : ℚ) := by exact_mod_cast hN
    have hlo : (⌊fs⌋ + 1) * 100000000 ≤ ⌊z' + 1/2⌋ := by
      rw [Int.le_floor]; push_cast; linarith
    have hhi : ⌊z' + 1/2⌋ < (⌊fs⌋ + 2) * 100000000 := by
      rw [Int.floor_lt]; push_cast; linarith
    omega

/-- the repaired decoder returns `fixedOff` ns after the interval start, with a nanosecond field
    below 1e9 -/
theorem fixed_offset (R : Rnd) (start ipd k : ℤ) (h1 : 1 ≤ ipd) (hk0 : 0 ≤ k) (hk1 : k < 4294967296)
    (hs0 : 0 ≤ start) (hs1 : start + 86402 < 18446744073709551616) :
    (getTimeFromTicksFixed R.r start ipd k).offsetNs start = fixedOff R.r ipd k ∧
    0 ≤ (getTimeFromTicksFixed R.r start ipd k).nanos ∧
    (getTimeFromTicksFixed R.r start ipd k).nanos < 1000000000 ∧
    start ≤ (getTimeFromTicksFixed R.r start ipd k).sec := by
  obtain ⟨_, _, hW0, hW1, hN0, hN1, _⟩ := decode_core R ipd k h1 hk0 hk1
  unfold getTimeFromTicksFixed Decoded.offsetNs fixedOff two64
  split
  · rw [Int.emod_eq_of_lt (by omega) (by omega)]
    refine ⟨by ring, by simp only; omega, by simp only; omega, by simp only; omega⟩
  · rw [Int.emod_eq_of_lt (by omega) (by omega)]
    refine ⟨by ring, by simp only; omega, by simp only; omega, by simp only; omega⟩

/-- the decoder as written agrees with the repaired one when its rounded second is the whole
    second and its nanosecond field is below 1e9 -/
theorem asis_eq_fixed (r : ℚ → ℚ) (start ipd k : ℤ) (hsec : roundedOff r ipd k = wholeOff r ipd k)
    (hns : nanosRaw r ipd k < 1000000000) :
    getTimeFromTicksOld r start ipd k = getTimeFromTicksFixed r start ipd k := by
  unfold getTimeFromTicksOld getTimeFromTicksFixed
  rw [if_neg (by omega), hsec]

/-- the decoder as written: offset from the interval start -/
theorem asis_offset (R : Rnd) (start ipd k : ℤ) (h1 : 1 ≤ ipd) (hk0 : 0 ≤ k) (hk1 : k < 4294967296)
    (hs0 : 0 ≤ start) (hs1 : start + 86403 < 18446744073709551616) :
    (roundedOff R.r ipd k = wholeOff R.r ipd k ∨ roundedOff R.r ipd k = wholeOff R.r ipd k + 1) →
    (getTimeFromTicksOld R.r start ipd k).offsetNs start =
      roundedOff R.r ipd k * 1000000000 + nanosRaw R.r ipd k := by
  obtain ⟨_, _, hW0, hW1, hN0, hN1, _⟩ := decode_core R ipd k h1 hk0 hk1
  intro h
  unfold getTimeFromTicksOld Decoded.offsetNs two64
  simp only
  rw [Int.emod_eq_of_lt (by omega) (by omega)]
  ring


/-! ## the base time -/
open Mkts.Time in
/-- `IndexToTimeDepr` is exact for timeframes of whole seconds dividing a day: the float
    computation `float64(index-1)*86400/float64(ipd)` is an integer below `2^53` at every step -/
theorem indexToTimeDeprOffset_exact (R : Rnd) (index ipd tfs : ℤ) (h1 : 1 ≤ ipd) (hday : ipd * tfs = 86400)
    (hi1 : 1 ≤ index) (hi2 : index ≤ 366 * ipd) :
    indexToTimeDeprOffset R.r index ipd = (index - 1) * (tfs * 1000000000) := by
  have htfs : 1 ≤ tfs := by nlinarith
  have hipd2 : ipd ≤ 86400 := by nlinarith
  have hn0 : 0 ≤ index - 1 := by omega
  have hn1 : index - 1 ≤ 31622400 := by nlinarith
  have hm1 : (index - 1) * tfs ≤ 31622400 := by nlinarith
  have hm0 : 0 ≤ (index - 1) * tfs := by positivity
  unfold indexToTimeDeprOffset
  rw [R.int (index - 1) (by rw [abs_of_nonneg hn0]; norm_num; omega)]
  have e1 : ((index - 1 : ℤ) : ℚ) * 86400 = (((index - 1) * 86400 : ℤ) : ℚ) := by push_cast; ring
  rw [e1, R.int ((index - 1) * 86400) (by rw [abs_of_nonneg (by omega)]; norm_num; omega),
    R.int ipd (by rw [abs_of_nonneg (by omega)]; norm_num; omega)]
  have e2 : (((index - 1) * 86400 : ℤ) : ℚ) / (ipd : ℚ) = (((index - 1) * tfs : ℤ) : ℚ) := by
    have hq : (ipd : ℚ) ≠ 0 := by
      have : (1:ℚ) ≤ ipd := by exact_mod_cast h1
      linarith
    rw [div_eq_iff hq, ← hday]; push_cast; ring
  rw [e2, R.int ((index - 1) * tfs) (by rw [abs_of_nonneg hm0]; norm_num; omega)]
  have hq0 : (0:ℚ) ≤ (((index - 1) * tfs : ℤ) : ℚ) := by exact_mod_cast hm0
  have hq1 : (((index - 1) * tfs : ℤ) : ℚ) < 9223372036854775808 := by
    have : (index - 1) * tfs < 9223372036854775808 := by omega
    exact_mod_cast this
  rw [toInt64_of_range hq0 hq1, Int.floor_intCast]
  unfold wrap64 two63 two64
  have : (index - 1) * tfs * 1000000000 ≤ 31622400 * 1000000000 := by nlinarith
  have : 0 ≤ (index - 1) * tfs * 1000000000 := by positivity
  rw [Int.emod_eq_of_lt (by omega) (by omega)]
  ring

open Mkts.Time in
/-- `GetIntervalTicks32Bit(ts, index, ipd)` is the encoder applied to the offset of `ts` from the
    start of slot `index` (sub-day timeframes, UTC; the slot start is `IndexToTime` of C30) -/
theorem getIntervalTicks32Bit_eq (R : Rnd) (ts index ipd tfs : ℤ) (h1 : 1 ≤ ipd) (hday : ipd * tfs = 86400)
    (htf : tfs * 1000000000 ≠ dayNs) (hi1 : 1 ≤ index) (hi2 : index ≤ 366 * ipd)
    (hd0 : 0 ≤ ts - indexToTime utc index (tfs * 1000000000) (localYear utc ts))
    (hd1 : ts - indexToTime utc index (tfs * 1000000000) (localYear utc ts) < tfs * 1000000000) :
    getIntervalTicks32Bit R.r ts index ipd =
      encode R.r ipd (ts - indexToTime utc index (tfs * 1000000000) (localYear utc ts)) := by
  have hbase : indexToTimeDepr R.r index ipd (localYear utc ts)
      = indexToTime utc index (tfs * 1000000000) (localYear utc ts) := by
    unfold indexToTimeDepr indexToTime
    rw [indexToTimeDeprOffset_exact R index ipd tfs h1 hday hi1 hi2]
    simp only [beq_iff_eq, htf, if_false]
    ring
  unfold getIntervalTicks32Bit
  simp only [hbase]
  have htfs2 : tfs ≤ 86400 := by nlinarith
  congr 1
  unfold sat64 two63
  rw [if_neg (by omega), if_neg (by omega)]


/-! ## the repaired decoder is monotone in the ticks -/

/-- shape of the repaired decoder's result in its two branches (used for monotonicity) -/
theorem decode_shape (R : Rnd) (ipd k : ℤ) (h1 : 1 ≤ ipd) (hk0 : 0 ≤ k) (hk1 : k < 4294967296) :
    sub0 R.r ipd k = R.r (1000000000 * R.r (fractionalSeconds R.r ipd k - (⌊fractionalSeconds R.r ipd k⌋ : ℚ))) ∧
    0 ≤ sub0 R.r ipd k ∧
    (adj R.r ipd k = true → 1000000000 ≤ sub0 R.r ipd k ∧
      wholeOff R.r ipd k = ⌊fractionalSeconds R.r ipd k⌋ + 1 ∧ nanosRaw R.r ipd k = 0) ∧
    (adj R.r ipd k = false → sub0 R.r ipd k < 1000000000 ∧
      wholeOff R.r ipd k = ⌊fractionalSeconds R.r ipd k⌋ ∧
      nanosRaw R.r ipd k = ⌊R.r (sub0 R.r ipd k + 1/2)⌋) := by
  obtain ⟨hTlo, hThi, hT⟩ := tps_bounds R ipd h1
  have hT0 : (0:ℚ) < tps R ipd := by linarith
  have hkq0 : (0:ℚ) ≤ k := by exact_mod_cast hk0
  have hkq1 : (k:ℚ) ≤ 4294967295 := by
    have : k ≤ 4294967295 := by omega
    exact_mod_cast this
  have hq0 : (0:ℚ) ≤ (k:ℚ) / tps R ipd := by positivity
  have hq1 : (k:ℚ) / tps R ipd ≤ 86400.5 := by
    rw [div_le_iff₀ hT0]; nlinarith
  have hupos := u_pos
  have hu : u = 1 / 9007199254740992 := rfl
  have hfs_eq := fractionalSeconds_eq R ipd k
  set fs := fractionalSeconds R.r ipd k with hfs
  have hfs0 : 0 ≤ fs := by rw [hfs_eq]; exact R.nonneg hq0
  have hfs1 : fs < 86401 := by
    have := R.hi_abs hq0 hq1
    rw [hfs_eq]; rw [hu] at this; linarith
  have hfl0 : 0 ≤ ⌊fs⌋ := Int.floor_nonneg.mpr hfs0
  have hfl_le : (⌊fs⌋ : ℚ) ≤ fs := Int.floor_le fs
  have hfl_lt : fs < ⌊fs⌋ + 1 := Int.lt_floor_add_one fs
  have hfl1 : ⌊fs⌋ ≤ 86400 := by
    have : ((⌊fs⌋ : ℤ) : ℚ) < ((86401 : ℤ) : ℚ) := by push_cast; linarith
    have : ⌊fs⌋ < 86401 := by exact_mod_cast this
    omega
  have hg0 : 0 ≤ fs - ⌊fs⌋ := by linarith
  have hg1 : fs - ⌊fs⌋ ≤ 1 := by linarith
  set y := R.r (fs - (⌊fs⌋ : ℚ)) with hy
  have hy0 : 0 ≤ y := R.nonneg hg0
  have hy1 : y ≤ 1 := by
    have := R.mono _ _ hg1; rw [R.one] at this; exact this
  have hz0 : (0:ℚ) ≤ 1000000000 * y := by positivity
  have hz1 : (1000000000:ℚ) * y ≤ 1000000000 := by linarith
  have hsub0_eq : sub0 R.r ipd k = R.r (1000000000 * y) := by
    unfold sub0 subseconds0; rw [nanosecondC_eq]; rfl
  set s0 := sub0 R.r ipd k with hs0
  have hs0_0 : 0 ≤ s0 := by rw [hsub0_eq]; exact R.nonneg hz0
  have hs0_1 : s0 ≤ 1000000000 := by
    have := R.mono _ _ hz1
    rw [show (1000000000:ℚ) = ((1000000000:ℕ):ℚ) by norm_num, R.nat _ (by norm_num)] at this
    rw [hsub0_eq]; push_cast at this; exact this
  have hadj : adj R.r ipd k = decide ((1000000000:ℚ) ≤ s0) := by
    unfold adj; rw [nanosecondC_eq]
  refine ⟨hsub0_eq, hs0_0, ?_, ?_⟩
  · intro hadjT
    have hb : (1000000000:ℚ) ≤ s0 := by rw [hadj] at hadjT; exact of_decide_eq_true hadjT
    have hs0e : s0 = 1000000000 := le_antisymm hs0_1 hb
    have hW : wholeOff R.r ipd k = ⌊fs⌋ + 1 := by
      unfold wholeOff; rw [if_pos hadjT]
      have : R.r (((fractionalSeconds R.r ipd k).floor : ℚ) + 1) = ((⌊fs⌋ + 1 : ℤ) : ℚ) := by
        have := R.int (⌊fs⌋ + 1) (by rw [abs_of_nonneg (by omega)]; norm_num; omega)
        push_cast at this ⊢; exact this
      rw [this, toUint64_of_range (by exact_mod_cast (by omega : (0:ℤ) ≤ ⌊fs⌋ + 1))
        (by exact_mod_cast (by omega : ⌊fs⌋ + 1 < 4294967296)), Int.floor_intCast]
    have hN : nanosRaw R.r ipd k = 0 := by
      unfold nanosRaw subAdj; rw [if_pos hadjT, ← hs0, hs0e, nanosecondC_eq, sub_self, R.zero]
      have h0 : (0:ℚ) ≤ 0 + 1/2 := by norm_num
      have b := R.hi _ h0
      rw [toUint32_of_range (R.nonneg h0) (by rw [hu] at b; linarith), floor_half]
    exact ⟨hb, hW, hN⟩
  · intro hadjF
    have hb : s0 < 1000000000 := by
      rw [hadj] at hadjF; exact not_le.mp (of_decide_eq_false hadjF)
    have hW : wholeOff R.r ipd k = ⌊fs⌋ := by
      unfold wholeOff; rw [hadjF]; simp only [Bool.false_eq_true, if_false]
      rw [toUint64_of_range (by exact_mod_cast hfl0) (by exact_mod_cast (by omega : ⌊fs⌋ < 4294967296))]
      exact Int.floor_intCast _
    have hv0 : (0:ℚ) ≤ s0 + 1/2 := by linarith
    have hvb := R.hi _ hv0
    have hvlt : R.r (s0 + 1/2) < 1000000001 := by
      have : (s0 + 1/2) * (1 + u) < 1000000001 := by rw [hu]; nlinarith
      linarith
    have hN : nanosRaw R.r ipd k = ⌊R.r (s0 + 1/2)⌋ := by
      unfold nanosRaw subAdj; rw [hadjF]; simp only [Bool.false_eq_true, if_false]
      rw [← hs0, toUint32_of_range (R.nonneg hv0) (by linarith)]
    exact ⟨hb, hW, hN⟩

/-- `fractionalSeconds` is monotone in the ticks -/
theorem fractionalSeconds_mono (R : Rnd) (ipd k1 k2 : ℤ) (h1 : 1 ≤ ipd) (hk : k1 ≤ k2) :
    fractionalSeconds R.r ipd k1 ≤ fractionalSeconds R.r ipd k2 := by
  obtain ⟨_, _, hT⟩ := tps_bounds R ipd h1
  have hT0 : (0:ℚ) < tps R ipd := by linarith
  rw [fractionalSeconds_eq, fractionalSeconds_eq]
  apply R.mono
  apply div_le_div_of_nonneg_right _ hT0.le
  exact_mod_cast hk

/-- **The repaired decoder is monotone in the ticks**, for every rounding operator -/
theorem fixedOff_mono (R : Rnd) (ipd k1 k2 : ℤ) (h1 : 1 ≤ ipd) (h0 : 0 ≤ k1) (hk : k1 ≤ k2)
    (h2 : k2 < 4294967296) : fixedOff R.r ipd k1 ≤ fixedOff R.r ipd k2 := by
  have hk1r : k1 < 4294967296 := by omega
  have hk20 : 0 ≤ k2 := by omega
  obtain ⟨_, _, _, _, hN10, hN11, _⟩ := decode_core R ipd k1 h1 h0 hk1r
  obtain ⟨_, _, _, _, hN20, hN21, _⟩ := decode_core R ipd k2 h1 hk20 h2
  obtain ⟨hs1eq, _, hT1, hF1⟩ := decode_shape R ipd k1 h1 h0 hk1r
  obtain ⟨hs2eq, _, hT2, hF2⟩ := decode_shape R ipd k2 h1 hk20 h2
  have hfs := fractionalSeconds_mono R ipd k1 k2 h1 hk
  have hFl : ⌊fractionalSeconds R.r ipd k1⌋ ≤ ⌊fractionalSeconds R.r ipd k2⌋ := Int.floor_le_floor hfs
  unfold fixedOff
  -- wholeOff k2 ≥ floor fs2 and total1 ≤ (floor fs1 + 1) * 1e9
  have hW2 : ⌊fractionalSeconds R.r ipd k2⌋ ≤ wholeOff R.r ipd k2 := by
    cases h : adj R.r ipd k2 with
    | true => have := (hT2 h).2.1; omega
    | false => have := (hF2 h).2.1; omega
  have htot1 : wholeOff R.r ipd k1 * 1000000000 + nanosRaw R.r ipd k1
      ≤ (⌊fractionalSeconds R.r ipd k1⌋ + 1) * 1000000000 := by
    cases h : adj R.r ipd k1 with
    | true => obtain ⟨_, a, b⟩ := hT1 h; rw [a, b]; omega
    | false => obtain ⟨_, a, _⟩ := hF1 h; rw [a]; omega
  by_cases hlt : ⌊fractionalSeconds R.r ipd k1⌋ < ⌊fractionalSeconds R.r ipd k2⌋
  · -- different whole seconds
    have : (⌊fractionalSeconds R.r ipd k1⌋ + 1) * 1000000000 ≤ wholeOff R.r ipd k2 * 1000000000 := by
      have : ⌊fractionalSeconds R.r ipd k1⌋ + 1 ≤ wholeOff R.r ipd k2 := by omega
      omega
    omega
  · -- same whole second
    have hFeq : ⌊fractionalSeconds R.r ipd k1⌋ = ⌊fractionalSeconds R.r ipd k2⌋ := by omega
    have hsub : sub0 R.r ipd k1 ≤ sub0 R.r ipd k2 := by
      rw [hs1eq, hs2eq, hFeq]
      apply R.mono
      apply mul_le_mul_of_nonneg_left _ (by norm_num)
      apply R.mono
      linarith
    cases ha1 : adj R.r ipd k1 with
    | true =>
      obtain ⟨hb1, a1, b1⟩ := hT1 ha1
      have ha2 : adj R.r ipd k2 = true := by
        cases h : adj R.r ipd k2 with
        | true => rfl
        | false => have := (hF2 h).1; linarith
      obtain ⟨_, a2, b2⟩ := hT2 ha2
      rw [a1, b1, a2, b2, hFeq]
    | false =>
      obtain ⟨_, a1, b1⟩ := hF1 ha1
      cases ha2 : adj R.r ipd k2 with
      | true =>
        obtain ⟨_, a2, b2⟩ := hT2 ha2
        rw [a1, a2, b2, hFeq]; omega
      | false =>
        obtain ⟨_, a2, b2⟩ := hF2 ha2
        rw [a1, a2, b1, b2, hFeq]
        have : ⌊R.r (sub0 R.r ipd k1 + 1/2)⌋ ≤ ⌊R.r (sub0 R.r ipd k2 + 1/2)⌋ := by
          apply Int.floor_le_floor
          apply R.mono
          linarith
        omega


end Mkts.Ticks
