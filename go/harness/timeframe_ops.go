package main

// Ops and generator for C31 (utils/timeframe.go): every op runs the REAL functions.

import (
	"fmt"
	"strings"
	"time"

	"github.com/alpacahq/marketstore/v4/utils"
)

func showInstant(t time.Time) string { return fmt.Sprintf("%d:%d", t.Unix(), t.Nanosecond()) }

func hexStr(tok string) string {
	b, err := unhx(tok)
	if err != nil {
		panic("bad-arg hex " + tok)
	}
	return string(b)
}

func roundTrip(d time.Duration) (string, bool) {
	p := utils.TimeframeFromDuration(d)
	if p == nil {
		return "print=nil re=nil", false
	}
	re := utils.TimeframeFromString(p.String)
	if re == nil {
		return fmt.Sprintf("print=%s:%d re=nil", hx([]byte(p.String)), int64(p.Duration)), false
	}
	return fmt.Sprintf("print=%s:%d re=%d", hx([]byte(p.String)), int64(p.Duration), int64(re.Duration)), re.Duration == d
}

func init() {
	// cdwin <hex string> <sec> <nsec> <usec> <unsec> <zone>
	ops["cdwin"] = func(a []string) string {
		str := hexStr(a[0])
		loc := zoneLoc(a[5])
		cd, err := utils.CandleDurationFromString(str)
		if err != nil {
			return "err:notfound"
		}
		ts := time.Unix(atoi(a[1]), atoi(a[2])).In(loc)
		u := time.Unix(atoi(a[3]), atoi(a[4])).In(loc)
		tr := cd.Truncate(ts)
		ce := cd.Ceil(ts)
		w := cd.IsWithin(ts, tr)
		w2 := cd.IsWithin(u, tr)
		w3 := cd.IsWithin(ts, u)
		qtf := cd.QueryableTimeframe()
		qn := func() (res string) {
			defer func() {
				if r := recover(); r != nil {
					res = panicClass(r)
				}
			}()
			return fmt.Sprint(cd.QueryableNrecords(qtf, 7))
		}()
		qd := false
		if q := utils.TimeframeFromString(qtf); q != nil && q.Duration != 0 {
			qd = cd.Duration()%q.Duration == 0
		}
		p := b2s(!tr.After(ts)) + b2s(ts.Before(ce)) + b2s(w) + b2s(qd)
		return fmt.Sprintf("dur=%d tr=%s ce=%s w=%s w2=%s w3=%s qtf=%s qn=%s P=%s",
			int64(cd.Duration()), showInstant(tr), showInstant(ce), b2s(w), b2s(w2), b2s(w3),
			hx([]byte(qtf)), qn, p)
	}
	// tfparse <hex string>
	ops["tfparse"] = func(a []string) string {
		tf := utils.TimeframeFromString(hexStr(a[0]))
		if tf == nil {
			return "nil"
		}
		txt, ok := roundTrip(tf.Duration)
		return fmt.Sprintf("dur=%d %s P=%s", int64(tf.Duration), txt, b2s(ok))
	}
	// tfdur <int64 ns>
	ops["tfdur"] = func(a []string) string {
		txt, ok := roundTrip(time.Duration(atoi(a[0])))
		return fmt.Sprintf("%s P=%s", txt, b2s(ok))
	}
	// tftable
	ops["tftable"] = func(a []string) string {
		var parts []string
		for _, tf := range utils.Timeframes {
			parts = append(parts, fmt.Sprintf("%s:%d", hx([]byte(tf.String)), int64(tf.Duration)))
		}
		return strings.Join(parts, ",")
	}

	gens["C31"] = genC31
}

var c31Mults = []string{"0", "1", "2", "3", "4", "5", "6", "7", "10", "12", "13", "15", "24", "30", "31", "36", "52", "53",
	"59", "60", "61", "90", "100", "365", "366", "1000", "00012", "292", "293", "9223372036", "9223372037",
	"15250284452", "15250284453", "106751", "106752", "2147483647", "2147483648", "4294967296",
	"9223372036854775807", "9223372036854775808", "18446744073709551616", "99999999999999999999999"}

var c31Suffixes = []string{"Sec", "Min", "H", "D", "W", "M", "Y"}

func c31Instant(g *Gen, loc *time.Location, utc bool) (time.Time, string) {
	year := 1971 + g.Intn(130)
	if g.Intn(3) == 0 {
		year = int(g.Pick(1972, 1999, 2000, 2001, 2015, 2016, 2020, 2024, 2026, 2100))
	}
	if utc && g.Intn(6) == 0 {
		year = int(g.Pick(-400, -1, 0, 1, 2, 1582, 1677, 1678, 1900, 1969, 1970, 2262, 2263, 9999, 10000, 20000))
	}
	switch g.Intn(8) {
	case 0: // month edges
		m := time.Month(1 + g.Intn(12))
		return time.Date(year, m, 1, 0, 0, 0, 0, loc).Add(time.Duration(g.Pick(-1, 0, 1, -86400e9, 86400e9-1, 86400e9))), "t:month_edge"
	case 1: // year edges and ISO-week year edges
		return time.Date(year, 12, 28+g.Intn(4), g.Intn(24), g.Intn(60), g.Intn(60), g.Intn(1e9), loc).Add(time.Duration(g.Intn(8)) * 24 * time.Hour), "t:year_edge"
	case 2: // leap day
		y := year - ((year%4)+4)%4
		return time.Date(y, 2, 28+g.Intn(3), g.Intn(24), g.Intn(60), g.Intn(60), g.Intn(1e9), loc), "t:leap_day"
	case 3: // day edges
		return time.Date(year, time.Month(1+g.Intn(12)), 1+g.Intn(28), 0, 0, 0, 0, loc).Add(time.Duration(g.Pick(-1, 0, 1, 3600e9, 12*3600e9))), "t:day_edge"
	case 4: // week edges (Mondays 00:00 UTC are multiples of 7d from Go's zero time)
		base := time.Date(year, time.Month(1+g.Intn(12)), 1+g.Intn(28), 0, 0, 0, 0, time.UTC).Truncate(7 * 24 * time.Hour)
		return base.Add(time.Duration(g.Pick(-1, 0, 1, 7*86400e9-1, 86400e9))).In(loc), "t:week_edge"
	case 5: // zone transition
		probe := time.Date(year, time.Month(1+g.Intn(12)), 1+g.Intn(28), 12, 0, 0, 0, loc)
		_, end := probe.ZoneBounds()
		if !utc && !end.IsZero() {
			return end.Add(time.Duration(g.Pick(-3600e9, -1, 0, 1, 1800e9, 3600e9, 86400e9, -86400e9))), "t:zone_transition"
		}
		return probe, "t:random"
	default:
		return time.Date(year, time.Month(1+g.Intn(12)), 1+g.Intn(31), g.Intn(24), g.Intn(60), g.Intn(60), g.Intn(1e9), loc), "t:random"
	}
}

func genC31(g *Gen) {
	zones := []string{"America/New_York", "Europe/London", "Asia/Kolkata", "Asia/Tokyo", "America/Sao_Paulo",
		"Pacific/Apia", "Australia/Lord_Howe", "America/Caracas"}
	g.Emit("tftable", "table")
	// every table entry once
	for _, s := range c31Suffixes {
		g.Emit(fmt.Sprintf("cdwin %s 1600000000 5 1600000000 5 UTC|0", hx([]byte("1"+s))), "suffix_table", "suf:"+s)
	}
	for _, s := range []string{"S", "Sec", "T", "Min", "H", "D", "W", "Y", "M"} {
		g.Emit("tfparse "+hx([]byte("1"+s)), "parse_table")
	}
	// ---- candle windows
	n := g.N(4000, 80000)
	for i := 0; i < n; i++ {
		utc := g.Intn(10) < 6
		zn := "UTC"
		if !utc {
			zn = zones[g.Intn(len(zones))]
		}
		loc, err := time.LoadLocation(zn)
		must(err)
		suf := c31Suffixes[g.Intn(len(c31Suffixes))]
		mult := c31Mults[g.Intn(len(c31Mults))]
		if g.Intn(3) == 0 {
			mult = fmt.Sprint(1 + g.Intn(70))
		}
		if g.Intn(3) == 0 {
			mult = "1"
		}
		if !utc { // keep every zone lookup of the model inside the transition window of the token
			if suf == "W" && (len(mult) > 2 || atoi(mult) > 60) {
				mult = fmt.Sprint(1 + g.Intn(4))
			}
			if suf == "Y" && (len(mult) > 1 || atoi(mult) > 1) {
				mult = "1"
			}
		}
		str := mult + suf
		tags := []string{"suf:" + suf}
		switch g.Intn(12) {
		case 0:
			str = string(g.Bytes(g.Intn(4))) + str + string(g.Bytes(g.Intn(4)))
			tags = append(tags, "str:garbage_around")
		case 1:
			str = []string{"x", "12x", "7 ", "1S", "3T", "Mi", "-", "1Mi"}[g.Intn(8)] + str
			tags = append(tags, "str:decoy_prefix")
		case 2:
			str = mult + []string{"S", "T", "Mi", "Month", "Mon", "sec", "min", "h", "d", "Se", "", " Min", "Years", "Minute", "Hour"}[g.Intn(15)]
			tags = append(tags, "str:decoy_suffix")
		default:
			tags = append(tags, "str:plain")
		}
		cd, cerr := utils.CandleDurationFromString(str)
		ts, ttag := c31Instant(g, loc, utc)
		if !utc && cerr == nil { // garbage digits may have produced a huge multiplier
			if d := ts.Sub(cd.Truncate(ts)); d > 500*24*time.Hour || d < 0 || cd.Duration() > 500*24*time.Hour || cd.Duration() < 0 {
				str = "1" + suf
				cd, cerr = utils.CandleDurationFromString(str)
			}
		}
		tags = append(tags, ttag, "zone:"+zn)
		u := ts
		if cerr == nil {
			tr, ce := cd.Truncate(ts), cd.Ceil(ts)
			if g.Intn(4) == 0 && cd.Duration() > 0 { // window edge ± 1ns as the instant itself
				ts = []time.Time{tr, tr.Add(-1), ce.Add(-1), ce, tr.Add(1)}[g.Intn(5)]
				tr, ce = cd.Truncate(ts), cd.Ceil(ts)
				tags = append(tags, "t:window_edge")
			}
			span := ce.Sub(tr)
			if span <= 0 || span > 400*24*time.Hour {
				span = 400 * 24 * time.Hour
			}
			switch g.Intn(10) {
			case 0:
				u = tr
			case 1:
				u = tr.Add(-1)
			case 2:
				u = ce.Add(-1)
			case 3:
				u = ce
			case 4:
				u = ts.Add(time.Duration(g.R.Int63n(int64(span))))
			case 5:
				u = ts.Add(-time.Duration(g.R.Int63n(int64(span))))
			case 6: // same month, neighbouring year; neighbouring months (exercise the M / Y arithmetic)
				u = ts.AddDate(int(g.Pick(-1, 1)), 0, 0)
			case 7:
				u = ts.AddDate(0, int(g.Pick(-13, -11, -2, -1, 1, 2, 3, 11, 12, 13)), 0)
			case 8:
				u = ts.Add(time.Duration(g.Pick(-7, -1, 1, 6, 7, 8, 14)) * 24 * time.Hour)
			default:
				u = tr.Add(time.Duration(g.R.Int63n(int64(span))))
			}
			if !utc && (u.Sub(ts) > 500*24*time.Hour || ts.Sub(u) > 500*24*time.Hour) {
				u = ts
			}
		} else {
			tags = append(tags, "err:notfound")
		}
		ztok := "UTC|0"
		if !utc {
			ztok = zoneToken(zn, ts.Unix()-800*86400, ts.Unix()+800*86400)
		}
		g.Emit(fmt.Sprintf("cdwin %s %d %d %d %d %s", hx([]byte(str)), ts.Unix(), ts.Nanosecond(), u.Unix(), u.Nanosecond(), ztok), tags...)
	}
	// ---- TimeframeFromString / FromDuration
	names := []string{"S", "Sec", "T", "Min", "H", "D", "W", "Y", "M", "Mi", "s", "", "Month", "SS", "HD", "Min5Sec"}
	nums := []string{"0", "1", "2", "5", "7", "14", "23", "24", "25", "36", "48", "52", "53", "59", "60", "61", "90", "120", "364", "365", "366",
		"730", "3600", "86400", "2147483647", "2147483648", "292", "293", "-5", "+5", "+", "-", "", " 5", "5 ", "0x10", "1_000", "1e3", "1.5", "007", "\xe0\xa5\xab"}
	m := g.N(1500, 30000)
	for i := 0; i < m; i++ {
		num := nums[g.Intn(len(nums))]
		if g.Intn(3) == 0 {
			num = fmt.Sprint(g.Intn(4000))
		}
		name := names[g.Intn(len(names))]
		if g.Intn(2) == 0 {
			name = names[g.Intn(8)]
		}
		s := num + name
		tag := "parse:plain"
		if g.Intn(10) == 0 {
			s = s + []string{"x", "S", "1", " ", "Sec"}[g.Intn(5)]
			tag = "parse:trailing"
		}
		g.Emit("tfparse "+hx([]byte(s)), tag, "name:"+name)
	}
	units := []int64{1e9, 60e9, 3600e9, 86400e9, 7 * 86400e9, 365 * 86400e9}
	for i := 0; i < m; i++ {
		var d int64
		tag := ""
		switch g.Intn(6) {
		case 0:
			d = g.Pick(-1e9, -1, 0, 1, 999999999, 1e9, 1e9+1, 9223372036854775807, -9223372036854775808, 365*86400e9, 365*86400e9+1, 2*365*86400e9)
			tag = "dur:boundary"
		case 1, 2:
			un := units[g.Intn(len(units))]
			d = un*int64(1+g.Intn(70)) + g.Pick(0, 0, 0, -1, 1)
			tag = "dur:multiple_pm1"
		case 3:
			un := units[g.Intn(len(units))]
			d = un + g.R.Int63n(un*3)
			tag = "dur:between"
		case 4:
			d = int64(g.Intn(400*86400)) * 1e9
			tag = "dur:whole_seconds"
		default:
			d = g.R.Int63()
			if g.Intn(2) == 0 {
				d = g.R.Int63n(400 * 86400e9)
			}
			tag = "dur:random"
		}
		g.Emit(fmt.Sprintf("tfdur %d", d), tag)
	}
}
