// factgen: the regenerated half of the tie between /repo's source and the Lean model.
//
//	factgen <repo> <outdir>
//
// Reads the working tree with go/packages (type-checked, offline) and writes Lean files that
// hold, as plain definitions: package-level integer/float constants, enum values, the
// attributeMap table, the on-disk Header layout, and ordered effect skeletons (call names with
// their control-structure nesting, in source order) of the protocol functions.  The
// hand-written model is defined over these; the property theorems `decide` facts about them.
// Fails closed: a missing package, identifier or function is an error, never skipped.
package main

import (
	"encoding/json"
	"fmt"
	"go/ast"
	"go/constant"
	"go/token"
	"go/types"
	"math/big"
	"os"
	"path/filepath"
	"sort"
	"strings"

	"golang.org/x/tools/go/packages"
)

const mod = "github.com/alpacahq/marketstore/v4/"

// What to extract is configured by the JSON files in wants.d/ next to this source (merged):
//   {"packages": ["utils/io", ...],
//    "consts": {"utils/io": ["Headersize", ...]},      integer / float constants (package level or function local)
//    "skeletons": ["executor:WALFileType.FlushCommandsToWAL", ...]}   "pkg:Recv.Name" or "pkg:Name" (optional suffixes "+builtins", "+exprs")
var pkgPaths []string
var wantConsts = map[string][]string{}
var wantSkeletons []string
var wantTables []string

type wants struct {
	Packages  []string            `json:"packages"`
	Consts    map[string][]string `json:"consts"`
	Skeletons []string            `json:"skeletons"`
	Accesses  []string            `json:"accesses"` // see accesses.go
	Tables    []string            `json:"tables"`   // "pkg:Var": package-level slice literal of structs with constant fields
}

func loadWants(dir string) {
	files, err := filepath.Glob(filepath.Join(dir, "*.json"))
	must(err)
	sort.Strings(files)
	if len(files) == 0 {
		fail("no wants.d/*.json under %s", dir)
	}
	seenPkg, seenSk := map[string]bool{}, map[string]bool{}
	seenC := map[string]bool{}
	addPkg := func(p string) {
		if !seenPkg[p] {
			seenPkg[p] = true
			pkgPaths = append(pkgPaths, p)
		}
	}
	for _, f := range files {
		b, err := os.ReadFile(f)
		must(err)
		var w wants
		if err := json.Unmarshal(b, &w); err != nil {
			fail("%s: %v", f, err)
		}
		for _, p := range w.Packages {
			addPkg(p)
		}
		for p, names := range w.Consts {
			addPkg(p)
			for _, n := range names {
				if !seenC[p+"."+n] {
					seenC[p+"."+n] = true
					wantConsts[p] = append(wantConsts[p], n)
				}
			}
		}
		for _, tb := range w.Tables {
			addPkg(strings.SplitN(tb, ":", 2)[0])
			dup := false
			for _, x := range wantTables {
				dup = dup || x == tb
			}
			if !dup {
				wantTables = append(wantTables, tb)
			}
		}
		for _, ac := range w.Accesses {
			addPkg(strings.SplitN(ac, ":", 2)[0])
			wantAccesses = append(wantAccesses, ac)
		}
		for _, sk := range w.Skeletons {
			addPkg(strings.SplitN(sk, ":", 2)[0])
			if !seenSk[sk] {
				seenSk[sk] = true
				wantSkeletons = append(wantSkeletons, sk)
			}
		}
	}
	sort.Strings(pkgPaths)
	sort.Strings(wantSkeletons)
}

func leanName(s string) string {
	return strings.NewReplacer(".", "_", "/", "_", ":", "_", "*", "", "(", "", ")", "").Replace(s)
}

func fail(format string, a ...interface{}) {
	fmt.Fprintf(os.Stderr, "factgen: "+format+"\n", a...)
	os.Exit(1)
}

func ratOfConst(v constant.Value) (*big.Rat, bool) {
	switch v.Kind() {
	case constant.Int:
		i, ok := constant.Val(v).(*big.Int)
		if ok {
			return new(big.Rat).SetInt(i), true
		}
		if i64, ok := constant.Val(v).(int64); ok {
			return new(big.Rat).SetInt64(i64), true
		}
	case constant.Float:
		switch x := constant.Val(v).(type) {
		case *big.Rat:
			return x, true
		case *big.Float:
			r, _ := x.Rat(nil)
			return r, true
		}
	}
	return nil, false
}

// findConst looks a constant up at package level, then inside every function body.
func findConst(p *packages.Package, name string) *types.Const {
	if o := p.Types.Scope().Lookup(name); o != nil {
		if c, ok := o.(*types.Const); ok {
			return c
		}
	}
	var found *types.Const
	for id, obj := range p.TypesInfo.Defs {
		if id.Name == name {
			if c, ok := obj.(*types.Const); ok {
				if found != nil && found.Val().ExactString() != c.Val().ExactString() {
					fail("constant %s is defined twice with different values in %s", name, p.PkgPath)
				}
				found = c
			}
		}
	}
	return found
}

func main() {
	if len(os.Args) != 4 {
		fail("usage: factgen <repo> <outdir> <wants.d>")
	}
	repo, out := os.Args[1], os.Args[2]
	loadWants(os.Args[3])
	cfg := &packages.Config{
		Mode:       packages.NeedName | packages.NeedFiles | packages.NeedSyntax | packages.NeedTypes | packages.NeedTypesInfo | packages.NeedTypesSizes | packages.NeedImports | packages.NeedDeps,
		Dir:        repo,
		BuildFlags: []string{"-tags=verif"},
		Fset:       token.NewFileSet(),
	}
	var pats []string
	for _, p := range pkgPaths {
		pats = append(pats, "./"+p)
	}
	pkgs, err := packages.Load(cfg, pats...)
	if err != nil {
		fail("load: %v", err)
	}
	byPath := map[string]*packages.Package{}
	for _, p := range pkgs {
		if len(p.Errors) > 0 {
			fail("package %s has errors: %v", p.PkgPath, p.Errors[0])
		}
		byPath[strings.TrimPrefix(p.PkgPath, mod)] = p
	}

	var b strings.Builder
	b.WriteString("/- GENERATED by /verif/go/factgen from /repo's working tree. Do not edit. -/\nnamespace Mkts.Extracted\n\n")

	// ---- constants
	paths := make([]string, 0, len(wantConsts))
	for k := range wantConsts {
		paths = append(paths, k)
	}
	sort.Strings(paths)
	for _, pp := range paths {
		p := byPath[pp]
		if p == nil {
			fail("package %s not loaded", pp)
		}
		for _, name := range wantConsts[pp] {
			c := findConst(p, name)
			if c == nil {
				fail("constant %s.%s not found", pp, name)
			}
			r, ok := ratOfConst(c.Val())
			if !ok {
				fail("constant %s.%s is not numeric", pp, name)
			}
			ln := leanName(pp + "." + name)
			if r.IsInt() {
				fmt.Fprintf(&b, "def %s : Int := %s\n", ln, r.Num().String())
			} else {
				// exact value of the literal, and the float64 it denotes at run time
				f, _ := r.Float64()
				fr := new(big.Rat).SetFloat64(f)
				fmt.Fprintf(&b, "def %s_exact_num : Int := %s\ndef %s_exact_den : Nat := %s\n", ln, r.Num().String(), ln, r.Denom().String())
				fmt.Fprintf(&b, "def %s_f64_num : Int := %s\ndef %s_f64_den : Nat := %s\n", ln, fr.Num().String(), ln, fr.Denom().String())
			}
		}
	}

	// ---- tables: package-level `var X = []T{{c1, c2, ...}, ...}` with constant fields, in SOURCE ORDER
	sort.Strings(wantTables)
	for _, tb := range wantTables {
		pr := strings.SplitN(tb, ":", 2)
		p := byPath[pr[0]]
		if p == nil {
			fail("package %s not loaded", pr[0])
		}
		var lit *ast.CompositeLit
		for _, f := range p.Syntax {
			for _, d := range f.Decls {
				gd, ok := d.(*ast.GenDecl)
				if !ok {
					continue
				}
				for _, sp := range gd.Specs {
					vs, ok := sp.(*ast.ValueSpec)
					if !ok {
						continue
					}
					for i, n := range vs.Names {
						if n.Name == pr[1] && i < len(vs.Values) {
							lit, _ = vs.Values[i].(*ast.CompositeLit)
						}
					}
				}
			}
		}
		if lit == nil {
			fail("table %s: composite literal not found", tb)
		}
		var rows []string
		sig := ""
		for _, e := range lit.Elts {
			if kv, ok := e.(*ast.KeyValueExpr); ok {
				e = kv.Value
			}
			if u, ok := e.(*ast.UnaryExpr); ok && u.Op == token.AND {
				e = u.X
			}
			cl, ok := e.(*ast.CompositeLit)
			if !ok {
				fail("table %s: element is not a composite literal", tb)
			}
			var cells, kinds []string
			for _, fe := range cl.Elts {
				if kv, ok := fe.(*ast.KeyValueExpr); ok {
					fe = kv.Value
				}
				tv := p.TypesInfo.Types[fe]
				if tv.Value == nil {
					fail("table %s: non-constant field %s", tb, types.ExprString(fe))
				}
				switch tv.Value.Kind() {
				case constant.String:
					cells = append(cells, fmt.Sprintf("%q", constant.StringVal(tv.Value)))
					kinds = append(kinds, "String")
				case constant.Int:
					cells = append(cells, "("+tv.Value.ExactString()+")")
					kinds = append(kinds, "Int")
				default:
					fail("table %s: unsupported constant kind in %s", tb, types.ExprString(fe))
				}
			}
			k := strings.Join(kinds, " × ")
			if sig == "" {
				sig = k
			} else if sig != k {
				fail("table %s: rows of different shape", tb)
			}
			rows = append(rows, "("+strings.Join(cells, ", ")+")")
		}
		fmt.Fprintf(&b, "\n/-- rows of `%s` in source order -/\ndef %s : List (%s) := [\n  %s]\n", tb, leanName(pr[0]+"."+pr[1]), sig, strings.Join(rows, ",\n  "))
	}

	// ---- attributeMap (utils/io): enum value, name, size
	{
		p := byPath["utils/io"]
		var lit *ast.CompositeLit
		for _, f := range p.Syntax {
			for _, d := range f.Decls {
				gd, ok := d.(*ast.GenDecl)
				if !ok {
					continue
				}
				for _, s := range gd.Specs {
					vs, ok := s.(*ast.ValueSpec)
					if !ok {
						continue
					}
					for i, n := range vs.Names {
						if n.Name == "attributeMap" && i < len(vs.Values) {
							lit, _ = vs.Values[i].(*ast.CompositeLit)
						}
					}
				}
			}
		}
		if lit == nil {
			fail("attributeMap literal not found")
		}
		type row struct {
			val  int64
			name string
			size int64
			key  string
		}
		var rows []row
		for _, e := range lit.Elts {
			kv, ok := e.(*ast.KeyValueExpr)
			if !ok {
				fail("attributeMap: unexpected element")
			}
			ktv := p.TypesInfo.Types[kv.Key]
			if ktv.Value == nil {
				fail("attributeMap: non-constant key")
			}
			kval, _ := constant.Int64Val(ktv.Value)
			v, ok := kv.Value.(*ast.CompositeLit)
			if !ok || len(v.Elts) < 3 {
				fail("attributeMap: unexpected value")
			}
			ntv, stv := p.TypesInfo.Types[v.Elts[1]], p.TypesInfo.Types[v.Elts[2]]
			if ntv.Value == nil || stv.Value == nil {
				fail("attributeMap: non-constant name/size")
			}
			sz, _ := constant.Int64Val(stv.Value)
			rows = append(rows, row{kval, constant.StringVal(ntv.Value), sz, types.ExprString(kv.Key)})
		}
		sort.Slice(rows, func(i, j int) bool { return rows[i].val < rows[j].val })
		b.WriteString("\n/-- (enum value, name, size in bytes) of `attributeMap` in utils/io/datatypes.go -/\ndef attributeMap : List (Nat × String × Nat) := [\n")
		for i, r := range rows {
			sep := ","
			if i == len(rows)-1 {
				sep = ""
			}
			fmt.Fprintf(&b, "  (%d, %q, %d)%s -- %s\n", r.val, r.name, r.size, sep, r.key)
		}
		b.WriteString("]\n")

		// Header struct layout
		obj := p.Types.Scope().Lookup("Header")
		if obj == nil {
			fail("type Header not found")
		}
		st, ok := obj.Type().Underlying().(*types.Struct)
		if !ok {
			fail("Header is not a struct")
		}
		sizes := p.TypesSizes
		var fields []*types.Var
		for i := 0; i < st.NumFields(); i++ {
			fields = append(fields, st.Field(i))
		}
		offs := sizes.Offsetsof(fields)
		b.WriteString("\n/-- (field, offset, size) of the on-disk `Header` struct in utils/io/metadata.go -/\ndef headerLayout : List (String × Nat × Nat) := [\n")
		for i, f := range fields {
			sep := ","
			if i == len(fields)-1 {
				sep = ""
			}
			fmt.Fprintf(&b, "  (%q, %d, %d)%s\n", f.Name(), offs[i], sizes.Sizeof(f.Type()), sep)
		}
		b.WriteString("]\n")
		fmt.Fprintf(&b, "def headerStructSize : Nat := %d\n", sizes.Sizeof(obj.Type()))
	}
	b.WriteString("\nend Mkts.Extracted\n")
	must(os.WriteFile(filepath.Join(out, "Facts.lean"), []byte(b.String()), 0o644))
	extractNumpy(byPath["utils/io"], out) // numpy.go: Mkts/Extracted/Numpy.lean (C27)

	// ---- skeletons
	var sb strings.Builder
	sb.WriteString("/- GENERATED by /verif/go/factgen from /repo's working tree. Do not edit. -/\nnamespace Mkts.Extracted.Skel\n\n")
	for _, spec := range wantSkeletons {
		// a spec ending in "+builtins" also lists `delete(m, k)` / `close(c)` as atoms
		// a spec ending in "+args" prints every call atom with its argument expressions
		withArgs := strings.HasSuffix(spec, "+args")
		spec = strings.TrimSuffix(spec, "+args")
		// a spec ending in "+exprs" also lists every assignment as "assign:<lhs>=<rhs>" and the
		// returned expressions as "ret:<exprs>" (operand order, literals and comparison operators
		// become visible; C24, C32)
		withExprs := strings.HasSuffix(spec, "+exprs")
		spec = strings.TrimSuffix(spec, "+exprs")
		withBuiltins := strings.HasSuffix(spec, "+builtins")
		spec = strings.TrimSuffix(spec, "+builtins")
		parts := strings.SplitN(spec, ":", 2)
		p := byPath[parts[0]]
		if p == nil {
			fail("package %s not loaded", parts[0])
		}
		// a spec ending in "?" names a function that may be absent from the source (e.g. one added
		// by a repair): its skeleton is then the empty list, so that the model can read "absent"
		optional := strings.HasSuffix(parts[1], "?")
		parts[1] = strings.TrimSuffix(parts[1], "?")
		spec = strings.TrimSuffix(spec, "?")
		fd := findFunc(p, parts[1])
		if fd == nil && !optional {
			fail("function %s not found", spec)
		}
		var atoms []string
		if fd != nil {
			atoms = skeleton(p, fd, withBuiltins, withArgs, withExprs)
		}
		fmt.Fprintf(&sb, "def %s : List String := [", leanName(spec))
		for i, a := range atoms {
			if i > 0 {
				sb.WriteString(", ")
			}
			if i%6 == 0 {
				sb.WriteString("\n  ")
			}
			fmt.Fprintf(&sb, "%q", a)
		}
		sb.WriteString("]\n\n")
	}
	sb.WriteString("end Mkts.Extracted.Skel\n")
	must(os.WriteFile(filepath.Join(out, "Skeletons.lean"), []byte(sb.String()), 0o644))
	writeAccesses(byPath, out)
}

func must(err error) {
	if err != nil {
		fail("%v", err)
	}
}

func findFunc(p *packages.Package, name string) *ast.FuncDecl {
	recv, fn := "", name
	if i := strings.Index(name, "."); i >= 0 {
		recv, fn = name[:i], name[i+1:]
	}
	for _, f := range p.Syntax {
		for _, d := range f.Decls {
			fd, ok := d.(*ast.FuncDecl)
			if !ok || fd.Name.Name != fn {
				continue
			}
			r := ""
			if fd.Recv != nil && len(fd.Recv.List) == 1 {
				t := fd.Recv.List[0].Type
				if s, ok := t.(*ast.StarExpr); ok {
					t = s.X
				}
				if id, ok := t.(*ast.Ident); ok {
					r = id.Name
				}
			}
			if r == recv {
				return fd
			}
		}
	}
	return nil
}

// skeleton lists, in source order, every call (by the selector / function name), channel
// operation, assignment to a struct field, and return, with "{"/"}" markers for control
// structure so that "inside which branch / loop / goroutine" stays visible.
func skeleton(p *packages.Package, fd *ast.FuncDecl, withBuiltins, withArgs, withExprs bool) []string {
	var out []string
	var walkStmt func(s ast.Stmt)
	var walkExpr func(e ast.Expr)
	callName := func(c *ast.CallExpr) string {
		switch f := c.Fun.(type) {
		case *ast.Ident:
			return f.Name
		case *ast.SelectorExpr:
			return types.ExprString(f.X) + "." + f.Sel.Name
		}
		return types.ExprString(c.Fun)
	}
	walkExpr = func(e ast.Expr) {
		ast.Inspect(e, func(n ast.Node) bool {
			switch x := n.(type) {
			case *ast.FuncLit:
				out = append(out, "func{")
				for _, s := range x.Body.List {
					walkStmt(s)
				}
				out = append(out, "}")
				return false
			case *ast.CallExpr:
				for _, a := range x.Args {
					walkExpr(a)
				}
				if se, ok := x.Fun.(*ast.SelectorExpr); ok {
					walkExpr(se.X)
				}
				if fl, ok := x.Fun.(*ast.FuncLit); ok {
					walkExpr(fl)
				}
				// conversions and builtins carry no effect
				if tv, ok := p.TypesInfo.Types[x.Fun]; ok && (tv.IsType() || tv.IsBuiltin()) {
					if id, ok := x.Fun.(*ast.Ident); ok && id.Name == "panic" {
						out = append(out, "call:panic")
					}
					// map delete / channel close are protocol effects (C26: order of
					// `delete(rs.StreamChannels, …)` and `close(streamChannel)`)
					if id, ok := x.Fun.(*ast.Ident); ok && withBuiltins && tv.IsBuiltin() && (id.Name == "delete" || id.Name == "close") && len(x.Args) > 0 {
						out = append(out, "builtin:"+id.Name+":"+types.ExprString(x.Args[0]))
					}
					return false
				}
				if withArgs {
					as := make([]string, len(x.Args))
					for i, a := range x.Args {
						as[i] = types.ExprString(a)
					}
					out = append(out, "call:"+callName(x)+"("+strings.Join(as, ", ")+")")
				} else {
					out = append(out, "call:"+callName(x))
				}
				return false
			case *ast.UnaryExpr:
				if x.Op == token.ARROW {
					walkExpr(x.X)
					out = append(out, "recv:"+types.ExprString(x.X))
					return false
				}
			}
			return true
		})
	}
	walkBlock := func(b *ast.BlockStmt) {
		if b == nil {
			return
		}
		for _, s := range b.List {
			walkStmt(s)
		}
	}
	walkStmt = func(s ast.Stmt) {
		switch x := s.(type) {
		case nil:
		case *ast.ExprStmt:
			walkExpr(x.X)
		case *ast.AssignStmt:
			for _, r := range x.Rhs {
				walkExpr(r)
			}
			if withExprs {
				var ls, rs []string
				for _, l := range x.Lhs {
					ls = append(ls, types.ExprString(l))
				}
				for _, r := range x.Rhs {
					rs = append(rs, types.ExprString(r))
				}
				out = append(out, "assign:"+strings.Join(ls, ",")+"="+strings.Join(rs, ","))
			}
			for _, l := range x.Lhs {
				if se, ok := l.(*ast.SelectorExpr); ok {
					out = append(out, "set:"+types.ExprString(se))
				}
				if ie, ok := l.(*ast.IndexExpr); ok {
					out = append(out, "setidx:"+types.ExprString(ie.X))
				}
			}
		case *ast.IncDecStmt:
			if se, ok := x.X.(*ast.SelectorExpr); ok {
				out = append(out, "set:"+types.ExprString(se))
			}
		case *ast.SendStmt:
			walkExpr(x.Value)
			out = append(out, "send:"+types.ExprString(x.Chan))
		case *ast.GoStmt:
			out = append(out, "go{")
			walkExpr(x.Call)
			out = append(out, "}")
		case *ast.DeferStmt:
			out = append(out, "defer{")
			walkExpr(x.Call)
			out = append(out, "}")
		case *ast.ReturnStmt:
			for _, r := range x.Results {
				walkExpr(r)
			}
			if withExprs && len(x.Results) > 0 {
				var rs []string
				for _, r := range x.Results {
					rs = append(rs, types.ExprString(r))
				}
				out = append(out, "ret:"+strings.Join(rs, ","))
			}
			out = append(out, "return")
		case *ast.BlockStmt:
			walkBlock(x)
		case *ast.IfStmt:
			walkStmt(x.Init)
			walkExpr(x.Cond)
			out = append(out, "if:"+types.ExprString(x.Cond)+"{")
			walkBlock(x.Body)
			out = append(out, "}")
			if x.Else != nil {
				out = append(out, "else{")
				walkStmt(x.Else)
				out = append(out, "}")
			}
		case *ast.ForStmt:
			walkStmt(x.Init)
			out = append(out, "for{")
			if x.Cond != nil {
				walkExpr(x.Cond)
			}
			walkBlock(x.Body)
			walkStmt(x.Post)
			out = append(out, "}")
		case *ast.RangeStmt:
			walkExpr(x.X)
			out = append(out, "range:"+types.ExprString(x.X)+"{")
			walkBlock(x.Body)
			out = append(out, "}")
		case *ast.SwitchStmt:
			walkStmt(x.Init)
			if x.Tag != nil {
				walkExpr(x.Tag)
			}
			out = append(out, "switch{")
			for _, c := range x.Body.List {
				cc := c.(*ast.CaseClause)
				lbl := "default"
				if len(cc.List) > 0 {
					var ls []string
					for _, e := range cc.List {
						ls = append(ls, types.ExprString(e))
					}
					lbl = strings.Join(ls, ",")
				}
				out = append(out, "case:"+lbl+"{")
				for _, s := range cc.Body {
					walkStmt(s)
				}
				out = append(out, "}")
			}
			out = append(out, "}")
		case *ast.TypeSwitchStmt:
			out = append(out, "typeswitch{")
			for _, c := range x.Body.List {
				cc := c.(*ast.CaseClause)
				// the case's types are the label (`default` for the default clause)
				lbl := "default"
				if len(cc.List) > 0 {
					var ls []string
					for _, e := range cc.List {
						ls = append(ls, types.ExprString(e))
					}
					lbl = strings.Join(ls, ",")
				}
				out = append(out, "case:"+lbl+"{")
				for _, s := range cc.Body {
					walkStmt(s)
				}
				out = append(out, "}")
			}
			out = append(out, "}")
		case *ast.SelectStmt:
			out = append(out, "select{")
			for _, c := range x.Body.List {
				cc := c.(*ast.CommClause)
				lbl := "default"
				if cc.Comm != nil {
					switch cm := cc.Comm.(type) {
					case *ast.ExprStmt:
						lbl = types.ExprString(cm.X)
					case *ast.AssignStmt:
						lbl = types.ExprString(cm.Rhs[0])
					case *ast.SendStmt:
						lbl = types.ExprString(cm.Chan) + "<-"
					}
				}
				out = append(out, "comm:"+lbl+"{")
				for _, s := range cc.Body {
					walkStmt(s)
				}
				out = append(out, "}")
			}
			out = append(out, "}")
		case *ast.DeclStmt:
			if gd, ok := x.Decl.(*ast.GenDecl); ok {
				for _, sp := range gd.Specs {
					if vs, ok := sp.(*ast.ValueSpec); ok {
						for _, v := range vs.Values {
							walkExpr(v)
						}
					}
				}
			}
		case *ast.LabeledStmt:
			walkStmt(x.Stmt)
		case *ast.BranchStmt:
			out = append(out, strings.ToLower(x.Tok.String()))
		case *ast.EmptyStmt:
		default:
			out = append(out, "unknown:"+fmt.Sprintf("%T", s))
		}
	}
	walkBlock(fd.Body)
	return out
}
