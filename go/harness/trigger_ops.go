package main

// C32: every flushed write reaches matching triggers exactly once.
//
// op `trig <pat1,pat2,...|-> <step> <step> ...`
//   A REAL in-process instance is started through the real startup path with one recording trigger
//   per pattern injected via Container.InjectTriggerMatchers BEFORE the dispatcher is created.
//   Steps are the `store` steps (C:/W:/Q:...) executed against frontend.DataService; after every
//   step the dispatcher is drained DETERMINISTICALLY (see drainTriggers) and the calls received by
//   the recording triggers are appended to the step's result:
//       <step result>[<matcher>@<keyPath>@<index>.<payloadhex>,<index>.<payloadhex>;...]
//   sorted by (matcher position, key path); within one flush a (matcher, key) pair occurs at most
//   once because tpd.m is keyed by path.

import (
	"fmt"
	"os"
	"reflect"
	"sort"
	"strings"
	"sync"
	"time"
	"unsafe"

	"github.com/alpacahq/marketstore/v4/executor"
	"github.com/alpacahq/marketstore/v4/frontend"
	"github.com/alpacahq/marketstore/v4/plugins/trigger"
	"github.com/alpacahq/marketstore/v4/utils"
	"github.com/alpacahq/marketstore/v4/utils/log"
	"github.com/alpacahq/marketstore/v4/verifhook"
)

// startInstTrig is startInst with trigger matchers injected before the dispatcher starts.
func startInstTrig(root string, cfg *utils.MktsConfig, ms []*trigger.Matcher) (*Inst, *executor.TriggerPluginDispatcher) {
	log.SetLevel(log.FATAL)
	if cfg == nil {
		cfg = baseConfig(root)
	}
	utils.InstanceConfig = *cfg
	c := verifhook.NewContainer(cfg)
	if ms == nil {
		ms = []*trigger.Matcher{}
	}
	c.InjectTriggerMatchers(ms)
	tpd := c.GetStartTriggerPluginDispatcher()
	cat := c.GetCatalogDir()
	wf := c.GetInitWALFile()
	executor.NewInstanceSetup(cat, wf)
	_, ds := frontend.NewServer(c.GetAbsRootDir(), cat, c.GetAggRunner(), c.GetWriter(), c.GetHTTPService())
	return &Inst{root: root, c: c, ds: ds, wf: wf}, tpd
}

// unexported field of a struct behind a pointer, as a settable/usable reflect.Value
func privField(ptr interface{}, name string) reflect.Value {
	f := reflect.ValueOf(ptr).Elem().FieldByName(name)
	return reflect.NewAt(f.Type(), unsafe.Pointer(f.UnsafeAddr())).Elem()
}

// drainTriggers waits until every trigger call caused by flushes that have RETURNED is finished.
// With BackgroundSync off a write flushes in the caller, so when the API call returns
// DispatchRecords has already put its elements on tpd.c.  `run` is one sequential goroutine; we
// push a barrier element (zero writtenRecords: key "" matches none of the patterns we use, all of
// which need at least one character) through the same FIFO channel; once the channel is empty the
// barrier has been received, hence every earlier element has been completely handled by `run`
// (triggerWg.Add(1) + go fire) and triggerWg.Wait() then waits for those calls.  A trigger that
// writes (on-disk aggregation) enqueues further elements from its goroutine, so the rounds repeat.
// The unexported fields are reached by reflection (no change to /repo).  false = timeout.
func drainTriggers(tpd *executor.TriggerPluginDispatcher) bool {
	ch := privField(tpd, "c")
	wg := privField(tpd, "triggerWg").Interface().(*sync.WaitGroup)
	for round := 0; round < 3; round++ {
		ch.Send(reflect.Zero(ch.Type().Elem()))
		deadline := time.Now().Add(30 * time.Second)
		for ch.Len() > 0 {
			if time.Now().After(deadline) {
				return false
			}
			time.Sleep(20 * time.Microsecond)
		}
		wg.Wait()
	}
	return true
}

type firedEv struct {
	matcher int
	key     string
	recs    [][]byte
}

type recorder struct {
	mu  sync.Mutex
	evs []firedEv
}

type recTrigger struct {
	idx int
	rec *recorder
}

func (t *recTrigger) Fire(keyPath string, records []trigger.Record) {
	ev := firedEv{matcher: t.idx, key: keyPath}
	for i := range records {
		ev.recs = append(ev.recs, append([]byte(nil), records[i].Bytes()...))
	}
	t.rec.mu.Lock()
	t.rec.evs = append(t.rec.evs, ev)
	t.rec.mu.Unlock()
}

func (r *recorder) take() []firedEv {
	r.mu.Lock()
	defer r.mu.Unlock()
	e := r.evs
	r.evs = nil
	return e
}

func renderEvents(evs []firedEv) string {
	sort.SliceStable(evs, func(i, j int) bool {
		if evs[i].matcher != evs[j].matcher {
			return evs[i].matcher < evs[j].matcher
		}
		return evs[i].key < evs[j].key
	})
	var parts []string
	for _, e := range evs {
		var rs []string
		for _, b := range e.recs {
			r := trigger.Record(b)
			// the real accessors: Index() = io.ToInt64(r[0:8]), Payload() = r[8:]
			rs = append(rs, fmt.Sprintf("%d.%s", r.Index(), hx(r.Payload())))
		}
		parts = append(parts, fmt.Sprintf("%d@%s@%s", e.matcher, e.key, strings.Join(rs, ",")))
	}
	return "[" + strings.Join(parts, ";") + "]"
}

func safeStep(in *Inst, step string) (res string) {
	defer func() {
		if r := recover(); r != nil {
			lastPanic = fmt.Sprint(r)
			res = step[:1] + "=" + panicClass(r)
		}
	}()
	return in.runStoreStep(step)
}

func trigOp(a []string) string {
	if len(a) < 1 {
		panic("bad-arg trig")
	}
	var pats []string
	if a[0] != "-" {
		pats = strings.Split(a[0], ",")
	}
	root := scratchDir("trig")
	defer os.RemoveAll(root)
	rec := &recorder{}
	ms := []*trigger.Matcher{}
	for i, p := range pats {
		if p == "" {
			panic("bad-arg empty pattern")
		}
		ms = append(ms, trigger.NewMatcher(&recTrigger{idx: i, rec: rec}, p))
	}
	in, tpd := startInstTrig(root, nil, ms)
	defer in.abandon()
	var out []string
	for _, step := range a[1:] {
		res := safeStep(in, step)
		if !drainTriggers(tpd) {
			return strings.Join(append(out, res+"[drain-timeout]"), " ")
		}
		out = append(out, res+renderEvents(rec.take()))
	}
	return strings.Join(out, " ")
}

// ---- generator ---------------------------------------------------------------------------

var trigSyms = []string{"A", "AA", "B"}
var trigTfs = []string{"1Min", "1H"}
var trigAgs = []string{"OHLC", "OHLCV"}

func trigCols(ag string) string {
	if ag == "OHLC" {
		return "P=float32"
	}
	return "P=float32,V=int32"
}

func trigPayloadLen(ag string) int {
	if ag == "OHLC" {
		return 4
	}
	return 8
}

func (g *Gen) trigComp(lits []string) string {
	if g.Intn(2) == 0 {
		return "*"
	}
	return lits[g.Intn(len(lits))]
}

func genTrigPattern(g *Gen) (string, string) {
	switch k := g.Intn(20); {
	case k < 12: // {*, literal}^3 in position
		return g.trigComp(trigSyms) + "/" + g.trigComp(trigTfs) + "/" + g.trigComp(trigAgs), "pat:positional"
	case k == 12: // two components (matches at an offset or as a prefix)
		return g.trigComp(trigTfs) + "/" + g.trigComp(trigAgs), "pat:two"
	case k == 13: // four components, the last one meets the year file name
		return g.trigComp(trigSyms) + "/" + g.trigComp(trigTfs) + "/" + g.trigComp(trigAgs) + "/" + g.trigComp([]string{"2020", "20", "2019"}), "pat:four"
	case k == 14: // single component
		return []string{"*", "A", "Min", "OHLC", "bin", "1H", "Z"}[g.Intn(7)], "pat:one"
	case k == 15: // attribute group / file in shifted position
		return []string{"*/OHLCV/*", "*/OHLC/2020", "1Min/*/*", "*/*/*/*", "*/*/*/*/*", "A/*", "*/A/*"}[g.Intn(7)], "pat:shifted"
	case k == 16: // literal that never occurs
		return []string{"Z/*/*", "*/2Min/*", "*/*/TICK", "AAA/1Min/OHLC"}[g.Intn(4)], "pat:nomatch"
	case k == 17: // mixed components (outside {*, literal}: no spec line, model only)
		return []string{"A*/1Min/OHLC", "*A/*/*", "**/1Min/*", "*/1*/OHLC*", "*/*/OHLC*V", "*/-/_"}[g.Intn(6)], "pat:mixed"
	case k == 18: // empty components
		return []string{"A//OHLC", "/1Min/", "*/", "/*"}[g.Intn(4)], "pat:emptycomp"
	default:
		return g.trigComp(trigSyms) + "/" + g.trigComp(trigTfs) + "/" + g.trigComp(trigAgs), "pat:positional"
	}
}

func genTrigRows(g *Gen, tf string, plen int) (string, []string) {
	var tags []string
	base := int64(1583057040) // 2020-03-01 10:04:00 UTC
	step := int64(60)
	if tf == "1H" {
		step = 3600
		base = 1583056800
	}
	n := 1 + g.Intn(5)
	var rows []string
	mode := g.Intn(10)
	yearEdge := int64(1577836800) // 2020-01-01 00:00:00
	var prev int64
	for i := 0; i < n; i++ {
		var t int64
		switch {
		case mode == 0: // year crossing: several files in one transaction group
			t = yearEdge + int64(g.Intn(4)-2)*step
		case mode == 1 && i > 0: // same slot twice in a row (merged into one command)
			t = prev + int64(g.Intn(int(step)))
		case mode == 2: // out of order, repeats
			t = base + int64(g.Intn(4))*step
		default:
			t = base + int64(i)*step + int64(g.Intn(3))*step*int64(g.Intn(2))
		}
		prev = t - t%step
		rows = append(rows, fmt.Sprintf("%d,0,%s", t, hx(g.Bytes(plen))))
	}
	switch mode {
	case 0:
		tags = append(tags, "rows:yearcross")
	case 1:
		tags = append(tags, "rows:sameslot")
	case 2:
		tags = append(tags, "rows:unordered")
	default:
		tags = append(tags, "rows:ordered")
	}
	tags = append(tags, fmt.Sprintf("rows:n%d", n))
	return strings.Join(rows, "+"), tags
}

func genC32(g *Gen) {
	n := g.N(260, 2600)
	for i := 0; i < n; i++ {
		np := g.Intn(5)
		if g.Intn(10) == 0 {
			np = 0
		}
		var pats []string
		tags := map[string]bool{}
		for j := 0; j < np; j++ {
			p, t := genTrigPattern(g)
			if j > 0 && g.Intn(8) == 0 {
				p = pats[g.Intn(len(pats))] // the same pattern twice: two distinct triggers
				t = "pat:duplicate"
			}
			pats = append(pats, p)
			tags[t] = true
		}
		ps := "-"
		if len(pats) > 0 {
			ps = strings.Join(pats, ",")
		}
		tags[fmt.Sprintf("npat:%d", len(pats))] = true
		ns := 1 + g.Intn(6)
		var steps []string
		used := map[string]bool{}
		for s := 0; s < ns; s++ {
			sym := trigSyms[g.Intn(3)]
			tf := trigTfs[g.Intn(2)]
			ag := trigAgs[g.Intn(2)]
			key := sym + "/" + tf + "/" + ag
			cols := trigCols(ag)
			plen := trigPayloadLen(ag)
			switch k := g.Intn(20); {
			case k == 0 && !used[key]: // explicit create of a fresh bucket: no flush, no trigger
				steps = append(steps, "C:"+key+":f:"+cols)
				tags["step:create"] = true
			case k == 1: // rejected write (columns do not match the bucket): nothing is flushed
				rows, _ := genTrigRows(g, tf, 2)
				steps = append(steps, "W:"+key+":f:Q=int16:"+rows)
				tags["step:mismatch?"] = true
			default:
				rows, rt := genTrigRows(g, tf, plen)
				steps = append(steps, "W:"+key+":f:"+cols+":"+rows)
				for _, t := range rt {
					tags[t] = true
				}
				tags["step:write"] = true
			}
			used[key] = true
		}
		tags[fmt.Sprintf("nsteps:%d", ns)] = true
		var tl []string
		for t := range tags {
			tl = append(tl, t)
		}
		sort.Strings(tl)
		g.Emit("trig "+ps+" "+strings.Join(steps, " "), tl...)
	}
}

func init() {
	ops["trig"] = trigOp
	slowOps["trig"] = true
	gens["C32"] = genC32
}
