import Mkts.Model.Float
import Mkts.Model.Time
import Mkts.Model.ExceptDec
import Mkts.Extracted.Skeletons
/-!
# CSV import (cmd/connect/loader/{utils,read,time,write}.go, the loop of cmd/connect/session/load.go)

Strings are `List Char` (ASCII in every generated case).

Trusted and only *modelled* (cross-checked by the correspondence run, not proved):
* `encoding/csv`: the input is given as the list of records; the harness renders record `r` as the
  line `f1,f2,…` and the real `csv.Reader` lexes it back.  Modelled reader behaviour (`read`):
  a record consisting of one empty field is a blank line and is skipped; a field containing `"`
  after its first character is `ErrBareQuote`; `FieldsPerRecord = 0` ⇒ the FIRST record read (the
  header row, read by `ReadMetadata`) fixes the field count and every record with another count is
  returned with `ErrFieldCount`.  Fields containing `,` CR LF or starting with `"` are outside the model.
* `strconv.ParseInt/ParseUint/ParseBool/ParseFloat` (decimal syntax incl. the `_` digit-separator rule, `inf`/`nan`; no hex floats),
  `time.ParseInLocation` for the one layout `20060102 15:04:05`, `time.Unix`, zones as transition tables.

Modelled as code: `ReadMetadata` column matching, `CSVtoNumpyMulti` (chunk read loop),
`convertCSVtoCSM`, `readTimeColumns` (the `formatAdj` "tuning" state machine, reset for every chunk),
`parseTime`, `columnSeriesMapFromCSVData`, `NewNumpyDataset`'s type test, the loop of `load`.

Four statements of the loader are READ OFF THE REGENERATED SKELETONS (`Mkts.Extracted.Skel.cmd_connect_loader_*`,
section "variants" below), so that the model follows the source:
* `readerErrorReported`: a csv.Reader error other than io.EOF is returned (else: taken for the end of the input);
* `timeErrorReported`: `convertCSVtoCSM` returns an error when the time columns cannot be built (else: `(nil, nil)`
  and the caller dereferences nil);
* `timestampUsesDefaultZone`: `parseTime` converts a `timestamp` with the defaulted zone `tz` (else: `tzLoc`, nil
  without a configured zone ⇒ `Time.In(nil)` panics);
* `fixupBoundsChecked`: `parseTime` rejects a time field shorter than `formatFixupState` (else: slice panic).
In the current source all four hold (pinned in Props/C33.lean).
-/
namespace Mkts.Csv
open Mkts.Float

abbrev Str := List Char
abbrev Rec := List Str

inductive Ty where
  | f32 | f64 | i8 | i16 | i32 | i64 | u8 | u16 | u32 | u64 | bool
deriving DecidableEq, Repr

inductive TimeFormat where
  /-- `timeFormat: timestamp` : `<unix seconds>[.<fraction>]` -/
  | timestamp
  /-- `timeFormat: "20060102 15:04:05"` -/
  | layout
deriving DecidableEq, Repr

inductive TzCfg where
  /-- no `timeZone` in the control file -/
  | empty
  /-- a name `time.LoadLocation` rejects -/
  | invalid
  | zone (z : Mkts.Time.Zone)
deriving Repr

inductive Status where
  | ok | errNoMatch | errColumn | errUnsupported | errReader | errTime
  | panicNil | panicSlice | panicOther | fuel | unmodelled
deriving DecidableEq, Repr

def Status.isPanic : Status → Bool
  | .panicNil | .panicSlice | .panicOther => true
  | _ => false

/-! ## variants: which statement the CURRENT source contains (regenerated skeletons) -/

def hasSub : List String → List String → Bool
  | [], pat => pat.isEmpty
  | a :: l, pat => pat.isPrefixOf (a :: l) || hasSub l pat

/-- `if <g> { <one call>; return }` occurs in the skeleton -/
def guardReturns (g : String) : List String → Bool
  | a :: b :: c :: d :: rest => (a == g && c == "return" && d == "}") || guardReturns g (b :: c :: d :: rest)
  | _ => false

open Mkts.Extracted.Skel in
def readerErrorReported : Bool :=
  hasSub cmd_connect_loader_CSVtoNumpyMulti
    ["if:errors.Is(err2, stdio.EOF){", "break", "}", "if:err2 != nil{", "call:fmt.Errorf", "return", "}"]

open Mkts.Extracted.Skel in
def timeErrorReported : Bool :=
  hasSub cmd_connect_loader_convertCSVtoCSM ["if:epochCol == nil{", "call:log.Error", "call:fmt.Errorf", "return", "}"]

open Mkts.Extracted.Skel in
def timestampUsesDefaultZone : Bool := cmd_connect_loader_parseTime.contains "call:time.Unix(sec, nsec).In(tz)"

open Mkts.Extracted.Skel in
def fixupBoundsChecked : Bool :=
  guardReturns "if:formatFixupState < 0 || formatFixupState > len(dateTime){" cmd_connect_loader_parseTime

structure Config where
  fmt : TimeFormat
  tz : TzCfg
  /-- the bucket's columns after `Epoch`, in bucket order -/
  schema : List (Str × Ty)
  isVariable : Bool
deriving Repr

/-- one loaded row: Epoch seconds, Nanoseconds, the bucket columns in bucket order (floats as bits) -/
structure Row where
  epoch : Int
  nanos : Int
  vals : List Int
deriving DecidableEq, Repr

/-- `mapM` in `Option`, by structural recursion (first failure ⇒ `none`) -/
def mapOpt {α β : Type} (f : α → Option β) : List α → Option (List β)
  | [] => some []
  | a :: t =>
    match f a, mapOpt f t with
    | some b, some bs => some (b :: bs)
    | _, _ => none

/-! ## strconv -/

def dval (c : Char) : Nat := c.toNat - 48

def digitsVal (cs : Str) : Nat := cs.foldl (fun a c => a * 10 + dval c) 0

/-- a non-empty string of decimal digits -/
def parseDigits (cs : Str) : Option Nat :=
  if cs.isEmpty || !cs.all Char.isDigit then none else some (digitsVal cs)

/-- strconv.ParseInt(s, 10, bits) -/
def parseInt (bits : Nat) (s : Str) : Option Int :=
  let (neg, ds) : Bool × Str := match s with
    | '-' :: r => (true, r)
    | '+' :: r => (false, r)
    | _ => (false, s)
  match parseDigits ds with
  | none => none
  | some n =>
    let v : Int := if neg then -(n : Int) else n
    if -(2 ^ (bits - 1) : Int) ≤ v && v < (2 ^ (bits - 1) : Int) then some v else none

/-- strconv.ParseUint(s, 10, bits) -/
def parseUint (bits : Nat) (s : Str) : Option Int :=
  match parseDigits s with
  | none => none
  | some n => if n < 2 ^ bits then some n else none

/-- strconv.ParseBool -/
def parseBool (s : Str) : Option Int :=
  if s ∈ [['1'], ['t'], ['T'], ['T','R','U','E'], ['t','r','u','e'], ['T','r','u','e']] then some 1
  else if s ∈ [['0'], ['f'], ['F'], ['F','A','L','S','E'], ['f','a','l','s','e'], ['F','a','l','s','e']] then some 0
  else none

def lower (s : Str) : Str := s.map Char.toLower

def isInfBits (f : Fmt) (b : Nat) : Bool := expField f b == f.emax && fracField f b == 0

/-- strconv.underscoreOK without base prefixes: `'0'` digit seen, `'_'` underscore seen, `'!'` other -/
def underscoreOKAux : Char → Str → Bool
  | saw, [] => saw != '_'
  | saw, c :: r =>
    if c.isDigit then underscoreOKAux '0' r
    else if c == '_' then (if saw != '0' then false else underscoreOKAux '_' r)
    else if saw == '_' then false
    else underscoreOKAux '!' r

def underscoreOK (s : Str) : Bool :=
  match s with
  | '-' :: r => underscoreOKAux '^' r
  | '+' :: r => underscoreOKAux '^' r
  | _ => underscoreOKAux '^' s

/-- strconv.ParseFloat(s, bitSize) for decimal syntax (digits may be separated by `_`); a result
    that overflows to ±Inf is `ErrRange`, i.e. an error for the loader -/
def parseFloat (f : Fmt) (s0 : Str) : Option Nat :=
  let hasUnderscore := s0.any (· == '_')
  if hasUnderscore && !underscoreOK s0 then none else
  let s := s0.filter (· != '_')
  let (signed, neg, r) : Bool × Bool × Str := match s with
    | '-' :: r => (true, true, r)
    | '+' :: r => (true, false, r)
    | _ => (false, false, s)
  if hasUnderscore && !(r.headD 'x').isDigit && r.headD 'x' != '.' then none
  else if lower r == ['i','n','f'] || lower r == ['i','n','f','i','n','i','t','y'] then some (infBits f neg)
  else if !signed && lower r == ['n','a','n'] then some (qnan f)
  else
    let ip := r.takeWhile Char.isDigit
    let r1 := r.dropWhile Char.isDigit
    let (fp, r2) : Str × Str := match r1 with
      | '.' :: t => (t.takeWhile Char.isDigit, t.dropWhile Char.isDigit)
      | _ => ([], r1)
    if ip.isEmpty && fp.isEmpty then none else
    let ex : Option Int := match r2 with
      | [] => some 0
      | c :: t =>
        if c == 'e' || c == 'E' then
          let (eneg, ds) : Bool × Str := match t with
            | '-' :: u => (true, u)
            | '+' :: u => (false, u)
            | _ => (false, t)
          match parseDigits ds with
          | none => none
          | some n => some (if eneg then -(n : Int) else n)
        else none
    match ex with
    | none => none
    | some e =>
      let m := digitsVal (ip ++ fp)
      let k : Int := e - fp.length
      let bits := if k < 0 then ofRat f neg m (10 ^ k.natAbs) else ofRat f neg (m * 10 ^ k.toNat) 1
      if isInfBits f bits then none else some bits

/-- the column parsers of write.go (`getInt8ColumnFromCSVRows` …) on one field -/
def parseVal : Ty → Str → Option Int
  | .f32, s => (parseFloat b32 s).map Int.ofNat
  | .f64, s => (parseFloat b64 s).map Int.ofNat
  | .i8, s => parseInt 8 s
  | .i16, s => parseInt 16 s
  | .i32, s => parseInt 32 s
  | .i64, s => parseInt 64 s
  | .u8, s => parseUint 8 s
  | .u16, s => parseUint 16 s
  | .u32, s => parseUint 32 s
  | .u64, s => parseUint 64 s
  | .bool, s => parseBool s

/-! ## time.ParseInLocation("20060102 15:04:05", …) -/

/-- time.getnum -/
def getnum (fixed : Bool) : Str → Option (Nat × Str)
  | a :: b :: rest =>
    if !a.isDigit then none
    else if b.isDigit then some (dval a * 10 + dval b, rest)
    else if fixed then none else some (dval a, b :: rest)
  | [a] => if a.isDigit && !fixed then some (dval a, []) else none
  | [] => none

/-- time.skip(value, " "): a space of the layout matches any run of spaces (also none at the end) -/
def skipSpace : Str → Option Str
  | [] => some []
  | c :: r => if c == ' ' then some ((c :: r).dropWhile (· == ' ')) else none

def skipChar (ch : Char) : Str → Option Str
  | c :: r => if c == ch then some r else none
  | [] => none

def daysBefore : Nat → Nat
  | 1 => 0 | 2 => 31 | 3 => 59 | 4 => 90 | 5 => 120 | 6 => 151 | 7 => 181 | 8 => 212 | 9 => 243
  | 10 => 273 | 11 => 304 | 12 => 334 | _ => 0

def daysIn (month : Nat) (year : Int) : Nat :=
  if month == 2 then (if Mkts.Time.isLeap year then 29 else 28)
  else if month == 4 || month == 6 || month == 9 || month == 11 then 30 else 31

/-- the civil reading as seconds since the civil epoch, and the nanoseconds; `none` = parse error -/
def parseLayout (s : Str) : Option (Int × Nat) :=
  match s with
  | y1 :: y2 :: y3 :: y4 :: r0 =>
    if !([y1, y2, y3, y4].all Char.isDigit) then none else
    let year : Int := digitsVal [y1, y2, y3, y4]
    match getnum true r0 with
    | none => none
    | some (month, r1) =>
    if month == 0 || month > 12 then none else
    match getnum true r1 with
    | none => none
    | some (day, r2) =>
    match skipSpace r2 with
    | none => none
    | some r3 =>
    match getnum false r3 with
    | none => none
    | some (hour, r4) =>
    if hour ≥ 24 then none else
    match skipChar ':' r4 with
    | none => none
    | some r5 =>
    match getnum true r5 with
    | none => none
    | some (mi, r6) =>
    if mi ≥ 60 then none else
    match skipChar ':' r6 with
    | none => none
    | some r7 =>
    match getnum true r7 with
    | none => none
    | some (sec, r8) =>
    if sec ≥ 60 then none else
    -- fractional seconds are accepted although the layout has none
    let (nsec, r9) : Nat × Str := match r8 with
      | p :: d :: t =>
        if (p == '.' || p == ',') && d.isDigit then
          let ds := (d :: t).takeWhile Char.isDigit
          let ds9 := ds.take 9
          (digitsVal ds9 * 10 ^ (9 - ds9.length), (d :: t).dropWhile Char.isDigit)
        else (0, r8)
      | _ => (0, r8)
    if !r9.isEmpty then none
    else if day < 1 || day > daysIn month year then none
    else
      let leapAdj : Int := if Mkts.Time.isLeap year && month > 2 then 1 else 0
      let days : Int := Mkts.Time.jan1 year + daysBefore month + leapAdj + ((day : Int) - 1)
      some (days * 86400 + hour * 3600 + mi * 60 + sec, nsec)
  | _ => none

/-! ## loader/time.go, loader/read.go -/

def fmtLen : TimeFormat → Int
  | .timestamp => 9      -- len("timestamp")
  | .layout => 17        -- len("20060102 15:04:05")

def splitOnDot (s : Str) : List Str :=
  s.foldr (fun c acc => if c == '.' then [] :: acc else
    match acc with | h :: t => (c :: h) :: t | [] => [[c]]) [[]]

/-- loader.parseTime: `.error` = Go panic, `.ok none` = returned error, `.ok (some ns)` = instant -/
def parseTime (cfg : Config) (dateTime : Str) (adj : Int) : Except Status (Option Int) :=
  if adj < 0 || adj > dateTime.length then
    -- dateTime[:len(dateTime)-formatFixupState] out of range: guarded, or a slice panic
    (if fixupBoundsChecked then .ok none else .error .panicSlice)
  else
    let dateString := dateTime.take (dateTime.length - adj.toNat)
    match cfg.fmt with
    | .timestamp =>
      let parts := splitOnDot dateTime
      match parseInt 64 (parts.headD []) with
      | none => .ok none
      | some sec =>
        let nsec? : Option Int := match parts.tail with
          | [] => some 0
          | p1 :: _ =>
            match parseInt 64 p1 with
            | none => none
            | some v => some ((if p1.length ≤ 9 then (10 : Int) ^ (9 - p1.length) else 0) * v)
        match nsec? with
        | none => .ok none
        | some nsec =>
          match cfg.tz with
          | .zone _ => .ok (some (sec * 1000000000 + nsec))
          | _ =>
            if timestampUsesDefaultZone then .ok (some (sec * 1000000000 + nsec))   -- In(tz), tz = UTC
            else .error .panicOther                                                 -- In(tzLoc) = Time.In(nil)
    | .layout =>
      match parseLayout dateString with
      | none => .ok none
      | some (civil, nsec) =>
        let unix : Int := match cfg.tz with
          | .zone z => z.dateToUnix civil
          | _ => civil
        let t : Int := unix * 1000000000 + nsec
        let rem : Str := dateTime.drop dateString.length
        if adj == 3 then
          match parseInt 64 rem with
          | some ms => .ok (some (t + ms * 1000000))
          | none => .ok (some t)
        else if adj == 7 then
          match parseInt 64 (rem.drop 1) with
          | some us => .ok (some (t + us * 1000))
          | none => .ok (some t)
        else .ok (some t)

/-- one iteration of the loop of readTimeColumns: state `(formatAdj, firstParse)` -/
def timeRow (cfg : Config) (st : Int × Bool) (dateTime : Str) : Except Status (Option (Int × (Int × Bool))) :=
  match parseTime cfg dateTime st.1 with
  | .error p => .error p
  | .ok (some t) => .ok (some (t, st))
  | .ok none =>
    if st.2 then
      let adj : Int := (dateTime.length : Int) - fmtLen cfg.fmt
      if adj > 0 then
        match parseTime cfg dateTime adj with
        | .error p => .error p
        | .ok (some t) => .ok (some (t, (adj, false)))
        | .ok none => .ok none
      else .ok none
    else .ok none

def timeLoop (cfg : Config) : Int × Bool → List Str → Except Status (Option (List Int))
  | _, [] => .ok (some [])
  | st, dt :: rest =>
    match timeRow cfg st dt with
    | .error p => .error p
    | .ok none => .ok none
    | .ok (some (t, st')) =>
      match timeLoop cfg st' rest with
      | .error p => .error p
      | .ok none => .ok none
      | .ok (some ts) => .ok (some (t :: ts))

/-- readTimeColumns: `.ok none` = `(nil, nil)`; instants in ns -/
def readTimeColumns (cfg : Config) (epochIdx : Nat) (rows : List Rec) : Except Status (Option (List Int)) :=
  match cfg.tz with
  | .invalid => .ok none                                      -- LoadLocation fails
  | _ => timeLoop cfg (0, true) (rows.map (·.getD epochIdx []))

/-! ## loader/utils.go -/

def eqFold (a b : Str) : Bool := lower a == lower b

def trimSpace (s : Str) : Str :=
  ((s.dropWhile (· == ' ')).reverse.dropWhile (· == ' ')).reverse

/-- index of the LAST header name equal (case-insensitively) to `name` -/
def matchColumn (header : List Str) (name : Str) : Option Nat :=
  (header.zipIdx.foldl (fun acc (h, i) => if eqFold name h then some i else acc) none)

/-- ReadMetadata with `firstRowHasColumnNames: true` and no `columnNameMap`:
    `(index of Epoch, index of every bucket column)`, or the error "unable to match all csv file columns" -/
def readMetadata (cfg : Config) (header : List Str) : Option (Nat × List Nat) :=
  let hdr := header.map trimSpace
  match matchColumn hdr ['E','p','o','c','h'], mapOpt (fun c => matchColumn hdr c.1) cfg.schema with
  | some e, some idx => some (e, idx)
  | _, _ => none

def hasBareQuote (r : Rec) : Bool := r.any (fun f => f.drop 1 |>.any (· == '"'))

inductive ReadResult where
  | eof
  | err (rest : List Rec)
  | row (r : Rec) (rest : List Rec)

/-- csv.Reader.Read with FieldsPerRecord = n -/
def read (n : Nat) : List Rec → ReadResult
  | [] => .eof
  | r :: rest =>
    if r == [[]] then read n rest                             -- blank line
    else if hasBareQuote r then .err rest
    else if r.length != n then .err rest
    else .row r rest

/-- how the read loop of one chunk ended -/
inductive ChunkEnd where
  | more        -- `chunkSize` records read
  | eof         -- io.EOF
  | readerErr   -- any other csv.Reader error
deriving DecidableEq, Repr

/-- the read loop of CSVtoNumpyMulti: up to `k` records -/
def readChunk (n : Nat) : Nat → List Rec → List Rec × ChunkEnd × List Rec
  | 0, rs => ([], .more, rs)
  | k + 1, rs =>
    match read n rs with
    | .eof => ([], .eof, [])
    | .err rest => ([], .readerErr, rest)
    | .row r rest =>
      let (rows, e, rest') := readChunk n k rest
      (r :: rows, e, rest')

/-- columnSeriesMapFromCSVData: every bucket column over all rows of the chunk, in bucket order -/
def parseColumns (schema : List (Str × Ty)) (idx : List Nat) (rows : List Rec) : Option (List (List Int)) :=
  mapOpt (fun ci => mapOpt (fun r => parseVal ci.1.2 (r.getD ci.2 [])) rows) (schema.zip idx)

/-- rows from the time column and the data columns -/
def assemble : List Int → List (List Int) → List Row
  | [], _ => []
  | t :: ts, cols =>
    ⟨t / 1000000000, t % 1000000000, cols.map (·.headD 0)⟩ :: assemble ts (cols.map List.tail)

/-- convertCSVtoCSM + the rest of CSVtoNumpyMulti on a non-empty chunk -/
def convertChunk (cfg : Config) (epochIdx : Nat) (idx : List Nat) (rows : List Rec) : Except Status (List Row) :=
  match readTimeColumns cfg epochIdx rows with
  | .error p => .error p
  | .ok none =>
    -- convertCSVtoCSM: an error, or (nil, nil) ⇒ csm[tbk].Remove / NewNumpyDataset(nil) dereference nil
    if timeErrorReported then .error .errTime else .error .panicNil
  | .ok (some ts) =>
    match parseColumns cfg.schema idx rows with
    | none => .error .errColumn
    | some cols =>
      if cfg.schema.any (fun c => c.2 == .bool) then .error .errUnsupported   -- NewNumpyDataset: no typeMap entry
      else .ok (assemble ts cols)

structure LoadResult where
  status : Status
  /-- the datasets handed to the writer, in order -/
  chunks : List (List Row)
deriving DecidableEq, Repr

/-- the `for` loop of `load` (session/load.go) with chunk size `k` -/
def loadLoop (cfg : Config) (n epochIdx : Nat) (idx : List Nat) (k : Nat) : Nat → List Rec → LoadResult
  | 0, _ => ⟨.fuel, []⟩
  | fuel + 1, rs =>
    let (rows, e, rest) := readChunk n k rs
    -- a reader error is returned before anything of the chunk is converted …
    if e == .readerErr && readerErrorReported then ⟨.errReader, []⟩
    else
    -- … or it is indistinguishable from the end of the input
    if rows.isEmpty then ⟨.ok, []⟩                             -- (nil, true, nil)
    else
      match convertChunk cfg epochIdx idx rows with
      | .error st => ⟨st, []⟩
      | .ok out =>
        if e != .more then ⟨.ok, [out]⟩                         -- endReached
        else
          let r := loadLoop cfg n epochIdx idx k fuel rest
          ⟨r.status, out :: r.chunks⟩

/-- ReadMetadata (reads the header row, which fixes FieldsPerRecord) followed by the load loop -/
def load (cfg : Config) (header : Rec) (records : List Rec) (k : Nat) : LoadResult :=
  match readMetadata cfg header with
  | none => ⟨.errNoMatch, []⟩
  | some (e, idx) =>
    if e != 0 then ⟨.unmodelled, []⟩    -- write.go skips CSV column 0 and re-parses Epoch elsewhere: not modelled
    else loadLoop cfg header.length e idx k (records.length + 1) records

end Mkts.Csv
