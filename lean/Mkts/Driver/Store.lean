import Mkts.Proto
import Mkts.Extracted.Facts
import Mkts.Extracted.Skeletons
import Mkts.Model.Store
import Mkts.Model.VStore
import Mkts.Model.Project
/-!
Driver for the `store` op: one line = a scenario of API calls against one server instance
(`store <nowYear> <step> <step> …`, see go/harness/instance.go):
  C:key:f|v:name=type,…            create bucket
  W:key:f|v:name=type,…:rows       write request (rows `sec,nanos,payloadhex` joined by `+`)
  Q:key:startS:startNs:endS:endNs:limit:F|L:cols     query (`-` = absent)
  R                                 abrupt restart (process killed, page cache kept)
  I:key   L   D:key                 get info / list buckets / destroy
Variable-length buckets use `Mkts.VStore` with the tick functions of `Mkts.Ticks` (`rne`).
-/
namespace Mkts.Driver.Store
open Mkts.Proto Mkts.Store Mkts.Time Mkts.Bytes Mkts.VStore

structure Col where
  name : String
  ty : String
deriving Repr, BEq

structure Bucket where
  key : String
  tf : Int
  isVar : Bool
  cols : List Col
  slots : Slots
  vslots : VSlots := []
  /-- variable-length commands flushed since the last restart (replayed again by `R`) -/
  vpending : List VCmd := []
  /-- every variable-length row written so far (for the C09 predicate) -/
  vwritten : List VRow := []
  /-- every fixed-length request written so far (for the last-writer-wins spec) -/
  hist : List (List Row) := []

/-- the tick encoder / repaired decoder of the code, with IEEE round-to-nearest-even -/
def tickFns : TickFns :=
  { enc := fun ts index ipd => Mkts.Ticks.getIntervalTicks32Bit Mkts.Ticks.rne ts index ipd,
    dec := fun start ipd ticks =>
      let d := Mkts.Ticks.getTimeFromTicksFixed Mkts.Ticks.rne start ipd ticks
      (d.sec, d.nanos) }

/-- `ColumnSeries.AddColumn` makes a repeated column name unique: the second `c` becomes `c0`,
    the third `c1`, … (the wire dataset is converted back through it) -/
def uniqNames : List String → List String → List (String × Nat) → List String
  | [], acc, _ => acc.reverse
  | n :: rest, acc, cnt =>
    if acc.contains n then
      let k := match cnt.find? (·.1 == n) with | some p => p.2 + 1 | none => 0
      uniqNames rest ((n ++ toString k) :: acc) ((n, k) :: cnt.filter (·.1 != n))
    else uniqNames rest (n :: acc) cnt

def renderVRows (hdr0 : List String) (rows : List VRow) : String :=
  let hdr := uniqNames hdr0 [] []
  if rows.isEmpty then "0[]" else
  s!"{rows.length}[{",".intercalate hdr}]" ++
    "+".intercalate (rows.map (fun r => s!"{r.sec},{r.nanos},{bytesToHex r.payload}"))

def typeSize (ty : String) : Option Nat :=
  (Mkts.Extracted.attributeMap.find? (fun e => e.2.1 == ty)).map (fun e => e.2.2)

def parseCols (s : String) : Option (List Col) :=
  if s == "-" || s == "" then some [] else
  (s.splitOn ",").mapM (fun p => match p.splitOn "=" with
    | [n, t] => if (typeSize t).isSome then some ⟨n, t⟩ else none
    | _ => none)

/-- timeframe string of the catalog (`utils.Timeframes`): `<n><Sec|Min|H|D>` -/
def parseTf (s : String) : Option Int :=
  let ds := s.toList.takeWhile Char.isDigit
  let suffix := String.ofList (s.toList.drop ds.length)
  match (String.ofList ds).toNat?, suffix with
  | some n, "Sec" => some (n * 1000000000)
  | some n, "Min" => some (n * 60000000000)
  | some n, "H" => some (n * 3600000000000)
  | some n, "D" => some (n * 86400000000000)
  | _, _ => none

/-- `utils.Timeframes` in source order — regenerated from /repo on every run (factgen `tables`);
    `QueryableTimeframe` scans it from the end and returns the first entry dividing the duration. -/
def catalogTimeframes : List (String × Int) := Mkts.Extracted.utils_Timeframes

def queryableTimeframe (d : Int) : String :=
  match catalogTimeframes.reverse.find? (fun e => d % e.2 == 0) with
  | some e => e.1
  | none => "1D"

def keyTf (key : String) : Option (String × String × String) :=
  match key.splitOn "/" with
  | [s, tf, ag] => some (s, tf, ag)
  | _ => none

def parseRows (s : String) : Option (List (Int × Int × Bytes)) :=
  if s == "-" || s == "" then some [] else
  (s.splitOn "+").mapM (fun r => match r.splitOn "," with
    | [a, b, c] => do pure ((← parseInt a), (← parseInt b), (← hexToBytes c))
    | _ => none)

def optInt (s : String) : Option (Option Int) :=
  if s == "-" then some none else (parseInt s).map some

def find (bs : List Bucket) (key : String) : Option Bucket := bs.find? (fun b => b.key == key)

def replace (bs : List Bucket) (b : Bucket) : List Bucket :=
  if (find bs b.key).isSome then bs.map (fun x => if x.key == b.key then b else x) else bs ++ [b]

/-- cut the requested columns out of a payload (`Project`: requested order, unknown names dropped):
    `Mkts.Project.projectPayload`, the function `Props/C13` is about -/
def project (cols : List Col) (want : List String) (payload : Bytes) : Bytes :=
  Mkts.Project.projectPayload (cols.map (fun c => (c.name, (typeSize c.ty).getD 0))) want payload

def renderRows (hdr0 : List String) (rows : List Row) : String :=
  let hdr := uniqNames hdr0 [] []
  if rows.isEmpty then "0[]" else
  s!"{rows.length}[{",".intercalate hdr}]" ++
    "+".intercalate (rows.map (fun r => s!"{r.sec},0,{bytesToHex r.payload}"))

def sortStrings (l : List String) : List String := (l.toArray.qsort (· < ·)).toList

def stringToHex (s : String) : String := bytesToHex s.toUTF8.toList

/-- result of one step and the new state; `none` = unsupported scenario -/
def step (bs : List Bucket) (st : String) : Option (List Bucket × String × Option String × List String) :=
  match st.splitOn ":" with
  | ["C", key, rt, cols] => do
    let (_, tfs, _) ← keyTf key
    let cs ← parseCols cols
    match parseTf tfs with
    | none => pure (bs, "C=err:timeframe", none, [])
    | some tf =>
      if (find bs key).isSome then pure (bs, "C=err:exists", none, [])
      else pure (bs ++ [{ key := key, tf := tf, isVar := rt == "v", cols := cs, slots := [] }], "C=ok", none, [])
  | ["W", key, rt, cols, rows] => do
    let (_, tfs, _) ← keyTf key
    let cs ← parseCols cols
    let rws ← parseRows rows
    match parseTf tfs with
    | none => pure (bs, "W=err:timeframe", none, [])
    | some tf =>
      if rws.isEmpty then pure (bs, "W=err:other", none, []) else
      let b : Bucket := match find bs key with
        | some b => b
        | none => { key := key, tf := tf, isVar := rt == "v", cols := cs, slots := [] }
      if b.isVar != (rt == "v") then none else
      if b.cols != cs then
        (if b.cols.length != cs.length || b.cols.map (·.name) != cs.map (·.name) then
          pure (bs, "W=err:colmismatch", none, []) else none)
      else if b.isVar then
        let req := rws.map (fun r => (⟨r.1, r.2.1, r.2.2⟩ : VRow))
        let cmds := VStore.writeRecords tickFns b.tf req
        let b' := { b with vslots := VStore.applyCmds b.vslots cmds, vpending := b.vpending ++ cmds,
                           vwritten := b.vwritten ++ req }
        pure (replace bs b', "W=ok", none, [])
      else
        let req := rws.map (fun r => (⟨r.1, r.2.2⟩ : Row))
        let b' := { b with slots := Store.applyCmds b.slots (Store.writeRecords b.tf req), hist := b.hist ++ [req] }
        pure (replace bs b', "W=ok", none, [])
  | ["Q", key, ss, sn, es, en, lim, dir, cols] => do
    let (sym, tfs, ag) ← keyTf key
    let ss ← optInt ss; let sn ← optInt sn; let es ← optInt es; let en ← optInt en
    match parseTf tfs with
    | none => pure (bs, "Q=err:timeframe", none, [])
    | some d =>
      let qkey := s!"{sym}/{queryableTimeframe d}/{ag}"
      match find bs qkey with
      | none => pure (bs, "Q=err:nofiles", none, if qkey != key then ["tf_rerouted"] else [])
      | some b =>
        let mult := d / b.tf
        let limit ← (if lim == "-" then some none else
          (parseNat lim).map (fun n => if n == 0 then none else some (n * mult.toNat, dir == "F")))
        let q : Query := {
          start := ss.map (fun s => s * nsPerSec + sn.getD 0),
          stop := es.map (fun s => s * nsPerSec + en.getD 0),
          limit := limit }
        let want := if cols == "-" then b.cols.map (·.name) else
          (cols.splitOn ",").filter (fun w => b.cols.any (fun c => c.name == w))
        let rerouted := if qkey != key then ["tf_rerouted"] else []
        if b.isVar then
          let rows := VStore.query tickFns b.tf b.vslots q
          let out := rows.map (fun r => { r with payload := project b.cols want r.payload })
          let unrestricted := q.start.isNone && q.stop.isNone && q.limit.isNone
          let vflag := if unrestricted && cols == "-" && !b.vwritten.isEmpty then
              (if c09ok b.tf b.vwritten rows then ";V=ok" else ";V=bad") else ""
          -- the property for ranged / limited queries is relative to the unrestricted result
          let all := VStore.query tickFns b.tf b.vslots ⟨none, none, none⟩
          let inr := all.filter (fun r =>
            (match q.start with | none => true | some st => decide (st ≤ r.ns)) &&
            (match q.stop with | none => true | some e => decide (r.ns ≤ e)))
          let lim' := match q.limit with
            | none => inr | some (n, true) => inr.take n | some (n, false) => takeLast n inr
          let specTok := if unrestricted then "*" else
            "Q=" ++ renderVRows want (lim'.map (fun r => { r with payload := project b.cols want r.payload }))
          let hyps := (if q.limit.isSome && out != lim'.map (fun r => { r with payload := project b.cols want r.payload })
                        then ["var_limit_counts_intervals"] else []) ++
                      (if b.tf == dayNs && b.vslots.any (fun kv => kv.1.2 == 0) then ["oneD_jan1"] else []) ++ rerouted
          pure (bs, "Q=" ++ renderVRows want out ++ vflag, some specTok, hyps)
        else
        -- a LAST-direction scan without a limit cannot be asked through this API (limit 0 = none = FIRST)
        let rows := Store.query b.tf b.slots q
        let out := rows.map (fun r => { r with payload := project b.cols want r.payload })
        let hyps := (if b.tf == dayNs && b.slots.any (fun kv => kv.1.2 == 0) then ["oneD_jan1"] else []) ++ rerouted
        -- the property: rows of the last-writer-wins map whose interval start lies in
        -- [start of the interval containing start, end], first / last N
        let all := specAll b.tf b.hist
        let inr := all.filter (fun r =>
          let t := nsOfSec r.sec
          (match q.start with
            | none => true
            | some st => decide (indexToTime utc (timeToIndex utc st b.tf) b.tf (localYear utc st) ≤ t)) &&
          (match q.stop with | none => true | some e => decide (t ≤ e)))
        let limited := match q.limit with
          | none => inr | some (n, true) => inr.take n | some (n, false) => takeLast n inr
        let specTok := if qkey != key then none else
          some ("Q=" ++ renderRows want (limited.map (fun r => { r with payload := project b.cols want r.payload })))
        pure (bs, "Q=" ++ renderRows want out, specTok, hyps)
  | ["R"] =>
    -- abrupt restart: the old WAL is replayed in full (no checkpoint was taken in this mode):
    -- idempotent for fixed-length files, appends AGAIN for variable-length ones
    let dup := bs.any (fun b => b.isVar && !b.vpending.isEmpty)
    let bs' := bs.map (fun b => if b.isVar then
      { b with vslots := VStore.applyCmds b.vslots b.vpending, vpending := [] } else b)
    pure (bs', "R=ok", none, if dup then ["var_replay_duplicates"] else [])
  | ["I", key] =>
    match find bs key with
    | none => pure (bs, "I=err:nokey", none, [])
    | some b =>
      let cs := ("Epoch", "int64") :: b.cols.map (fun c => (c.name, c.ty))
      pure (bs, s!"I=tf{b.tf},rt{if b.isVar then 1 else 0}," ++
        ",".intercalate (cs.map (fun c => stringToHex c.1 ++ "=" ++ c.2)), none, [])
  | ["L"] =>
    let ks := sortStrings (bs.map (·.key))
    pure (bs, if ks.isEmpty then "L=-" else "L=" ++ ",".intercalate ks, none, [])
  | ["D", key] =>
    match find bs key with
    | none => pure (bs, "D=err:nokey", none, [])
    | some _ => pure (bs.filter (fun b => b.key != key), "D=ok", none, [])
  | _ => none

/-- multi-symbol queries (`S0,S1/tf/ag`, `*/tf/ag`): every present symbol is evaluated exactly as a
    query for that symbol alone (`executeQuery` restricts the catalog walk to the listed symbols and
    reads each bucket independently); the wire dataset requires equal column names. -/
def stepM (bs : List Bucket) (st : String) : Option (List Bucket × String × Option String × List String) :=
  match st.splitOn ":" with
  | ["Q", key, ss, sn, es, en, lim, dir, cols] =>
    match keyTf key with
    | some (sym, tfs, ag) =>
      if sym.contains ',' || sym == "*" then
        match parseTf tfs with
        | none => some (bs, "Q=err:timeframe", none, [])
        | some d =>
          let listed := if sym == "*" then ((bs.filterMap (fun b => (keyTf b.key).map (·.1))).eraseDups)
                        else sym.splitOn ","
          let syms := listed.eraseDups
          let present := syms.filter (fun sy => (find bs s!"{sy}/{queryableTimeframe d}/{ag}").isSome)
          -- a symbol listed m times is added m times to the restriction list: its year files are
          -- scanned m times each (files sorted by year), every row comes back m times
          let dupd := present.filter (fun sy => (listed.filter (· == sy)).length > 1)
          let evalOne := fun (sy : String) =>
            let k := s!"{sy}/{tfs}/{ag}"
            let m := if Mkts.Project.restrictionIsSet then 1 else (listed.filter (· == sy)).length
            if m ≤ 1 then (step bs (":".intercalate ["Q", k, ss, sn, es, en, lim, dir, cols])).map (fun r => (k, r))
            else
              match find bs k, step bs (":".intercalate ["Q", k, ss, sn, es, en, "-", "-", cols]),
                    step bs (":".intercalate ["Q", k, ss, sn, es, en, lim, dir, cols]) with
              | some b, some _, some single =>
                if b.isVar then none else
                let q0 : Query := { start := (optInt ss).join.map (fun x => x * nsPerSec + ((optInt sn).join).getD 0),
                                    stop := (optInt es).join.map (fun x => x * nsPerSec + ((optInt en).join).getD 0), limit := none }
                let rows := Store.query b.tf b.slots q0
                let years := (rows.map (fun r => localYear utc (nsOfSec r.sec))).eraseDups
                let rep := (years.map (fun y =>
                  let g := rows.filter (fun r => localYear utc (nsOfSec r.sec) == y)
                  (List.replicate m g).flatten)).flatten
                let lim' := match (if lim == "-" then none else parseNat lim) with
                  | none => rep
                  | some 0 => rep
                  | some n => if dir == "F" then rep.take n else takeLast n rep
                let want := if cols == "-" then b.cols.map (·.name) else
                  (cols.splitOn ",").filter (fun w => b.cols.any (fun c => c.name == w))
                let out := lim'.map (fun r => { r with payload := project b.cols want r.payload })
                some (k, (bs, "Q=" ++ renderRows want out, single.2.2.1, single.2.2.2 ++ ["symbol_listed_twice"]))
              | _, _, _ => none
          let evals := present.filterMap evalOne
          let _ := dupd
          if evals.length != present.length then none else
          match evals with
          | [] => some (bs, "Q=err:nofiles", none, [])
          | [(_, r)] => some r
          | _ =>
            let names := evals.map (fun e => match find bs e.1 with
              | some b => if cols == "-" then b.cols.map (·.name) else
                  (cols.splitOn ",").filter (fun w => b.cols.any (fun c => c.name == w))
              | none => [])
            if names.any (· != names.headD []) then some (bs, "Q=err:symbolschema", none, []) else
            let sorted := sortStrings (evals.map (·.1))
            let body := fun (pick : (List Bucket × String × Option String × List String) → String) =>
              "Q=" ++ "&".intercalate (sorted.map (fun k => match evals.find? (·.1 == k) with
                | some e => k ++ "~" ++ String.ofList ((pick e.2).toList.drop 2)
                | none => k))
            let m := body (fun r => r.2.1)
            -- `*` (unrestricted variable-length query: judged by the V verdict) keeps the model's rows
            let sp := body (fun r => match r.2.2.1 with | some "*" => r.2.1 | some o => o | none => r.2.1)
            let hy := (evals.map (fun e => e.2.2.2.2)).flatten
            some (bs, m, some (if sp.contains '*' then m else sp), hy)
      else step bs st
    | none => step bs st
  | _ => step bs st

def runSteps : List Bucket → List String → List String → List (Option String) → List String →
    Option (List String × List (Option String) × List String)
  | _, [], out, ov, hy => some (out.reverse, ov.reverse, hy)
  | bs, st :: rest, out, ov, hy =>
    match stepM bs st with
    | none => none
    | some (bs', r, o, h) => runSteps bs' rest (r :: out) (o :: ov) (hy ++ h)

/-- the property-level expectation (C08/C11/C12/C13) for the same scenario: every bucket is the
    last-writer-wins map of ALL rows written to it so far; a query returns the rows of that map
    whose interval start lies in `[start of the interval containing start, end]`, first/last N. -/
structure SpecBucket where
  key : String
  tf : Int
  cols : List Col
  hist : List (List Row)

def specStep (bs : List SpecBucket) (st : String) : Option (List SpecBucket × Option String) :=
  match st.splitOn ":" with
  | ["C", key, _, cols] => do
    let (_, tfs, _) ← keyTf key
    let cs ← parseCols cols
    match parseTf tfs with
    | none => pure (bs, none)
    | some tf => if (bs.find? (·.key == key)).isSome then pure (bs, none)
                 else pure (bs ++ [⟨key, tf, cs, []⟩], none)
  | ["W", key, _, cols, rows] => do
    let (_, tfs, _) ← keyTf key
    let cs ← parseCols cols
    let rws ← parseRows rows
    match parseTf tfs with
    | none => pure (bs, none)
    | some tf =>
      if rws.isEmpty then pure (bs, none) else
      let b : SpecBucket := match bs.find? (·.key == key) with
        | some b => b
        | none => ⟨key, tf, cs, []⟩
      if b.cols != cs then pure (bs, none) else
      let b' := { b with hist := b.hist ++ [rws.map (fun r => (⟨r.1, r.2.2⟩ : Row))] }
      pure ((if (bs.find? (·.key == key)).isSome then bs.map (fun x => if x.key == key then b' else x) else bs ++ [b']), none)
  | ["Q", key, ss, sn, es, en, lim, dir, cols] => do
    let ss ← optInt ss; let sn ← optInt sn; let es ← optInt es; let en ← optInt en
    match bs.find? (·.key == key) with
    | none => pure (bs, none)
    | some b =>
      let all := specAll b.tf b.hist
      let lo := ss.map (fun s => s * nsPerSec + sn.getD 0)
      let hi := es.map (fun s => s * nsPerSec + en.getD 0)
      let inr := all.filter (fun r =>
        let t := nsOfSec r.sec
        (match lo with
          | none => true
          | some st => decide (indexToTime utc (timeToIndex utc st b.tf) b.tf (localYear utc st) ≤ t)) &&
        (match hi with | none => true | some e => decide (t ≤ e)))
      let limited ← (if lim == "-" then some inr else (parseNat lim).map (fun n =>
        if n == 0 then inr else if dir == "F" then inr.take n else takeLast n inr))
      let want := if cols == "-" then b.cols.map (·.name) else
        (cols.splitOn ",").filter (fun w => b.cols.any (fun c => c.name == w))
      let out := limited.map (fun r => { r with payload := project b.cols want r.payload })
      pure (bs, some ("Q=" ++ renderRows want out))
  | ["D", key] => pure (bs.filter (·.key != key), none)
  | _ => pure (bs, none)

def runSpec : List SpecBucket → List String → List (String × Option String) → List String → Option (List String)
  | _, [], [], out => some out.reverse
  | _, [], _ :: _, out => some out.reverse
  | _, _ :: _, [], out => some out.reverse
  | bs, st :: rest, (m, ov) :: ms, out =>
    match specStep bs st with
    | none => none
    | some (bs', s) =>
      -- a spec computed by the model side (variable-length buckets) takes precedence
      let tok := match ov with | some o => o | none => s.getD m
      runSpec bs' rest ms (tok :: out)

def storeOp : Op := fun args =>
  match args with
  | [] => badArgs
  | _ :: steps =>
    match runSteps [] steps [] [] [] with
    | none => "M:unsupported"
    | some (out, ov, hy) =>
      let m := " ".intercalate out
      match runSpec [] steps (out.zip ov) [] with
      | none => s!"M:{m}"
      | some sp =>
        -- `@` = token-wise spec with `*` wildcards (and no `V=bad` verdict anywhere in the line)
        let pre := if sp.any (· == "*") then "@" else ""
        s!"M:{m}\tS:{pre}{" ".intercalate sp}\tH:{",".intercalate hy.eraseDups}"

def ops : OpTable := [("store", storeOp)]

end Mkts.Driver.Store
