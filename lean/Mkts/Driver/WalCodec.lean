import Mkts.Proto
import Mkts.Model.WalCodec
/-! Driver ops for the WAL codec model (C28; `tgparse` is shared with C06). -/
namespace Mkts.Driver.WalCodec
open Mkts.Proto Mkts.Bytes Mkts.WalCodec

/-- shapes token: `namehex/typ,namehex/typ` or `-` -/
def parseShapes (s : String) : Option (List DataShape) :=
  if s == "-" || s == "" then some [] else
  (s.splitOn ",").mapM (fun p => match p.splitOn "/" with
    | [n, t] => do pure { name := (← hexToBytes n), typ := (← parseNat t) }
    | _ => none)

def showShapes (l : List DataShape) : String :=
  if l.isEmpty then "-" else ",".intercalate (l.map fun d => bytesToHex d.name ++ "/" ++ toString d.typ)

/-- command token `rt:pathhex:varreclen:offset:index:datahex:shapes` -/
def parseCmd (s : String) : Option WriteCommand :=
  match s.splitOn ":" with
  | [rt, p, v, o, i, d, sh] => do
    pure { recordType := (← parseInt rt), path := (← hexToBytes p), varRecLen := (← parseInt v),
           offset := (← parseInt o), index := (← parseInt i), data := (← hexToBytes d),
           shapes := (← parseShapes sh) }
  | _ => none

def parseCmds (s : String) : Option (List WriteCommand) :=
  if s == "-" || s == "" then some [] else (s.splitOn ";").mapM parseCmd

def rootR : Bytes := [47, 114]  -- "/r"

def showWTSet (w : WTSet) : String :=
  s!"{w.recordType}:{bytesToHex (fullPath rootR w.key)}:{w.dataLen}:{w.varRecLen}:{bytesToHex w.buffer}:{showShapes w.shapes}"

def showDec (r : Except Panic (Int × List WTSet)) : String :=
  match r with
  | .error p => p.str
  | .ok (id, ws) => s!"{id}|" ++ (if ws.isEmpty then "-" else ";".intercalate (ws.map showWTSet))

/-- failed width hypotheses of `C28_partial`, by class -/
def widthHyps (c : WriteCommand) : List String :=
  (if c.path.length ≥ 2 ^ 15 then ["path_ge_2p15"] else []) ++
  (if c.data.length ≥ 2 ^ 31 then ["data_ge_2p31"] else []) ++
  (if c.varRecLen < -2 ^ 31 ∨ c.varRecLen ≥ 2 ^ 31 then ["varreclen_not_int32"] else []) ++
  (if c.shapes.length = 0 then ["cols_0"] else []) ++
  (if c.shapes.length > 255 then ["cols_gt_255"] else []) ++
  (if c.shapes.any (fun d => d.name.length > 255) then ["name_gt_255"] else [])

/-- hypotheses whose failure is outside what the write path can produce (no Epoch column, key path
longer than PATH_MAX, record length beyond int32): the property does not speak about them -/
def outOfDomain (h : String) : Bool := h == "path_ge_2p15" || h == "data_ge_2p31" || h == "varreclen_not_int32" || h == "cols_0"

/-- `tgrt <tgid> <cmds>` : serialise, parse back -/
def tgrtOp : Op := fun args =>
  match args with
  | [ids, cs] =>
    match parseInt ids, parseCmds cs with
    | some id, some cmds =>
      let ser := serializeTG id cmds
      let m := s!"M:ser={bytesToHex ser} dec={showDec (parseTGData ser)}"
      let hy := (cmds.flatMap widthHyps).eraseDups
      let spec := s!"S:~dec={showDec (.ok (id, cmds.map toWTSet))}"
      if hy.any outOfDomain then m
      else m ++ "\t" ++ spec ++ "\tH:" ++ ",".intercalate hy
    | _, _ => badArgs
  | _ => badArgs

/-- `tgparse <hex>` : `ParseTGData` on arbitrary bytes -/
def tgparseOp : Op := fun args =>
  match args with
  | [h] =>
    match hexToBytes h with
    | some b => s!"M:dec={showDec (parseTGData b)}"
    | none => badArgs
  | _ => badArgs

def ops : OpTable := [("tgrt", tgrtOp), ("tgparse", tgparseOp)]

end Mkts.Driver.WalCodec
