/-!
# Readers against the primary-file writer (C18): variable- and fixed-length buckets

Mirrors `executor/writer.go` (`WriteBufferToFile`, `WriteBufferToFileIndirect`),
`executor/scanner.go` (first stage: index read) and `executor/readvariable.go` (second stage: blob
read + decode) at the granularity of the file operations that other processes/threads can observe.

* A variable-length bucket file = index slots `{Index, Offset, Len}` + a data area of blobs.
  `WriteBufferToFileIndirect` = read the slot, read + decode the old blob, append the new records,
  stable-sort by interval ticks, encode, then **write the blob** (`varWriteData`) and afterwards
  **write the slot** (`varWriteIdx`).  If the old blob ends exactly at the end of the file the new
  blob is written IN PLACE over it (continuation write), otherwise at the end of the file.
* A reader = `readIdx` (all slots) then one `readBlob` + decode per slot.
* snappy is a `Codec` (`enc`, `dec`); theorems assume nothing about `dec` on non-codewords.
  `idCodec` IS the code under `DisableVariableCompression`; `framedCodec` (length header) stands in
  for snappy in the executable driver: like snappy it rejects every proper prefix / extension of a
  codeword.
* The writer is a deterministic machine (`wstep`): one call = one file-mutating atom.
Offsets are relative to the start of the data area.  Core Lean only.
-/
namespace Mkts.RC

abbrev Bytes := List UInt8

structure Codec where
  enc : Bytes → Bytes
  dec : Bytes → Option Bytes

def Codec.Lawful (c : Codec) : Prop := ∀ x, c.dec (c.enc x) = some x

/-- `DisableVariableCompression: true` -/
def idCodec : Codec := ⟨id, some⟩

/-- unary length header, `0`, body: decodes only exact codewords -/
def framedCodec : Codec :=
  ⟨fun x => List.replicate x.length 1 ++ [0] ++ x,
   fun b =>
     let n := (b.takeWhile (· == 1)).length
     match b.drop n with
     | 0 :: body => if body.length = n then some body else none
     | _ => none⟩

structure Entry where
  slot : Nat
  off : Nat
  len : Nat
deriving DecidableEq, Repr

structure VFile where
  idx : List Entry
  data : Bytes
deriving DecidableEq, Repr

def slice (d : Bytes) (off len : Nat) : Bytes := (d.drop off).take len

/-- `pwrite(data, off)` for `off ≤ |d|`: overwrite, extending the file if needed -/
def pwrite (d : Bytes) (off : Nat) (b : Bytes) : Bytes := d.take off ++ b ++ d.drop (off + b.length)

def lookup (slot : Nat) : List Entry → Option Entry
  | [] => none
  | e :: rest => if e.slot = slot then some e else lookup slot rest

/-- write the slot; slots are kept in file (= slot) order -/
def upsert (e : Entry) : List Entry → List Entry
  | [] => [e]
  | x :: rest =>
    if x.slot = e.slot then e :: rest
    else if e.slot < x.slot then e :: x :: rest
    else x :: upsert e rest

/-! ## records, sorting by interval ticks -/

def chunks (n : Nat) : Nat → Bytes → List Bytes
  | 0, _ => []
  | fuel + 1, b => if n = 0 ∨ b.length < n then [] else b.take n :: chunks n fuel (b.drop n)

def leNat : Bytes → Nat
  | [] => 0
  | x :: rest => x.toNat + 256 * leNat rest

/-- interval ticks of a record: its last four bytes, little endian -/
def ticksOf (r : Bytes) : Nat := leNat (r.drop (r.length - 4))

def insertRec (r : Bytes) : List Bytes → List Bytes
  | [] => [r]
  | x :: rest => if ticksOf r < ticksOf x then r :: x :: rest else x :: insertRec r rest

/-- `sort.Stable(NewByIntervalTicks(buf, len/recLen, recLen))`: whole records sorted, a trailing
    partial record stays where it is -/
def sortRecs (recLen : Nat) (b : Bytes) : Bytes :=
  let cs := chunks recLen b.length b
  let sorted := cs.foldl (fun acc r => insertRec r acc) []
  sorted.flatten ++ b.drop (cs.length * recLen)

/-! ## the writer -/

structure Write where
  slot : Nat
  recs : Bytes
deriving DecidableEq, Repr

/-- `WriteBufferToFileIndirect` up to and including the data write.
    `none` = decoding the old blob failed (the write is abandoned with an error).
    Result: file after the data write, the slot triple to be written, "was written in place". -/
def varWriteData (c : Codec) (recLen : Nat) (f : VFile) (w : Write) : Option (VFile × Entry × Bool) :=
  let cur := lookup w.slot f.idx
  let old : Option Bytes := match cur with
    | some e => c.dec (slice f.data e.off e.len)
    | none => some []
  match old with
  | none => none
  | some o =>
    let comp := c.enc (sortRecs recLen (o ++ w.recs))
    let inPlace : Bool := match cur with
      | some e => e.off + e.len == f.data.length
      | none => false
    let target := match cur with
      | some e => if e.off + e.len == f.data.length then e.off else f.data.length
      | none => f.data.length
    some ({ f with data := pwrite f.data target comp }, ⟨w.slot, target, comp.length⟩, inPlace)

/-- the index write -/
def varWriteIdx (f : VFile) (e : Entry) : VFile := { f with idx := upsert e f.idx }

structure WState where
  file : VFile
  pending : Option (Entry × Bool)     -- data written, slot not yet written; Bool = in place
  queue : List Write
deriving DecidableEq, Repr

/-- one file-mutating atom of the writer -/
def wstep (c : Codec) (recLen : Nat) (s : WState) : WState :=
  match s.pending with
  | some (e, _) => { s with file := varWriteIdx s.file e, pending := none }
  | none =>
    match s.queue with
    | [] => s
    | w :: rest =>
      match varWriteData c recLen s.file w with
      | none => { s with queue := rest }
      | some (f', e, ip) => { file := f', pending := some (e, ip), queue := rest }

def iter (c : Codec) (recLen : Nat) : Nat → WState → WState
  | 0, s => s
  | n + 1, s => iter c recLen n (wstep c recLen s)

/-- the state in which a continuation write has overwritten the blob but not yet the slot -/
def WState.inPlaceMid (s : WState) : Bool :=
  match s.pending with
  | some (_, ip) => ip
  | none => false

/-! ## the reader -/

inductive Err | corrupt | eof
deriving DecidableEq, Repr

abbrev View := List (Nat × List Bytes)

instance {ε α : Type} [DecidableEq ε] [DecidableEq α] : DecidableEq (Except ε α) := fun a b =>
  match a, b with
  | .ok x, .ok y => if h : x = y then isTrue (by rw [h]) else isFalse (by intro e; cases e; exact h rfl)
  | .error x, .error y => if h : x = y then isTrue (by rw [h]) else isFalse (by intro e; cases e; exact h rfl)
  | .ok _, .error _ => isFalse (by intro e; cases e)
  | .error _, .ok _ => isFalse (by intro e; cases e)

/-- second stage for one slot: `ReadAt(len bytes at off)`, decode, cut into records -/
def readBlob (c : Codec) (recLen : Nat) (d : Bytes) (e : Entry) : Except Err (Nat × List Bytes) :=
  if e.off + e.len > d.length then .error .eof else
  match c.dec (slice d e.off e.len) with
  | none => .error .corrupt
  | some b => .ok (e.slot, chunks recLen b.length b)

/-- the reader: slots from `fIdx`, the j-th blob from the data area `datas j` -/
def readWith (c : Codec) (recLen : Nat) (datas : Nat → Bytes) : Nat → List Entry → Except Err View
  | _, [] => .ok []
  | j, e :: rest =>
    match readBlob c recLen (datas j) e with
    | .error x => .error x
    | .ok r =>
      match readWith c recLen datas (j + 1) rest with
      | .error x => .error x
      | .ok rs => .ok (r :: rs)

/-- a query that runs entirely against one file state -/
def view (c : Codec) (recLen : Nat) (f : VFile) : Except Err View :=
  readWith c recLen (fun _ => f.data) 0 f.idx

/-- a query interleaved with the writer: `readIdx` after `a` writer atoms, the j-th blob after
    `b j` writer atoms -/
def query (c : Codec) (recLen : Nat) (s0 : WState) (a : Nat) (b : Nat → Nat) : Except Err View :=
  readWith c recLen (fun j => (iter c recLen (b j) s0).file.data) 0 (iter c recLen a s0).file.idx

/-! ## fixed-length buckets: one record = one `pwrite` of index + payload -/

abbrev FFile := List (Nat × Bytes)     -- slot ↦ record

def fput (slot : Nat) (r : Bytes) : FFile → FFile
  | [] => [(slot, r)]
  | (s, x) :: rest =>
    if s = slot then (slot, r) :: rest
    else if slot < s then (slot, r) :: (s, x) :: rest
    else (s, x) :: fput slot r rest

def fget (slot : Nat) : FFile → Option Bytes
  | [] => none
  | (s, x) :: rest => if s = slot then some x else fget slot rest

/-- file after the first `n` record writes (`WriteBufferToFile` = one `WriteAt` each) -/
def fiter : Nat → FFile → List (Nat × Bytes) → FFile
  | 0, f, _ => f
  | _ + 1, f, [] => f
  | n + 1, f, (s, r) :: ws => fiter n (fput s r f) ws

/-- a reader that reads slot `s` after `b s` record writes -/
def fquery (f0 : FFile) (ws : List (Nat × Bytes)) (b : Nat → Nat) (slots : List Nat) : List (Nat × Option Bytes) :=
  slots.map (fun s => (s, fget s (fiter (b s) f0 ws)))

end Mkts.RC
