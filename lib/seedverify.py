#!/usr/bin/env python3
"""Confirms one seeded change in a scratch worktree of /repo:
   demo passes on HEAD, patch applies, builds, demo fails with the patch, full test suite passes
   with the patch (demo files removed).  usage: seedverify.py <Cxx> <variant> [--no-suite]
   Result: /work/sv/results/<Cxx><variant>.json ; the worktree is removed afterwards."""
import json, os, shutil, subprocess, sys, time
pid, var = sys.argv[1], sys.argv[2]
nosuite = "--no-suite" in sys.argv
src = "/work/seed/%s/SEED" % pid
if not os.path.isdir(src):
    src = "/verif/seeded_in/%s/SEED" % pid
wt = "/work/sv/%s%s" % (pid, var)
os.makedirs("/work/sv/results", exist_ok=True)
env = dict(os.environ, GOFLAGS="-mod=mod", GOPROXY="off", GOSUMDB="off", GOTOOLCHAIN="local")


def sh(cmd, timeout=3600):
    t0 = time.time()
    try:
        p = subprocess.run(["bash", "-c", cmd], cwd=wt, env=env, capture_output=True, text=True, timeout=timeout)
        return p.returncode, (p.stdout + p.stderr)[-6000:], time.time() - t0
    except subprocess.TimeoutExpired:
        return 124, "timeout", time.time() - t0


res = {"property": pid, "variant": var}
if os.path.exists(wt):
    subprocess.run(["git", "-C", "/repo", "worktree", "remove", "--force", wt])
subprocess.run(["git", "-C", "/repo", "worktree", "add", "--detach", wt, "HEAD"], check=True, capture_output=True)
try:
    shutil.copytree(src, os.path.join(wt, "SEED"))
    if not os.path.exists(os.path.join(wt, "SEED", "go.mod")):
        open(os.path.join(wt, "SEED", "go.mod"), "w").write("module seed\n")
    meta = json.load(open(os.path.join(src, var, "meta.json")))
    cmd = meta.get("demo_cmd", "")
    if "go " not in cmd:
        for fn in ("README", "README.txt", "README.md"):
            p = os.path.join(src, var, "demo", fn)
            if os.path.exists(p):
                cmd = open(p).read().strip().splitlines()[0]
    res["demo_cmd"] = cmd
    rc, out, dt = sh(cmd, 1800)
    res["demo_on_head"] = {"rc": rc, "secs": round(dt), "tail": out[-1500:]}
    rc, out, _ = sh("git apply SEED/%s/patch.diff" % var)
    res["patch_applies"] = rc == 0
    if rc != 0:
        res["apply_out"] = out
    rc, out, _ = sh("go build ./...")
    res["builds"] = rc == 0
    rc, out, dt = sh(cmd, 1800)
    res["demo_with_change"] = {"rc": rc, "secs": round(dt), "tail": out[-2500:]}
    # remove demo files from the tree (untracked files outside SEED)
    sh("git clean -fdq -e SEED")
    if not nosuite:
        rc, out, dt = sh("go test -vet=off -count=1 -p 4 -timeout 90m ./... 2>&1 | grep -v 'no test files' | grep -v '^ok' ", 3 * 3600)
        fails = [l for l in out.splitlines() if l.startswith("FAIL") or l.startswith("--- FAIL") or l.startswith("panic:")]
        pk = [l.split()[1] for l in out.splitlines() if l.startswith("FAIL\t") and len(l.split()) > 1]
        other = [x for x in pk if not x.endswith("contrib/gdaxfeeder")]
        res["suite"] = {"secs": round(dt), "fail_lines": fails, "failed_packages": pk, "passes_except_gdax": len(other) == 0}
    res["confirmed"] = bool(res["demo_on_head"]["rc"] == 0 and res["patch_applies"] and res["builds"]
                            and res["demo_with_change"]["rc"] != 0 and (nosuite or res["suite"]["passes_except_gdax"]))
except Exception as e:
    res["error"] = repr(e)
    res["confirmed"] = False
finally:
    subprocess.run(["git", "-C", "/repo", "worktree", "remove", "--force", wt], capture_output=True)
json.dump(res, open("/work/sv/results/%s%s.json" % (pid, var), "w"), indent=1)
print(pid, var, "confirmed" if res.get("confirmed") else "NOT CONFIRMED", json.dumps({k: v for k, v in res.items() if k in ("patch_applies", "builds", "error")}))
