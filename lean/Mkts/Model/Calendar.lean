import Mkts.Model.Time
/-!
# Month calendar and ISO weeks (extends `Mkts.Model.Time`; models Go's `Time.Date`, `Time.Month`,
`time.Date(y, m, 1, …)` and `Time.ISOWeek` on top of the day-count calendar `jan1 / yearOfDays`)

Days are `Int` days since 1970-01-01 (proleptic Gregorian).  Core Lean only.
-/
namespace Mkts.Time

/-- 1 if `y` is a leap year else 0 -/
def leapDays (y : Int) : Int := if isLeap y then 1 else 0

/-- number of days of year `y` before the first of month `m` (1..12; 13 = whole year) -/
def cumDays (y m : Int) : Int :=
  if m ≤ 1 then 0 else if m = 2 then 31
  else if m = 3 then 59 + leapDays y else if m = 4 then 90 + leapDays y
  else if m = 5 then 120 + leapDays y else if m = 6 then 151 + leapDays y
  else if m = 7 then 181 + leapDays y else if m = 8 then 212 + leapDays y
  else if m = 9 then 243 + leapDays y else if m = 10 then 273 + leapDays y
  else if m = 11 then 304 + leapDays y else if m = 12 then 334 + leapDays y
  else 365 + leapDays y

/-- month (1..12) containing the 0-based day-of-year `yd` of year `y` -/
def monthOfYday (y yd : Int) : Int :=
  if yd < 31 then 1 else if yd < 59 + leapDays y then 2
  else if yd < 90 + leapDays y then 3 else if yd < 120 + leapDays y then 4
  else if yd < 151 + leapDays y then 5 else if yd < 181 + leapDays y then 6
  else if yd < 212 + leapDays y then 7 else if yd < 243 + leapDays y then 8
  else if yd < 273 + leapDays y then 9 else if yd < 304 + leapDays y then 10
  else if yd < 334 + leapDays y then 11 else 12

/-- civil month (1..12) of day number `d` -/
def monthOfDays (d : Int) : Int := monthOfYday (yearOfDays d) (d - jan1 (yearOfDays d))

/-- day number of the first day of month `m` of year `y` -/
def monthStartDays (y m : Int) : Int := jan1 y + cumDays y m

/-- day number of the first day of the civil month containing day `d`
    (`time.Date(t.Year(), t.Month(), 1, …)`) -/
def monthFloorDays (d : Int) : Int := monthStartDays (yearOfDays d) (monthOfDays d)

/-- day number of the first day of the following civil month (the `Ceil` of suffix `M`:
    December rolls over to January of the next year) -/
def monthCeilDays (d : Int) : Int :=
  let y := yearOfDays d
  let m := monthOfDays d
  if m = 12 then monthStartDays (y + 1) 1 else monthStartDays y (m + 1)

/-- weekday of day number `d`, Monday = 0 … Sunday = 6 (1970-01-01 was a Thursday) -/
def weekdayMon0 (d : Int) : Int := (d + 3) % 7

/-- day number of the Thursday of the ISO week containing `d` -/
def isoThursday (d : Int) : Int := d - weekdayMon0 d + 3

/-- `Time.ISOWeek()`: (ISO year, ISO week number) -/
def isoWeek (d : Int) : Int × Int :=
  let th := isoThursday d
  let y := yearOfDays th
  (y, (th - jan1 y) / 7 + 1)

end Mkts.Time
