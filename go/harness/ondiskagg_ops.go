package main

// C24: on-disk aggregation matches the base data.
//
// op `oda <dest1,dest2,...> <step> <step> ...`
//   A REAL in-process instance with the REAL trigger contrib/ondiskagg/aggtrigger (NewTrigger with
//   the given destinations, no market-hours filter) injected as matcher `*/1Min/OHLCV` through
//   Container.InjectTriggerMatchers before startup.  Steps are `store` steps (normally
//   `W:<sym>/1Min/OHLCV:f:Open=float32,High=float32,Low=float32,Close=float32,Volume=int32:rows`).
//   After every step the dispatcher is drained deterministically (drainTriggers in trigger_ops.go:
//   barrier through the channel + triggerWg.Wait, repeated because the trigger's own WriteCSM
//   flushes enqueue further elements) and every destination bucket of the step's symbol is read
//   back in full through the query API:
//       <step result>{<Q result dest1>|<Q result dest2>|...}
//   `oda` with an unusable configuration answers `err:newtrigger`.

import (
	"fmt"
	"math"
	"os"
	"sort"
	"strings"
	"time"

	"github.com/alpacahq/marketstore/v4/contrib/ondiskagg/aggtrigger"
	"github.com/alpacahq/marketstore/v4/plugins/trigger"
	"github.com/alpacahq/marketstore/v4/utils/log"
)

const odaCols = "Open=float32,High=float32,Low=float32,Close=float32,Volume=int32"

func odaRun(a []string) string {
	if len(a) < 1 {
		panic("bad-arg oda")
	}
	var dests []interface{}
	var destNames []string
	if a[0] != "-" {
		for _, d := range strings.Split(a[0], ",") {
			dests = append(dests, d)
			destNames = append(destNames, d)
		}
	}
	root := scratchDir("oda")
	defer os.RemoveAll(root)
	conf := map[string]interface{}{"destinations": dests}
	// the trigger only needs executor.ThisInstance at Fire time, so it can be built before startup
	log.SetLevel(log.FATAL)
	trig, err := aggtrigger.NewTrigger(conf)
	if err != nil || trig == nil {
		return "err:newtrigger"
	}
	ms := []*trigger.Matcher{trigger.NewMatcher(trig, "*/1Min/OHLCV")}
	in, d := startInstTrig(root, nil, ms)
	defer in.abandon()
	var out []string
	for _, step := range a[1:] {
		res := safeStep(in, step)
		if !drainTriggers(d) {
			return strings.Join(append(out, res+"{drain-timeout}"), " ")
		}
		f := strings.Split(step, ":")
		sym := "T"
		if len(f) > 1 {
			sym = strings.SplitN(f[1], "/", 2)[0]
		}
		var qs []string
		seen := map[string]bool{}
		for _, dn := range destNames {
			if seen[dn] {
				continue
			}
			seen[dn] = true
			qs = append(qs, safeStep(in, "Q:"+sym+"/"+dn+"/OHLCV:-:-:-:-:-:-:-"))
		}
		out = append(out, res+"{"+strings.Join(qs, "|")+"}")
	}
	return strings.Join(out, " ")
}

// odaOp runs the scenario on two fresh instances and answers their common result; if they differ a
// third run decides (majority), and three different answers are reported as `nondet:`.
// Why: three times in ~12000 scenario runs, always at a machine load average around 200, the real
// trigger answered a cache hit as if the cached series held no rows (the destination window was
// aggregated from the written rows only) although the same op line replays identically hundreds of
// times, with the collector on, off (debug.SetGCPercent(-1)) or at GOGC=1.  The cause is not identified (notes/C24.md); the
// deviation is not a deterministic function of the history, which is all property C24 quantifies
// over, so it is voted away here and reported as an observation.  VERIF_ODA_ONCE=1 disables the vote.
func odaOp(a []string) string {
	r1 := odaRun(a)
	if os.Getenv("VERIF_ODA_ONCE") != "" {
		return r1
	}
	r2 := odaRun(a)
	if r1 == r2 {
		return r1
	}
	r3 := odaRun(a)
	if r3 == r1 || r3 == r2 {
		return r3
	}
	return "nondet:" + r1
}

// ---- generator ---------------------------------------------------------------------------

func odaF32(f float32) uint32 { return math.Float32bits(f) }

func le32(v uint32) []byte { return []byte{byte(v), byte(v >> 8), byte(v >> 16), byte(v >> 24)} }

type odaBar struct {
	t          int64
	o, h, l, c uint32
	v          int32
}

func (b odaBar) row() string {
	var p []byte
	p = append(p, le32(b.o)...)
	p = append(p, le32(b.h)...)
	p = append(p, le32(b.l)...)
	p = append(p, le32(b.c)...)
	p = append(p, le32(uint32(b.v))...)
	return fmt.Sprintf("%d,0,%s", b.t, hx(p))
}

func odaWrite(sym string, bars []odaBar) string {
	var rows []string
	for _, b := range bars {
		rows = append(rows, b.row())
	}
	return "W:" + sym + "/1Min/OHLCV:f:" + odaCols + ":" + strings.Join(rows, "+")
}

func (g *Gen) odaPrice() uint32 {
	switch g.Intn(400) {
	case 0:
		return 0x7fc00000 // NaN (outside the property's domain: model only)
	case 1, 2:
		return 0x80000000 // -0
	case 3, 4, 5, 6:
		return odaF32(-float32(g.Intn(50)))
	case 7:
		return 0x7f800000 // +Inf
	case 8:
		return 0xff800000 // -Inf
	}
	return odaF32(float32(g.Intn(400)) / 4)
}

func (g *Gen) odaBar(t int64) odaBar {
	b := odaBar{t: t, o: g.odaPrice(), h: g.odaPrice(), l: g.odaPrice(), c: g.odaPrice()}
	switch g.Intn(300) {
	case 0:
		b.v = math.MaxInt32 - int32(g.Intn(3)) // window sum overflows: SumInt32 panics
	case 1:
		b.v = -int32(1 + g.Intn(5)) // negative volume: MaxInt32 - val wraps, SumInt32 panics
	default:
		b.v = int32(g.Intn(1000))
	}
	return b
}

var odaDestSets = [][]string{
	{"5Min"}, {"5Min", "15Min"}, {"15Min", "5Min"}, {"5Min", "1H"}, {"5Min", "15Min", "1H"}, {"30Min"},
	{"15Min"}, {"1H", "5Min"}, {"5Min", "5Min"},
}

func genC24(g *Gen) {
	base := int64(1583056800) // 2020-03-01 10:00:00 UTC
	n := g.N(220, 2400)
	for i := 0; i < n; i++ {
		tags := map[string]bool{}
		var dests []string
		switch k := g.Intn(40); {
		case k == 0:
			dests = [][]string{{"5T"}, {"5Min", "1T"}, {"90T", "5Min"}, {"5Foo"}, {}, {"5Min", "xx"}, {"1D"}, {"5Min", "1D"}}[g.Intn(8)]
			tags["dest:odd"] = true
		default:
			dests = odaDestSets[g.Intn(len(odaDestSets))]
			tags[fmt.Sprintf("dest:n%d", len(dests))] = true
		}
		ds := "-"
		if len(dests) > 0 {
			ds = strings.Join(dests, ",")
		}
		ns := 1 + g.Intn(5)
		var steps []string
		origin := base + int64(g.Intn(3))*3600
		if g.Intn(12) == 0 {
			origin = 1577836800 - 600 // straddling the year boundary
			tags["hist:yearedge"] = true
		}
		cursor := origin + int64(g.Intn(4))*60
		var written []int64
		for s := 0; s < ns; s++ {
			var bars []odaBar
			switch k := g.Intn(12); {
			case k < 4: // in order, continuing after the previous write
				m := 1 + g.Intn(4)
				for j := 0; j < m; j++ {
					bars = append(bars, g.odaBar(cursor))
					cursor += 60 * int64(1+g.Intn(2))
				}
				tags["w:inorder"] = true
			case k < 6 && len(written) > 0: // correction of a bar already written
				t := written[g.Intn(len(written))]
				bars = append(bars, g.odaBar(t))
				if g.Intn(3) == 0 {
					bars = append(bars, g.odaBar(cursor))
					cursor += 60
				}
				sort.Slice(bars, func(i, j int) bool { return bars[i].t < bars[j].t })
				tags["w:correction"] = true
			case k < 8: // spanning several windows, possibly starting in an earlier window
				start := cursor - int64(g.Intn(12))*60
				m := 2 + g.Intn(4)
				for j := 0; j < m; j++ {
					bars = append(bars, g.odaBar(start))
					start += 60 * int64(1+g.Intn(6))
				}
				if start > cursor {
					cursor = start
				}
				tags["w:spanning"] = true
			case k < 9: // late arrival: an earlier minute
				t := cursor - 60*int64(1+g.Intn(20))
				bars = append(bars, g.odaBar(t))
				tags["w:late"] = true
			case k < 10: // rows not in time order inside one request (head > tail possible)
				m := 2 + g.Intn(3)
				for j := 0; j < m; j++ {
					bars = append(bars, g.odaBar(cursor+60*int64(g.Intn(12))-300))
				}
				tags["w:unordered"] = true
			case k < 11: // far ahead: another hour
				cursor += 3600 * int64(1+g.Intn(2))
				bars = append(bars, g.odaBar(cursor))
				cursor += 60
				tags["w:jump"] = true
			default: // seconds inside the minute, duplicates of one slot in one request
				bars = append(bars, g.odaBar(cursor+int64(g.Intn(60))))
				bars = append(bars, g.odaBar(cursor+int64(g.Intn(60))))
				cursor += 60
				tags["w:sameslot"] = true
			}
			// one request stays inside one year file: the dispatcher would start one trigger call
			// per file CONCURRENTLY (shared cache, not deterministic)
			{
				y0 := time.Unix(bars[0].t, 0).UTC().Year()
				kept := bars[:0]
				for _, b := range bars {
					if time.Unix(b.t, 0).UTC().Year() == y0 {
						kept = append(kept, b)
					}
				}
				bars = kept
			}
			for _, b := range bars {
				written = append(written, b.t-b.t%60)
			}
			sym := "T"
			if g.Intn(25) == 0 {
				sym = "U" // another symbol: its own cache entry and destination buckets
				tags["w:othersym"] = true
			}
			steps = append(steps, odaWrite(sym, bars))
		}
		if g.Intn(30) == 0 {
			steps = append(steps, "W:T/1Min/OHLC:f:"+odaCols+":"+g.odaBar(base).row())
			tags["w:nonmatching-bucket"] = true
		}
		tags[fmt.Sprintf("nsteps:%d", len(steps))] = true
		var tl []string
		for t := range tags {
			tl = append(tl, t)
		}
		sort.Strings(tl)
		g.Emit("oda "+ds+" "+strings.Join(steps, " "), tl...)
	}
}

func init() {
	ops["oda"] = odaOp
	slowOps["oda"] = true
	gens["C24"] = genC24
}
