import Mkts.Lemmas.SqlCS
import Mkts.Model.SqlTie
import Mkts.Props.C08
/-!
# C20 — SQL projection, alias, LIMIT and INSERT INTO behave relationally (fixed-length buckets)

Model: `materializeSelect` (SourceValidator, the one-pass projection/alias step, RestrictLength —
also for `LIMIT 0` —, LIMIT push-down only without predicates; the code after the repairs of
C20-F1 and C20-F2, pinned over the regenerated skeletons by `skel_*`) and `materializeInsert` (→ `WriteCSM` → `writeRecords` of the Store model).
INSERT re-uses the Store model for the target bucket, so `C20_insert` inherits C08's exclusion
(1D buckets on January 1: stated for sub-day timeframes).
-/
namespace Mkts.Props.C20
open Mkts.Sql Mkts.Store Mkts.Time Mkts.Bytes Mkts.Props

/-! ## projection -/

/-- the projected series lists exactly the requested columns, in the requested order -/
theorem C20_project_names (cs : CS) (keep : List String) (h : ∀ n ∈ keep, (cs.get n).isSome) :
    (cs.project keep).names = keep := project_names cs keep h

/-- … and each of them carries the source column's data, unchanged -/
theorem C20_project_data (cs : CS) (keep : List String) (n : String) (hn : n ∈ keep) (d : List Bytes)
    (hd : cs.get n = some d) : (cs.project keep).get n = some d := project_get cs keep n hn d hd

/-! ## tie: the statements of the source the repaired behaviour rests on -/

set_option maxRecDepth 20000 in
theorem skel_limit_clause : Mkts.SqlTie.limitClauseRecorded = true := by decide
set_option maxRecDepth 20000 in
theorem skel_projection_one_pass : Mkts.SqlTie.projectionOnePass = true := by decide

/-! ## LIMIT -/

/-- **LIMIT n = the first n rows of the filtered result, for every n (0 included)**, whether or not
    the limit is pushed down into the reader (it is only without predicates and for n ≠ 0). -/
theorem C20_limit (db : List Table) (t : Table) (key : String) (conj : List Conj) (n : Nat)
    (hfind : findTable db key = some t)
    (hnf : (buildGroup conj).any (fun e => e.2.isFalse) = false) :
    materializeSelect db ⟨true, [], key, conj, n, true⟩ =
      .ok (csOfRows t.cols ((selectRows t (buildGroup conj) 0).take n)) := by
  simp only [materializeSelect, hnf, hfind, Bool.false_eq_true, if_false, Bool.not_true, Bool.false_and,
    Bool.true_or, if_true]
  by_cases hn : n = 0
  · subst hn
    rw [restrictLength_csOfRows]
    simp only [List.take_zero]
    split <;> rfl
  have hn' : (n != 0) = true := by simpa using hn
  cases hg : buildGroup conj with
  | nil =>
    have hread0 : readRows t [] 0 = query t.tf t.slots ⟨none, none, none⟩ := by
      simp [readRows, pushdown, Group.get]
    have hreadn : readRows t [] n = (query t.tf t.slots ⟨none, none, none⟩).take n := by
      simp only [readRows, pushdown, Group.get, List.find?_nil, Option.map_none, List.isEmpty_nil, hn',
        Bool.and_self, if_true]
      rfl
    simp only [selectRows, postFilter_nil, hreadn, hread0]
    cases he : ((query t.tf t.slots ⟨none, none, none⟩).take n).isEmpty with
    | true =>
      have : (query t.tf t.slots ⟨none, none, none⟩).take n = [] := List.isEmpty_iff.mp he
      simp [this]
    | false =>
      simp only [Bool.false_eq_true, if_false]
      rw [restrictLength_csOfRows, List.take_take, Nat.min_self]
  | cons e rest =>
    have hread : readRows t (e :: rest) n = readRows t (e :: rest) 0 := by
      simp [readRows]
    simp only [selectRows, hread]
    cases he : (readRows t (e :: rest) 0).isEmpty with
    | true =>
      have : readRows t (e :: rest) 0 = [] := List.isEmpty_iff.mp he
      simp [this, postFilter, restrict]
    | false =>
      simp only [Bool.false_eq_true, if_false]
      rw [restrictLength_csOfRows]

/-- without a LIMIT clause every filtered row is returned -/
theorem C20_no_limit (db : List Table) (t : Table) (key : String) (conj : List Conj)
    (hfind : findTable db key = some t)
    (hnf : (buildGroup conj).any (fun e => e.2.isFalse) = false) :
    materializeSelect db ⟨true, [], key, conj, 0, false⟩ =
      .ok (csOfRows t.cols (selectRows t (buildGroup conj) 0)) := by
  simp only [materializeSelect, hnf, hfind, Bool.false_eq_true, if_false, Bool.not_true, Bool.false_and,
    Bool.false_or, bne_self_eq_false]
  cases he : (readRows t (buildGroup conj) 0).isEmpty with
  | true =>
    have : readRows t (buildGroup conj) 0 = [] := List.isEmpty_iff.mp he
    simp [selectRows, this, postFilter, restrict]
  | false => simp

def wT : Table := ⟨"T/1Min/OHLC", 60000000000, [⟨"A", .i32⟩, ⟨"B", .f32⟩],
  applyHist 60000000000 [[⟨1583056800, [1,0,0,0,0,0,0,0x3f]⟩, ⟨1583056860, [2,0,0,0,0,0,0xc0,0x3f]⟩]]⟩

/-- `LIMIT 0` on the witness: no rows (before the repair: both rows) -/
example : materializeSelect [wT] ⟨true, [], "T/1Min/OHLC", [], 0, true⟩ = .ok (csOfRows wT.cols []) := by decide

/-! ## aliases -/

theorem csOfRows_get_isSome (cols : List ColDef) (rows : List Row) (n : String)
    (h : n = "Epoch" ∨ cols.any (fun c => c.name == n) = true) : ((csOfRows cols rows).get n).isSome = true := by
  simp only [CS.get, csOfRows, Option.isSome_map, List.find?_cons]
  by_cases hE : ("Epoch" == n) = true
  · simp [hE]
  · have hE' : ("Epoch" == n) = false := by simpa using hE
    simp only [hE']
    rcases h with h | h
    · subst h; simp at hE
    · rw [List.find?_isSome]
      obtain ⟨c, hc, hcn⟩ := List.any_eq_true.mp h
      exact ⟨(c.name, _), List.mem_map.mpr ⟨c, hc, rfl⟩, hcn⟩

/-- **select list with aliases**: when the output names (alias, or the column's own name) are
    pairwise distinct and every item names Epoch or a column of the bucket, the statement returns
    exactly the output names in select-list order, each carrying the data of its source column —
    also when an alias is the name of another selected column (`SELECT Epoch AS A, A AS X`). -/
theorem C20_alias (db : List Table) (t : Table) (key : String) (conj : List Conj) (items : List Item)
    (hfind : findTable db key = some t)
    (hnf : (buildGroup conj).any (fun e => e.2.isFalse) = false)
    (hknown : ∀ it ∈ items, it.name = "Epoch" ∨ t.cols.any (fun c => c.name == it.name) = true)
    (hnd : (items.map Item.out).Nodup)
    (hrows : (readRows t (buildGroup conj) 0).isEmpty = false) :
    ∃ cs, materializeSelect db ⟨false, items, key, conj, 0, false⟩ = .ok cs ∧
      cs.names = items.map Item.out ∧
      ∀ it ∈ items, cs.get it.out = (csOfRows t.cols (selectRows t (buildGroup conj) 0)).get it.name := by
  have hk : ((items.map (·.name)).any fun n => n != "Epoch" && !(t.cols.any fun c => c.name == n)) = false := by
    rw [List.any_eq_false]
    intro n hn
    obtain ⟨it, hit, rfl⟩ := List.mem_map.mp hn
    rcases hknown it hit with h | h <;> simp [h]
  obtain ⟨out, hp, hnames, hget⟩ := projectOnePass_spec (csOfRows t.cols (selectRows t (buildGroup conj) 0)) items hnd
    (fun it hit => csOfRows_get_isSome _ _ _ (hknown it hit))
  refine ⟨out, ?_, hnames, hget⟩
  simp only [materializeSelect, hnf, hfind, hk, hrows, hp, Bool.false_eq_true, if_false, Bool.not_false,
    Bool.true_and, Bool.false_or, bne_self_eq_false]

/-- the former collision witnesses on the bucket `wT`: `SELECT Epoch AS A, A AS X` returns both
    columns; `SELECT A AS A` returns the column -/
example : materializeSelect [wT] ⟨false, [⟨"Epoch", some "A"⟩, ⟨"A", some "X"⟩], "T/1Min/OHLC", [], 0, false⟩ =
    .ok ⟨["A", "X"], [("A", [leInt 8 1583056800, leInt 8 1583056860]), ("X", [[1,0,0,0],[2,0,0,0]])]⟩ := by decide
example : materializeSelect [wT] ⟨false, [⟨"A", some "A"⟩], "T/1Min/OHLC", [], 0, false⟩ =
    .ok ⟨["A"], [("A", [[1,0,0,0],[2,0,0,0]])]⟩ := by decide

/-! ## INSERT INTO … SELECT -/

/-- store-level effect: the target after the insert is the target's history extended by ONE write
    request holding the rows handed to the writer -/
theorem C20_insert_store (tf : Int) (hist : List (List Row)) (rows : List Row) :
    applyCmds (applyHist tf hist) (writeRecords tf rows) = applyHist tf (hist ++ [rows]) :=
  applyHist_snoc tf hist rows

/-- **INSERT INTO t SELECT …**: querying the target afterwards returns the last-writer-wins table of
    its previous history plus the inserted rows — each row stamped with the start of the TARGET's
    interval it falls into (C08_stamp), one row per target interval (coarser timeframe: the last
    selected row of the interval wins).  Sub-day timeframes (C08's exclusion is 1D / January 1). -/
theorem C20_insert (tf : Int) (hist : List (List Row)) (rows : List Row) (htf : 0 < tf) (hd : tf ≠ dayNs) :
    query tf (applyCmds (applyHist tf hist) (writeRecords tf rows)) ⟨none, none, none⟩ =
      specAll tf (hist ++ [rows]) := by
  rw [C20_insert_store]
  exact C08.C08_subday tf (hist ++ [rows]) htf hd

/-- non-vacuity: 1Min source into an empty 5Min target with the same schema -/
example : materializeInsert [wT, ⟨"U/5Min/OHLC", 300000000000, [⟨"A", .i32⟩, ⟨"B", .f32⟩], []⟩]
    ⟨"U/5Min/OHLC", none, ⟨true, [], "T/1Min/OHLC", [], 0, false⟩⟩ =
    some (.ok (.written 2, [wT, ⟨"U/5Min/OHLC", 300000000000, [⟨"A", .i32⟩, ⟨"B", .f32⟩],
      [((2020, 17401), [2,0,0,0,0,0,0xc0,0x3f])]⟩])) := by decide

end Mkts.Props.C20
