#!/usr/bin/env python3
"""Prepares a scratch worktree of /repo and the prompt for a fresh seeding sub-agent.
usage: seedprep.py Cxx  -> prints the prompt (the agent sees only the property text + its worktree)"""
import json, os, subprocess, sys
pid = sys.argv[1]
prop = None
for l in open("/verif/properties.jsonl"):
    d = json.loads(l)
    if d["id"] == pid:
        prop = d
wt = "/work/seed/" + pid
if not os.path.exists(wt):
    subprocess.run(["git", "-C", "/repo", "worktree", "add", "--detach", wt, "HEAD"], check=True, capture_output=True)
text = "\n".join("%s: %s" % (k, json.dumps(prop[k]) if not isinstance(prop[k], str) else prop[k])
                 for k in ("id", "title", "statement", "quantifier", "why_tests_cant", "anchors") if k in prop)
print(f"""You are working alone in a scratch git worktree of the Go project alpacahq/marketstore (a time-series database server) at {wt}. Work ONLY inside {wt}: do not read, list or modify /repo, /verif, /work/b* or any other directory outside your worktree (the Go toolchain and module cache are fine). The sandbox is offline; start every shell command with:
  export GOFLAGS=-mod=mod GOPROXY=off GOSUMDB=off GOTOOLCHAIN=local

This is a property of the system that its users rely on:

{text}

YOUR TASK: play the part of a maintainer who introduces a plausible regression. Produce TWO independent code changes (A and B, at different places in the code or of different nature if at all possible) to the NON-TEST Go sources, each of which makes the property above FALSE, and each of which
  1. still compiles:  go build ./...
  2. still passes the existing test suite, unedited:  go test -vet=off -count=1 ./...   (contrib/gdaxfeeder TestNew needs the network and fails on the unchanged tree too; ignore that one only). Run the whole suite with each change applied and confirm.
  3. is REALISTIC: the kind of thing a real commit could contain (an off-by-one, a wrong comparison, a dropped or reordered step, a missing fsync/lock/invalidate, a wrong default, an "optimisation" that skips work, a refactor that loses a case) — small, not a deliberate time bomb, not keyed on magic values;
  4. needs something SPECIFIC to manifest — a particular input shape, boundary value, operation sequence, thread schedule, crash point or history — so that ordinary use and the existing tests do not notice. A change that breaks every call is useless.
Do not edit or add *_test.go files inside the source tree as part of a change, and do not touch files whose first line is `//go:build verif`.

For each change also write a DEMONSTRATION that shows the violation on the real code: a small Go test file or program (it may live in the package it needs, e.g. executor/seed_demo_test.go, and is NOT part of the patch) which PASSES on the unchanged HEAD and FAILS (showing concretely what the user would observe: lost row, wrong result, panic, duplicate…) with the change applied. Actually run it both ways.

DELIVERABLES, in the directory {wt}/SEED/ (create it):
  A/patch.diff   unified diff of change A alone (output of `git diff` with only A applied; must apply to the worktree HEAD with `git apply`)
  A/demo/        the demonstration file(s) with a README line giving where to copy them and the exact command to run
  A/meta.json    {{"property": "{pid}", "variant": "A", "summary": "...", "files": [...], "trigger": "what specific input/schedule/crash point/history is needed to see it", "demo_cmd": "...", "observed_unchanged": "...", "observed_with_change": "...", "full_test_suite_passes_with_change": true}}
  B/...          the same for change B
When you are done, restore the source tree to HEAD (`git checkout -- .` and remove the demo files from the tree; keep only the untracked SEED/ directory). If after honest effort only one change is feasible, deliver A only and say why in SEED/NOTES.txt. Your final message should be a three-line summary per change.""")
