import Mkts.Lemmas.Fanout
import Mkts.Extracted.Skeletons
/-!
# C26 — Replication survives replicas connecting and disconnecting

Model: `Mkts.Fanout` (replication/sender.go, replication/grpc_server.go) — a small-step transition
system with one thread for the WAL writer (`commit`), the sender goroutine, one goroutine per replica
stream and the environment (`disconnect`).  Optimistic model: each map operation is atomic; Go-level
data races on `StreamChannels` are outside the model (see the module text of `Model/Fanout.lean`).
"All interleavings" = all event lists accepted by `run`.

The property as stated is FALSE of the code (`C26_full`, `C26_cex_close`, `C26_cex_block`); what holds:
`C26_fifo` / `C26_delivered` / `C26_complete` (a replica whose stream goroutine is in its loop has been
handed a gap-free, duplicate-free, ordered run of transaction groups that covers everything committed
since it connected — for *every* schedule), and `C26_partial` (no disconnect ⇒ no panic; every channel
below capacity ⇒ the sender is not stuck).
-/
namespace Mkts.Props.C26
open Mkts.Fanout

/-! ## the tie: order of the effects in the source (regenerated skeletons) -/

/-- `GetWALStream`: map store, loop (receive, leave on nil, `stream.Send`, leave on error), then
    `delete` BEFORE `close`; no lock atom anywhere -/
theorem C26_skeleton_GetWALStream :
    Mkts.Extracted.Skel.replication_GRPCReplicationServer_GetWALStream =
    ["call:getClientAddr", "if:err != nil{", "call:errors.Wrap", "return", "}", "call:fmt.Sprintf",
     "call:log.Info", "setidx:rs.StreamChannels", "for{", "call:log.Debug", "recv:streamChannel",
     "if:transactionGroup == nil{", "call:log.Info", "break", "}", "call:stream.Send", "if:err != nil{",
     "call:fmt.Sprintf", "call:log.Error", "break", "}", "call:log.Debug", "}",
     "builtin:delete:rs.StreamChannels", "builtin:close:streamChannel", "call:fmt.Sprintf", "call:log.Info",
     "return"] := by decide

/-- `SendReplicationMessage`: a plain blocking send inside the range over the map, no lock;
    `Sender.Send`: a plain blocking send; `Sender.Run`: a loop taking from the channel and fanning out -/
theorem C26_skeleton_Send :
    Mkts.Extracted.Skel.replication_GRPCReplicationServer_SendReplicationMessage
      = ["range:rs.StreamChannels{", "call:log.Debug", "send:channel", "}"] ∧
    Mkts.Extracted.Skel.replication_Sender_Send = ["send:s.channel"] ∧
    Mkts.Extracted.Skel.replication_Sender_Run =
      ["go{", "func{", "for{", "select{", "comm:<-ctx.Done(){", "call:log.Info", "return", "}", "comm:<-resc{",
       "call:s.replService.SendReplicationMessage", "}", "}", "}", "}",
       "call:(func(ctx context.Context, resc chan []byte) literal)", "}"] := by decide

/-- the capacities used by `realCfg` -/
theorem C26_capacities : realCfg = ⟨500, 500⟩ := by decide

/-! ## what holds for every schedule -/

/-- FIFO, no gaps, no duplicates: while a replica's stream goroutine is in its loop, the transaction
    groups handed to it (delivered ++ in `stream.Send` ++ queued in its channel) are exactly the numbers
    `a, a+1, …, upTo-1` for some `a` not later than the first commit after it connected, where `upTo`
    is the fan-out frontier of the sender for this replica. -/
theorem C26_fifo (c : Cfg) (evs : List Ev) (s : St) (hr : run c init evs = some s)
    (rid : Nat) (x : Stream) (hx : s.streams rid = some x) (hl : x.live = true) :
    ∃ a, a ≤ x.openedAt ∧ a ≤ upTo s rid ∧ upTo s rid ≤ s.n ∧
      x.seq = List.range' a (upTo s rid - a) := by
  have hi := inv_run c evs init s inv_init hr
  obtain ⟨_, _, a, h1, h2, h3⟩ := hi.live_ok rid x hx hl
  exact ⟨a, h1, h2, upTo_le_n s hi rid, h3⟩

/-- at quiescence (sender idle, nothing queued anywhere) a replica still in its loop has RECEIVED a
    contiguous run ending with the last commit … -/
theorem C26_delivered (c : Cfg) (evs : List Ev) (s : St) (hr : run c init evs = some s)
    (rid : Nat) (x : Stream) (hx : s.streams rid = some x)
    (hidle : s.sender = .idle) (hq : s.queue = []) (hpc : x.pc = .recv) (hbuf : x.buf = []) :
    ∃ a, a ≤ x.openedAt ∧ x.got = List.range' a (s.n - a) := by
  have hi := inv_run c evs init s inv_init hr
  have hl : x.live = true := by simp [Stream.live, hpc]
  obtain ⟨_, _, a, h1, h2, h3⟩ := hi.live_ok rid x hx hl
  have hn : s.next = s.n := by
    have := hi.queue_eq
    rw [hq] at this
    have hle := hi.next_le
    cases hk : s.n - s.next with
    | zero => omega
    | succ k => rw [hk, List.range'_succ] at this; cases this
  simp only [upTo, hidle, hn] at h2 h3
  refine ⟨a, h1, ?_⟩
  rw [← h3]; simp [Stream.seq, hpc, hbuf]

/-- … hence every transaction group committed after it connected, each exactly once, in commit order -/
theorem C26_complete (c : Cfg) (evs : List Ev) (s : St) (hr : run c init evs = some s)
    (rid : Nat) (x : Stream) (hx : s.streams rid = some x)
    (hidle : s.sender = .idle) (hq : s.queue = []) (hpc : x.pc = .recv) (hbuf : x.buf = []) :
    (∀ t, x.openedAt ≤ t → t < s.n → t ∈ x.got) ∧ x.got.Pairwise (· < ·) := by
  obtain ⟨a, ha, hg⟩ := C26_delivered c evs s hr rid x hx hidle hq hpc hbuf
  rw [hg]
  refine ⟨fun t h1 h2 => ?_, List.pairwise_lt_range'⟩
  rw [List.mem_range'_1]; omega

/-- a replica that is still connected is never skipped, closed or removed from the map -/
theorem C26_connected_stays_registered (c : Cfg) (evs : List Ev) (s : St) (hr : run c init evs = some s)
    (rid : Nat) (x : Stream) (hx : s.streams rid = some x) (ha : x.alive = true) :
    x.inMap = true ∧ x.closed = false ∧ x.live = true := by
  have hi := inv_run c evs init s inv_init hr
  have hl := hi.alive_live rid x hx ha
  obtain ⟨h1, h2, _⟩ := hi.live_ok rid x hx hl
  exact ⟨h1, h2, hl⟩

/-- the sender can only panic on the channel of a replica that has disconnected -/
theorem C26_panic_only_after_disconnect (c : Cfg) (evs : List Ev) (s : St) (hr : run c init evs = some s)
    (hp : s.panicked = true) : ∃ rid x, s.streams rid = some x ∧ x.alive = false :=
  (inv_run c evs init s inv_init hr).panic_dead hp

/-! ## the full property and why it fails -/

/-- evaluate a Boolean observation on the final state of a run (`false` if the run is not accepted) -/
def check (o : Option St) (p : St → Bool) : Bool :=
  match o with
  | some s => p s
  | none => false

/-- the sender goroutine holds a channel and has no enabled step of its own: it waits for a replica -/
def senderStuck (c : Cfg) (s : St) : Prop :=
  ∃ tg rid vis, s.sender = .holding tg rid vis ∧ step c s .senderSend = none

/-- "The master keeps serving writes without crashing or blocking", for all capacities ≥ 1 and all
    schedules: no reachable state has the sender panicked, stuck behind a replica, or the WAL writer
    unable to hand over a committed transaction group while the sender is stuck. -/
def C26_full : Prop :=
  ∀ c : Cfg, 0 < c.chanCap → 0 < c.senderCap → ∀ evs s, run c init evs = some s →
    s.panicked = false ∧ ¬ senderStuck c s

/-- replica 1 connects, receives tg 0, disconnects; tg 1 is committed; the sender has picked replica 1's
    channel from the map when the stream goroutine notices the failed `stream.Send`, deletes the entry and
    closes the channel; the sender's `channel <- tg` panics. -/
def closeSchedule : List Ev :=
  [.open 1, .commit, .senderTake, .senderPick 1, .senderSend, .senderDone, .disconnect 1, .commit,
   .senderTake, .senderPick 1, .streamRecv 1, .streamSend 1, .streamDelete 1, .streamClose 1, .senderSend]

theorem C26_cex_close_real : (run realCfg init closeSchedule).map (·.panicked) = some true := by decide

theorem C26_cex_close : ¬ C26_full := by
  intro h
  have : (run ⟨1, 1⟩ init closeSchedule).map (·.panicked) = some true := by decide
  match hr : run ⟨1, 1⟩ init closeSchedule, this with
  | some s, this =>
    have := (h ⟨1, 1⟩ (by decide) (by decide) closeSchedule s hr).1
    simp_all

/-- the same panic when the sender is already blocked on the full channel of the disconnecting replica
    (the schedule the harness reproduces on the real server; capacity 1 here, 500 in the harness) -/
def closeWhileBlockedSchedule : List Ev :=
  [.open 1, .commit, .senderTake, .senderPick 1, .senderSend, .senderDone, .streamRecv 1,
   .commit, .senderTake, .senderPick 1, .senderSend, .senderDone,
   .commit, .senderTake, .senderPick 1,            -- channel full, tg 0 in stream.Send: sender blocked
   .disconnect 1, .streamSend 1, .streamDelete 1, .streamClose 1, .senderSend]

theorem C26_cex_close_while_blocked :
    (run ⟨1, 1⟩ init closeWhileBlockedSchedule).map (·.panicked) = some true := by decide

/-- a slow replica (its `stream.Send` does not return): channel capacity 1, sender channel capacity 1 -/
def slowSchedule : List Ev :=
  [.open 1, .commit, .senderTake, .senderPick 1, .senderSend, .senderDone, .streamRecv 1,
   .commit, .senderTake, .senderPick 1, .senderSend, .senderDone,
   .commit, .senderTake, .senderPick 1, .commit]

/-- … the sender is stuck on replica 1's full channel AND the WAL writer's next `Sender.Send` is not
    enabled either (the sender channel is full): writes to the master block. -/
theorem C26_cex_block_state :
    check (run ⟨1, 1⟩ init slowSchedule) (fun s => decide (s.sender = .holding 2 1 []) &&
      (step ⟨1, 1⟩ s .senderSend).isNone && (step ⟨1, 1⟩ s .commit).isNone) = true := by decide

theorem C26_cex_block : ¬ C26_full := by
  intro h
  have hb := C26_cex_block_state
  match hr : run ⟨1, 1⟩ init slowSchedule, hb with
  | some s, hb =>
    simp only [check, Bool.and_eq_true, decide_eq_true_eq, Option.isNone_iff_eq_none] at hb
    exact (h ⟨1, 1⟩ (by decide) (by decide) slowSchedule s hr).2 ⟨2, 1, [], hb.1.1, hb.1.2⟩

/-- the same situation at ANY capacities `c`, `q`: `c + 1` transaction groups go to the silent replica
    (`c` queued, one in `stream.Send`), the next one is held by the sender, `q` more fill `Sender.channel` -/
def fanRound : List Ev := [.commit, .senderTake, .senderPick 1, .senderSend, .senderDone]

def fillSchedule (c q : Nat) : List Ev :=
  [.open 1] ++ fanRound ++ [.streamRecv 1] ++ (List.replicate c fanRound).flatten ++
    [.commit, .senderTake, .senderPick 1] ++ List.replicate q .commit

/-- capacities 8 / 8: after 8 + 1 + 1 + 8 = 18 accepted `Sender.Send` calls the sender goroutine is stuck
    holding transaction group 9 and the 19th `Sender.Send` is not enabled.  (With the capacities of the source the
    same schedule gives 500 + 1 + 1 + 500 = 1002: computed by the driver from this very `step` function and
    measured on the real `Sender` by the harness, op `fanq 1003` ⇒ `sent=1002 blocked=1`; the kernel evaluation of
    the 3000-step run takes minutes and is therefore not part of the build.) -/
theorem C26_cex_block_cap8 :
    check (run ⟨8, 8⟩ init (fillSchedule 8 8)) (fun s => decide (s.sender = .holding 9 1 []) &&
      decide (s.n = 18) && (step ⟨8, 8⟩ s .senderSend).isNone && (step ⟨8, 8⟩ s .commit).isNone) = true := by
  decide +kernel

/-- the blocked configuration: the sender holds `rid`'s channel, the channel is open and full, and the
    stream goroutine is inside `stream.Send` -/
def Blocked (c : Cfg) (s : St) (tg rid : Nat) : Prop :=
  s.panicked = false ∧ ∃ vis x t, s.sender = .holding tg rid vis ∧ s.streams rid = some x ∧
    x.closed = false ∧ x.buf.length = c.chanCap ∧ x.pc = .sending t

/-- For EVERY capacity: once blocked, the sender makes no progress, whatever else happens, until the slow
    replica's `stream.Send` returns — no other event (other replicas, new connections, more commits, a
    disconnect of the slow replica that the stream goroutine has not noticed yet) changes that. -/
theorem C26_block_persists (c : Cfg) (s s' : St) (tg rid : Nat) (e : Ev)
    (hb : Blocked c s tg rid) (he : e ≠ .streamSend rid) (hs : step c s e = some s') :
    Blocked c s' tg rid ∧ step c s' .senderSend = none := by
  obtain ⟨hp, vis, x, t, hsd, hx, hcl, hlen, hpc⟩ := hb
  have key : ∀ s'', s''.panicked = false → s''.sender = .holding tg rid vis →
      (∃ x', s''.streams rid = some x' ∧ x'.closed = false ∧ x'.buf.length = c.chanCap ∧ x'.pc = .sending t) →
      Blocked c s'' tg rid ∧ step c s'' .senderSend = none := by
    intro s'' h1 h2 ⟨x', h3, h4, h5, h6⟩
    refine ⟨⟨h1, vis, x', t, h2, h3, h4, h5, h6⟩, ?_⟩
    simp [step, h1, h2, h3, h4, h5]
  unfold step at hs
  simp only [hp, Bool.false_eq_true, if_false] at hs
  cases e with
  | «open» r =>
    simp only at hs
    split at hs
    · cases hs
    · rename_i hnone
      cases hs
      have hne : rid ≠ r := by intro h; subst h; rw [hx] at hnone; cases hnone
      exact key _ (by first | rfl | exact hp) hsd ⟨x, by simp [St.set, hne, hx], hcl, hlen, hpc⟩
  | disconnect r =>
    simp only at hs
    split at hs
    · rename_i y hy
      split at hs
      · cases hs
        by_cases hr : rid = r
        · subst hr; rw [hx] at hy; cases hy
          exact key _ (by first | rfl | exact hp) hsd ⟨{ x with alive := false }, by simp [St.set], hcl, hlen, hpc⟩
        · exact key _ (by first | rfl | exact hp) hsd ⟨x, by simp [St.set, hr, hx], hcl, hlen, hpc⟩
      · cases hs
    · cases hs
  | commit =>
    simp only at hs
    split at hs
    · cases hs; exact key _ (by first | rfl | exact hp) hsd ⟨x, hx, hcl, hlen, hpc⟩
    · cases hs
  | senderTake => simp [hsd] at hs
  | senderPick r => simp [hsd] at hs
  | senderSend => simp [hsd, hx, hcl, hlen] at hs
  | senderDone => simp [hsd] at hs
  | streamRecv r =>
    simp only at hs
    split at hs
    · rename_i y hy
      split at hs
      · rename_i tg' rest hpc' hbuf'
        cases hs
        by_cases hr : rid = r
        · subst hr; rw [hx] at hy; cases hy; rw [hpc] at hpc'; cases hpc'
        · exact key _ (by first | rfl | exact hp) hsd ⟨x, by simp [St.set, hr, hx], hcl, hlen, hpc⟩
      · cases hs
    · cases hs
  | streamSend r =>
    have hr : rid ≠ r := by intro h; subst h; exact he rfl
    simp only at hs
    split at hs
    · rename_i y hy
      split at hs
      · split at hs
        · cases hs; exact key _ (by first | rfl | exact hp) hsd ⟨x, by simp [St.set, hr, hx], hcl, hlen, hpc⟩
        · cases hs; exact key _ (by first | rfl | exact hp) hsd ⟨x, by simp [St.set, hr, hx], hcl, hlen, hpc⟩
      · cases hs
    · cases hs
  | streamDelete r =>
    simp only at hs
    split at hs
    · rename_i y hy
      split at hs
      · rename_i hpe
        cases hs
        by_cases hr : rid = r
        · subst hr; rw [hx] at hy; cases hy; rw [hpc] at hpe; cases hpe
        · exact key _ (by first | rfl | exact hp) hsd ⟨x, by simp [St.set, hr, hx], hcl, hlen, hpc⟩
      · cases hs
    · cases hs
  | streamClose r =>
    simp only at hs
    split at hs
    · rename_i y hy
      split at hs
      · rename_i hpe
        cases hs
        by_cases hr : rid = r
        · subst hr; rw [hx] at hy; cases hy; rw [hpc] at hpe; cases hpe
        · exact key _ (by first | rfl | exact hp) hsd ⟨x, by simp [St.set, hr, hx], hcl, hlen, hpc⟩
      · cases hs
    · cases hs

/-! ## the partial theorem: exactly the two excluded classes as hypotheses -/

/-- `no_disconnect`: no replica disconnects ⇒ the sender never panics (for every schedule and capacity);
    `replicas_keep_up`: every stream channel is below capacity ⇒ the sender is not stuck. -/
theorem C26_partial (c : Cfg) (evs : List Ev) (s : St) (hr : run c init evs = some s) :
    (evs.all (fun e => !isDisconnect e) = true → s.panicked = false) ∧
    ((∀ rid x, s.streams rid = some x → x.buf.length < c.chanCap) → s.panicked = false → ¬ senderStuck c s) := by
  have hi := inv_run c evs init s inv_init hr
  constructor
  · intro hnd
    have hall : AllAlive s := allAlive_run c evs init s (by intro r x h; cases h) hnd hr
    cases hp : s.panicked with
    | false => rfl
    | true =>
      obtain ⟨rid, x, hx, hdead⟩ := hi.panic_dead hp
      rw [hall rid x hx] at hdead; cases hdead
  · intro hk hp ⟨tg, rid, vis, hsd, hnone⟩
    have hex := hi.hold_exists tg rid vis hsd
    cases hx : s.streams rid with
    | none => rw [hx] at hex; cases hex
    | some x =>
      have := hk rid x hx
      simp only [step, hp, Bool.false_eq_true, if_false, hsd, hx, this, if_true] at hnone
      split at hnone <;> cases hnone

/-! ## non-vacuity -/

/-- two replicas, the second connecting between two commits: both in their loops, replica 1 has been
    handed [0, 1], replica 2 (connected after commit 0) exactly [1] -/
example :
    check (run realCfg init [.open 1, .commit, .senderTake, .senderPick 1, .senderSend, .senderDone, .open 2,
        .commit, .senderTake, .senderPick 2, .senderSend, .senderPick 1, .senderSend, .senderDone,
        .streamRecv 1, .streamSend 1, .streamRecv 2])
      (fun s => (s.streams 1).map (·.seq) == some [0, 1] && (s.streams 2).map (·.seq) == some [1] &&
        (s.streams 2).map (·.openedAt) == some 1 && (s.streams 1).map (·.got) == some [0]) = true := by decide

/-- the hypotheses of `C26_partial` are satisfiable by a non-trivial run (no disconnects, channels short) -/
example : ([Ev.open 1, .commit, .senderTake, .senderPick 1, .senderSend, .senderDone].all
    (fun e => !isDisconnect e) = true) ∧
    (run realCfg init [.open 1, .commit, .senderTake, .senderPick 1, .senderSend, .senderDone]).isSome = true := by
  decide

end Mkts.Props.C26
