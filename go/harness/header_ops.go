package main

// C15: bucket schema is preserved across restarts.
//
//   hdr <tfNs> <recType> <year> <hexdesc> <cols>      cols = hexname=typenum,...
//       NewTimeBucketInfo -> WriteHeader (real code, temp file) -> re-read through a fresh
//       TimeBucketInfo{IsRead:false}; prints the non-zero runs of the file, the fields read back and
//       P=1 iff they equal what was written.
//   c15 <nowYear> <step>...   real server: C:<key>:<f|v>:<cols>  W:<key>:<f|v>:<cols>:<rows>  R  I:<key>
//       cols = hexname=typestr,...   rows = sec,payloadhex+...

import (
	"fmt"
	"os"
	"path/filepath"
	"reflect"
	"strconv"
	"strings"
	"time"

	"github.com/alpacahq/marketstore/v4/frontend"
	"github.com/alpacahq/marketstore/v4/utils"
	mio "github.com/alpacahq/marketstore/v4/utils/io"
)


func showRuns(b []byte) string {
	var parts []string
	i := 0
	for i < len(b) {
		if b[i] == 0 {
			i++
			continue
		}
		j := i
		for j < len(b) && b[j] != 0 {
			j++
		}
		parts = append(parts, fmt.Sprintf("%d:%s", i, hx(b[i:j])))
		i = j
	}
	if len(parts) == 0 {
		return "-"
	}
	return strings.Join(parts, ";")
}

func showTBI(t *mio.TimeBucketInfo) string {
	s := fmt.Sprintf("v%d,%s,y%d,tf%d,rt%d,rl%d", t.GetVersion(), hxs(t.GetDescription()), t.Year, int64(t.GetTimeframe()),
		int(t.GetRecordType()), t.GetRecordLength())
	names, types := t.GetElementNames(), t.GetElementTypes()
	for i := range names {
		s += fmt.Sprintf(",%s=%d", hxs(names[i]), int(types[i]))
	}
	return s
}

func fatalOr(r interface{}) string {
	if strings.HasPrefix(fmt.Sprint(r), "log.Fatal") {
		return "fatal"
	}
	return panicClass(r)
}

func hdrOp(a []string) (res string) {
	quietFatal()
	tf, rt, year := atoi(a[0]), atoi(a[1]), atoi(a[2])
	desc := unhxs(a[3])
	var dsv []mio.DataShape
	if a[4] != "-" {
		for _, p := range strings.Split(a[4], ",") {
			nt := strings.SplitN(p, "=", 2)
			dsv = append(dsv, mio.DataShape{Name: unhxs(nt[0]), Type: mio.EnumElementType(atoi(nt[1]))})
		}
	}
	dir := scratchDir("hdr")
	defer os.RemoveAll(dir)
	tbi := mio.NewTimeBucketInfo(utils.Timeframe{Duration: time.Duration(tf)}, dir, desc, int16(year), dsv, mio.EnumRecordType(rt))
	// V = tbi.Validate() == nil, called through reflection: the method only exists in sources that
	// have the schema validation ("-" otherwise)
	v := "-"
	if m := reflect.ValueOf(tbi).MethodByName("Validate"); m.IsValid() {
		if out := m.Call(nil); len(out) == 1 && out[0].IsNil() {
			v = "1"
		} else {
			v = "0"
		}
	}
	f, err := os.Create(tbi.Path)
	must(err)
	wpanic := ""
	func() {
		defer f.Close()
		defer func() {
			if r := recover(); r != nil {
				wpanic = panicClass(r)
			}
		}()
		must(mio.WriteHeader(f, tbi))
	}()
	if wpanic != "" {
		return wpanic + " V=" + v
	}
	raw, err := os.ReadFile(tbi.Path)
	must(err)
	enc := showRuns(raw)
	back := &mio.TimeBucketInfo{Path: tbi.Path, IsRead: false}
	dec := ""
	func() {
		defer func() {
			if r := recover(); r != nil {
				dec = fatalOr(r)
			}
		}()
		dec = showTBI(back)
	}()
	p := "0"
	noDesc := func(s string) string { // the description (2nd field) is not part of the schema
		f := strings.SplitN(s, ",", 3)
		if len(f) < 3 {
			return s
		}
		return f[0] + "," + f[2]
	}
	if noDesc(dec) == noDesc(showTBI(tbi)) {
		p = "1"
	}
	return "enc=" + enc + " dec=" + dec + " P=" + p + " V=" + v
}

type strCol struct{ name, typ string }

func parseStrCols(s string) []strCol {
	if s == "-" || s == "" {
		return nil
	}
	var out []strCol
	for _, p := range strings.Split(s, ",") {
		nt := strings.SplitN(p, "=", 2)
		out = append(out, strCol{unhxs(nt[0]), nt[1]})
	}
	return out
}

// rawDataset: Epoch (i8) + the value columns cut out of each row's payload in `cols` order
// (+ Nanoseconds i4 = 0 for variable-length writes); several buckets may share one dataset.
func rawDataset(keys []string, cols []strCol, rowsPerKey [][]rowIn, isVar bool) *mio.NumpyMultiDataset {
	names := []string{"Epoch"}
	types := []string{"i8"}
	for _, c := range cols {
		names = append(names, c.name)
		types = append(types, c.typ)
	}
	data := make([][]byte, len(names))
	sizes := make([]int, len(cols))
	for i, c := range cols {
		t, ok := mio.TypeStrToElemType(c.typ)
		if !ok {
			panic("bad-arg type " + c.typ)
		}
		sizes[i] = t.Size()
	}
	start := map[string]int{}
	lens := map[string]int{}
	total := 0
	var nanos []byte
	for k, key := range keys {
		start[key] = total
		lens[key] = len(rowsPerKey[k])
		for _, r := range rowsPerKey[k] {
			data[0] = append(data[0], le64(r.sec)...)
			off := 0
			for i := range cols {
				if off+sizes[i] > len(r.payload) {
					panic("bad-arg payload too short")
				}
				data[i+1] = append(data[i+1], r.payload[off:off+sizes[i]]...)
				off += sizes[i]
			}
			nanos = append(nanos, le64(r.nanos)[:4]...)
			total++
		}
	}
	if isVar {
		names = append(names, "Nanoseconds")
		types = append(types, "i4")
		data = append(data, nanos)
	}
	return &mio.NumpyMultiDataset{
		NumpyDataset: mio.NumpyDataset{ColumnTypes: types, ColumnNames: names, ColumnData: data, Length: total},
		StartIndex:   start, Lengths: lens,
	}
}

func parseRows2(s string) []rowIn {
	if s == "-" || s == "" {
		return nil
	}
	var out []rowIn
	for _, r := range strings.Split(s, "+") {
		f := strings.Split(r, ",")
		b, err := unhx(f[1])
		if err != nil {
			panic("bad-arg rowhex")
		}
		out = append(out, rowIn{atoi(f[0]), 0, b})
	}
	return out
}

func errClass15(msg string) string {
	if strings.Contains(msg, "unexpected data type") {
		return "err:type"
	}
	return errClass(msg)
}

func step15(in *Inst, step string) (res string) {
	f := strings.Split(step, ":")
	defer func() {
		if r := recover(); r != nil {
			lastPanic = fmt.Sprint(r)
			res = f[0] + "=" + fatalOr(r)
		}
	}()
	switch f[0] {
	case "C":
		req := frontend.CreateRequest{Key: f[1] + ":Symbol/Timeframe/AttributeGroup", IsVariableLength: f[2] == "v"}
		for _, c := range parseStrCols(f[3]) {
			req.ColumnNames = append(req.ColumnNames, c.name)
			req.ColumnTypes = append(req.ColumnTypes, c.typ)
		}
		var resp frontend.MultiServerResponse
		in.ds.Create(nil, &frontend.MultiCreateRequest{Requests: []frontend.CreateRequest{req}}, &resp)
		if len(resp.Responses) == 0 {
			return "C=noresp"
		}
		return "C=" + errClass15(resp.Responses[0].Error)
	case "W":
		isVar := f[2] == "v"
		ds := rawDataset([]string{f[1] + ":Symbol/Timeframe/AttributeGroup"}, parseStrCols(f[3]), [][]rowIn{parseRows2(f[4])}, isVar)
		var resp frontend.MultiServerResponse
		in.ds.Write(nil, &frontend.MultiWriteRequest{Requests: []frontend.WriteRequest{{Data: ds, IsVariableLength: isVar}}}, &resp)
		if len(resp.Responses) == 0 {
			return "W=ok"
		}
		return "W=" + errClass15(resp.Responses[0].Error)
	case "I":
		var resp frontend.MultiGetInfoResponse
		in.ds.GetInfo(nil, &frontend.MultiKeyRequest{Requests: []frontend.KeyRequest{{Key: f[1]}}}, &resp)
		if len(resp.Responses) == 0 {
			return "I=noresp"
		}
		r := resp.Responses[0]
		if r.ServerResp.Error != "" {
			return "I=" + errClass(r.ServerResp.Error)
		}
		var cs []string
		for _, d := range r.DSV {
			cs = append(cs, hxs(d.Name)+"="+strconv.Itoa(int(d.Type)))
		}
		return fmt.Sprintf("I=tf%d,rt%d,%s", int64(r.TimeFrame), int(r.RecordType), strings.Join(cs, ","))
	}
	panic("bad-arg step " + step)
}

func c15Op(a []string) string {
	quietFatal()
	nowYear := time.Now().UTC().Year()
	if a[0] != strconv.Itoa(nowYear) {
		return "harness:bad-arg now-year " + a[0]
	}
	root := scratchDir("c15")
	defer os.RemoveAll(root)
	in := startInst(root, nil)
	defer func() { in.abandon() }()
	var out []string
	for _, st := range a[1:] {
		if st == "R" {
			in.abandon()
			in = startInst(root, nil)
			out = append(out, "R=ok")
			continue
		}
		out = append(out, step15(in, st))
	}
	return strings.Join(out, " ")
}

func init() {
	ops["hdr"] = hdrOp
	ops["c15"] = c15Op
	slowOps["c15"] = true

	gens["C15"] = func(g *Gen) {
		nowYear := time.Now().UTC().Year()
		ny := strconv.Itoa(nowYear)
		jan1 := time.Date(nowYear, 1, 1, 0, 0, 0, 0, time.UTC).Unix()
		typeNums := []int{0, 1, 2, 3, 5, 9, 10, 11, 12, 13, 14, 6, 8, 7, 4, 200}
		typeStrs := []string{"i1", "i2", "i4", "i8", "u1", "u2", "u4", "u8", "f4", "f8", "U16"}
		sizeOf := map[string]int{"i1": 1, "i2": 2, "i4": 4, "i8": 8, "u1": 1, "u2": 2, "u4": 4, "u8": 8, "f4": 4, "f8": 8, "U16": 64}
		name := func(kind int, i int) (string, string) {
			base := fmt.Sprintf("c%d", i)
			switch kind {
			case 0:
				return base, "name:short"
			case 1:
				return base + strings.Repeat("x", 32-len(base)), "name:32"
			case 2:
				return base + strings.Repeat("y", 33-len(base)), "name:33"
			case 3:
				return base + strings.Repeat("z", 40+g.Intn(200)), "name:long"
			case 4:
				return base + "\x00", "name:trailing-nul"
			case 5:
				return "\x00" + base, "name:leading-nul"
			case 6:
				return base + "\x00mid", "name:inner-nul"
			case 7:
				return "", "name:empty"
			case 8:
				return "Epoch", "name:epoch"
			case 9:
				return base + "\xc3\xa9\xff", "name:nonascii"
			}
			return base, "name:short"
		}
		pickKind := func() int {
			if g.Intn(3) != 0 {
				return 0
			}
			return g.Intn(10)
		}
		// --- function level
		for i := 0; i < g.N(250, 2500); i++ {
			var n int
			switch g.Intn(12) {
			case 0:
				n = 0
			case 1:
				n = 1024
			case 2:
				n = 1025 + g.Intn(3)
			case 3:
				n = 1023
			case 4:
				n = 200 + g.Intn(800)
			default:
				n = 1 + g.Intn(12)
			}
			tags := map[string]bool{}
			var cols []string
			for k := 0; k < n; k++ {
				kind := 0
				if n <= 12 {
					kind = pickKind()
				} else if g.Intn(200) == 0 {
					kind = g.Intn(10)
				}
				nm, tg := name(kind, k)
				tags[tg] = true
				cols = append(cols, hxs(nm)+"="+strconv.Itoa(typeNums[g.Intn(len(typeNums))]))
			}
			switch {
			case n == 0:
				tags["cols:0"] = true
			case n > 1024:
				tags["cols:>1024"] = true
			case n == 1024:
				tags["cols:1024"] = true
			case n > 12:
				tags["cols:many"] = true
			default:
				tags["cols:few"] = true
			}
			desc := []string{"Default", "Created By Writer", "", strings.Repeat("d", 256), strings.Repeat("e", 257), "x\x00", "\x00x", strings.Repeat("f", 300)}[g.Intn(8)]
			if len(desc) > 256 {
				tags["desc:long"] = true
			}
			tf := g.Pick(1e9, 60e9, 3600e9, 86400e9, 1, 7*86400e9)
			rt := g.Intn(2)
			year := 1970 + g.Intn(300)
			cs := "-"
			if len(cols) > 0 {
				cs = strings.Join(cols, ",")
			}
			var tl []string
			for t := range tags {
				tl = append(tl, t)
			}
			g.Emit(fmt.Sprintf("hdr %d %d %d %s %s", tf, rt, year, hxs(desc), cs), tl...)
		}
		// --- sequence level
		colsStr := func(names []string, types []string) string {
			if len(names) == 0 {
				return "-"
			}
			var p []string
			for i := range names {
				p = append(p, hxs(names[i])+"="+types[i])
			}
			return strings.Join(p, ",")
		}
		payload := func(types []string, seed byte) string {
			n := 0
			for _, t := range types {
				n += sizeOf[t]
			}
			b := make([]byte, n)
			for i := range b {
				b[i] = seed + byte(i*7)
				if b[i] == 0 {
					b[i] = 1
				}
			}
			return hx(b)
		}
		scenario := func(tag string, key string, rt string, names, types []string, wnames []string, secs []int64, extra ...string) {
			cs := colsStr(names, types)
			ws := colsStr(wnames, types)
			var rows []string
			for i, s := range secs {
				rows = append(rows, fmt.Sprintf("%d,%s", s, payload(types, byte(17+i))))
			}
			steps := []string{"C:" + key + ":" + rt + ":" + cs, "I:" + key}
			if len(rows) > 0 {
				steps = append(steps, "W:"+key+":"+rt+":"+ws+":"+strings.Join(rows, "+"), "I:"+key)
			}
			steps = append(steps, "R", "I:"+key)
			steps = append(steps, extra...)
			g.Emit("c15 "+ny+" "+strings.Join(steps, " "), tag)
		}
		mid := jan1 + 100*86400
		// witnesses
		scenario("seq:plain", "AAA/1Min/OHLC", "f", []string{"Open", "Close"}, []string{"f4", "f4"}, []string{"Open", "Close"}, []int64{mid, mid + 60})
		long40 := strings.Repeat("L", 40)
		scenario("seq:F9-longname", "AAA/1Min/LONG", "f", []string{long40, "B"}, []string{"i4", "i4"}, []string{long40, "B"}, []int64{mid})
		scenario("seq:F9-longname-truncated-write", "AAA/1Min/LONG", "f", []string{long40, "B"}, []string{"i4", "i4"}, []string{long40[:32], "B"}, []int64{mid})
		{ // January 1 hazard: 1D, 62 STRING16 columns => recordLength 3976 > 3944-62
			var nm, ty []string
			for i := 0; i < 62; i++ {
				nm = append(nm, fmt.Sprintf("s%d", i))
				ty = append(ty, "U16")
			}
			scenario("seq:F1-jan1-overlap", "AAA/1D/WIDE", "f", nm, ty, nm, []int64{jan1, jan1 + 86400})
			scenario("seq:jan1-wide-notjan1", "AAA/1D/WIDE", "f", nm, ty, nm, []int64{jan1 + 86400})
			scenario("seq:jan1-narrow", "AAA/1D/NARROW", "f", nm[:3], ty[:3], nm[:3], []int64{jan1})
			scenario("seq:jan1-variable", "AAA/1D/WIDEV", "v", nm, ty, nm, []int64{jan1})
		}
		{ // more than 1024 columns
			var nm, ty []string
			for i := 0; i < 1025; i++ {
				nm = append(nm, fmt.Sprintf("k%d", i))
				ty = append(ty, "i1")
			}
			cs := colsStr(nm, ty)
			g.Emit("c15 "+ny+" C:AAA/1Min/MANY:f:"+cs+" I:AAA/1Min/MANY R I:AAA/1Min/MANY", "seq:1025-columns")
			g.Emit("c15 "+ny+" W:AAA/1Min/MANYW:f:"+cs+":"+fmt.Sprintf("%d,%s", mid, payload(ty, 3))+" I:AAA/1Min/MANYW", "seq:1025-columns-autocreate")
			g.Emit("c15 "+ny+" C:AAA/1Min/MAX:f:"+colsStr(nm[:1024], ty[:1024])+" I:AAA/1Min/MAX R I:AAA/1Min/MAX", "seq:1024-columns")
		}
		g.Emit("c15 "+ny+" C:AAA/1Min/BADT:f:"+hxs("A")+"=zz I:AAA/1Min/BADT", "seq:bad-type")
		g.Emit("c15 "+ny+" C:AAA/xx/BADTF:f:"+hxs("A")+"=i4", "seq:bad-timeframe")
		g.Emit("c15 "+ny+" C:AAA/1Min/DUP:f:"+hxs("A")+"=i4 C:AAA/1Min/DUP:f:"+hxs("B")+"=i8 I:AAA/1Min/DUP", "seq:create-twice")
		// auto-create by the writer
		g.Emit("c15 "+ny+" W:AAA/1Min/AUTO:f:"+colsStr([]string{long40}, []string{"i4"})+":"+fmt.Sprintf("%d,%s", mid, payload([]string{"i4"}, 5))+" I:AAA/1Min/AUTO R I:AAA/1Min/AUTO", "seq:autocreate-longname")
		g.Emit("c15 "+ny+" W:AAA/1Min/AUTO2:v:"+colsStr([]string{"Bid", "Ask"}, []string{"f4", "f8"})+":"+fmt.Sprintf("%d,%s", mid, payload([]string{"f4", "f8"}, 5))+" I:AAA/1Min/AUTO2 R I:AAA/1Min/AUTO2", "seq:autocreate-variable")
		tfs := []string{"1Min", "1H", "1D", "1D", "5Min", "4H"}
		for i := 0; i < g.N(60, 600); i++ {
			n := 1 + g.Intn(6)
			var nm, ty []string
			tag := "seq:random"
			for k := 0; k < n; k++ {
				kind := pickKind()
				s, tg := name(kind, k)
				if kind != 0 {
					tag = "seq:random:" + tg
				}
				nm = append(nm, s)
				ty = append(ty, typeStrs[g.Intn(len(typeStrs))])
			}
			if g.Intn(10) == 0 { // wide 1D schema around the hazard threshold
				nm, ty = nil, nil
				n = 55 + g.Intn(12)
				for k := 0; k < n; k++ {
					nm = append(nm, fmt.Sprintf("w%d", k))
					ty = append(ty, "U16")
				}
				tag = "seq:random:wide"
			}
			tf := tfs[g.Intn(len(tfs))]
			if tag == "seq:random:wide" {
				tf = "1D"
			}
			rt := "f"
			if g.Intn(4) == 0 {
				rt = "v"
			}
			var secs []int64
			for k := 0; k < g.Intn(4); k++ {
				secs = append(secs, []int64{jan1, jan1 + 86399, jan1 + 86400, mid, mid + int64(g.Intn(1000000))}[g.Intn(5)])
			}
			// the writer sends the names it created the bucket with; Epoch-named columns cannot be
			// sent twice, so such schemas are only created and inspected
			hasEpoch := false
			seen := map[string]bool{}
			for _, s := range nm {
				if s == "Epoch" || seen[s] {
					hasEpoch = true
				}
				seen[s] = true
			}
			if hasEpoch {
				secs = nil
			}
			scenario(tag, fmt.Sprintf("S%d/%s/G", i, tf), rt, nm, ty, nm, secs)
		}
		_ = filepath.Join
	}
}
