/-
Line-protocol helpers shared by every driver module (core Lean only).
Tokens are separated by single spaces; byte strings are lowercase hex ("-" = empty);
lists use ',' (and ';' / '|' for nesting), ints are decimal.
-/
namespace Mkts.Proto

def hexDigit (c : Char) : Option Nat :=
  if '0' ≤ c ∧ c ≤ '9' then some (c.toNat - '0'.toNat)
  else if 'a' ≤ c ∧ c ≤ 'f' then some (c.toNat - 'a'.toNat + 10)
  else if 'A' ≤ c ∧ c ≤ 'F' then some (c.toNat - 'A'.toNat + 10)
  else none

def hexToBytesAux : List Char → List UInt8 → Option (List UInt8)
  | [], acc => some acc.reverse
  | [_], _ => none
  | a :: b :: rest, acc =>
    match hexDigit a, hexDigit b with
    | some x, some y => hexToBytesAux rest (UInt8.ofNat (x * 16 + y) :: acc)
    | _, _ => none

/-- "-" or "" is the empty byte string. -/
def hexToBytes (s : String) : Option (List UInt8) :=
  if s == "-" || s == "" then some [] else hexToBytesAux s.toList []

def nibble (n : Nat) : Char :=
  if n < 10 then Char.ofNat (n + '0'.toNat) else Char.ofNat (n - 10 + 'a'.toNat)

def bytesToHex (b : List UInt8) : String :=
  if b.isEmpty then "-" else
  String.ofList (b.foldr (fun x acc => nibble (x.toNat / 16) :: nibble (x.toNat % 16) :: acc) [])

def splitOn (s : String) (sep : String) : List String :=
  if s == "" then [] else s.splitOn sep

def parseInt (s : String) : Option Int := s.toInt?
def parseNat (s : String) : Option Nat := s.toNat?

def parseIntList (s : String) : Option (List Int) :=
  if s == "-" || s == "" then some [] else (s.splitOn ",").mapM parseInt

def parseNatList (s : String) : Option (List Nat) :=
  if s == "-" || s == "" then some [] else (s.splitOn ",").mapM parseNat

def showIntList (l : List Int) : String :=
  if l.isEmpty then "-" else ",".intercalate (l.map toString)

def showNatList (l : List Nat) : String :=
  if l.isEmpty then "-" else ",".intercalate (l.map toString)

/-- A driver op: tokens after the op name ↦ one canonical output line. -/
abbrev Op := List String → String

abbrev OpTable := List (String × Op)

def badArgs : String := "bad-op"

end Mkts.Proto
