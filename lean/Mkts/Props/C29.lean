import Mkts.Lemmas.Rows
/-!
# C29 — Row serialization round-trips with alignment

Model: `Mkts.Rows` (`SerializeColumnsToRows`, `NewRowSeries`, `Rows.GetColumn`,
`RowSeries.ToColumnSeries`, `Rows.ToColumnSeries`; utils/io/columnseries.go, rowseries.go,
datatypes.go).  Column values are opaque byte strings of the element type's size
(`Extracted.attributeMap`), so every statement covers all element types and all values.

The full statement is false of the code in three input classes (Epoch column not in front,
int8/bool columns, a second column whose name folds to "epoch"); each has a counterexample
theorem, and `C29_partial` proves the round trip with exactly these classes excluded.
-/
namespace Mkts.Props.C29
open Mkts.Rows Mkts.Bytes

/-- The property at full strength: every valid series comes back unchanged (names, order, element
types, values) from `ToRowSeries` followed by either reader, with and without alignment. -/
def C29_full : Prop :=
  ∀ (cs : ColumnSeries) (align : Bool), ValidSeries cs →
    roundTrip cs align = .ok ⟨cs.cols, []⟩ ∧ roundTripRows cs align = .ok ⟨cs.cols, []⟩

/-- Values, names and column order always survive when `Epoch` is in front and has no alias;
element types come back as `GetColumn` types them (`retype`: BOOL and BYTE become UINT8). -/
theorem C29_values (cs : ColumnSeries) (align : Bool) (hv : ValidSeries cs)
    (h1 : epoch_first cs) (h3 : no_epoch_alias cs) :
    roundTrip cs align = .ok ⟨cs.cols.map retype, []⟩ ∧
    roundTripRows cs align = .ok ⟨cs.cols.map retype, []⟩ := by
  obtain ⟨e, rest, hcols, hef, hty⟩ := validEF_of cs hv h1 h3
  have hcs : cs = ⟨e :: rest, cs.incr⟩ := by cases cs; simp_all
  rw [hcs]
  exact ⟨roundTrip_valid e rest _ align hef hty, roundTripRows_valid e rest _ align hef hty⟩

/-- The round trip of C29 with exactly the three failing input classes excluded. -/
theorem C29_partial (cs : ColumnSeries) (align : Bool) (hv : ValidSeries cs)
    (h1 : epoch_first cs) (h2 : no_int8_bool cs) (h3 : no_epoch_alias cs) :
    roundTrip cs align = .ok ⟨cs.cols, []⟩ ∧ roundTripRows cs align = .ok ⟨cs.cols, []⟩ := by
  have hmap : cs.cols.map retype = cs.cols := by
    have hid : ∀ c ∈ cs.cols, retype c = c := by   -- every column keeps its type
      intro c hc
      have := readType_eq c.typ (hv.2.2 c hc).1 (h2 c hc).1 (h2 c hc).2
      simp [retype, this]
    rw [List.map_congr_left hid, List.map_id']
  have := C29_values cs align hv h1 h3
  rw [hmap] at this
  exact this

/-- Record layout: `recordLen` is the sum of the element sizes, rounded up to a multiple of 8
with alignment (less than 8 bytes of padding), and the data is exactly one record per row. -/
theorem C29_record_layout (cs : ColumnSeries) (align : Bool) (hv : ValidSeries cs)
    (h1 : epoch_first cs) (h3 : no_epoch_alias cs) :
    ∃ data recordLen, serializeColumnsToRows cs cs.getDataShapes align = .ok (data, recordLen) ∧
      data.length = cs.len * recordLen ∧
      shapesLen cs.getDataShapes ≤ recordLen ∧
      (align = false → recordLen = shapesLen cs.getDataShapes) ∧
      (align = true → recordLen % 8 = 0 ∧ recordLen < shapesLen cs.getDataShapes + 8) := by
  obtain ⟨e, rest, hcols, hef, _⟩ := validEF_of cs hv h1 h3
  have hcs : cs = ⟨e :: rest, cs.incr⟩ := by cases cs; simp_all
  have hds : cs.getDataShapes = (e :: rest).map toShape := by rw [hcs]; rfl
  have hlen : cs.len = e.elems.length := by simp [ColumnSeries.len, hcols]
  have hsl := shapesLen_valid e rest hef
  refine ⟨(rowsOf e rest align).data, recLen rest align, ?_, ?_, ?_, ?_, ?_⟩
  · rw [hds, hcs]; exact serialize_ok e rest _ align hef
  · rw [hlen]; exact flatten_rows_length e rest align hef
  · rw [hds, hsl]; exact recLen_ge rest align
  · intro h; rw [hds, hsl, h]; rfl
  · intro h
    rw [hds, hsl, h]
    simp only [recLen, alignedSize, if_true]
    split <;> rename_i hm <;> simp only [beq_iff_eq] at hm <;> omega

/-! ## counterexamples (each is replayed on the implementation: corpus/C29/known_*.ops) -/

def b8 (x : UInt8) : Bytes := [x, 0, 0, 0, 0, 0, 0, 0]

/-- `A` int64 before `Epoch`: the records start with the epoch but `GetColumn` walks the shapes -/
def cexEpochSecond : ColumnSeries := ⟨[⟨"A", INT64, [b8 1, b8 2]⟩, ⟨"Epoch", INT64, [b8 7, b8 8]⟩], []⟩
/-- an int8 column: comes back as `[]uint8` -/
def cexInt8 : ColumnSeries := ⟨[⟨"Epoch", INT64, [b8 7]⟩, ⟨"B", BYTE, [[0xff]]⟩], []⟩
/-- a column `EPOCH` next to `Epoch`: skipped by the record loop but counted in `recordLen` -/
def cexAlias : ColumnSeries := ⟨[⟨"Epoch", INT64, [b8 7, b8 8]⟩, ⟨"EPOCH", INT32, [[1, 0, 0, 0], [2, 0, 0, 0]]⟩], []⟩

theorem C29_cex_epoch_not_first :
    ValidSeries cexEpochSecond ∧ no_int8_bool cexEpochSecond ∧ no_epoch_alias cexEpochSecond ∧
    roundTrip cexEpochSecond false =
      .ok ⟨[⟨"Epoch", INT64, [b8 7, b8 8]⟩, ⟨"A", INT64, [b8 7, b8 8]⟩], []⟩ := by decide

theorem C29_cex_int8 :
    ValidSeries cexInt8 ∧ epoch_first cexInt8 ∧ no_epoch_alias cexInt8 ∧
    roundTrip cexInt8 false = .ok ⟨[⟨"Epoch", INT64, [b8 7]⟩, ⟨"B", UINT8, [[0xff]]⟩], []⟩ := by decide

theorem C29_cex_epoch_alias :
    ValidSeries cexAlias ∧ epoch_first cexAlias ∧ no_int8_bool cexAlias ∧
    roundTrip cexAlias false =
      .ok ⟨[⟨"Epoch", INT64, [b8 7]⟩, ⟨"EPOCH", INT32, [[8, 0, 0, 0]]⟩], []⟩ := by decide

theorem C29_not_full : ¬ C29_full := by
  intro h
  have h1 := (h cexInt8 false C29_cex_int8.1).1
  rw [C29_cex_int8.2.2.2] at h1
  exact absurd h1 (by decide)

/-! ## non-vacuity: the hypotheses of `C29_partial` hold for a non-trivial series -/

def sample : ColumnSeries :=
  ⟨[⟨"Epoch", INT64, [b8 1, b8 2, b8 3]⟩, ⟨"Open", FLOAT32, [[1, 2, 3, 4], [5, 6, 7, 8], [9, 10, 11, 12]]⟩,
    ⟨"Flag", UINT8, [[1], [0], [1]]⟩], []⟩

example : ValidSeries sample ∧ epoch_first sample ∧ no_int8_bool sample ∧ no_epoch_alias sample := by decide
example : roundTrip sample true = .ok ⟨sample.cols, []⟩ := (C29_partial sample true (by decide) (by decide) (by decide) (by decide)).1
example : (serializeColumnsToRows sample sample.getDataShapes true).map (fun p => (p.1.length, p.2)) = .ok (48, 16) := by decide

end Mkts.Props.C29
