import Mkts.Proto
import Mkts.Model.Rows
/-! Driver ops for the row-serialization model (C29) and shared column-series token parsing. -/
namespace Mkts.Driver.Rows
open Mkts.Proto Mkts.Rows Mkts.Bytes

def nameOfHex (s : String) : Option String := do
  let b ← hexToBytes s
  String.fromUTF8? (ByteArray.mk b.toArray)

def hexOfName (s : String) : String := bytesToHex s.toUTF8.toList

/-- split a column blob into elements of `sz` bytes (fuel = blob length) -/
def chunk (sz : Nat) : Nat → Bytes → List Bytes
  | 0, _ => []
  | fuel + 1, bs => if bs.isEmpty then [] else bs.take sz :: chunk sz fuel (bs.drop sz)

/-- `namehex:type:datahex` -/
def parseColumn (s : String) : Option Column :=
  match s.splitOn ":" with
  | [n, t, d] => do
    let name ← nameOfHex n
    let typ ← parseNat t
    let data ← hexToBytes d
    let sz := typeSize typ
    if sz == 0 then (if data.isEmpty then some ⟨name, typ, []⟩ else none)
    else if data.length % sz != 0 then none
    else some ⟨name, typ, chunk sz data.length data⟩
  | _ => none

/-- `col;col;…` or `-`; built through `AddColumn` like the harness does -/
def parseCS (s : String) : Option ColumnSeries :=
  if s == "-" then some ColumnSeries.empty
  else do
    let cols ← (s.splitOn ";").mapM parseColumn
    pure (ColumnSeries.ofList cols)

def parseShapes (s : String) : Option (List DataShape) :=
  if s == "-" then some []
  else (s.splitOn ",").mapM (fun p => match p.splitOn ":" with
    | [n, t] => do pure ⟨← nameOfHex n, ← parseNat t⟩
    | _ => none)

def showColumn (c : Column) : String :=
  hexOfName c.name ++ ":" ++ toString c.typ ++ ":" ++ bytesToHex c.elems.flatten

def showCS (cs : ColumnSeries) : String :=
  if cs.cols.isEmpty then "-" else ";".intercalate (cs.cols.map showColumn)

def showRes (r : Res ColumnSeries) : String :=
  match r with
  | .ok cs => showCS cs
  | .error e => e

/-- hypotheses of `C29_partial` that are false for this input -/
def c29Hyps (cs : ColumnSeries) : List String :=
  if cs.cols.any (fun c => c.typ == BOOL) then ["no_bool"] else []

/-- what the property demands: the Epoch column first, then the other columns in their order -/
def c29Expect (cs : ColumnSeries) : ColumnSeries :=
  ⟨cs.cols.filter (fun c => c.name == "Epoch") ++ cs.cols.filter (fun c => !(c.name == "Epoch")), []⟩

/-- is the input a column series the property speaks about: every column a fixed-width type, all
columns of one length, distinct names, an int64 `Epoch` column -/
def c29Valid (cs : ColumnSeries) : Bool :=
  cs.cols.all (fun c => (getterTable.lookup c.typ).isSome && c.elems.length == cs.len) &&
  (cs.cols.map (·.name)).eraseDups.length == cs.cols.length &&
  cs.cols.any (fun c => c.name == "Epoch" && c.typ == INT64)

/-- `rowser align rowtype cs shapes`.  `shapes` = `=` with row type NOTYPE (2): the real
`cs.ToRowSeries(key, align)`; `=` otherwise: `cs.GetDataShapes()` handed to `SerializeColumnsToRows`
and `NewRowSeries` directly; else an explicit shape list. -/
def rowserOp : Op := fun args =>
  match args with
  | [al, rt, css, shs] =>
    match parseNat al, parseNat rt, parseCS css with
    | some al, some rt, some cs =>
      let shapes? := if shs == "=" then some (if rt == 2 then toRowSeriesShapes cs else cs.getDataShapes)
        else parseShapes shs
      match shapes? with
      | none => badArgs
      | some shapes =>
        let m : Res String := do
          let (data, recLen) ← serializeColumnsToRows cs shapes (al != 0)
          let rows := newRowSeries data shapes recLen rt
          let rcs := showRes rows.toColumnSeries
          if rcs.startsWith "panic:" then throw rcs
          let cs2 ← rows.rowSeriesToColumnSeries
          pure s!"reclen={recLen} data={bytesToHex data} rcs={rcs} cs={showCS cs2}"
        let mline := match m with
          | .ok s => s
          | .error e => e
        if shs == "=" && rt == 2 && c29Valid cs then
          let e := showCS (c29Expect cs)
          s!"M:{mline}\tS:~ rcs={e} cs={e}\tH:{",".intercalate (c29Hyps cs)}"
        else s!"M:{mline}"
    | _, _, _ => badArgs
  | _ => badArgs

def ops : OpTable := [("rowser", rowserOp)]

end Mkts.Driver.Rows
