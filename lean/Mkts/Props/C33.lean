import Mkts.Lemmas.Csv
/-!
# C33 — CSV import loads every row or reports an error

Model: `Mkts.Csv` (cmd/connect/loader, the loop of cmd/connect/session/load.go).  The input is the
list of CSV records after lexing (`encoding/csv` is trusted, its FieldsPerRecord / blank-line /
bare-quote behaviour is modelled by `read`); `load cfg header records k` is `ReadMetadata` on the
header row followed by the loop `for { CSVtoNumpyMulti(chunkSize = k) … }`; its result is the
status and the list of datasets handed to the writer.

* `C33_partial`: for every file whose records are all well-formed (`GoodRec`: right field count,
  no bare quote, time field readable in the configured format, every value parsable for its bucket
  column type) and EVERY chunk size k ≥ 1: status ok, and the datasets concatenated are exactly
  the parsed rows of all records, in order; no dataset is empty or longer than k.
* `C33_full` (∀ configuration, header, records, chunk size ≥ 1 — no well-formedness at all): the
  loader never panics, and status ok implies that every data row was handed to the writer.
  `C33_malformed_reported`: a record with a wrong field count or a bare quote is reported.
* Four statements of the loader are read off the regenerated skeletons by the model
  (`readerErrorReported`, `timeErrorReported`, `timestampUsesDefaultZone`, `fixupBoundsChecked`) and
  pinned here (`skel_CSVtoNumpyMulti`, `skel_convertCSVtoCSM`, `code_variants`): before the repairs
  ("fix: report malformed CSV records…", "fix: return an error when the CSV time columns…",
  "fix: default to UTC for timeFormat timestamp…", "fix: reject a time field shorter…") a reader
  error was taken for the end of the input and the three time problems crashed the client.
-/
namespace Mkts.Props.C33
open Mkts.Csv

/-- well-formed configuration: usable time zone, no column type `NewNumpyDataset` rejects -/
structure GoodCfg (cfg : Config) : Prop where
  tz : ∀ _ : cfg.tz = .invalid, False
  noBool : cfg.schema.any (fun c => c.2 == .bool) = false

/-- every well-formed file is loaded completely, with the parsed values, for EVERY chunk size -/
theorem C33_partial (cfg : Config) (header : Rec) (records : List Rec) (idx : List Nat) (k : Nat)
    (hk : 1 ≤ k) (hcfg : GoodCfg cfg) (hmeta : readMetadata cfg header = some (0, idx))
    (hrec : ∀ r ∈ records, GoodRec cfg header.length idx r) :
    (load cfg header records k).status = .ok ∧
    (load cfg header records k).chunks.flatten = records.map (rowOf cfg idx) ∧
    ∀ c ∈ (load cfg header records k).chunks, c.length ≤ k ∧ c ≠ [] := by
  unfold load
  rw [hmeta]
  simp only [bne_self_eq_false, Bool.false_eq_true, if_false]
  exact loadLoop_good cfg header.length idx k hk hcfg.tz hcfg.noBool _ records (by omega) hrec

/-- in particular the loaded rows do not depend on the chunk size -/
theorem C33_chunk_independent (cfg : Config) (header : Rec) (records : List Rec) (idx : List Nat)
    (k k' : Nat) (hk : 1 ≤ k) (hk' : 1 ≤ k') (hcfg : GoodCfg cfg)
    (hmeta : readMetadata cfg header = some (0, idx))
    (hrec : ∀ r ∈ records, GoodRec cfg header.length idx r) :
    (load cfg header records k).chunks.flatten = (load cfg header records k').chunks.flatten := by
  rw [(C33_partial cfg header records idx k hk hcfg hmeta hrec).2.1,
      (C33_partial cfg header records idx k' hk' hcfg hmeta hrec).2.1]

/-- what a loaded row contains: the parsed time and, for every bucket column, the parsed value of
    the CSV field the header maps it to (`GoodRec` makes every `getD` default irrelevant) -/
theorem C33_row_values (cfg : Config) (n : Nat) (idx : List Nat) (r : Rec) (h : GoodRec cfg n idx r) :
    (∃ t, parseTime cfg (r.getD 0 []) 0 = .ok (some t) ∧
      (rowOf cfg idx r).epoch = t / 1000000000 ∧ (rowOf cfg idx r).nanos = t % 1000000000) ∧
    (rowOf cfg idx r).vals.length = (cfg.schema.zip idx).length ∧
    ∀ ci ∈ cfg.schema.zip idx, ∃ v, parseVal ci.1.2 (r.getD ci.2 []) = some v ∧ v ∈ (rowOf cfg idx r).vals := by
  refine ⟨?_, by simp [rowOf], ?_⟩
  · obtain ⟨t, ht⟩ := h.time
    have e : timeNs cfg r = t := by unfold timeNs; rw [ht]
    exact ⟨t, ht, by simp only [rowOf, e], by simp only [rowOf, e]⟩
  · intro ci hci
    have := h.vals ci hci
    cases hv : parseVal ci.1.2 (r.getD ci.2 []) with
    | none => rw [hv] at this; cases this
    | some v =>
      refine ⟨v, rfl, ?_⟩
      simp only [rowOf, List.mem_map]
      exact ⟨ci, hci, by rw [hv]; rfl⟩

/-! ## the tie to the source -/

/-- `CSVtoNumpyMulti` of the current source (regenerated skeleton): inside the read loop only io.EOF
    ends the input, any other reader error is returned -/
theorem skel_CSVtoNumpyMulti :
    Mkts.Extracted.Skel.cmd_connect_loader_CSVtoNumpyMulti =
      ["call:log.Info", "for{", "call:csvReader.Read", "call:errors.Is", "if:errors.Is(err2, stdio.EOF){", "break",
       "}", "if:err2 != nil{", "call:fmt.Errorf", "return", "}", "}",
       "if:len(csvChunk) == 0{", "return", "}", "call:log.Info", "call:convertCSVtoCSM", "if:err != nil{",
       "return", "}", "if:!isVariable{", "call:csm[tbk].Remove", "if:err != nil{", "call:fmt.Sprintf",
       "call:log.Info", "}", "}", "call:io.NewNumpyDataset", "if:err != nil{", "return",
       "}", "call:io.NewNumpyMultiDataset", "if:err != nil{", "call:fmt.Errorf", "return", "}",
       "return"] := by decide

/-- `convertCSVtoCSM`: nil time columns are an error -/
theorem skel_convertCSVtoCSM :
    Mkts.Extracted.Skel.cmd_connect_loader_convertCSVtoCSM =
      ["call:readTimeColumns", "if:epochCol == nil{", "call:log.Error", "call:fmt.Errorf", "return", "}",
       "call:io.NewColumnSeriesMap", "call:csmInit.AddColumn", "call:columnSeriesMapFromCSVData", "if:err != nil{",
       "call:fmt.Errorf", "return", "}", "call:csm.AddColumn", "return"] := by decide

/-- the four variants the model reads off the skeletons, as they are in the current source
    (`parseTime`: `Time.In(tz)` with the defaulted zone; guarded `formatFixupState`) -/
theorem code_variants :
    readerErrorReported = true ∧ timeErrorReported = true ∧ timestampUsesDefaultZone = true ∧
    fixupBoundsChecked = true :=
  ⟨code_reports_reader_errors, code_reports_time_errors, code_timestamp_default_zone, code_checks_fixup_bounds⟩

/-! ## the full statement -/

/-- C33 as stated, for ARBITRARY configuration, header, records and chunk size: the loader never
    crashes, and whenever no error is reported every data row (non-blank record) has been handed to
    the writer. -/
theorem C33_full (cfg : Config) (header : Rec) (records : List Rec) (k : Nat) (hk : 1 ≤ k) :
    (load cfg header records k).status.isPanic = false ∧
    ((load cfg header records k).status = .ok →
      ((load cfg header records k).chunks.map List.length).sum = dataRows records) := by
  unfold load
  cases readMetadata cfg header with
  | none => exact ⟨rfl, fun h => by cases h⟩
  | some p =>
    obtain ⟨e, idx⟩ := p
    simp only []
    by_cases he : (e != 0) = true
    · simp only [he, if_true]
      exact ⟨rfl, fun h => by cases h⟩
    · simp only [he, Bool.false_eq_true, if_false]
      exact loadLoop_any cfg header.length e idx k hk _ records

/-- a malformed record (wrong field count or bare quote) after well-formed ones is REPORTED, for
    every chunk size; what was handed to the writer before is a prefix of the well-formed rows -/
theorem C33_malformed_reported (cfg : Config) (header : Rec) (good : List Rec) (bad : Rec) (rest : List Rec)
    (idx : List Nat) (k : Nat) (hk : 1 ≤ k) (hcfg : GoodCfg cfg)
    (hmeta : readMetadata cfg header = some (0, idx))
    (hgood : ∀ r ∈ good, GoodRec cfg header.length idx r) (hbad : BadRec header.length bad) :
    (load cfg header (good ++ bad :: rest) k).status = .errReader ∧
    ∃ m, m ≤ good.length ∧
      (load cfg header (good ++ bad :: rest) k).chunks.flatten = (good.take m).map (rowOf cfg idx) := by
  unfold load
  rw [hmeta]
  simp only [bne_self_eq_false, Bool.false_eq_true, if_false]
  exact loadLoop_malformed cfg header.length idx k hk hcfg.tz hcfg.noBool bad rest hbad _ good (by omega) hgood

/-! ## the former counterexamples, now regression examples of the repaired behaviour -/

def cfgTs : Config :=
  { fmt := .timestamp, tz := .zone Mkts.Time.utc, schema := [(['V'], .i64)], isVariable := false }
def hdr : Rec := [['E', 'p', 'o', 'c', 'h'], ['V']]

/-- three rows, the second has an extra field (before the repair: `ok` with one row loaded) -/
def silentFile : List Rec := [[['1'], ['1', '0']], [['2'], ['2', '0'], ['9']], [['3'], ['3', '0']]]
/-- an unreadable time field in the second row (before the repair: nil dereference) -/
def panicFile : List Rec := [[['1'], ['1', '0']], [['a', 'b', 'c'], ['2', '0']]]

def cfgLay : Config :=
  { fmt := .layout, tz := .zone Mkts.Time.utc, schema := [], isVariable := true }
def t1 : Str := "20161230 21:37:57".toList
def t2 : Str := "20161230 21:37:58 140000".toList
def t3 : Str := "20161230 21:37:59".toList
def short : Str := "2016".toList

theorem C33_examples_after_repair :
    load cfgTs hdr silentFile 1000000 = ⟨.errReader, []⟩ ∧
    load cfgTs hdr panicFile 1000000 = ⟨.errTime, []⟩ ∧
    -- `timeFormat: timestamp` without a zone (before: Time.In(nil) panic): UTC
    load { cfgTs with tz := .empty } hdr [[['1'], ['1', '0']]] 1000000 = ⟨.ok, [[⟨1, 0, [10]⟩]]⟩ ∧
    -- a 4-character time field after the format was tuned to a 7-character suffix (before: slice panic)
    (load cfgLay [['E', 'p', 'o', 'c', 'h']] [[t2], [short]] 3).status = .errTime := by
  decide +kernel

/-- NOT changed by the repairs: the tuning state of the time format is per chunk, so a file mixing
    plain and extended time fields is loaded with chunk size 1 and rejected (with an error, no
    longer a crash) with chunk size 3.  Both outcomes satisfy the property. -/
theorem C33_tuning_is_per_chunk :
    (load cfgLay [['E', 'p', 'o', 'c', 'h']] [[t1], [t2], [t3]] 1).status = .ok ∧
    ((load cfgLay [['E', 'p', 'o', 'c', 'h']] [[t1], [t2], [t3]] 1).chunks.map List.length).sum = 3 ∧
    (load cfgLay [['E', 'p', 'o', 'c', 'h']] [[t1], [t2], [t3]] 3).status = .errTime := by
  decide +kernel

/-! ## non-vacuity: a two-row file satisfying every hypothesis of `C33_partial` -/

def okFile : List Rec := [[['1'], ['1', '0']], [['2', '.', '5'], ['-', '7']]]

example : GoodCfg cfgTs := ⟨fun h => by simp [cfgTs] at h, by decide⟩
example : readMetadata cfgTs hdr = some (0, [1]) := by decide +kernel
example : ∀ r ∈ okFile, GoodRec cfgTs hdr.length [1] r := by
  intro r hr
  simp only [okFile, List.mem_cons, List.not_mem_nil, or_false] at hr
  rcases hr with rfl | rfl
  · exact ⟨by decide, by decide, by decide, ⟨1000000000, by decide +kernel⟩, by decide +kernel⟩
  · exact ⟨by decide, by decide, by decide, ⟨2500000000, by decide +kernel⟩, by decide +kernel⟩
example : load cfgTs hdr okFile 1 = ⟨.ok, [[⟨1, 0, [10]⟩], [⟨2, 500000000, [-7]⟩]]⟩ := by decide +kernel

end Mkts.Props.C33
