import Mkts.Proto
import Mkts.Model.FlushProto
import Mkts.Model.FlushTie
/-! Driver op for the write/flush rendez-vous (C07): coarse-grained directed schedules that the Go
harness can force on the real code with the `verif` hooks:
`W<w>` = writer w runs WriteCSM up to its blocking point (enqueue; request),
`F`    = the flushChannel arm of SyncWAL once (take; finish), `T` = the timer arm once (timer; finish),
`Ft`/`Tt` = the arm up to the point where the transaction group is in the WAL and handed to the
replication sender (the harness parks it there with a blocking sender), `Ff`/`Tf` = the rest. -/
namespace Mkts.Driver.FlushProto
open Mkts.Proto Mkts.FlushProto Mkts.Skel

def pcChar : WPc → String
  | .start => "S" | .queued => "Q" | .waiting _ => "B" | .returned => "R"

def showSt (s : St) : String :=
  String.join (s.writers.map pcChar) ++ "/" ++
    (let d := (List.range s.writers.length).filter (fun w => s.durable.contains w)
     if d.isEmpty then "-" else ",".intercalate (d.map toString))

/-- an empty snapshot finishes at once (`FlushToWAL` returns before any I/O when nothing is queued) -/
def autoFinish (early : Bool) (s : St) : Option St :=
  match s.loop with
  | .flushing [] _ => step early s .finish
  | _ => some s

/-- one token of a directed schedule; `none` = not enabled -/
def tokStep (early : Bool) (s : St) (tok : String) : Option (Option St) :=
  if tok == "F" then some (run early s [.take, .finish])
  else if tok == "T" then some (run early s [.timer, .finish])
  else if tok == "Ft" then some ((step early s .take).bind (autoFinish early))
  else if tok == "Tt" then some ((step early s .timer).bind (autoFinish early))
  else if tok == "Ff" || tok == "Tf" then some (step early s .finish)
  else if tok.startsWith "W" then
    (parseNat (tok.drop 1).toString).map (fun w => run early s [.enqueue w, .request w])
  else none

def runCoarse (early : Bool) : St → List String → List String → List String
  | _, [], acc => acc.reverse
  | s, tok :: rest, acc =>
    match tokStep early s tok with
    | none => (("bad-op") :: acc).reverse
    | some none => runCoarse early s rest ("disabled" :: acc)
    | some (some s') => runCoarse early s' rest (showSt s' :: acc)

/-- the REAL writer loop with its timers out of reach: it takes a queued request as soon as it is
idle; an empty snapshot is finished (and answered) at once, a non-empty one parks at the sender -/
def settleLoop (early : Bool) : Nat → St → St
  | 0, s => s
  | fuel + 1, s =>
    match s.loop, s.flushCh with
    | .idle, _ :: _ =>
      match (step early s .take).bind (autoFinish early) with
      | some s' => settleLoop early fuel s'
      | none => s
    | _, _ => s

def realTok (early : Bool) (s : St) (tok : String) : Option (Option St) :=
  if tok == "Ff" then some ((step early s .finish).map (fun s' => settleLoop early (s'.flushCh.length + 1) s'))
  else if tok.startsWith "W" then
    (parseNat (tok.drop 1).toString).map (fun w =>
      (run early s [.enqueue w, .request w]).map (fun s' => settleLoop early (s'.flushCh.length + 1) s'))
  else none

def runReal (early : Bool) : St → List String → List String → List String
  | _, [], acc => acc.reverse
  | s, tok :: rest, acc =>
    match realTok early s tok with
    | none => (("bad-op") :: acc).reverse
    | some none => runReal early s rest ("disabled" :: acc)
    | some (some s') => runReal early s' rest (showSt s' :: acc)

/-- `flushreal <n> <tok> …` (tokens `W<w>`, `Ff`): the same protocol driven through the REAL
`SyncWAL` goroutine (request arm); the harness only parks and releases the flush in progress. -/
def flushrealOp : Op := fun args =>
  match args with
  | ns :: toks =>
    match parseNat ns with
    | some n =>
      let m := " ".intercalate (runReal earlyInCode (init n) toks [])
      let sp := " ".intercalate (runReal false (init n) toks [])
      s!"M:{m}\tS:{sp}\tH:"
    | none => "M:bad-op"
  | _ => "M:bad-op"

/-- `flushsched <n> <tok> <tok> …` → one `pcs/visible` token per step.  The spec (C07): the same
trace as the protocol WITHOUT early return, in which every returned writer is visible. -/
def flushschedOp : Op := fun args =>
  match args with
  | ns :: toks =>
    match parseNat ns with
    | some n =>
      let m := " ".intercalate (runCoarse earlyInCode (init n) toks [])
      let sp := " ".intercalate (runCoarse false (init n) toks [])
      s!"M:{m}\tS:{sp}\tH:"
    | none => "M:bad-op"
  | _ => "M:bad-op"

/-- `flushstress <writers> <rounds> <seed>`: real goroutines against the real background writer,
each write followed by a read of the same row; the property demands every read sees its write. -/
def flushstressOp : Op := fun _ => "M:ok\tS:ok\tH:"

def ops : OpTable := [("flushsched", flushschedOp), ("flushreal", flushrealOp), ("flushstress", flushstressOp)]
end Mkts.Driver.FlushProto
