import Mkts.Proto
import Mkts.Model.Fanout
/-!
Driver for the C26 ops (see go/harness/fanout_ops.go):

  fanout <ev>,<ev>,…      o<r> open | x<r> disconnect | s[*n] SendReplicationMessage(next tg) |
                          r<r>[*n] let one `stream.Send` of replica r return
  fanq <n>                real Sender in front of the server, one replica that never returns from Send

Every harness event is a fixed sequence of micro-steps of `Mkts.Fanout.step` (the transition system the
C26 theorems are about); stream goroutines run eagerly up to their gate (`settle`).
-/
namespace Mkts.Driver.Fanout
open Mkts.Proto Mkts.Fanout

inductive Mode
  | run
  | blocked (rid : Nat)
  | dead
deriving DecidableEq

structure DS where
  s : St
  mode : Mode

def cfg : Cfg := realCfg

/-- `(kind, rid, count)` -/
def parseEv (ev : String) : Option (Char × Nat × Nat) :=
  let (body, count) := match ev.splitOn "*" with
    | [b, c] => (b, c.toNat?)
    | [b] => (b, some 1)
    | _ => ("", none)
  match count, body.toList with
  | some c, k :: rest =>
    if c < 1 then none else
    if k == 's' then (if rest.isEmpty then some (k, 0, c) else none)
    else (String.ofList rest).toNat?.map (fun r => (k, r, c))
  | _, _ => none

/-- replicas whose channel is full (registered ones) -/
def fullRids (s : St) : List Nat :=
  s.rids.filter (fun r => match s.streams r with
    | some x => x.inMap && decide (cfg.chanCap ≤ x.buf.length)
    | none => false)

def isSending (s : St) (rid : Nat) : Bool :=
  match s.streams rid with
  | some x => (match x.pc with | .sending _ => true | _ => false)
  | none => false

def isAlive (s : St) (rid : Nat) : Bool :=
  match s.streams rid with
  | some x => x.alive
  | none => false

/-- one occurrence of an event: new state and result token; `none` = outside the supported schedules -/
def doEv (d : DS) (kind : Char) (rid : Nat) : Option (DS × String) :=
  match d.mode with
  | .dead => some (d, "dead")
  | .run =>
    if kind == 'o' then
      match step cfg d.s (.open rid) with
      | some s' => some ({ d with s := s' }, "ok")
      | none => some (d, "dup")
    else if kind == 'x' then
      match step cfg d.s (.disconnect rid) with
      | some s' => some ({ d with s := s' }, "ok")
      | none => some (d, "noop")
    else if kind == 's' then
      match macroSend cfg d.s with
      | .done s' => some ({ d with s := settle cfg s' }, "ok")
      | .blocked s' =>
        (match fullRids d.s with
         | [r] => some ({ s := s', mode := .blocked r }, "blocked")
         | _ => none)
      | .panicked s' => some ({ s := s', mode := .dead }, "panic:closedchan")
    else if kind == 'r' then
      if isSending d.s rid then
        match step cfg d.s (.streamSend rid) with
        | some s1 =>
          if isAlive d.s rid then some ({ d with s := settle cfg s1 }, "ok")
          else some ({ d with s := finishExit cfg s1 rid }, "closed")
        | none => some (d, "noop")
      else some (d, "noop")
    else none
  | .blocked rb =>
    if kind == 's' then some (d, "skipped")
    else if kind == 'x' && rid == rb then
      match step cfg d.s (.disconnect rid) with
      | some s' => some ({ d with s := s' }, "ok")
      | none => some (d, "noop")
    else if kind == 'r' && rid == rb then
      match step cfg d.s (.streamSend rid) with
      | some s1 =>
        if isAlive d.s rid then
          match fanLoop cfg (2 * d.s.rids.length + 2) (settle cfg s1) with
          | .done s2 => some ({ s := settle cfg s2, mode := .run }, "ok+unblocked")
          | _ => none
        else
          let s2 := finishExit cfg s1 rid
          match step cfg s2 .senderSend with
          | some s3 => if s3.panicked then some ({ s := s3, mode := .dead }, "panic:closedchan") else none
          | none => none
      | none => none
    else none

/-- an event with a repeat count: stop at the first result that is not `ok` -/
def doEvN (d : DS) (kind : Char) (rid : Nat) : Nat → Nat → Nat → Option (DS × String)
  | 0, _, _ => some (d, "ok")
  | fuel + 1, i, count =>
    match doEv d kind rid with
    | none => none
    | some (d', r) =>
      if r == "ok" then
        (if fuel == 0 then some (d', "ok") else doEvN d' kind rid fuel (i + 1) count)
      else some (d', if count == 1 then r else s!"{r}@{i}")

def runEvs : DS → List String → List String → Option (DS × List String)
  | d, [], out => some (d, out.reverse)
  | d, ev :: rest, out =>
    match parseEv ev with
    | none => none
    | some (k, r, c) =>
      match doEvN d k r c 0 c with
      | none => none
      | some (d', tok) => runEvs d' rest (s!"{ev}={tok}" :: out)

/-- final drain: every connected replica receives everything queued for it -/
def drainOne (rid : Nat) : Nat → St → St
  | 0, s => s
  | fuel + 1, s =>
    if isSending s rid then
      match step cfg s (.streamSend rid) with
      | some s1 => drainOne rid fuel (settle cfg s1)
      | none => s
    else s

def drain (s : St) : St :=
  s.rids.foldl (fun s r =>
    match s.streams r with
    | some x => if x.alive && x.inMap then drainOne r (x.buf.length + 2) s else s
    | none => s) s

def showNats (l : List Nat) : String := if l.isEmpty then "-" else ",".intercalate (l.map toString)

def observe (d : DS) : String :=
  "|".intercalate (d.s.rids.map (fun r =>
    match d.s.streams r with
    | none => s!"{r}:?"
    | some x =>
      if d.mode != .run then s!"{r}:g={showNats x.got}"
      else
        let q := if x.inMap then x.buf.length else 0
        let m := if x.inMap then 1 else 0
        let p := match x.pc with | .sending tg => toString tg | _ => "-"
        s!"{r}:g={showNats x.got}:q={q}:m={m}:p={p}"))

def complete (d : DS) : Bool :=
  d.mode == .run && d.s.rids.all (fun r =>
    match d.s.streams r with
    | none => true
    | some x => !x.alive || x.got == List.range' x.openedAt (d.s.n - x.openedAt))

def fanoutOp : Op := fun args =>
  match args with
  | [evs] =>
    match runEvs ⟨init, .run⟩ (evs.splitOn ",") [] with
    | none => "M:unsupported"
    | some (d, toks) =>
      let noPanic := !toks.any (fun t => (t.splitOn "panic:").length > 1)
      let noBlock := !toks.any (fun t => (t.splitOn "=blocked").length > 1)
      let d' : DS := if d.mode == .run then { d with s := drain d.s } else d
      let st := match d'.mode with | .run => "run" | .blocked _ => "blocked" | .dead => "dead"
      let b := fun (x : Bool) => if x then "1" else "0"
      let line := " ".intercalate toks ++ s!" |{st}|{observe d'} V={b noPanic}{b noBlock}{b (complete d')}"
      let hDisc := toks.any (fun t => t.startsWith "x" && t.endsWith "=ok")
      let hy := (if hDisc then ["no_disconnect"] else []) ++ (if noBlock then [] else ["replicas_keep_up"])
      s!"M:{line}\tS:~V=111\tH:{",".intercalate hy}"
  | _ => badArgs

/-! ### fanq -/

/-- run the sender goroutine and the (single) stream goroutine as far as they can go on their own -/
def eager : Nat → St → St
  | 0, s => s
  | fuel + 1, s =>
    match step cfg s (.streamRecv 1) with
    | some s' => eager fuel s'
    | none =>
    match step cfg s .senderSend with
    | some s' => eager fuel s'
    | none =>
    match step cfg s .senderDone with
    | some s' => eager fuel s'
    | none =>
    match step cfg s (.senderPick 1) with
    | some s' => eager fuel s'
    | none =>
    match step cfg s .senderTake with
    | some s' => eager fuel s'
    | none => s

def commits : Nat → St → Nat → Nat × Bool
  | 0, _, sent => (sent, false)
  | k + 1, s, sent =>
    match step cfg s .commit with
    | none => (sent, true)
    | some s' => commits k (eager 8 s') (sent + 1)

def fanqOp : Op := fun args =>
  match args with
  | [n] =>
    match n.toNat?, step cfg init (.open 1) with
    | some n, some s0 =>
      let (sent, blocked) := commits n s0 0
      let bl := if blocked then "1" else "0"
      s!"M:sent={sent} blocked={bl}\tS:~blocked=0\tH:{if blocked then "replicas_keep_up" else ""}"
    | _, _ => badArgs
  | _ => badArgs

def ops : OpTable := [("fanout", fanoutOp), ("fanq", fanqOp)]

end Mkts.Driver.Fanout
