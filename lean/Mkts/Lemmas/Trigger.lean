import Mkts.Model.Trigger
/-! Helper lemmas for C32 (trigger dispatch). Core Lean only. -/
namespace Mkts.Trigger
open Mkts.Bytes List

/-! ## matcher ⇔ language -/

theorem matchPlus_iff (k : List Char → Bool) (s : List Char) :
    matchPlus k s = true ↔ ∃ w r, s = w ++ r ∧ w ≠ [] ∧ (∀ x ∈ w, x ≠ '/') ∧ k r = true := by
  induction s with
  | nil =>
    simp only [matchPlus, Bool.false_eq_true, false_iff]
    rintro ⟨w, r, h, hw, _⟩
    cases w with
    | nil => exact hw rfl
    | cons a w => simp at h
  | cons x s ih =>
    simp only [matchPlus, Bool.and_eq_true, Bool.or_eq_true, bne_iff_ne, ne_eq]
    constructor
    · rintro ⟨hx, h | h⟩
      · exact ⟨[x], s, rfl, by simp, by simpa using hx, h⟩
      · obtain ⟨w, r, hs, _, hall, hk⟩ := ih.mp h
        refine ⟨x :: w, r, by simp [hs], by simp, ?_, hk⟩
        intro y hy
        rcases List.mem_cons.mp hy with rfl | hy
        · exact hx
        · exact hall y hy
    · rintro ⟨w, r, hs, hw, hall, hk⟩
      cases w with
      | nil => exact absurd rfl hw
      | cons y w =>
        simp only [List.cons_append, List.cons.injEq] at hs
        obtain ⟨rfl, hs⟩ := hs
        refine ⟨hall x (by simp), ?_⟩
        by_cases hw' : w = []
        · subst hw'
          left
          simpa [hs] using hk
        · right
          exact ih.mpr ⟨w, r, hs, hw', fun z hz => hall z (List.mem_cons_of_mem _ hz), hk⟩

theorem matchHere_iff (p : List Tok) : ∀ s : List Char,
    matchHere p s = true ↔ ∃ m b, s = m ++ b ∧ Denote p m := by
  induction p with
  | nil =>
    intro s
    simp only [matchHere, true_iff]
    exact ⟨[], s, rfl, Denote.nil⟩
  | cons t p ih =>
    intro s
    cases t with
    | lit c =>
      cases s with
      | nil =>
        simp only [matchHere, Bool.false_eq_true, false_iff]
        rintro ⟨m, b, h, hd⟩
        cases hd
        simp at h
      | cons x s =>
        simp only [matchHere, Bool.and_eq_true, beq_iff_eq]
        constructor
        · rintro ⟨rfl, h⟩
          obtain ⟨m, b, hs, hd⟩ := (ih s).mp h
          exact ⟨x :: m, b, by simp [hs], Denote.lit hd⟩
        · rintro ⟨m, b, hs, hd⟩
          cases hd with
          | lit hd' =>
            simp only [List.cons_append, List.cons.injEq] at hs
            exact ⟨hs.1, (ih s).mpr ⟨_, b, hs.2, hd'⟩⟩
    | plus =>
      simp only [matchHere]
      rw [matchPlus_iff]
      constructor
      · rintro ⟨w, r, hs, hw, hall, hk⟩
        obtain ⟨m, b, hr, hd⟩ := (ih r).mp hk
        exact ⟨w ++ m, b, by simp [hs, hr], Denote.plus hw hall hd⟩
      · rintro ⟨m, b, hs, hd⟩
        cases hd with
        | plus hw hall hd' =>
          rename_i w s0
          exact ⟨w, s0 ++ b, by simp [hs], hw, hall, (ih _).mpr ⟨s0, b, rfl, hd'⟩⟩

theorem matchAny_iff (p : List Tok) (s : List Char) : matchAny p s = true ↔ Matches p s := by
  induction s with
  | nil =>
    simp only [matchAny]
    rw [matchHere_iff]
    constructor
    · rintro ⟨m, b, h, hd⟩
      exact ⟨[], m, b, by simpa using h, hd⟩
    · rintro ⟨a, m, b, h, hd⟩
      have h' : a = [] ∧ m = [] ∧ b = [] := by
        have := congrArg List.length h
        simp at this
        refine ⟨?_, ?_, ?_⟩ <;> apply List.eq_nil_of_length_eq_zero <;> omega
      obtain ⟨rfl, rfl, rfl⟩ := h'
      exact ⟨[], [], rfl, hd⟩
  | cons x s ih =>
    simp only [matchAny, Bool.or_eq_true]
    rw [matchHere_iff, ih]
    constructor
    · rintro (⟨m, b, h, hd⟩ | ⟨a, m, b, h, hd⟩)
      · exact ⟨[], m, b, by simpa using h, hd⟩
      · exact ⟨x :: a, m, b, by simp [h], hd⟩
    · rintro ⟨a, m, b, h, hd⟩
      cases a with
      | nil => exact Or.inl ⟨m, b, by simpa using h, hd⟩
      | cons y a =>
        simp only [List.cons_append, List.cons.injEq] at h
        exact Or.inr ⟨a, m, b, h.2, hd⟩

/-! ## records -/

theorem recPayload_mkRecord (i : Int) (p : Bytes) : recPayload (mkRecord i p) = some p := by
  simp [recPayload, mkRecord, leInt]

theorem recIndex_mkRecord (i : Int) (p : Bytes) (hlo : -9223372036854775808 ≤ i)
    (hhi : i < 9223372036854775808) : recIndex (mkRecord i p) = some i := by
  have hlen : (leInt 8 i).length = 8 := by simp [leInt]
  have htake : (mkRecord i p).take 8 = leInt 8 i := by
    simp [mkRecord, hlen]
  have hge : 8 ≤ (mkRecord i p).length := by simp [mkRecord, hlen]
  simp only [recIndex, hge, if_true, htake, Option.some.injEq]
  have h256 : (256 ^ 8 : Nat) = 18446744073709551616 := by decide
  simp only [leDecodeInt, leInt, leDecode_le, le_length, h256]
  have hpos : (0 : Int) ≤ i % ((18446744073709551616 : Nat) : Int) := Int.emod_nonneg _ (by decide)
  have hlt : i % ((18446744073709551616 : Nat) : Int) < 18446744073709551616 := Int.emod_lt_of_pos _ (by decide)
  have hmod : (i % ((18446744073709551616 : Nat) : Int)).toNat % 18446744073709551616
      = (i % ((18446744073709551616 : Nat) : Int)).toNat := by
    apply Nat.mod_eq_of_lt; omega
  rw [hmod]
  split <;> omega

/-! ## the dispatcher: counting -/

/-- the commands a map stands for -/
def flat (m : RMap) : List Cmd := m.flatMap (fun kv => kv.2.map (fun r => ⟨kv.1, r⟩))

def toWrs (m : RMap) : List Wr := m.map (fun kv => ⟨kv.1, kv.2⟩)

def matching (ms : List Str) (key : Str) : List (Str × Nat) :=
  ms.zipIdx.filter (fun mi => «match» mi.1 key)

/-- what the commands `cs` must deliver -/
def expectedOf (ms : List Str) (cs : List Cmd) : List (Nat × Str × Bytes) :=
  cs.flatMap (fun c => (matching ms c.key).map (fun mi => (mi.2, c.key, c.record)))

theorem flat_append (m : RMap) (k : Str) (r : Bytes) : (flat (m.append k r)).Perm (flat m ++ [⟨k, r⟩]) := by
  induction m with
  | nil => simp [RMap.append, flat]
  | cons kv rest ih =>
    obtain ⟨k', rs⟩ := kv
    simp only [RMap.append]
    split
    · rename_i h
      subst h
      simp only [flat, List.flatMap_cons, List.map_append, List.map_cons, List.map_nil, List.append_assoc]
      exact (perm_append_comm (l₁ := [(⟨k', r⟩ : Cmd)])).append_left _
    · simp only [flat, List.flatMap_cons, List.append_assoc] at ih ⊢
      exact ih.append_left _

theorem flat_foldl_append (cs : List Cmd) : ∀ m : RMap,
    (flat (cs.foldl (fun m c => m.append c.key c.record) m)).Perm (flat m ++ cs) := by
  induction cs with
  | nil => intro m; simp
  | cons c cs ih =>
    intro m
    simp only [List.foldl_cons]
    refine (ih _).trans ?_
    have := (flat_append m c.key c.record).append_right cs
    simpa using this

theorem flat_groupByKey (cs : List Cmd) : (flat (groupByKey cs)).Perm cs := by
  have := flat_foldl_append cs []
  simpa [groupByKey, flat] using this

theorem flatMap_cons_perm {α β : Type} (g : α → β) (h : α → List β) (l : List α) :
    (l.flatMap (fun b => g b :: h b)).Perm (l.map g ++ l.flatMap h) := by
  induction l with
  | nil => simp
  | cons b l ih =>
    simp only [List.flatMap_cons, List.map_cons, List.cons_append]
    refine Perm.cons _ ?_
    refine (ih.append_left (h b)).trans ?_
    rw [← List.append_assoc, ← List.append_assoc]
    exact perm_append_comm.append_right _

theorem flatMap_map_swap {α β γ : Type} (f : α → β → γ) (l1 : List α) (l2 : List β) :
    (l1.flatMap (fun a => l2.map (f a))).Perm (l2.flatMap (fun b => l1.map (fun a => f a b))) := by
  induction l1 with
  | nil => simp
  | cons a l1 ih =>
    simp only [List.flatMap_cons, List.map_cons]
    refine (ih.append_left _).trans ?_
    exact (flatMap_cons_perm (fun b => f a b) (fun b => l1.map (fun a => f a b)) l2).symm

theorem delivered_run (ms : List Str) (m : RMap) :
    (delivered (run ms (toWrs m))).Perm (expectedOf ms (flat m)) := by
  induction m with
  | nil => simp [delivered, run, toWrs, expectedOf, flat]
  | cons kv rest ih =>
    obtain ⟨k, rs⟩ := kv
    have ih' : (delivered (run ms (toWrs rest))).Perm (expectedOf ms (flat rest)) := ih
    simp only [delivered, run, toWrs, expectedOf, flat, List.map_cons, List.flatMap_cons,
      List.flatMap_append] at ih' ⊢
    refine Perm.append ?_ ih'
    simp only [runOne, List.flatMap_map]
    have := flatMap_map_swap (fun (mi : Str × Nat) (r : Bytes) => (mi.2, k, r))
      (ms.zipIdx.filter (fun mi => «match» mi.1 k)) rs
    simpa [matching, Function.comp_def] using this

theorem expectedOf_perm (ms : List Str) {a b : List Cmd} (h : a.Perm b) :
    (expectedOf ms a).Perm (expectedOf ms b) := h.flatMap_right _

theorem expectedOf_append (ms : List Str) (a b : List Cmd) :
    expectedOf ms (a ++ b) = expectedOf ms a ++ expectedOf ms b := by
  simp [expectedOf]

/-- appending the buffers of the files one by one: the map contents (`nil` read as empty) -/
theorem appendInner (k : Str) (rs : List Bytes) : ∀ t : Tpd,
    ((rs.foldl (fun t r => appendRecord t k r) t).m.getD [] = rs.foldl (fun m r => m.append k r) (t.m.getD []))
    ∧ (rs.foldl (fun t r => appendRecord t k r) t).c = t.c := by
  induction rs with
  | nil => intro t; simp
  | cons r rs ih =>
    intro t
    simp only [List.foldl_cons]
    have := ih (appendRecord t k r)
    simpa [appendRecord] using this

theorem appendAll (files : RMap) : ∀ t : Tpd,
    ((files.foldl (fun t kv => kv.2.foldl (fun t r => appendRecord t kv.1 r) t) t).m.getD []
        = (flat files).foldl (fun m c => m.append c.key c.record) (t.m.getD []))
    ∧ (files.foldl (fun t kv => kv.2.foldl (fun t r => appendRecord t kv.1 r) t) t).c = t.c := by
  induction files with
  | nil => intro t; simp [flat]
  | cons kv rest ih =>
    intro t
    obtain ⟨k, rs⟩ := kv
    simp only [List.foldl_cons]
    have h1 := appendInner k rs t
    have h2 := ih (rs.foldl (fun t r => appendRecord t k r) t)
    constructor
    · rw [h2.1, h1.1]
      simp [flat, List.foldl_append, List.foldl_map]
    · rw [h2.2, h1.2]

/-- the channel after one flush through an idle dispatcher (`m = nil`): for EVERY order `files` in
    which the per-file map is walked -/
theorem flushFiles_idle (c : List Wr) (files : RMap) :
    ∃ m' : RMap, flushFiles ⟨none, c⟩ files = ⟨none, c ++ toWrs m'⟩ ∧ (flat m').Perm (flat files) := by
  refine ⟨(flat files).foldl (fun m c => m.append c.key c.record) [], ?_, ?_⟩
  · have h := appendAll files ⟨none, c⟩
    simp only [flushFiles, dispatchRecords, toWrs]
    rw [h.1, h.2]
    simp
  · have := flat_foldl_append (flat files) []
    simpa [flat] using this

end Mkts.Trigger
