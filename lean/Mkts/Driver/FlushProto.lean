import Mkts.Proto
import Mkts.Model.FlushProto
import Mkts.Model.FlushTie
/-! Driver op for the write/flush rendez-vous (C07): coarse-grained directed schedules that the Go
harness can force on the real code with the `verif` hooks:
`W<w>` = writer w runs WriteCSM up to its blocking point (enqueue; request),
`F`    = the flushChannel arm of SyncWAL once (take; finish), `T` = the timer arm once (timer; finish). -/
namespace Mkts.Driver.FlushProto
open Mkts.Proto Mkts.FlushProto Mkts.Skel

def pcChar : WPc → String
  | .start => "S" | .queued => "Q" | .waiting _ => "B" | .returned => "R"

def showSt (s : St) : String :=
  String.join (s.writers.map pcChar) ++ "/" ++
    (let d := (List.range s.writers.length).filter (fun w => s.durable.contains w)
     if d.isEmpty then "-" else ",".intercalate (d.map toString))

def coarse (tok : String) : Option (List Step) :=
  if tok == "F" then some [.take, .finish]
  else if tok == "T" then some [.timer, .finish]
  else if tok.startsWith "W" then (parseNat (tok.drop 1).toString).map (fun w => [.enqueue w, .request w])
  else none

def runCoarse (early : Bool) : St → List String → List String → List String
  | _, [], acc => acc.reverse
  | s, tok :: rest, acc =>
    match coarse tok with
    | none => (("bad-op") :: acc).reverse
    | some sts =>
      match run early s sts with
      | none => runCoarse early s rest ("disabled" :: acc)
      | some s' => runCoarse early s' rest (showSt s' :: acc)

/-- `flushsched <n> <tok> <tok> …` → one `pcs/visible` token per step.  The spec (C07): the same
trace as the protocol WITHOUT early return, in which every returned writer is visible. -/
def flushschedOp : Op := fun args =>
  match args with
  | ns :: toks =>
    match parseNat ns with
    | some n =>
      let m := " ".intercalate (runCoarse earlyInCode (init n) toks [])
      let sp := " ".intercalate (runCoarse false (init n) toks [])
      s!"M:{m}\tS:{sp}\tH:"
    | none => "M:bad-op"
  | _ => "M:bad-op"

/-- `flushstress <writers> <rounds> <seed>`: real goroutines against the real background writer,
each write followed by a read of the same row; the property demands every read sees its write. -/
def flushstressOp : Op := fun _ => "M:ok\tS:ok\tH:"

def ops : OpTable := [("flushsched", flushschedOp), ("flushstress", flushstressOp)]
end Mkts.Driver.FlushProto
