import Mkts.Lemmas.WalReplay
import Mkts.Extracted.Facts
/-!
# C06 — WAL replay tolerates arbitrary damage to the log

Model: `Mkts.WalReplay.scan` (first pass of `Replay`), `secondPass`, `replay`, `cleanup`
(`CleanupOldWALFiles` for one file).  The checksum function `md5` is an arbitrary parameter in every
theorem.  Proved for all byte strings: the scanner terminates, only checksum-valid records are ever
applied.  The "never panics / keeps applying what precedes the damage" half is false of the code:
counterexample theorems, and `C06_partial` with the excluded classes as hypotheses.
-/
namespace Mkts.Props.C06
open Mkts.Bytes Mkts.WalCodec Mkts.WalReplay

/-! ## totality: the scan loop cannot run forever -/

/-- every iteration that continues consumes at least one byte of the file … -/
theorem C06_progress (md5 : Bytes → Bytes) (fsz : Nat) (r r' : Bytes) (st st' : St)
    (h : step md5 fsz r st = .cont r' st') : r'.length < r.length := step_cont_lt md5 h

/-- … hence `length + 1` iterations always suffice: the first pass terminates on every input -/
theorem C06_terminates (md5 : Bytes → Bytes) (f : Bytes) : scan md5 f ≠ .fuel :=
  scanLoop_fuel md5 f.length (f.length + 1) f {} (by omega)

/-! ## safety: only checksum-valid records are applied -/

/-- whatever the file contains, every group the first pass keeps is a complete record of the file
whose stored checksum equals `md5 (length ++ data)` -/
theorem C06_safety_scan (md5 : Bytes → Bytes) (f : Bytes) (st : St) (h : scan md5 f = .done st) :
    ∀ id tg, (id, some tg) ∈ st.tgData → ValidRecordIn md5 f tg :=
  scanLoop_safe md5 f f.length _ f {} st ⟨[], rfl⟩ (by intro id tg h; simp at h) h

/-- every byte that replay writes to a primary file comes from parsing such a record -/
theorem C06_safety (md5 : Bytes → Bytes) (ex : Bytes → Bool) (root f : Bytes) :
    ∀ w ∈ (replay md5 ex root f).writes, ∃ tg id sets, ValidRecordIn md5 f tg ∧
      parseTGData tg = .ok (id, sets) ∧ w ∈ setsWrites ex root sets := by
  intro w hw
  unfold replay at hw
  split at hw
  · simp at hw
  · simp at hw
  · simp at hw
  · simp at hw
  · rename_i st hs
    rcases secondPass_writes ex root _ _ w hw with h | ⟨a, ha, id, sets, hp, hmem⟩
    · simp at h
    · exact ⟨a.2, id, sets, C06_safety_scan md5 f st hs a.1 a.2 (mem_pending ha), hp, hmem⟩

/-- the same for the whole startup path of one file (`f'` = the file after its status header was rewritten) -/
theorem C06_safety_cleanup (md5 : Bytes → Bytes) (ex : Bytes → Bool) (root f : Bytes) :
    ∀ w ∈ (cleanup md5 ex root f).writes, ∃ tg id sets, ValidRecordIn md5 (patchStatus f) tg ∧
      parseTGData tg = .ok (id, sets) ∧ w ∈ setsWrites ex root sets := by
  intro w hw
  unfold cleanup at hw
  split at hw; · simp at hw
  split at hw; · simp at hw
  simp only at hw
  split at hw; · simp at hw
  exact C06_safety md5 ex root _ w hw

/-- the constants of the scanner are those of the source tree -/
theorem C06_constants_extracted :
    (midTGDATA.toNat : Int) = Mkts.Extracted.executor_TGDATA ∧
    (midTXNINFO.toNat : Int) = Mkts.Extracted.executor_TXNINFO ∧
    (midSTATUS.toNat : Int) = Mkts.Extracted.executor_STATUS ∧
    (destCHECKPOINT.toNat : Int) = Mkts.Extracted.executor_CHECKPOINT ∧
    (statusCOMMITCOMPLETE.toNat : Int) = Mkts.Extracted.executor_COMMITCOMPLETE ∧
    (tgLenBytes : Int) = Mkts.Extracted.executor_tgLenBytes ∧
    (tgIDBytes : Int) = Mkts.Extracted.executor_tgIDBytes ∧
    (checkSumBytes : Int) = Mkts.Extracted.executor_checkSumBytes ∧
    safetyFactor = Mkts.Extracted.executor_safetyFactor ∧
    (walStatusLenBytes : Int) = Mkts.Extracted.executor_walStatusLenBytes := by decide

/-- a valid status header: STATUS, OPEN, NOTREPLAYED, owner 0x0101010101010101 -/
def hdr : Bytes := [2, 1, 1, 1, 1, 1, 1, 1, 1, 1, 1]

/-! ## truncation: every prefix of a valid WAL yields exactly its complete groups -/

/-- Let a WAL file consist of the 11-byte status message followed by well-formed messages
(checksummed group records with pairwise distinct ids, TXNINFO records).  Cut it at ANY length
`n ≥ 11`: the first pass ends normally, and its `tgData` is exactly what the messages lying completely
inside the first `n` bytes produce (groups stored, checkpointed groups dropped) — up to the
`tgData[0] = nil` entry that a cut inside a group record leaves.  `AllOk … n` contains the one
size condition of the code: every group is shorter than `safetyFactor × n` (see
`C06_cex_truncated_large` for what happens otherwise). -/
theorem C06_truncation (md5 : Bytes → Bytes) (h10 : Bytes) (hh : h10.length = 10) (ms : List Msg) (n : Nat)
    (hn : 11 ≤ n) (hn2 : n ≤ (midSTATUS :: (h10 ++ encAll md5 ms)).length) (hok : AllOk md5 n {} ms) :
    scan md5 ((midSTATUS :: (h10 ++ encAll md5 ms)).take n) = .done ((complete md5 ms (n - 11)).foldl upd {}) ∨
    scan md5 ((midSTATUS :: (h10 ++ encAll md5 ms)).take n) =
      .done ((complete md5 ms (n - 11)).foldl upd {}).failedRead := by
  obtain ⟨m, rfl⟩ : ∃ m, n = m + 11 := ⟨n - 11, by omega⟩
  have e : (midSTATUS :: (h10 ++ encAll md5 ms)).take (m + 11) = midSTATUS :: (h10 ++ (encAll md5 ms).take m) := by
    rw [List.take_succ_cons, List.take_append, List.take_of_length_le (by omega), hh]
    simp
  have hlen : (midSTATUS :: (h10 ++ (encAll md5 ms).take m)).length = m + 11 := by
    simp only [List.length_cons, List.length_append, List.length_take, hh] at hn2 ⊢
    omega
  rw [e]
  unfold scan
  rw [hlen]
  unfold scanLoop
  have hs : step md5 (m + 11) (midSTATUS :: (h10 ++ (encAll md5 ms).take m)) {} = .cont ((encAll md5 ms).take m) {} := by
    have c0 : midSTATUS ≠ midTGDATA := by decide
    have c1 : midSTATUS ≠ midTXNINFO := by decide
    have c2 : ¬ (h10 ++ (encAll md5 ms).take m) = [] := by
      intro h; have := congrArg List.length h; simp [hh] at this
    have c3 : ¬ (h10 ++ (encAll md5 ms).take m).length < walStatusLenBytes := by
      simp [walStatusLenBytes, hh]
    simp only [step, c0, c1, c2, c3, if_false, if_true]
    rw [show walStatusLenBytes = h10.length by rw [hh]; rfl, List.drop_left]
  rw [hs]
  simp only [Nat.add_sub_cancel]
  exact scan_truncated md5 (m + 11) ms m {} (m + 11) hok (by omega)

/-- the size condition of `C06_truncation` matters: a group record of 30000 bytes cut after its first
byte fails the `1000 × file size` sanity check, the scanner goes on INSIDE the record and here panics -/
theorem C06_cex_truncated_large (md5 : Bytes → Bytes) (ex : Bytes → Bool) (root : Bytes) :
    (cleanup md5 ex root (hdr ++ [0] ++ le 8 30000 ++ [2])).outcome = .panic .slice := by rfl

/-! ## the no-panic claim is false of the code -/

/-- full statement (first half): startup replay never panics, whatever the file contains -/
def C06_full : Prop :=
  ∀ (md5 : Bytes → Bytes) (ex : Bytes → Bool) (root f : Bytes) (p : Panic),
    (cleanup md5 ex root f).outcome ≠ .panic p

/-- full statement (second half, append form): what a WAL file applies is still applied when
arbitrary bytes follow it -/
def C06_full_append : Prop :=
  ∀ (md5 : Bytes → Bytes) (ex : Bytes → Bool) (root f g : Bytes),
    (cleanup md5 ex root f).outcome = .ok →
    ∀ w ∈ (cleanup md5 ex root f).writes, w ∈ (cleanup md5 ex root (f ++ g)).writes


/-- F6: a TGDATA record announcing 3 bytes: `tgSerialized[:7]` panics (any tgLen in 0…6 does) -/
theorem C06_cex_tglen_short (md5 : Bytes → Bytes) (ex : Bytes → Bool) (root : Bytes) :
    (cleanup md5 ex root (hdr ++ [0] ++ le 8 3 ++ [9, 9, 9])).outcome = .panic .slice := by rfl

/-- F6: … already with tgLen = 0 and nothing after it (a WAL that ends in zero bytes) -/
theorem C06_cex_tglen_zero (md5 : Bytes → Bytes) (ex : Bytes → Bool) (root : Bytes) :
    (cleanup md5 ex root (hdr ++ [0] ++ le 8 0)).outcome = .panic .slice := by rfl

/-- F6: a negative tgLen passes the sanity check and reaches `make([]byte, tgLen)` -/
theorem C06_cex_tglen_negative (md5 : Bytes → Bytes) (ex : Bytes → Bool) (root : Bytes) :
    (cleanup md5 ex root (hdr ++ [0] ++ [255, 255, 255, 255, 255, 255, 255, 255])).outcome = .panic .makeslice := by rfl

/-- a STATUS message id as the last byte of the file: `wal.ReadStatus` indexes a nil slice -/
theorem C06_cex_status_eof (md5 : Bytes → Bytes) (ex : Bytes → Bool) (root : Bytes) :
    (cleanup md5 ex root (hdr ++ [2])).outcome = .panic .slice := by rfl

theorem C06_not_full : ¬ C06_full := by
  intro h
  exact h (fun _ => []) (fun _ => true) [] _ .slice (C06_cex_status_eof _ _ _)

/-! ### counterexamples that need concrete checksums: exhibited with a toy checksum function
(sixteen copies of the byte sum); the same byte patterns with real MD5 are replayed on the
implementation by the corpus (`corpus/C06/known_*.ops`). -/

def toyCk (b : Bytes) : Bytes := List.replicate 16 (b.foldl (· + ·) 0)
def rootR : Bytes := [47, 114]                                   -- "/r"
def exF (p : Bytes) : Bool := p == [47, 114, 47, 102]            -- only "/r/f" can be opened
def cmdF (idx : Int) : WriteCommand :=
  { recordType := 0, path := [102], varRecLen := 0, offset := 37024 + 12 * (idx - 1), index := idx,
    data := [7, 7, 7, 7], shapes := [⟨[69], 4⟩] }
/-- a complete TGDATA record with a correct checksum -/
def encTG (ck : Bytes → Bytes) (body : Bytes) : Bytes :=
  midTGDATA :: (leInt 8 body.length ++ body ++ ck (leInt 8 body.length ++ body))
/-- a complete TGDATA record whose stored checksum is wrong -/
def encBad (ck : Bytes → Bytes) (body : Bytes) : Bytes :=
  midTGDATA :: (leInt 8 body.length ++ body ++ (ck (leInt 8 body.length ++ body)).map (· + 1))
def good : Bytes := encTG toyCk (serializeTG 5 [cmdF 1])
def bad6 : Bytes := encBad toyCk (serializeTG 6 [cmdF 2])
def bad7 : Bytes := encBad toyCk (serializeTG 7 [cmdF 3])
def w5 : Write := { path := [47, 114, 47, 102], off := 37024, data := leInt 8 1 ++ [7, 7, 7, 7] }

set_option maxRecDepth 100000 in
/-- non-vacuity: an intact WAL is replayed (one group, one write) -/
theorem C06_example_intact :
    (cleanup toyCk exF rootR (hdr ++ good)).outcome = .ok ∧
    (cleanup toyCk exF rootR (hdr ++ good)).writes = [w5] := by decide

set_option maxRecDepth 100000 in
/-- one unreadable record after it: the intact group is still applied … -/
theorem C06_example_one_bad_record :
    (cleanup toyCk exF rootR (hdr ++ good ++ bad6)).outcome = .ok ∧
    (cleanup toyCk exF rootR (hdr ++ good ++ bad6)).writes = [w5] := by decide

set_option maxRecDepth 100000 in
/-- F6b: … two unreadable records: "Duplicate TG Data" for id 0, nothing at all is applied -/
theorem C06_cex_two_bad_records :
    (cleanup toyCk exF rootR (hdr ++ good ++ bad6 ++ bad7)).outcome = .moved ∧
    (cleanup toyCk exF rootR (hdr ++ good ++ bad6 ++ bad7)).writes = [] := by decide

set_option maxRecDepth 100000 in
/-- F6e: the same intact record twice: nothing is applied -/
theorem C06_cex_duplicate_record :
    (cleanup toyCk exF rootR (hdr ++ good ++ good)).outcome = .moved ∧
    (cleanup toyCk exF rootR (hdr ++ good ++ good)).writes = [] := by decide

set_option maxRecDepth 100000 in
/-- F6d: a checksum-valid record whose body is one byte short of what its inner lengths announce -/
theorem C06_cex_parse_panic :
    (cleanup toyCk exF rootR (hdr ++ encTG toyCk (serializeTG 5 [cmdF 1]).dropLast)).outcome = .panic .index := by
  decide

set_option maxRecDepth 100000 in
/-- non-vacuity of `C06_truncation`: a concrete message sequence (group 5, its commit record, group 6)
satisfies `AllOk` for a 40-byte file size -/
example : AllOk toyCk 40 {} [.tg (serializeTG 5 [cmdF 1]), .info (leInt 8 5 ++ [0, 2]), .tg (serializeTG 6 [cmdF 2])] := by
  refine ⟨⟨by decide, by decide, by decide, by decide, by decide⟩,
    ⟨by show List.length _ = 10; decide, ⟨by decide, by decide, by decide, by decide, by decide⟩, trivial⟩⟩

set_option maxRecDepth 100000 in
/-- F6f: TXNINFO records are not checksummed. With the commit record of group 5 (`dest = WAL`) the group
is applied; with ONE bit of that later record flipped (`dest = CHECKPOINT`) it is silently discarded -/
theorem C06_cex_forged_checkpoint :
    (cleanup toyCk exF rootR (hdr ++ good ++ (midTXNINFO :: (leInt 8 5 ++ [0, 2])))).writes = [w5] ∧
    (cleanup toyCk exF rootR (hdr ++ good ++ (midTXNINFO :: (leInt 8 5 ++ [1, 2])))).outcome = .ok ∧
    (cleanup toyCk exF rootR (hdr ++ good ++ (midTXNINFO :: (leInt 8 5 ++ [1, 2])))).writes = [] := by decide

theorem C06_not_full_append : ¬ C06_full_append := by
  intro h
  have h1 := h toyCk exF rootR (hdr ++ good) (bad6 ++ bad7) C06_example_intact.1 w5
    (by rw [C06_example_intact.2]; simp)
  have e : hdr ++ good ++ (bad6 ++ bad7) = hdr ++ good ++ bad6 ++ bad7 := by simp
  rw [e, C06_cex_two_bad_records.2] at h1
  simp at h1

/-! ## what does hold: the panics have exactly these sources -/

/-- a panic of the first pass is always a TGDATA record, at a position the scanner reached, whose
length field is negative (`makeslice`) or 0…6 with that many bytes present (`slice`) -/
theorem C06_scan_panic_classes (md5 : Bytes → Bytes) (f : Bytes) (p : Panic) (h : scan md5 f = .panic p) :
    ∃ pre r1, f = pre ++ midTGDATA :: r1 ∧ 8 ≤ r1.length ∧
      ((leDecodeInt (r1.take 8) < 0 ∧ p = .makeslice) ∨
       (0 ≤ leDecodeInt (r1.take 8) ∧ leDecodeInt (r1.take 8) < 7 ∧
        leDecodeInt (r1.take 8) ≤ (r1.length : Int) - 8 ∧ p = .slice)) := by
  have key : ∀ (n : Nat) (r : Bytes) (st : St), (∃ pre, f = pre ++ r) →
      scanLoop md5 f.length n r st = .panic p →
      ∃ pre r1, f = pre ++ midTGDATA :: r1 ∧ 8 ≤ r1.length ∧
        ((leDecodeInt (r1.take 8) < 0 ∧ p = .makeslice) ∨
         (0 ≤ leDecodeInt (r1.take 8) ∧ leDecodeInt (r1.take 8) < 7 ∧
          leDecodeInt (r1.take 8) ≤ (r1.length : Int) - 8 ∧ p = .slice)) := by
    intro n
    induction n with
    | zero => intro r st _ h; cases h
    | succ n ih =>
      intro r st hpre h
      unfold scanLoop at h
      split at h
      · cases h
      · rename_i r' st' hs
        obtain ⟨pre, hf⟩ := hpre
        obtain ⟨p2, hr⟩ := step_cont_suffix md5 hs
        exact ih r' st' ⟨pre ++ p2, by rw [hf, hr, List.append_assoc]⟩ h
      · cases h
      · rename_i p' hs
        injection h with h; subst h
        obtain ⟨pre, hf⟩ := hpre
        obtain ⟨r1, hr, hl, _, hc⟩ := step_panic md5 hs
        exact ⟨pre, r1, by rw [hf, hr], hl, hc⟩
      · cases h
  exact key _ f {} ⟨[], rfl⟩ h

/-- the `wal.ReadStatus` panic happens only for a file that ends with a STATUS message id -/
theorem C06_scan_statusEof (md5 : Bytes → Bytes) (f : Bytes) (h : scan md5 f = .statusEof) :
    ∃ pre, f = pre ++ [midSTATUS] := by
  have key : ∀ (n : Nat) (r : Bytes) (st : St), (∃ pre, f = pre ++ r) →
      scanLoop md5 f.length n r st = .statusEof → ∃ pre, f = pre ++ [midSTATUS] := by
    intro n
    induction n with
    | zero => intro r st _ h; cases h
    | succ n ih =>
      intro r st hpre h
      unfold scanLoop at h
      split at h
      · cases h
      · rename_i r' st' hs
        obtain ⟨pre, hf⟩ := hpre
        obtain ⟨p2, hr⟩ := step_cont_suffix md5 hs
        exact ih r' st' ⟨pre ++ p2, by rw [hf, hr, List.append_assoc]⟩ h
      · cases h
      · cases h
      · rename_i hs
        obtain ⟨pre, hf⟩ := hpre
        exact ⟨pre, by rw [hf, step_statusEof md5 hs]⟩
  exact key _ f {} ⟨[], rfl⟩ h

/-- **C06 (partial)**: startup replay of one file does not panic, provided (a) the first pass meets
no TGDATA length field in 0…6 / negative and no STATUS id at end of file (by the two theorems above
these are the only ways `scan` can fail), and (b) every checksum-valid group that survives the first
pass parses and carries write buffers of at least 8 bytes -/
theorem C06_partial (md5 : Bytes → Bytes) (ex : Bytes → Bool) (root f : Bytes)
    (hscan : ∀ p, scan md5 (patchStatus f) ≠ .panic p) (heof : scan md5 (patchStatus f) ≠ .statusEof)
    (hparse : ∀ st, scan md5 (patchStatus f) = .done st → ∀ a ∈ pending st.tgData,
      ∃ id sets, parseTGData a.2 = .ok (id, sets) ∧ ∀ s ∈ sets, 8 ≤ s.buffer.length) :
    ∀ p, (cleanup md5 ex root f).outcome ≠ .panic p := by
  intro p
  unfold cleanup
  split; · simp
  split; · simp
  simp only
  split; · simp
  unfold replay
  split
  · simp
  · rename_i p' hs; exact absurd hs (hscan p')
  · rename_i hs; exact absurd hs heof
  · simp
  · rename_i st hs
    exact secondPass_no_panic ex root _ _ (by simp) (hparse st hs) p

end Mkts.Props.C06
