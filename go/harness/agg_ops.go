package main

// Ops and generators for C21 / C22: the REAL TickCandler / CandleCandler (contrib/candler/...)
// are driven in-process through their public uda.AggInterface.

import (
	"fmt"
	"math"
	"sort"
	"strconv"
	"strings"
	"time"

	"github.com/alpacahq/marketstore/v4/contrib/candler/candlecandler"
	"github.com/alpacahq/marketstore/v4/contrib/candler/tickcandler"
	"github.com/alpacahq/marketstore/v4/uda"
	"github.com/alpacahq/marketstore/v4/utils"
	"github.com/alpacahq/marketstore/v4/utils/functions"
	mio "github.com/alpacahq/marketstore/v4/utils/io"
)

type aggRow struct {
	sec, nsec  int64
	o, h, l, c float32
	vols       []float32
}

type aggCandle struct {
	epoch      int64
	o, h, l, c float32
	sums, avgs []float64
}

func f32(tok string) float32 { return math.Float32frombits(uint32(atoi(tok))) }

func parseAggRows(candle bool, s string) [][]aggRow {
	var chunks [][]aggRow
	for _, ch := range strings.Split(s, "|") {
		var rows []aggRow
		if ch != "-" && ch != "" {
			for _, rs := range strings.Split(ch, ";") {
				f := strings.Split(rs, ",")
				r := aggRow{sec: atoi(f[0]), nsec: atoi(f[1])}
				rest := f[3:]
				if candle {
					r.o, r.h, r.l, r.c = f32(f[2]), f32(f[3]), f32(f[4]), f32(f[5])
					rest = f[6:]
				} else {
					p := f32(f[2])
					r.o, r.h, r.l, r.c = p, p, p, p
				}
				for _, v := range rest {
					r.vols = append(r.vols, f32(v))
				}
				rows = append(rows, r)
			}
		}
		chunks = append(chunks, rows)
	}
	return chunks
}

func showF64(x float64) string {
	if math.IsNaN(x) {
		return "nan"
	}
	return strconv.FormatUint(math.Float64bits(x), 10)
}

func showAggCandle(c aggCandle) string {
	parts := []string{fmt.Sprint(c.epoch), fmt.Sprint(math.Float32bits(c.o)), fmt.Sprint(math.Float32bits(c.h)),
		fmt.Sprint(math.Float32bits(c.l)), fmt.Sprint(math.Float32bits(c.c))}
	for _, s := range c.sums {
		parts = append(parts, showF64(s))
	}
	for _, s := range c.avgs {
		parts = append(parts, showF64(s))
	}
	return strings.Join(parts, ",")
}

// runCandler feeds the chunks to a fresh real candler and returns its last output.
func runCandler(candle bool, tf string, nsums int, chunks [][]aggRow) ([]aggCandle, string) {
	var proto uda.AggInterface
	if candle {
		proto = &candlecandler.CandleCandler{}
	} else {
		proto = &tickcandler.TickCandler{}
	}
	am := functions.NewArgumentMap(proto.GetRequiredArgs(), proto.GetOptionalArgs()...)
	if candle {
		for _, n := range []string{"Open", "High", "Low", "Close"} {
			am.MapRequiredColumn(n, mio.DataShape{Name: "In" + n, Type: mio.FLOAT32})
		}
	} else {
		am.MapRequiredColumn("CandlePrice", mio.DataShape{Name: "Price", Type: mio.FLOAT32})
	}
	var vnames []string
	for i := 0; i < nsums; i++ {
		vnames = append(vnames, fmt.Sprintf("V%d", i))
	}
	if nsums > 0 {
		var ds []mio.DataShape
		for _, n := range vnames {
			ds = append(ds, mio.DataShape{Name: n, Type: mio.FLOAT32})
		}
		am.MapRequiredColumn("Sum", ds...)
		am.MapRequiredColumn("Avg", ds...)
	}
	agg, err := proto.New(am, tf)
	if err != nil {
		return nil, "err:init"
	}
	var out *mio.ColumnSeries
	for _, rows := range chunks {
		cs := mio.NewColumnSeries()
		ep := make([]int64, len(rows))
		ns := make([]int32, len(rows))
		anyNs := false
		o, h, l, c := make([]float32, len(rows)), make([]float32, len(rows)), make([]float32, len(rows)), make([]float32, len(rows))
		vs := make([][]float32, nsums)
		for i := range vs {
			vs[i] = make([]float32, len(rows))
		}
		for i, r := range rows {
			ep[i], ns[i] = r.sec, int32(r.nsec)
			anyNs = anyNs || r.nsec != 0
			o[i], h[i], l[i], c[i] = r.o, r.h, r.l, r.c
			for j := 0; j < nsums; j++ {
				vs[j][i] = r.vols[j]
			}
		}
		cs.AddColumn("Epoch", ep)
		if anyNs { // the Nanoseconds column is optional for GetTime
			cs.AddColumn("Nanoseconds", ns)
		}
		if candle {
			cs.AddColumn("InOpen", o)
			cs.AddColumn("InHigh", h)
			cs.AddColumn("InLow", l)
			cs.AddColumn("InClose", c)
		} else {
			cs.AddColumn("Price", o)
		}
		for j, n := range vnames {
			cs.AddColumn(n, vs[j])
		}
		out, err = agg.Accum(mio.TimeBucketKey{}, am, cs)
		if err != nil {
			return nil, "err:empty"
		}
	}
	ep := out.GetColumn("Epoch").([]int64)
	oo, hh := out.GetColumn("Open").([]float32), out.GetColumn("High").([]float32)
	ll, cc := out.GetColumn("Low").([]float32), out.GetColumn("Close").([]float32)
	res := make([]aggCandle, len(ep))
	for i := range ep {
		res[i] = aggCandle{epoch: ep[i], o: oo[i], h: hh[i], l: ll[i], c: cc[i]}
		for _, n := range vnames {
			res[i].sums = append(res[i].sums, out.GetColumn(n + "_SUM").([]float64)[i])
		}
		for _, n := range vnames {
			res[i].avgs = append(res[i].avgs, out.GetColumn(n + "_AVG").([]float64)[i])
		}
	}
	return res, ""
}

func sameF64s(a, b []float64) bool {
	if len(a) != len(b) {
		return false
	}
	for i := range a {
		if showF64(a[i]) != showF64(b[i]) {
			return false
		}
	}
	return true
}

// aggFlags evaluates the property's predicate on an output: windows (one candle per non-empty
// window of cd.Truncate, ascending), open/close = price of an earliest/latest row of the window,
// high/low = extreme and attained, count/sum/avg = fold in input order.
func aggFlags(cd *utils.CandleDuration, loc *time.Location, rows []aggRow, out []aggCandle) string {
	type win struct {
		t    time.Time
		rows []aggRow
	}
	var wins []*win
	for _, r := range rows {
		w := cd.Truncate(time.Unix(r.sec, r.nsec).In(loc))
		var found *win
		for _, x := range wins {
			if x.t.Equal(w) {
				found = x
			}
		}
		if found == nil {
			found = &win{t: w}
			wins = append(wins, found)
		}
		found.rows = append(found.rows, r)
	}
	sort.Slice(wins, func(i, j int) bool { return wins[i].t.Before(wins[j].t) })
	fW := len(out) == len(wins)
	n := len(out)
	if len(wins) < n {
		n = len(wins)
	}
	fO, fC, fH, fL, fS := true, true, true, true, true
	for i := 0; i < n; i++ {
		c, g := out[i], wins[i].rows
		fW = fW && c.epoch == wins[i].t.Unix()
		before := func(a, b aggRow) bool { return a.sec < b.sec || (a.sec == b.sec && a.nsec < b.nsec) }
		mn, mx := g[0], g[0]
		for _, r := range g {
			if before(r, mn) {
				mn = r
			}
			if before(mx, r) {
				mx = r
			}
		}
		okO, okC, inH, inL, topH, botL := false, false, false, false, true, true
		sums := make([]float64, len(g[0].vols))
		for _, r := range g {
			same := func(a, b aggRow) bool { return a.sec == b.sec && a.nsec == b.nsec }
			okO = okO || (same(r, mn) && math.Float32bits(r.o) == math.Float32bits(c.o))
			okC = okC || (same(r, mx) && math.Float32bits(r.c) == math.Float32bits(c.c))
			inH = inH || math.Float32bits(r.h) == math.Float32bits(c.h)
			inL = inL || math.Float32bits(r.l) == math.Float32bits(c.l)
			topH = topH && !(r.h > c.h)
			botL = botL && !(r.l < c.l)
			for j := range sums {
				sums[j] += float64(r.vols[j])
			}
		}
		avgs := make([]float64, len(sums))
		for j := range sums {
			avgs[j] = sums[j] / float64(len(g))
		}
		fO, fC = fO && okO, fC && okC
		fH, fL = fH && inH && topH, fL && inL && botL
		fS = fS && sameF64s(c.sums, sums) && sameF64s(c.avgs, avgs)
	}
	return b2s(fW) + b2s(fO) + b2s(fC) + b2s(fH) + b2s(fL) + b2s(fS)
}

func withZone(loc *time.Location, f func() string) string {
	old := utils.InstanceConfig.Timezone
	utils.InstanceConfig.Timezone = loc
	defer func() { utils.InstanceConfig.Timezone = old }()
	return f()
}

func showAggOut(out []aggCandle) string {
	parts := make([]string, len(out))
	for i, c := range out {
		parts[i] = showAggCandle(c)
	}
	return strings.Join(parts, ";")
}

func init() {
	// candle <tick|candle> <hex timeframe> <zone> <nsums> <chunk|chunk...>
	ops["candle"] = func(a []string) string {
		candle := a[0] == "candle"
		tf := hexStr(a[1])
		loc := zoneLoc(a[2])
		nsums := int(atoi(a[3]))
		chunks := parseAggRows(candle, a[4])
		return withZone(loc, func() string {
			out, e := runCandler(candle, tf, nsums, chunks)
			if e != "" {
				return e
			}
			cd, _ := utils.CandleDurationFromString(tf)
			var all []aggRow
			for _, ch := range chunks {
				all = append(all, ch...)
			}
			return showAggOut(out) + " P=" + aggFlags(cd, loc, all, out)
		})
	}
	gens["C21"] = genC21
}

// ---- generators

var aggPrices = []uint32{0x00000000, 0x80000000, 0x00000001, 0x80000001, 0x007fffff, 0x00800000, 0x3f800000, 0xbf800000,
	0x7f7fffff, 0xff7fffff, 0x7f800000, 0xff800000, 0x42c80000, 0x42c80001, 0x42c7ffff, 0xc2c80000, 0x3dcccccd}

func genPrice(g *Gen, nan bool) uint32 {
	switch g.Intn(6) {
	case 0:
		return aggPrices[g.Intn(len(aggPrices))]
	case 1:
		if nan {
			return []uint32{0x7fc00000, 0xffc00000, 0x7f800001}[g.Intn(3)]
		}
		return math.Float32bits(float32(g.Intn(5)))
	case 2:
		return math.Float32bits(float32(g.Intn(200)-100) / 4)
	default:
		return math.Float32bits(100 + float32(g.Intn(2000))/100)
	}
}

var aggTimeframes = []string{"1Sec", "10Sec", "30Sec", "1Min", "5Min", "15Min", "30Min", "1H", "2H", "4H", "1D",
	"7Sec", "90Sec", "45Min", "3H", "36H", "2D"}

// genAggRows makes n rows over a few windows of tf starting near base; returns rows in the order given by mode.
func genAggRows(g *Gen, cd *utils.CandleDuration, base time.Time, n int, candle, nan bool, nsums int, tags *[]string) []aggRow {
	span := cd.Ceil(base).Sub(cd.Truncate(base))
	if span <= 0 || span > 800*24*time.Hour {
		span = time.Hour
	}
	nwin := 1 + g.Intn(5)
	start := cd.Truncate(base)
	subsec := g.Intn(3) == 0
	var rows []aggRow
	for i := 0; i < n; i++ {
		var t time.Time
		switch g.Intn(8) {
		case 0:
			t = start.Add(time.Duration(g.Intn(nwin)) * span) // exactly a window start
		case 1:
			t = start.Add(time.Duration(1+g.Intn(nwin))*span - time.Duration(g.Pick(1, 1e9))) // just before an end
		case 2:
			if len(rows) > 0 { // duplicate timestamp
				p := rows[g.Intn(len(rows))]
				t = time.Unix(p.sec, p.nsec)
				break
			}
			fallthrough
		default:
			t = start.Add(time.Duration(g.R.Int63n(int64(span) * int64(nwin))))
		}
		if !subsec {
			t = t.Truncate(time.Second)
		}
		r := aggRow{sec: t.Unix(), nsec: int64(t.Nanosecond())}
		if candle {
			ps := []uint32{genPrice(g, nan), genPrice(g, nan), genPrice(g, nan), genPrice(g, nan)}
			if g.Intn(2) == 0 && !nan { // a well-formed candle: low <= open, close <= high
				sort.Slice(ps, func(i, j int) bool {
					return math.Float32frombits(ps[i]) < math.Float32frombits(ps[j])
				})
				ps = []uint32{ps[1], ps[3], ps[0], ps[2]}
			}
			r.o, r.h, r.l, r.c = math.Float32frombits(ps[0]), math.Float32frombits(ps[1]), math.Float32frombits(ps[2]), math.Float32frombits(ps[3])
		} else {
			p := math.Float32frombits(genPrice(g, nan))
			r.o, r.h, r.l, r.c = p, p, p, p
		}
		for j := 0; j < nsums; j++ {
			v := float32(g.Intn(100000)) / 8
			switch g.Intn(12) {
			case 0:
				v = math.Float32frombits(aggPrices[g.Intn(len(aggPrices))])
			case 1:
				v = -v
			}
			r.vols = append(r.vols, v)
		}
		rows = append(rows, r)
	}
	switch g.Intn(4) {
	case 0:
		sort.SliceStable(rows, func(i, j int) bool {
			return rows[i].sec < rows[j].sec || (rows[i].sec == rows[j].sec && rows[i].nsec < rows[j].nsec)
		})
		*tags = append(*tags, "order:sorted")
	case 1:
		sort.SliceStable(rows, func(i, j int) bool {
			return rows[i].sec > rows[j].sec || (rows[i].sec == rows[j].sec && rows[i].nsec > rows[j].nsec)
		})
		*tags = append(*tags, "order:reversed")
	default:
		*tags = append(*tags, "order:random")
	}
	return rows
}

func showAggRows(candle bool, chunks [][]aggRow) string {
	var cs []string
	for _, ch := range chunks {
		if len(ch) == 0 {
			cs = append(cs, "-")
			continue
		}
		var rs []string
		for _, r := range ch {
			f := []string{fmt.Sprint(r.sec), fmt.Sprint(r.nsec)}
			if candle {
				f = append(f, fmt.Sprint(math.Float32bits(r.o)), fmt.Sprint(math.Float32bits(r.h)), fmt.Sprint(math.Float32bits(r.l)), fmt.Sprint(math.Float32bits(r.c)))
			} else {
				f = append(f, fmt.Sprint(math.Float32bits(r.o)))
			}
			for _, v := range r.vols {
				f = append(f, fmt.Sprint(math.Float32bits(v)))
			}
			rs = append(rs, strings.Join(f, ","))
		}
		cs = append(cs, strings.Join(rs, ";"))
	}
	return strings.Join(cs, "|")
}

func splitChunks(g *Gen, rows []aggRow) [][]aggRow {
	if g.Intn(3) != 0 || len(rows) < 2 {
		return [][]aggRow{rows}
	}
	var chunks [][]aggRow
	for len(rows) > 0 {
		k := 1 + g.Intn(len(rows))
		chunks = append(chunks, rows[:k])
		rows = rows[k:]
	}
	return chunks
}

func aggBase(g *Gen, loc *time.Location) time.Time {
	year := 1971 + g.Intn(130)
	switch g.Intn(5) {
	case 0:
		return time.Date(year, 12, 31, 23, 50+g.Intn(10), g.Intn(60), 0, loc)
	case 1:
		return time.Date(year-year%4, 2, 28+g.Intn(2), 22+g.Intn(2), g.Intn(60), g.Intn(60), 0, loc)
	case 2:
		return time.Date(year, time.Month(1+g.Intn(12)), 1, 0, 0, 0, 0, loc).Add(-time.Duration(g.Intn(7200)) * time.Second)
	default:
		return time.Date(year, time.Month(1+g.Intn(12)), 1+g.Intn(28), g.Intn(24), g.Intn(60), g.Intn(60), 0, loc)
	}
}

func genC21(g *Gen) {
	zones := []string{"America/New_York", "Asia/Kolkata", "America/Sao_Paulo", "Australia/Lord_Howe"}
	n := g.N(1500, 30000)
	for i := 0; i < n; i++ {
		tags := []string{}
		candle := g.Intn(3) == 0
		mode := "tick"
		if candle {
			mode = "candle"
		}
		tags = append(tags, "mode:"+mode)
		tf := aggTimeframes[g.Intn(len(aggTimeframes))]
		switch g.Intn(25) {
		case 0:
			tf = []string{"1W", "1M", "1Y", "3M", "2Y"}[g.Intn(5)]
			tags = append(tags, "tf:calendar_WMY")
		case 1:
			tf = []string{"2W", "3W"}[g.Intn(2)]
			tags = append(tags, "tf:multi_week")
		case 2:
			tf = []string{"0Min", "9223372037Sec", "18446744074Sec"}[g.Intn(3)]
			tags = append(tags, "tf:degenerate")
		case 3:
			tf = []string{"1S", "Min", "", "1T"}[g.Intn(4)]
			tags = append(tags, "tf:invalid")
		default:
			tags = append(tags, "tf:"+tf)
		}
		zn := "UTC"
		if g.Intn(8) == 0 {
			zn = zones[g.Intn(len(zones))]
			tags = append(tags, "zone:non_utc(correspondence only)")
		} else {
			tags = append(tags, "zone:UTC")
		}
		loc, err := time.LoadLocation(zn)
		must(err)
		nan := g.Intn(12) == 0
		if nan {
			tags = append(tags, "prices:with_nan(correspondence only)")
		}
		nsums := []int{0, 1, 1, 2}[g.Intn(4)]
		tags = append(tags, fmt.Sprintf("nsums:%d", nsums))
		cd, cerr := utils.CandleDurationFromString(tf)
		if cerr != nil {
			cd, _ = utils.CandleDurationFromString("1Min")
		}
		if zn != "UTC" && (tf == "2Y" || strings.HasSuffix(tf, "Sec") && len(tf) > 6) {
			zn, loc = "UTC", time.UTC
		}
		base := aggBase(g, loc)
		if zn == "America/Sao_Paulo" && g.Intn(2) == 0 {
			base = time.Date(2000, 10, 7, 20+g.Intn(4), 0, 0, 0, loc) // next to the skipped midnight
		}
		cnt := []int{1, 2, 3, 5, 8, 13, 30, 80}[g.Intn(8)]
		if g.Thorough() && g.Intn(20) == 0 {
			cnt = 400
		}
		rows := genAggRows(g, cd, base, cnt, candle, nan, nsums, &tags)
		tags = append(tags, fmt.Sprintf("rows:%d", cnt))
		chunks := splitChunks(g, rows)
		if len(chunks) > 1 {
			tags = append(tags, "chunks:many")
		}
		if g.Intn(60) == 0 {
			chunks = append(chunks, nil)
			tags = append(tags, "chunk:empty")
		}
		lo, hi := rows[0].sec, rows[0].sec
		for _, r := range rows {
			if r.sec < lo {
				lo = r.sec
			}
			if r.sec > hi {
				hi = r.sec
			}
		}
		ztok := "UTC|0"
		if zn != "UTC" {
			ztok = zoneToken(zn, lo-800*86400, hi+800*86400)
		}
		g.Emit(fmt.Sprintf("candle %s %s %s %d %s", mode, hx([]byte(tf)), ztok, nsums, showAggRows(candle, chunks)), tags...)
	}
}

// ---- C22: fine candles re-aggregated by the CandleCandler vs. the TickCandler at the coarse timeframe

func showOHLC(out []aggCandle) string {
	parts := make([]string, len(out))
	for i, c := range out {
		parts[i] = fmt.Sprintf("%d,%d,%d,%d,%d", c.epoch, math.Float32bits(c.o), math.Float32bits(c.h), math.Float32bits(c.l), math.Float32bits(c.c))
	}
	return strings.Join(parts, ";")
}

func init() {
	// compose <hex fine tf> <hex coarse tf> <zone> <tick rows>
	ops["compose"] = func(a []string) string {
		tff, tfc := hexStr(a[0]), hexStr(a[1])
		loc := zoneLoc(a[2])
		chunks := parseAggRows(false, a[3])
		return withZone(loc, func() string {
			if _, err := utils.CandleDurationFromString(tff); err != nil {
				return "err:init"
			}
			if _, err := utils.CandleDurationFromString(tfc); err != nil {
				return "err:init"
			}
			fine, e := runCandler(false, tff, 0, chunks)
			if e != "" {
				return e
			}
			// what a client would feed back: the output rows (Epoch seconds, Open, High, Low, Close)
			rows := make([]aggRow, len(fine))
			for i, c := range fine {
				rows[i] = aggRow{sec: c.epoch, o: c.o, h: c.h, l: c.l, c: c.c}
			}
			co, e := runCandler(true, tfc, 0, [][]aggRow{rows})
			if e != "" {
				return e
			}
			di, e := runCandler(false, tfc, 0, chunks)
			if e != "" {
				return e
			}
			fW := len(co) == len(di)
			n := len(co)
			if len(di) < n {
				n = len(di)
			}
			fO, fC, fH, fL := true, true, true, true
			for i := 0; i < n; i++ {
				fW = fW && co[i].epoch == di[i].epoch
				fO = fO && math.Float32bits(co[i].o) == math.Float32bits(di[i].o)
				fC = fC && math.Float32bits(co[i].c) == math.Float32bits(di[i].c)
				fH = fH && co[i].h == di[i].h
				fL = fL && co[i].l == di[i].l
			}
			return showOHLC(co) + " | " + showOHLC(di) + " P=" + b2s(fW) + b2s(fO) + b2s(fC) + b2s(fH) + b2s(fL)
		})
	}
	gens["C22"] = genC22
}

func genC22(g *Gen) {
	all := []string{"1Sec", "10Sec", "30Sec", "1Min", "5Min", "15Min", "30Min", "1H", "2H", "4H", "1D",
		"1W", "1M", "1Y", "2Sec", "7Sec", "90Sec", "3Min", "45Min", "3H", "6H", "12H", "36H", "2D", "2W", "3M", "0Min"}
	durOf := func(s string) (time.Duration, string) {
		cd, _ := utils.CandleDurationFromString(s)
		suf := s[len(s)-1:]
		if suf == "D" {
			return 24 * time.Hour, "D"
		}
		return cd.Duration(), suf
	}
	var dividing, other [][2]string
	for _, f := range all {
		for _, c := range all {
			df, sf := durOf(f)
			dc, sc := durOf(c)
			ok := false
			switch {
			case sf == "M":
				ok = false
			case sc == "M":
				ok = df > 0 && (24*time.Hour)%df == 0
			default:
				ok = df > 0 && dc > 0 && dc%df == 0
			}
			if ok {
				dividing = append(dividing, [2]string{f, c})
			} else {
				other = append(other, [2]string{f, c})
			}
		}
	}
	zones := []string{"Asia/Kolkata", "America/New_York", "Australia/Lord_Howe"}
	n := g.N(1200, 25000)
	for i := 0; i < n; i++ {
		tags := []string{}
		var pr [2]string
		if g.Intn(6) == 0 {
			pr = other[g.Intn(len(other))]
			tags = append(tags, "pair:not_dividing(correspondence only)")
		} else {
			pr = dividing[g.Intn(len(dividing))]
			tags = append(tags, "pair:dividing")
		}
		tags = append(tags, "fine:"+pr[0], "coarse:"+pr[1])
		zn := "UTC"
		if g.Intn(8) == 0 && !strings.HasSuffix(pr[0], "Y") && !strings.HasSuffix(pr[1], "Y") {
			zn = zones[g.Intn(len(zones))]
			tags = append(tags, "zone:non_utc(correspondence only)")
		} else {
			tags = append(tags, "zone:UTC")
		}
		loc, err := time.LoadLocation(zn)
		must(err)
		nan := g.Intn(15) == 0
		if nan {
			tags = append(tags, "prices:with_nan(correspondence only)")
		}
		// rows are spread over a few COARSE windows so that several fine candles fall into each
		cdC, _ := utils.CandleDurationFromString(pr[1])
		cdF, _ := utils.CandleDurationFromString(pr[0])
		base := aggBase(g, loc)
		cnt := []int{1, 2, 3, 5, 8, 13, 30, 60}[g.Intn(8)]
		var rows []aggRow
		if g.Intn(2) == 0 {
			rows = genAggRows(g, cdC, base, cnt, false, nan, 0, &tags)
		} else {
			rows = genAggRows(g, cdF, base, cnt, false, nan, 0, &tags)
		}
		tags = append(tags, fmt.Sprintf("rows:%d", cnt))
		lo, hi := rows[0].sec, rows[0].sec
		for _, r := range rows {
			if r.sec < lo {
				lo = r.sec
			}
			if r.sec > hi {
				hi = r.sec
			}
		}
		ztok := "UTC|0"
		if zn != "UTC" {
			ztok = zoneToken(zn, lo-800*86400, hi+800*86400)
		}
		g.Emit(fmt.Sprintf("compose %s %s %s %s", hx([]byte(pr[0])), hx([]byte(pr[1])), ztok, showAggRows(false, [][]aggRow{rows})), tags...)
	}
	g.Emit("compose 314d696e 3148 UTC|0 -", "empty")
	g.Emit("compose 3153 3148 UTC|0 1,0,0", "invalid_tf")
}
