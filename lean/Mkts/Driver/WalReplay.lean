import Mkts.Proto
import Mkts.Model.WalReplay
import Mkts.Model.Md5
/-! Driver ops for the WAL replay model (C06): `walreplay`, `md5`. -/
namespace Mkts.Driver.WalReplay
open Mkts.Proto Mkts.Bytes Mkts.WalCodec Mkts.WalReplay

def headersize : Int := 37024
def rootR : Bytes := [47, 114]  -- "/r"

/-- files token `keyhex:size,keyhex:size` -/
def parseFiles (s : String) : Option (List (Bytes × Nat)) :=
  if s == "-" || s == "" then some [] else
  (s.splitOn ",").mapM (fun p => match p.splitOn ":" with
    | [k, n] => do pure ((← hexToBytes k), (← parseNat n))
    | _ => none)

/-- expectation token `m:<fileidx>:<off>:<hex>` (must be present) / `y:…` (may be present) -/
structure Exp where
  must : Bool
  file : Nat
  off : Int
  data : Bytes

def parseExps (s : String) : Option (List Exp) :=
  if s == "-" || s == "" then some [] else
  (s.splitOn ",").mapM (fun p =>
    match p.splitOn ":" with
    | [cls, fi, o, h] => do
      pure { must := cls == "m", file := (← parseNat fi), off := (← parseInt o), data := (← hexToBytes h) }
    | _ => none)

/-- (position, byte) pairs of the final file content that were written, last writer wins, sorted by position -/
def written (ws : List Write) (path : Bytes) : List (Int × UInt8) :=
  let cells : List (Int × UInt8) := (ws.filter (fun w => w.path == path)).flatMap
    (fun w => (List.range w.data.length).zip w.data |>.map (fun (i, b) => (w.off + i, b)))
  let sorted := cells.reverse.mergeSort (fun a b => a.1 ≤ b.1)
  -- keep the first of each position group (= the latest write)
  sorted.foldr (fun a acc => match acc with
    | b :: rest => if a.1 = b.1 then a :: rest else a :: acc
    | [] => [a]) []

/-- maximal runs of non-zero bytes at positions ≥ Headersize -/
def runs (cells : List (Int × UInt8)) : List (Int × Bytes) :=
  let nz := cells.filter (fun c => c.2 != 0 && decide (headersize ≤ c.1))
  nz.foldr (fun c acc => match acc with
    | (o, bs) :: rest => if c.1 + 1 = o then (c.1, c.2 :: bs) :: rest else (c.1, [c.2]) :: acc
    | [] => [(c.1, [c.2])]) []

def fileLen (ws : List Write) (path : Bytes) (size : Nat) : Int :=
  (ws.filter (fun w => w.path == path && !w.data.isEmpty)).foldl (fun m w => max m (w.off + w.data.length)) size

def showFile (len : Int) (rs : List (Int × Bytes)) : String :=
  toString len ++ String.join (rs.map fun r => s!"/{r.1}:{bytesToHex r.2}")

def byteAt (rs : List (Int × Bytes)) (p : Int) : UInt8 :=
  match rs.find? (fun r => decide (r.1 ≤ p) && decide (p < r.1 + r.2.length)) with
  | some r => r.2.getD (p - r.1).toNat 0
  | none => 0

def b2s (b : Bool) : String := if b then "1" else "0"

/-- verdict flags: P1 no panic; P2 every non-zero byte in a data area is explained by an expected
region of an intact group; P3 every `must` region is present -/
def verdict (isPanic : Bool) (files : List (List (Int × Bytes))) (exps : List Exp) : String :=
  let p2 := (List.range files.length).zip files |>.all (fun (fi, rs) =>
    rs.all (fun r => (List.range r.2.length).zip r.2 |>.all (fun (i, v) =>
      exps.any (fun e => e.file == fi && decide (e.off ≤ r.1 + i) && decide (r.1 + i < e.off + e.data.length) &&
        e.data.getD (r.1 + i - e.off).toNat 0 == v))))
  let p3 := exps.all (fun e => !e.must ||
    match files[e.file]? with
    | some rs => (List.range e.data.length).zip e.data |>.all (fun (i, v) => byteAt rs (e.off + i) == v)
    | none => false)
  "P=" ++ b2s (!isPanic) ++ b2s p2 ++ b2s p3

def outcomeStr : Outcome → String × String
  | .ok => ("ok", "gone")
  | .removedEmpty => ("ok", "gone")     -- CleanupOldWALFiles returns nil in all three cases;
  | .moved => ("ok", "tmp")             -- they are told apart by what became of the WAL file
  | .errReplay => ("err:replay", "kept")
  | .errTakeover => ("err:takeover", "kept")
  | .panic p => (p.str, "kept")
  | .unmodelled => ("unmodelled", "kept")

/-- `walreplay <walhex> <files> <exps>` -/
def walreplayOp : Op := fun args =>
  match args with
  | [wh, fs, es] =>
    match hexToBytes wh, parseFiles fs, parseExps es with
    | some wal, some files, some exps =>
      let paths := files.map (fun f => fullPath rootR f.1)
      let res := cleanup Mkts.Md5.md5 (fun p => paths.contains p) rootR wal
      let fruns := files.map (fun f => runs (written res.writes (fullPath rootR f.1)))
      let fstr := files.zip fruns |>.map (fun (f, rs) => showFile (fileLen res.writes (fullPath rootR f.1) f.2) rs)
      let (st, w) := outcomeStr res.outcome
      let isPanic := match res.outcome with | .panic _ => true | _ => false
      let hy := (if res.cause == "" then [] else [res.cause]) ++ (if res.ckptDropped then ["ckpt_dropped"] else [])
      s!"M:st={st} wal={w} f={if fstr.isEmpty then "-" else ",".intercalate fstr} " ++
        verdict isPanic fruns exps ++ "\tS:~P=111\tH:" ++ ",".intercalate hy
    | _, _, _ => badArgs
  | _ => badArgs

/-- `md5 <hex>` -/
def md5Op : Op := fun args =>
  match args with
  | [h] => match hexToBytes h with
    | some b => "M:" ++ bytesToHex (Mkts.Md5.md5 b)
    | none => badArgs
  | _ => badArgs

def ops : OpTable := [("walreplay", walreplayOp), ("md5", md5Op)]

end Mkts.Driver.WalReplay
