import Mkts.Model.Path
/-! Lemmas about the lexical path model (C16). Core Lean only. -/
namespace Mkts.Path

/-- a component that `Clean` keeps as it is -/
def plain (c : Str) : Prop := c ≠ [] ∧ c ≠ dot ∧ c ≠ dotdot

instance (c : Str) : Decidable (plain c) := by unfold plain; infer_instance

theorem safe_plain {c : Str} (h : safe c) : plain c := ⟨h.1, h.2.1, h.2.2.1⟩

theorem cleanStep_plain (r : Bool) (stack : List Str) {c : Str} (h : plain c) :
    cleanStep r stack c = c :: stack := by
  obtain ⟨h1, h2, h3⟩ := h
  simp [cleanStep, h1, h2, h3]

theorem cleanStep_skip (r : Bool) (stack : List Str) {c : Str} (h : c = [] ∨ c = dot) :
    cleanStep r stack c = stack := by
  simp [cleanStep, h]

theorem dotdot_ne_nil : dotdot ≠ ([] : Str) := by decide
theorem dotdot_ne_dot : dotdot ≠ dot := by decide

theorem cleanStep_dotdot_cons (r : Bool) (top : Str) (rest : List Str) (h : top ≠ dotdot) :
    cleanStep r (top :: rest) dotdot = rest := by
  simp [cleanStep, dotdot_ne_nil, dotdot_ne_dot, h]

theorem joinItem_plain (d : Path) {c : Str} (h : plain c) : joinItem d c = d ++ [c] := by
  simp [joinItem, cleanStep_plain true _ h]

theorem joinItem_skip (d : Path) {c : Str} (h : c = [] ∨ c = dot) : joinItem d c = d := by
  simp [joinItem, cleanStep_skip true _ h]

theorem joinItem_dotdot_snoc (d : Path) (x : Str) (h : x ≠ dotdot) : joinItem (d ++ [x]) dotdot = d := by
  simp [joinItem, cleanStep_dotdot_cons true x d.reverse h]

theorem joinKey_safe (root : Path) (items : List Str) (h : ∀ c ∈ items, safe c) :
    joinKey root items = root ++ items := by
  induction items generalizing root with
  | nil => simp [joinKey]
  | cons c rest ih =>
    have hc := safe_plain (h c (by simp))
    have := ih (root ++ [c]) (fun x hx => h x (by simp [hx]))
    simp only [joinKey, List.foldl_cons, joinItem_plain root hc] at this ⊢
    simpa using this

theorem joinKey_cons (root : Path) (c : Str) (rest : List Str) :
    joinKey root (c :: rest) = joinKey (joinItem root c) rest := rfl

/-- every directory of the chain lies under the root when the items are safe -/
theorem dirChain_safe (root : Path) (items : List Str) (h : ∀ c ∈ items, safe c) :
    ∀ p ∈ dirChain root items, ∃ pre, pre <+: items ∧ p = root ++ pre := by
  induction items generalizing root with
  | nil => intro p hp; simp [dirChain] at hp; exact ⟨[], by simp, by simp [hp]⟩
  | cons c rest ih =>
    intro p hp
    simp only [dirChain, List.mem_cons] at hp
    rcases hp with rfl | hp
    · exact ⟨[], List.nil_prefix, by simp⟩
    · have hc := safe_plain (h c (by simp))
      rw [joinItem_plain root hc] at hp
      obtain ⟨pre, hpre, rfl⟩ := ih (root ++ [c]) (fun x hx => h x (by simp [hx])) p hp
      exact ⟨c :: pre, by simpa using hpre, by simp⟩

/-- the last directory of the chain is the bucket directory -/
theorem joinKey_mem_dirChain (root : Path) (items : List Str) : joinKey root items ∈ dirChain root items := by
  induction items generalizing root with
  | nil => simp [joinKey, dirChain]
  | cons c rest ih => simp only [dirChain, List.mem_cons, joinKey_cons]; exact Or.inr (ih _)

theorem root_mem_dirChain (root : Path) (items : List Str) : root ∈ dirChain root items := by
  cases items <;> simp [dirChain]

/-! ### the exact class: `staysInside` -/

theorem snoc_cases {α} (l : List α) : l = [] ∨ ∃ l' x, l = l' ++ [x] := by
  rcases List.eq_nil_or_concat l with h | ⟨l', x, h⟩
  · exact Or.inl h
  · exact Or.inr ⟨l', x, by simpa using h⟩

theorem prefix_append_of_prefix {α} {a b : List α} (c : List α) (h : a <+: b) : a <+: b ++ c := by
  obtain ⟨t, rfl⟩ := h; exact ⟨t ++ c, by simp⟩

/-- walking from `base ++ extra` (all of `extra` plain) with a walk that stays inside relative to
    depth `extra.length` never leaves `base` -/
theorem dirChain_staysInside (base : Path) :
    ∀ (items : List Str) (extra : List Str), (∀ c ∈ extra, plain c) →
      staysInsideAux extra.length items = true → ∀ p ∈ dirChain (base ++ extra) items, base <+: p := by
  intro items
  induction items with
  | nil => intro extra _ _ p hp; simp [dirChain] at hp; subst hp; exact List.prefix_append _ _
  | cons c rest ih =>
    intro extra hex hs p hp
    simp only [dirChain, List.mem_cons] at hp
    rcases hp with rfl | hp
    · exact List.prefix_append _ _
    · unfold staysInsideAux at hs
      by_cases h1 : c = [] ∨ c = dot
      · rw [if_pos h1] at hs
        rw [joinItem_skip _ h1] at hp
        exact ih extra hex hs p hp
      · rw [if_neg h1] at hs
        by_cases h2 : c = dotdot
        · rw [if_pos h2] at hs
          subst h2
          rcases snoc_cases extra with rfl | ⟨ex', x, rfl⟩
          · simp at hs
          · have hx : x ≠ dotdot := (hex x (by simp)).2.2
            rw [← List.append_assoc, joinItem_dotdot_snoc _ x hx] at hp
            simp only [List.length_append, List.length_cons, List.length_nil] at hs
            exact ih ex' (fun y hy => hex y (by simp [hy])) hs p hp
        · rw [if_neg h2] at hs
          have hpl : plain c := ⟨fun h => h1 (Or.inl h), fun h => h1 (Or.inr h), h2⟩
          rw [joinItem_plain _ hpl, List.append_assoc] at hp
          have := ih (extra ++ [c]) (by
            intro y hy; simp only [List.mem_append, List.mem_singleton] at hy
            rcases hy with hy | rfl
            · exact hex y hy
            · exact hpl) (by simpa using hs) p hp
          exact this

/-- conversely a walk that does not stay inside reaches a directory outside a non-empty base -/
theorem dirChain_escapes (base : Path) (hb : base ≠ []) (hbp : ∀ c ∈ base, plain c) :
    ∀ (items : List Str) (extra : List Str), (∀ c ∈ extra, plain c) →
      staysInsideAux extra.length items = false → ∃ p ∈ dirChain (base ++ extra) items, ¬ base <+: p := by
  intro items
  induction items with
  | nil => intro extra _ hs; simp [staysInsideAux] at hs
  | cons c rest ih =>
    intro extra hex hs
    unfold staysInsideAux at hs
    by_cases h1 : c = [] ∨ c = dot
    · rw [if_pos h1] at hs
      obtain ⟨p, hp, hn⟩ := ih extra hex hs
      refine ⟨p, ?_, hn⟩
      simp only [dirChain, List.mem_cons]; right; rw [joinItem_skip _ h1]; exact hp
    · rw [if_neg h1] at hs
      by_cases h2 : c = dotdot
      · rw [if_pos h2] at hs
        subst h2
        rcases snoc_cases extra with rfl | ⟨ex', x, rfl⟩
        · -- pop at depth 0: the directory after this step is `base` without its last component
          obtain ⟨b', x, rfl⟩ := (snoc_cases base).resolve_left hb
          have hx : x ≠ dotdot := (hbp x (by simp)).2.2
          refine ⟨b', ?_, ?_⟩
          · simp only [dirChain, List.mem_cons, List.append_nil]; right
            rw [joinItem_dotdot_snoc _ x hx]; exact root_mem_dirChain _ _
          · intro hpre
            have := hpre.length_le
            simp at this
            omega
        · have hx : x ≠ dotdot := (hex x (by simp)).2.2
          simp only [List.length_append, List.length_cons, List.length_nil] at hs
          obtain ⟨p, hp, hn⟩ := ih ex' (fun y hy => hex y (by simp [hy])) hs
          refine ⟨p, ?_, hn⟩
          simp only [dirChain, List.mem_cons]; right
          rw [← List.append_assoc, joinItem_dotdot_snoc _ x hx]; exact hp
      · rw [if_neg h2] at hs
        have hpl : plain c := ⟨fun h => h1 (Or.inl h), fun h => h1 (Or.inr h), h2⟩
        obtain ⟨p, hp, hn⟩ := ih (extra ++ [c]) (by
            intro y hy; simp only [List.mem_append, List.mem_singleton] at hy
            rcases hy with hy | rfl
            · exact hex y hy
            · exact hpl) (by simpa using hs)
        refine ⟨p, ?_, hn⟩
        simp only [dirChain, List.mem_cons]; right
        rw [joinItem_plain _ hpl, List.append_assoc]; exact hp

theorem safe_staysInsideAux (items : List Str) (h : ∀ c ∈ items, safe c) (d : Nat) :
    staysInsideAux d items = true := by
  induction items generalizing d with
  | nil => rfl
  | cons c rest ih =>
    have hc := safe_plain (h c (by simp))
    unfold staysInsideAux
    rw [if_neg (by intro hh; rcases hh with hh | hh; exact hc.1 hh; exact hc.2.1 hh), if_neg hc.2.2]
    exact ih (fun x hx => h x (by simp [hx])) _

end Mkts.Path
