import Mkts.Model.Coerce
/-! Lemmas about the `AnySet` algebra and `GetMissingAndTypeCoercionColumns` (C14). Core Lean only. -/
namespace Mkts.Coerce

theorem filter_length_lt {α} (l : List α) (p : α → Bool) (x : α) (hx : x ∈ l) (hp : p x = false) :
    (l.filter p).length < l.length := by
  induction l with
  | nil => simp at hx
  | cons a t ih =>
    simp only [List.mem_cons] at hx
    by_cases ha : p a = true
    · rcases hx with rfl | hx
      · rw [ha] at hp; cases hp
      · simp only [List.filter_cons, ha, if_true, List.length_cons]
        have := ih hx
        omega
    · have ha' : p a = false := by simpa using ha
      simp only [List.filter_cons, ha', List.length_cons]
      have := List.length_filter_le p t
      simp
      omega

theorem mem_intersect {α} [DecidableEq α] (set input : List α) (x : α) :
    x ∈ intersect set input ↔ x ∈ input ∧ x ∈ set := by
  simp [intersect, List.mem_filter]

theorem mem_subtract {α} [DecidableEq α] (set input : List α) (x : α) :
    x ∈ subtract set input ↔ x ∈ set ∧ x ∉ input := by
  unfold subtract
  split
  · rename_i h
    have : input = [] := by simpa using h
    simp [this]
  · simp only [List.mem_filter, mem_intersect, decide_eq_true_eq]
    constructor
    · rintro ⟨h1, h2⟩; exact ⟨h1, fun hi => h2 ⟨hi, h1⟩⟩
    · rintro ⟨h1, h2⟩; exact ⟨h1, fun hi => h2 hi.1⟩

theorem contains_false_of_not_mem {α} [DecidableEq α] (set input : List α) (x : α) (hx : x ∈ input) (hn : x ∉ set) :
    contains set input = false := by
  unfold contains intersect
  have := filter_length_lt input (fun a => decide (a ∈ set)) x hx (by simpa using hn)
  have hne : (List.filter (fun a => decide (a ∈ set)) input).length ≠ input.length := by omega
  simp [hne]

theorem contains_self {α} [DecidableEq α] (l : List α) (h : l ≠ []) : contains l l = true := by
  unfold contains intersect
  have : l.filter (fun a => decide (a ∈ l)) = l := List.filter_eq_self.mpr (by intro a ha; simpa using ha)
  rw [this]
  cases l with
  | nil => exact absurd rfl h
  | cons a t => simp

theorem extract_ne_nil (dsv : List DS) (ns : List Str) (d : DS) (hd : d ∈ dsv) (hn : d.name ∈ ns) :
    extract dsv ns ≠ [] := by
  unfold extract
  have hfind : (dsv.reverse.find? (·.name = d.name)).isSome = true := by
    rw [List.find?_isSome]
    exact ⟨d, by simpa using hd, by simp⟩
  obtain ⟨v, hv⟩ := Option.isSome_iff_exists.mp hfind
  intro he
  have : v ∈ List.filterMap (fun n => dsv.reverse.find? (·.name = n)) ns :=
    List.mem_filterMap.mpr ⟨d.name, hn, hv⟩
  rw [he] at this
  simp at this

/-- a required column whose NAME is not available is reported missing -/
theorem getMissing_of_missing_name (req avail : List DS) (hav : avail ≠ []) (d : DS) (hd : d ∈ req)
    (hn : d.name ∉ names avail) :
    ∃ m c, getMissingAndTypeCoercionColumns req avail = .ok (m, c) ∧ m ≠ [] := by
  have hda : d ∉ avail := fun h => hn (List.mem_map.mpr ⟨d, h, rfl⟩)
  have hc : contains avail req = false := contains_false_of_not_mem avail req d hd hda
  have hreq : req ≠ [] := by intro h; rw [h] at hd; simp at hd
  have hmd : d ∈ subtract req avail := (mem_subtract _ _ _).mpr ⟨hd, hda⟩
  have hmn : d.name ∈ subtract (names req) (names avail) :=
    (mem_subtract _ _ _).mpr ⟨List.mem_map.mpr ⟨d, hd, rfl⟩, hn⟩
  have hm := extract_ne_nil req _ d hd hmn
  unfold getMissingAndTypeCoercionColumns
  have e1 : avail.isEmpty = false := by cases avail <;> simp_all
  have e2 : req.isEmpty = false := by cases req <;> simp_all
  simp only [e1, hc, e2, Bool.false_eq_true, if_false]
  split
  · exact ⟨_, _, rfl, hm⟩
  · have e3 : (subtract req avail).isEmpty = false := by
      cases h : subtract req avail with
      | nil => rw [h] at hmd; simp at hmd
      | cons a t => rfl
    simp only [e3, Bool.false_eq_true, if_false]
    exact ⟨_, _, rfl, hm⟩

theorem getMissing_self (l : List DS) (h : l ≠ []) : getMissingAndTypeCoercionColumns l l = .ok ([], []) := by
  unfold getMissingAndTypeCoercionColumns
  have e1 : l.isEmpty = false := by cases l <;> simp_all
  simp [e1, contains_self l h]

end Mkts.Coerce
