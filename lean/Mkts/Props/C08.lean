import Mkts.Lemmas.Store
import Mkts.Props.C30
/-!
# C08 — Fixed-length buckets behave like last-writer-wins interval maps

Model: `Mkts.Store` (`WriteRecords` command grouping, primary write per command, slot scan with
hole test, year-file ordering, epoch stamping by `IndexToTime`), configured zone UTC.
Spec: `lww` — the map from interval `(year, slot)` to the payload of the last written row.
-/
namespace Mkts.Props.C08
open Mkts.Store Mkts.Time Mkts.Bytes

/-- every row ever written, in write order -/
def allRows (hist : List (List Row)) : List Row := hist.flatten

theorem lww_eq_putRows (tf : Int) (hist : List (List Row)) (s : Slots) :
    hist.foldl (fun s req => req.foldl (fun s r => s.put (slotKey tf r) r.payload) s) s
      = putRows tf s (allRows hist) := by
  induction hist generalizing s with
  | nil => simp [putRows, allRows]
  | cons req rest ih =>
    simp only [List.foldl_cons, allRows, List.flatten_cons] at ih ⊢
    rw [ih]; simp [putRows, List.foldl_append]

/-- REFINEMENT: whatever the grouping of rows into requests and commands, the store holds exactly
    the last-writer-wins map of the rows written. -/
theorem C08_refines_lww (tf : Int) (hist : List (List Row)) : applyHist tf hist = lww tf hist := by
  unfold applyHist lww
  suffices h : ∀ s, hist.foldl (fun s req => applyCmds s (writeRecords tf req)) s =
      hist.foldl (fun s req => req.foldl (fun s r => s.put (slotKey tf r) r.payload) s) s from h []
  induction hist with
  | nil => intro s; rfl
  | cons req rest ih =>
    intro s
    simp only [List.foldl_cons]
    rw [applyCmds_writeRecords, ih]; rfl

/-- one row per written interval: no interval is stored twice -/
theorem C08_one_row_per_interval (tf : Int) (hist : List (List Row)) :
    (keys (sortedSlots (applyHist tf hist))).Nodup := by
  rw [C08_refines_lww]
  unfold lww
  rw [lww_eq_putRows]
  exact nodup_keys_sortedSlots _ (nodup_keys_putRows tf _ [] (by simp [keys]))

/-- each interval carries the values of the LAST write to it -/
theorem C08_last_write_wins (tf : Int) (hist : List (List Row)) (k : Int × Int) :
    (applyHist tf hist).get k =
      ((allRows hist).reverse.find? (fun r => slotKey tf r = k)).map (·.payload) := by
  rw [C08_refines_lww]
  unfold lww
  rw [lww_eq_putRows, get_putRows]
  cases (allRows hist).reverse.find? (fun r => decide (slotKey tf r = k)) <;> simp [Slots.get]

/-- the scan visits year files in ascending order and slots in ascending order -/
theorem C08_ascending (s : Slots) : Sorted (sortedSlots s) := sorted_sortedSlots s

/-- the unrestricted query returns every filled slot with index ≥ 1, in that order, stamped with
    the interval start -/
theorem C08_query_all (tf : Int) (s : Slots) :
    query tf s ⟨none, none, none⟩ =
      ((sortedSlots s).filter (fun kv => decide (1 ≤ kv.1.2))).map (rowOfSlot tf) := by
  simp [query, inRange]

/-- The property as stated: the unrestricted query returns exactly the last-writer-wins map. -/
def C08_full : Prop :=
  ∀ (tf : Int) (hist : List (List Row)), 0 < tf →
    query tf (applyHist tf hist) ⟨none, none, none⟩ = specAll tf hist

/-- FALSE of the code: a 1D row on January 1 lands in slot index 0, which the reader treats as a
    hole.  Witness: one row at 1970-01-01T00:00:00Z. -/
theorem C08_cex_jan1 : ¬ C08_full := by
  intro h
  have := h dayNs [[⟨0, [1]⟩]] (by decide)
  revert this
  decide

/-- What holds: when no written row maps to slot index 0 (i.e. never "1D and January 1"), the
    unrestricted query is exactly the last-writer-wins map, for every history. -/
theorem C08_partial (tf : Int) (hist : List (List Row))
    (hno0 : ∀ r ∈ allRows hist, 1 ≤ (slotKey tf r).2) :
    query tf (applyHist tf hist) ⟨none, none, none⟩ = specAll tf hist := by
  rw [C08_query_all, C08_refines_lww]
  unfold specAll
  congr 1
  apply List.filter_eq_self.mpr
  intro kv hkv
  rw [mem_sortedSlots] at hkv
  -- every key of the lww map is the slot key of some written row
  have hk : ∀ (rows : List Row) (s : Slots), (∀ x ∈ s, 1 ≤ x.1.2) → (∀ r ∈ rows, 1 ≤ (slotKey tf r).2) →
      ∀ x ∈ putRows tf s rows, 1 ≤ x.1.2 := by
    intro rows
    induction rows with
    | nil => intro s hs _ x hx; exact hs x (by simpa [putRows] using hx)
    | cons r rest ih =>
      intro s hs hr x hx
      simp only [putRows, List.foldl_cons] at hx
      refine ih (s.put (slotKey tf r) r.payload) ?_ (fun r' hr' => hr r' (List.mem_cons_of_mem _ hr')) x hx
      intro y hy
      have : ∀ (s : Slots) (k : Int × Int) (v : Bytes) (y : (Int × Int) × Bytes),
          y ∈ s.put k v → y ∈ s ∨ y = (k, v) := by
        intro s k v
        induction s with
        | nil => intro y hy; simp [Slots.put] at hy; exact Or.inr hy
        | cons hd t iht =>
          intro y hy
          obtain ⟨k', v'⟩ := hd
          simp only [Slots.put] at hy
          split at hy
          · simp at hy; rcases hy with h | h
            · exact Or.inr h
            · exact Or.inl (List.mem_cons_of_mem _ h)
          · simp at hy; rcases hy with h | h
            · exact Or.inl (by simp [h])
            · rcases iht y h with h' | h'
              · exact Or.inl (List.mem_cons_of_mem _ h')
              · exact Or.inr h'
      rcases this s _ _ y hy with h | h
      · exact hs y h
      · subst h; exact hr r (List.mem_cons_self)
  unfold lww at hkv
  rw [lww_eq_putRows] at hkv
  simpa using hk (allRows hist) [] (by simp) hno0 kv hkv

/-- sub-day timeframes never produce slot 0, so for them the property holds for all histories -/
theorem C08_subday (tf : Int) (hist : List (List Row)) (htf : 0 < tf) (hd : tf ≠ dayNs) :
    query tf (applyHist tf hist) ⟨none, none, none⟩ = specAll tf hist := by
  apply C08_partial
  intro r _
  exact (C30.C30_interval utc C30.utc_coherent (nsOfSec r.sec) tf htf hd).2.2

/-- every returned row is stamped with the start of the interval the written instant fell into
    (sub-day timeframes): start ≤ t < start + tf -/
theorem C08_stamp (tf : Int) (r : Row) (htf : 0 < tf) (hd : tf ≠ dayNs) :
    indexToTime utc (slotKey tf r).2 tf (slotKey tf r).1 ≤ nsOfSec r.sec ∧
    nsOfSec r.sec < indexToTime utc (slotKey tf r).2 tf (slotKey tf r).1 + tf := by
  have := C30.C30_interval utc C30.utc_coherent (nsOfSec r.sec) tf htf hd
  exact ⟨this.1, this.2.1⟩

/-! non-vacuity: a two-request history with a duplicate interval across requests and two years -/
example : query 60000000000 (applyHist 60000000000
    [[⟨1577836800, [1]⟩, ⟨1609459200, [2]⟩], [⟨1577836830, [3]⟩]]) ⟨none, none, none⟩
    = [⟨1577836800, [3]⟩, ⟨1609459200, [2]⟩] := by decide

end Mkts.Props.C08
