import Mkts.Proto
import Mkts.Model.ReadCommitted
/-!
Driver for the `rc` op (C18), Go side: go/harness/rc_ops.go.
  rc <c|u> <step>…     W:<rows>   X<B|M|A>:<rows>   Q
rows `minute,sec,payloadhex` joined by `+`; slot = minute, record = payload ++ le32(sec)
(the model's ticks are the seconds: Go's `GetIntervalTicks32Bit` is strictly monotone on whole seconds).
-/
namespace Mkts.Driver.ReadCommitted
open Mkts.Proto Mkts.RC

def recLen : Nat := 12

def parseRows (s : String) : Option (List (Nat × Bytes)) :=
  (s.splitOn "+").mapM (fun r => match r.splitOn "," with
    | [m, sec, p] => do
      let mi ← parseNat m
      let se ← parseNat sec
      let pb ← hexToBytes p
      if pb.length == 8 then pure (mi, pb ++ [UInt8.ofNat se, 0, 0, 0]) else none
    | _ => none)

/-- `WriteRecords`: consecutive rows of the same interval form one write command -/
def groupRows : List (Nat × Bytes) → List Write
  | [] => []
  | (m, r) :: rest =>
    match groupRows rest with
    | w :: ws => if w.slot = m then ⟨m, r ++ w.recs⟩ :: ws else ⟨m, r⟩ :: w :: ws
    | [] => [⟨m, r⟩]

def showView : Except Err View → String
  | .error .corrupt => "err:corrupt"
  | .error .eof => "err:eof"
  | .ok v =>
    let rows := v.flatMap (fun e => e.2.map (fun r => toString e.1 ++ ":" ++ bytesToHex (r.take 8)))
    if rows.isEmpty then "0" else "+".intercalate rows

def applyWrites (c : Codec) (f : VFile) (ws : List Write) : VFile :=
  (iter c recLen (2 * ws.length) ⟨f, none, ws⟩).file

/-- returns (model tokens, spec alternatives (token lists), hyps) -/
def runSteps (c : Codec) : List String → VFile → Bool → List String → List (List String) → List String →
    Option (List String × List (List String) × List String)
  | [], _, _, acc, alts, hyps => some (acc.reverse, alts.map List.reverse, hyps)
  | st :: rest, f, created, acc, alts, hyps =>
    match st.splitOn ":" with
    | ["Q"] =>
      let r := if created then showView (view c recLen f) else "err:nofiles"
      runSteps c rest f created (("Q=" ++ r) :: acc) (alts.map (fun a => ("Q=" ++ r) :: a)) hyps
    | ["W", rows] => do
      let rs ← parseRows rows
      let f' := applyWrites c f (groupRows rs)
      runSteps c rest f' true ("W=ok" :: acc) (alts.map (fun a => "W=ok" :: a)) hyps
    | [x, rows] => do
      let rs ← parseRows rows
      let ws := groupRows rs
      if !created then
        runSteps c rest f created ((x ++ "=err:nofile") :: acc) (alts.map (fun a => (x ++ "=err:nofile") :: a)) hyps
      else
      let s0 : WState := ⟨f, none, ws⟩
      let before := showView (view c recLen f)
      let sMid := iter c recLen 1 s0
      let sEnd := iter c recLen (2 * ws.length) s0
      let after := showView (view c recLen sEnd.file)
      if x == "XB" then
        runSteps c rest sEnd.file true (("XB=" ++ before) :: acc) (alts.map (fun a => ("XB=" ++ before) :: a)) hyps
      else if x == "XA" then
        runSteps c rest sEnd.file true (("XA=" ++ after) :: acc) (alts.map (fun a => ("XA=" ++ after) :: a)) hyps
      else if x == "XM" then
        let mid := showView (view c recLen sMid.file)
        let hy := if sMid.inPlaceMid then ["query_overlaps_continuation_write"] else []
        runSteps c rest sEnd.file true (("XM=" ++ mid) :: acc)
          (alts.flatMap (fun a => [("XM=" ++ before) :: a, ("XM=" ++ after) :: a])) (hyps ++ hy)
      else none
    | _ => none

def rcOp : Mkts.Proto.Op := fun args =>
  match args with
  | mode :: steps =>
    let c? : Option Codec := if mode == "u" then some idCodec else if mode == "c" then some framedCodec else none
    match c? with
    | none => badArgs
    | some c =>
      match runSteps c steps ⟨[], []⟩ false [] [[]] [] with
      | none => badArgs
      | some (toks, alts, hyps) =>
        let line := " ".intercalate toks
        let spec := "||".intercalate (alts.map (fun a => " ".intercalate a)).eraseDups
        s!"M:{line}\tS:?{spec}\tH:{",".intercalate hyps.eraseDups}"
  | _ => badArgs

/-! `rcf`: fixed-length bucket, record = 8 payload bytes, slot = minute -/

def showF (f : FFile) : String :=
  if f.isEmpty then "0" else "+".intercalate (f.map (fun e => toString e.1 ++ ":" ++ bytesToHex e.2))

def parseFRows (s : String) : Option (List (Nat × Bytes)) :=
  (parseRows s).map (fun l => l.map (fun e => (e.1, e.2.take 8)))

def runF : List String → FFile → Bool → List String → Option (List String)
  | [], _, _, acc => some acc.reverse
  | st :: rest, f, created, acc =>
    match st.splitOn ":" with
    | ["Q"] => runF rest f created (("Q=" ++ (if created then showF f else "err:nofiles")) :: acc)
    | ["W", rows] => do
      let rs ← parseFRows rows
      runF rest (fiter rs.length f rs) true ("W=ok" :: acc)
    | [x, rows] => do
      let rs ← parseFRows rows
      if !created then runF rest f created ((x ++ "=err:nofile") :: acc) else
      let f' := fiter rs.length f rs
      let shown := if x == "XB" then showF f else showF f'
      -- `/w<n>`: number of WriteAt calls the real writer made = number of records
      runF rest f' true ((x ++ "=" ++ shown ++ "/w" ++ toString rs.length) :: acc)
    | _ => none

def rcfOp : Mkts.Proto.Op := fun args =>
  match runF args [] false [] with
  | none => badArgs
  | some toks => let line := " ".intercalate toks; s!"M:{line}\tS:{line}"

def ops : OpTable := [("rc", rcOp), ("rcf", rcfOp)]

end Mkts.Driver.ReadCommitted
