import Mkts.Lemmas.WalProto
/-!
Power loss: the same event-boundary reasoning as `Lemmas/WalProto`, for the DURABLE views
(`walDurable` = WAL as of its last fsync/sync, `primDurable` = primary files as of the last
sync(2)).  `DShape st all`: the durable primary holds everything before the groups that are live
in the durable WAL plus a prefix of those groups' commands; replaying the durable WAL over it —
even after any unsynced primary writes that hit slots written by those live groups survived or
were torn (`junk`) — gives exactly `all`.
-/
namespace Mkts.WalProto
open Mkts.Store Mkts.Bytes

abbrev flat (l : List (Nat × List Cmd)) : List Cmd := (l.map (·.2)).flatten

theorem flat_snoc (l : List (Nat × List Cmd)) (id : Nat) (cmds : List Cmd) : flat (l ++ [(id, cmds)]) = flat l ++ cmds := by
  simp [flat]

theorem flat_single (id : Nat) (cmds : List Cmd) : flat [(id, cmds)] = cmds := by simp [flat]

def DShape (st : St) (all : List Cmd) : Prop :=
  ∃ (liveD : List (Nat × List Cmd)) (pre : List Cmd) (i : Nat),
    liveTGs st.walDurable = liveD ∧
    st.primDurable = applyCmds [] (pre ++ (flat liveD).take i) ∧
    all = pre ++ flat liveD

/-- surviving or torn unsynced primary writes (`junk`) that only hit slots some command of `l`
    writes are overwritten by replaying `l` -/
theorem junk_overwritten (s0 : Slots) (junk l : List Cmd)
    (hj : ∀ c ∈ junk, ∃ c' ∈ l, (c'.year, c'.index) = (c.year, c.index)) :
    Equiv (applyCmds (applyCmds s0 junk) l) (applyCmds s0 l) := by
  intro k
  rw [get_applyCmds, get_applyCmds l]
  cases h1 : List.find? (fun c => decide ((c.year, c.index) = k)) l.reverse with
  | some c => rfl
  | none =>
    simp only
    rw [get_applyCmds]
    have : List.find? (fun c => decide ((c.year, c.index) = k)) junk.reverse = none := by
      rw [List.find?_eq_none] at h1 ⊢
      intro c hc
      obtain ⟨c', hc', hk⟩ := hj c (List.mem_reverse.mp hc)
      have := h1 c' (List.mem_reverse.mpr hc')
      simp only [decide_eq_true_eq] at this ⊢
      rw [← hk]; exact this
    rw [this]

/-- restart after power loss from a durable shape, with arbitrary junk on slots of live groups -/
theorem dshape_recover {st : St} {all : List Cmd} (h : DShape st all) (junk : List Cmd)
    (hj : ∀ c ∈ junk, ∃ c' ∈ flat (liveTGs st.walDurable), (c'.year, c'.index) = (c.year, c.index)) :
    Equiv (replay (applyCmds st.primDurable junk) (liveTGs st.walDurable)) (applyCmds [] all) := by
  obtain ⟨liveD, pre, i, hl, hp, hall⟩ := h
  rw [replay_eq_applyCmds]
  refine (junk_overwritten st.primDurable junk _ hj).trans ?_
  rw [hl, hp, hall]
  exact replay_idem [] pre _ i

/-- durable part of the event-boundary invariant -/
structure DBnd (s : St) (c : Ctl) (done : List Cmd) (liveL : List (Nat × List Cmd)) : Prop where
  shape : DShape s done
  caseAB : (s.walDurable = s.wal ∧ ∃ pre i, s.primDurable = applyCmds [] (pre ++ (flat liveL).take i) ∧
              done = pre ++ flat liveL)
           ∨ (liveL = [] ∧ s.primDurable = applyCmds [] done)
  noneSynced : c.lastCommitted = none → s.primDurable = applyCmds [] done

theorem dbnd_init : DBnd {} {} [] [] :=
  ⟨⟨[], [], 0, rfl, rfl, rfl⟩, Or.inl ⟨rfl, [], 0, rfl, rfl⟩, fun _ => rfl⟩

theorem run_walAppends_durable (s : St) (rs : List Rec) :
    (run s (rs.map Effect.walAppend)).walDurable = s.walDurable ∧
    (run s (rs.map Effect.walAppend)).primDurable = s.primDurable := by
  rw [run_walAppends]; exact ⟨rfl, rfl⟩

theorem take_append_le {α} (a b : List α) (i : Nat) (h : i ≤ a.length) : (a ++ b).take i = a.take i := by
  rw [List.take_append_of_le_length h]

/-- state after any prefix of a flush, durable view -/
theorem flush_dstep {s c done liveL} (h : Bnd s c done liveL) (d : DBnd s c done liveL) (cmds : List Cmd)
    (es : List Effect) (hes : es <+: flushEffects c.tgid cmds) :
    (DShape (run s es) done ∧ (run s es).acked = s.acked) ∨
    (DShape (run s es) (done ++ cmds) ∧
      ((run s es).acked = s.acked ∨ (es = flushEffects c.tgid cmds ∧ (run s es).acked = s.acked + 1))) := by
  rw [flushEffects_eq] at hes
  rcases prefix_append_cases _ _ _ hes with h1 | ⟨t, ht, rfl⟩
  · -- inside the WAL records: nothing durable changed
    have : ∃ i, es = ((tgRecs c.tgid cmds).take i).map Effect.walAppend := by
      refine ⟨es.length, ?_⟩
      rw [List.prefix_iff_eq_take] at h1
      rw [h1, List.map_take]; simp
    obtain ⟨i, rfl⟩ := this
    left
    obtain ⟨hw, hp⟩ := run_walAppends_durable s ((tgRecs c.tgid cmds).take i)
    obtain ⟨liveD, pre, j, hl, hpp, hall⟩ := d.shape
    refine ⟨⟨liveD, pre, j, by rw [hw]; exact hl, by rw [hp]; exact hpp, hall⟩, ?_⟩
    rw [run_walAppends]
  · rw [run_append, run_walAppends]
    rcases prefix_append_cases _ _ _ ht with h2 | ⟨t2, ht2, rfl⟩
    · have hcases : t = [] ∨ t = [Effect.walFsync] := by
        have := (mem_inits [Effect.walFsync] t).mpr h2
        simpa [inits] using this
      rcases hcases with rfl | rfl
      · -- all records written, not yet fsynced
        left
        obtain ⟨liveD, pre, j, hl, hpp, hall⟩ := d.shape
        exact ⟨⟨liveD, pre, j, hl, hpp, hall⟩, rfl⟩
      · right
        refine ⟨?_, Or.inl rfl⟩
        -- the fsync makes the whole WAL (with this group) durable
        have hlive : liveTGs (s.wal ++ tgRecs c.tgid cmds) = liveL ++ [(c.tgid, cmds)] := by
          have := h.scan (tgRecs c.tgid cmds ++ [])
          unfold liveTGs
          rw [List.append_nil] at this
          rw [this]
          have := scan_tgRecs c.tgid cmds [] liveL
          simpa [scanLive] using this
        rcases d.caseAB with ⟨_, pre, i, hp, hd⟩ | ⟨hnil, hp⟩
        · refine ⟨liveL ++ [(c.tgid, cmds)], pre, min i (flat liveL).length, by simpa [run, exec] using hlive, ?_, ?_⟩
          · show s.primDurable = _
            rw [hp, flat_snoc, take_append_le _ _ _ (Nat.min_le_right _ _)]
            congr 2
            rw [List.take_eq_take_min]
          · rw [hd, flat_snoc, List.append_assoc]
        · subst hnil
          refine ⟨[(c.tgid, cmds)], done, 0, by simpa [run, exec] using hlive, ?_, by rw [flat_single]⟩
          show s.primDurable = _
          rw [hp]; simp
    · -- after the fsync: durable views no longer change within this event
      rw [run_append]
      right
      have hlive : liveTGs (s.wal ++ tgRecs c.tgid cmds) = liveL ++ [(c.tgid, cmds)] := by
        have := h.scan (tgRecs c.tgid cmds ++ [])
        unfold liveTGs
        rw [List.append_nil] at this
        rw [this]
        have := scan_tgRecs c.tgid cmds [] liveL
        simpa [scanLive] using this
      have hdur : ∀ (u : List Effect), u <+: (cmds.map Effect.prim ++ [Effect.ack]) →
          (run (run { s with wal := s.wal ++ tgRecs c.tgid cmds } [Effect.walFsync]) u).walDurable = s.wal ++ tgRecs c.tgid cmds ∧
          (run (run { s with wal := s.wal ++ tgRecs c.tgid cmds } [Effect.walFsync]) u).primDurable = s.primDurable := by
        intro u hu
        have : ∀ (u : List Effect) (st : St), (∀ e ∈ u, (∃ cc, e = Effect.prim cc) ∨ e = Effect.ack) →
            (run st u).walDurable = st.walDurable ∧ (run st u).primDurable = st.primDurable := by
          intro u
          induction u with
          | nil => intro st _; exact ⟨rfl, rfl⟩
          | cons e rest ih =>
            intro st he
            simp only [run, List.foldl_cons] at ih ⊢
            have h1 := ih (exec st e) (fun e' he' => he e' (List.mem_cons_of_mem _ he'))
            rcases he e (List.mem_cons_self) with ⟨cc, rfl⟩ | rfl
            · simpa [exec] using h1
            · simpa [exec] using h1
        have hmem : ∀ e ∈ u, (∃ cc, e = Effect.prim cc) ∨ e = Effect.ack := by
          intro e he
          have := hu.subset he
          simp only [List.mem_append, List.mem_map, List.mem_singleton] at this
          rcases this with ⟨cc, _, rfl⟩ | rfl
          · exact Or.inl ⟨cc, rfl⟩
          · exact Or.inr rfl
        have := this u (run { s with wal := s.wal ++ tgRecs c.tgid cmds } [Effect.walFsync]) hmem
        simpa [run, exec] using this
      obtain ⟨hw, hpd⟩ := hdur t2 ht2
      have hshape : DShape (run (run { s with wal := s.wal ++ tgRecs c.tgid cmds } [Effect.walFsync]) t2) (done ++ cmds) := by
        rcases d.caseAB with ⟨_, pre, i, hp, hd⟩ | ⟨hnil, hp⟩
        · refine ⟨liveL ++ [(c.tgid, cmds)], pre, min i (flat liveL).length, by rw [hw]; exact hlive, ?_, ?_⟩
          · rw [hpd, hp, flat_snoc, take_append_le _ _ _ (Nat.min_le_right _ _)]
            congr 2
            rw [List.take_eq_take_min]
          · rw [hd, flat_snoc, List.append_assoc]
        · subst hnil
          refine ⟨[(c.tgid, cmds)], done, 0, by rw [hw]; simpa using hlive, ?_, by rw [flat_single]⟩
          rw [hpd, hp]; simp
      refine ⟨hshape, ?_⟩
      -- acknowledgement bookkeeping
      rcases prefix_append_cases _ _ _ ht2 with h3 | ⟨t3, ht3, rfl⟩
      · obtain ⟨i, rfl⟩ := prefix_map_prim cmds t2 h3
        left
        rw [run_prims]; rfl
      · have hcases : t3 = [] ∨ t3 = [Effect.ack] := by
          have := (mem_inits [Effect.ack] t3).mpr ht3
          simpa [inits] using this
        rcases hcases with rfl | rfl
        · left; rw [List.append_nil, run_prims]; rfl
        · right
          refine ⟨by simp [flushEffects, tgRecs], ?_⟩
          rw [run_append, run_prims]; rfl

end Mkts.WalProto

namespace Mkts.WalProto
open Mkts.Store Mkts.Bytes

/-- durable invariant after a whole flush -/
theorem flush_dfull {s c done liveL} (h : Bnd s c done liveL) (d : DBnd s c done liveL) (cmds : List Cmd) :
    DBnd (run s (flushEffects c.tgid cmds)) { tgid := c.tgid + 1, lastCommitted := some c.tgid }
      (done ++ cmds) (liveL ++ [(c.tgid, cmds)]) := by
  have hs := flush_dstep h d cmds (flushEffects c.tgid cmds) (List.prefix_refl _)
  have hshape : DShape (run s (flushEffects c.tgid cmds)) (done ++ cmds) := by
    rcases hs with ⟨_, hack⟩ | ⟨hsh, _⟩
    · exfalso
      have := (flush_full h cmds).2
      omega
    · exact hsh
  have hrun : (run s (flushEffects c.tgid cmds)).walDurable = (run s (flushEffects c.tgid cmds)).wal ∧
      (run s (flushEffects c.tgid cmds)).primDurable = s.primDurable := by
    rw [flushEffects_eq, run_append, run_walAppends, run_append, run_append, run_prims]
    simp [run, exec]
  refine ⟨hshape, Or.inl ⟨hrun.1, ?_⟩, by intro hn; cases hn⟩
  rcases d.caseAB with ⟨_, pre, i, hp, hd⟩ | ⟨hnil, hp⟩
  · refine ⟨pre, min i (flat liveL).length, ?_, by rw [hd, flat_snoc, List.append_assoc]⟩
    rw [hrun.2, hp, flat_snoc, take_append_le _ _ _ (Nat.min_le_right _ _)]
    congr 2
    rw [List.take_eq_take_min]
  · subst hnil
    refine ⟨done, 0, by rw [hrun.2, hp]; simp, by simp [flat]⟩

theorem checkpoint_dstep {s c done liveL} (h : Bnd s c done liveL) (d : DBnd s c done liveL) (es : List Effect)
    (hes : es <+: checkpointEffects c.lastCommitted) :
    DShape (run s es) done ∧ (run s es).acked = s.acked := by
  cases hc : c.lastCommitted with
  | none =>
    rw [hc] at hes
    have : es = [] := by simpa [checkpointEffects] using hes
    subst this
    exact ⟨d.shape, rfl⟩
  | some id =>
    rw [hc] at hes
    have hmem := (mem_inits _ es).mpr hes
    obtain ⟨pre, hpre⟩ := h.split
    have hlive1 : liveTGs (s.wal ++ [Rec.ckPrep id]) = liveL := by
      have := h.scan [Rec.ckPrep id]; simpa [liveTGs, scanLive] using this
    have hsynced : ∀ st : St, st.walDurable = s.wal ++ [Rec.ckPrep id] → st.primDurable = s.prim → DShape st done :=
      fun st hw hp => ⟨liveL, pre, (flat liveL).length, by rw [hw]; exact hlive1,
        by rw [hp, h.prim, hpre, List.take_length], hpre⟩
    obtain ⟨liveD, pre', j, hl, hpp, hall⟩ := d.shape
    simp only [checkpointEffects, inits, List.map_cons, List.map_nil, List.mem_cons, List.mem_nil_iff, or_false] at hmem
    rcases hmem with rfl | rfl | rfl | rfl
    · exact ⟨⟨liveD, pre', j, hl, hpp, hall⟩, rfl⟩
    · exact ⟨⟨liveD, pre', j, hl, hpp, hall⟩, rfl⟩
    · exact ⟨hsynced _ rfl rfl, rfl⟩
    · exact ⟨hsynced _ rfl rfl, rfl⟩

theorem checkpoint_dfull {s c done liveL} (h : Bnd s c done liveL) (d : DBnd s c done liveL) :
    DBnd (run s (checkpointEffects c.lastCommitted)) { c with lastCommitted := none } done [] := by
  have hs := (checkpoint_dstep h d (checkpointEffects c.lastCommitted) (List.prefix_refl _)).1
  cases hc : c.lastCommitted with
  | none =>
    have hl : liveL = [] := h.noneLive hc
    subst hl
    rw [hc] at hs
    simp only [checkpointEffects, run, List.foldl_nil] at hs ⊢
    exact ⟨hs, Or.inr ⟨rfl, d.noneSynced hc⟩, fun _ => d.noneSynced hc⟩
  | some id =>
    rw [hc] at hs
    have hp : (run s (checkpointEffects (some id))).primDurable = applyCmds [] done := by
      simp [checkpointEffects, run, exec, h.prim]
    exact ⟨hs, Or.inr ⟨rfl, hp⟩, fun _ => hp⟩

theorem rotate_dstep {s c done liveL} (h : Bnd s c done liveL) (d : DBnd s c done liveL) (es : List Effect)
    (hes : es <+: rotateEffects c.lastCommitted) :
    DShape (run s es) done ∧ (run s es).acked = s.acked := by
  unfold rotateEffects at hes
  rcases prefix_append_cases _ _ _ hes with h1 | ⟨t, ht, rfl⟩
  · exact checkpoint_dstep h d es h1
  · have d1 := checkpoint_dfull h d
    obtain ⟨hb1, hack⟩ := checkpoint_full_nil h
    rw [run_append]
    generalize run s (checkpointEffects c.lastCommitted) = s1 at d1 hb1 hack ⊢
    have hmem := (mem_inits _ t).mpr ht
    obtain ⟨liveD, pre', j, hl, hpp, hall⟩ := d1.shape
    simp only [inits, List.map_cons, List.map_nil, List.mem_cons, List.mem_nil_iff, or_false] at hmem
    rcases hmem with rfl | rfl | rfl | rfl
    · exact ⟨⟨liveD, pre', j, hl, hpp, hall⟩, hack⟩
    · exact ⟨⟨liveD, pre', j, by simpa [run, exec] using hl, by simpa [run, exec] using hpp, hall⟩, by simp [run, exec, hack]⟩
    · exact ⟨⟨liveD, pre', j, by simpa [run, exec] using hl, by simpa [run, exec] using hpp, hall⟩, by simp [run, exec, hack]⟩
    · refine ⟨⟨[], done, 0, by simp [run, exec, liveTGs, scanLive], ?_, by simp [flat]⟩, by simp [run, exec, hack]⟩
      have := d1.noneSynced rfl
      simpa [run, exec] using this

theorem rotate_dfull {s c done liveL} (h : Bnd s c done liveL) (d : DBnd s c done liveL) :
    DBnd (run s (rotateEffects c.lastCommitted)) { c with lastCommitted := none } done [] := by
  have hs := (rotate_dstep h d (rotateEffects c.lastCommitted) (List.prefix_refl _)).1
  have d1 := checkpoint_dfull h d
  unfold rotateEffects at hs ⊢
  rw [run_append] at hs ⊢
  generalize run s (checkpointEffects c.lastCommitted) = s1 at d1 hs ⊢
  have hp : (run s1 [Effect.walTruncate, Effect.walAppend Rec.status, Effect.walFsync]).primDurable = applyCmds [] done := by
    have := d1.noneSynced rfl
    simpa [run, exec] using this
  refine ⟨hs, Or.inl ⟨by simp [run, exec], done, 0, by rw [hp]; simp [flat], by simp [flat]⟩, fun _ => hp⟩

end Mkts.WalProto
