package main

// C28: WAL transaction-group codec.  Ops run the real executor.serializeTG (through the add-only
// hook executor.VerifSerializeTG) and executor.ParseTGData.

import (
	"fmt"
	"strconv"
	"strings"

	"github.com/alpacahq/marketstore/v4/executor"
	"github.com/alpacahq/marketstore/v4/executor/wal"
	mio "github.com/alpacahq/marketstore/v4/utils/io"
)

func parseShapesTok(s string) []mio.DataShape {
	if s == "-" || s == "" {
		return nil
	}
	var out []mio.DataShape
	for _, p := range strings.Split(s, ",") {
		nt := strings.Split(p, "/")
		if len(nt) != 2 {
			panic("bad-arg shape " + p)
		}
		name, err := unhx(nt[0])
		must(err)
		out = append(out, mio.DataShape{Name: string(name), Type: mio.EnumElementType(byte(atoi(nt[1])))})
	}
	return out
}

func showShapesTok(dss []mio.DataShape) string {
	if len(dss) == 0 {
		return "-"
	}
	ss := make([]string, len(dss))
	for i, d := range dss {
		ss[i] = hx([]byte(d.Name)) + "/" + strconv.Itoa(int(byte(d.Type)))
	}
	return strings.Join(ss, ",")
}

func parseCmdsTok(s string) []*wal.WriteCommand {
	if s == "-" || s == "" {
		return nil
	}
	var out []*wal.WriteCommand
	for _, c := range strings.Split(s, ";") {
		f := strings.Split(c, ":")
		if len(f) != 7 {
			panic("bad-arg cmd " + c)
		}
		path, err := unhx(f[1])
		must(err)
		data, err := unhx(f[5])
		must(err)
		if data == nil {
			data = []byte{}
		}
		out = append(out, &wal.WriteCommand{
			RecordType: mio.EnumRecordType(int8(atoi(f[0]))),
			WALKeyPath: string(path),
			VarRecLen:  int(atoi(f[2])),
			Offset:     atoi(f[3]),
			Index:      atoi(f[4]),
			Data:       data,
			DataShapes: parseShapesTok(f[6]),
		})
	}
	return out
}

func cmdTok(rt int, path []byte, vrl, off, idx int64, data []byte, shapes string) string {
	return fmt.Sprintf("%d:%s:%d:%d:%d:%s:%s", rt, hx(path), vrl, off, idx, hx(data), shapes)
}

// exactCap copies b into a slice with cap == len, like the replay path's make([]byte, tgLen).
func exactCap(b []byte) []byte {
	c := make([]byte, len(b))
	copy(c, b)
	return c
}

// showDecodedTG runs the real ParseTGData and renders its result (panics are part of the result).
func showDecodedTG(ser []byte) (res string) {
	defer func() {
		if r := recover(); r != nil {
			res = panicClass(r)
		}
	}()
	id, sets := executor.ParseTGData(exactCap(ser), "/r")
	ss := make([]string, len(sets))
	for i, w := range sets {
		ss[i] = fmt.Sprintf("%d:%s:%d:%d:%s:%s", int8(w.RecordType), hx([]byte(w.FilePath)), w.DataLen, w.VarRecLen,
			hx(w.Buffer), showShapesTok(w.DataShapes))
	}
	body := "-"
	if len(ss) > 0 {
		body = strings.Join(ss, ";")
	}
	return fmt.Sprintf("%d|%s", id, body)
}

func init() {
	// tgrt <tgid> <cmds>
	ops["tgrt"] = func(a []string) string {
		id := atoi(a[0])
		cmds := parseCmdsTok(a[1])
		ser, _ := executor.VerifSerializeTG(id, cmds)
		return "ser=" + hx(ser) + " dec=" + showDecodedTG(ser)
	}
	// tgparse <hex>
	ops["tgparse"] = func(a []string) string {
		b, err := unhx(a[0])
		must(err)
		if b == nil {
			b = []byte{}
		}
		return "dec=" + showDecodedTG(b)
	}

	gens["C28"] = genC28
}

var c28Names = []string{"Epoch", "Open", "High", "Low", "Close", "Volume", "Ask", "Bid", "Nanoseconds", "x", ""}

func c28Shapes(g *Gen, n int, nameLen func() int) string {
	if n == 0 {
		return "-"
	}
	ss := make([]string, n)
	for i := range ss {
		var name []byte
		if l := nameLen(); l >= 0 {
			name = g.Bytes(l)
		} else {
			name = []byte(c28Names[g.Intn(len(c28Names))])
		}
		ss[i] = hx(name) + "/" + strconv.Itoa(int(g.Pick(0, 1, 2, 3, 4, 5, 9, 14, 255, int64(g.Intn(256)))))
	}
	return strings.Join(ss, ",")
}

func c28Path(g *Gen) []byte {
	syms := []string{"AAPL", "TSLA", "BTC-USD", "a b", "..", ".", "", "x/../y", "日本"}
	tfs := []string{"1Min", "1D", "1Sec", "5Min"}
	return []byte(fmt.Sprintf("%s/%s/%s/%d.bin", syms[g.Intn(len(syms))], tfs[g.Intn(len(tfs))],
		[]string{"OHLCV", "TICK", "OHLC"}[g.Intn(3)], 1970+g.Intn(100)))
}

func genC28(g *Gen) {
	i64edge := []int64{0, 1, -1, 37024, 1 << 31, -(1 << 31), 1<<63 - 1, -(1 << 63), 255, 256, 65535, 1 << 40}
	// ---- structured, mostly valid transaction groups
	n := g.N(1500, 30000)
	for i := 0; i < n; i++ {
		ncmd := int(g.Pick(1, 1, 1, 2, 3, 5, 0, int64(1+g.Intn(8))))
		var toks, tags []string
		for j := 0; j < ncmd; j++ {
			rt := int(g.Pick(0, 0, 0, 1, 1, 2, -128, 127, int64(g.Intn(256)-128)))
			path := c28Path(g)
			vrl := g.Pick(0, 0, 24, 28, 1<<31-1, -(1 << 31), int64(g.Intn(4096)))
			off := i64edge[g.Intn(len(i64edge))]
			idx := i64edge[g.Intn(len(i64edge))]
			if g.Intn(2) == 0 {
				idx = int64(1 + g.Intn(525600))
				off = 37024 + (idx-1)*int64(4+g.Intn(60))
			}
			data := g.Bytes(int(g.Pick(0, 0, 1, 4, 20, 24, 48, 255, 256, int64(g.Intn(2000)))))
			ncol := int(g.Pick(1, 2, 5, 6, 6, 6, 12, 254, 255, int64(1+g.Intn(40))))
			nameLen := func() int { return -1 }
			switch g.Intn(12) {
			case 0: // boundary name lengths
				nameLen = func() int { return int(g.Pick(0, 1, 31, 32, 33, 254, 255, 255)) }
				tags = append(tags, "names:boundary")
				if ncol > 20 {
					ncol = 20
				}
			case 1: // boundary path lengths
				path = g.Bytes(int(g.Pick(0, 1, 255, 256, 4095, 4096, 32766, 32767)))
				tags = append(tags, "path:boundary")
			}
			toks = append(toks, cmdTok(rt, path, vrl, off, idx, data, c28Shapes(g, ncol, nameLen)))
			tags = append(tags, "rt:"+rtClass(rt))
			if ncol >= 254 {
				tags = append(tags, "cols:254-255")
			}
			if len(data) == 0 {
				tags = append(tags, "data:empty")
			}
		}
		tgid := i64edge[g.Intn(len(i64edge))]
		if g.Intn(2) == 0 {
			tgid = g.R.Int63()
		}
		line := "-"
		if len(toks) > 0 {
			line = strings.Join(toks, ";")
		}
		tags = append(tags, "valid", fmt.Sprintf("ncmd:%d", minInt(ncmd, 4)))
		g.Emit(fmt.Sprintf("tgrt %d %s", tgid, line), dedup(tags)...)
	}
	// ---- width overflows (the classes of C28_cex_*), alone and followed by a valid command
	m := g.N(150, 2000)
	for i := 0; i < m; i++ {
		rt, vrl, off, idx := 0, int64(0), int64(37024), int64(1)
		path := c28Path(g)
		data := g.Bytes(g.Intn(40))
		shapes := c28Shapes(g, 2, func() int { return -1 })
		tag := ""
		switch i % 7 {
		case 0:
			k := int(g.Pick(256, 257, 300, 511, 512, 513, 1024))
			shapes = c28Shapes(g, k, func() int { return int(g.Pick(1, 4)) })
			tag = "overflow:cols_gt_255"
		case 1:
			k := int(g.Pick(256, 257, 300, 511, 512, 1000))
			shapes = c28Shapes(g, 1+g.Intn(3), func() int { return k })
			tag = "overflow:name_gt_255"
		case 2:
			shapes = "-"
			tag = "overflow:cols_0"
		case 3:
			path = g.Bytes(int(g.Pick(32768, 32769, 40000, 65535)))
			tag = "overflow:path_negative"
		case 4:
			path = g.Bytes(int(g.Pick(65536, 65537, 65536+300)))
			tag = "overflow:path_wrapped"
		case 5:
			vrl = g.Pick(1<<31, 1<<32+5, -(1<<31)-1, 1<<40, 1<<63-1, -(1 << 63))
			tag = "overflow:varreclen"
		case 6: // long name and many columns together
			shapes = c28Shapes(g, 260, func() int { return int(g.Pick(1, 300)) })
			tag = "overflow:cols_and_names"
		}
		tok := cmdTok(rt, path, vrl, off, idx, data, shapes)
		if g.Intn(2) == 0 {
			tok += ";" + cmdTok(0, c28Path(g), 0, 37048, 2, g.Bytes(24), c28Shapes(g, 3, func() int { return -1 }))
			g.Emit(fmt.Sprintf("tgrt %d %s", g.R.Int63(), tok), tag, "overflow", "followed")
		} else {
			g.Emit(fmt.Sprintf("tgrt %d %s", g.R.Int63(), tok), tag, "overflow", "last")
		}
	}
	// ---- malformed stream: arbitrary / mutated bytes straight into ParseTGData
	k := g.N(1200, 20000)
	for i := 0; i < k; i++ {
		cmds := []*wal.WriteCommand{}
		for j := 0; j < 1+g.Intn(3); j++ {
			cmds = append(cmds, &wal.WriteCommand{RecordType: mio.EnumRecordType(g.Intn(2)), WALKeyPath: string(c28Path(g)),
				VarRecLen: g.Intn(100), Offset: int64(37024 + g.Intn(1000)), Index: int64(1 + g.Intn(1000)), Data: g.Bytes(g.Intn(30)),
				DataShapes: parseShapesTok(c28Shapes(g, 1+g.Intn(4), func() int { return -1 }))})
		}
		ser, _ := executor.VerifSerializeTG(int64(g.Intn(1000)), cmds)
		b := append([]byte{}, ser...)
		tag := ""
		switch g.Intn(9) {
		case 8: // cut exactly the last type byte: dsFromBytes indexes past the end
			b = b[:len(b)-1]
			tag = "mal:cut_typebyte"
		case 0:
			b = b[:g.Intn(len(b)+1)]
			tag = "mal:truncate"
		case 1:
			b[g.Intn(len(b))] ^= byte(1 << g.Intn(8))
			tag = "mal:bitflip"
		case 2: // hit a length field of the first command
			pos := []int{8, 9, 15, 16, 17, 18}[g.Intn(6)]
			if pos < len(b) {
				b[pos] = byte(g.Pick(0, 1, 0x7f, 0x80, 0xff, int64(g.Intn(256))))
			}
			tag = "mal:lenfield"
		case 3:
			b = g.Bytes(g.Intn(64))
			tag = "mal:garbage"
		case 4: // WTCount: negative / beyond maxAlloc / larger than the data (never a count that would allocate GBs)
			cnt := g.Pick(-1, -(1 << 63), 1<<63-1, 1<<48/88+1, 1<<50, int64(len(cmds)+1+g.Intn(1000)), 100000)
			for q := 0; q < 8; q++ {
				b[8+q] = byte(uint64(cnt) >> (8 * q))
			}
			tag = "mal:wtcount"
		case 5:
			b = append(b, g.Bytes(1+g.Intn(20))...)
			tag = "mal:trailing"
		case 6:
			p := g.Intn(len(b))
			b = append(b[:p:p], append(g.Bytes(1+g.Intn(4)), b[p:]...)...)
			tag = "mal:insert"
		case 7:
			b = b[:g.Intn(17)]
			tag = "mal:short_header"
		}
		if !safeTGBytes(b) {
			continue
		}
		g.Emit("tgparse "+hx(b), tag, "malformed")
	}
}

// safeTGBytes rejects byte strings whose WTCount field would make ParseTGData allocate more than
// ~100 MB without panicking (a count below runtime.maxAlloc/88 but beyond memory kills the process
// with a fatal, unrecoverable "out of memory": outside what an in-process harness can observe).
func safeTGBytes(b []byte) bool {
	if len(b) < 16 {
		return true
	}
	var cnt uint64
	for q := 0; q < 8; q++ {
		cnt |= uint64(b[8+q]) << (8 * q)
	}
	c := int64(cnt)
	return c < 0 || c <= 1000000 || c > (1<<48)/88
}

func rtClass(rt int) string {
	switch rt {
	case 0:
		return "FIXED"
	case 1:
		return "VARIABLE"
	case 2:
		return "NOTYPE"
	case -128, 127:
		return "int8_edge"
	}
	return "other"
}

func dedup(xs []string) []string {
	seen := map[string]bool{}
	var out []string
	for _, x := range xs {
		if !seen[x] {
			seen[x] = true
			out = append(out, x)
		}
	}
	return out
}

func minInt(a, b int) int {
	if a < b {
		return a
	}
	return b
}
