import Mkts.Lemmas.WalDurable
import Mkts.Props.C01
/-!
# C04 — Acknowledged writes survive power loss

Same event model as C01, but restart sees only the DURABLE views: the WAL as of its last
fsync/sync and the primary files as of the last sync(2), possibly with any subset of the later
primary writes surviving or torn (`junk`).  Main theorem `C04_power_loss`: for every history of
writer events, every crash point and every such outcome, recovery yields the last-writer-wins
content of a prefix of the history that contains every acknowledged transaction group and at most
the one in flight.  The three orderings it rests on are exactly the ones pinned by
`Props/WalSkeleton` (commit record → fsync → primary write → acknowledge; PREPARING → sync →
COMMITCOMPLETE; truncate only after a checkpoint).

Fault model (DESIGN C04): file DATA may be lost or torn; namespace operations are durable.  The
model has no catalog: a primary file is written only after its header is durable — hypothesis
`unsynced_catalog_data` of the trace-level check, known finding C04-F29.
-/
namespace Mkts.Props.C04
open Mkts.WalProto Mkts.Store Mkts.Bytes Mkts.Props

theorem power_loss_gen (evs : List Event) :
    ∀ (s : St) (c : Ctl) (done : List Cmd) (liveL : List (Nat × List Cmd)) (doneEvs : List Event),
      Bnd s c done liveL → DBnd s c done liveL → done = allCmds doneEvs → s.acked = flushCount doneEvs →
      ∀ es, es <+: trace c evs →
        ∃ evs1, evs1 <+: evs ∧
          DShape (run s es) (allCmds (doneEvs ++ evs1)) ∧
          (run s es).acked ≤ flushCount (doneEvs ++ evs1) ∧
          flushCount (doneEvs ++ evs1) ≤ (run s es).acked + 1 := by
  induction evs with
  | nil =>
    intro s c done liveL doneEvs hb hdb hd ha es hes
    have : es = [] := by simpa [trace] using hes
    subst this
    refine ⟨[], List.prefix_refl _, ?_, ?_, ?_⟩
    · rw [List.append_nil, ← hd]; exact hdb.shape
    · simp [run, ha]
    · simp [run, ha]
  | cons e rest ih =>
    intro s c done liveL doneEvs hb hdb hd ha es hes
    simp only [trace] at hes
    rcases prefix_append_cases _ _ _ hes with h1 | ⟨t, ht, rfl⟩
    · cases e with
      | flush cmds =>
        rcases flush_dstep hb hdb cmds es h1 with ⟨heq, hack⟩ | ⟨heq, hack⟩
        · refine ⟨[], List.nil_prefix, ?_, ?_, ?_⟩
          · rw [List.append_nil, ← hd]; exact heq
          · rw [List.append_nil, hack, ha]; exact Nat.le_refl _
          · rw [List.append_nil, hack, ha]; exact Nat.le_succ _
        · refine ⟨[Event.flush cmds], by simp, ?_, ?_, ?_⟩
          · rw [C01.allCmds_append, ← hd]; simpa [allCmds] using heq
          · rw [C01.flushCount_append]; simp only [flushCount]
            rcases hack with h | ⟨_, h⟩ <;> omega
          · rw [C01.flushCount_append]; simp only [flushCount]
            rcases hack with h | ⟨_, h⟩ <;> omega
      | checkpoint =>
        obtain ⟨heq, hack⟩ := checkpoint_dstep hb hdb es h1
        refine ⟨[], List.nil_prefix, ?_, ?_, ?_⟩
        · rw [List.append_nil, ← hd]; exact heq
        · rw [List.append_nil, hack, ha]; exact Nat.le_refl _
        · rw [List.append_nil, hack, ha]; exact Nat.le_succ _
      | rotate =>
        obtain ⟨heq, hack⟩ := rotate_dstep hb hdb es h1
        refine ⟨[], List.nil_prefix, ?_, ?_, ?_⟩
        · rw [List.append_nil, ← hd]; exact heq
        · rw [List.append_nil, hack, ha]; exact Nat.le_refl _
        · rw [List.append_nil, hack, ha]; exact Nat.le_succ _
    · rw [run_append]
      cases e with
      | flush cmds =>
        simp only [eventEffects] at ht ⊢
        obtain ⟨hb', hack'⟩ := flush_full hb cmds
        have hdb' := flush_dfull hb hdb cmds
        obtain ⟨evs1, hp, heq, h2, h3⟩ := ih _ _ (done ++ cmds) _ (doneEvs ++ [Event.flush cmds]) hb' hdb'
          (by rw [C01.allCmds_append, hd]; simp [allCmds])
          (by rw [C01.flushCount_append, hack', ha]; simp [flushCount]) t ht
        exact ⟨Event.flush cmds :: evs1, (List.cons_prefix_cons).mpr ⟨rfl, hp⟩,
          by simpa [List.append_assoc] using heq, by simpa [List.append_assoc] using h2,
          by simpa [List.append_assoc] using h3⟩
      | checkpoint =>
        simp only [eventEffects] at ht ⊢
        obtain ⟨hb', hack'⟩ := checkpoint_full_nil hb
        have hdb' := checkpoint_dfull hb hdb
        obtain ⟨evs1, hp, heq, h2, h3⟩ := ih _ _ done _ (doneEvs ++ [Event.checkpoint]) hb' hdb'
          (by rw [C01.allCmds_append, hd]; simp [allCmds])
          (by rw [C01.flushCount_append, hack', ha]; simp [flushCount]) t ht
        exact ⟨Event.checkpoint :: evs1, (List.cons_prefix_cons).mpr ⟨rfl, hp⟩,
          by simpa [List.append_assoc] using heq, by simpa [List.append_assoc] using h2,
          by simpa [List.append_assoc] using h3⟩
      | rotate =>
        simp only [eventEffects] at ht ⊢
        obtain ⟨hb', hack'⟩ := rotate_full hb
        have hdb' := rotate_dfull hb hdb
        obtain ⟨evs1, hp, heq, h2, h3⟩ := ih _ _ done _ (doneEvs ++ [Event.rotate]) hb' hdb'
          (by rw [C01.allCmds_append, hd]; simp [allCmds])
          (by rw [C01.flushCount_append, hack', ha]; simp [flushCount]) t ht
        exact ⟨Event.rotate :: evs1, (List.cons_prefix_cons).mpr ⟨rfl, hp⟩,
          by simpa [List.append_assoc] using heq, by simpa [List.append_assoc] using h2,
          by simpa [List.append_assoc] using h3⟩

/-- C04: for EVERY history of writer events, EVERY crash point, and EVERY set `junk` of unsynced
    primary writes that survived (possibly torn) on slots written by transaction groups that are
    live in the durable WAL: restart after power loss recovers exactly the content of a prefix
    `evs1` of the history containing every acknowledged group and at most the one in flight. -/
theorem C04_power_loss (evs : List Event) (es : List Effect) (hes : es <+: trace {} evs) (junk : List Cmd)
    (hj : ∀ c ∈ junk, ∃ c' ∈ flat (liveTGs (run {} es).walDurable), (c'.year, c'.index) = (c.year, c.index)) :
    ∃ evs1, evs1 <+: evs ∧
      Equiv (replay (applyCmds (run {} es).primDurable junk) (liveTGs (run {} es).walDurable))
        (applyCmds [] (allCmds evs1)) ∧
      (run {} es).acked ≤ flushCount evs1 ∧ flushCount evs1 ≤ (run {} es).acked + 1 := by
  obtain ⟨evs1, hp, hs, h1, h2⟩ := by
    simpa using power_loss_gen evs {} {} [] [] [] bnd_init dbnd_init rfl rfl es hes
  exact ⟨evs1, hp, dshape_recover hs junk hj, h1, h2⟩

/-- the clean case: nothing unsynced survives -/
theorem C04_power_loss_clean (evs : List Event) (es : List Effect) (hes : es <+: trace {} evs) :
    ∃ evs1, evs1 <+: evs ∧
      Equiv (recoverPowerLoss (run {} es)) (applyCmds [] (allCmds evs1)) ∧
      (run {} es).acked ≤ flushCount evs1 ∧ flushCount evs1 ≤ (run {} es).acked + 1 := by
  have := C04_power_loss evs es hes [] (by simp)
  simpa [recoverPowerLoss, applyCmds] using this

/-- the write-ahead rule is necessary: a writer that acknowledged before the fsync would lose the
    acknowledged group (model of the mutated effect order: ack moved before fsync) -/
def badFlush (id : Nat) (cmds : List Cmd) : List Effect :=
  [.walAppend (.tgPrep id), .walAppend (.tgMid id), .walAppend (.tgLen id), .walAppend (.tgData id cmds),
   .walAppend (.tgSum id), .walAppend (.tgCommit id), .ack, .walFsync] ++ cmds.map .prim

theorem C04_cex_ack_before_fsync :
    let st := run {} ((badFlush 1 [⟨2020, 1, [7]⟩]).take 7)
    st.acked = 1 ∧ (recoverPowerLoss st).get (2020, 1) = none := by decide

/-! non-vacuity: power loss right after the second group's fsync, before its primary write -/
example : (recoverPowerLoss (run {} ((trace {} C01.demoEvs).take 19))).get (2020, 1) = some [2] := by decide
example : (run {} ((trace {} C01.demoEvs).take 19)).primDurable.get (2020, 1) = some [1] := by decide

end Mkts.Props.C04
