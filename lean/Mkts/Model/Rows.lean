import Mkts.Model.Bytes
import Mkts.Extracted.Facts
import Mkts.Extracted.Skeletons
/-!
# Row serialization model (C29; column-series part shared with C27)

Mirrors `utils/io/columnseries.go` (`ColumnSeries.AddColumn`, `GetDataShapes`, `Len`,
`GetMissingAndTypeCoercionColumns`, `SerializeColumnsToRows`, `ToRowSeries`),
`utils/io/anyset.go` (`Contains`, `Subtract` as list filters), `utils/io/rowseries.go`
(`NewRowSeries`, `Rows.SetRowLen/GetRowLen/GetNumRows/GetColumn/ToColumnSeries`,
`RowSeries.GetEpoch/ToColumnSeries`) and the `getXxxColumn` loops of `utils/io/datatypes.go`.

Column values are opaque: a column is a list of elements, each a byte string (the machine
representation of the Go value, little endian).  The storage code never interprets them, so one
theorem covers every element type; the type table only contributes sizes
(`Extracted.attributeMap`).  Go panics and errors are explicit: `Except String`, the string being
the canonical result class (`panic:slice`, `err:noepoch`, …).  Core Lean only.
-/
namespace Mkts.Rows
open Mkts.Bytes

/-- result of a Go call: `.error "panic:<class>"` / `.error "err:<class>"` / `.ok v` -/
abbrev Res := Except String

deriving instance DecidableEq for Except

/-! ## which variant of the code the CURRENT source implements

Read off the skeletons that factgen regenerates from the Go source on every run, so that the
model follows the code: if one of the statements below is changed back, the model describes
the old behaviour again, the pinning theorems of `Props/C29.lean` fail and the spec line of the
driver exposes the difference on a concrete input. -/

/-- contiguous sub-list test -/
def hasSub : List String → List String → Bool
  | [], pat => pat.isEmpty
  | a :: l, pat => pat.isPrefixOf (a :: l) || hasSub l pat

/-- `SerializeColumnsToRows` compares column names with "Epoch" exactly (both the
`shapesContainsEpoch` test and the skip in the record loop); before the repair of C29-F3 both
used `strings.EqualFold` -/
def epochExact : Bool :=
  hasSub Mkts.Extracted.Skel.utils_io_SerializeColumnsToRows ["if:colName == \"Epoch\"{", "}", "call:SwapSliceData"] &&
  hasSub Mkts.Extracted.Skel.utils_io_SerializeColumnsToRows
    ["if:shape.Name == \"Epoch\"{", "continue", "}", "call:shape.Type.SliceInBytesAt"]

/-- `Rows.GetColumn` reads BYTE shapes with `getInt8Column` (`[]int8`); before the repair of
C29-F2 BYTE shared the `getByteColumn` case (`[]byte`) with BOOL -/
def byteTyped : Bool :=
  hasSub Mkts.Extracted.Skel.utils_io_Rows_GetColumn
    ["case:BYTE{", "call:rows.GetRowLen", "call:rows.GetNumRows", "call:rows.GetData", "call:getInt8Column", "return", "}"]

/-- `ColumnSeries.ToRowSeries` moves the Epoch shape to the front of the shapes it hands on
(repair of C29-F1) -/
def toRowSeriesReorders : Bool :=
  hasSub Mkts.Extracted.Skel.utils_io_ColumnSeries_ToRowSeries
    ["call:cs.GetDataShapes", "range:dsv{", "if:shape.Name == \"Epoch\" && i != 0{", "break", "}", "}",
     "call:SerializeColumnsToRows"]

/-! ## element types (`datatypes.go`) -/

def FLOAT32 : Nat := Mkts.Extracted.utils_io_FLOAT32.toNat
def INT32 : Nat := Mkts.Extracted.utils_io_INT32.toNat
def FLOAT64 : Nat := Mkts.Extracted.utils_io_FLOAT64.toNat
def INT64 : Nat := Mkts.Extracted.utils_io_INT64.toNat
def EPOCH : Nat := Mkts.Extracted.utils_io_EPOCH.toNat
def BYTE : Nat := Mkts.Extracted.utils_io_BYTE.toNat
def BOOL : Nat := Mkts.Extracted.utils_io_BOOL.toNat
def NONE : Nat := Mkts.Extracted.utils_io_NONE.toNat
def STRING : Nat := Mkts.Extracted.utils_io_STRING.toNat
def INT16 : Nat := Mkts.Extracted.utils_io_INT16.toNat
def UINT8 : Nat := Mkts.Extracted.utils_io_UINT8.toNat
def UINT16 : Nat := Mkts.Extracted.utils_io_UINT16.toNat
def UINT32 : Nat := Mkts.Extracted.utils_io_UINT32.toNat
def UINT64 : Nat := Mkts.Extracted.utils_io_UINT64.toNat
def STRING16 : Nat := Mkts.Extracted.utils_io_STRING16.toNat

/-- `attributeMap[t]` present? (a missing key yields Go's zero struct: size 0, nil `typeOf`) -/
def typeInMap (t : Nat) : Bool := (Mkts.Extracted.attributeMap.find? (fun e => e.1 == t)).isSome

/-- `EnumElementType.Size()` -/
def typeSize (t : Nat) : Nat :=
  match Mkts.Extracted.attributeMap.find? (fun e => e.1 == t) with
  | some e => e.2.2
  | none => 0

structure DataShape where
  name : String
  typ : Nat
deriving DecidableEq, Repr

/-- one column of a `ColumnSeries`: Go slice of `elems.length` values of element type `typ`,
each value given by its bytes.  `typ = NONE` with no elements also stands for a nil column. -/
structure Column where
  name : String
  typ : Nat
  elems : List Bytes
deriving DecidableEq, Repr

/-- `ColumnSeries`: `cols` lists, for each entry of `orderedNames`, the name and `columns[name]`;
`incr` is `nameIncrement`. -/
structure ColumnSeries where
  cols : List Column
  incr : List (String × Nat)
deriving DecidableEq, Repr

def ColumnSeries.empty : ColumnSeries := ⟨[], []⟩

def ColumnSeries.find? (cs : ColumnSeries) (name : String) : Option Column :=
  cs.cols.find? (fun c => c.name == name)

def ColumnSeries.exists (cs : ColumnSeries) (name : String) : Bool := (cs.find? name).isSome

/-- the map write `cs.columns[name] = data` seen through every `orderedNames` entry of that name -/
def overwrite (name : String) (typ : Nat) (elems : List Bytes) (c : Column) : Column :=
  if c.name == name then ⟨name, typ, elems⟩ else c

/-- `ColumnSeries.AddColumn`: on a name collision the name gets a counter suffix (`A`, `A0`, `A1` …);
the suffixed name is not checked again, so it may overwrite an existing column. -/
def ColumnSeries.addColumn (cs : ColumnSeries) (name : String) (typ : Nat) (elems : List Bytes) : ColumnSeries :=
  if cs.exists name then
    let k := match cs.incr.lookup name with
      | none => 0
      | some k => k + 1
    let name' := name ++ toString k
    { cols := cs.cols.map (overwrite name' typ elems) ++ [⟨name', typ, elems⟩],
      incr := (name, k) :: cs.incr.filter (fun p => p.1 != name) }
  else
    { cols := cs.cols.map (overwrite name typ elems) ++ [⟨name, typ, elems⟩], incr := cs.incr }

/-- build a series the way every caller does: `NewColumnSeries()` then `AddColumn` per column -/
def ColumnSeries.ofList (l : List Column) : ColumnSeries :=
  l.foldl (fun cs c => cs.addColumn c.name c.typ c.elems) ColumnSeries.empty

/-- `ColumnSeries.GetDataShapes` -/
def ColumnSeries.getDataShapes (cs : ColumnSeries) : List DataShape :=
  cs.cols.map (fun c => ⟨c.name, c.typ⟩)

/-- `ColumnSeries.Len`: length of the first column (0 without columns) -/
def ColumnSeries.len (cs : ColumnSeries) : Nat :=
  match cs.cols with
  | [] => 0
  | c :: _ => c.elems.length

/-! ## `GetMissingAndTypeCoercionColumns` -/

/-- `ExtractDatashapesByNames`: map name ↦ last shape of that name, then one output per name -/
def extractDatashapesByNames (dsv : List DataShape) (names : List String) : List DataShape :=
  names.filterMap (fun n => dsv.reverse.find? (fun s => s.name == n))

/-- returns (missing, needCoercion) or the error of `NewAnySet` on an empty slice -/
def getMissingAndTypeCoercionColumns (required available : List DataShape) :
    Res (List DataShape × List DataShape) :=
  if available.isEmpty then .error "err:shapes"
  else if !required.isEmpty && required.all (fun s => available.contains s) then .ok ([], [])
  else if required.isEmpty then .error "err:shapes"
  else
    let missingDSV := required.filter (fun s => !available.contains s)
    let availNames := available.map (·.name)
    let allMissingNames := (required.map (·.name)).filter (fun n => !availNames.contains n)
    if missingDSV.length == allMissingNames.length then
      .ok (extractDatashapesByNames required allMissingNames, [])
    else
      let needCoercion := (missingDSV.map (·.name)).filter (fun n => !allMissingNames.contains n)
      .ok (extractDatashapesByNames required allMissingNames, extractDatashapesByNames required needCoercion)

/-! ## `SerializeColumnsToRows` -/

/-- ASCII case folding is exact for `strings.EqualFold(name, "Epoch")`: no non-ASCII rune folds to
one of the letters e, p, o, c, h. -/
def equalFoldEpoch (name : String) : Bool := name.toList.map Char.toLower == "epoch".toList

/-- the test `SerializeColumnsToRows` applies to a shape name to recognise the epoch column -/
def isEpochName (name : String) : Bool := if epochExact then name == "Epoch" else equalFoldEpoch name

/-- `AlignedSize` (machine word = 8) -/
def alignedSize (n : Nat) : Nat := if n % 8 == 0 then n else n + 8 - n % 8

/-- `Go: bs[off : off+sz]` -/
def sliceP (bs : Bytes) (off sz : Nat) : Res Bytes :=
  match slice bs off sz with
  | some w => .ok w
  | none => .error "panic:slice"

/-- `EnumElementType.SliceInBytesAt` -/
def sliceInBytesAt (sz : Nat) (bs : Bytes) (i : Nat) : Res Bytes := sliceP bs (i * sz) sz

/-- `AddNullColumn` = `cs.AddColumn(name, ds.Type.SliceOf(cs.Len()))`.  `SliceOf` calls
`reflect.MakeSlice(typeOf, n, n)` with the *element* type instead of a slice type, so it always
panics ("reflect.MakeSlice of non-slice type"); a type without `attributeMap` entry has a nil
`typeOf` and the panic is a nil dereference.  The null column is never added. -/
def addNullColumn (_cs : ColumnSeries) (s : DataShape) : Res ColumnSeries :=
  if typeInMap s.typ then .error "panic:other" else .error "panic:nil"

/-- one record: epoch, then the i-th word of every non-epoch shape, then padding -/
def serializeRow (words : List (Nat × Bytes)) (pad : Nat) (epoch : Bytes) (i : Nat) : Res Bytes := do
  let ws ← words.mapM (fun w => sliceInBytesAt w.1 w.2 i)
  pure (epoch ++ ws.flatten ++ List.replicate pad 0)

/-- the record loop `for i, epoch := range epochCol` -/
def serializeLoop (words : List (Nat × Bytes)) (pad : Nat) : List Bytes → Nat → Res (List Bytes)
  | [], _ => .ok []
  | e :: es, i => do
    let r ← serializeRow words pad e i
    let rs ← serializeLoop words pad es (i + 1)
    pure (r :: rs)

/-- sum of the shape sizes (`recordLen` before alignment; also `GetRowLen` with a zero field) -/
def shapesLen (ds : List DataShape) : Nat := (ds.map (fun s => typeSize s.typ)).sum

/-- `colInBytesList`: `SwapSliceData(cs.columns[shape.Name], byte(0))` per shape (a missing map
entry is a nil interface: reflect panics) -/
def colInBytesList (cs : ColumnSeries) (dataShapes : List DataShape) : Res (List Bytes) :=
  dataShapes.mapM (fun s => match cs.find? s.name with
    | some c => (pure c.elems.flatten : Res Bytes)
    | none => throw "panic:other")

/-- `cs.columns["Epoch"].([]int64)` -/
def epochColumn (cs : ColumnSeries) : Res (List Bytes) :=
  match cs.find? "Epoch" with
  | some c => if c.typ == INT64 then pure c.elems else throw "err:epochtype"
  | none => throw "err:epochtype"

/-- (element size, column bytes) of every shape that the record loop does not skip -/
def wordList (dataShapes : List DataShape) (colInBytes : List Bytes) : List (Nat × Bytes) :=
  ((dataShapes.zip colInBytes).filter (fun p => !isEpochName p.1.name)).map
    (fun p => (typeSize p.1.typ, p.2))

def recordLenOf (dataShapes : List DataShape) (align64 : Bool) : Nat :=
  if align64 then alignedSize (shapesLen dataShapes) else shapesLen dataShapes

/-- `SerializeColumnsToRows(cs, dataShapes, align64)` = (data, recordLen).  `.error "skip:coercion"`
marks the type-coercion path (typed values; belongs to C14), which this byte-level model does
not follow. -/
def serializeColumnsToRows (cs : ColumnSeries) (dataShapes : List DataShape) (align64 : Bool) :
    Res (Bytes × Nat) := do
  let mc ← getMissingAndTypeCoercionColumns dataShapes cs.getDataShapes
  if !mc.2.isEmpty then throw "skip:coercion"
  let cs ← mc.1.foldlM addNullColumn cs
  let colInBytes ← colInBytesList cs dataShapes
  if !dataShapes.any (fun s => isEpochName s.name) then throw "err:noepoch"
  let recordLen := recordLenOf dataShapes align64
  let epochCol ← epochColumn cs
  let rows ← serializeLoop (wordList dataShapes colInBytes) (recordLen - shapesLen dataShapes) epochCol 0
  pure (rows.flatten, recordLen)

/-! ## `Rows` / `RowSeries` (rowseries.go) -/

structure Rows where
  dataShape : List DataShape
  data : Bytes
  rowLen : Nat

/-- `NewRows` + `SetRowLen` (a requested length below the shape sum is replaced by the sum) -/
def newRows (dataShape : List DataShape) (data : Bytes) (rowLen : Nat) : Rows :=
  ⟨dataShape, data, if rowLen < shapesLen dataShape then shapesLen dataShape else rowLen⟩

/-- `NewRowSeries`: a VARIABLE record type appends the `Nanoseconds` int32 shape -/
def newRowSeries (data : Bytes) (dataShape : List DataShape) (rowLen : Nat) (rowType : Nat) : Rows :=
  newRows (if rowType == Mkts.Extracted.utils_io_VARIABLE.toNat then dataShape ++ [⟨"Nanoseconds", INT32⟩] else dataShape)
    data rowLen

def Rows.getNumRows (r : Rows) : Nat :=
  if r.rowLen == 0 || r.data.isEmpty then 0 else r.data.length / r.rowLen

/-- the cursor loop shared by every `getXxxColumn(offset, reclen, nrecs, data)` -/
def getColumnLoop (data : Bytes) (sz reclen : Nat) : Nat → Nat → Res (List Bytes)
  | 0, _ => .ok []
  | n + 1, cursor => do
    let w ← sliceP data cursor sz
    let rest ← getColumnLoop data sz reclen n (cursor + reclen)
    pure (w :: rest)

/-- the `switch ds.Type` of `Rows.GetColumn`: (shape type, Go element type of the returned slice,
bytes read per record).  BOOL comes back as `[]byte` (= UINT8); BYTE as `[]int8` since the
repair of C29-F2 (`byteTyped`), as `[]byte` before. -/
def getterTable : List (Nat × Nat × Nat) := [
  (FLOAT32, FLOAT32, 4), (FLOAT64, FLOAT64, 8), (INT16, INT16, 2), (INT32, INT32, 4), (INT64, INT64, 8),
  (UINT8, UINT8, 1), (UINT16, UINT16, 2), (UINT32, UINT32, 4), (UINT64, UINT64, 8), (STRING16, STRING16, 64),
  (BOOL, UINT8, 1), (BYTE, if byteTyped then BYTE else UINT8, 1)]

/-- `Rows.GetColumn(colname)` = (element type, elements); `none` = nil interface.  A matching shape
of a type outside the switch logs an error and the walk continues *without* advancing the offset. -/
def Rows.getColumnWalk (r : Rows) (colname : String) : List DataShape → Nat → Res (Option (Nat × List Bytes))
  | [], _ => .ok none
  | ds :: rest, offset =>
    if ds.name == colname then
      match getterTable.lookup ds.typ with
      | some (rt, sz) => do
        let col ← getColumnLoop r.data sz r.rowLen r.getNumRows offset
        pure (some (rt, col))
      | none => r.getColumnWalk colname rest offset
    else r.getColumnWalk colname rest (offset + typeSize ds.typ)

def Rows.getColumn (r : Rows) (colname : String) : Res (Option (Nat × List Bytes)) :=
  r.getColumnWalk colname r.dataShape 0

/-- `cs.AddColumn(name, rows.GetColumn(name))`; a nil column is recorded as (NONE, no elements) -/
def addGot (cs : ColumnSeries) (name : String) (col : Option (Nat × List Bytes)) : ColumnSeries :=
  match col with
  | some (t, e) => cs.addColumn name t e
  | none => cs.addColumn name NONE []

def Rows.addRest (r : Rows) : List DataShape → ColumnSeries → Res ColumnSeries
  | [], cs => .ok cs
  | ds :: rest, cs =>
    if ds.name == "Epoch" then r.addRest rest cs
    else do
      let col ← r.getColumn ds.name
      r.addRest rest (addGot cs ds.name col)

/-- `RowSeries.ToColumnSeries`: Epoch read at offset 0, then every other shape via `GetColumn` -/
def Rows.rowSeriesToColumnSeries (r : Rows) : Res ColumnSeries := do
  let ep ← getColumnLoop r.data 8 r.rowLen r.getNumRows 0
  r.addRest r.dataShape (ColumnSeries.empty.addColumn "Epoch" INT64 ep)

/-- `Rows.ToColumnSeries`: Epoch via `GetColumn("Epoch")`, which must be `[]int64` -/
def Rows.toColumnSeries (r : Rows) : Res ColumnSeries := do
  match (← r.getColumn "Epoch") with
  | some (t, ep) =>
    if t == INT64 then r.addRest r.dataShape (ColumnSeries.empty.addColumn "Epoch" INT64 ep)
    else throw "err:epochcast"
  | none => throw "err:epochcast"

/-- first shape named "Epoch": (shapes before it, the shape, shapes after it) -/
def splitEpoch : List DataShape → Option (List DataShape × DataShape × List DataShape)
  | [] => none
  | s :: r => if s.name == "Epoch" then some ([], s, r)
    else (splitEpoch r).map (fun x => (s :: x.1, x.2.1, x.2.2))

/-- the loop of `ToRowSeries`: the first shape named "Epoch" at an index other than 0 is moved
to the front -/
def epochShapeFirst : List DataShape → List DataShape
  | [] => []
  | s :: r => match splitEpoch r with
    | some (p, e, q) => e :: s :: (p ++ q)
    | none => s :: r

/-- the shapes `ToRowSeries` passes to `SerializeColumnsToRows` and `NewRowSeries` -/
def toRowSeriesShapes (cs : ColumnSeries) : List DataShape :=
  if toRowSeriesReorders then epochShapeFirst cs.getDataShapes else cs.getDataShapes

/-- `cs.ToRowSeries(key, align)` then `RowSeries.ToColumnSeries()` — the round trip of C29 -/
def roundTrip (cs : ColumnSeries) (align : Bool) : Res ColumnSeries := do
  let dsv := toRowSeriesShapes cs
  let (data, recordLen) ← serializeColumnsToRows cs dsv align
  (newRowSeries data dsv recordLen Mkts.Extracted.utils_io_NOTYPE.toNat).rowSeriesToColumnSeries

/-- same through `Rows.ToColumnSeries` -/
def roundTripRows (cs : ColumnSeries) (align : Bool) : Res ColumnSeries := do
  let dsv := toRowSeriesShapes cs
  let (data, recordLen) ← serializeColumnsToRows cs dsv align
  (newRows dsv data recordLen).toColumnSeries

end Mkts.Rows
