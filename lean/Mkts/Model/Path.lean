/-!
# Lexical path functions of Go (`path/filepath` on Unix, `path`) and marketstore's key handling
(`utils/io/keytypes.go`), core Lean only.

Strings are byte lists (`Str`), exactly like Go strings.  `clean` is Go's documented `Clean`
algorithm phrased on the list of `/`-separated components (the byte loop of `filepath.Clean` visits
exactly the maximal runs of non-separator bytes): empty and `.` components are dropped, `..` pops
the last real component, and when nothing can be popped it is dropped (rooted path) or kept
(relative path).  `join` is `filepath.Join` / `path.Join`.

`Path` (= list of components) is the representation of an *absolute, clean* path: `render p` is
the Go string.  `joinItem d item` is `filepath.Join(render d, item)` for a separator-free `item`
and `joinKey root items` is `GetPathToYearFiles`: `filepath.Join(root, "i0/i1/…")`.  The op
`pjoin` of the driver compares the string-level `join` AND the component-level `joinKey` with Go.
-/
namespace Mkts.Path

abbrev Str := List UInt8
/-- an absolute clean path as its list of components -/
abbrev Path := List Str

def sep : UInt8 := 47
def dotB : UInt8 := 46
def colon : UInt8 := 58
def dot : Str := [dotB]
def dotdot : Str := [dotB, dotB]

/-- `strings.Split(s, string(b))` for a single byte `b` (never returns the empty list) -/
def splitOn (b : UInt8) : Str → List Str
  | [] => [[]]
  | c :: rest =>
    if c = b then [] :: splitOn b rest
    else match splitOn b rest with
      | h :: t => (c :: h) :: t
      | [] => [[c]]

/-- `strings.Join(cs, "/")` -/
def joinSep : List Str → Str
  | [] => []
  | [c] => c
  | c :: rest => c ++ sep :: joinSep rest

/-- one step of the loop of `Clean` on a whole component; `stack` = output components, last first -/
def cleanStep (rooted : Bool) (stack : List Str) (c : Str) : List Str :=
  if c = [] ∨ c = dot then stack
  else if c = dotdot then
    match stack with
    | top :: rest => if top = dotdot then dotdot :: stack else rest
    | [] => if rooted then [] else [dotdot]
  else c :: stack

def cleanComps (rooted : Bool) (cs : List Str) : List Str := (cs.foldl (cleanStep rooted) []).reverse

/-- `filepath.Clean` (Unix) = `path.Clean` -/
def clean (s : Str) : Str :=
  match s with
  | [] => dot
  | c :: _ =>
    let rooted := c = sep
    let cs := cleanComps rooted (splitOn sep s)
    if rooted then sep :: joinSep cs else if cs = [] then dot else joinSep cs

/-- `filepath.Join(elems…)` = `path.Join`: leading empty elements are skipped, the rest is joined
    with `/` and cleaned; all empty ⇒ "" -/
def join (elems : List Str) : Str :=
  match elems.dropWhile (· = []) with
  | [] => []
  | rest => clean (joinSep rest)

/-- `path.Dir`: everything up to and including the last `/`, cleaned -/
def dir (s : Str) : Str :=
  clean ((s.reverse.dropWhile (· ≠ sep)).reverse)

/-- the Go string of an absolute clean path -/
def render (p : Path) : Str := sep :: joinSep p

/-- `filepath.Join(render d, item)` for an item without separator -/
def joinItem (d : Path) (item : Str) : Path := (cleanStep true d.reverse item).reverse

/-- `GetPathToYearFiles`: `filepath.Join(render root, itemKey)` with `items = Split(itemKey, "/")` -/
def joinKey (root : Path) (items : List Str) : Path := items.foldl joinItem root

/-! ## key handling (`utils/io/keytypes.go`, `frontend/write.go`) -/

/-- "Symbol/Timeframe/AttributeGroup" (explicit bytes: kernel-reducible) -/
def defaultSchema : Str := [83, 121, 109, 98, 111, 108, 47, 84, 105, 109, 101, 102, 114, 97, 109, 101, 47, 65, 116, 116, 114, 105, 98, 117, 116, 101, 71, 114, 111, 117, 112]
/-- "Timeframe" -/
def timeframeCat : Str := [84, 105, 109, 101, 102, 114, 97, 109, 101]

/-- a `TimeBucketKey` after construction: item key and category key (`key = item:cat`) -/
structure Key where
  item : Str
  cat : Str
deriving Repr, DecidableEq

/-- `NewTimeBucketKey(itemKey, categoryKeyOpt)`; the stored string is `item:cat`, and the getters
    re-split it on ':' — `GetItemKey` is field 0, `GetCatKey` field 1. -/
def newTimeBucketKey (item : Str) (cat : Str) : Key :=
  let c := if cat = [] then defaultSchema else cat
  let parts := splitOn colon (item ++ colon :: c)
  ⟨parts.headD [], (parts.drop 1).headD []⟩

/-- `NewTimeBucketKeyFromString` (write and query requests) -/
def newTimeBucketKeyFromString (s : Str) : Key :=
  match splitOn colon s with
  | [a] => newTimeBucketKey a []
  | a :: b :: _ => newTimeBucketKey a b
  | [] => newTimeBucketKey [] []

def Key.items (k : Key) : List Str := splitOn sep k.item
def Key.cats (k : Key) : List Str := splitOn sep k.cat

/-- a key item that cannot move a path: non-empty, not `.`/`..`, no separator, no NUL -/
def safe (c : Str) : Prop := c ≠ [] ∧ c ≠ dot ∧ c ≠ dotdot ∧ sep ∉ c ∧ (0 : UInt8) ∉ c

instance (c : Str) : Decidable (safe c) := by unfold safe; infer_instance

/-- the dangerous class made exact: walking the items never pops above the starting directory.
    `depth` = number of real components currently below the start. -/
def staysInsideAux : Nat → List Str → Bool
  | _, [] => true
  | d, c :: rest =>
    if c = [] ∨ c = dot then staysInsideAux d rest
    else if c = dotdot then (match d with | 0 => false | d' + 1 => staysInsideAux d' rest)
    else staysInsideAux (d + 1) rest

def staysInside (items : List Str) : Bool := staysInsideAux 0 items

/-! ## the paths a request constructs -/

/-- "category_name" -/
def catName : Str := [99, 97, 116, 101, 103, 111, 114, 121, 95, 110, 97, 109, 101]

/-- `dirname` at the start of each iteration of `AddTimeBucket`'s loop, and after it -/
def dirChain (root : Path) : List Str → List Path
  | [] => [root]
  | item :: rest => root :: dirChain (joinItem root item) rest

def digitsAux : Nat → Nat → Str → Str
  | 0, _, acc => acc
  | f + 1, n, acc => if n = 0 then acc else digitsAux f (n / 10) (UInt8.ofNat (48 + n % 10) :: acc)

/-- `strconv.Itoa` for naturals -/
def natBytes (n : Nat) : Str := if n = 0 then [48] else digitsAux (n + 1) n []

/-- "<year>.bin" and "<year>.bin.tmp" -/
def yearFile (year : Nat) : Str := natBytes year ++ [46, 98, 105, 110]
def yearTmp (year : Nat) : Str := natBytes year ++ [46, 98, 105, 110, 46, 116, 109, 112]

/-- every path `AddTimeBucket` (bucket creation, also the auto-create of a write) may create or
    write for a key: the directories `Mkdir`ed, the `category_name` file of every directory of the
    chain, the year file and its temporary name. -/
def createTouched (root : Path) (items : List Str) (year : Nat) : List Path :=
  let chain := dirChain root items
  chain ++ chain.map (· ++ [catName]) ++
    [joinKey root items ++ [yearFile year], joinKey root items ++ [yearTmp year]]

/-- a write to an existing bucket found through `GetPathToYearFiles`: the year file of the row
    (created by `AddFile` when missing) in the bucket directory -/
def writeTouched (root : Path) (items : List Str) (year : Nat) : List Path :=
  [joinKey root items ++ [yearFile year], joinKey root items ++ [yearTmp year]]

/-- `RemoveTimeBucket` walks the catalog by item NAME (map lookups); the directory object found
    for names `n0…ni` loaded from disk has path `root/n0/…/ni` when every name is safe.  It calls
    `RemoveAll` on (some of) the paths of the chain below the root. -/
def destroyTouched (root : Path) (items : List Str) : List Path :=
  (dirChain root items).drop 1

/-! ## with the key validation of the repaired code (`TimeBucketKey.Validate`) -/

def allSafe (items : List Str) : Bool := items.all (fun c => decide (safe c))

/-- `AddTimeBucket` when it validates the key first (`v`): an unsafe key touches nothing -/
def createTouchedV (v : Bool) (root : Path) (items : List Str) (year : Nat) : List Path :=
  if v && !allSafe items then [] else createTouched root items year

/-- `RemoveTimeBucket` when it validates the key first -/
def destroyTouchedV (v : Bool) (root : Path) (items : List Str) : List Path :=
  if v && !allSafe items then [] else destroyTouched root items

end Mkts.Path
