"""Decision procedure of ./check (DESIGN.md section 2.4)."""
import fcntl, hashlib, json, os, re, shutil, subprocess, sys, time

VERIF = os.path.dirname(os.path.dirname(os.path.abspath(__file__)))
REPO = os.environ.get("VERIF_REPO", "/repo")
# evidence directory (seed runs redirect it so that evidence/ keeps describing the unchanged tree)
EVID = os.environ.get("VERIF_EVIDENCE_DIR") or os.path.join(os.path.dirname(os.path.dirname(os.path.abspath(__file__))), "evidence")
LEAN = os.path.join(VERIF, "lean")
BUILD = os.path.join(VERIF, ".build")
WORK = os.path.join(VERIF, ".work")
ALLOWED_AXIOMS = {"propext", "Classical.choice", "Quot.sound"}
FORBIDDEN = re.compile(r"\bsorry\b|\badmit\b|^\s*axiom\s|native_decide|bv_decide|implemented_by|\bunsafe\s|maxHeartbeats\s+0")

GOENV = dict(GOFLAGS="-mod=mod", GOPROXY="off", GOSUMDB="off", GOTOOLCHAIN="local",
             GOCACHE=os.environ.get("VERIF_GOCACHE", os.path.join(VERIF, ".cache", "go-build")), CGO_ENABLED="1")


def env():
    e = dict(os.environ)
    e.update(GOENV)
    e.setdefault("HOME", "/root")
    return e


def sh(cmd, cwd=None, timeout=None, inp=None, extra_env=None):
    e = env()
    if extra_env:
        e.update(extra_env)
    p = subprocess.run(cmd, cwd=cwd, env=e, stdout=subprocess.PIPE, stderr=subprocess.STDOUT,
                       timeout=timeout, input=inp, text=True, errors="replace")
    return p.returncode, p.stdout


class Lock:
    def __init__(self, name):
        os.makedirs(BUILD, exist_ok=True)
        self.path = os.path.join(BUILD, name + ".lock")

    def __enter__(self):
        self.f = open(self.path, "w")
        fcntl.flock(self.f, fcntl.LOCK_EX)
        return self

    def __exit__(self, *a):
        fcntl.flock(self.f, fcntl.LOCK_UN)
        self.f.close()


def load_props():
    out = {}
    with open(os.path.join(VERIF, "properties.jsonl")) as f:
        for l in f:
            l = l.strip()
            if l:
                p = json.loads(l)
                out[p["id"]] = p
    return out


def load_cfg(pid):
    with open(os.path.join(VERIF, "props", pid + ".json")) as f:
        return json.load(f)


def load_findings(pid):
    path = os.path.join(VERIF, "known_findings.json")
    if not os.path.exists(path):
        return []
    with open(path) as f:
        data = json.load(f)
    out = [x for x in data.get("findings", []) if x.get("property") == pid]
    fd = os.path.join(VERIF, "findings.d")
    if os.path.isdir(fd):
        for fn in sorted(os.listdir(fd)):
            if fn.endswith(".json"):
                with open(os.path.join(fd, fn)) as f:
                    out += [x for x in json.load(f).get("findings", []) if x.get("property") == pid]
    return out


# ---------------------------------------------------------------- build steps

def source_key():
    """sha1 over every non-test .go file of /repo and factgen's own source: factgen is a pure
    function of these, so an unchanged key means the Extracted files on disk are current."""
    h = hashlib.sha1()
    roots = [REPO, os.path.join(VERIF, "go", "factgen")]
    for r in roots:
        for root, dirs, files in os.walk(r):
            dirs[:] = sorted(d for d in dirs if d not in (".git", "vendor", "node_modules"))
            for fn in sorted(files):
                if (fn.endswith(".go") and not fn.endswith("_test.go")) or fn == "go.mod" or (fn.endswith(".json") and "wants.d" in root):
                    p = os.path.join(root, fn)
                    h.update(p.encode())
                    with open(p, "rb") as f:
                        h.update(f.read())
    return h.hexdigest()


def build_factgen_and_extract(log):
    """Regenerate lean/Mkts/Extracted/*.lean from /repo's working tree. Returns (ok, message)."""
    key = source_key()
    keyfile = os.path.join(BUILD, "factgen.key")
    dst = os.path.join(LEAN, "Mkts", "Extracted")
    try:
        kd = json.load(open(keyfile))
        if kd["key"] == key and all(
                hashlib.sha1(open(os.path.join(dst, fn), "rb").read()).hexdigest() == hx for fn, hx in kd["files"].items()):
            return True, "regenerated; identical (source hash unchanged since last extraction)"
    except (OSError, ValueError, KeyError):
        pass
    with Lock("go"):
        rc, out = sh(["go", "build", "-o", os.path.join(BUILD, "factgen"), "."],
                     cwd=os.path.join(VERIF, "go", "factgen"), timeout=600)
    if rc != 0:
        log.append("factgen build failed:\n" + out)
        return False, "factgen does not build: " + out[-2000:]
    tmp = os.path.join(WORK, "extracted.%d" % os.getpid())
    shutil.rmtree(tmp, ignore_errors=True)
    os.makedirs(tmp)
    rc, out = sh([os.path.join(BUILD, "factgen"), REPO, tmp, os.path.join(VERIF, "go", "factgen", "wants.d")], cwd=REPO, timeout=600)
    if rc != 0:
        log.append("factgen failed:\n" + out)
        shutil.rmtree(tmp, ignore_errors=True)
        return False, "factgen could not extract facts from the source: " + out[-2000:]
    changed = []
    with Lock("lake"):
        dst = os.path.join(LEAN, "Mkts", "Extracted")
        os.makedirs(dst, exist_ok=True)
        for fn in sorted(os.listdir(tmp)):
            new = open(os.path.join(tmp, fn)).read()
            old_path = os.path.join(dst, fn)
            old = open(old_path).read() if os.path.exists(old_path) else None
            if old != new:
                with open(old_path, "w") as f:
                    f.write(new)
                changed.append(fn)
        files = {fn: hashlib.sha1(open(os.path.join(dst, fn), "rb").read()).hexdigest() for fn in sorted(os.listdir(tmp))}
        with open(keyfile, "w") as f:
            json.dump({"key": key, "files": files}, f)
    shutil.rmtree(tmp, ignore_errors=True)
    return True, ("regenerated; changed: " + ",".join(changed)) if changed else "regenerated; identical"


def restore_reference_facts():
    """Put the committed (reference) Extracted files back so that the driver can be built for
    the failing-input search when the regenerated facts break the build."""
    with Lock("lake"):
        sh(["git", "checkout", "--", "lean/Mkts/Extracted"], cwd=VERIF)


def lake_build(targets, log, timeout=3600):
    with Lock("lake"):
        t0 = time.time()
        rc, out = sh(["lake", "build"] + targets, cwd=LEAN, timeout=timeout)
        log.append("lake build %s rc=%d %.1fs" % (" ".join(targets), rc, time.time() - t0))
    return rc, out


def broken_from_lake_output(out):
    """Names/locations lake reports as errors."""
    errs = []
    for m in re.finditer(r"^error: ([^\n]*)", out, re.M):
        errs.append(m.group(1)[:300])
    return errs[:20]


def hygiene(modules):
    """Forbidden-token grep over every Lean source of the project (comments stripped)."""
    hits = []
    for root, _, files in os.walk(LEAN):
        if ".lake" in root:
            continue
        for fn in files:
            if not fn.endswith(".lean"):
                continue
            p = os.path.join(root, fn)
            src = open(p).read()
            src = re.sub(r"/-.*?-/", lambda m: "\n" * m.group(0).count("\n"), src, flags=re.S)
            for i, line in enumerate(src.split("\n"), 1):
                code = line.split("--")[0]
                if FORBIDDEN.search(code):
                    hits.append("%s:%d: %s" % (os.path.relpath(p, VERIF), i, line.strip()))
    return hits


def audit(module, log):
    """Returns list of {name, kind, axioms} for every theorem declared in `module`."""
    with Lock("lake"):
        rc, out = sh(["lake", "env", "lean", "--run", "Audit.lean", module], cwd=LEAN, timeout=1200)
    if rc != 0:
        log.append("audit failed:\n" + out[-3000:])
        return None
    res = []
    for line in out.splitlines():
        if line.startswith("THEOREM "):
            parts = line.split(" ")
            name = parts[1]
            axioms = [a for a in parts[2:] if a]
            res.append({"name": name, "axioms": axioms})
    return res


def build_harness(log):
    with Lock("go"):
        hd = os.path.join(VERIF, "go", "harness")
        # go.sum follows /repo
        try:
            shutil.copyfile(os.path.join(REPO, "go.sum"), os.path.join(hd, "go.sum"))
        except OSError:
            pass
        t0 = time.time()
        cmd = ["go", "build", "-tags", "verif", "-o", os.path.join(BUILD, "harness")]
        if REPO != "/repo":
            # development aid (VERIF_REPO=<scratch worktree of /repo>): same go.mod with the replace redirected
            mf = os.path.join(BUILD, "harness.alt.mod")
            with open(mf, "w") as f:
                f.write(open(os.path.join(hd, "go.mod")).read().replace("=> /repo", "=> " + REPO))
            try:
                shutil.copyfile(os.path.join(hd, "go.sum"), os.path.join(BUILD, "harness.alt.sum"))
            except OSError:
                pass
            cmd += ["-modfile", mf]
        rc, out = sh(cmd + ["."], cwd=hd, timeout=1800)
        log.append("go build harness rc=%d %.1fs" % (rc, time.time() - t0))
    return rc, out


# ---------------------------------------------------------------- running cases

def parse_model_line(line):
    """Driver line: tab separated fields 'M:<payload>', optional 'S:<payload>', 'H:<a,b>'."""
    d = {"M": None, "S": None, "H": []}
    for f in line.split("\t"):
        if f.startswith("M:"):
            d["M"] = f[2:]
        elif f.startswith("S:"):
            d["S"] = f[2:]
        elif f.startswith("H:"):
            d["H"] = [h for h in f[2:].split(",") if h]
    if d["M"] is None:
        d["M"] = line
    return d


def run_cases(pid, gen, seed, tier, corpus_files, workdir, log, harness_timeout):
    os.makedirs(workdir, exist_ok=True)
    t0 = time.time()
    try:
        rc, out = sh([os.path.join(BUILD, "harness"), "gen", gen, str(seed), tier, workdir] + corpus_files,
                     cwd=workdir, timeout=harness_timeout,
                     extra_env={"GOMEMLIMIT": "12GiB", "VERIF_WORK": workdir, "TZ": "UTC"})
    except subprocess.TimeoutExpired:
        return None, "harness did not finish within %d s (the code under test hangs or is far slower than on the unchanged tree)" % harness_timeout
    log.append("harness gen %s seed=%s tier=%s rc=%d %.1fs" % (gen, seed, tier, rc, time.time() - t0))
    if rc != 0:
        return None, "harness failed rc=%d: %s" % (rc, out[-3000:])
    ops = open(os.path.join(workdir, "ops.txt")).read().split("\n")
    impl = open(os.path.join(workdir, "impl.txt")).read().split("\n")
    tags = open(os.path.join(workdir, "tags.txt")).read().split("\n")
    if ops and ops[-1] == "":
        ops, impl, tags = ops[:-1], impl[:len(ops) - 1], tags[:len(ops) - 1]
    t0 = time.time()
    with open(os.path.join(workdir, "ops.txt")) as fin, open(os.path.join(workdir, "model.txt"), "w") as fout:
        p = subprocess.run([os.path.join(LEAN, ".lake", "build", "bin", "mktsdrv")], stdin=fin, stdout=fout,
                           stderr=subprocess.PIPE, timeout=harness_timeout, env=env())
    log.append("mktsdrv rc=%d %.1fs" % (p.returncode, time.time() - t0))
    if p.returncode != 0:
        return None, "model driver failed: " + p.stderr.decode(errors="replace")[-2000:]
    model = open(os.path.join(workdir, "model.txt")).read().split("\n")
    model = model[:len(ops)]
    if len(model) != len(ops) or len(impl) != len(ops):
        return None, "line count mismatch ops=%d impl=%d model=%d" % (len(ops), len(impl), len(model))
    stats = json.load(open(os.path.join(workdir, "stats.json")))
    cases = []
    for o, i, m, t in zip(ops, impl, model, tags):
        d = parse_model_line(m)
        cases.append({"op": o, "impl": i, "model": d["M"], "spec": d["S"], "hyps": d["H"], "tags": t})
    return {"cases": cases, "stats": stats}, None


def spec_ok(impl, spec):
    """`~suffix` specs are predicates (the harness/driver computed verdict flags at the end of
    the line); anything else is the exact expected result."""
    if spec.startswith("~"):
        return impl.endswith(spec[1:])
    if spec.startswith("?"):
        return impl in spec[1:].split("||")
    if spec.startswith("@"):
        # token-wise: `*` matches any token; verdict flags computed by the harness must not be bad
        st, it = spec[1:].split(" "), impl.split(" ")
        return len(st) == len(it) and all(a == "*" or a == b for a, b in zip(st, it)) and "V=bad" not in impl
    if "V=bad" in impl:
        return False
    return impl == spec


def classify(cases, findings):
    """Splits cases into: agree, disagreements (impl != model), spec violations (impl != spec).
    A spec violation is attributed to a known finding when the model predicts it exactly
    (impl == model) and the failed `_partial` hypotheses reported by the model are all covered by
    listed findings."""
    known_hyps = {}
    for f in findings:
        if f.get("status") == "known":
            for h in f.get("hyps", []):
                known_hyps[h] = f
    res = {"disagree": [], "violations": [], "known": {}, "harness_errors": [], "spec_checked": 0,
           "hyp_hist": {}}
    for c in cases:
        if c["impl"].startswith("harness:") or c["model"] in ("bad-op",) or c["model"].startswith("unknown-op"):
            res["harness_errors"].append(c)
            continue
        agree = c["impl"] == c["model"]
        if not agree:
            res["disagree"].append(c)
        for h in c["hyps"]:
            res["hyp_hist"][h] = res["hyp_hist"].get(h, 0) + 1
        if c["spec"] is not None:
            res["spec_checked"] += 1
            if not spec_ok(c["impl"], c["spec"]):
                hy = c["hyps"]
                if agree and hy and all(h in known_hyps for h in hy):
                    for h in hy:
                        res["known"].setdefault(known_hyps[h]["id"], []).append(c)
                else:
                    res["violations"].append(c)
    return res


def write_replay(pid, kind, payload):
    d = os.path.join(VERIF, "replays")
    os.makedirs(d, exist_ok=True)
    body = json.dumps(payload, indent=1, sort_keys=True)
    h = hashlib.sha1(body.encode()).hexdigest()[:10]
    path = os.path.join(d, "%s_%s_%s.json" % (pid, kind, h))
    with open(path, "w") as f:
        f.write(body + "\n")
    return path


def shrink_note(c):
    return {"op_line": c["op"], "impl": c["impl"], "model": c["model"], "spec": c["spec"],
            "failed_partial_hypotheses": c["hyps"], "tags": c["tags"]}


# ---------------------------------------------------------------- main

def main(argv):
    if not argv:
        print(__doc__)
        return 2
    pid = argv[0]
    tier = os.environ.get("VERIF_TIER", "quick")
    replay = None
    proofs_only = False
    i = 1
    while i < len(argv):
        if argv[i] == "--tier":
            tier = argv[i + 1]; i += 2
        elif argv[i] == "--replay":
            replay = argv[i + 1]; i += 2
        elif argv[i] == "--proofs-only":
            proofs_only = True; i += 1   # development aid: stages 1-3 only (facts, lake build, audit)
        else:
            print("unknown argument", argv[i]); return 2
    if tier not in ("quick", "thorough"):
        tier = "quick"
    try:
        seed = int(os.environ.get("VERIF_SEED", "1"))
    except ValueError:
        seed = 1
    props = load_props()
    if pid not in props:
        print("unknown property", pid); return 2
    cfg = load_cfg(pid)
    findings = load_findings(pid)
    t_start = time.time()
    log = []
    os.makedirs(WORK, exist_ok=True)
    os.makedirs(EVID, exist_ok=True)
    workdir = os.path.join(WORK, "%s-%d" % (pid, os.getpid()))
    shutil.rmtree(workdir, ignore_errors=True)
    os.makedirs(workdir)

    module = cfg["lean_module"]
    broken = []          # proof obligations / tie steps that no longer check
    notes = []

    # 1. regenerated tie + proofs
    ok, msg = build_factgen_and_extract(log)
    notes.append("factgen: " + msg)
    if not ok:
        broken.append({"what": "factgen", "detail": msg})
    sh([sys.executable, os.path.join(VERIF, "lib", "genall.py")])
    modules = [module] + cfg.get("extra_modules", [])
    rc, out = lake_build(modules + ["mktsdrv"], log)
    if rc != 0:
        errs = broken_from_lake_output(out)
        broken.append({"what": "lake build " + module, "detail": errs or out[-2000:]})
        # rebuild the driver from the committed reference facts for the search
        restore_reference_facts()
        rc2, out2 = lake_build(["mktsdrv"], log)
        if rc2 != 0:
            broken.append({"what": "lake build mktsdrv (reference facts)", "detail": broken_from_lake_output(out2)})
    # 2. hygiene + axioms
    hy = hygiene([module])
    if hy:
        broken.append({"what": "forbidden tokens in Lean sources", "detail": hy[:20]})
    theorems = None
    if rc == 0:
        theorems = []
        for m in modules:
            t = audit(m, log)
            if t is None:
                theorems = None
                break
            theorems += t
    bad_axioms = []
    if theorems is not None:
        for t in theorems:
            extra = [a for a in t["axioms"] if a not in ALLOWED_AXIOMS]
            if extra:
                bad_axioms.append({"theorem": t["name"], "axioms": extra})
        if bad_axioms:
            broken.append({"what": "axioms outside the trusted base", "detail": bad_axioms})
        want = cfg.get("required_theorems", [])
        have = {t["name"] for t in theorems}
        missing = [w for w in want if not any((m + "." + w) in have for m in modules) and w not in have]
        if missing:
            broken.append({"what": "required theorems missing from " + module, "detail": missing})
    elif rc == 0:
        broken.append({"what": "axiom audit did not run", "detail": log[-1:]})
    if tier == "thorough" and rc == 0:
        with Lock("lake"):
            rcc, outc = sh(["lake", "env", "leanchecker"] + modules, cwd=LEAN, timeout=3600)
        log.append("leanchecker rc=%d" % rcc)
        if rcc != 0:
            broken.append({"what": "leanchecker " + module, "detail": outc[-1500:]})

    if proofs_only:
        print(("PROOFS-BROKEN %s %s" % (pid, json.dumps(broken)[:1500])) if broken else ("PROOFS-OK %s theorems=%d" % (pid, len(theorems or []))))
        return 1 if broken else 0

    # 3. correspondence + oracle on the implementation
    rc_h, out_h = build_harness(log)
    if rc_h != 0:
        print(out_h[-4000:])
        print("harness does not build against /repo's working tree")
        broken.append({"what": "go build harness", "detail": out_h[-2000:]})

    corpus_dir = os.path.join(VERIF, "corpus", pid)
    corpus_files = sorted(os.path.join(corpus_dir, f) for f in os.listdir(corpus_dir)) if os.path.isdir(corpus_dir) else []
    if replay:
        rp = json.load(open(replay))
        rfile = os.path.join(workdir, "replay.ops")
        with open(rfile, "w") as f:
            for l in rp.get("op_lines", [rp.get("op_line")] if rp.get("op_line") else []):
                f.write(l + "\n")
        corpus_files = [rfile]
    gen = cfg.get("gen", pid) if not replay else "NONE"
    result = None
    err = None
    have_driver = os.path.exists(os.path.join(LEAN, ".lake", "build", "bin", "mktsdrv"))
    driver_bin = os.path.join(LEAN, ".lake", "build", "bin", "mktsdrv")
    harness_bin = os.path.join(BUILD, "harness")

    def do_cases(sd, tr, wd):
        if cfg.get("kind") == "wal":
            import walcheck
            os.makedirs(wd, exist_ok=True)
            rl = None
            if replay:
                rl = [l for l in open(corpus_files[0]).read().split("\n") if l.strip()]
            return walcheck.run(pid, cfg, sd, tr, wd, log, harness_bin, driver_bin, replay_lines=rl)
        return run_cases(pid, gen, sd, tr, corpus_files, wd, log, cfg.get("timeout_s", {}).get(tr, 1500))

    if rc_h == 0 and have_driver:
        result, err = do_cases(seed, tier, workdir)
        if err:
            broken.append({"what": "correspondence run", "detail": err})
    cls = classify(result["cases"], findings) if result else None

    # search step: when a proof/tie obligation or the correspondence broke, spend a larger budget
    searched = 0
    if result and (broken or cls["disagree"]) and not cls["violations"] and not replay:
        for k in range(1, 4):
            r2, e2 = do_cases(seed + 1000 * k, "thorough", workdir + "-s%d" % k)
            shutil.rmtree(workdir + "-s%d" % k, ignore_errors=True)
            if not r2:
                break
            searched += len(r2["cases"])
            c2 = classify(r2["cases"], findings)
            if c2["violations"]:
                cls["violations"] = c2["violations"]
                break

    exit_code = 0
    out_lines = []
    violations_n = 0
    if cls:
        if cls["harness_errors"]:
            broken.append({"what": "harness/driver protocol errors", "detail": [shrink_note(c) for c in cls["harness_errors"][:3]]})
        for f in findings:
            if f.get("status") == "known" and cls["known"].get(f["id"]):
                out_lines.append("KNOWN-FINDING: property=%s %s (%d cases this run, e.g. %s)" % (
                    pid, f["what"], len(cls["known"][f["id"]]), cls["known"][f["id"]][0]["op"][:160]))
        if cls["violations"]:
            violations_n = len(cls["violations"])
            c = min(cls["violations"], key=lambda c: len(c["op"]))
            path = write_replay(pid, "violation", {
                "property": pid, "kind": "property_violated_on_implementation",
                "statement": props[pid]["statement"],
                "op_line": c["op"], "impl": c["impl"], "spec": c["spec"], "model": c["model"],
                "failed_partial_hypotheses": c["hyps"], "tags": c["tags"],
                "broken_obligations": broken,
                "other_violations": [shrink_note(x) for x in cls["violations"][:5]],
                "replay": "./check %s --replay <this file>" % pid})
            out_lines.append("VIOLATION property=%s replay=%s" % (pid, path))
            exit_code = 1
        elif cls["disagree"] or broken:
            violations_n = len(cls["disagree"]) or 1
            path = write_replay(pid, "tie", {
                "property": pid, "kind": "proof_or_correspondence_no_longer_checks",
                "broken_obligations": broken,
                "correspondence_disagreements": [shrink_note(c) for c in sorted(cls["disagree"], key=lambda c: len(c["op"]))[:5]],
                "op_lines": [c["op"] for c in sorted(cls["disagree"], key=lambda c: len(c["op"]))[:5]],
                "search": "oracle evaluated on %d further cases, no failing input" % searched})
            out_lines.append("VIOLATION property=%s replay=%s no-failing-input-found" % (pid, path))
            exit_code = 1
    else:
        path = write_replay(pid, "tie", {"property": pid, "kind": "check_could_not_run", "broken_obligations": broken,
                                         "log": log[-10:]})
        out_lines.append("VIOLATION property=%s replay=%s no-failing-input-found" % (pid, path))
        exit_code = 1
        violations_n = 1

    # 4. evidence
    wall = time.time() - t_start
    n_thm = len(theorems) if theorems else 0
    cases = result["cases"] if result else []
    distinct = len({c["op"] for c in cases if c["model"] not in ("bad-op",)})
    nontrivial = len({c["op"] for c in cases if not c["impl"].startswith("err:") and c["model"] != "bad-op"})
    ev = {
        "property_id": pid, "tier": tier, "seed": seed, "level": "proof",
        "coverage": {
            "obligations": max(n_thm, 1) if theorems is not None else 1,
            "discharged": n_thm if (theorems is not None and rc == 0 and not bad_axioms and not hy) else 0,
            "checker_cmd": "cd /verif/lean && lake build %s && for m in %s; do lake env lean --run Audit.lean $m; done%s" % (
                " ".join(modules), " ".join(modules), " && lake env leanchecker " + " ".join(modules) if tier == "thorough" else ""),
            "trusted_base": ["Lean 4.33.0 kernel"] +
                            ["axiom " + a for a in sorted({a for t in (theorems or []) for a in t["axioms"]})] +
                            cfg.get("trusted", []),
            "theorems": [{"name": t["name"], "axioms": t["axioms"]} for t in (theorems or [])],
            "evaluations": len(cases),
            "distinct_nontrivial": nontrivial,
            "distinct_cases": distinct,
            "spec_evaluated_on_impl": cls["spec_checked"] if cls else 0,
            "correspondence_disagreements": len(cls["disagree"]) if cls else 0,
            "known_finding_cases": {k: len(v) for k, v in cls["known"].items()} if cls else {},
            "failed_hypothesis_histogram": cls["hyp_hist"] if cls else {},
            "search_cases_after_break": searched,
            "rule": cfg.get("rule", "cases = corpus lines then seeded generator output; distinct = distinct op lines; "
                                    "non-trivial = the implementation did not reject the input (result not err:*)"),
            "input_histogram": result["stats"]["histogram"] if result else {},
            "samples": [shrink_note(c) for c in cases[:3]] + [shrink_note(c) for c in cases[-2:]] if cases else
                       [{"theorems": [t["name"] for t in (theorems or [])]}],
            "broken_obligations": broken,
            "notes": notes,
        },
        "assumptions": cfg.get("assumptions", []),
        "wall_s": round(wall, 2),
        "violations": violations_n if exit_code else 0,
    }
    with open(os.path.join(EVID, pid + ".json"), "w") as f:
        json.dump(ev, f, indent=1, sort_keys=True)
        f.write("\n")
    shutil.rmtree(workdir, ignore_errors=True)
    for l in out_lines:
        print(l)
    if exit_code == 0:
        print("OK property=%s tier=%s seed=%d theorems=%d cases=%d spec_checked=%d wall=%.1fs" % (
            pid, tier, seed, n_thm, len(cases), cls["spec_checked"] if cls else 0, wall))
    else:
        for b in broken:
            print("BROKEN:", json.dumps(b)[:1500])
    if os.environ.get("VERIF_VERBOSE"):
        for l in log:
            print("LOG:", l)
    return exit_code
