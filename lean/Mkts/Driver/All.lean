import Mkts.Proto
import Mkts.Driver.Time
/-! Concatenation of every driver module's op table. One line per module. -/
namespace Mkts.Driver
open Mkts.Proto

def echoOps : OpTable := [("echo", fun a => " ".intercalate a)]

def allOps : OpTable :=
  echoOps
  ++ Time.ops
end Mkts.Driver
