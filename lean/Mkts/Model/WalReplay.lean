import Mkts.Model.WalCodec
/-!
# WAL replay (executor/walreplay.go `Replay`, `readMessageID`, `readTGData`, `fullRead`,
`replayTGData`; executor/wal.go `readTransactionInfo`, `sanityCheckValue`, `WriteStatus`;
executor/wal/file.go `Read`, `ReadStatus`; executor/walclean.go `CleanupOldWALFiles`;
executor/writer.go `WriteBufferToFile`).  Core Lean only.

The checksum function is a parameter `md5 : Bytes → Bytes` (uninterpreted in every theorem; the
driver passes an executable MD5).  Go panics are explicit outcomes.  The first pass is the total
function `scan`; it recurses on explicit fuel `length + 1` and `scan_fuel` (Props/C06) shows the
fuel is never exhausted, because every loop iteration consumes at least one byte.

State of the code modelled here (after the repairs of C06-F6, F6b, F6c; the statements they consist
of are pinned over the regenerated skeletons of `readTGData`, `Replay`, `wal.ReadStatus` in
Props/C06): a group length below `tgIDBytes` is a short read (scan stops); an unreadable record
(checksum, insane length) is skipped without touching `tgData`; `wal.ReadStatus` at end of file
returns io.EOF (scan stops).  The first pass therefore has no panic outcome any more.
-/
namespace Mkts.WalReplay
open Mkts.Bytes Mkts.WalCodec

/-! ## constants (tied to the source by `C06_constants_extracted`) -/
def midTGDATA : UInt8 := 0
def midTXNINFO : UInt8 := 1
def midSTATUS : UInt8 := 2
def destCHECKPOINT : UInt8 := 1
def statusCOMMITCOMPLETE : UInt8 := 2
def tgLenBytes : Nat := 8
def tgIDBytes : Nat := 8
def checkSumBytes : Nat := 16
def safetyFactor : Int := 1000
def walStatusLenBytes : Nat := 10
def txnInfoBytes : Nat := 10

/-! ## Go map `tgData map[int64][]byte` as an association list without duplicate keys
(`none` = a key holding a nil slice) -/
abbrev TGMap := List (Int × Option Bytes)

/-- `tgData[k] = v` -/
def TGMap.put (m : TGMap) (k : Int) (v : Option Bytes) : TGMap := (k, v) :: m.filter (fun e => e.1 != k)
/-- `_, ok := tgData[k]` -/
def TGMap.has (m : TGMap) (k : Int) : Bool := m.any (fun e => e.1 == k)
/-- `for tgid := range tgData { if tgid <= k { delete(tgData, tgid) } }` -/
def TGMap.dropUpTo (m : TGMap) (k : Int) : TGMap := m.filter (fun e => decide (k < e.1))

/-- result of `readTGData` -/
inductive TGRead where
  | short                                        -- `wal.ShortReadError` ⇒ `(0, nil, err)`, scan stops
  | bad (rest : Bytes)                           -- insane length / checksum mismatch ⇒ `(0, nil, err)`, scan goes on
  | ok (id : Int) (tg : Bytes) (rest : Bytes)    -- checksum-valid transaction group
  deriving Repr

/-- `readTGData` at file position `r` (the bytes from the position to EOF); `fsz` = file size.
Order of events as in the source: length read, `tgLen < tgIDBytes` ⇒ short read, `sanityCheckValue`,
`make([]byte, tgLen)`, data read, group id, checksum read, `validateCheckSum`. -/
def readTGData (md5 : Bytes → Bytes) (fsz : Nat) (r : Bytes) : TGRead :=
  if r.length < tgLenBytes then .short else
  let lenb := r.take tgLenBytes
  let r1 := r.drop tgLenBytes
  let tgLen := leDecodeInt lenb
  if tgLen < (tgIDBytes : Int) then .short else               -- "TG Length too small": ShortReadError
  if ¬ (tgLen < safetyFactor * fsz) then .bad r1 else      -- "Insane TG Length": plain error
  let n := tgLen.toNat
  if r1.length < n then .short else                          -- n != tgLen (or EOF)
  let tg := r1.take n
  let r2 := r1.drop n
  -- `io.ToInt64(tgSerialized[:tgIDBytes-1])` reads 8 bytes through an unsafe pointer (n ≥ 8 here)
  let id := leDecodeInt (tg.take 8)
  if r2.length < checkSumBytes then .short else
  let ck := r2.take checkSumBytes
  let r3 := r2.drop checkSumBytes
  if md5 (lenb ++ tg) = ck then .ok id tg r3 else .bad r3

/-- loop state of the first pass: `tgData`, the key set of `offsetTGDataInWAL`, and a ghost flag
(a CHECKPOINT/COMMITCOMPLETE record removed a stored group) -/
structure St where
  tgData : TGMap := []
  seen : List Int := []
  ckptDropped : Bool := false
  deriving Repr

inductive Step where
  | stop (st : St)                  -- `continueRead = false`
  | cont (rest : Bytes) (st : St)
  | dup (id : Int)                  -- `ReplayError{"Duplicate TG Data in WAL", Cont: true}`
  deriving Repr

/-- one iteration of the `for continueRead` loop at file position `r` -/
def step (md5 : Bytes → Bytes) (fsz : Nat) (r : Bytes) (st : St) : Step :=
  match r with
  | [] => .stop st                                            -- readMessageID: io.EOF
  | b :: r1 =>
    if b = midTGDATA then
      match readTGData md5 fsz r1 with
      | .short => .stop st                                     -- fullRead = false
      | .bad r' => .cont r' st                                 -- `if err != nil { continue }`
      | .ok id tg r' =>
        if st.seen.contains id then .dup id
        else .cont r' { st with tgData := st.tgData.put id (some tg), seen := id :: st.seen }
    else if b = midTXNINFO then
      if r1.length < txnInfoBytes then .stop st else             -- ShortReadError (also for EOF)
      let buf := r1.take txnInfoBytes
      let r' := r1.drop txnInfoBytes
      let tgid := leDecodeInt (buf.take 8)
      let dest := buf.getD 8 0
      let status := buf.getD 9 0
      -- invalid destination / status: `(0,0,0,err)`, a plain error: only `txnStateWAL[0]` changes
      if dest = destCHECKPOINT ∧ status = statusCOMMITCOMPLETE ∧ st.tgData.has tgid then
        .cont r' { st with tgData := st.tgData.dropUpTo tgid,
                           ckptDropped := st.ckptDropped || st.tgData.any (fun e => decide (e.1 ≤ tgid) && e.2.isSome) }
      else .cont r' st
    else if b = midSTATUS then
      -- wal.ReadStatus: io.EOF at end of file, ShortReadError for 1…9 bytes: the scan stops
      if r1.length < walStatusLenBytes then .stop st
      else .cont (r1.drop walStatusLenBytes) st
    else .cont r1 st                                              -- unknown message id: 1 byte skipped

inductive ScanResult where
  | done (st : St)
  | dup (id : Int)
  | fuel                          -- never produced (`scan_fuel`)
  deriving Repr

def scanLoop (md5 : Bytes → Bytes) (fsz : Nat) : Nat → Bytes → St → ScanResult
  | 0, _, _ => .fuel
  | n + 1, r, st =>
    match step md5 fsz r st with
    | .stop st' => .done st'
    | .cont r' st' => scanLoop md5 fsz n r' st'
    | .dup id => .dup id

/-- first pass of `Replay` over the whole file content `f` (read from offset 0) -/
def scan (md5 : Bytes → Bytes) (f : Bytes) : ScanResult := scanLoop md5 f.length (f.length + 1) f {}

/-! ## second pass -/

inductive Outcome where
  | ok              -- replayed, WAL file deleted
  | removedEmpty    -- size ≤ walStatusLenBytes: file removed without replay
  | moved           -- `ReplayError{Cont: true}`: WAL renamed to `.tmp`
  | errReplay       -- other replay error: `CleanupOldWALFiles` returns "unable to replay"
  | errTakeover     -- `TakeOverWALFile` failed (owner id 0)
  | panic (p : Panic)
  | unmodelled      -- a checksum-valid VARIABLE-record write set (WriteBufferToFileIndirect is not modelled)
  deriving Repr, DecidableEq

/-- one write to a primary file: full path, offset, bytes (`WriteAt`) -/
structure Write where
  path : Bytes
  off : Int
  data : Bytes
  deriving Repr, DecidableEq

structure Result where
  outcome : Outcome
  cause : String := ""          -- which exclusion class of `C06_partial` produced a non-ok outcome
  writes : List Write := []     -- in the order performed
  applied : List Int := []      -- ids of the groups whose write sets were all performed
  ckptDropped : Bool := false
  deriving Repr

/-- `replayTGData` for the write sets of one group. `exists_` tells whether a path can be opened. -/
def applySets (exists_ : Bytes → Bool) (root : Bytes) : List WTSet → List Write → (Outcome × String) × List Write
  | [], acc => ((.ok, ""), acc)
  | w :: ws, acc =>
    let p := fullPath root w.key
    if !exists_ p then ((.moved, "open_failed"), acc) else         -- GetFP fails ⇒ ReplayError Cont
    if w.recordType = 0 then                                          -- io.FIXED ⇒ WriteBufferToFile
      if w.buffer.length < 8 then ((.panic .slice, "buffer_short"), acc) else   -- buffer[8:] / buffer[:8]
      let off := leDecodeInt (w.buffer.take 8)
      if off < 0 then ((.errReplay, "negative_offset"), acc) else     -- WriteAt: negative offset
      applySets exists_ root ws (acc ++ [{ path := p, off := off, data := w.buffer.drop 8 }])
    else if w.recordType = 1 then ((.unmodelled, "variable_record"), acc)
    else ((.errReplay, "bad_record_type"), acc)

/-- insertion sort of the surviving ids (`sort.Sort(sortedTGIDs)`) -/
def insertSorted (x : Int × Bytes) : List (Int × Bytes) → List (Int × Bytes)
  | [] => [x]
  | y :: ys => if x.1 ≤ y.1 then x :: y :: ys else y :: insertSorted x ys

/-- the groups that the second pass replays, in ascending id order (nil entries are skipped) -/
def pending (m : TGMap) : List (Int × Bytes) :=
  (m.filterMap (fun e => e.2.map (fun b => (e.1, b)))).foldr insertSorted []

def secondPass (exists_ : Bytes → Bool) (root : Bytes) : List (Int × Bytes) → Result → Result
  | [], res => res
  | (_, tg) :: rest, res =>
    match parseTGData tg with
    | .error p => { res with outcome := .panic p, cause := "parse_panic" }
    | .ok (id, sets) =>
      match applySets exists_ root sets res.writes with
      | ((.ok, _), ws) => secondPass exists_ root rest { res with writes := ws, applied := res.applied ++ [id] }
      | ((o, c), ws) => { res with outcome := o, cause := c, writes := ws }

/-- `Replay(false)` on a file whose status header was already rewritten -/
def replay (md5 : Bytes → Bytes) (exists_ : Bytes → Bool) (root : Bytes) (f : Bytes) : Result :=
  match scan md5 f with
  | .fuel => { outcome := .unmodelled, cause := "fuel" }
  | .dup _ => { outcome := .moved, cause := "dup_tgid" }
  | .done st => secondPass exists_ root (pending st.tgData) { outcome := .ok, ckptDropped := st.ckptDropped }

/-- `WriteStatus(OPEN, REPLAYINPROCESS)`: the first 11 bytes become `STATUS, OPEN, REPLAYINPROCESS, owner` -/
def patchStatus (f : Bytes) : Bytes := [2, 1, 3] ++ f.drop 3

/-- `CleanupOldWALFiles` for one WAL file with content `f` -/
def cleanup (md5 : Bytes → Bytes) (exists_ : Bytes → Bool) (root : Bytes) (f : Bytes) : Result :=
  if f.length ≤ walStatusLenBytes then { outcome := .removedEmpty } else
  -- TakeOverWALFile: owner read from the file is compared with the zero value of a fresh struct
  if leDecodeInt ((f.drop 3).take 8) = 0 then { outcome := .errTakeover, cause := "owner_zero" } else
  -- NeedsReplay: ReplayState NOTREPLAYED(1) or REPLAYINPROCESS(3)
  let rs := f.getD 2 0
  if rs ≠ 1 ∧ rs ≠ 3 then { outcome := .moved, cause := "no_replay_needed" } else
  replay md5 exists_ root (patchStatus f)

end Mkts.WalReplay
