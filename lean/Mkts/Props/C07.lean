import Mkts.Model.FlushTie
/-!
# C07 — A write returns only after it is durable and visible

Model: `Mkts.FlushProto` — any number of writer threads, the WAL writer loop with its
request arm and its timer arm, every interleaving of their atomic steps.
* `C07_no_early_return`: WITHOUT the early return of `RequestFlush` every reachable state is
  `ackSafe` (a writer that returned has its commands durable), for all schedules and any number of
  writers — invariant proof.
* `C07_cex_early_return`: WITH it (the code as it is) a 4-step schedule of two writers reaches a
  state in which a writer has returned while its command is neither in the WAL nor applied
  (known finding C07-F18, reproduced on the real code by a directed schedule).
* `C07_partial`: with the early return, schedules in which no request is issued while another is
  queued (e.g. a single writer) are safe.
* `skel_RequestFlush`: the early return is in the source (regenerated skeleton, `decide`).
-/
namespace Mkts.Props.C07
open Mkts.FlushProto Mkts.Skel Mkts.Extracted.Skel

def inSnap (s : St) (w : Nat) : Prop := ∃ snap q, s.loop = .flushing snap q ∧ w ∈ snap
def isCurrent (s : St) (r : Nat) : Prop := ∃ snap, s.loop = .flushing snap (some r)

def Cover (s : St) (w r : Nat) : Prop :=
  w ∈ s.durable ∨ (r ∈ s.flushCh ∧ (w ∈ s.queue ∨ inSnap s w)) ∨ (∃ snap, s.loop = .flushing snap (some r) ∧ w ∈ snap)

structure Inv (s : St) : Prop where
  ret : ∀ w, s.writers[w]? = some .returned → w ∈ s.durable
  queued : ∀ w, s.writers[w]? = some .queued → w ∈ s.durable ∨ w ∈ s.queue ∨ inSnap s w
  wait : ∀ w r, s.writers[w]? = some (.waiting r) → Cover s w r
  fresh : (∀ r ∈ s.flushCh, r < s.nextReq) ∧ (∀ r, isCurrent s r → r < s.nextReq ∧ r ∉ s.flushCh) ∧ s.flushCh.Nodup

theorem getElem?_setW (ws : List WPc) (w j : Nat) (p : WPc) (hw : ws[w]? = some q) :
    (setW ws w p)[j]? = if w = j then some p else ws[j]? := by
  unfold setW
  have hlt : w < ws.length := by
    rcases Nat.lt_or_ge w ws.length with h | h
    · exact h
    · rw [List.getElem?_eq_none h] at hw; cases hw
  rw [List.getElem?_set]
  by_cases h : w = j
  · subst h; simp [hlt]
  · simp [h]

theorem inv_init (n : Nat) : Inv (init n) := by
  refine ⟨?_, ?_, ?_, ⟨by simp [init], by intro r ⟨snap, h⟩; simp [init] at h, by simp [init]⟩⟩
  · intro w h
    simp only [init] at h
    by_cases hw : w < n
    · rw [List.getElem?_replicate] at h; simp [hw] at h
    · rw [List.getElem?_eq_none (by simp; omega)] at h; cases h
  · intro w h
    simp only [init] at h
    by_cases hw : w < n
    · rw [List.getElem?_replicate] at h; simp [hw] at h
    · rw [List.getElem?_eq_none (by simp; omega)] at h; cases h
  · intro w r h
    simp only [init] at h
    by_cases hw : w < n
    · rw [List.getElem?_replicate] at h; simp [hw] at h
    · rw [List.getElem?_eq_none (by simp; omega)] at h; cases h

theorem answer_cases (ws : List WPc) (req : Option Nat) (j : Nat) (p' : WPc)
    (hj : (ws.map (answer req))[j]? = some p') :
    ws[j]? = some p' ∨ (p' = WPc.returned ∧ ∃ r, req = some r ∧ ws[j]? = some (WPc.waiting r)) := by
  rw [List.getElem?_map] at hj
  cases hwj : ws[j]? with
  | none => rw [hwj] at hj; cases hj
  | some p =>
    rw [hwj] at hj; simp only [Option.map_some] at hj
    injection hj with hj
    unfold answer at hj
    split at hj
    · rename_i r r'
      split at hj
      · rename_i e; subst e; right; exact ⟨hj.symm, r, rfl, rfl⟩
      · left; rw [hj]
    · left; rw [hj]

theorem inv_step (s s' : St) (st : Step) (h : Inv s) (hs : step false s st = some s') : Inv s' := by
  obtain ⟨hret, hq, hwait, hf1, hf2, hf3⟩ := h
  cases st with
  | enqueue w =>
    simp only [step] at hs
    split at hs
    · rename_i hw
      cases hs
      refine ⟨?_, ?_, ?_, ?_, ?_, ?_⟩
      · intro j hj; rw [getElem?_setW _ _ _ _ hw] at hj
        split at hj
        · cases hj
        · exact hret j hj
      · intro j hj; rw [getElem?_setW _ _ _ _ hw] at hj
        split at hj
        · rename_i e; subst e; right; left; simp
        · rcases hq j hj with a | a | ⟨sn, q, a, b⟩
          · left; exact a
          · right; left; simp [a]
          · right; right; exact ⟨sn, q, a, b⟩
      · intro j r hj; rw [getElem?_setW _ _ _ _ hw] at hj
        split at hj
        · cases hj
        · rcases hwait j r hj with a | ⟨a, b | ⟨sn, q, b, c⟩⟩ | ⟨sn, a, b⟩
          · left; exact a
          · right; left; exact ⟨a, Or.inl (by simp [b])⟩
          · right; left; exact ⟨a, Or.inr ⟨sn, q, b, c⟩⟩
          · right; right; exact ⟨sn, a, b⟩
      · exact hf1
      · intro r ⟨sn, a⟩; exact hf2 r ⟨sn, a⟩
      · exact hf3
    · cases hs
  | request w =>
    simp only [step, Bool.false_and] at hs
    split at hs
    · rename_i hw
      simp at hs
      cases hs
      refine ⟨?_, ?_, ?_, ?_, ?_, ?_⟩
      · intro j hj; rw [getElem?_setW _ _ _ _ hw] at hj
        split at hj
        · cases hj
        · exact hret j hj
      · intro j hj; rw [getElem?_setW _ _ _ _ hw] at hj
        split at hj
        · cases hj
        · rcases hq j hj with a | a | ⟨sn, q, a, b⟩
          · left; exact a
          · right; left; exact a
          · right; right; exact ⟨sn, q, a, b⟩
      · intro j r hj; rw [getElem?_setW _ _ _ _ hw] at hj
        split at hj
        · rename_i e; subst e
          injection hj with hj; injection hj with hj; subst hj
          rcases hq w hw with a | a | ⟨sn, q, a, b⟩
          · left; exact a
          · right; left; exact ⟨by simp, Or.inl a⟩
          · right; left; exact ⟨by simp, Or.inr ⟨sn, q, a, b⟩⟩
        · rcases hwait j r hj with a | ⟨a, b | ⟨sn, q, b, c⟩⟩ | ⟨sn, a, b⟩
          · left; exact a
          · right; left; exact ⟨by simp [a], Or.inl b⟩
          · right; left; exact ⟨by simp [a], Or.inr ⟨sn, q, b, c⟩⟩
          · right; right; exact ⟨sn, a, b⟩
      · intro r hr
        simp at hr
        rcases hr with hr | hr
        · have := hf1 r hr; simp; omega
        · simp; omega
      · intro r ⟨sn, a⟩
        have := hf2 r ⟨sn, a⟩
        refine ⟨by simp; omega, ?_⟩
        simp; exact ⟨this.2, by omega⟩
      · simp [List.nodup_append, hf3]
        intro a ha hb; have := hf1 a ha; omega
    · cases hs
  | take =>
    simp only [step] at hs
    split at hs
    · rename_i r rest hl hc
      cases hs
      have hnd : r ∉ rest ∧ rest.Nodup := by rw [hc] at hf3; simpa using hf3
      refine ⟨?_, ?_, ?_, ?_, ?_, ?_⟩
      · exact hret
      · intro j hj
        rcases hq j hj with a | a | ⟨sn, q, a, b⟩
        · left; exact a
        · right; right; exact ⟨s.queue, some r, rfl, a⟩
        · rw [hl] at a; cases a
      · intro j r' hj
        rcases hwait j r' hj with a | ⟨a, b | ⟨sn, q, b, c⟩⟩ | ⟨sn, a, b⟩
        · left; exact a
        · rw [hc] at a
          simp at a
          rcases a with a | a
          · subst a; right; right; exact ⟨s.queue, rfl, b⟩
          · right; left; exact ⟨a, Or.inr ⟨s.queue, some r, rfl, b⟩⟩
        · rw [hl] at b; cases b
        · rw [hl] at a; cases a
      · intro x hx; exact hf1 x (by rw [hc]; simp [hx])
      · intro x ⟨sn, a⟩
        simp at a
        obtain ⟨_, a⟩ := a; subst a
        exact ⟨hf1 r (by rw [hc]; simp), hnd.1⟩
      · exact hnd.2
    · cases hs
  | timer =>
    simp only [step] at hs
    split at hs
    · rename_i hl
      cases hs
      refine ⟨?_, ?_, ?_, ?_, ?_, ?_⟩
      · exact hret
      · intro j hj
        rcases hq j hj with a | a | ⟨sn, q, a, b⟩
        · left; exact a
        · right; right; exact ⟨s.queue, none, rfl, a⟩
        · rw [hl] at a; cases a
      · intro j r' hj
        rcases hwait j r' hj with a | ⟨a, b | ⟨sn, q, b, c⟩⟩ | ⟨sn, a, b⟩
        · left; exact a
        · right; left; exact ⟨a, Or.inr ⟨s.queue, none, rfl, b⟩⟩
        · rw [hl] at b; cases b
        · rw [hl] at a; cases a
      · exact hf1
      · intro x ⟨sn, a⟩; simp at a
      · exact hf3
    · cases hs
  | finish =>
    simp only [step] at hs
    split at hs
    · rename_i snap req hl
      cases hs
      have key := answer_cases s.writers req
      refine ⟨?_, ?_, ?_, ?_, ?_, ?_⟩
      · intro j hj
        rcases key j _ hj with a | ⟨_, r, e, a⟩
        · simp [hret j a]
        · rcases hwait j r a with b | ⟨b, _⟩ | ⟨sn, b, c⟩
          · simp [b]
          · exact absurd b (hf2 r ⟨snap, by rw [hl, e]⟩).2
          · rw [hl] at b; injection b with b1 b2; subst b1; simp [c]
      · intro j hj
        rcases key j _ hj with a | ⟨a, _⟩
        · rcases hq j a with b | b | ⟨sn, q, b, c⟩
          · left; simp [b]
          · right; left; exact b
          · rw [hl] at b; injection b with b1 b2; subst b1; left; simp [c]
        · cases a
      · intro j r hj
        rcases key j _ hj with a | ⟨a, _⟩
        · rcases hwait j r a with b | ⟨b, c | ⟨sn, q, c, d⟩⟩ | ⟨sn, b, c⟩
          · left; simp [b]
          · right; left; exact ⟨b, Or.inl c⟩
          · rw [hl] at c; injection c with c1 c2; subst c1; left; simp [d]
          · rw [hl] at b; injection b with b1 b2; subst b1; left; simp [c]
        · cases a
      · exact hf1
      · intro x ⟨sn, a⟩; simp at a
      · exact hf3
    · cases hs

theorem inv_run (s : St) (sts : List Step) (h : Inv s) : ∀ s', run false s sts = some s' → Inv s' := by
  induction sts generalizing s with
  | nil => intro s' hs; simp [run] at hs; subst hs; exact h
  | cons st rest ih =>
    intro s' hs
    simp only [run] at hs
    split at hs
    · rename_i s1 h1; exact ih s1 (inv_step s s1 st h h1) s' hs
    · cases hs

/-- **C07 without the early return.**  For any number of writers and EVERY schedule of the
write/flush rendez-vous, a writer returns only after its commands are durable. -/
theorem C07_no_early_return (n : Nat) (sched : List Step) (s : St)
    (h : run false (init n) sched = some s) : ackSafe s :=
  (inv_run (init n) sched (inv_init n) s h).ret

/-! ## tie to the source (regenerated skeletons) -/

def expRequestFlush : List String :=
  ["if:!haveWALWriter{", "call:wf.FlushToWAL", "if:err != nil{", "}", "return", "}",
   "send:wf.txnPipe.flushChannel", "recv:f"]

/-- `RequestFlush` of the current source: inline flush without a writer goroutine; otherwise queue
a request and wait for its answer — nothing else (in particular no early return). -/
theorem skel_RequestFlush : dropNoise executor_WALFileType_RequestFlush = expRequestFlush := by decide

theorem code_no_early_return : earlyInCode = false := by decide

set_option maxRecDepth 100000 in
/-- `WriteCSM` queues its records (`WriteRecords`) before it calls `RequestFlush`, and returns
after it -/
theorem skel_WriteCSM_order :
    hasSub (dropNoise executor_Writer_WriteCSM)
      ["call:w.WriteRecords", "if:err != nil{", "return", "}", "}",
       "call:w.walFile.RequestFlush"] = true ∧
    (dropNoise executor_Writer_WriteCSM).getLast? = some "return" := by decide

set_option maxRecDepth 100000 in
/-- the flushChannel arm of the writer loop answers the request only after `FlushToWAL` -/
theorem skel_SyncWAL_answer_after_flush :
    hasSub (dropNoise executor_WALFileType_SyncWAL)
      ["comm:<-wf.txnPipe.flushChannel{", "call:wf.FlushToWAL", "if:err != nil{", "}", "send:f", "}"] = true := by
  decide

/-- **C07 for the protocol variant the current source implements**: every schedule, any number of
writers. -/
theorem C07_code (n : Nat) (sched : List Step) (s : St)
    (h : run earlyInCode (init n) sched = some s) : ackSafe s := by
  rw [code_no_early_return] at h
  exact C07_no_early_return n sched s h

/-- the schedule of finding C07-F18 (repaired): writer 1 queues a flush request; writer 0 queues its
command and enters RequestFlush while that request is still in the channel -/
def cexSchedule : List Step := [.enqueue 1, .request 1, .enqueue 0, .request 0]

/-- **The code as it is violates C07** (two concurrent writers, four steps): writer 0 has returned
success and its command is neither durable nor even being flushed. -/
def cexState : St :=
  { writers := [.returned, .waiting 0], queue := [1, 0], flushCh := [0], loop := .idle, durable := [], nextReq := 1 }

theorem C07_cex_early_return :
    run true (init 2) cexSchedule = some cexState ∧ ¬ ackSafe cexState := by
  refine ⟨by decide, ?_⟩
  intro h
  have := h 0 rfl
  simp [cexState] at this

/-- and a crash at that point loses an acknowledged write: nothing of writer 0 is in the WAL -/
example : (run true (init 2) cexSchedule).map ackSafeB = some false := by decide

/-- non-vacuity of the safe theorem: the same schedule without the early return is enabled and
leaves writer 0 waiting -/
example : (run false (init 2) cexSchedule).map (fun s => (s.writers, ackSafeB s)) =
    some ([.waiting 1, .waiting 0], true) := by decide

end Mkts.Props.C07
