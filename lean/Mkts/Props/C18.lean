import Mkts.Lemmas.ReadCommitted
import Mkts.Extracted.Skeletons
import Mkts.Model.Lockset
/-!
# C18 — concurrent writes and queries: read-committed logic (PARTIAL property)

What is proved here is the LOGIC of reader/writer interleavings on the primary files, for a
writer machine whose atoms are the file operations other threads can observe
(`Mkts.RC`: `varWriteData`, `varWriteIdx`; a fixed record is one `pwrite`):

* `C18_partial`: for EVERY codec, every initial file, every queue of writes and every placement of
  a query's `readIdx` / `readBlob` steps among the writer's atoms — unless the query's window
  contains the middle state of a continuation (in-place) write — the query returns exactly the
  view of a state in which every started write is complete.
* `C18_full` (the same without the exclusion) is FALSE of the code: `C18_cex_var_mix`
  (compression off: the reader returns rows of the unfinished write and loses committed rows) and
  `C18_cex_var_corrupt` (a codec that, like snappy, rejects truncated codewords: decode error).
* `C18_fixed_read_committed`: fixed-length buckets — every row a reader returns is a row that was
  in the file initially or the payload of one completed record write.  ASSUMPTION (OS): a
  `pwrite` of one record (≤ a few hundred bytes, inside one page or not) is atomic with respect to a
  concurrent `pread` of the same file region; Linux gives this for regular files in practice
  (page-cache writes under the inode lock), POSIX demands it.

NOT covered by any theorem here (labelled partial in props/C18.json): Go-memory-model data races
and runtime panics.  For those, `lockset_*` below are decidable facts over the regenerated access
table (which lock, if any, is held at each access of the shared variables named in DESIGN §6 C18).
-/
namespace Mkts.Props.C18
open Mkts.RC

/-- A state of the writer machine is committed when no write is between its two atoms. -/
def CommittedAt (c : Codec) (recLen : Nat) (s0 : WState) (k : Nat) : Prop :=
  (iter c recLen k s0).pending = none

theorem C18_partial (c : Codec) (recLen : Nat) (s0 : WState) (a B : Nat) (b : Nat → Nat)
    (h0 : s0.pending = none) (hb : InB s0.file)
    (hwin : ∀ j, a ≤ b j ∧ b j ≤ B)
    (hno : ∀ m, a ≤ m → m ≤ B → (iter c recLen m s0).inPlaceMid = false) :
    ∃ k, k ≤ a ∧ CommittedAt c recLen s0 k ∧
      query c recLen s0 a b = view c recLen (iter c recLen k s0).file := by
  have hW0 : WInv s0 := ⟨hb, by simp [h0]⟩
  have hWa : WInv (iter c recLen a s0) := WInv_iter c recLen a hW0
  -- every blob is read from an append-extension of the data area at `readIdx` time
  have hpre : ∀ j, (iter c recLen a s0).file.data <+: (iter c recLen (b j) s0).file.data := by
    intro j
    obtain ⟨h1, h2⟩ := hwin j
    have : b j = a + (b j - a) := by omega
    rw [this, iter_add]
    apply window_prefix c recLen _ hWa
    intro m hm1 hm2
    rw [← iter_add]
    exact hno (a + m) (by omega) (by omega)
  have hq : query c recLen s0 a b = view c recLen (iter c recLen a s0).file := by
    unfold query view
    exact readWith_congr c recLen _ _ hpre _ 0 hWa.1
  cases hp : (iter c recLen a s0).pending with
  | none => exact ⟨a, Nat.le_refl _, hp, hq⟩
  | some p =>
    -- `readIdx` fell between the two atoms of an APPENDING write: same view as before that write
    cases a with
    | zero => simp [iter, h0] at hp
    | succ a' =>
      have hmid := hno (a' + 1) (Nat.le_refl _) (by have := hwin 0; omega)
      rw [iter_succ'] at hp hmid hq
      have hWa' : WInv (iter c recLen a' s0) := WInv_iter c recLen a' hW0
      obtain ⟨hpfx, hrest⟩ := wstep_prefix c recLen hWa' hmid
      obtain ⟨hnone, hidx⟩ := hrest (by rw [hp]; rfl)
      refine ⟨a', by omega, hnone, ?_⟩
      rw [hq]
      unfold view
      rw [hidx]
      exact readWith_congr c recLen _ _ (fun _ => hpfx) _ 0 hWa'.1

/-- The full statement: every query, however interleaved, returns a committed view. -/
def C18_full : Prop :=
  ∀ (c : Codec) (recLen : Nat) (s0 : WState) (a : Nat) (b : Nat → Nat),
    c.Lawful → s0.pending = none → InB s0.file → (∀ j, a ≤ b j) →
    ∃ k, CommittedAt c recLen s0 k ∧ query c recLen s0 a b = view c recLen (iter c recLen k s0).file

/-! ### counterexamples: records of 5 bytes (1 payload byte + 4 tick bytes); slot 5 holds record
`B` (ticks 30); the next write adds record `A` (ticks 20) to the same slot — a continuation write;
the query runs after 3 writer atoms (first write complete, second write's data written). -/
def recA : Bytes := [0xA, 20, 0, 0, 0]
def recB : Bytes := [0xB, 30, 0, 0, 0]
def cexState : WState := ⟨⟨[], []⟩, none, [⟨5, recB⟩, ⟨5, recA⟩]⟩

theorem C18_cex_var_mix :
    query idCodec 5 cexState 3 (fun _ => 3) = .ok [(5, [recA])] ∧
    view idCodec 5 (iter idCodec 5 2 cexState).file = .ok [(5, [recB])] ∧
    view idCodec 5 (iter idCodec 5 4 cexState).file = .ok [(5, [recA, recB])] ∧
    (iter idCodec 5 3 cexState).inPlaceMid = true := by decide

theorem C18_cex_var_corrupt :
    query framedCodec 5 cexState 3 (fun _ => 3) = .error .corrupt ∧
    query framedCodec 5 cexState 2 (fun _ => 3) = .error .corrupt ∧
    view framedCodec 5 (iter framedCodec 5 2 cexState).file = .ok [(5, [recB])] ∧
    view framedCodec 5 (iter framedCodec 5 4 cexState).file = .ok [(5, [recA, recB])] :=
  ⟨by decide, by decide, by decide, by decide⟩

theorem iter_done (d : Nat) : iter idCodec 5 (4 + d) cexState = iter idCodec 5 4 cexState := by
  induction d with
  | zero => rfl
  | succ d ih =>
    have : 4 + (d + 1) = (4 + d) + 1 := by omega
    rw [this, iter_succ', ih]
    decide

theorem C18_not_full : ¬ C18_full := by
  intro h
  obtain ⟨k, hk, hq⟩ := h idCodec 5 cexState 3 (fun _ => 3) (fun _ => rfl) rfl
    (by intro e he; simp [cexState] at he) (fun _ => Nat.le_refl _)
  rw [C18_cex_var_mix.1] at hq
  have h0 : view idCodec 5 (iter idCodec 5 0 cexState).file = .ok [] := by decide
  have h1 : (iter idCodec 5 1 cexState).pending ≠ none := by decide
  have h3 : (iter idCodec 5 3 cexState).pending ≠ none := by decide
  rcases Nat.lt_or_ge k 4 with hlt | hge
  · have : k = 0 ∨ k = 1 ∨ k = 2 ∨ k = 3 := by omega
    rcases this with rfl | rfl | rfl | rfl
    · rw [h0] at hq; cases hq
    · exact h1 hk
    · rw [C18_cex_var_mix.2.1] at hq; cases hq
    · exact h3 hk
  · obtain ⟨d, rfl⟩ : ∃ d, k = 4 + d := ⟨k - 4, by omega⟩
    rw [iter_done, C18_cex_var_mix.2.2.1] at hq
    cases hq

/-! non-vacuity of `C18_partial`: slot 5 then slot 7 then slot 5 again — the third write is NOT a
continuation (slot 5's blob is no longer at the end): a query in its middle sees the state before -/
def okState : WState := ⟨⟨[], []⟩, none, [⟨5, recB⟩, ⟨7, recA⟩, ⟨5, recA⟩]⟩

example : (∀ m, 5 ≤ m → m ≤ 5 → (iter framedCodec 5 m okState).inPlaceMid = false) ∧
    query framedCodec 5 okState 5 (fun _ => 5) = .ok [(5, [recB]), (7, [recA])] ∧
    view framedCodec 5 (iter framedCodec 5 6 okState).file = .ok [(5, [recA, recB]), (7, [recA])] := by
  refine ⟨?_, by decide, by decide⟩
  intro m h1 h2
  have : m = 5 := by omega
  subst this; decide

example : idCodec.Lawful := fun _ => rfl

/-! ## fixed-length buckets -/

theorem fget_fput (s s' : Nat) (r : Bytes) (f : FFile) :
    fget s (fput s' r f) = if s' = s then some r else fget s f := by
  induction f with
  | nil => simp [fput, fget]
  | cons e rest ih =>
    obtain ⟨k, v⟩ := e
    simp only [fput]
    by_cases h1 : k = s'
    · subst h1
      simp only [if_true, fget]
      by_cases hk : k = s <;> simp [hk]
    · simp only [h1, if_false]
      by_cases h2 : s' < k
      · simp only [h2, if_true, fget]
      · simp only [h2, if_false, fget, ih]
        by_cases h3 : k = s
        · subst h3; simp [Ne.symm h1]
        · simp [h3]

theorem fiter_row (s : Nat) (ws : List (Nat × Bytes)) : ∀ (n : Nat) (f : FFile),
    fget s (fiter n f ws) = fget s f ∨ ∃ r, (s, r) ∈ ws ∧ fget s (fiter n f ws) = some r := by
  induction ws with
  | nil => intro n f; cases n <;> simp [fiter]
  | cons w ws ih =>
    intro n f
    obtain ⟨s', r⟩ := w
    cases n with
    | zero => simp [fiter]
    | succ n =>
      simp only [fiter]
      rcases ih n (fput s' r f) with h | ⟨r', hm, h⟩
      · by_cases hs : s' = s
        · subst hs; right
          refine ⟨r, by simp, ?_⟩
          rw [h, fget_fput]; simp
        · left; rw [h, fget_fput]; simp [hs]
      · right; exact ⟨r', by simp [hm], h⟩

/-- every row a reader returns — whatever the interleaving `b` of its slot reads with the record
    writes — was in the file initially or is the payload of ONE completed record write -/
theorem C18_fixed_read_committed (f0 : FFile) (ws : List (Nat × Bytes)) (b : Nat → Nat) (slots : List Nat) :
    ∀ row ∈ fquery f0 ws b slots, row.2 = fget row.1 f0 ∨ ∃ r, (row.1, r) ∈ ws ∧ row.2 = some r := by
  intro row hrow
  unfold fquery at hrow
  rw [List.mem_map] at hrow
  obtain ⟨s, _, rfl⟩ := hrow
  exact fiter_row s ws (b s) f0

/-- …and it is the value of that slot after some number of completed writes -/
theorem C18_fixed_snapshot_per_row (f0 : FFile) (ws : List (Nat × Bytes)) (b : Nat → Nat) (slots : List Nat) :
    ∀ row ∈ fquery f0 ws b slots, ∃ k, row.2 = fget row.1 (fiter k f0 ws) := by
  intro row hrow
  unfold fquery at hrow
  rw [List.mem_map] at hrow
  obtain ⟨s, _, rfl⟩ := hrow
  exact ⟨b s, rfl⟩

/-! ## tie: file operations of the two writers (regenerated skeletons) -/
section Skeleton
open Mkts.Extracted.Skel

/-- a fixed record is written by exactly one `WriteAt` -/
theorem C18_skel_fixed_one_pwrite :
    executor_WriteBufferToFile = ["call:buffer.Offset", "call:buffer.IndexAndPayload", "call:fp.WriteAt", "return"] := by
  decide

/-- variable records: read slot, read + decode old blob, continuation test, sort, encode,
    WRITE DATA, then seek back and WRITE SLOT -/
theorem C18_skel_indirect_order :
    executor_WriteBufferToFileIndirect.filter (fun a =>
        ["call:fp.Seek", "call:fp.Read", "call:fp.Write", "call:snappy.Decode", "call:snappy.Encode",
         "call:sort.Stable", "if:endOfCurrentBucketData == endOfFileOffset{",
         "if:currentRecInfo[0].Index != 0{"].contains a) =
      ["call:fp.Seek", "call:fp.Read", "if:currentRecInfo[0].Index != 0{", "call:fp.Seek", "call:fp.Read",
       "call:snappy.Decode", "call:fp.Seek", "if:endOfCurrentBucketData == endOfFileOffset{", "call:fp.Seek",
       "call:sort.Stable", "call:snappy.Encode", "call:fp.Write", "call:fp.Write", "call:fp.Seek", "call:fp.Write"] := by
  decide

end Skeleton

/-! ## lock-set facts (data-race part — NOT a statement about the executable model)

`locksetOk` over the regenerated access table.  The four variables named in DESIGN §6 C18 fail
(no lock at any access, reads and writes from different goroutines by reading the code);
`TransactionPipe.tgID` fails too: it is read plainly in `FlushCommandsToWAL` and accessed through
`sync/atomic` elsewhere.  `frontend.Queryable` (only `atomic.LoadUint32`) passes — the predicate is
not trivially false.  The race detector was used only to obtain witnesses (notes/C18.md). -/
section Lockset
open Mkts.Lockset Mkts.Extracted

theorem lockset_haveWALWriter :
    locksetOk accesses "executor.haveWALWriter" = false ∧
    who accesses "executor.haveWALWriter" =
      [("executor.WALFileType.SyncWAL", "w"), ("executor.WALFileType.SyncWAL", "w"),
       ("executor.WALFileType.RequestFlush", "r")] := by decide

/-- the catalog's maps (`Directory.datafile`, `Directory.subDirs`): outside the constructor `load`
    every WRITE happens with the directory's lock held in WRITE mode, or in `addSubdir`, whose only
    caller `AddTimeBucket` holds the root lock throughout (`C17_skel_AddTimeBucket_holds_root_lock`).
    A write moved under the read lock, or out of the lock, changes this table. -/
theorem lockset_catalog_writes :
    writesOutside accesses "catalog.Directory.datafile" ["catalog.load"] =
      [("catalog.Directory.AddFile", [("d", "W")])] ∧
    writesOutside accesses "catalog.Directory.subDirs" ["catalog.load"] =
      [("catalog.Directory.addSubdir", []), ("catalog.Directory.addSubdir", []),
       ("catalog.Directory.removeSubDir", [("d", "W")]), ("catalog.Directory.removeSubDir", [("d", "W")])] := by
  decide

/-- the functions that read those maps without a lexically held lock are exactly these (each is
    reached only under a caller's lock or on a private object); a reader that loses its `RLock`
    changes this table -/
theorem lockset_catalog_unlocked_readers :
    unlockedReaders accesses "catalog.Directory.datafile" ["catalog.load"] =
      ["catalog.Directory.GatherTimeBucketInfo", "catalog.Directory.PathToTimeBucketInfo",
       "catalog.Directory.AddFile", "catalog.catalogListFunc", "catalog.Directory.GatherFilePaths"] ∧
    unlockedReaders accesses "catalog.Directory.subDirs" ["catalog.load"] =
      ["catalog.catalogListFunc", "catalog.Directory.addSubdir"] := by
  decide

theorem lockset_shutdownPending :
    locksetOk accesses "executor.WALFileType.shutdownPending" = false ∧
    who accesses "executor.WALFileType.shutdownPending" =
      [("executor.WALFileType.SyncWAL", "r"), ("executor.WALFileType.Shutdown", "w")] := by decide

theorem lockset_tpd_m :
    locksetOk accesses "executor.TriggerPluginDispatcher.m" = false ∧
    ((who accesses "executor.TriggerPluginDispatcher.m").map Prod.fst).eraseDups =
      ["executor.TriggerPluginDispatcher.AppendRecord", "executor.TriggerPluginDispatcher.DispatchRecords"] := by
  decide

theorem lockset_StreamChannels :
    locksetOk accesses "replication.GRPCReplicationServer.StreamChannels" = false ∧
    who accesses "replication.GRPCReplicationServer.StreamChannels" =
      [("replication.GRPCReplicationServer.GetWALStream", "w"), ("replication.GRPCReplicationServer.GetWALStream", "w"),
       ("replication.GRPCReplicationServer.SendReplicationMessage", "r")] := by decide

theorem lockset_tgID_mixed :
    locksetOk accesses "executor.TransactionPipe.tgID" = false ∧
    who accesses "executor.TransactionPipe.tgID" =
      [("executor.TransactionPipe.IncrementTGID", "a"), ("executor.TransactionPipe.TGID", "a"),
       ("executor.WALFileType.FlushCommandsToWAL", "r")] := by decide

theorem lockset_Queryable_ok : locksetOk accesses "frontend.Queryable" = true := by decide

end Lockset

end Mkts.Props.C18
