import Mkts.Lemmas.Trigger
/-!
# C32 Every flushed write reaches matching triggers exactly once

Model: `Mkts/Model/Trigger.lean` (`AppendRecord`, `DispatchRecords`, `run`, `Matcher.Match`,
`Record.Index/Payload`, the trigger tail of `FlushCommandsToWAL`).

* `C32_single_flusher` (FULL for the single-flusher configuration): for every list of matchers and
  every history of flushed transaction groups, the multiset of `(trigger, key path, record)` handed
  to triggers equals `{(m, r) | r ∈ tg, match m (key r)}`; `C32_exactly_once`, `C32_only_matching`,
  `C32_any_map_order` (Go's random map iteration orders), `C32_record_index`, `C32_record_payload`.
* `code_anchored`: `Matcher.Match` of the current source anchors the pattern (regenerated skeleton);
  `match_spec`: `Match` = "some PREFIX of the key path is in the regular language of the translated
  pattern"; `match_comp_*`: what that means component-wise.
* Concurrent flushers: `C32_concurrent_full` is false - `C32_cex_lost`, `C32_cex_duplicate` give
  schedules of two flushers at the granularity of dispatcher-map operations; `C32_partial` is the
  statement for schedules of ONE flusher.
* `C32_anchored` (FULL since the repair of C32-F1): for `{*, literal}` patterns `Match` is exactly the
  documented component-wise reading from the start of the path (`compAnchored`), so a trigger sees only
  buckets its pattern names; `C32_only_named`.  `before_repair_unanchored` records what the unanchored
  search did.
-/
namespace Mkts.Props.C32
open Mkts.Trigger Mkts.Bytes List

/-! ## the glob translation -/

/-- `Matcher.Match` of the current source is the repaired one: `"^" + strings.Replace(...)`
    (skeleton regenerated from the repository; a revert makes this `decide` fail and the model follow) -/
theorem code_anchored : anchoredInCode = true := by decide

theorem match_eq (on key : Str) : «match» on key = matchHere (translate on) key := by
  simp [«match», matchWith, code_anchored]

/-- `Match` = "some prefix of the key path is in the language of the translated pattern" -/
theorem match_spec (on key : Str) :
    «match» on key = true ↔ PrefixMatches (translate on) key := by
  rw [match_eq]; exact matchHere_iff _ _

/-- the unanchored form (the source before the repair): "some substring is in the language" -/
theorem matchWith_unanchored_spec (on key : Str) :
    matchWith false on key = true ↔ Matches (translate on) key :=
  matchAny_iff _ _

/-- a pattern without `*` matches exactly the key paths containing it -/
theorem match_literal (w s : List Char) :
    Matches (w.map Tok.lit) s ↔ ∃ a b, s = a ++ w ++ b := by
  have hd : ∀ (w m : List Char), Denote (w.map Tok.lit) m ↔ m = w := by
    intro w
    induction w with
    | nil =>
      intro m
      constructor
      · intro h; cases h; rfl
      · rintro rfl; exact Denote.nil
    | cons c w ih =>
      intro m
      constructor
      · intro h
        cases h with
        | lit h' => rw [(ih _).mp h']
      · rintro rfl
        exact Denote.lit ((ih _).mpr rfl)
  constructor
  · rintro ⟨a, m, b, h, hden⟩
    exact ⟨a, b, by rw [h, (hd w m).mp hden]⟩
  · rintro ⟨a, b, h⟩
    exact ⟨a, w, b, h, (hd w w).mpr rfl⟩

/-- `*` alone: one or more characters other than `/`; it never crosses a path separator -/
theorem match_star (m : List Char) :
    Denote [Tok.plus] m ↔ m ≠ [] ∧ ∀ x ∈ m, x ≠ '/' := by
  constructor
  · intro h
    cases h with
    | plus hw hall hd =>
      cases hd
      simpa using ⟨hw, hall⟩
  · rintro ⟨h1, h2⟩
    have := Denote.plus (p := []) (s := []) h1 h2 Denote.nil
    simpa using this

/-- the language of a concatenation splits the text -/
theorem denote_append (p q : List Tok) (m : List Char) :
    Denote (p ++ q) m ↔ ∃ m1 m2, m = m1 ++ m2 ∧ Denote p m1 ∧ Denote q m2 := by
  induction p generalizing m with
  | nil =>
    constructor
    · intro h; exact ⟨[], m, rfl, Denote.nil, h⟩
    · rintro ⟨m1, m2, rfl, h1, h2⟩
      cases h1
      simpa using h2
  | cons t p ih =>
    constructor
    · intro h
      cases h with
      | lit h' =>
        obtain ⟨m1, m2, rfl, h1, h2⟩ := (ih _).mp h'
        exact ⟨_ :: m1, m2, rfl, Denote.lit h1, h2⟩
      | plus hw hall h' =>
        obtain ⟨m1, m2, rfl, h1, h2⟩ := (ih _).mp h'
        exact ⟨_ ++ m1, m2, by simp, Denote.plus hw hall h1, h2⟩
    · rintro ⟨m1, m2, rfl, h1, h2⟩
      cases h1 with
      | lit h1' => exact Denote.lit ((ih _).mpr ⟨_, m2, rfl, h1', h2⟩)
      | plus hw hall h1' =>
        rw [List.append_assoc]
        exact Denote.plus hw hall ((ih _).mpr ⟨_, m2, rfl, h1', h2⟩)

/-- component-wise: `c1/rest` matches `m` iff `m = m1/m2` with `c1` matching `m1` and `rest`
    matching `m2` (the separator is matched literally, once, in order) -/
theorem match_comp_split (c : Comp) (cs : List Comp) (hcs : cs ≠ []) (m : List Char) :
    Denote (patToks (c :: cs)) m ↔
      ∃ m1 m2, m = m1 ++ '/' :: m2 ∧ Denote c.toks m1 ∧ Denote (patToks cs) m2 := by
  cases cs with
  | nil => exact absurd rfl hcs
  | cons c2 cs =>
    simp only [patToks]
    rw [denote_append]
    constructor
    · rintro ⟨m1, m2, rfl, h1, h2⟩
      cases h2 with
      | lit h2' => exact ⟨m1, _, rfl, h1, h2'⟩
    · rintro ⟨m1, m2, rfl, h1, h2⟩
      exact ⟨m1, _, rfl, h1, Denote.lit h2⟩

/-- a `{*, literal-without-slash}` component only matches slash-free text: a pattern component can
    never spill over into the neighbouring path component -/
theorem match_comp_noslash (c : Comp) (hc : ∀ w, c = Comp.word w → ∀ x ∈ w, x ≠ '/') (m : List Char)
    (h : Denote c.toks m) : ∀ x ∈ m, x ≠ '/' := by
  cases c with
  | star => exact ((match_star m).mp h).2
  | word w =>
    have hw := hc w rfl
    have : ∀ (w m : List Char), Denote (w.map Tok.lit) m → m = w := by
      intro w
      induction w with
      | nil => intro m h; cases h; rfl
      | cons c w ih => intro m h; cases h with | lit h' => rw [ih _ h']
    rw [this w m h]
    exact hw

/-! ## single flusher -/

/-- one flush through an idle dispatcher delivers exactly the expected multiset, whatever order
    `files` the per-file map is walked in -/
theorem flush_delivers (ms : List Str) (c : List Wr) (cs : List Cmd) (files : RMap)
    (hf : files.Perm (groupByKey cs)) :
    ∃ wrs, flushFiles ⟨none, c⟩ files = ⟨none, c ++ wrs⟩ ∧
      (delivered (run ms wrs)).Perm (expectedOf ms cs) := by
  obtain ⟨m', h1, h2⟩ := flushFiles_idle c files
  refine ⟨toWrs m', h1, ?_⟩
  refine (delivered_run ms m').trans (expectedOf_perm ms ?_)
  refine h2.trans ?_
  exact (Perm.flatMap_right _ hf).trans (flat_groupByKey cs)

theorem run_append (ms : List Str) (a b : List Wr) : run ms (a ++ b) = run ms a ++ run ms b := by
  simp [run]

theorem delivered_append (a b : List Fired) : delivered (a ++ b) = delivered a ++ delivered b := by
  simp [delivered]

theorem history_aux (ms : List Str) (tgs : List (List Cmd)) : ∀ c : List Wr,
    ∃ wrs, tgs.foldl flushCommands ⟨none, c⟩ = ⟨none, c ++ wrs⟩ ∧
      (delivered (run ms wrs)).Perm (expectedOf ms tgs.flatten) := by
  induction tgs with
  | nil => intro c; exact ⟨[], by simp, by simp [run, delivered, expectedOf]⟩
  | cons tg tgs ih =>
    intro c
    obtain ⟨w1, h1, p1⟩ := flush_delivers ms c tg (groupByKey tg) (Perm.refl _)
    obtain ⟨w2, h2, p2⟩ := ih (c ++ w1)
    refine ⟨w1 ++ w2, ?_, ?_⟩
    · simp only [List.foldl_cons, flushCommands]
      rw [h1, h2, List.append_assoc]
    · rw [run_append, delivered_append, List.flatten_cons, expectedOf_append]
      exact p1.append p2

/-- **C32 (single flusher), full strength**: for every list of trigger patterns and every history of
    flushed transaction groups, what the triggers receive is, as a multiset of
    `(trigger position, key path, record)`, exactly every record of every flushed command paired
    with every trigger whose pattern matches the command's key path. -/
theorem C32_single_flusher (ms : List Str) (tgs : List (List Cmd)) :
    (delivered (runHistory ms tgs)).Perm (expected ms tgs) := by
  obtain ⟨wrs, h, p⟩ := history_aux ms tgs []
  have hc : (tgs.foldl flushCommands Tpd.init).c = wrs := by
    have : Tpd.init = ⟨none, []⟩ := rfl
    rw [this, h]; simp
  simp only [runHistory, hc]
  exact p

/-- each `(trigger, key, record)` is delivered exactly as often as it was written -/
theorem C32_exactly_once (ms : List Str) (tgs : List (List Cmd)) (x : Nat × Str × Bytes) :
    (delivered (runHistory ms tgs)).count x = (expected ms tgs).count x :=
  (C32_single_flusher ms tgs).count_eq x

/-- a trigger never sees a key its pattern does not match, and the call names the trigger at that
    position of the configuration -/
theorem C32_only_matching (ms : List Str) (tgs : List (List Cmd)) (f : Fired)
    (hf : f ∈ runHistory ms tgs) : ∃ on, ms[f.matcher]? = some on ∧ «match» on f.key = true := by
  simp only [runHistory, run, List.mem_flatMap, runOne, List.mem_map, List.mem_filter] at hf
  obtain ⟨wr, _, mi, ⟨hmi, hm⟩, rfl⟩ := hf
  refine ⟨mi.1, ?_, hm⟩
  have h3 := List.mem_zipIdx hmi
  have h4 := h3.2.2
  simp only [Nat.sub_zero] at h4
  rw [h4]
  simp

/-- Go walks `writesPerFile` in a random order: any order gives the same deliveries -/
theorem C32_any_map_order (ms : List Str) (cs : List Cmd) (files : RMap)
    (hf : files.Perm (groupByKey cs)) :
    (delivered (run ms (flushFiles Tpd.init files).c)).Perm (expected ms [cs]) := by
  obtain ⟨wrs, h, p⟩ := flush_delivers ms [] cs files hf
  have : Tpd.init = ⟨none, []⟩ := rfl
  rw [this, h]
  simpa [expected, expectedOf, matching] using p

/-- "with the written index": `Record.Index()` of `IndexAndPayload()` is the slot index -/
theorem C32_record_index (i : Int) (p : Bytes) (hlo : -9223372036854775808 ≤ i)
    (hhi : i < 9223372036854775808) : recIndex (mkRecord i p) = some i :=
  recIndex_mkRecord i p hlo hhi

/-- "and payload" -/
theorem C32_record_payload (i : Int) (p : Bytes) : recPayload (mkRecord i p) = some p :=
  recPayload_mkRecord i p

/-! ## concurrent flushers -/

/-- the full statement over schedules: however the atomic steps of several flushers interleave, once
    all have finished the channel holds exactly the expected deliveries -/
def C32_concurrent_full : Prop :=
  ∀ (ms : List Str) (flushers : List (List Cmd)) (sched : List Nat) (s : CState),
    runSchedule (CState.start flushers) sched = some s → s.finished = true →
    (delivered (run ms s.tpd.c)).Perm (expected ms flushers)

def k1 : Str := ['A','/','1','M','i','n','/','O','H','L','C','V','/','2','0','2','0','.','b','i','n']
def k2 : Str := ['B','/','1','M','i','n','/','O','H','L','C','V','/','2','0','2','0','.','b','i','n']
def cmdA : Cmd := ⟨k1, mkRecord 1 [1]⟩
def cmdB : Cmd := ⟨k2, mkRecord 2 [2]⟩

/-- lost dispatch: flusher 0 has sent its map and is about to reset it when flusher 1 appends; the
    reset wipes the new record and flusher 1 dispatches a nil map -/
theorem C32_cex_lost :
    ∃ s, runSchedule (CState.start [[cmdA], [cmdB]]) [0, 0, 1, 0, 1, 1] = some s ∧ s.finished = true ∧
      s.tpd.c = [⟨k1, [mkRecord 1 [1]]⟩] := by
  refine ⟨_, rfl, ?_, ?_⟩ <;> decide

/-- duplicated dispatch: both flushers range over the same map before either resets it -/
theorem C32_cex_duplicate :
    ∃ s, runSchedule (CState.start [[cmdA], []]) [0, 0, 1, 0, 1] = some s ∧ s.finished = true ∧
      s.tpd.c = [⟨k1, [mkRecord 1 [1]]⟩, ⟨k1, [mkRecord 1 [1]]⟩] := by
  refine ⟨_, rfl, ?_, ?_⟩ <;> decide

theorem C32_concurrent_not_full : ¬ C32_concurrent_full := by
  intro h
  obtain ⟨s, h1, h2, h3⟩ := C32_cex_duplicate
  have hp := h [] [[cmdA], []] _ s h1 h2
  -- with no matcher nothing is delivered: use a matcher-free counting argument on the channel instead
  have hp2 := h [['A']] [[cmdA], []] _ s h1 h2
  have hl := hp2.length_eq
  rw [h3] at hl
  revert hl
  decide

/-- the schedule of a single flusher: its steps in program order -/
def soloSchedule (cs : List Cmd) : List Nat := List.replicate (cs.length + 2) 0

theorem solo_run (cs : List Cmd) : ∀ t : Tpd,
    runSchedule ⟨t, [PC.appending cs]⟩ (List.replicate (cs.length + 2) 0) =
      some ⟨dispatchRecords (cs.foldl (fun t c => appendRecord t c.key c.record) t), [PC.done]⟩ := by
  induction cs with
  | nil => intro t; simp [runSchedule, cstep, List.replicate, dispatchRecords]
  | cons c cs ih =>
    intro t
    simp only [List.length_cons, List.foldl_cons]
    rw [show cs.length + 1 + 2 = (cs.length + 2) + 1 from rfl, List.replicate_succ]
    simp only [runSchedule, cstep, List.getElem?_cons_zero, List.set_cons_zero]
    exact ih _

/-- **C32_partial** (one flusher, the production configuration with the background WAL writer):
    the schedule is forced, and the result is the expected multiset -/
theorem C32_partial (ms : List Str) (cs : List Cmd) :
    ∃ s, runSchedule (CState.start [cs]) (soloSchedule cs) = some s ∧ s.finished = true ∧
      (delivered (run ms s.tpd.c)).Perm (expected ms [cs]) := by
  refine ⟨_, solo_run cs Tpd.init, by simp [CState.finished], ?_⟩
  -- appending command by command = appending file by file for the single-file-order `[each cmd]`
  have hm : ∀ (cs : List Cmd) (t : Tpd),
      ((cs.foldl (fun t c => appendRecord t c.key c.record) t).m.getD []
        = cs.foldl (fun m c => m.append c.key c.record) (t.m.getD []))
      ∧ (cs.foldl (fun t c => appendRecord t c.key c.record) t).c = t.c := by
    intro cs
    induction cs with
    | nil => intro t; simp
    | cons c cs ih =>
      intro t
      simp only [List.foldl_cons]
      have := ih (appendRecord t c.key c.record)
      simpa [appendRecord] using this
  have h := hm cs Tpd.init
  have e : (dispatchRecords (cs.foldl (fun t c => appendRecord t c.key c.record) Tpd.init)).c
      = toWrs (cs.foldl (fun m c => m.append c.key c.record) []) := by
    simp only [dispatchRecords, h.1, h.2, toWrs]
    simp [Tpd.init]
  show (delivered (run ms (dispatchRecords (cs.foldl (fun t c => appendRecord t c.key c.record) Tpd.init)).c)).Perm _
  rw [e]
  have := delivered_run ms (cs.foldl (fun m c => m.append c.key c.record) [])
  refine (this.trans (expectedOf_perm ms (flat_groupByKey cs))).trans ?_
  simp [expected, expectedOf, matching]

/-! ## anchoring (finding C32-F1, repaired: `Match` anchors the pattern at the start of the path) -/

/-- BEFORE THE REPAIR (`matchWith false`, the unanchored search): trigger `A/1Min/OHLCV` was also called
    for bucket `AA/1Min/OHLCV`, which the component-wise reading from the start of the path excludes -/
theorem before_repair_unanchored :
    matchAny (patToks [.word ['A'], .word ['1','M','i','n'], .word ['O','H','L','C','V']])
      (joinSlash [['A','A'], ['1','M','i','n'], ['O','H','L','C','V'], ['2','0','2','0','.','b','i','n']]) = true ∧
    compAnchored [.word ['A'], .word ['1','M','i','n'], .word ['O','H','L','C','V']]
      [['A','A'], ['1','M','i','n'], ['O','H','L','C','V'], ['2','0','2','0','.','b','i','n']] = false := by
  decide

theorem word_denote (w : List Char) : Denote (w.map Tok.lit) w := by
  induction w with
  | nil => exact Denote.nil
  | cons c w ih => exact Denote.lit ih

theorem full_denote (c : Comp) (k : List Char) (hk : ∀ x ∈ k, x ≠ '/') (h : c.full k = true) :
    Denote c.toks k := by
  cases c with
  | star =>
    simp only [Comp.full, Bool.not_eq_true', List.isEmpty_eq_false_iff] at h
    exact (match_star k).mpr ⟨h, hk⟩
  | word w =>
    simp only [Comp.full, beq_iff_eq] at h
    subst h
    exact word_denote _

theorem prefix_denote (c : Comp) (k : List Char) (hk : ∀ x ∈ k, x ≠ '/') (h : c.prefixOK k = true) :
    ∃ m b, k = m ++ b ∧ Denote c.toks m := by
  cases c with
  | star => exact ⟨k, [], by simp, full_denote .star k hk (by simpa [Comp.full, Comp.prefixOK] using h)⟩
  | word w =>
    have hp : w <+: k := List.isPrefixOf_iff_prefix.mp h
    obtain ⟨b, rfl⟩ := hp
    exact ⟨w, b, rfl, word_denote w⟩

theorem anchored_here : ∀ (pcs : List Comp) (kcs : List (List Char)), pcs ≠ [] →
    (∀ k ∈ kcs, ∀ x ∈ k, x ≠ '/') → compRest pcs kcs = true →
    ∃ m b, joinSlash kcs = m ++ b ∧ Denote (patToks pcs) m
  | [], _, h, _, _ => absurd rfl h
  | [_], [], _, _, h => by simp [compRest] at h
  | [c], k :: ks, _, hk, h => by
    simp only [compRest] at h
    obtain ⟨m, b, hkm, hd⟩ := prefix_denote c k (hk k (by simp)) h
    cases ks with
    | nil => exact ⟨m, b, by simp [joinSlash, hkm], by simpa [patToks] using hd⟩
    | cons k2 ks =>
      exact ⟨m, b ++ '/' :: joinSlash (k2 :: ks), by simp [joinSlash, hkm], by simpa [patToks] using hd⟩
  | _ :: _ :: _, [], _, _, h => by simp [compRest] at h
  | c :: c2 :: cs, k :: ks, _, hk, h => by
    simp only [compRest, Bool.and_eq_true] at h
    have hd1 := full_denote c k (hk k (by simp)) h.1
    obtain ⟨m2, b, hj, hd2⟩ := anchored_here (c2 :: cs) ks (by simp)
      (fun k' hk' => hk k' (List.mem_cons_of_mem _ hk')) h.2
    cases ks with
    | nil => cases cs <;> simp [compRest] at h
    | cons k2 ks' =>
      refine ⟨k ++ '/' :: m2, b, ?_, ?_⟩
      · simp only [joinSlash] at hj ⊢
        simp [hj]
      · exact (match_comp_split c (c2 :: cs) (by simp) _).mpr ⟨k, m2, rfl, hd1, hd2⟩

theorem denote_word_eq : ∀ (w m : List Char), Denote (w.map Tok.lit) m → m = w := by
  intro w
  induction w with
  | nil => intro m h; cases h; rfl
  | cons c w ih => intro m h; cases h with | lit h' => rw [ih _ h']

/-- a slash-free text that is a prefix of `k/…` is a prefix of `k` -/
theorem noslash_prefix : ∀ (m k b r : List Char), (∀ x ∈ m, x ≠ '/') → m ++ b = k ++ '/' :: r →
    ∃ z, k = m ++ z := by
  intro m
  induction m with
  | nil => intro k b r _ _; exact ⟨k, rfl⟩
  | cons x m ih =>
    intro k b r hm h
    cases k with
    | nil =>
      simp only [List.cons_append, List.nil_append, List.cons.injEq] at h
      exact absurd h.1 (hm x (by simp))
    | cons y k =>
      simp only [List.cons_append, List.cons.injEq] at h
      obtain ⟨z, hz⟩ := ih k b r (fun c hc => hm c (List.mem_cons_of_mem _ hc)) h.2
      exact ⟨z, by rw [h.1, hz]; rfl⟩

/-- the first `/` of a path is where its first component ends -/
theorem slash_split_unique : ∀ (k m1 r1 r2 : List Char), (∀ x ∈ k, x ≠ '/') → (∀ x ∈ m1, x ≠ '/') →
    k ++ '/' :: r1 = m1 ++ '/' :: r2 → k = m1 ∧ r1 = r2 := by
  intro k
  induction k with
  | nil =>
    intro m1 r1 r2 _ hm h
    cases m1 with
    | nil => simpa using h
    | cons x m1 =>
      simp only [List.nil_append, List.cons_append, List.cons.injEq] at h
      exact absurd h.1.symm (hm x (by simp))
  | cons y k ih =>
    intro m1 r1 r2 hk hm h
    cases m1 with
    | nil =>
      simp only [List.nil_append, List.cons_append, List.cons.injEq] at h
      exact absurd h.1 (hk y (by simp))
    | cons x m1 =>
      simp only [List.cons_append, List.cons.injEq] at h
      obtain ⟨h1, h2⟩ := ih m1 r1 r2 (fun c hc => hk c (List.mem_cons_of_mem _ hc))
        (fun c hc => hm c (List.mem_cons_of_mem _ hc)) h.2
      exact ⟨by rw [h.1, h1], h2⟩

/-- a prefix of the key path in the language of the pattern lays the pattern's components over the
    key's components from the first one -/
theorem here_anchored : ∀ (pcs : List Comp) (kcs : List (List Char)) (m b : List Char), pcs ≠ [] → kcs ≠ [] →
    (∀ c ∈ pcs, ∀ w, c = Comp.word w → ∀ x ∈ w, x ≠ '/') → (∀ k ∈ kcs, ∀ x ∈ k, x ≠ '/') →
    joinSlash kcs = m ++ b → Denote (patToks pcs) m → compRest pcs kcs = true
  | [], _, _, _, h, _, _, _, _, _ => absurd rfl h
  | _ :: _, [], _, _, _, h, _, _, _, _ => absurd rfl h
  | [c], k :: ks, m, b, _, _, hp, hk, hj, hd => by
    have hdc : Denote c.toks m := by simpa [patToks] using hd
    have hm := match_comp_noslash c (hp c (by simp)) m hdc
    have hz : ∃ z, k = m ++ z := by
      cases ks with
      | nil => exact ⟨b, by simpa [joinSlash] using hj⟩
      | cons k2 ks' =>
        simp only [joinSlash] at hj
        exact noslash_prefix m k b _ hm hj.symm
    obtain ⟨z, rfl⟩ := hz
    simp only [compRest]
    cases c with
    | star =>
      have := (match_star m).mp hdc
      cases m with
      | nil => exact absurd rfl this.1
      | cons x m => simp [Comp.prefixOK]
    | word w =>
      have := denote_word_eq w m hdc
      subst this
      simp [Comp.prefixOK]
  | c :: c2 :: cs, k :: ks, m, b, _, _, hp, hk, hj, hd => by
    obtain ⟨m1, m2, rfl, hd1, hd2⟩ := (match_comp_split c (c2 :: cs) (by simp) m).mp hd
    have hm1 := match_comp_noslash c (hp c (by simp)) m1 hd1
    cases ks with
    | nil =>
      simp only [joinSlash] at hj
      have hin : '/' ∈ k := by rw [hj]; simp
      exact absurd rfl (hk k (by simp) '/' hin)
    | cons k2 ks' =>
      simp only [joinSlash] at hj
      have hj' : k ++ '/' :: joinSlash (k2 :: ks') = m1 ++ '/' :: (m2 ++ b) := by
        rw [hj]; simp
      obtain ⟨hkm, hrest⟩ := slash_split_unique k m1 _ _ (hk k (by simp)) hm1 hj'
      subst hkm
      have ih := here_anchored (c2 :: cs) (k2 :: ks') m2 b (by simp) (by simp)
        (fun c' hc' => hp c' (List.mem_cons_of_mem _ hc'))
        (fun k' hk' => hk k' (List.mem_cons_of_mem _ hk')) hrest hd2
      have hfull : c.full k = true := by
        cases c with
        | star =>
          have := (match_star k).mp hd1
          cases k with
          | nil => exact absurd rfl this.1
          | cons x k => simp [Comp.full]
        | word w =>
          have := denote_word_eq w k hd1
          subst this
          simp [Comp.full]
      simp only [compRest, hfull, ih, Bool.and_self]

/-- **C32_anchored** (full since the repair): for a pattern of `{*, literal}` components and a key path
    of slash-free components, the anchored match of the repaired `Match` IS the documented reading:
    the pattern's components laid over the key's components from the START of the path, each in full,
    the last one as a prefix.  (Before the repair only `←` held: `before_repair_unanchored`.) -/
theorem C32_anchored (pcs : List Comp) (kcs : List (List Char)) (hp : pcs ≠ []) (hk0 : kcs ≠ [])
    (hw : ∀ c ∈ pcs, ∀ w, c = Comp.word w → ∀ x ∈ w, x ≠ '/')
    (hk : ∀ k ∈ kcs, ∀ x ∈ k, x ≠ '/') :
    matchHere (patToks pcs) (joinSlash kcs) = true ↔ compAnchored pcs kcs = true := by
  rw [matchHere_iff]
  constructor
  · rintro ⟨m, b, hj, hd⟩
    exact here_anchored pcs kcs m b hp hk0 hw hk hj hd
  · intro h
    exact anchored_here pcs kcs hp hk h

/-- a trigger whose `{*, literal}` pattern does not name the bucket from the start of the path is not
    called: e.g. `A/1Min/OHLCV` is no longer called for `AA/1Min/OHLCV` -/
theorem C32_only_named :
    matchHere (patToks [.word ['A'], .word ['1','M','i','n'], .word ['O','H','L','C','V']])
      (joinSlash [['A','A'], ['1','M','i','n'], ['O','H','L','C','V'], ['2','0','2','0','.','b','i','n']]) = false := by
  decide

/-! ## non-vacuity -/

def pAll : Str := ['*','/','1','M','i','n','/','O','H','L','C','V']
def pB : Str := ['B','/','*','/','*']
example : «match» pAll k1 = true := by decide
example : «match» pB k1 = false := by decide
example : (expected [pAll, pB] [[cmdA, cmdB]]).length = 3 := by decide
example : delivered (runHistory [pAll, pB] [[cmdA, cmdB], [cmdA]]) =
    [(0, k1, mkRecord 1 [1]), (0, k2, mkRecord 2 [2]), (1, k2, mkRecord 2 [2]), (0, k1, mkRecord 1 [1])] := by decide

/-- The dispatcher of the current source (regenerated skeletons): `run` starts ONE goroutine per
    (written file, matching trigger) pair, and `fire` recovers a panicking plugin inside that
    goroutine — so a plugin that panics cannot keep the other matching triggers from receiving the
    records (the model's `run` delivers to every matching trigger independently). -/
theorem skel_dispatcher_isolates_triggers :
    Mkts.Extracted.Skel.executor_TriggerPluginDispatcher_run =
      ["defer{", "func{", "send:tpd.done", "}", "call:(func() literal)", "}",
       "range:tpd.c{", "range:tpd.triggerMatchers{", "call:tmatcher.Match", "if:tmatcher.Match(wr.key){",
       "call:tpd.triggerWg.Add", "go{", "call:tpd.fire", "}", "}", "}", "}"] ∧
    Mkts.Extracted.Skel.executor_TriggerPluginDispatcher_fire =
      ["defer{", "func{", "call:tpd.triggerWg.Done", "if:r != nil{", "call:debug.Stack", "call:log.Error",
       "}", "}", "call:(func() literal)", "}", "call:trig.Fire"] ∧
    Mkts.Extracted.Skel.executor_TriggerPluginDispatcher_AppendRecord =
      ["if:tpd.m == nil{", "set:tpd.m", "}", "setidx:tpd.m"] ∧
    Mkts.Extracted.Skel.executor_TriggerPluginDispatcher_DispatchRecords =
      ["range:tpd.m{", "send:tpd.c", "}", "set:tpd.m"] := by decide

end Mkts.Props.C32
