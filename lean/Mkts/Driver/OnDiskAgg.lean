import Mkts.Proto
import Mkts.Model.OnDiskAgg
import Mkts.Model.OnDiskAggTie
import Mkts.Model.Trigger
import Mkts.Driver.Store
/-!
Driver for the `oda` op (C24): `oda <dest1,dest2,…|-> <step> <step> …` – `store` steps against one
server instance with the on-disk aggregation trigger on `*/1Min/OHLCV`; after every step the
destination buckets of the step's symbol are read back (see go/harness/ondiskagg_ops.go).
-/
namespace Mkts.Driver.OnDiskAgg
open Mkts.Proto Mkts.OnDiskAgg Mkts.Store Mkts.Bytes Mkts.Time Mkts.Timeframe

def cols : List Store.Col :=
  [⟨"Open", "float32"⟩, ⟨"High", "float32"⟩, ⟨"Low", "float32"⟩, ⟨"Close", "float32"⟩, ⟨"Volume", "int32"⟩]

def trigPattern : List Char := "*/1Min/OHLCV".toList

/-- render one destination bucket the way the `Q` step of the store driver does -/
def renderDest (sym : String) (dn : String) (slots : Option Slots) : String :=
  match Store.parseTf dn with
  | none => "Q=err:timeframe"
  | some tf =>
    let key := s!"{sym}/{dn}/OHLCV"
    let bs : List Store.Bucket := match slots with
      | some s => [{ key := key, tf := tf, isVar := false, cols := cols, slots := s }]
      | none => []
    match Store.step bs s!"Q:{key}:-:-:-:-:-:-:-" with
    | some (_, r, _, _) => r
    | none => "Q=unsupported"

def slotsOfBars (tf : Int) (rows : CS) : Slots :=
  applyCmds [] (writeRecords tf (rows.map (fun b => ⟨b.t, payloadOfBar b⟩)))

structure SymSt where
  sym : String
  st : St

structure Acc where
  bs : List Store.Bucket
  syms : List SymSt
  outM : List String
  outS : List String
  inDomain : Bool

def getSym (l : List SymSt) (s : String) : St :=
  match l.find? (fun e => e.sym == s) with
  | some e => e.st
  | none => St.init

def putSym (l : List SymSt) (s : String) (st : St) : List SymSt :=
  if l.any (fun e => e.sym == s) then l.map (fun e => if e.sym == s then ⟨s, st⟩ else e) else l ++ [⟨s, st⟩]

def stepSym (st : String) : String :=
  match st.splitOn ":" with
  | _ :: key :: _ => (key.splitOn "/").headD "T"
  | _ => "T"

def distinctNames (dests : List Dest) : List String := (dests.map (fun d => String.ofList d.str)).eraseDups

def runOda (dests : List Dest) : Acc → List String → Option Acc
  | a, [] => some a
  | a, stp :: rest =>
    match Store.step a.bs stp with
    | none => none
    | some (bs', r, _, _) =>
      let sym := stepSym stp
      let st0 := getSym a.syms sym
      -- does the flush reach the trigger?  (`*/1Min/OHLCV` searched in `<key>/<year>.bin`)
      let fires : Option (List Row) := match stp.splitOn ":" with
        | ["W", key, _, _, rows] =>
          if r == "W=ok" && Mkts.Trigger.«match» trigPattern (key ++ "/2020.bin").toList then
            (Store.parseRows rows).map (fun rws => rws.map (fun x => (⟨x.1, x.2.2⟩ : Row)))
          else none
        | _ => none
      -- the model follows the source: `codeVariant` is read off the regenerated skeletons
      let st1 := match fires with
        | some req => stepWrite codeVariant dests st0 req
        | none => st0
      let names := distinctNames dests
      let m := names.map (fun dn =>
        renderDest sym dn ((st1.dest.find? (fun (e : Str × Slots) => String.ofList e.1 == dn)).map (fun e => e.2)))
      let base := baseBars st1
      let s := dests.foldl (fun (acc : List (String × String)) (d : Dest) =>
        let dn := String.ofList d.str
        if acc.any (fun e => e.1 == dn) then acc else
        let rows := match candleDurationFromString d.str with
          | some cd => specAgg cd base
          | none => []
        acc ++ [(dn, renderDest sym dn (if rows.isEmpty then none else some (slotsOfBars d.duration rows)))]) []
      let dom := barsInDomain dests base
      runOda dests
        ⟨bs', putSym a.syms sym st1, a.outM ++ [r ++ "{" ++ "|".intercalate m ++ "}"],
         a.outS ++ [r ++ "{" ++ "|".intercalate (s.map (·.2)) ++ "}"], a.inDomain && dom⟩ rest

def odaOp : Op := fun args =>
  match args with
  | [] => badArgs
  | ds :: steps =>
    let names := if ds == "-" then [] else ds.splitOn ","
    match newTrigger (names.map String.toList) with
    | none => "M:err:newtrigger"
    | some dests =>
      match runOda dests ⟨[], [], [], [], true⟩ steps with
      | none => "M:unsupported"
      | some a =>
        let m := " ".intercalate a.outM
        if a.inDomain then
          s!"M:{m}\tS:{" ".intercalate a.outS}"
        else s!"M:{m}"

def ops : OpTable := [("oda", odaOp)]

end Mkts.Driver.OnDiskAgg
