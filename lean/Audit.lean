import Lean
/-!
`lake env lean --run Audit.lean <Module>` prints one line
`THEOREM <name> <axiom> <axiom> ...` for every theorem declared in `<Module>`.
Read by ./check; only propext / Classical.choice / Quot.sound are accepted.
-/
open Lean

def main (args : List String) : IO UInt32 := do
  let some modStr := args.head? | do IO.eprintln "usage: Audit.lean <Module>"; return 2
  let modName := modStr.toName
  initSearchPath (← findSysroot)
  let env ← importModules #[{ module := modName }] {} (trustLevel := 1024)
  let some idx := env.getModuleIdx? modName | do IO.eprintln "module not found"; return 2
  let mut names : Array Name := #[]
  for (n, ci) in env.constants.toList do
    if env.getModuleIdxFor? n == some idx then
      match ci with
      | .thmInfo _ => if !n.isInternal && modName.isPrefixOf n then names := names.push n
      | _ => pure ()
  let sorted := names.qsort (fun a b => a.toString < b.toString)
  for n in sorted do
    let (axs, _) ← ((collectAxioms n : CoreM (Array Name)).toIO
      { fileName := "<audit>", fileMap := default } { env := env })
    let axs := axs.qsort (fun a b => a.toString < b.toString)
    IO.println s!"THEOREM {n} {" ".intercalate (axs.toList.map toString)}"
  return 0
