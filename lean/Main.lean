import Mkts.Driver.All
/-!
`mktsdrv`: reads one operation per line on stdin, writes one canonical result line per
operation on stdout.  Core Lean only (no Mathlib) so that it links as an executable.
-/
open Mkts

def dispatch (line : String) : String :=
  match (line.splitOn " ") with
  | [] => "bad-op"
  | op :: args =>
    match Driver.allOps.lookup op with
    | some f => f args
    | none => "unknown-op " ++ op

partial def loop (h : IO.FS.Stream) (out : IO.FS.Stream) : IO Unit := do
  let line ← h.getLine
  if line.isEmpty then return ()
  let l := line.trimAsciiEnd.toString
  if l.isEmpty || l.startsWith "#" then
    out.putStrLn l
  else
    out.putStrLn (dispatch l)
  loop h out

def main : IO Unit := do
  let out ← IO.getStdout
  loop (← IO.getStdin) out
  out.flush
