import Mkts.Proto
import Mkts.Model.Sql
import Mkts.Driver.Store
/-!
Driver for the `sqlstore` op (C19, C20): the steps of the `store` op plus

  X:<sql text hex>:<structured statement>

Structured statement (fields separated by `|`):
  S|<items>|<table>|<conj>|<limit>                       SELECT
  N|<target>|<aliases>|<items>|<table>|<conj>|<limit>    INSERT INTO target [(aliases)] SELECT …
  items  = `*` or `name[~alias]` joined by `,`
  conj   = `-` or conjuncts joined by `&`: `col,op,lit` (op ∈ eq lt le gt ge) or `col,bt,lit,lit`
  lit    = `i<digits>` integer, `d<digits.digits>` decimal, `s<hex of the string's content>`
  limit  = `-` (no LIMIT clause) or digits;   aliases = `-` or names joined by `,`

The model never sees the SQL text, the implementation never sees the structured form; the driver
prints the structured form with `renderSql` and answers `M:sqltext-mismatch` unless the result is
byte-identical to the text the implementation parsed.
-/
namespace Mkts.Driver.Sql
open Mkts.Proto Mkts.Store Mkts.Time Mkts.Bytes Mkts.Sql
open Mkts.Driver.Store (Bucket SpecBucket Col)

/-! ### literals -/

/-- a literal as written in the statement -/
inductive RawLit where
  | int (n : Nat)
  | dec (text : String)
  | str (s : String)
deriving Repr

def allDigits (cs : List Char) : Bool := !cs.isEmpty && cs.all Char.isDigit

def natOfDigits (cs : List Char) : Nat := cs.foldl (fun a c => a * 10 + (c.toNat - '0'.toNat)) 0

def daysInMonth (y m : Int) : Int :=
  if m == 2 then (if isLeap y then 29 else 28)
  else if m == 4 || m == 6 || m == 9 || m == 11 then 30 else 31

def daysBeforeMonth (y m : Int) : Int :=
  ((List.range (m.toNat - 1)).map (fun (i : Nat) => daysInMonth y ((i : Int) + 1))).foldl (· + ·) 0

/-- `CoerceToNumeric` of a string literal: `time.Parse` with the layouts
    `2006-01-02-15:04:05.00000000`, (`… MST`: not modelled), `2006-01-02-15:04:05`,
    `2006-01-02-15:04`, `2006-01-02`, then `UnixNano`.  `none` = "unable to convert string to date". -/
def coerceDate (s : String) : Option Int :=
  let cs := s.toList
  let num (a b : Nat) : Option Int :=
    let d := (cs.drop a).take (b - a)
    if d.length == b - a && allDigits d then some (natOfDigits d : Int) else none
  let sep (i : Nat) (c : Char) : Bool := cs[i]? == some c
  let n := cs.length
  if !(n == 10 || n == 16 || n == 19 || n == 28) then none else
  if !(sep 4 '-' && sep 7 '-') then none else
  if n ≥ 16 && !(sep 10 '-' && sep 13 ':') then none else
  if n ≥ 19 && !(sep 16 ':') then none else
  if n == 28 && !(sep 19 '.') then none else do
  let y ← num 0 4
  let mo ← num 5 7
  let d ← num 8 10
  let h ← if n ≥ 16 then num 11 13 else some 0
  let mi ← if n ≥ 16 then num 14 16 else some 0
  let sc ← if n ≥ 19 then num 17 19 else some 0
  let fr ← if n == 28 then num 20 28 else some 0
  if mo < 1 || mo > 12 || d < 1 || d > daysInMonth y mo || h > 23 || mi > 59 || sc > 59 then none else
  let days := jan1 y + daysBeforeMonth y mo + (d - 1)
  some ((days * 86400 + h * 3600 + mi * 60 + sc) * 1000000000 + fr * 10)

/-- `strconv.ParseFloat` of `digits.digits` (correctly rounded) -/
def parseDecimal (t : String) : Option Nat :=
  match t.splitOn "." with
  | [a, b] =>
    let ca := a.toList; let cb := b.toList
    if allDigits ca && allDigits cb then
      some (Float.ofRat Float.b64 false (natOfDigits (ca ++ cb)) (10 ^ cb.length))
    else none
  | _ => none

def hexToString (h : String) : Option String := (hexToBytes h).bind (fun b => String.fromUTF8? ⟨b.toArray⟩)

def parseRawLit (s : String) : Option RawLit :=
  match s.toList with
  | 'i' :: r => if allDigits r then some (.int (natOfDigits r)) else none
  | 'd' :: r => some (.dec (String.ofList r))
  | 's' :: r => (hexToString (String.ofList r)).map .str
  | _ => none

def RawLit.render : RawLit → String
  | .int n => toString n
  | .dec t => t
  | .str s => "'" ++ s ++ "'"

inductive LitErr where | date | unsupported

/-- the `Literal` after the visitor's `CoerceToNumeric` -/
def RawLit.coerce : RawLit → Except LitErr Lit
  | .int n => .ok (.int n)
  | .dec t => match parseDecimal t with | some b => .ok (.flt b) | none => .error .unsupported
  | .str s => match coerceDate s with | some v => .ok (.int v) | none => .error .date

/-! ### statements -/

inductive RawConj where
  | cmp (col : String) (op : CmpOp) (l : RawLit)
  | between (col : String) (lo hi : RawLit)

def parseOp (s : String) : Option CmpOp :=
  match s with
  | "eq" => some .eq | "lt" => some .lt | "le" => some .le | "gt" => some .gt | "ge" => some .ge | _ => none

def CmpOp.render : CmpOp → String
  | .eq => "=" | .lt => "<" | .le => "<=" | .gt => ">" | .ge => ">="

def parseConj (s : String) : Option RawConj :=
  match s.splitOn "," with
  | [c, "bt", a, b] => do pure (.between c (← parseRawLit a) (← parseRawLit b))
  | [c, op, l] => do pure (.cmp c (← parseOp op) (← parseRawLit l))
  | _ => none

def RawConj.render : RawConj → String
  | .cmp c op l => s!"{c} {CmpOp.render op} {l.render}"
  | .between c a b => s!"{c} BETWEEN {a.render} AND {b.render}"

structure RawSelect where
  star : Bool
  items : List Item
  table : String
  conj : List RawConj
  limit : Option Nat

def parseItems (s : String) : Option (Bool × List Item) :=
  if s == "*" then some (true, []) else
  ((s.splitOn ",").mapM (fun (p : String) => match p.splitOn "~" with
    | [n] => some (⟨n, none⟩ : Item)
    | [n, a] => some ⟨n, some a⟩
    | _ => none)).map (fun l => (false, l))

def parseSelect (items table conj limit : String) : Option RawSelect := do
  let (star, its) ← parseItems items
  let cj ← if conj == "-" then some [] else (conj.splitOn "&").mapM parseConj
  let lim ← if limit == "-" then some none else (parseNat limit).map some
  pure ⟨star, its, table, cj, lim⟩

def RawSelect.render (s : RawSelect) : String :=
  let its := if s.star then "*" else ", ".intercalate (s.items.map (fun it =>
    match it.alias with | none => it.name | some a => s!"{it.name} AS {a}"))
  let wh := if s.conj.isEmpty then "" else " WHERE " ++ " AND ".intercalate (s.conj.map RawConj.render)
  let lm := match s.limit with | none => "" | some n => s!" LIMIT {n}"
  s!"SELECT {its} FROM `{s.table}`{wh}{lm}"

inductive RawStmt where
  | select (s : RawSelect)
  | insert (target : String) (aliases : Option (List String)) (s : RawSelect)

def parseStmt (s : String) : Option RawStmt :=
  match s.splitOn "|" with
  | ["S", items, table, conj, limit] => (parseSelect items table conj limit).map .select
  | ["N", target, aliases, items, table, conj, limit] => do
    let sel ← parseSelect items table conj limit
    pure (.insert target (if aliases == "-" then none else some (aliases.splitOn ",")) sel)
  | _ => none

def RawStmt.render : RawStmt → String
  | .select s => s.render ++ ";"
  | .insert t al s =>
    let a := match al with | none => "" | some l => " (" ++ ", ".intercalate l ++ ")"
    s!"INSERT INTO `{t}`{a} {s.render};"

def coerceConj : RawConj → Except LitErr Conj
  | .cmp c op l => do pure (.cmp c op (← l.coerce))
  | .between c a b => do pure (.between c (← a.coerce) (← b.coerce))

def RawSelect.coerce (s : RawSelect) : Except LitErr Select := do
  let cj ← s.conj.mapM coerceConj
  pure ⟨s.star, s.items, s.table, cj, s.limit.getD 0, s.limit.isSome⟩

/-! ### tables -/

def colTy (ty : String) : Option ColTy :=
  match ty with
  | "int32" => some .i32 | "int64" => some .i64 | "float32" => some .f32 | "float64" => some .f64
  | "byte" => some (.other 1 true) | "int16" => some (.other 2 true)
  | "uint8" => some (.other 1 false) | "uint16" => some (.other 2 false)
  | "uint32" => some (.other 4 false) | "uint64" => some (.other 8 false)
  | _ => none

def colDefs (cs : List Col) : Option (List ColDef) := cs.mapM (fun c => (colTy c.ty).map (fun t => ⟨c.name, t⟩))

def tableOf (b : Bucket) : Option Table :=
  if b.isVar then none else (colDefs b.cols).map (fun cd => ⟨b.key, b.tf, cd, b.slots⟩)

def renderCS (cs : CS) : String :=
  let n := cs.len
  if n == 0 then "0[]" else
  let cols := cs.names.map (fun nm => (cs.get nm).getD [])
  s!"{n}[{",".intercalate cs.names}]" ++ "+".intercalate ((List.range n).map (fun i =>
    ",".intercalate (cols.map (fun c => bytesToHex (c.getD i [])))))

def errStr : Err → String
  | .nokey => "err:nokey" | .colnotfound => "err:colnotfound" | .rename => "err:rename"
  | .insertcols => "err:insertcols" | .colmismatch => "err:colmismatch" | .unsupported => "err:unsupported"

/-! ### hypotheses of the `_partial` theorems that are false for a statement -/

/-- the code compares an integer column with `GetValueAsInt64(literal)`: exact unless the literal is
    a decimal with a fractional part (or outside int64) -/
def litExactInt (l : Lit) : Bool :=
  match l with
  | .int _ => true
  | .flt b => satIntLit .eq (f64ToI64 b) l == some true

def conjLits : Conj → List (CmpOp × Lit)
  | .cmp _ op l => [(op, l)]
  | .between _ a b => [(.gt, a), (.lt, b)]

/-- `literal_fits_column` (known finding C19-F6): a decimal literal with a fractional part on an
    integer column.  Every other former tag belonged to a repaired finding and is gone. -/
def failedHyps (t : Option Table) (s : Select) : List String :=
  match t with
  | none => []
  | some t =>
    let tys := s.conj.filterMap (fun c => (t.cols.find? (fun d => d.name == c.col)).map (fun d => (d.ty, c)))
    if tys.any (fun tc => (match tc.1 with | .f32 | .f64 => false | _ => true) &&
        (conjLits tc.2).any (fun ol => !litExactInt ol.2)) then ["literal_fits_column"] else []

/-! ### model step -/

def bucketWith (b : Bucket) (t : Table) : Bucket := { b with slots := t.slots }

/-- model result of an `X` step: new state, result text, failed hypotheses; `none` = unsupported -/
def xStep (bs : List Bucket) (hexText structured : String) : Option (List Bucket × String × List String) := do
  let stmt ← parseStmt structured
  let text ← hexToString hexText
  if stmt.render != text then pure (bs, "X=sqltext-mismatch", []) else
  -- buckets the SQL layer can see (a variable-length or exotic bucket makes the scenario unsupported)
  let db ← bs.mapM tableOf
  match stmt with
  | .select rs =>
    match rs.coerce with
    | .error .date => pure (bs, "X=err:date", [])
    | .error .unsupported => none
    | .ok s =>
      let hy := failedHyps (findTable db s.table) s
      match materializeSelect db s with
      | .error e => pure (bs, "X=" ++ errStr e, hy)
      | .ok cs => pure (bs, "X=" ++ renderCS cs, hy)
  | .insert target aliases rs =>
    match rs.coerce with
    | .error .date => pure (bs, "X=err:date", [])
    | .error .unsupported => none
    | .ok s =>
      let hy := failedHyps (findTable db s.table) s
      match ← materializeInsert db ⟨target, aliases, s⟩ with
      | .error e => pure (bs, "X=" ++ errStr e, hy)
      | .ok (.nothing, _) => pure (bs, "X=nil", hy)
      | .ok (.written n, db') =>
        let bs' := bs.map (fun b => match findTable db' b.key with | some t => bucketWith b t | none => b)
        pure (bs', s!"X=ins:{n}", hy)

def runSteps : List Bucket → List String → List String → List String → Option (List String × List String)
  | _, [], out, hy => some (out.reverse, hy)
  | bs, st :: rest, out, hy =>
    match st.splitOn ":" with
    | ["X", h, structured] =>
      match xStep bs h structured with
      | none => none
      | some (bs', r, hh) => runSteps bs' rest (r :: out) (hy ++ hh)
    | _ =>
      match Mkts.Driver.Store.step bs st with
      | none => none
      | some (bs', r, _, h) => runSteps bs' rest (r :: out) (hy ++ h)

/-! ### specification step: relational meaning on the last-writer-wins tables -/

structure SpecTable where
  key : String
  tf : Int
  cols : List ColDef
  rows : List Row

def specTableOf (b : SpecBucket) : Option SpecTable :=
  (colDefs b.cols).map (fun cd => ⟨b.key, b.tf, cd, specAll b.tf b.hist⟩)

/-- demanded result of a SELECT: output names and, per row, the output columns' bytes.
    `none` = the property says nothing (unknown table/column, NaN, duplicate output names …) -/
def specSelect (db : List SpecTable) (s : Select) (limit : Option Nat) : Option (List String × List (Row × List Bytes)) := do
  let t ← db.find? (fun t => t.key == s.table)
  let flags ← t.rows.mapM (fun r => satAll t.cols s.conj r)
  let sel := restrict t.rows flags
  let items : List Item := if s.star then (⟨"Epoch", none⟩ :: t.cols.map (fun c => ⟨c.name, none⟩)) else s.items
  let names := items.map (fun it => it.alias.getD it.name)
  if names.eraseDups.length != names.length then none else
  if !(items.all (fun it => it.name == "Epoch" || t.cols.any (fun c => c.name == it.name))) then none else
  let out := sel.map (fun r => (r, items.map (fun it =>
    if it.name == "Epoch" then leInt 8 r.sec else (colBytes t.cols it.name r.payload).getD [])))
  let out := match limit with | none => out | some n => out.take n
  pure (names, out)

def renderSpec (names : List String) (rows : List (Row × List Bytes)) : String :=
  if rows.isEmpty then "0[]" else
  s!"{rows.length}[{",".intercalate names}]" ++ "+".intercalate (rows.map (fun r =>
    ",".intercalate (r.2.map bytesToHex)))

/-- spec for an `X` step: (new spec state or `none` when the property lost track, demanded line) -/
def specX (bs : List SpecBucket) (structured : String) : Option (List SpecBucket) × Option String :=
  match parseStmt structured, bs.mapM specTableOf with
  | some (.select rs), some db =>
    match rs.coerce with
    | .ok s => (some bs, (specSelect db s rs.limit).map (fun r => "X=" ++ renderSpec r.1 r.2))
    | .error _ => (some bs, none)
  | some (.insert target aliases rs), some db =>
    match rs.coerce with
    | .error _ => (some bs, none)     -- rejected before anything is written
    | .ok s =>
      match specSelect db s rs.limit, db.find? (fun t => t.key == target), db.find? (fun t => t.key == s.table) with
      | some (names, out), some tgt, some src =>
        let tnames := "Epoch" :: tgt.cols.map (·.name)
        let okAliases := match aliases with | none => true | some a => a == tnames
        -- every target column is present in the select output with the same type
        let srcTy (n : String) : Option ColTy :=
          let items : List Item := if s.star then src.cols.map (fun c => ⟨c.name, none⟩) else s.items
          (items.find? (fun it => it.alias.getD it.name == n)).bind (fun it =>
            (src.cols.find? (fun c => c.name == it.name)).map (·.ty))
        let typed := tgt.cols.all (fun c => srcTy c.name == some c.ty)
        if !okAliases || !typed || !names.contains "Epoch" then (none, none) else
        if out.isEmpty then (some bs, none) else
        let idx (n : String) : Nat := (names.findIdx? (· == n)).getD 0
        let req : List Row := out.map (fun r => ⟨r.1.sec, (tgt.cols.map (fun c => r.2.getD (idx c.name) [])).flatten⟩)
        (some (bs.map (fun b => if b.key == target then { b with hist := b.hist ++ [req] } else b)),
         some s!"X=ins:{out.length}")
      | _, _, _ => (none, none)
  | _, _ => (none, none)

def runSpec : Option (List SpecBucket) → List String → List String → List String → List String
  | _, [], _, out => out.reverse
  | _, _ :: _, [], out => out.reverse
  | none, _ :: rest, m :: ms, out => runSpec none rest ms (m :: out)
  | some bs, st :: rest, m :: ms, out =>
    match st.splitOn ":" with
    | ["X", _, structured] =>
      let (bs', s) := specX bs structured
      runSpec bs' rest ms ((s.getD m) :: out)
    | _ =>
      match Mkts.Driver.Store.specStep bs st with
      | none => runSpec none rest ms (m :: out)
      | some (bs', s) => runSpec (some bs') rest ms ((s.getD m) :: out)

def sqlStoreOp : Op := fun args =>
  match args with
  | [] => badArgs
  | _ :: steps =>
    match runSteps [] steps [] [] with
    | none => "M:unsupported"
    | some (out, hy) =>
      let m := " ".intercalate out
      let sp := runSpec (some []) steps out []
      s!"M:{m}\tS:{" ".intercalate sp}\tH:{",".intercalate hy.eraseDups}"

def ops : OpTable := [("sqlstore", sqlStoreOp)]

end Mkts.Driver.Sql
