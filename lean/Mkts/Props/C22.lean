import Mkts.Props.C21
/-!
# C22 — Candle aggregation composes across timeframes

`composed` = ticks → TickCandler(fine) → output rows → CandleCandler(coarse);
`direct`   = ticks → TickCandler(coarse).

The claim needs the windows to nest (`Nests`): truncating to the fine window first does not change the
coarse window.  `nests_utc` proves this in UTC whenever the fine timeframe divides the coarse one
(`divides`: fixed-length blocks counted from Go's zero time, `D` = 24 h block, months over anything that
divides a day).  It is false in a zone with a half-hour offset (`C22_cex_zone_nest`), which is why the
property is claimed for the configured zone UTC only.
-/
namespace Mkts.Props.C22
open Mkts.Time Mkts.Timeframe Mkts.Agg Mkts.Props.C21

/-- the fine windows nest in the coarse windows (and are intervals that start on whole seconds) -/
structure Nests (f c : CandleDuration) (z : Zone) : Prop where
  nest : ∀ t, truncate c z (truncate f z t) = truncate c z t
  mono : ∀ a b, a ≤ b → truncate f z a ≤ truncate f z b
  le : ∀ t, truncate f z t ≤ t
  sec : ∀ t, truncate f z t % 1000000000 = 0

/-- in UTC a duration with a block length truncates like `Time.Truncate(block)` -/
theorem truncate_block_utc (cd : CandleDuration) (d : Int) (h : blockDur cd = some d) (t : Int) :
    truncate cd utc t = goTruncate t d := by
  obtain ⟨str, dur, suf, mult⟩ := cd
  cases suf <;> simp only [blockDur, Option.some.injEq] at h <;> try (subst h; rfl)
  · subst h; simp only [truncate]; exact utc_day_is_block t
  · cases h

/-- **truncate nesting**: if the fine timeframe divides the coarse one, then in UTC
    `Truncate_c (Truncate_f t) = Truncate_c t`, fine windows are monotone intervals, and start on whole
    seconds when the fine block length is a whole number of seconds. -/
theorem nests_utc (f c : CandleDuration) (hdiv : divides f c = true)
    (hsec : ∀ d, blockDur f = some d → d % 1000000000 = 0) : Nests f c utc := by
  unfold divides at hdiv
  cases hf : blockDur f with
  | none => simp [hf] at hdiv
  | some df =>
    have tf := truncate_block_utc f df hf
    have hs := hsec df hf
    cases hc : blockDur c with
    | some dc =>
      simp only [hf, hc, Bool.and_eq_true, decide_eq_true_eq, beq_iff_eq] at hdiv
      obtain ⟨⟨h1, h2⟩, h3⟩ := hdiv
      have tc := truncate_block_utc c dc hc
      refine ⟨fun t => ?_, fun a b hab => ?_, fun t => ?_, fun t => ?_⟩
      · rw [tf, tc, tc]; exact goTruncate_nest t df dc h1 h2 (Int.dvd_of_emod_eq_zero h3)
      · rw [tf, tf]; exact goTruncate_mono a b df hab
      · rw [tf]; exact goTruncate_le t df
      · rw [tf]; exact goTruncate_whole_second t df h1 hs
    | none =>
      simp only [hf, hc, Bool.and_eq_true, decide_eq_true_eq, beq_iff_eq] at hdiv
      obtain ⟨h1, h3⟩ := hdiv
      refine ⟨fun t => ?_, fun a b hab => ?_, fun t => ?_, fun t => ?_⟩
      · -- coarse = month: the fine window start lies on the same UTC day
        have hcM : c.suffix = .M := by
          obtain ⟨str, dur, suf, mult⟩ := c
          cases suf <;> simp [blockDur] at hc ⊢
        obtain ⟨str, dur, suf, mult⟩ := c
        simp only at hcM; subst hcM
        have hM : ∀ x, truncate { str := str, duration := dur, suffix := Suffix.M, mult := mult } utc x =
            dayStart utc (monthFloorDays (localDays utc x)) := fun x => rfl
        have hday : localDays utc (truncate f utc t) = localDays utc t := by
          rw [tf]
          have n := goTruncate_nest t df day h1 (by decide) (Int.dvd_of_emod_eq_zero h3)
          rw [← utc_day_is_block, ← utc_day_is_block, utc_dayStart, utc_dayStart] at n
          omega
        rw [hM, hM, hday]
      · rw [tf, tf]; exact goTruncate_mono a b df hab
      · rw [tf]; exact goTruncate_le t df
      · rw [tf]; exact goTruncate_whole_second t df h1 hs

/-- Asia/Kolkata (UTC+5:30, no transitions) -/
def kolkata : Zone := { init := 19800, trans := [] }
def cd1H : CandleDuration := { str := ['1','H'], duration := hour, suffix := .H, mult := 1 }
def cd1D : CandleDuration := { str := ['1','D'], duration := day, suffix := .D, mult := 1 }

/-- 1H divides 1D, but at +05:30 hourly windows start at :30 local time: 00:15 local belongs to the hour
    starting 23:30 of the previous local day, so day-of-hour ≠ day. -/
theorem C22_cex_zone_nest :
    divides cd1H cd1D = true ∧
    truncate cd1D kolkata (truncate cd1H kolkata (18 * 3600 * 1000000000 + 45 * 60 * 1000000000)) ≠
      truncate cd1D kolkata (18 * 3600 * 1000000000 + 45 * 60 * 1000000000) := by decide

section main
variable {P S : Type} (po : PriceOps P) (so : SumOps S) (key : P → Int)
variable (f c : CandleDuration) (z : Zone)

/-- the rows the CandleCandler receives -/
abbrev fineRows (rows : List (Row P S)) : List (Row P S) := (output (accum po so f z 0 [rows])).map candleToRow

omit key in
theorem fineRow_iff (hf : WellBehaved f z) (hn : Nests f c z) (rows : List (Row P S)) (r' : Row P S) :
    r' ∈ fineRows po so f z rows ↔
      ∃ cf ∈ output (accum po so f z 0 [rows]), r' = candleToRow cf ∧ r'.t = cf.start ∧ ∃ r ∈ rows, truncate f z r.t = cf.start := by
  unfold fineRows
  rw [List.mem_map]
  constructor
  · rintro ⟨cf, hcf, e⟩
    have hw := ((C21_windows po so f z 0 hf [rows]).2 cf.start).mp (List.mem_map.mpr ⟨cf, hcf, rfl⟩)
    simp only [List.flatten_cons, List.flatten_nil, List.append_nil] at hw
    obtain ⟨r, hr, e2⟩ := hw
    refine ⟨cf, hcf, e.symm, ?_, r, hr, e2⟩
    rw [← e]
    simp only [candleToRow, Candle.epoch]
    have := hn.sec r.t
    rw [e2] at this
    omega
  · rintro ⟨cf, hcf, e, _⟩
    exact ⟨cf, hcf, e.symm⟩

omit key in
/-- **same windows**: the composed and the direct aggregation produce candles for the same coarse windows -/
theorem C22_windows (hf : WellBehaved f z) (hc : WellBehaved c z) (hn : Nests f c z) (rows : List (Row P S)) (s : Int) :
    s ∈ (composed po so f c z rows).map (·.start) ↔ s ∈ (direct po so c z rows).map (·.start) := by
  unfold composed direct
  rw [(C21_windows po so c z 0 hc _).2 s, (C21_windows po so c z 0 hc _).2 s]
  simp only [List.flatten_cons, List.flatten_nil, List.append_nil]
  constructor
  · rintro ⟨r', hr', e⟩
    obtain ⟨cf, _, _, et, r, hr, e2⟩ := (fineRow_iff po so f c z hf hn rows r').mp hr'
    exact ⟨r, hr, by rw [← hn.nest, e2, ← et]; exact e⟩
  · rintro ⟨r, hr, e⟩
    obtain ⟨cf, hcf, e2⟩ := C21_window_has_candle po so f z 0 hf [rows] r (by simpa using hr)
    have hr' : candleToRow cf ∈ fineRows po so f z rows := List.mem_map.mpr ⟨cf, hcf, rfl⟩
    obtain ⟨cf', _, e3, et, _⟩ := (fineRow_iff po so f c z hf hn rows _).mp hr'
    refine ⟨candleToRow cf, hr', ?_⟩
    have : (candleToRow cf).t = cf.start := by
      have hsec := hn.sec r.t
      rw [← e2] at hsec
      simp only [candleToRow, Candle.epoch]; omega
    rw [this, e2, hn.nest]; exact e

variable (hgt : ∀ a b, po.gt a b = decide (key a > key b)) (hlt : ∀ a b, po.lt a b = decide (key a < key b))
include hgt hlt

/-- **high and low compose**: for the same coarse window the re-aggregated candle has the same high and
    low (as float values) as the candle built directly from the ticks — any rows, any order, ties allowed. -/
theorem C22_high_low (hf : WellBehaved f z) (hc : WellBehaved c z) (hn : Nests f c z) (rows : List (Row P S))
    (hz : ∀ r ∈ rows, r.t ≠ goZero) (hzf : ∀ r ∈ rows, truncate f z r.t ≠ goZero)
    (cc dc : Candle P S) (hcc : cc ∈ composed po so f c z rows) (hdc : dc ∈ direct po so c z rows)
    (hs : cc.start = dc.start) : key cc.hi = key dc.hi ∧ key cc.lo = key dc.lo := by
  unfold composed at hcc
  unfold direct at hdc
  have hzR : ∀ r' ∈ [fineRows po so f z rows].flatten, r'.t ≠ goZero := by
    intro r' hr'
    simp only [List.flatten_cons, List.flatten_nil, List.append_nil] at hr'
    obtain ⟨cf, _, _, et, r, hr, e2⟩ := (fineRow_iff po so f c z hf hn rows r').mp hr'
    rw [et, ← e2]; exact hzf r hr
  have A := C21_ohlc po so key c z 0 hgt hlt hc [fineRows po so f z rows] cc hcc hzR
  have B := C21_ohlc po so key c z 0 hgt hlt hc [rows] dc hdc (by simpa using hz)
  simp only [List.flatten_cons, List.flatten_nil, List.append_nil] at A B
  obtain ⟨_, _, ⟨ah, hah, eah⟩, amax, ⟨al, hal, eal⟩, amin⟩ := A
  obtain ⟨_, _, ⟨bh, hbh, ebh⟩, bmax, ⟨bl, hbl, ebl⟩, bmin⟩ := B
  -- a fine row of the composed window, with its fine candle and the tick rows behind it
  have fineFacts : ∀ r' ∈ windowRows c z (fineRows po so f z rows) cc.start,
      ∃ cf ∈ output (accum po so f z 0 [rows]), r' = candleToRow cf ∧
        (∀ r ∈ windowRows f z rows cf.start, r ∈ windowRows c z rows dc.start) := by
    intro r' hr'
    have hm := List.mem_filter.mp hr'
    obtain ⟨cf, hcf, e, et, _⟩ := (fineRow_iff po so f c z hf hn rows r').mp hm.1
    refine ⟨cf, hcf, e, fun r hr => ?_⟩
    have hm2 := List.mem_filter.mp hr
    apply List.mem_filter.mpr
    refine ⟨hm2.1, ?_⟩
    have e1 : truncate f z r.t = cf.start := by simpa using hm2.2
    have e2 : truncate c z r'.t = cc.start := by simpa using hm.2
    simp only [beq_iff_eq]
    rw [← hn.nest, e1, ← et, e2, hs]
  -- a tick row of the direct window, with the fine candle that contains it
  have tickFacts : ∀ r ∈ windowRows c z rows dc.start,
      ∃ cf ∈ output (accum po so f z 0 [rows]), candleToRow cf ∈ windowRows c z (fineRows po so f z rows) cc.start ∧
        r ∈ windowRows f z rows cf.start := by
    intro r hr
    have hm := List.mem_filter.mp hr
    obtain ⟨cf, hcf, e2⟩ := C21_window_has_candle po so f z 0 hf [rows] r (by simpa using hm.1)
    have hr' : candleToRow cf ∈ fineRows po so f z rows := List.mem_map.mpr ⟨cf, hcf, rfl⟩
    have ht : (candleToRow cf).t = cf.start := by
      have hsec := hn.sec r.t
      rw [← e2] at hsec
      simp only [candleToRow, Candle.epoch]; omega
    refine ⟨cf, hcf, List.mem_filter.mpr ⟨hr', ?_⟩, List.mem_filter.mpr ⟨hm.1, by simp [e2]⟩⟩
    have e1 : truncate c z r.t = dc.start := by simpa using hm.2
    simp only [beq_iff_eq]
    rw [ht, e2, hn.nest, e1, hs]
  have fineOhlc := fun cf hcf => C21_ohlc po so key f z 0 hgt hlt hf [rows] cf hcf (by simpa using hz)
  simp only [List.flatten_cons, List.flatten_nil, List.append_nil] at fineOhlc
  constructor
  · apply Int.le_antisymm
    · -- composed high is the high of some fine candle, attained by a tick row of the direct window
      obtain ⟨cf, hcf, e, sub⟩ := fineFacts ah hah
      obtain ⟨_, _, ⟨rh, hrh, erh⟩, _, _, _⟩ := fineOhlc cf hcf
      have : cc.hi = rh.h := by rw [eah, e]; simp only [candleToRow]; exact erh
      rw [this]; exact bmax rh (sub rh hrh)
    · obtain ⟨cf, hcf, hin, hr⟩ := tickFacts bh hbh
      obtain ⟨_, _, _, fmax, _, _⟩ := fineOhlc cf hcf
      have h1 := fmax bh hr
      have h2 := amax _ hin
      simp only [candleToRow] at h2
      rw [ebh]; omega
  · apply Int.le_antisymm
    · obtain ⟨cf, hcf, hin, hr⟩ := tickFacts bl hbl
      obtain ⟨_, _, _, _, _, fmin⟩ := fineOhlc cf hcf
      have h1 := fmin bl hr
      have h2 := amin _ hin
      simp only [candleToRow] at h2
      rw [ebl]; omega
    · obtain ⟨cf, hcf, e, sub⟩ := fineFacts al hal
      obtain ⟨_, _, _, _, ⟨rl, hrl, erl⟩, _⟩ := fineOhlc cf hcf
      have : cc.lo = rl.l := by rw [eal, e]; simp only [candleToRow]; exact erl
      rw [this]; exact bmin rl (sub rl hrl)

/-- **open and close compose** when the tick timestamps are pairwise distinct: the re-aggregated candle
    opens and closes at exactly the prices of the directly built candle. -/
theorem C22_open_close (hf : WellBehaved f z) (hc : WellBehaved c z) (hn : Nests f c z) (rows : List (Row P S))
    (hz : ∀ r ∈ rows, r.t ≠ goZero) (hzf : ∀ r ∈ rows, truncate f z r.t ≠ goZero)
    (hdist : (rows.map (·.t)).Nodup)
    (cc dc : Candle P S) (hcc : cc ∈ composed po so f c z rows) (hdc : dc ∈ direct po so c z rows)
    (hs : cc.start = dc.start) : cc.op = dc.op ∧ cc.cl = dc.cl := by
  unfold composed at hcc
  unfold direct at hdc
  have hzR : ∀ r' ∈ [fineRows po so f z rows].flatten, r'.t ≠ goZero := by
    intro r' hr'
    simp only [List.flatten_cons, List.flatten_nil, List.append_nil] at hr'
    obtain ⟨cf, _, _, et, r, hr, e2⟩ := (fineRow_iff po so f c z hf hn rows r').mp hr'
    rw [et, ← e2]; exact hzf r hr
  have A := C21_ohlc po so key c z 0 hgt hlt hc [fineRows po so f z rows] cc hcc hzR
  have B := C21_ohlc po so key c z 0 hgt hlt hc [rows] dc hdc (by simpa using hz)
  simp only [List.flatten_cons, List.flatten_nil, List.append_nil] at A B
  obtain ⟨⟨ao, hao, aomin, eao⟩, ⟨ac, hac, acmax, eac⟩, _, _, _, _⟩ := A
  obtain ⟨⟨bo, hbo, bomin, ebo⟩, ⟨bc, hbc, bcmax, ebc⟩, _, _, _, _⟩ := B
  -- a fine row of the composed window, with its fine candle and the tick rows behind it
  have fineFacts : ∀ r' ∈ windowRows c z (fineRows po so f z rows) cc.start,
      ∃ cf ∈ output (accum po so f z 0 [rows]), r' = candleToRow cf ∧ r'.t = cf.start ∧
        (∀ r ∈ windowRows f z rows cf.start, r ∈ windowRows c z rows dc.start) := by
    intro r' hr'
    have hm := List.mem_filter.mp hr'
    obtain ⟨cf, hcf, e, et, _⟩ := (fineRow_iff po so f c z hf hn rows r').mp hm.1
    refine ⟨cf, hcf, e, et, fun r hr => ?_⟩
    have hm2 := List.mem_filter.mp hr
    apply List.mem_filter.mpr
    refine ⟨hm2.1, ?_⟩
    have e1 : truncate f z r.t = cf.start := by simpa using hm2.2
    have e2 : truncate c z r'.t = cc.start := by simpa using hm.2
    simp only [beq_iff_eq]
    rw [← hn.nest, e1, ← et, e2, hs]
  -- a tick row of the direct window, with the fine candle that contains it
  have tickFacts : ∀ r ∈ windowRows c z rows dc.start,
      ∃ cf ∈ output (accum po so f z 0 [rows]), candleToRow cf ∈ windowRows c z (fineRows po so f z rows) cc.start ∧
        (candleToRow cf).t = cf.start ∧ cf.start = truncate f z r.t ∧ r ∈ windowRows f z rows cf.start := by
    intro r hr
    have hm := List.mem_filter.mp hr
    obtain ⟨cf, hcf, e2⟩ := C21_window_has_candle po so f z 0 hf [rows] r (by simpa using hm.1)
    have hr' : candleToRow cf ∈ fineRows po so f z rows := List.mem_map.mpr ⟨cf, hcf, rfl⟩
    have ht : (candleToRow cf).t = cf.start := by
      have hsec := hn.sec r.t
      rw [← e2] at hsec
      simp only [candleToRow, Candle.epoch]; omega
    refine ⟨cf, hcf, List.mem_filter.mpr ⟨hr', ?_⟩, ht, e2, List.mem_filter.mpr ⟨hm.1, by simp [e2]⟩⟩
    have e1 : truncate c z r.t = dc.start := by simpa using hm.2
    simp only [beq_iff_eq]
    rw [ht, e2, hn.nest, e1, hs]
  have fineOhlc := fun cf hcf => C21_ohlc po so key f z 0 hgt hlt hf [rows] cf hcf (by simpa using hz)
  simp only [List.flatten_cons, List.flatten_nil, List.append_nil] at fineOhlc
  have inj := inj_of_nodup_map (fun r : Row P S => r.t) rows hdist
  have inRows : ∀ r, r ∈ windowRows c z rows dc.start → r ∈ rows := fun r hr => (List.mem_filter.mp hr).1
  have fstart : ∀ (cf : Candle P S) (r : Row P S), r ∈ windowRows f z rows cf.start → truncate f z r.t = cf.start := by
    intro cf r hr; simpa using (List.mem_filter.mp hr).2
  constructor
  · obtain ⟨cf0, hcf0, e0, et0, sub0⟩ := fineFacts ao hao
    obtain ⟨⟨r0, hr0, r0min, er0⟩, _, _, _, _, _⟩ := fineOhlc cf0 hcf0
    obtain ⟨cfb, hcfb, hinb, htb, esb, hrb⟩ := tickFacts bo hbo
    have h1 : bo.t ≤ r0.t := bomin r0 (sub0 r0 hr0)
    have h2 : cf0.start ≤ cfb.start := by
      have := aomin _ hinb
      rw [et0, htb] at this; exact this
    have h3 : r0.t ≤ bo.t := by
      by_cases heq : cf0.start = cfb.start
      · exact r0min bo (by rw [heq]; exact hrb)
      · apply Classical.byContradiction
        intro hlt
        have hm := hn.mono bo.t r0.t (by omega)
        rw [fstart cf0 r0 hr0, ← esb] at hm
        omega
    have : r0 = bo := inj r0 (inRows r0 (sub0 r0 hr0)) bo (inRows bo hbo) (by omega)
    rw [eao, e0, ebo, ← this]; simp only [candleToRow]; exact er0
  · obtain ⟨cf0, hcf0, e0, et0, sub0⟩ := fineFacts ac hac
    obtain ⟨_, ⟨r0, hr0, r0max, er0⟩, _, _, _, _⟩ := fineOhlc cf0 hcf0
    obtain ⟨cfb, hcfb, hinb, htb, esb, hrb⟩ := tickFacts bc hbc
    have h1 : r0.t ≤ bc.t := bcmax r0 (sub0 r0 hr0)
    have h2 : cfb.start ≤ cf0.start := by
      have := acmax _ hinb
      rw [et0, htb] at this; exact this
    have h3 : bc.t ≤ r0.t := by
      by_cases heq : cf0.start = cfb.start
      · exact r0max bc (by rw [heq]; exact hrb)
      · apply Classical.byContradiction
        intro hlt
        have hm := hn.mono r0.t bc.t (by omega)
        rw [fstart cf0 r0 hr0, ← esb] at hm
        omega
    have : r0 = bc := inj r0 (inRows r0 (sub0 r0 hr0)) bc (inRows bc hbc) (by omega)
    rw [eac, e0, ebc, ← this]; simp only [candleToRow]; exact er0

end main

/-! ## the property for accepted duration strings, UTC -/

theorem block_whole_seconds (cd : CandleDuration) (hno : ¬ C31.Calendar cd → C31.NoOverflow cd) :
    ∀ d, blockDur cd = some d → d % 1000000000 = 0 := by
  intro d hd
  obtain ⟨str, dur, suf, mult⟩ := cd
  have key : ∀ u : Int, u % 1000000000 = 0 → (mult * u) % 1000000000 = 0 := by
    intro u hu
    exact Int.emod_eq_zero_of_dvd (Int.dvd_trans (Int.dvd_of_emod_eq_zero hu) (Int.dvd_mul_left _ _))
  cases suf <;> simp only [blockDur, Option.some.injEq] at hd
  case M => cases hd
  case D => subst hd; decide
  all_goals
    have h := hno (by simp [C31.Calendar])
    simp only [C31.NoOverflow, suffixDur] at h
    subst hd; rw [h]; exact key _ (by decide)

/-- **C22 (UTC).**  For accepted fine/coarse duration strings of the C31 partial class with the fine
    timeframe dividing the coarse one, and any tick rows: the re-aggregated candles cover the same
    windows as the direct ones, with equal high/low; with pairwise distinct timestamps also equal
    open/close. -/
theorem C22_compose_utc {P S : Type} (po : PriceOps P) (so : SumOps S) (key : P → Int)
    (hgt : ∀ a b, po.gt a b = decide (key a > key b)) (hlt : ∀ a b, po.lt a b = decide (key a < key b))
    (sF sC : Str) (f c : CandleDuration)
    (hpF : candleDurationFromString sF = some f) (hpC : candleDurationFromString sC = some c)
    (zF : ¬ C31.Calendar f → 0 < f.mult) (oF : ¬ C31.Calendar f → C31.NoOverflow f) (wF : f.suffix = .W → f.mult ≤ 1)
    (zC : ¬ C31.Calendar c → 0 < c.mult) (oC : ¬ C31.Calendar c → C31.NoOverflow c) (wC : c.suffix = .W → c.mult ≤ 1)
    (hdiv : divides f c = true) (rows : List (Row P S))
    (hz : ∀ r ∈ rows, r.t ≠ goZero) (hzf : ∀ r ∈ rows, truncate f utc r.t ≠ goZero) :
    (∀ s, s ∈ (composed po so f c utc rows).map (·.start) ↔ s ∈ (direct po so c utc rows).map (·.start)) ∧
    (∀ cc ∈ composed po so f c utc rows, ∀ dc ∈ direct po so c utc rows, cc.start = dc.start →
      key cc.hi = key dc.hi ∧ key cc.lo = key dc.lo ∧
      ((rows.map (·.t)).Nodup → cc.op = dc.op ∧ cc.cl = dc.cl)) := by
  have hf := wellBehaved_utc sF f hpF zF oF wF
  have hc := wellBehaved_utc sC c hpC zC oC wC
  have hn := nests_utc f c hdiv (block_whole_seconds f oF)
  refine ⟨C22_windows po so f c utc hf hc hn rows, fun cc hcc dc hdc hs => ?_⟩
  have hl := C22_high_low po so key f c utc hgt hlt hf hc hn rows hz hzf cc dc hcc hdc hs
  exact ⟨hl.1, hl.2, fun hd => C22_open_close po so key f c utc hgt hlt hf hc hn rows hz hzf hd cc dc hcc hdc hs⟩

/-! ## non-vacuity -/

def cd5Min : CandleDuration := { str := ['5','M','i','n'], duration := 5 * minute, suffix := .Min, mult := 5 }

example : divides C21.cd1Min cd5Min = true ∧ divides cd5Min cd1D = true ∧ divides cd1D
    { str := ['1','M'], duration := 0, suffix := .M, mult := 1 } = true ∧ divides cd5Min C21.cd1Min = false := by decide

example : Nests C21.cd1Min cd5Min utc := nests_utc _ _ (by decide) (by intro d h; simp [blockDur, C21.cd1Min] at h; subst h; decide)

/-- ticks at 10:00:10 (3), 10:00:30 (5), 10:01:00 (9), 10:04:59 (1), 10:05:00 (4): 1Min then 5Min equals 5Min directly -/
example :
    let rows : List (Row Int Int) :=
      [{ t := 36030 * 1000000000, o := 5, h := 5, l := 5, c := 5, sums := [] },
       { t := 36010 * 1000000000, o := 3, h := 3, l := 3, c := 3, sums := [] },
       { t := 36299 * 1000000000, o := 1, h := 1, l := 1, c := 1, sums := [] },
       { t := 36060 * 1000000000, o := 9, h := 9, l := 9, c := 9, sums := [] },
       { t := 36300 * 1000000000, o := 4, h := 4, l := 4, c := 4, sums := [] }]
    (composed C21.intOps C21.intSum C21.cd1Min cd5Min utc rows).map (fun c => [c.epoch, c.op, c.hi, c.lo, c.cl]) =
      [[36000, 3, 9, 1, 1], [36300, 4, 4, 4, 4]] ∧
    (direct C21.intOps C21.intSum cd5Min utc rows).map (fun c => [c.epoch, c.op, c.hi, c.lo, c.cl]) =
      [[36000, 3, 9, 1, 1], [36300, 4, 4, 4, 4]] := by decide

end Mkts.Props.C22
