import Mkts.Lemmas.Store
import Mkts.Props.C08
/-!
# C11 — Time-range queries return exactly the rows in range (fixed-length buckets)

`NewIOPlan` restricts the scan by *byte offsets* computed from the slot indices of `start` and
`end` per year file.  Theorem: for every stored slot this index test coincides with the
time-based definition of the property — the row's interval start lies between the start of the
interval containing `start` and `end` — hence a ranged query is the filter of the unrestricted
one.  (Sub-day timeframes, zone UTC; the variable-length half is in `Props/C11v`.)
-/
namespace Mkts.Props.C11
open Mkts.Store Mkts.Time Mkts.Bytes Mkts.Props

theorem utc_yearStart_mono {a b : Int} (h : a ≤ b) : yearStart utc a ≤ yearStart utc b := by
  rw [utc_yearStart, utc_yearStart]
  have := jan1_le_of_le h
  omega

/-- a slot that was produced by writing some instant `t`: it lies inside its year -/
structure ValidSlot (tf y idx : Int) : Prop where
  one_le : 1 ≤ idx
  in_year : yearStart utc y + tf * (idx - 1) < yearStart utc (y + 1)

theorem validSlot_of_written (tf t : Int) (htf : 0 < tf) (hd : tf ≠ dayNs) :
    ValidSlot tf (localYear utc t) (timeToIndex utc t tf) := by
  have h := C30.C30_interval utc C30.utc_coherent t tf htf hd
  have hlt := C30.utc_coherent.lt t
  simp only [indexToTime, beq_iff_eq, hd, if_false] at h
  exact ⟨h.2.2, by omega⟩

/-- interval start of a slot -/
def slotStart (tf y idx : Int) : Int := yearStart utc y + tf * (idx - 1)

theorem slotStart_eq (tf y idx : Int) (hd : tf ≠ dayNs) : indexToTime utc idx tf y = slotStart tf y idx := by
  simp [indexToTime, slotStart, hd]

/-- lower bound: index test ⇔ interval start ≥ start of the interval containing `st` -/
theorem start_test (tf y idx st : Int) (htf : 0 < tf) (hd : tf ≠ dayNs) (hv : ValidSlot tf y idx) :
    (localYear utc st < y ∨ (localYear utc st = y ∧ timeToIndex utc st tf ≤ idx)) ↔
      slotStart tf (localYear utc st) (timeToIndex utc st tf) ≤ slotStart tf y idx := by
  have hs := C30.C30_interval utc C30.utc_coherent st tf htf hd
  rw [slotStart_eq _ _ _ hd] at hs
  have hlt := C30.utc_coherent.lt st
  have h0 : 0 ≤ tf * (idx - 1) := Int.mul_nonneg (by omega) (by have := hv.one_le; omega)
  have h0s : 0 ≤ tf * (timeToIndex utc st tf - 1) := Int.mul_nonneg (by omega) (by omega)
  unfold slotStart at *
  rcases Int.lt_trichotomy (localYear utc st) y with hy | hy | hy
  · have := utc_yearStart_mono (show localYear utc st + 1 ≤ y by omega)
    constructor
    · intro _; omega
    · intro _; exact Or.inl hy
  · subst hy
    constructor
    · rintro (h | ⟨_, h⟩)
      · omega
      · have : tf * (timeToIndex utc st tf - 1) ≤ tf * (idx - 1) :=
          Int.mul_le_mul_of_nonneg_left (by omega) (by omega)
        omega
    · intro h
      refine Or.inr ⟨rfl, ?_⟩
      have h' : tf * (timeToIndex utc st tf - 1) ≤ tf * (idx - 1) := by omega
      have := Int.le_of_mul_le_mul_left h' htf
      omega
  · have := utc_yearStart_mono (show y + 1 ≤ localYear utc st by omega)
    have := hv.in_year
    constructor
    · rintro (h | ⟨h, _⟩) <;> omega
    · intro h; omega

/-- upper bound: index test ⇔ interval start ≤ `en` -/
theorem end_test (tf y idx en : Int) (htf : 0 < tf) (hd : tf ≠ dayNs) (hv : ValidSlot tf y idx) :
    (y < localYear utc en ∨ (localYear utc en = y ∧ idx ≤ timeToIndex utc en tf)) ↔
      slotStart tf y idx ≤ en := by
  have hs := C30.C30_interval utc C30.utc_coherent en tf htf hd
  rw [slotStart_eq _ _ _ hd] at hs
  have hle := C30.utc_coherent.le en
  have hlt := C30.utc_coherent.lt en
  have h0 : 0 ≤ tf * (idx - 1) := Int.mul_nonneg (by omega) (by have := hv.one_le; omega)
  have hin := hv.in_year
  unfold slotStart at *
  rcases Int.lt_trichotomy y (localYear utc en) with hy | hy | hy
  · have := utc_yearStart_mono (show y + 1 ≤ localYear utc en by omega)
    constructor
    · intro _; omega
    · intro _; exact Or.inl hy
  · subst hy
    constructor
    · rintro (h | ⟨_, h⟩)
      · omega
      · have : tf * (idx - 1) ≤ tf * (timeToIndex utc en tf - 1) :=
          Int.mul_le_mul_of_nonneg_left (by omega) (by omega)
        omega
    · intro h
      refine Or.inr ⟨rfl, ?_⟩
      by_cases hc : idx ≤ timeToIndex utc en tf
      · exact hc
      · exfalso
        have : tf * (timeToIndex utc en tf) ≤ tf * (idx - 1) :=
          Int.mul_le_mul_of_nonneg_left (by omega) (by omega)
        have e : tf * (timeToIndex utc en tf - 1) + tf = tf * timeToIndex utc en tf := by
          rw [Int.mul_sub, Int.mul_one]; omega
        omega
  · have := utc_yearStart_mono (show localYear utc en + 1 ≤ y by omega)
    constructor
    · rintro (h | ⟨h, _⟩) <;> omega
    · intro h; omega

/-- the time-based range predicate of the property on a stored slot -/
def inRangeTime (tf : Int) (q : Query) (y idx : Int) : Bool :=
  (match q.start with
    | none => true
    | some st => decide (slotStart tf (localYear utc st) (timeToIndex utc st tf) ≤ slotStart tf y idx)) &&
  (match q.stop with
    | none => true
    | some en => decide (slotStart tf y idx ≤ en))

/-- C11 (fixed, per slot): the scanner's index/offset restriction is the property's time range -/
theorem C11_fixed_slot (tf : Int) (q : Query) (y idx : Int) (htf : 0 < tf) (hd : tf ≠ dayNs)
    (hv : ValidSlot tf y idx) : inRange tf q y idx = inRangeTime tf q y idx := by
  unfold inRange inRangeTime
  have h1 : decide (1 ≤ idx) = true := by simp [hv.one_le]
  rw [h1, Bool.and_true]
  congr 1
  · cases q.start with
    | none => rfl
    | some st =>
      have := start_test tf y idx st htf hd hv
      simp only
      by_cases hc : slotStart tf (localYear utc st) (timeToIndex utc st tf) ≤ slotStart tf y idx
      · have := this.mpr hc
        simp only [hc, decide_true]
        rcases this with h | ⟨h1, h2⟩
        · simp [h]
        · simp [h1, h2]
      · have hn := fun h => hc (this.mp h)
        simp only [hc, decide_false]
        have a : ¬ localYear utc st < y := fun h => hn (Or.inl h)
        have b : ¬ (localYear utc st = y ∧ timeToIndex utc st tf ≤ idx) := fun h => hn (Or.inr h)
        simp only [a, decide_false, Bool.false_or, Bool.and_eq_false_iff, beq_eq_false_iff_ne, ne_eq,
          decide_eq_false_iff_not]
        by_cases e : localYear utc st = y
        · right; intro h; exact b ⟨e, h⟩
        · left; exact e
  · cases q.stop with
    | none => rfl
    | some en =>
      have := end_test tf y idx en htf hd hv
      simp only
      by_cases hc : slotStart tf y idx ≤ en
      · have := this.mpr hc
        simp only [hc, decide_true]
        rcases this with h | ⟨h1, h2⟩
        · simp [h]
        · simp [h1, h2]
      · have hn := fun h => hc (this.mp h)
        simp only [hc, decide_false]
        have a : ¬ y < localYear utc en := fun h => hn (Or.inl h)
        have b : ¬ (localYear utc en = y ∧ idx ≤ timeToIndex utc en tf) := fun h => hn (Or.inr h)
        simp only [a, decide_false, Bool.false_or, Bool.and_eq_false_iff, beq_eq_false_iff_ne, ne_eq,
          decide_eq_false_iff_not]
        by_cases e : localYear utc en = y
        · right; intro h; exact b ⟨e, h⟩
        · left; exact e

/-- every slot of a store built by writes is valid -/
theorem valid_of_applyHist (tf : Int) (hist : List (List Row)) (htf : 0 < tf) (hd : tf ≠ dayNs) :
    ∀ kv ∈ applyHist tf hist, ValidSlot tf kv.1.1 kv.1.2 := by
  rw [C08.C08_refines_lww]
  unfold lww
  rw [C08.lww_eq_putRows]
  generalize C08.allRows hist = rows
  suffices h : ∀ (s : Slots), (∀ kv ∈ s, ValidSlot tf kv.1.1 kv.1.2) →
      ∀ kv ∈ putRows tf s rows, ValidSlot tf kv.1.1 kv.1.2 from h [] (by simp)
  induction rows with
  | nil => intro s hs kv hkv; exact hs kv (by simpa [putRows] using hkv)
  | cons r rest ih =>
    intro s hs kv hkv
    simp only [putRows, List.foldl_cons] at hkv
    refine ih (s.put (slotKey tf r) r.payload) ?_ kv hkv
    intro y hy
    have hmem : ∀ (s : Slots) (k : Int × Int) (v : Bytes) (y : (Int × Int) × Bytes),
        y ∈ s.put k v → y ∈ s ∨ y = (k, v) := by
      intro s k v
      induction s with
      | nil => intro y hy; simp [Slots.put] at hy; exact Or.inr hy
      | cons hd' t iht =>
        intro y hy
        obtain ⟨k', v'⟩ := hd'
        simp only [Slots.put] at hy
        split at hy
        · simp at hy; rcases hy with h | h
          · exact Or.inr h
          · exact Or.inl (List.mem_cons_of_mem _ h)
        · simp at hy; rcases hy with h | h
          · exact Or.inl (by simp [h])
          · rcases iht y h with h' | h'
            · exact Or.inl (List.mem_cons_of_mem _ h')
            · exact Or.inr h'
    rcases hmem s _ _ y hy with h | h
    · exact hs y h
    · subst h; exact validSlot_of_written tf (nsOfSec r.sec) htf hd

/-- C11 (fixed): for every history and every (start, end) — inside an interval, on edges, across
    years, empty or inverted — the ranged query returns exactly the rows of the unrestricted
    query whose interval start lies in [start of the interval containing `start`, `end`], in the
    same order. -/
theorem C11_fixed (tf : Int) (hist : List (List Row)) (st en : Option Int) (htf : 0 < tf) (hd : tf ≠ dayNs) :
    query tf (applyHist tf hist) ⟨st, en, none⟩ =
      ((sortedSlots (applyHist tf hist)).filter
        (fun kv => inRangeTime tf ⟨st, en, none⟩ kv.1.1 kv.1.2)).map (rowOfSlot tf) := by
  simp only [query]
  congr 1
  apply List.filter_congr
  intro kv hkv
  rw [mem_sortedSlots] at hkv
  exact C11_fixed_slot tf _ _ _ htf hd (valid_of_applyHist tf hist htf hd kv hkv)

/-- in particular the ranged result is a sub-list of the unrestricted result (same order) -/
theorem C11_sublist (tf : Int) (s : Slots) (q : Query) (hl : q.limit = none) :
    (query tf s q).Sublist (query tf s ⟨none, none, none⟩) := by
  simp only [query, hl]
  apply List.Sublist.map
  simp only [inRange, Bool.true_and]
  have : ∀ l : List ((Int × Int) × Bytes), (l.filter (fun kv => inRange tf q kv.1.1 kv.1.2)).Sublist
      (l.filter (fun kv => decide (1 ≤ kv.1.2))) := by
    intro l
    induction l with
    | nil => simp
    | cons h t ih =>
      simp only [List.filter_cons]
      by_cases h1 : inRange tf q h.1.1 h.1.2 = true
      · have h2 : decide (1 ≤ h.1.2) = true := by
          unfold inRange at h1; simp only [Bool.and_eq_true] at h1; exact h1.2
        simp only [h1, h2, if_true]; exact List.Sublist.cons_cons _ ih
      · by_cases h2 : decide (1 ≤ h.1.2) = true
        · simp only [h1, h2, if_true]; exact List.Sublist.cons _ ih
        · simp only [h1, h2]; exact ih
  simpa [inRange] using this (sortedSlots s)

/-! inverted range gives the empty result; non-vacuity of the range theorem -/
example : query 60000000000 (applyHist 60000000000 [[⟨1577836800, [1]⟩, ⟨1577836860, [2]⟩, ⟨1577836920, [3]⟩]])
    ⟨some 1577836830000000000, some 1577836919999999999, none⟩ = [⟨1577836800, [1]⟩, ⟨1577836860, [2]⟩] := by decide
example : query 60000000000 (applyHist 60000000000 [[⟨1577836800, [1]⟩, ⟨1577836860, [2]⟩]])
    ⟨some 1577836900000000000, some 1577836800000000000, none⟩ = [] := by decide

end Mkts.Props.C11
