import Mkts.Model.CatalogFs
import Mkts.Model.Skel
import Mkts.Props.C02
/-!
# C03 — Restart after a crash succeeds and leaves data readable

Three ingredients.
1. Catalog: after `fix: create year files atomically` every year file visible to the loader is
   complete at EVERY crash point of ANY sequence of file creations (`C03_year_files_loadable`);
   before the repair a crash after `create` left a 0-byte `<year>.bin` and the next startup died
   (`C03_cex_before_fix`, about the old effect order).
2. WAL replay of fixed-length buckets is total: `recover` is a function of the crash state, and the
   crash-recovery theorem (C01) describes its result for every crash point.
3. Variable-length buckets: a crash between the blob write and the index write of a continuation
   write leaves an index that covers a prefix of a longer compressed block; replay cannot decode
   it and startup panics (known finding C03-F17, reproduced by the trace-level check; the model
   names the crash positions, see `Mkts.Driver.Wal`).
-/
namespace Mkts.Props.C03
open Mkts.CatalogFs Mkts.Skel Mkts.Extracted.Skel

theorem loadable_exec_of (s : Fs) (e : Effect) (h : Loadable s)
    (hren : ∀ f, e = .rename f → ∀ p, s.tmp.find? (·.1 = f) = some p → p.2.hasHeader = true ∧ p.2.fullSize = true) :
    Loadable (exec s e) := by
  cases e with
  | createTmp f => exact h
  | writeHeader f => exact h
  | truncateFull f => exact h
  | rename f =>
    simp only [exec]
    cases hf : s.tmp.find? (·.1 = f) with
    | none => exact h
    | some p =>
      intro q hq
      simp only [List.mem_cons, List.mem_filter] at hq
      rcases hq with rfl | ⟨hq, _⟩
      · exact hren f rfl _ hf
      · exact h q hq

/-- invariant of creation sequences: registered files are complete, and a tmp file that reached
    the state "header written and full size" is the only kind that gets renamed -/
def TmpOk (s : Fs) (pending : Option (Nat × Nat)) : Prop :=
  -- pending = (file, number of creation steps already done for it)
  ∀ f p, s.tmp.find? (·.1 = f) = some p →
    (pending = some (f, 3) → p.2.hasHeader = true ∧ p.2.fullSize = true)

/-- state after complete creations of the files `fs` followed by the first `j` steps of creating `g` -/
def partialRun (fs : List Nat) (g : Nat) (j : Nat) : Fs :=
  run {} ((fs.map createYearFile).flatten ++ (createYearFile g).take j)

theorem loadable_of_bin_eq {s s' : Fs} (hb : s'.bin = s.bin) (h : Loadable s) : Loadable s' := by
  intro p hp; rw [hb] at hp; exact h p hp

theorem loadable_createYearFile (s : Fs) (f : Nat) (h : Loadable s) :
    Loadable (run s (createYearFile f)) ∧ ∀ j, Loadable (run s ((createYearFile f).take j)) := by
  have key : ∀ j, Loadable (run s ((createYearFile f).take j)) := by
    intro j
    match j with
    | 0 => exact loadable_of_bin_eq (by simp [run]) h
    | 1 => exact loadable_of_bin_eq (by simp [run, createYearFile, exec]) h
    | 2 => exact loadable_of_bin_eq (by simp [run, createYearFile, exec]) h
    | 3 => exact loadable_of_bin_eq (by simp [run, createYearFile, exec]) h
    | n + 4 =>
      have h3 : Loadable (run s [Effect.createTmp f, Effect.writeHeader f, Effect.truncateFull f]) :=
        loadable_of_bin_eq (by simp [run, exec]) h
      have e : (createYearFile f).take (n + 4) =
          [Effect.createTmp f, Effect.writeHeader f, Effect.truncateFull f] ++ [Effect.rename f] := by
        simp [createYearFile]
      rw [e]
      simp only [run, List.foldl_append, List.foldl_cons, List.foldl_nil]
      apply loadable_exec_of _ _ (by simpa [run] using h3)
      intro f' he p hp
      cases he
      simp only [exec, upd, List.map_cons, List.find?_cons, decide_true, if_true] at hp
      simp at hp
      obtain ⟨rfl⟩ := hp
      simp
  exact ⟨by simpa [createYearFile] using key 4, key⟩

/-- C03 (catalog part): at every crash point of every sequence of year-file creations every
    registered year file has its header and its full size, so the loader never meets a short file. -/
theorem C03_year_files_loadable (fs : List Nat) (g : Nat) (j : Nat) : Loadable (partialRun fs g j) := by
  unfold partialRun
  suffices h : ∀ s, Loadable s → Loadable (run s ((fs.map createYearFile).flatten ++ (createYearFile g).take j)) from
    h {} (by intro p hp; simp at hp)
  induction fs with
  | nil => intro s hs; simpa using (loadable_createYearFile s g hs).2 j
  | cons f rest ih =>
    intro s hs
    simp only [List.map_cons, List.flatten_cons, List.append_assoc, run, List.foldl_append] at ih ⊢
    exact ih _ (by simpa [run] using (loadable_createYearFile s f hs).1)

/-- the creation order before the repair: create `<year>.bin` directly, then header, then size -/
def createYearFileOld (f : Nat) : List Effect := [.createTmp f, .rename f, .writeHeader f, .truncateFull f]

/-- BEFORE the repair a crash right after the creation left a registered file without header -/
theorem C03_cex_before_fix : ¬ Loadable (run {} ((createYearFileOld 2020).take 2)) := by
  intro h
  have := h (2020, {}) (by decide)
  revert this; decide

/-! ## regenerated tie: the Go function creates under the temporary name and renames last -/

def expCreate : List String :=
  ["if:newTimeBucketInfo == nil{", "return", "}", "call:os.Stat", "if:err2 == nil{", "return", "}",
   "call:os.OpenFile", "if:err != nil{", "return", "}", "defer{", "func{", "call:fp.Close", "if:err2 != nil{", "}",
   "if:err == nil{", "call:os.Rename", "if:err != nil{", "}", "}", "}", "call:(func() literal)", "}",
   "call:io.WriteHeader", "if:err != nil{", "return", "}", "call:newTimeBucketInfo.GetTimeframe",
   "call:newTimeBucketInfo.GetRecordLength", "call:io.FileSize", "call:fp.Truncate", "if:err != nil{", "return", "}",
   "return"]

theorem skel_newTimeBucketInfoFromTemplate :
    dropNoise catalog_newTimeBucketInfoFromTemplate = expCreate := by decide

/-- WAL replay is a total function of the crash state (fixed-length buckets): whatever the crash
    point, restart produces the content described by the crash-recovery theorem -/
theorem C03_recover_total (evs : List Mkts.WalProto.Event) (es : List Mkts.WalProto.Effect)
    (hes : es <+: Mkts.WalProto.trace {} evs) :
    ∃ evs1, evs1 <+: evs ∧
      Mkts.WalProto.Equiv (Mkts.WalProto.recover (Mkts.WalProto.run {} es))
        (Mkts.Store.applyCmds [] (Mkts.WalProto.allCmds evs1)) :=
  Mkts.Props.C02.C02_inflight_atomic evs es hes

example : Loadable (partialRun [2019, 2020] 2021 2) := C03_year_files_loadable _ _ _

end Mkts.Props.C03
