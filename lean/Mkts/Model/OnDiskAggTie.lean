import Mkts.Model.OnDiskAgg
import Mkts.Model.FlushTie
import Mkts.Extracted.Skeletons
/-! Which form of the three repaired statements of the on-disk aggregation trigger the CURRENT source
has: read off the regenerated skeletons (`+exprs`: assignments and returned expressions are listed) of
`OnDiskAggTrigger.Fire` and `cachedAgg.Valid`.  Core Lean only. -/
namespace Mkts.OnDiskAgg
open Mkts.Skel (hasSub)

/-- `cs = io.ColumnSeriesUnion(&c.cs, cs)`: the written rows are the right operand -/
def unionNewWinsAtom : String := "assign:cs=io.ColumnSeriesUnion(&c.cs, cs)"

/-- the body of `Valid` after the repair -/
def validInsideSkel : List String :=
  ["call:head.Unix", "call:c.tail.Unix", "call:tail.Unix", "call:c.head.Unix",
   "ret:head.Unix() >= c.tail.Unix() && tail.Unix() <= c.head.Unix()", "return"]

/-- minimum / maximum of the record indexes, then `head`, `tail` from them -/
def minMaxSkel : List String :=
  ["assign:minIndex,maxIndex=records[0].Index(),records[0].Index()", "range:records{",
   "call:records[i].Index", "assign:index=records[i].Index()", "if:index < minIndex{",
   "assign:minIndex=index", "}", "if:index > maxIndex{", "assign:maxIndex=index", "}", "}",
   "call:io.IndexToTime", "assign:head=io.IndexToTime(minIndex, tf.Duration, int16(year))",
   "call:io.IndexToTime", "assign:tail=io.IndexToTime(maxIndex, tf.Duration, int16(year))"]

/-- the variant the CURRENT source implements (regenerated from the repository on every run) -/
def codeVariant : Variant :=
  { newWins := Mkts.Extracted.Skel.contrib_ondiskagg_aggtrigger_OnDiskAggTrigger_Fire.contains unionNewWinsAtom,
    validInside := Mkts.Extracted.Skel.contrib_ondiskagg_aggtrigger_cachedAgg_Valid == validInsideSkel,
    minMax := hasSub Mkts.Extracted.Skel.contrib_ondiskagg_aggtrigger_OnDiskAggTrigger_Fire minMaxSkel }

end Mkts.OnDiskAgg
