import Mkts.Lemmas.Repl
/-!
# C25 — Replicas converge to the master

Model: `Mkts.Repl` (replication/replay.go `Replay` / `wtSetToCS` / `serializeVariableRecords`,
receiver.go, executor/writer.go `WriteCSM` / `WriteRecords`, the primary write of a flushed transaction
group, the read-back of a bucket), on top of `Mkts.Store` (fixed-length buckets) and `Mkts.Ticks`.

* `C25_fixed`, `C25_fixed_grouped`, `C25_fixed_multi`: for EVERY history of writes to fixed-length buckets,
  with any grouping of the writes into transaction groups and any number of buckets, the replica's slot
  maps equal the master's (hence every query answer, `C25_fixed_query`).
* The property is FALSE of the code for variable-length buckets and for mixed transactions
  (`C25_full`, `C25_cex_interval`, `C25_cex_mixed_stops`, `C25_cex_mixed_type`).
* `C25_var_partial`: a variable-length record reaches the replica's writer with exactly the timestamp the
  master reads back iff `GetTimeFromTicks` reports a zero second offset (`secOffset = 0`) — the excluded
  class is "the record lies one second or more after its interval start" (every bucket with a timeframe
  above 1 s, and the last half nanosecond of a 1Sec interval).  What the replica's own tick encoding then
  does to that timestamp is C10's subject and is covered here by the correspondence run only.
-/
namespace Mkts.Props.C25
open Mkts.Time Mkts.Bytes Mkts.Store Mkts.Repl

/-! ## fixed-length buckets -/

/-- replica: every command of a transaction group is converted (`wtSetToCS`: interval start, payload) and
    written by the replica's own `WriteRecords`, then flushed -/
def replayFixed (tf : Int) (s : Slots) (tg : List Cmd) : Slots :=
  tg.foldl (fun s c => applyCmds s (writeRecords tf [replicaRow tf c])) s

/-- the replica after a history of write requests, one transaction group per request -/
def replicaHist (tf : Int) (hist : List (List Row)) : Slots :=
  hist.foldl (fun s req => replayFixed tf s (writeRecords tf req)) []

theorem replayFixed_eq (tf : Int) (htf : 0 < tf) (hs : nsPerSec ∣ tf) (tg : List Cmd)
    (ha : ∀ c ∈ tg, Aligned tf c) (s : Slots) : replayFixed tf s tg = applyCmds s tg := by
  induction tg generalizing s with
  | nil => rfl
  | cons c rest ih =>
    have hc := replica_cmd_roundtrip tf c htf hs (ha c List.mem_cons_self)
    simp only [replayFixed, List.foldl_cons, hc]
    have := ih (fun c' h' => ha c' (List.mem_cons_of_mem _ h')) (applyCmds s [c])
    simp only [replayFixed] at this
    rw [this]
    simp [applyCmds]

/-- **C25 for fixed-length buckets**: for every timeframe of whole seconds and every write history the
    replica's slot map equals the master's. -/
theorem C25_fixed (tf : Int) (htf : 0 < tf) (hs : nsPerSec ∣ tf) (hist : List (List Row)) :
    replicaHist tf hist = applyHist tf hist := by
  unfold replicaHist applyHist
  generalize ([] : Slots) = s
  induction hist generalizing s with
  | nil => rfl
  | cons req rest ih =>
    simp only [List.foldl_cons]
    rw [replayFixed_eq tf htf hs _ (writeRecords_aligned tf req)]
    exact ih _

/-- … hence every query answer is the same -/
theorem C25_fixed_query (tf : Int) (htf : 0 < tf) (hs : nsPerSec ∣ tf) (hist : List (List Row)) (q : Query) :
    query tf (replicaHist tf hist) q = query tf (applyHist tf hist) q := by
  rw [C25_fixed tf htf hs hist]

/-- any grouping of the requests into flushed transaction groups (a group = the commands of several
    requests in order): the master applies the group's commands, the replica replays them one by one -/
theorem C25_fixed_grouped (tf : Int) (htf : 0 < tf) (hs : nsPerSec ∣ tf) (groups : List (List (List Row))) :
    groups.foldl (fun s grp => replayFixed tf s (grp.flatMap (writeRecords tf))) [] =
    groups.foldl (fun s grp => applyCmds s (grp.flatMap (writeRecords tf))) [] := by
  generalize ([] : Slots) = s
  induction groups generalizing s with
  | nil => rfl
  | cons grp rest ih =>
    simp only [List.foldl_cons]
    rw [replayFixed_eq tf htf hs]
    · exact ih _
    · intro c hc
      obtain ⟨req, _, hreq⟩ := List.mem_flatMap.mp hc
      exact writeRecords_aligned tf req c hreq

/-- several buckets: a transaction group is a list of (bucket, command); master and replica route by
    bucket.  `tfOf` gives each bucket's timeframe. -/
def applyAt {κ} [DecidableEq κ] (st : κ → Slots) (k : κ) (f : Slots → Slots) : κ → Slots :=
  fun k' => if k' = k then f (st k') else st k'

theorem C25_fixed_multi {κ} [DecidableEq κ] (tfOf : κ → Int) (htf : ∀ k, 0 < tfOf k) (hs : ∀ k, nsPerSec ∣ tfOf k)
    (tgs : List (List (κ × Cmd))) (ha : ∀ tg ∈ tgs, ∀ kc ∈ tg, Aligned (tfOf kc.1) kc.2) (st : κ → Slots) :
    tgs.foldl (fun st tg => tg.foldl (fun st kc =>
        applyAt st kc.1 (fun s => applyCmds s (writeRecords (tfOf kc.1) [replicaRow (tfOf kc.1) kc.2]))) st) st =
    tgs.foldl (fun st tg => tg.foldl (fun st kc => applyAt st kc.1 (fun s => applyCmds s [kc.2])) st) st := by
  induction tgs generalizing st with
  | nil => rfl
  | cons tg rest ih =>
    simp only [List.foldl_cons]
    have hin : ∀ (l : List (κ × Cmd)) (st : κ → Slots), (∀ kc ∈ l, Aligned (tfOf kc.1) kc.2) →
        l.foldl (fun st kc =>
          applyAt st kc.1 (fun s => applyCmds s (writeRecords (tfOf kc.1) [replicaRow (tfOf kc.1) kc.2]))) st =
        l.foldl (fun st kc => applyAt st kc.1 (fun s => applyCmds s [kc.2])) st := by
      intro l
      induction l with
      | nil => intro _ _; rfl
      | cons kc l ihl =>
        intro st hl
        simp only [List.foldl_cons]
        rw [replica_cmd_roundtrip (tfOf kc.1) kc.2 (htf _) (hs _) (hl kc List.mem_cons_self)]
        exact ihl _ (fun kc' h' => hl kc' (List.mem_cons_of_mem _ h'))
    rw [hin tg st (ha tg List.mem_cons_self)]
    exact ih (fun tg' h' => ha tg' (List.mem_cons_of_mem _ h')) _

/-! ### tie to the replay model: what `wtSetToCS` and the replica's `WriteCSM` do with a fixed set -/

theorem C25_wtSetToCS_fixed {κ} (tfOf : κ → Option Int) (k : κ) (tf y i : Int) (v : Nat) (d : Bytes) (cols : Cols)
    (h : tfOf k = some tf) :
    wtSetToCS tfOf ⟨.fixed, k, y, i, v, d, cols⟩ =
      some ⟨k, cols, false, [((replicaRow tf ⟨y, i, d⟩).sec, 0, d)]⟩ := by
  simp [wtSetToCS, h, replicaRow]

/-- the error returns of `wtSetToCS` -/
theorem C25_wtSetToCS_errors {κ} (tfOf : κ → Option Int) (k : κ) (y i : Int) (v : Nat) (d : Bytes) (cols : Cols) :
    wtSetToCS tfOf ⟨.notype, k, y, i, v, d, cols⟩ = none ∧
    wtSetToCS tfOf ⟨.variable, k, y, i, 0, d, cols⟩ = none := by
  constructor <;> (simp only [wtSetToCS]; split <;> simp)

/-! ## variable-length buckets: the timestamp handed to the replica's writer -/

theorem orig_sec (start ipd k : Int) (h0 : 0 ≤ start) (h1 : start < 18446744073709551616)
    (hz : (Mkts.Ticks.getTimeFromTicksOld Mkts.Ticks.rne 0 ipd k).sec = 0) :
    (Mkts.Ticks.getTimeFromTicksOld Mkts.Ticks.rne start ipd k).sec = start ∧
    (Mkts.Ticks.getTimeFromTicksOld Mkts.Ticks.rne start ipd k).nanos =
      (Mkts.Ticks.getTimeFromTicksOld Mkts.Ticks.rne 0 ipd k).nanos := by
  have hr : 0 ≤ Mkts.Ticks.roundedOff Mkts.Ticks.rne ipd k ∧
      Mkts.Ticks.roundedOff Mkts.Ticks.rne ipd k < 18446744073709551616 := by
    unfold Mkts.Ticks.roundedOff Mkts.Ticks.toUint64 Mkts.Ticks.two64
    split <;> omega
  simp only [Mkts.Ticks.getTimeFromTicksOld, Mkts.Ticks.two64] at hz ⊢
  constructor
  · omega
  · trivial

theorem fixed_sec (start ipd k : Int) (h0 : 0 ≤ start) (h1 : start < 18446744073709551616)
    (hz : (Mkts.Ticks.getTimeFromTicksFixed Mkts.Ticks.rne 0 ipd k).sec = 0) :
    (Mkts.Ticks.getTimeFromTicksFixed Mkts.Ticks.rne start ipd k).sec = start ∧
    (Mkts.Ticks.getTimeFromTicksFixed Mkts.Ticks.rne start ipd k).nanos =
      (Mkts.Ticks.getTimeFromTicksFixed Mkts.Ticks.rne 0 ipd k).nanos := by
  have hw : 0 ≤ Mkts.Ticks.wholeOff Mkts.Ticks.rne ipd k ∧
      Mkts.Ticks.wholeOff Mkts.Ticks.rne ipd k < 18446744073709551616 := by
    unfold Mkts.Ticks.wholeOff Mkts.Ticks.toUint64 Mkts.Ticks.two64
    split <;> omega
  unfold Mkts.Ticks.getTimeFromTicksFixed Mkts.Ticks.two64 at hz ⊢
  by_cases hc : 1000000000 ≤ Mkts.Ticks.nanosRaw Mkts.Ticks.rne ipd k
  · simp only [if_pos hc] at hz ⊢
    constructor
    · omega
    · trivial
  · simp only [if_neg hc] at hz ⊢
    constructor
    · omega
    · trivial

theorem decoded_sec (start ipd k : Int) (h0 : 0 ≤ start) (h1 : start < Mkts.Ticks.two64)
    (hz : (decodeTicks 0 ipd k).sec = 0) :
    (decodeTicks start ipd k).sec = start ∧ (decodeTicks start ipd k).nanos = (decodeTicks 0 ipd k).nanos := by
  unfold Mkts.Ticks.two64 at h1
  unfold decodeTicks at hz ⊢
  split
  · rename_i hb
    rw [if_pos hb] at hz
    exact orig_sec start ipd k h0 h1 hz
  · rename_i hb
    rw [if_neg hb] at hz
    exact fixed_sec start ipd k h0 h1 hz

/-- **partial theorem for variable-length records**: if `GetTimeFromTicks` reports no whole second for
    the record's ticks (`secOffset = 0`), the (Epoch, Nanoseconds) pair `wtSetToCS` hands to the replica's
    writer is exactly the stamp the master's reader gives the record. -/
theorem C25_var_partial (tf year index k : Int)
    (h0 : 0 ≤ indexToTime utc index tf year / nsPerSec)
    (h1 : indexToTime utc index tf year / nsPerSec < Mkts.Ticks.two64)
    (hz : secOffset tf k = 0) :
    masterStamp tf year index k =
      (indexToTime utc index tf year / nsPerSec, (decodeTicks 0 (ipdOf tf) k).nanos) := by
  unfold masterStamp
  obtain ⟨a, b⟩ := decoded_sec _ (ipdOf tf) k h0 h1 hz
  simp only [a, b]

/-- the nanosecond column `wtSetToCS` writes is that nanosecond value (as int32) -/
theorem C25_replicaNanos (tf k : Int) (h : (decodeTicks 0 (ipdOf tf) k).nanos < 2147483648) :
    replicaNanos tf k = (decodeTicks 0 (ipdOf tf) k).nanos := by
  simp [replicaNanos, h]

/-! ## the full property and why it fails -/

/-- bucket keys of the counterexamples: 0 = a fixed 1Min bucket, 1 = a variable 1Min bucket -/
def tf1Min : Nat → Option Int := fun _ => some 60000000000

/-- answers of master and replica for one bucket after a history, bounds far outside the data -/
def answers (steps : List (List (CS Nat) × Bool)) (key : Nat) (lo hi : Int) :
    Option (Option (List OutRow) × Option (List OutRow)) :=
  match masterRun tf1Min steps with
  | none => none
  | some (mbs, tgs) =>
    let rbs := (receive tf1Min [] tgs 0).1
    some ((findB mbs key).map (fun b => readBucket b lo hi), (findB rbs key).map (fun b => readBucket b lo hi))

/-- C25 as stated, on the model (1Min buckets suffice): after the replica has applied every transmitted
    transaction, it answers like the master — variable-length timestamps within one tick. -/
def C25_full : Prop :=
  ∀ (steps : List (List (CS Nat) × Bool)) (key : Nat) (lo hi : Int) (m r : List OutRow),
    answers steps key lo hi = some (some m, some r) → sameAnswer 60000000000 m r = true

/-- one variable-length write: 2020-01-01 00:00:30.25 into a 1Min bucket, one int32 column -/
def stepsInterval : List (List (CS Nat) × Bool) :=
  [([⟨1, [("c0", "int32")], true, [(1577836830, 250000000, [1, 0, 0, 0])]⟩], true)]

def farLo : Int := 1577664000 * 1000000000
def farHi : Int := 1578009600 * 1000000000

/-- the master reads the record back at :30.249999999, the replica at :00.249999985 — 30 s early -/
theorem C25_cex_interval_values :
    answers stepsInterval 1 farLo farHi =
      some (some [⟨1577836830, 249999999, [1, 0, 0, 0]⟩], some [⟨1577836800, 249999985, [1, 0, 0, 0]⟩]) := by
  decide +kernel

theorem C25_cex_interval : ¬ C25_full := by
  intro h
  have := h stepsInterval 1 farLo farHi _ _ C25_cex_interval_values
  revert this
  decide +kernel

/-- a fixed bucket (key 0) and a variable bucket (key 1) exist on both sides; then ONE WriteCSM call
    writes both (flag false) = one transaction group [fixed set, variable set] -/
def stepsMixed : List (List (CS Nat) × Bool) :=
  [([⟨0, [("c0", "int32")], false, [(1577836800, 0, [1, 0, 0, 0])]⟩], false),
   ([⟨1, [("c0", "int32")], true, [(1577836800, 5, [2, 0, 0, 0])]⟩], true),
   ([⟨0, [("c0", "int32")], false, [(1577836860, 0, [3, 0, 0, 0])]⟩,
     ⟨1, [("c0", "int32")], false, [(1577836860, 0, [4, 0, 0, 0])]⟩], false)]

/-- `Replay` writes the variable set with `isVariableLength = false` (record type of the FIRST set): the
    Nanoseconds column is not removed, the column check against the variable bucket fails, `Replay` returns
    an error and `Receiver.Run` ends: replication stops at transaction group 2 (the fixed set before it
    was applied, the variable record is missing on the replica). -/
theorem C25_cex_mixed_stops :
    (match masterRun tf1Min stepsMixed with
     | some (_, tgs) => (receive tf1Min [] tgs 0).2
     | none => none) = some 2 ∧
    answers stepsMixed 1 farLo farHi =
      some (some [⟨1577836800, 0, [2, 0, 0, 0]⟩, ⟨1577836860, 0, [4, 0, 0, 0]⟩],
            some [⟨1577836800, 0, [2, 0, 0, 0]⟩]) := by
  decide +kernel

theorem C25_cex_mixed : ¬ C25_full := by
  intro h
  have := h stepsMixed 1 farLo farHi _ _ C25_cex_mixed_stops.2
  revert this
  decide +kernel

/-- the cause, as a fact about `Replay`: the flag of EVERY write of a transaction group is the record type
    of its first set. -/
theorem C25_replay_flag_of_first {κ} [DecidableEq κ] (tfOf : κ → Option Int) (bs : List (Bucket κ))
    (w : WSet κ) (rest : List (WSet κ)) :
    replay tfOf bs (w :: rest) = replayAux tfOf (w.rt == .variable) bs (w :: rest) := rfl

/-! ## non-vacuity -/

/-- `C25_fixed` on a two-request history with a duplicate interval and two years -/
example : replicaHist 60000000000 [[⟨1577836800, [1]⟩, ⟨1609459200, [2]⟩], [⟨1577836830, [3]⟩]] =
    [((2020, 1), [3]), ((2021, 1), [2])] := by decide +kernel

/-- `C25_var_partial`'s hypothesis holds for a 1Sec record at +0.25 s and fails for the 1Min record at +30.25 s -/
example : secOffset 1000000000 1073741824 = 0 ∧ secOffset 60000000000 2165379345 = 30 := by decide +kernel

/-- the model agrees with the fixed-bucket theorem's functions on a concrete run of the FULL replay model -/
example :
    answers [([⟨0, [("c0", "int32")], false, [(1577836800, 0, [1, 0, 0, 0]), (1577836830, 0, [2, 0, 0, 0])]⟩], false)]
      0 farLo farHi = some (some [⟨1577836800, 0, [2, 0, 0, 0]⟩], some [⟨1577836800, 0, [2, 0, 0, 0]⟩]) := by decide +kernel

end Mkts.Props.C25
