import Mkts.Model.Bytes
import Mkts.Model.Float
/-!
# Schema check and type coercion of `WriteCSM` (C14), core Lean only

`utils/io/generics.go` (`AnySet`: Intersect / Contains / Subtract on ordered lists),
`utils/io/columnseries.go` (`GetMissingAndTypeCoercionColumns`, `ExtractDatashapesByNames`,
`ToRowSeries` = `SerializeColumnsToRows` in the INPUT's column order),
`utils/io/coercecolumn.go` (`CoerceColumnType`, `toInt`/`toUint`/`toFloat`),
`executor/writer.go` (`WriteCSM`: length test, missing ⇒ error, coercion, per-bucket queueing, one
flush at the end of a request that had no error).

A value is the little-endian byte string of the column element.  Go's numeric conversions:
integer → integer wraps (two's complement), integer → float rounds to nearest even (via float64,
then to float32: two roundings, as in the code), float → integer truncates toward zero and is
IMPLEMENTATION-DEFINED when the truncated value does not fit the intermediate `int64` / `uint64`
(or is NaN): `convert` returns `none` there and every theorem excludes that class explicitly.
-/
namespace Mkts.Coerce
open Mkts.Bytes

abbrev Str := List UInt8

/-- element types by their `EnumElementType` value -/
inductive Ty where
  | i8 | i16 | i32 | i64 | u8 | u16 | u32 | u64 | f32 | f64 | str16
deriving DecidableEq, Repr

def Ty.enum : Ty → Nat
  | .f32 => 0 | .i32 => 1 | .f64 => 2 | .i64 => 3 | .i8 => 5 | .i16 => 9 | .u8 => 10 | .u16 => 11 | .u32 => 12
  | .u64 => 13 | .str16 => 14

def Ty.size : Ty → Nat
  | .i8 | .u8 => 1 | .i16 | .u16 => 2 | .i32 | .u32 | .f32 => 4 | .i64 | .u64 | .f64 => 8 | .str16 => 64

inductive Kind where | int | uint | float | other
deriving DecidableEq

def Ty.kind : Ty → Kind
  | .i8 | .i16 | .i32 | .i64 => .int
  | .u8 | .u16 | .u32 | .u64 => .uint
  | .f32 | .f64 => .float
  | .str16 => .other

/-- a data shape: column name and type -/
structure DS where
  name : Str
  ty : Ty
deriving DecidableEq, Repr

/-! ## `AnySet` -/

/-- `as.Intersect(input)`: the elements of the INPUT that are in the set -/
def intersect {α} [DecidableEq α] (set input : List α) : List α := input.filter (· ∈ set)

/-- `as.Contains(input)` -/
def contains {α} [DecidableEq α] (set input : List α) : Bool :=
  !input.isEmpty && (intersect set input).length == input.length

/-- `as.Subtract(input)`: ordered elements of the set (duplicates kept) not in set ∩ input -/
def subtract {α} [DecidableEq α] (set input : List α) : List α :=
  if input.isEmpty then set else set.filter (fun x => x ∉ intersect set input)

def names (l : List DS) : List Str := l.map (·.name)

/-- `ExtractDatashapesByNames`: map name ↦ shape (the LAST shape of a name wins), then the names in order -/
def extract (dsv : List DS) (ns : List Str) : List DS :=
  ns.filterMap (fun n => dsv.reverse.find? (·.name = n))

inductive GMErr where | emptySet | nilDeref
deriving DecidableEq, Repr

/-- `GetMissingAndTypeCoercionColumns(requiredDSV, availableDSV)` -/
def getMissingAndTypeCoercionColumns (req avail : List DS) : Except GMErr (List DS × List DS) :=
  if avail.isEmpty then .error .emptySet
  else if contains avail req then .ok ([], [])
  else if req.isEmpty then .error .emptySet
  else
    let missingDSV := subtract req avail
    let allMissingNames := subtract (names req) (names avail)
    if missingDSV.length = allMissingNames.length then .ok (extract req allMissingNames, [])
    else if missingDSV.isEmpty then .error .nilDeref
    else .ok (extract req allMissingNames, extract req (subtract (names missingDSV) allMissingNames))

/-! ## conversions -/

def fmtOf : Ty → Mkts.Float.Fmt
  | .f32 => Mkts.Float.b32
  | _ => Mkts.Float.b64

/-- the integer a value of an integer type denotes -/
def intOf (t : Ty) (b : Bytes) : Int :=
  match t.kind with
  | .int => leDecodeInt b
  | _ => (leDecode b : Int)

/-- truncation toward zero of a finite float; `none` for NaN / ±Inf -/
def truncFloat (f : Mkts.Float.Fmt) (bits : Nat) : Option Int :=
  match Mkts.Float.decode f bits with
  | .fin neg m e =>
    let mag : Nat := if e < 0 then m / 2 ^ e.natAbs else m * 2 ^ e.toNat
    some (if neg then -(mag : Int) else mag)
  | _ => none

/-- `v.Float()` of reflect: float32 is widened (exactly) to float64 -/
def toF64Bits (t : Ty) (b : Bytes) : Nat :=
  if t = .f32 then Mkts.Float.convert Mkts.Float.b32 Mkts.Float.b64 (leDecode b) else leDecode b

/-- `CoerceColumnType` on one element: source type, target type, source bytes.
    `none` = implementation-defined float → integer conversion (excluded class). -/
def convert (src dst : Ty) (b : Bytes) : Option Bytes :=
  if src.kind = .other then none else
  match dst.kind with
  | .int =>   -- intN(toInt(v))
    (match src.kind with
      | .float => (truncFloat Mkts.Float.b64 (toF64Bits src b)).bind (fun z =>
          if -(2 : Int) ^ 63 ≤ z ∧ z < 2 ^ 63 then some (leInt dst.size z) else none)
      | _ => some (leInt dst.size (intOf src b)))
  | .uint =>  -- uintN(toUint(v))
    (match src.kind with
      | .float => (truncFloat Mkts.Float.b64 (toF64Bits src b)).bind (fun z =>
          if 0 ≤ z ∧ z < 2 ^ 64 then some (leInt dst.size z) else none)
      | _ => some (leInt dst.size (intOf src b)))
  | .float => -- floatN(toFloat(v)): always through float64
    let f64 : Nat := match src.kind with
      | .float => toF64Bits src b
      | .int => Mkts.Float.ofInt Mkts.Float.b64 (intOf src b)
      | _ => Mkts.Float.ofInt Mkts.Float.b64 (wrapU64 (intOf src b))
    some (if dst = .f32 then le 4 (Mkts.Float.convert Mkts.Float.b64 Mkts.Float.b32 f64) else le 8 f64)
  | .other => none
where
  /-- `toFloat` of an unsigned value goes through `v.Uint()` (no wrap needed: already ≥ 0) -/
  wrapU64 (z : Int) : Int := z

/-! ## one bucket of a write request -/

/-- a column of the request: shape and one value per row -/
structure Col where
  ds : DS
  vals : List Bytes
deriving Repr, DecidableEq

inductive Reject where
  | mismatch      -- "unable to match data columns"
  | castString    -- "can not cast to boolean or string"
  | other
  | panicReflect  -- reflect panic: numeric read of a non-numeric column
  | undefinedConv -- outside the model: implementation-defined float → integer conversion
deriving DecidableEq, Repr

/-- `cs.CoerceColumnType(name, ty)` applied to the request's columns -/
def coerceColumn (cols : List Col) (d : DS) : Except Reject (List Col) :=
  if d.ty = .str16 then .error .castString else
  cols.mapM (fun c =>
    if c.ds.name = d.name then
      (if c.ds.ty.kind = .other then .error .panicReflect else
        match c.vals.mapM (convert c.ds.ty d.ty) with
        | some vs => .ok ⟨⟨c.ds.name, d.ty⟩, vs⟩
        | none => .error .undefinedConv)
    else .ok c)

def epochName : Str := [69, 112, 111, 99, 104]
def epochDS : DS := ⟨epochName, .i64⟩

/-- schema test + coercion of `WriteCSM` for one bucket: `db` = bucket columns without Epoch,
    `cols` = request columns without Epoch (both sides get the Epoch:int64 shape prepended, as in
    the code). Result: the request's columns, in the REQUEST's order, with bucket types. -/
def checkAndCoerce (db : List DS) (cols : List Col) : Except Reject (List Col) :=
  let dbDSV := epochDS :: db
  let csDSV := epochDS :: cols.map (·.ds)
  if dbDSV.length ≠ csDSV.length then .error .mismatch else
  match getMissingAndTypeCoercionColumns dbDSV csDSV with
  | .error _ => .error .other
  | .ok (missing, coercion) =>
    if !missing.isEmpty then .error .mismatch else
    coercion.foldlM coerceColumn cols

/-- `ToRowSeries` + chopping the Epoch: the payload of row `i` = the columns' elements in the
    request's column order -/
def rowPayload (cols : List Col) (i : Nat) : Bytes := (cols.map (fun c => c.vals.getD i [])).flatten

/-- what the property demands for an accepted write: for every BUCKET column, in bucket order, the
    value of the request column of that NAME converted to the bucket's type -/
def specPayload (db : List DS) (cols : List Col) (i : Nat) : Option Bytes :=
  (db.mapM (fun d => (cols.find? (·.ds.name = d.name)).bind (fun c =>
    if c.ds.ty = d.ty then some (c.vals.getD i []) else convert c.ds.ty d.ty (c.vals.getD i [])))).map List.flatten

/-! ## a whole write request (`WriteCSM` over the buckets of the request) -/

/-- one bucket's part of a request -/
structure Part where
  key : String
  cols : List Col
  secs : List Int
deriving Repr, DecidableEq

/-- a row queued on the write channel -/
structure Queued where
  key : String
  sec : Int
  payload : Bytes
deriving Repr, DecidableEq

def partRows (key : String) (cols : List Col) (secs : List Int) : List Queued :=
  (List.range secs.length).map (fun i => ⟨key, secs.getD i 0, rowPayload cols i⟩)

/-- the two repaired statements of `WriteCSM`; `⟨false, false⟩` is the code before the repairs -/
structure Variant where
  /-- the columns are re-ordered to the bucket's schema (`cs.Project(bucket names)`) before
      `ToRowSeries` (repair of C14-F8) -/
  ordered : Bool
  /-- records are queued only after every bucket of the request has passed validation (C14-F8b) -/
  atomic : Bool
deriving DecidableEq, Repr

/-- `cs.Project(keepList)`: the columns named in `keepList`, in that order -/
def projectCols (ns : List Str) (cols : List Col) : List Col :=
  ns.filterMap (fun n => cols.find? (fun c => decide (c.ds.name = n)))

/-- the columns as `ToRowSeries` sees them -/
def serialCols (v : Variant) (db : List DS) (cols : List Col) : List Col :=
  if v.ordered then projectCols (names db) cols else cols

/-- the loop of `WriteCSM` over the buckets in the (random) iteration order `parts`: each valid
    bucket's rows are queued at once; the first failing bucket returns the error WITHOUT flushing and
    without un-queueing.  `schema key` = bucket columns (`none` = no such bucket: auto-create with
    the request's shapes).  Returns the error (if any), the rows queued by this request, and the
    buckets auto-created on the way. -/
def writeCSMLoop (v : Variant) (schema : String → Option (List DS)) :
    List Part → List Queued → List (String × List DS) → Option Reject × List Queued × List (String × List DS)
  | [], q, created => (none, q, created)
  | p :: rest, q, created =>
    if p.secs.isEmpty then writeCSMLoop v schema rest q created else
    let (db, created') := match schema p.key, created.lookup p.key with
      | some db, _ => (db, created)
      | none, some db => (db, created)
      | none, none => (p.cols.map (·.ds), created ++ [(p.key, p.cols.map (·.ds))])
    match checkAndCoerce db p.cols with
    | .error e => (some e, if v.atomic then [] else q, created')
    | .ok cols' => writeCSMLoop v schema rest (q ++ partRows p.key (serialCols v db cols') p.secs) created'

/-- the write channel across requests: a failed request leaves its queued rows pending; the next
    successful request's flush commits them together with its own -/
structure Chan where
  pending : List Queued
deriving Repr, DecidableEq

/-- one request: result, new channel state, rows committed (flushed) by this request, auto-created buckets -/
def request (v : Variant) (schema : String → Option (List DS)) (ch : Chan) (parts : List Part) :
    Option Reject × Chan × List Queued × List (String × List DS) :=
  match writeCSMLoop v schema parts [] [] with
  | (some e, q, created) => (some e, ⟨ch.pending ++ q⟩, [], created)
  | (none, q, created) => (none, ⟨[]⟩, ch.pending ++ q, created)

/-- the property's demand for a request: all-or-nothing, columns matched by name -/
def specRequest (schema : String → Option (List DS)) (parts : List Part) : Option (List Queued) :=
  let ok := parts.all (fun p =>
    match schema p.key with
    | none => true
    | some db => (names (db) |>.all (fun n => (p.cols.map (·.ds.name)).contains n)) && db.length == p.cols.length)
  if !ok then some [] else
  (parts.mapM (fun p =>
    let db := (schema p.key).getD (p.cols.map (·.ds))
    ((List.range p.secs.length).mapM (fun i => (specPayload db p.cols i).map (fun pl => (⟨p.key, p.secs.getD i 0, pl⟩ : Queued)))))).map
    List.flatten

end Mkts.Coerce
