import Mkts.Model.Timeframe
import Mkts.Lemmas.Calendar
/-! Lemmas about `utils/timeframe.go`'s model (core Lean). -/
namespace Mkts.Timeframe
open Mkts.Time

/-! ## `Time.Truncate` -/

theorem goTruncate_le (t d : Int) : goTruncate t d ≤ t := by
  unfold goTruncate
  split
  · exact Int.le_refl _
  · have := Int.emod_nonneg (t - goZero) (show d ≠ 0 by omega)
    omega

theorem goTruncate_add_self (t d : Int) (hd : 0 < d) : goTruncate (t + d) d = goTruncate t d + d := by
  unfold goTruncate
  have h : ¬ d ≤ 0 := by omega
  simp only [h, if_false]
  have : (t + d - goZero) % d = (t - goZero) % d := by
    have : t + d - goZero = t - goZero + d := by omega
    rw [this, Int.add_emod_right]
  omega

theorem lt_goTruncate_add (t d : Int) (hd : 0 < d) : t < goTruncate t d + d := by
  unfold goTruncate
  have h : ¬ d ≤ 0 := by omega
  simp only [h, if_false]
  have := Int.emod_lt_of_pos (t - goZero) hd
  omega

theorem goTruncate_idem (t d : Int) : goTruncate (goTruncate t d) d = goTruncate t d := by
  unfold goTruncate
  split
  · rfl
  · have h1 : (t - (t - goZero) % d - goZero) = (t - goZero) - (t - goZero) % d := by omega
    have h2 : ((t - goZero) - (t - goZero) % d) % d = 0 := by
      have := Int.emod_emod_of_dvd (t - goZero) (Int.dvd_refl d)
      rw [Int.sub_emod, this]; simp
    rw [h1, h2]; omega

/-- every window start is a multiple of the duration away from Go's zero time -/
theorem goTruncate_aligned (t d : Int) (hd : 0 < d) : (goTruncate t d - goZero) % d = 0 := by
  unfold goTruncate
  have h : ¬ d ≤ 0 := by omega
  simp only [h, if_false]
  have h1 : (t - (t - goZero) % d - goZero) = (t - goZero) - (t - goZero) % d := by omega
  have := Int.emod_emod_of_dvd (t - goZero) (Int.dvd_refl d)
  rw [h1, Int.sub_emod, this]; simp

/-- an instant has the window start `s` iff it lies in `[s, s + d)` (for aligned `s`) -/
theorem goTruncate_eq_iff (t s d : Int) (hd : 0 < d) (hs : (s - goZero) % d = 0) :
    goTruncate t d = s ↔ s ≤ t ∧ t < s + d := by
  constructor
  · intro h
    have a := goTruncate_le t d
    have b := lt_goTruncate_add t d hd
    omega
  · intro ⟨h1, h2⟩
    unfold goTruncate
    have h : ¬ d ≤ 0 := by omega
    simp only [h, if_false]
    have e : t - goZero = (t - s) + (s - goZero) := by omega
    have : (t - goZero) % d = t - s := by
      rw [e, Int.add_emod, hs]
      simp only [Int.add_zero, Int.emod_emod_of_dvd _ (Int.dvd_refl d)]
      exact Int.emod_eq_of_lt (by omega) (by omega)
    omega

/-- nesting: when the fine duration divides the coarse one, truncating to the fine window first
    does not change the coarse window -/
theorem goTruncate_nest (t f c : Int) (hf : 0 < f) (hc : 0 < c) (hdiv : f ∣ c) :
    goTruncate (goTruncate t f) c = goTruncate t c := by
  have al := goTruncate_aligned t c hc
  rw [goTruncate_eq_iff _ _ _ hc al]
  have a := goTruncate_le t c
  have b := lt_goTruncate_add t c hc
  have a' := goTruncate_le t f
  refine ⟨?_, by omega⟩
  -- goTruncate t c is f-aligned and ≤ t, hence ≤ goTruncate t f
  have alf : (goTruncate t c - goZero) % f = 0 := by
    have := Int.emod_emod_of_dvd (goTruncate t c - goZero) hdiv
    rw [al] at this
    simpa using this.symm
  -- t is in the f-window starting at goTruncate t f; an f-aligned point ≤ t is ≤ that start
  apply Classical.byContradiction
  intro hlt
  have hlt : goTruncate t f < goTruncate t c := by omega
  have alf2 := goTruncate_aligned t f hf
  have b' := lt_goTruncate_add t f hf
  -- two f-aligned points strictly within distance f
  have hd : (goTruncate t c - goTruncate t f) % f = 0 := by
    have e : goTruncate t c - goTruncate t f = (goTruncate t c - goZero) - (goTruncate t f - goZero) := by omega
    rw [e, Int.sub_emod, alf, alf2]; simp
  have hpos : 0 < goTruncate t c - goTruncate t f := by omega
  have hlt2 : goTruncate t c - goTruncate t f < f := by omega
  have := Int.emod_eq_of_lt (Int.le_of_lt hpos) hlt2
  omega

/-! ## UTC -/

theorem utc_dayStart (d : Int) : dayStart utc d = d * 86400000000000 := by
  simp [dayStart, secPerDay, nsPerSec]; omega

theorem utc_localDays_dayStart (d : Int) : localDays utc (d * 86400000000000) = d := by
  rw [utc_localDays]; omega

/-! ## the parser -/

theorem digitsVal_foldl_nonneg (s : Str) (a : Int) (ha : 0 ≤ a) :
    0 ≤ s.foldl (fun acc c => acc * 10 + digitVal c) a := by
  induction s generalizing a with
  | nil => simpa
  | cons c cs ih =>
    simp only [List.foldl_cons]
    apply ih
    have : 0 ≤ digitVal c := by unfold digitVal; omega
    omega

theorem digitsVal_nonneg (s : Str) : 0 ≤ digitsVal s := digitsVal_foldl_nonneg s 0 (Int.le_refl 0)

theorem atoiClamp_range (s : Str) : 0 ≤ atoiClamp s ∧ atoiClamp s ≤ maxInt64 := by
  have := digitsVal_nonneg s
  unfold atoiClamp maxInt64
  omega

/-- what `CandleDurationFromString` guarantees about its result -/
structure Parsed (cd : CandleDuration) : Prop where
  dur : cd.duration = wrap64 (cd.mult * suffixDur cd.suffix)
  lo : 0 ≤ cd.mult
  hi : cd.mult ≤ maxInt64

theorem parsed_of_fromString {s : Str} {cd : CandleDuration} (h : candleDurationFromString s = some cd) :
    Parsed cd := by
  unfold candleDurationFromString at h
  split at h
  · cases h
  · rename_i ds sf _
    simp only [Option.some.injEq] at h
    subst h
    have r := atoiClamp_range ds
    exact ⟨rfl, r.1, r.2⟩

theorem wrap64_id (x : Int) (h1 : -two63 ≤ x) (h2 : x < two63) : wrap64 x = x := by
  unfold wrap64 two63 two64 at *; omega

theorem suffixDur_pos (s : Suffix) (h : s ≠ .M) : 0 < suffixDur s := by
  cases s <;> first | decide | contradiction

/-! ## QueryableTimeframe -/

theorem find_some_mem {α : Type} (p : α → Bool) (l : List α) (a : α) (h : l.find? p = some a) :
    a ∈ l ∧ p a = true := ⟨List.mem_of_find?_eq_some h, List.find?_some h⟩

/-! ## an instant is inside its own window -/

theorem within_self_fixed (cd : CandleDuration) (z : Zone) (t : Int)
    (h : cd.suffix = .Sec ∨ cd.suffix = .Min ∨ cd.suffix = .H) :
    isWithin cd z t (truncate cd z t) = true := by
  obtain ⟨str, dur, suf, mult⟩ := cd
  rcases h with h | h | h <;> simp only at h <;> subst h <;> simp [isWithin, truncate]

theorem within_self_D_utc (cd : CandleDuration) (t : Int) (h : cd.suffix = .D) :
    isWithin cd utc t (truncate cd utc t) = true := by
  obtain ⟨str, dur, suf, mult⟩ := cd
  simp only at h; subst h
  simp only [isWithin, truncate, utc_dayStart, utc_localDays, beq_iff_eq]
  omega

theorem within_self_M_utc (cd : CandleDuration) (t : Int) (h : cd.suffix = .M) :
    isWithin cd utc t (truncate cd utc t) = true := by
  obtain ⟨str, dur, suf, mult⟩ := cd
  simp only at h; subst h
  simp only [isWithin, truncate, utc_dayStart, localYear, localMonth, utc_localDays_dayStart,
    yearOfDays_monthFloor, monthOfDays_monthFloor, if_true]

theorem isoThursday_goTruncate_week (t : Int) :
    isoThursday (goTruncate t week / 86400000000000) = isoThursday (t / 86400000000000) := by
  unfold isoThursday weekdayMon0 goTruncate goZero week Mkts.Extracted.utils_Week
  simp only [show ¬ ((604800000000000 : Int) ≤ 0) by decide, if_false]
  omega

theorem within_self_W_utc (cd : CandleDuration) (t : Int) (hp : Parsed cd) (h : cd.suffix = .W)
    (hm : cd.mult ≤ 1) : isWithin cd utc t (truncate cd utc t) = true := by
  obtain ⟨str, dur, suf, mult⟩ := cd
  simp only at h hm; subst h
  have hd := hp.dur
  have hlo := hp.lo
  simp only [suffixDur] at hd hlo
  have hm' : mult = 0 ∨ mult = 1 := by omega
  simp only [isWithin, truncate, utc_localDays, beq_iff_eq]
  rcases hm' with h0 | h1
  · subst h0
    have : dur = 0 := by rw [hd]; decide
    subst this
    simp [goTruncate]
  · subst h1
    have : dur = week := by rw [hd]; decide
    subst this
    unfold isoWeek
    simp only [isoThursday_goTruncate_week]

theorem within_self_Y_utc (cd : CandleDuration) (t : Int) (hp : Parsed cd) (h : cd.suffix = .Y)
    (hno : cd.duration = cd.mult * suffixDur cd.suffix) : isWithin cd utc t (truncate cd utc t) = true := by
  obtain ⟨str, dur, suf, mult⟩ := cd
  simp only at h; subst h
  have hlo := hp.lo
  simp only [suffixDur, year, Mkts.Extracted.utils_Year] at hno hlo
  simp only [isWithin, truncate, localYear, utc_localDays, decide_eq_true_eq]
  have a := goTruncate_le t dur
  by_cases hd : 0 < dur
  · have b := lt_goTruncate_add t dur hd
    apply yearOfDays_diff_le _ _ mult hlo
    omega
  · have : goTruncate t dur = t := by simp [goTruncate, hd]
    rw [this]; omega


/-! ## more about `Time.Truncate` (used by C22) -/

/-- an aligned point at or before `t` is at or before `t`'s window start -/
theorem le_goTruncate_of_aligned (s t d : Int) (hd : 0 < d) (hs : (s - goZero) % d = 0) (hst : s ≤ t) :
    s ≤ goTruncate t d := by
  apply Classical.byContradiction
  intro hlt
  have hlt : goTruncate t d < s := by omega
  have al := goTruncate_aligned t d hd
  have b := lt_goTruncate_add t d hd
  have hdm : (s - goTruncate t d) % d = 0 := by
    have e : s - goTruncate t d = (s - goZero) - (goTruncate t d - goZero) := by omega
    rw [e, Int.sub_emod, hs, al]; simp
  have := Int.emod_eq_of_lt (show 0 ≤ s - goTruncate t d by omega) (show s - goTruncate t d < d by omega)
  omega

theorem goTruncate_mono (a b d : Int) (hab : a ≤ b) : goTruncate a d ≤ goTruncate b d := by
  by_cases hd : 0 < d
  · exact le_goTruncate_of_aligned _ _ _ hd (goTruncate_aligned a d hd) (Int.le_trans (goTruncate_le a d) hab)
  · have : d ≤ 0 := by omega
    simp [goTruncate, this, hab]

/-- window starts are whole seconds when the duration is -/
theorem goTruncate_whole_second (t d : Int) (hd : 0 < d) (h : d % 1000000000 = 0) :
    goTruncate t d % 1000000000 = 0 := by
  have al := goTruncate_aligned t d hd
  have h1 : (goTruncate t d - goZero) % 1000000000 = 0 := by
    have := Int.emod_emod_of_dvd (goTruncate t d - goZero) (Int.dvd_of_emod_eq_zero h)
    rw [al] at this; simpa using this.symm
  unfold goZero at h1
  omega

/-- in UTC a `D` window is the 24-hour block of `Time.Truncate` -/
theorem utc_day_is_block (t : Int) : dayStart utc (localDays utc t) = goTruncate t day := by
  rw [utc_dayStart, utc_localDays]
  unfold goTruncate goZero day Mkts.Extracted.utils_Day
  simp only [show ¬ ((86400000000000 : Int) ≤ 0) by decide, if_false]
  omega

/-! ## tables -/

/-- every entry of `Timeframes` parses back to its own duration -/
theorem timeframes_parse : ∀ tf ∈ timeframes, timeframeFromString tf.1 = some tf.2 := by decide


/-- the parser's durations are whole seconds unless the product overflowed -/
theorem second_dvd_of_noOverflow (cd : CandleDuration) (h : cd.duration = cd.mult * suffixDur cd.suffix) : second ∣ cd.duration := by
  rw [h]
  refine Int.dvd_trans ?_ (Int.dvd_mul_left _ _)
  generalize cd.suffix = sf
  cases sf <;> decide


theorem rt_sec : ∀ k : Fin 60, 1 ≤ k.val → roundTripOK ((k.val : Int) * second) = true := by decide
theorem rt_min : ∀ k : Fin 60, 1 ≤ k.val → roundTripOK ((k.val : Int) * minute) = true := by decide
theorem rt_hour : ∀ k : Fin 24, 1 ≤ k.val → roundTripOK ((k.val : Int) * hour) = true := by decide
theorem rt_day : ∀ k : Fin 7, 1 ≤ k.val → roundTripOK ((k.val : Int) * day) = true := by decide
theorem rt_week : ∀ k : Fin 53, 1 ≤ k.val → roundTripOK ((k.val : Int) * week) = true := by decide
theorem rt_year : roundTripOK year = true := by decide

theorem rt_of_multiple (d u : Int) (n : Nat) (hu : 0 < u) (hmod : d % u = 0) (h1 : u ≤ d) (h2 : d < (n : Int) * u)
    (tbl : ∀ k : Fin n, 1 ≤ k.val → roundTripOK ((k.val : Int) * u) = true) : roundTripOK d = true := by
  have hd : d = d / u * u := (Int.ediv_mul_cancel (Int.dvd_of_emod_eq_zero hmod)).symm
  have hq0 : 1 ≤ d / u := by
    apply Classical.byContradiction; intro hc
    have hle : d / u ≤ 0 := by omega
    have : d / u * u ≤ 0 := Int.mul_nonpos_of_nonpos_of_nonneg hle (by omega)
    omega
  have hqn : d / u < n := by
    apply Classical.byContradiction; intro hc
    have : (n : Int) * u ≤ d / u * u := Int.mul_le_mul_of_nonneg_right (by omega) (by omega)
    omega
  have e : ((d / u).toNat : Int) = d / u := Int.toNat_of_nonneg (by omega)
  have := tbl ⟨(d / u).toNat, by omega⟩ (by simp only; omega)
  simp only [e] at this
  rw [← hd] at this
  exact this


end Mkts.Timeframe
