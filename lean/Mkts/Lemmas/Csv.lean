import Mkts.Model.Csv
/-! Helper lemmas for C33: the loader on well-formed records. -/
namespace Mkts.Csv

/-- the instant (ns) of a record's time field read with the configured format, no tuning -/
def timeNs (cfg : Config) (r : Rec) : Int :=
  match parseTime cfg (r.getD 0 []) 0 with
  | .ok (some t) => t
  | _ => 0

/-- the row the property demands for a record: its time field parsed in the configured format and
    zone, every bucket column parsed from the CSV field the header maps it to -/
def rowOf (cfg : Config) (idx : List Nat) (r : Rec) : Row :=
  ⟨timeNs cfg r / 1000000000, timeNs cfg r % 1000000000,
   (cfg.schema.zip idx).map (fun ci => (parseVal ci.1.2 (r.getD ci.2 [])).getD 0)⟩

/-- a well-formed data record (for field count `n` and column mapping `idx`) -/
structure GoodRec (cfg : Config) (n : Nat) (idx : List Nat) (r : Rec) : Prop where
  notBlank : r ≠ [[]]
  noQuote : hasBareQuote r = false
  len : r.length = n
  time : ∃ t, parseTime cfg (r.getD 0 []) 0 = .ok (some t)
  vals : ∀ ci ∈ cfg.schema.zip idx, (parseVal ci.1.2 (r.getD ci.2 [])).isSome = true

theorem mapOpt_all_some {α β : Type} (f : α → Option β) (d : β) (l : List α)
    (h : ∀ a ∈ l, (f a).isSome = true) : mapOpt f l = some (l.map (fun a => (f a).getD d)) := by
  induction l with
  | nil => rfl
  | cons a t ih =>
    have ha := h a List.mem_cons_self
    have ht := ih (fun b hb => h b (List.mem_cons_of_mem _ hb))
    cases hfa : f a with
    | none => rw [hfa] at ha; cases ha
    | some b => simp [mapOpt, hfa, ht]

theorem read_good {cfg : Config} {n : Nat} {idx : List Nat} {r : Rec} (h : GoodRec cfg n idx r)
    (rest : List Rec) : read n (r :: rest) = .row r rest := by
  have h1 : (r == [[]]) = false := beq_eq_false_iff_ne.mpr h.notBlank
  simp [read, h1, h.noQuote, h.len]

theorem readChunk_good {cfg : Config} {n : Nat} {idx : List Nat} (k : Nat) (rs : List Rec)
    (h : ∀ r ∈ rs, GoodRec cfg n idx r) :
    readChunk n k rs = (rs.take k, decide (rs.length < k), rs.drop k) := by
  induction k generalizing rs with
  | zero => simp [readChunk]
  | succ k ih =>
    cases rs with
    | nil => simp [readChunk, read]
    | cons r rest =>
      rw [readChunk, read_good (h r List.mem_cons_self)]
      simp only []
      rw [ih rest (fun x hx => h x (List.mem_cons_of_mem _ hx))]
      simp

theorem timeRow_good (cfg : Config) (st : Int × Bool) (dt : Str) (t : Int) (hst : st.1 = 0)
    (h : parseTime cfg dt 0 = .ok (some t)) : timeRow cfg st dt = .ok (some (t, st)) := by
  simp [timeRow, hst, h]

theorem timeLoop_good (cfg : Config) (st : Int × Bool) (hst : st.1 = 0) (rows : List Rec)
    (h : ∀ r ∈ rows, ∃ t, parseTime cfg (r.getD 0 []) 0 = .ok (some t)) :
    timeLoop cfg st (rows.map (·.getD 0 [])) = .ok (some (rows.map (timeNs cfg))) := by
  induction rows with
  | nil => simp [timeLoop]
  | cons r rest ih =>
    obtain ⟨t, ht⟩ := h r List.mem_cons_self
    have ih' := ih (fun x hx => h x (List.mem_cons_of_mem _ hx))
    have e : timeNs cfg r = t := by unfold timeNs; rw [ht]
    simp only [List.map_cons, timeLoop]
    rw [timeRow_good cfg st _ t hst ht]
    simp only []
    rw [ih', e]

theorem assemble_map {ρ ι : Type} (rows : List ρ) (cs : List ι) (ft : ρ → Int) (fv : ι → ρ → Int) :
    assemble (rows.map ft) (cs.map (fun c => rows.map (fv c))) =
      rows.map (fun r => ⟨ft r / 1000000000, ft r % 1000000000, cs.map (fun c => fv c r)⟩) := by
  induction rows with
  | nil => simp [assemble]
  | cons r rest ih =>
    simp only [List.map_cons, assemble, List.map_map]
    have e1 : (List.tail ∘ fun c => fv c r :: List.map (fv c) rest) = fun c => rest.map (fv c) := by
      funext c; rfl
    have e2 : ((fun x => x.headD 0) ∘ fun c => fv c r :: List.map (fv c) rest) = fun c => fv c r := by
      funext c; rfl
    rw [e1, e2, ih]

theorem convertChunk_good (cfg : Config) (n : Nat) (idx : List Nat) (rows : List Rec)
    (htz : ∀ h : cfg.tz = .invalid, False) (hb : cfg.schema.any (fun c => c.2 == .bool) = false)
    (h : ∀ r ∈ rows, GoodRec cfg n idx r) :
    convertChunk cfg 0 idx rows = .ok (rows.map (rowOf cfg idx)) := by
  have ht : readTimeColumns cfg 0 rows = .ok (some (rows.map (timeNs cfg))) := by
    unfold readTimeColumns
    have := timeLoop_good cfg (0, true) rfl rows (fun r hr => (h r hr).time)
    cases hz : cfg.tz with
    | invalid => exact absurd hz (fun h' => htz h')
    | empty => simpa using this
    | zone z => simpa using this
  have hc : parseColumns cfg.schema idx rows =
      some ((cfg.schema.zip idx).map (fun ci => rows.map (fun r => (parseVal ci.1.2 (r.getD ci.2 [])).getD 0))) := by
    unfold parseColumns
    have inner : ∀ ci ∈ cfg.schema.zip idx,
        mapOpt (fun r => parseVal ci.1.2 (r.getD ci.2 [])) rows =
          some (rows.map (fun r => (parseVal ci.1.2 (r.getD ci.2 [])).getD 0)) :=
      fun ci hci => mapOpt_all_some _ 0 rows (fun r hr => (h r hr).vals ci hci)
    have hs : ∀ ci ∈ cfg.schema.zip idx,
        (mapOpt (fun r => parseVal ci.1.2 (r.getD ci.2 [])) rows).isSome = true := by
      intro ci hci; rw [inner ci hci]; rfl
    rw [mapOpt_all_some _ [] _ hs]
    congr 1
    apply List.map_congr_left
    intro ci hci
    rw [inner ci hci]; rfl
  unfold convertChunk
  rw [ht]; simp only []
  rw [hc]; simp only [hb]
  rw [assemble_map rows (cfg.schema.zip idx) (timeNs cfg) (fun ci r => (parseVal ci.1.2 (r.getD ci.2 [])).getD 0)]
  rfl

/-- the load loop on well-formed records: status ok and the chunks, concatenated, are all rows -/
theorem loadLoop_good (cfg : Config) (n : Nat) (idx : List Nat) (k : Nat) (hk : 1 ≤ k)
    (htz : ∀ h : cfg.tz = .invalid, False) (hb : cfg.schema.any (fun c => c.2 == .bool) = false)
    (fuel : Nat) (rs : List Rec) (hf : rs.length < fuel) (h : ∀ r ∈ rs, GoodRec cfg n idx r) :
    (loadLoop cfg n 0 idx k fuel rs).status = .ok ∧
    (loadLoop cfg n 0 idx k fuel rs).chunks.flatten = rs.map (rowOf cfg idx) ∧
    ∀ c ∈ (loadLoop cfg n 0 idx k fuel rs).chunks, c.length ≤ k ∧ c ≠ [] := by
  induction fuel generalizing rs with
  | zero => omega
  | succ fuel ih =>
    rw [loadLoop, readChunk_good k rs h]
    simp only []
    cases rs with
    | nil => simp
    | cons r rest =>
      have hne : ((r :: rest).take k).isEmpty = false := by
        cases k with
        | zero => omega
        | succ k => simp
      rw [hne]
      simp only [Bool.false_eq_true, if_false]
      rw [convertChunk_good cfg n idx _ htz hb (fun x hx => h x (List.mem_of_mem_take hx))]
      simp only []
      have hlen : ((r :: rest).take k).length ≤ k := by simp [List.length_take]; omega
      have hne' : ((r :: rest).take k).map (rowOf cfg idx) ≠ [] := by
        cases k with
        | zero => omega
        | succ k => simp
      by_cases hend : (r :: rest).length < k
      · simp only [hend, decide_true, if_true]
        have : (r :: rest).take k = r :: rest := List.take_of_length_le (by omega)
        refine ⟨by simp, by simp [this], ?_⟩
        intro c hc
        simp only [List.mem_singleton] at hc
        subst hc
        exact ⟨by simpa using hlen, hne'⟩
      · simp only [hend, decide_false, Bool.false_eq_true, if_false]
        have hdrop : ((r :: rest).drop k).length < fuel := by
          simp only [List.length_drop, List.length_cons] at hf ⊢; omega
        obtain ⟨h1, h2, h3⟩ := ih ((r :: rest).drop k) hdrop (fun x hx => h x (List.mem_of_mem_drop hx))
        refine ⟨h1, ?_, ?_⟩
        · simp only [List.flatten_cons, h2]
          rw [← List.map_append, List.take_append_drop]
        · intro c hc
          rcases List.mem_cons.mp hc with rfl | hc
          · exact ⟨by simpa using hlen, hne'⟩
          · exact h3 c hc

/-! ## a malformed record in the middle: the general form of the silent truncation -/

/-- a record the csv reader returns with an error (wrong field count or bare quote) -/
structure BadRec (n : Nat) (r : Rec) : Prop where
  notBlank : r ≠ [[]]
  bad : hasBareQuote r = true ∨ r.length ≠ n

theorem read_bad {n : Nat} {r : Rec} (h : BadRec n r) (rest : List Rec) : read n (r :: rest) = .err rest := by
  have h1 : (r == [[]]) = false := beq_eq_false_iff_ne.mpr h.notBlank
  rcases h.bad with hq | hl
  · simp [read, h1, hq]
  · by_cases hq : hasBareQuote r = true
    · simp [read, h1, hq]
    · simp [read, h1, hq, hl]

theorem readChunk_prefix_bad {cfg : Config} {n : Nat} {idx : List Nat} (k : Nat) (p : List Rec) (bad : Rec)
    (rest : List Rec) (hp : ∀ r ∈ p, GoodRec cfg n idx r) (hbad : BadRec n bad) :
    readChunk n k (p ++ bad :: rest) =
      if p.length < k then (p, true, rest) else (p.take k, false, p.drop k ++ bad :: rest) := by
  induction k generalizing p with
  | zero => simp [readChunk]
  | succ k ih =>
    cases p with
    | nil => simp [readChunk, read_bad hbad]
    | cons r p' =>
      rw [List.cons_append, readChunk, read_good (hp r List.mem_cons_self)]
      simp only []
      rw [ih p' (fun x hx => hp x (List.mem_cons_of_mem _ hx))]
      by_cases h : p'.length < k
      · simp [h]
      · simp [h]

/-- good records, then a malformed one, then anything: the load ends `ok` with exactly the rows
    before the malformed record — for every chunk size -/
theorem loadLoop_truncated (cfg : Config) (n : Nat) (idx : List Nat) (k : Nat) (hk : 1 ≤ k)
    (htz : ∀ h : cfg.tz = .invalid, False) (hb : cfg.schema.any (fun c => c.2 == .bool) = false)
    (bad : Rec) (rest : List Rec) (hbad : BadRec n bad)
    (fuel : Nat) (p : List Rec) (hf : (p ++ bad :: rest).length < fuel) (hp : ∀ r ∈ p, GoodRec cfg n idx r) :
    (loadLoop cfg n 0 idx k fuel (p ++ bad :: rest)).status = .ok ∧
    (loadLoop cfg n 0 idx k fuel (p ++ bad :: rest)).chunks.flatten = p.map (rowOf cfg idx) := by
  induction fuel generalizing p with
  | zero => omega
  | succ fuel ih =>
    rw [loadLoop, readChunk_prefix_bad k p bad rest hp hbad]
    by_cases hlt : p.length < k
    · simp only [hlt, if_true]
      cases p with
      | nil => simp
      | cons r p' =>
        simp only [List.isEmpty_cons, Bool.false_eq_true, if_false]
        rw [convertChunk_good cfg n idx _ htz hb hp]
        simp
    · simp only [hlt, if_false]
      cases p with
      | nil => simp at hlt; omega
      | cons r p' =>
        have hne : ((r :: p').take k).isEmpty = false := by
          cases k with
          | zero => omega
          | succ k => simp
        rw [hne]
        simp only [Bool.false_eq_true, if_false]
        rw [convertChunk_good cfg n idx _ htz hb (fun x hx => hp x (List.mem_of_mem_take hx))]
        simp only []
        have hlen : (((r :: p').drop k) ++ bad :: rest).length < fuel := by
          simp only [List.length_append, List.length_drop, List.length_cons] at hf ⊢; omega
        obtain ⟨h1, h2⟩ := ih ((r :: p').drop k) hlen (fun x hx => hp x (List.mem_of_mem_drop hx))
        refine ⟨h1, ?_⟩
        simp only [List.flatten_cons, h2]
        rw [← List.map_append, List.take_append_drop]

end Mkts.Csv
