import Mkts.Proto
import Mkts.Model.Coerce
import Mkts.Model.CoerceTie
import Mkts.Model.Store
/-!
Driver ops for C14.
* `conv <src> <dst> <hexvals>`  `CoerceColumnType` on one column (type strings i1 i2 i4 i8 u1 u2 u4 u8 f4 f8 U16)
* `gm <required> <available>`   `GetMissingAndTypeCoercionColumns` (shapes `hexname=type,…`)
* `c14 <nowYear> <expect> <step>…` scenario against a real server (1Min fixed buckets):
  `C:key:cols`, `W:key:cols:rows`, `M:key1,key2:cols:rows1|rows2` (ONE request with two buckets),
  `Q:key`.  Go iterates the request's buckets in random order: the result is the sorted SET of outcome
  lines over both orders, joined by ` || `.
-/
namespace Mkts.Driver.Coerce
open Mkts.Proto Mkts.Bytes Mkts.Coerce

def tyOf (s : String) : Option Ty :=
  match s with
  | "i1" => some .i8 | "i2" => some .i16 | "i4" => some .i32 | "i8" => some .i64
  | "u1" => some .u8 | "u2" => some .u16 | "u4" => some .u32 | "u8" => some .u64
  | "f4" => some .f32 | "f8" => some .f64 | "U16" => some .str16
  | _ => none

def tyStr : Ty → String
  | .i8 => "i1" | .i16 => "i2" | .i32 => "i4" | .i64 => "i8" | .u8 => "u1" | .u16 => "u2" | .u32 => "u4" | .u64 => "u8"
  | .f32 => "f4" | .f64 => "f8" | .str16 => "U16"

def chunks (n : Nat) : Nat → Bytes → List Bytes
  | 0, _ => []
  | fuel + 1, b => if b.isEmpty || n == 0 then [] else b.take n :: chunks n fuel (b.drop n)

def canonFloat (t : Ty) (b : Bytes) : Bytes :=
  match t with
  | .f32 => le 4 (Mkts.Float.canon Mkts.Float.b32 (leDecode b))
  | .f64 => le 8 (Mkts.Float.canon Mkts.Float.b64 (leDecode b))
  | _ => b

def convOp : Op := fun args =>
  match args with
  | [s, d, h] =>
    match tyOf s, tyOf d, hexToBytes h with
    | some src, some dst, some b =>
      if dst == .str16 then "M:err:caststring" else
      if src == .str16 then "M:panic:other" else
      match (chunks src.size b.length b).mapM (convert src dst) with
      | some vs => "M:" ++ bytesToHex ((vs.map (canonFloat dst)).flatten)
      | none => "M:undefined"
    | _, _, _ => badArgs
  | _ => badArgs

def parseShapes (s : String) : Option (List DS) :=
  if s == "-" || s == "" then some [] else
  (s.splitOn ",").mapM (fun p => match p.splitOn "=" with
    | [n, t] => do pure ⟨(← hexToBytes n), (← tyOf t)⟩
    | _ => none)

def showShapes (l : List DS) : String :=
  if l.isEmpty then "-" else ",".intercalate (l.map (fun d => bytesToHex d.name ++ "=" ++ tyStr d.ty))

def gmOp : Op := fun args =>
  match args with
  | [r, a] =>
    match parseShapes r, parseShapes a with
    | some req, some avail =>
      match getMissingAndTypeCoercionColumns req avail with
      | .ok (m, c) => s!"M:missing={showShapes m} coercion={showShapes c}"
      | .error .emptySet => "M:err:emptyset"
      | .error .nilDeref => "M:panic:nil"
    | _, _ => badArgs
  | _ => badArgs

/-! scenario -/

structure Bucket where
  key : String
  schema : List DS
  slots : Mkts.Store.Slots

structure St where
  buckets : List Bucket
  chan : Chan
  out : List String
  spec : List String
  specBuckets : List Bucket
  hyps : List String

def tf1Min : Int := 60000000000

def nameStr (b : Str) : String := (String.fromUTF8? (ByteArray.mk b.toArray)).getD "?"

def findB (bs : List Bucket) (k : String) : Option Bucket := bs.find? (·.key == k)

def putRows (bs : List Bucket) (rows : List Queued) : List Bucket :=
  bs.map (fun b =>
    let mine := (rows.filter (·.key == b.key)).map (fun q => (⟨q.sec, q.payload⟩ : Mkts.Store.Row))
    -- every queued row is its own write command group per request part; order = queue order
    { b with slots := Mkts.Store.applyCmds b.slots (Mkts.Store.writeRecords tf1Min mine) })

def parseRows (s : String) : Option (List (Int × Bytes)) :=
  if s == "-" || s == "" then some [] else
  (s.splitOn "+").mapM (fun r => match r.splitOn "," with
    | [a, c] => do pure ((← parseInt a), (← hexToBytes c))
    | _ => none)

/-- cut the rows' payloads into per-column value lists -/
def mkCols (shapes : List DS) (rows : List (Int × Bytes)) : List Col :=
  let offs := shapes.foldl (fun (acc : List (DS × Nat) × Nat) d => (acc.1 ++ [(d, acc.2)], acc.2 + d.ty.size)) ([], 0)
  offs.1.map (fun e => ⟨e.1, rows.map (fun r => (r.2.drop e.2).take e.1.ty.size)⟩)

def resStr : Option Reject → String
  | none => "ok"
  | some .mismatch => "err:colmismatch"
  | some .castString => "err:other"
  | some .other => "err:other"
  | some .panicReflect => "panic:other"
  | some .undefinedConv => "undefined"

def renderQ (b : Bucket) : String :=
  let rows := Mkts.Store.query tf1Min b.slots ⟨none, none, none⟩
  if rows.isEmpty then "Q=0[]" else
  s!"Q={rows.length}[{",".intercalate (b.schema.map (fun d => nameStr d.name))}]" ++
    "+".intercalate (rows.map (fun r => s!"{r.sec},0,{bytesToHex r.payload}"))

/-- apply a request with the buckets in the given order; also advances the spec view -/
def doRequest (st : St) (tag : String) (parts : List Part) : St :=
  let schema := fun k => (findB st.buckets k).map (·.schema)
  let (err, chan, committed, created) := request codeVariant schema st.chan parts
  let bs1 := st.buckets ++ created.map (fun c => ⟨c.1, c.2, []⟩)
  let bs2 := putRows bs1 committed
  -- spec: all-or-nothing, by name
  let sschema := fun k => (findB st.specBuckets k).map (·.schema)
  let specRows := specRequest sschema parts
  let allValid := parts.all (fun p => match schema p.key with
    | none => true
    | some db => (checkAndCoerce db p.cols).toOption.isSome)
  -- a failing request commits nothing; the buckets it auto-created for the parts handled before the
  -- failure stay behind EMPTY (documented residue of the repair: creation is not rolled back)
  let sb1 := if allValid then st.specBuckets ++ (parts.filter (fun p => (findB st.specBuckets p.key).isNone)).map
      (fun p => ⟨p.key, p.cols.map (·.ds), []⟩)
    else st.specBuckets ++ (created.filter (fun c => (findB st.specBuckets c.1).isNone)).map (fun c => ⟨c.1, c.2, []⟩)
  let sb2 := putRows sb1 (if allValid then specRows.getD [] else [])
  { st with buckets := bs2, chan := chan, out := st.out ++ [tag ++ "=" ++ resStr err],
            spec := st.spec ++ [tag ++ "=" ++ (if allValid then "ok" else resStr err)], specBuckets := sb2 }

/-- all possible continuations of a step (two for a two-bucket request) -/
def step (st : St) (s : String) : Option (List St) :=
  match s.splitOn ":" with
  | ["C", key, cs] => do
    let shapes ← parseShapes cs
    if (findB st.buckets key).isSome then
      pure [{ st with out := st.out ++ ["C=err:exists"], spec := st.spec ++ ["C=err:exists"] }]
    else pure [{ st with buckets := st.buckets ++ [⟨key, shapes, []⟩], specBuckets := st.specBuckets ++ [⟨key, shapes, []⟩],
                         out := st.out ++ ["C=ok"], spec := st.spec ++ ["C=ok"] }]
  | ["W", key, cs, rws] => do
    let shapes ← parseShapes cs
    let rows ← parseRows rws
    pure [doRequest st "W" [⟨key, mkCols shapes rows, rows.map (·.1)⟩]]
  | ["M", keys, cs, rws] => do
    let shapes ← parseShapes cs
    match keys.splitOn ",", rws.splitOn "|" with
    | [k1, k2], [r1, r2] =>
      let rows1 ← parseRows r1
      let rows2 ← parseRows r2
      let p1 : Part := ⟨k1, mkCols shapes rows1, rows1.map (·.1)⟩
      let p2 : Part := ⟨k2, mkCols shapes rows2, rows2.map (·.1)⟩
      pure [doRequest st "M" [p1, p2], doRequest st "M" [p2, p1]]
    | _, _ => none
  | ["Q", key] =>
    let m := match findB st.buckets key with | some b => renderQ b | none => "Q=err:nofiles"
    let sp := match findB st.specBuckets key with | some b => renderQ b | none => "Q=err:nofiles"
    pure [{ st with out := st.out ++ [m], spec := st.spec ++ [sp] }]
  | _ => none

def insertSorted (x : String) : List String → List String
  | [] => [x]
  | y :: ys => if x < y then x :: y :: ys else if x == y then y :: ys else y :: insertSorted x ys

def c14Op : Op := fun args =>
  match args with
  | _ :: _ :: steps =>
    let fin := steps.foldl (fun (acc : Option (List St)) s =>
      match acc with
      | none => none
      | some sts => (sts.mapM (fun st => step st s)).map List.flatten) (some [⟨[], ⟨[]⟩, [], [], [], []⟩])
    match fin with
    | none => "M:unsupported"
    | some sts =>
      let lines := (sts.map (fun st => " ".intercalate st.out)).foldr insertSorted []
      -- the spec does not depend on the iteration order
      let specs := (sts.map (fun st => " ".intercalate st.spec)).foldr insertSorted []
      let hy := (sts.map (·.hyps)).flatten.eraseDups
      s!"M:{" || ".intercalate lines}\tS:{" || ".intercalate specs}\tH:{",".intercalate hy}"
  | _ => badArgs

def ops : OpTable := [("conv", convOp), ("gm", gmOp), ("c14", c14Op)]

end Mkts.Driver.Coerce
