import Mkts.Lemmas.Agg
import Mkts.Props.C31
/-!
# C21 — Candle aggregation computes correct OHLC candles

Model: `Mkts.Agg` (`contrib/candler/candler.go`: `GetCandle`, `NewCandle`, `AddCandle`, `Output`; the
`Accum` loops of `tickcandler.go` / `candlecandler.go`), windows from `Mkts.Timeframe.truncate/isWithin`.

Prices are an arbitrary type `P` compared through a key `P → Int` (float32 restricted to non-NaN values,
`+0 = -0`); sums are an arbitrary type `S` with an abstract addition (float64 `+=`), so "sum" means the
left fold in input order and nothing is claimed about rounding.

All theorems are for any number of `Accum` calls (`chunks`), any rows, any order.  They need the two
window facts of C31 (`WellBehaved`): `Truncate` idempotent and an instant within its own window —
proved here for every accepted duration string with suffix Sec/Min/H/D (the property's "seconds to days"),
positive multiplier and no overflow, in UTC.  `"2W"` violates the second fact (C31-F2) and then the
candler drops prices but still counts the rows: `C21_cex_multi_week`.
-/
namespace Mkts.Props.C21
open Mkts.Time Mkts.Timeframe Mkts.Agg

/-- the window arithmetic the candler relies on -/
structure WellBehaved (cd : CandleDuration) (z : Zone) : Prop where
  idem : ∀ t, truncate cd z (truncate cd z t) = truncate cd z t
  within : ∀ t, isWithin cd z t (truncate cd z t) = true

/-- it holds in UTC for every accepted string of the C31 partial class (all seven suffixes) -/
theorem wellBehaved_utc (s : Str) (cd : CandleDuration) (hparse : candleDurationFromString s = some cd)
    (mult_zero : ¬ C31.Calendar cd → 0 < cd.mult) (mult_overflow : ¬ C31.Calendar cd → C31.NoOverflow cd)
    (multi_week : cd.suffix = .W → cd.mult ≤ 1) : WellBehaved cd utc := by
  refine ⟨fun t => ?_, fun t => (C31.C31_partial s cd t hparse mult_zero mult_overflow multi_week).2.2⟩
  obtain ⟨str, dur, suf, mult⟩ := cd
  cases suf <;> simp only [truncate] <;> try exact goTruncate_idem _ _
  · simp only [utc_dayStart, utc_localDays_dayStart]
  · simp only [utc_dayStart, utc_localDays_dayStart, monthFloorDays]
    have r := monthOfDays_range (localDays utc t)
    rw [yearOfDays_monthStart _ _ r.1 r.2, monthOfDays_monthStart _ _ r.1 r.2]

section main
variable {P S : Type} (po : PriceOps P) (so : SumOps S) (key : P → Int)
variable (cd : CandleDuration) (z : Zone) (nsums : Nat)

/-- **one candle per non-empty window, in time order** -/
theorem C21_windows (hwb : WellBehaved cd z) (chunks : List (List (Row P S))) :
    ((output (accum po so cd z nsums chunks)).map (·.start)).Pairwise (· < ·) ∧
    ∀ s, s ∈ (output (accum po so cd z nsums chunks)).map (·.start) ↔
      ∃ r ∈ chunks.flatten, truncate cd z r.t = s := by
  obtain ⟨hn, hk, hmem⟩ := accum_keys po so cd z nsums hwb.idem chunks
  refine ⟨output_sorted _ hn hk, fun s => ?_⟩
  rw [← hmem s, List.mem_map]
  constructor
  · rintro ⟨c, hc, e⟩
    have := (mem_output_iff _ hn hk c).mp hc
    rw [← CMap.get?_isSome_iff, ← e, this]; rfl
  · intro hs
    rw [← CMap.get?_isSome_iff] at hs
    cases hg : (accum po so cd z nsums chunks).get? s with
    | none => simp [hg] at hs
    | some c =>
      have e := hk s c hg
      exact ⟨c, (mem_output_iff _ hn hk c).mpr (by rw [e]; exact hg), e⟩

/-- every output candle is the fold of exactly the rows of its window, in input order -/
theorem C21_candle_is_fold (hwb : WellBehaved cd z) (chunks : List (List (Row P S))) (c : Candle P S)
    (hc : c ∈ output (accum po so cd z nsums chunks)) :
    windowRows cd z chunks.flatten c.start ≠ [] ∧
    c = (windowRows cd z chunks.flatten c.start).foldl (addRow po so cd z) (newCandle po so cd z nsums c.start) := by
  obtain ⟨hn, hk, _⟩ := accum_keys po so cd z nsums hwb.idem chunks
  have hg := (mem_output_iff _ hn hk c).mp hc
  rw [accum_get? po so cd z nsums hwb.idem] at hg
  split at hg
  · cases hg
  · rename_i r rs e
    simp only [Option.some.injEq] at hg
    rw [e]; exact ⟨by simp, hg.symm⟩

/-- conversely every non-empty window has its candle in the output -/
theorem C21_window_has_candle (hwb : WellBehaved cd z) (chunks : List (List (Row P S))) (r : Row P S)
    (hr : r ∈ chunks.flatten) :
    ∃ c ∈ output (accum po so cd z nsums chunks), c.start = truncate cd z r.t :=
  List.mem_map.mp (((C21_windows po so cd z nsums hwb chunks).2 _).mpr ⟨r, hr, rfl⟩)

variable (hgt : ∀ a b, po.gt a b = decide (key a > key b)) (hlt : ∀ a b, po.lt a b = decide (key a < key b))
include hgt hlt

/-- **open / close are prices of an earliest / a latest row of the window, high / low are the extreme
    prices and are attained** (`G` = the rows of the candle's window) -/
theorem C21_ohlc (hwb : WellBehaved cd z) (chunks : List (List (Row P S))) (c : Candle P S)
    (hc : c ∈ output (accum po so cd z nsums chunks)) (hz : ∀ r ∈ chunks.flatten, r.t ≠ goZero) :
    let G := windowRows cd z chunks.flatten c.start
    (∃ r ∈ G, (∀ r' ∈ G, r.t ≤ r'.t) ∧ c.op = r.o) ∧
    (∃ r ∈ G, (∀ r' ∈ G, r'.t ≤ r.t) ∧ c.cl = r.c) ∧
    (∃ r ∈ G, c.hi = r.h) ∧ (∀ r ∈ G, key r.h ≤ key c.hi) ∧
    (∃ r ∈ G, c.lo = r.l) ∧ (∀ r ∈ G, key c.lo ≤ key r.l) := by
  intro G
  obtain ⟨hne, hfold⟩ := C21_candle_is_fold po so cd z nsums hwb chunks c hc
  obtain ⟨hn, hk, hmem⟩ := accum_keys po so cd z nsums hwb.idem chunks
  have hGmem : ∀ r ∈ G, r ∈ chunks.flatten ∧ truncate cd z r.t = c.start := by
    intro r hr
    have := List.mem_filter.mp hr
    exact ⟨this.1, by simpa using this.2⟩
  have hstart : truncate cd z c.start = c.start := by
    cases hG : G with
    | nil => exact absurd hG hne
    | cons r rs =>
      have := (hGmem r (by rw [hG]; simp)).2
      rw [← this]; exact hwb.idem _
  have g := good_window po so cd z nsums key hgt hlt c.start G hne hstart
    (fun r hr => by rw [← (hGmem r hr).2]; exact hwb.within _) (fun r hr => hz r (hGmem r hr).1)
  rw [← hfold] at g
  obtain ⟨_, ⟨ro, hro, e1, e2⟩, hmin, ⟨rc, hrc, e3, e4⟩, hmax, ⟨rh, hrh, e5⟩, hhi, ⟨rl, hrl, e6⟩, hlo⟩ := g
  exact ⟨⟨ro, hro, fun r' hr' => by rw [e1]; exact hmin r' hr', e2.symm⟩,
         ⟨rc, hrc, fun r' hr' => by rw [e3]; exact hmax r' hr', e4.symm⟩,
         ⟨rh, hrh, e5.symm⟩, hhi, ⟨rl, hrl, e6.symm⟩, hlo⟩

omit hgt hlt in
/-- **sums and averages are taken over the window's rows**: count, left fold in input order, and
    `sum / count` -/
theorem C21_sum_avg (hwb : WellBehaved cd z) (chunks : List (List (Row P S))) (c : Candle P S)
    (hc : c ∈ output (accum po so cd z nsums chunks)) :
    let G := windowRows cd z chunks.flatten c.start
    c.count = G.length ∧
    c.sums = G.foldl (fun acc r => addSums so acc r.sums) (List.replicate nsums so.zero) ∧
    c.avgs so = (G.foldl (fun acc r => addSums so acc r.sums) (List.replicate nsums so.zero)).map
      (fun s => so.divCount s G.length) := by
  intro G
  obtain ⟨_, hfold⟩ := C21_candle_is_fold po so cd z nsums hwb chunks c hc
  have h := foldl_addRow_sums po so cd z (newCandle po so cd z nsums c.start) G
  rw [← hfold] at h
  have hc' : c.count = G.length := by rw [h.2]; simp [newCandle]
  have hs : c.sums = G.foldl (fun acc r => addSums so acc r.sums) (List.replicate nsums so.zero) := by
    rw [h.1]; simp [newCandle]
  refine ⟨hc', hs, ?_⟩
  unfold Candle.avgs
  rw [hs, hc']

/-- **order independence**: if the timestamps are pairwise distinct, feeding the rows in any other
    order (and any other chunking) gives, window by window, the same open and close, the same high and
    low (as float values, i.e. equal keys), and the same count. -/
theorem C21_perm (hwb : WellBehaved cd z) (chunks chunks' : List (List (Row P S)))
    (hperm : chunks.flatten.Perm chunks'.flatten) (hdist : (chunks.flatten.map (·.t)).Nodup)
    (hz : ∀ r ∈ chunks.flatten, r.t ≠ goZero) (c : Candle P S)
    (hc : c ∈ output (accum po so cd z nsums chunks)) :
    ∃ c' ∈ output (accum po so cd z nsums chunks'),
      c'.start = c.start ∧ c'.op = c.op ∧ c'.cl = c.cl ∧ key c'.hi = key c.hi ∧ key c'.lo = key c.lo ∧
      c'.count = c.count := by
  -- a row of the window exists, so the other run has a candle for the same window
  obtain ⟨hne, _⟩ := C21_candle_is_fold po so cd z nsums hwb chunks c hc
  have hz' : ∀ r ∈ chunks'.flatten, r.t ≠ goZero := fun r hr => hz r (hperm.mem_iff.mpr hr)
  have inj : ∀ a ∈ chunks.flatten, ∀ b ∈ chunks.flatten, a.t = b.t → a = b := by
    intro a ha b hb e
    exact inj_of_nodup_map (·.t) _ hdist a ha b hb e
  cases hG : windowRows cd z chunks.flatten c.start with
  | nil => exact absurd hG hne
  | cons r0 rs =>
    have hr0 : r0 ∈ windowRows cd z chunks.flatten c.start := by rw [hG]; simp
    have hr0' := List.mem_filter.mp hr0
    obtain ⟨c', hc', hs'⟩ := C21_window_has_candle po so cd z nsums hwb chunks' r0 (hperm.mem_iff.mp hr0'.1)
    have hs : c'.start = c.start := by rw [hs']; simpa using hr0'.2
    refine ⟨c', hc', hs, ?_⟩
    have A := C21_ohlc po so key cd z nsums hgt hlt hwb chunks c hc hz
    have B := C21_ohlc po so key cd z nsums hgt hlt hwb chunks' c' hc' hz'
    have SA := C21_sum_avg po so cd z nsums hwb chunks c hc
    have SB := C21_sum_avg po so cd z nsums hwb chunks' c' hc'
    simp only [hs] at B SB
    have hGG : (windowRows cd z chunks.flatten c.start).Perm (windowRows cd z chunks'.flatten c.start) :=
      List.Perm.filter _ hperm
    have m1 : ∀ r, r ∈ windowRows cd z chunks'.flatten c.start → r ∈ windowRows cd z chunks.flatten c.start :=
      fun r hr => hGG.mem_iff.mpr hr
    have m2 : ∀ r, r ∈ windowRows cd z chunks.flatten c.start → r ∈ windowRows cd z chunks'.flatten c.start :=
      fun r hr => hGG.mem_iff.mp hr
    have inG : ∀ r, r ∈ windowRows cd z chunks.flatten c.start → r ∈ chunks.flatten :=
      fun r hr => (List.mem_filter.mp hr).1
    obtain ⟨⟨ro, hro, omin, eo⟩, ⟨rc, hrc, cmax, ec⟩, ⟨rh, hrh, eh⟩, hhi, ⟨rl, hrl, el⟩, hlo⟩ := A
    obtain ⟨⟨ro', hro', omin', eo'⟩, ⟨rc', hrc', cmax', ec'⟩, ⟨rh', hrh', eh'⟩, hhi', ⟨rl', hrl', el'⟩, hlo'⟩ := B
    refine ⟨?_, ?_, ?_, ?_, ?_⟩
    · have : ro' = ro := inj _ (inG _ (m1 _ hro')) _ (inG _ hro)
        (Int.le_antisymm (omin' _ (m2 _ hro)) (omin _ (m1 _ hro')))
      rw [eo', eo, this]
    · have : rc' = rc := inj _ (inG _ (m1 _ hrc')) _ (inG _ hrc)
        (Int.le_antisymm (cmax _ (m1 _ hrc')) (cmax' _ (m2 _ hrc)))
      rw [ec', ec, this]
    · apply Int.le_antisymm
      · rw [eh']; exact hhi _ (m1 _ hrh')
      · rw [eh]; exact hhi' _ (m2 _ hrh)
    · apply Int.le_antisymm
      · rw [el]; exact hlo' _ (m2 _ hrl)
      · rw [el']; exact hlo _ (m1 _ hrl')
    · rw [SA.1, SB.1, hGG.length_eq]

end main

/-! ## what happens when the window arithmetic is not well behaved (C31-F2) -/

/-- integer prices with the usual order: an admissible instance of the abstract price type -/
def intOps : PriceOps Int := { gt := fun a b => decide (a > b), lt := fun a b => decide (a < b), zero := 0 }
def intSum : SumOps Int := { zero := 0, add := (· + ·), divCount := fun s n => s / n }

def cd2W : CandleDuration := { str := ['2','W'], duration := 2 * week, suffix := .W, mult := 2 }

/-- `"2W"`, one tick of price 7 (volume 5) on 1970-01-13: the output candle has open = high = low =
    close = 0 — not the price of any row — while count = 1 and the sum is 5. -/
theorem C21_cex_multi_week :
    (output (accum intOps intSum cd2W utc 1
      [[{ t := 12 * 86400000000000, o := 7, h := 7, l := 7, c := 7, sums := [5] }]])).map
        (fun c => [c.epoch, c.op, c.hi, c.lo, c.cl, c.count] ++ c.sums) = [[345600, 0, 0, 0, 0, 1, 5]] := by
  decide

/-! ## non-vacuity -/

def cd1Min : CandleDuration := { str := ['1','M','i','n'], duration := minute, suffix := .Min, mult := 1 }

example : candleDurationFromString ['1','M','i','n'] = some cd1Min := by decide

example : WellBehaved cd1Min utc :=
  wellBehaved_utc ['1','M','i','n'] cd1Min (by decide) (fun _ => by decide) (fun _ => by decide) (fun h => by cases h)

/-- three ticks out of order over two windows, one duplicate-free: 10:00:30 (5), 10:00:10 (3), 10:01:00 (9) -/
example :
    (output (accum intOps intSum cd1Min utc 1
      [[{ t := 36030 * 1000000000, o := 5, h := 5, l := 5, c := 5, sums := [1] },
        { t := 36010 * 1000000000, o := 3, h := 3, l := 3, c := 3, sums := [2] }],
       [{ t := 36060 * 1000000000, o := 9, h := 9, l := 9, c := 9, sums := [4] }]])).map
        (fun c => [c.epoch, c.op, c.hi, c.lo, c.cl, c.count] ++ c.sums) =
      [[36000, 3, 5, 3, 5, 2, 3], [36060, 9, 9, 9, 9, 1, 4]] := by decide

end Mkts.Props.C21
