import Mkts.Proto
import Mkts.Model.Ticks
/-! Driver ops for the tick encode/decode model (C10); the rounding operator is `rne`. -/
namespace Mkts.Driver.Ticks
open Mkts.Proto Mkts.Time Mkts.Ticks

def b2s (b : Bool) : String := if b then "1" else "0"

/-- `enc ts index ipd` : `GetIntervalTicks32Bit` on raw arguments -/
def encOp : Op := fun args =>
  match args.mapM parseInt with
  | some [ts, index, ipd] =>
    if ipd ≤ 0 then "M:err:ipd" else
    s!"M:ticks={getIntervalTicks32Bit rne ts index ipd}"
  | _ => badArgs

/-- failed hypotheses of `C10_partial` for the decoder at `ticks` -/
def f5hyps (_ipd _ticks : Int) : List String := []   -- C10-F5 is repaired: the decoder is `getTimeFromTicksFixed`

/-- `dec start ipd ticks` : `GetTimeFromTicks` on raw arguments -/
def decOp : Op := fun args =>
  match args.mapM parseInt with
  | some [start, ipd, ticks] =>
    if ipd ≤ 0 then "M:err:ipd" else
    let x := getTimeFromTicksFixed rne start ipd ticks
    let y := getTimeFromTicksFixed rne start ipd ticks
    -- what the property asks of the decoder alone: a nanosecond field below 1e9 and the second
    -- that contains the decoded instant (= the repaired decoder)
    s!"M:sec={x.sec} ns={x.nanos}\tS:sec={y.sec} ns={y.nanos}\tH:{",".intercalate (f5hyps ipd ticks)}"
  | _ => badArgs

structure RT where
  idx : Int
  ipd : Int
  start : Int   -- unix seconds of the interval start
  ticks : Int
  out : Decoded
  hyps : List String

def roundTrip (t tf : Int) : RT :=
  let y := localYear utc t
  let idx := timeToIndex utc t tf
  let ipd := intervalsPerDay tf
  let start := indexToTime utc idx tf y / 1000000000
  let ticks := getIntervalTicks32Bit rne t idx ipd
  let out := getTimeFromTicksFixed rne start ipd ticks
  let hyps := f5hyps ipd ticks ++
              (if tf == dayNs then ["oneD_base_day_early"] else []) ++
              (if tf % 1000000000 != 0 || ipd * tf != dayNs then ["tf_not_whole_seconds_dividing_day"] else [])
  { idx, ipd, start, ticks, out, hyps }

def decNs (x : RT) : Int := x.out.sec * 1000000000 + x.out.nanos

/-- `rt t tf` : index, encode, decode of the instant `t` (unix ns, UTC) in a bucket of timeframe `tf` (ns) -/
def rtOp : Op := fun args =>
  match args.mapM parseInt with
  | some [t, tf] =>
    if tf ≤ 0 || intervalsPerDay tf ≤ 0 then "M:err:ipd" else
    let x := roundTrip t tf
    let dec := decNs x
    let s := x.start * 1000000000
    let p := b2s (decide (s ≤ dec)) ++ b2s (decide (dec < s + tf)) ++ b2s (decide (dec ≤ t)) ++
             b2s (decide ((t - dec) * 4294967296 ≤ tf + 4294967296)) ++
             b2s (tf != 1000000000 || dec == t)
    s!"M:idx={x.idx} ipd={x.ipd} start={x.start} ticks={x.ticks} sec={x.out.sec} ns={x.out.nanos} P={p}\tS:~P=11111\tH:{",".intercalate x.hyps}"
  | _ => badArgs

/-- `mono t1 t2 tf` : two instants `t1 ≤ t2` of one interval -/
def monoOp : Op := fun args =>
  match args.mapM parseInt with
  | some [t1, t2, tf] =>
    if tf ≤ 0 || intervalsPerDay tf ≤ 0 then "M:err:ipd" else
    let a := roundTrip t1 tf
    let b := roundTrip t2 tf
    let p := b2s (decide (a.ticks ≤ b.ticks)) ++ b2s (decide (decNs a ≤ decNs b))
    let hyps := (a.hyps ++ b.hyps).eraseDups
    s!"M:k1={a.ticks} k2={b.ticks} d1={decNs a} d2={decNs b} P={p}\tS:~P=11\tH:{",".intercalate hyps}"
  | _ => badArgs

/-- closed form predicted by `C10_1sec_*` for offset `d` of a 1-second interval: the nanosecond
    field is `d`; the second is late exactly when the decoder's rounded second differs.  Outside the
    band the theorems decide it; inside it the model is evaluated. -/
def late1s (d : Int) : Bool :=
  if d ≤ 999999994 then false        -- C10_1sec, second clause
  else if 999999996 ≤ d then true    -- C10_1sec, third clause
  else secRoundsUp rne 86400 (encode rne 86400 d) || nanosOverflow rne 86400 (encode rne 86400 d)

/-- `sweep1s start lo hi` : Go runs every offset `lo ≤ d < hi` of the 1-second interval starting at
    unix second `start`; the model side states the closed form. -/
def sweepOp : Op := fun args =>
  match args.mapM parseInt with
  | some [_start, lo, hi] =>
    if lo < 0 || hi > 1000000000 || hi < lo then badArgs else
    -- closed form of theorem `C10_fixed_1sec`: the round trip is exact for every offset (before the
    -- repair of C10-F5, `C10_1sec` predicted the offsets ≥ 999999996 one second late)
    let lateN := 0
    let firstLate : Int := -1
    s!"M:n={hi - lo} nsbad=0 late={lateN} firstlate={firstLate}"
  | _ => badArgs

/-- `fop op a b` : one hardware float64 operation on two normal operands given as bit patterns,
    against `rne` of the exact result -/
def fopOp : Op := fun args =>
  match args with
  | [op, sa, sb] =>
    match parseNat sa, parseNat sb with
    | some a, some b =>
      match f64ToRat a, f64ToRat b with
      | some x, some y =>
        let exact : Option Rat := match op with
          | "add" => some (x + y) | "sub" => some (x - y) | "mul" => some (x * y) | "div" => some (x / y)
          | _ => none
        match exact with
        | some z => match ratToF64 (rne z) with
          | some bits => s!"M:{bits}"
          | none => "M:unsupported"
        | none => badArgs
      | _, _ => "M:unsupported"
    | _, _ => badArgs
  | _ => badArgs

def ops : OpTable := [("fop", fopOp), ("enc", encOp), ("dec", decOp), ("rt", rtOp), ("mono", monoOp), ("sweep1s", sweepOp)]

end Mkts.Driver.Ticks
