/-!
# Byte-level helpers shared by the codec models (mirrors `utils/io/byteconversions.go`,
`serializer.go`): little-endian fixed-width integers over `List UInt8`. Core Lean only.
-/
namespace Mkts.Bytes

abbrev Bytes := List UInt8

/-- little-endian encoding of `n mod 256^w` on `w` bytes -/
def le : (w : Nat) → (n : Nat) → Bytes
  | 0, _ => []
  | w + 1, n => UInt8.ofNat (n % 256) :: le w (n / 256)

/-- little-endian decoding of a byte list (any length) -/
def leDecode : Bytes → Nat
  | [] => 0
  | b :: rest => b.toNat + 256 * leDecode rest

/-- two's-complement encoding of an `Int` on `w` bytes (Go's conversion to intN then LE bytes) -/
def leInt (w : Nat) (i : Int) : Bytes := le w (i % (256 ^ w : Nat)).toNat

/-- two's-complement decoding of `w` bytes to a signed value -/
def leDecodeInt (b : Bytes) : Int :=
  let n := leDecode b
  if 2 * n < 256 ^ b.length then (n : Int) else (n : Int) - (256 ^ b.length : Nat)

@[simp] theorem le_length (w n : Nat) : (le w n).length = w := by
  induction w generalizing n with
  | zero => rfl
  | succ w ih => simp [le, ih]

theorem leDecode_le (w n : Nat) : leDecode (le w n) = n % 256 ^ w := by
  induction w generalizing n with
  | zero => simp [le, leDecode, Nat.mod_one]
  | succ w ih =>
    simp only [le, leDecode, ih]
    have h : (UInt8.ofNat (n % 256)).toNat = n % 256 := by
      simp [UInt8.toNat_ofNat']
    rw [h, Nat.pow_succ, Nat.mul_comm (256 ^ w) 256, Nat.mod_mul, Nat.add_comm]

theorem leDecode_le_of_lt (w n : Nat) (h : n < 256 ^ w) : leDecode (le w n) = n := by
  rw [leDecode_le, Nat.mod_eq_of_lt h]

theorem leDecode_lt (b : Bytes) : leDecode b < 256 ^ b.length := by
  induction b with
  | nil => simp [leDecode]
  | cons x xs ih =>
    simp only [leDecode, List.length_cons, Nat.pow_succ]
    have := x.toNat_lt
    omega

theorem le_leDecode (b : Bytes) : le b.length (leDecode b) = b := by
  induction b with
  | nil => rfl
  | cons x xs ih =>
    simp only [List.length_cons, le, leDecode]
    have hx := x.toNat_lt
    have h1 : (x.toNat + 256 * leDecode xs) % 256 = x.toNat := by omega
    have h2 : (x.toNat + 256 * leDecode xs) / 256 = leDecode xs := by omega
    rw [h1, h2, ih]
    simp

/-- take / drop helpers with explicit bounds failure (`none` = Go would panic on the slice) -/
def slice (b : Bytes) (off len : Nat) : Option Bytes :=
  if off + len ≤ b.length then some ((b.drop off).take len) else none

theorem slice_append_left (a b : Bytes) : slice (a ++ b) 0 a.length = some a := by
  simp [slice]

theorem slice_append_right (a b : Bytes) : slice (a ++ b) a.length b.length = some b := by
  simp [slice]

end Mkts.Bytes
