import Mkts.Props.C01
import Mkts.Props.WalSkeleton
/-!
# C34 — WAL files are replayed once and never discarded while needed

Model of `CleanupOldWALFiles` (executor/walclean.go) over the leftover `*.walfile` files found at
startup, each in any status, on top of `Mkts.WalProto` (`liveTGs`, `replay`): the own file is
skipped, files of at most 10 bytes are removed, a file that needs replay (NOTREPLAYED or
REPLAYINPROCESS) is replayed — every live transaction group applied, then `sync` — marked REPLAYED
and deleted; a file that does not need replay is moved aside (`.tmp`).
-/
namespace Mkts.Props.C34
open Mkts.WalProto Mkts.Store Mkts.Bytes Mkts.Skel Mkts.Extracted.Skel

inductive ReplayState where
  | notReplayed | replayInProcess | replayed
deriving DecidableEq, Repr

structure WalFile where
  name : Nat
  tiny : Bool            -- size ≤ walStatusLenBytes (only a status header or less)
  state : ReplayState
  recs : List Rec
deriving Repr

inductive Outcome where
  | skippedOwn | removedTiny | replayedAndDeleted | movedAside
deriving DecidableEq, Repr

def needsReplay (f : WalFile) : Bool := f.state != .replayed

/-- one iteration of the loop of `CleanupOldWALFiles`: outcome, new primary content, and the file
    as it is left on disk (`none` = removed) -/
def cleanupOne (own : Nat) (prim : Slots) (f : WalFile) : Outcome × Slots × Option WalFile :=
  if f.name = own then (.skippedOwn, prim, some f)
  else if f.tiny then (.removedTiny, prim, none)
  else if needsReplay f then (.replayedAndDeleted, replay prim (liveTGs f.recs), none)
  else (.movedAside, prim, none)   -- renamed to `.tmp`: no longer a `*.walfile`

def cleanup (own : Nat) (prim : Slots) (files : List WalFile) : Slots × List WalFile :=
  files.foldl (fun (acc : Slots × List WalFile) f =>
    let (_, p, left) := cleanupOne own acc.1 f
    (p, acc.2 ++ left.toList)) (prim, [])

/-- the running instance's own WAL file is never replayed, changed or deleted -/
theorem C34_own_wal_untouched (own : Nat) (prim : Slots) (f : WalFile) (h : f.name = own) :
    cleanupOne own prim f = (.skippedOwn, prim, some f) := by
  simp [cleanupOne, h]

/-- a leftover file is deleted only after all its live transaction groups were applied -/
theorem C34_delete_after_apply (own : Nat) (prim : Slots) (f : WalFile) (p' : Slots) (left : Option WalFile)
    (h : cleanupOne own prim f = (.replayedAndDeleted, p', left)) :
    p' = replay prim (liveTGs f.recs) ∧ left = none := by
  unfold cleanupOne at h
  split at h
  · cases h
  · split at h
    · cases h
    · split at h
      · cases h; exact ⟨rfl, rfl⟩
      · cases h

/-- replay is idempotent on fixed-length files -/
theorem C34_replay_idempotent (prim : Slots) (live : List (Nat × List Cmd)) :
    Equiv (replay (replay prim live) live) (replay prim live) := by
  simp only [replay_eq_applyCmds]
  have := replay_idem prim [] (live.map (·.2)).flatten ((live.map (·.2)).flatten.length)
  rw [List.take_length, List.nil_append] at this
  exact this

/-- a crash at ANY point inside startup replay (the first `i` primary writes of the replay done),
    followed by another restart that replays the same file again, gives the same content as an
    undisturbed replay -/
theorem C34_crash_during_replay (prim : Slots) (live : List (Nat × List Cmd)) (i : Nat) :
    Equiv (replay (applyCmds prim (((live.map (·.2)).flatten).take i)) live) (replay prim live) := by
  simp only [replay_eq_applyCmds]
  have := replay_idem prim [] (live.map (·.2)).flatten i
  rw [List.nil_append, List.nil_append] at this
  exact this

def stepFn (own : Nat) (acc : Slots × List WalFile) (f : WalFile) : Slots × List WalFile :=
  ((cleanupOne own acc.1 f).2.1, acc.2 ++ (cleanupOne own acc.1 f).2.2.toList)

theorem cleanup_eq (own : Nat) (prim : Slots) (files : List WalFile) :
    cleanup own prim files = files.foldl (stepFn own) (prim, []) := rfl

theorem left_own (own : Nat) (files : List WalFile) (acc : Slots × List WalFile)
    (h : ∀ f ∈ acc.2, f.name = own) : ∀ f ∈ (files.foldl (stepFn own) acc).2, f.name = own := by
  induction files generalizing acc with
  | nil => simpa using h
  | cons g rest ih =>
    simp only [List.foldl_cons]
    apply ih
    intro f hf
    simp only [stepFn, List.mem_append] at hf
    rcases hf with hf | hf
    · exact h f hf
    · unfold cleanupOne at hf
      by_cases h1 : g.name = own
      · simp [h1] at hf; subst hf; exact h1
      · by_cases h2 : g.tiny = true
        · simp [h1, h2] at hf
        · by_cases h3 : needsReplay g = true <;> simp [h1, h2, h3] at hf

theorem fold_own (own : Nat) (p : Slots) (l acc2 : List WalFile) (h : ∀ f ∈ l, f.name = own) :
    l.foldl (stepFn own) (p, acc2) = (p, acc2 ++ l) := by
  induction l generalizing acc2 with
  | nil => simp
  | cons g rest ih =>
    simp only [List.foldl_cons]
    have hg := C34_own_wal_untouched own p g (h g (List.mem_cons_self))
    simp only [stepFn, hg, Option.toList]
    rw [ih _ (fun f hf => h f (List.mem_cons_of_mem _ hf))]
    simp

/-- after one cleanup only the own file is left among the `*.walfile`s, so a second restart
    replays nothing and changes nothing -/
theorem C34_second_restart_clean (own : Nat) (prim : Slots) (files : List WalFile) :
    (∀ f ∈ (cleanup own prim files).2, f.name = own) ∧
    cleanup own (cleanup own prim files).1 (cleanup own prim files).2 =
      ((cleanup own prim files).1, (cleanup own prim files).2) := by
  have h1 := left_own own files (prim, []) (by simp)
  rw [← cleanup_eq] at h1
  refine ⟨h1, ?_⟩
  rw [cleanup_eq own (cleanup own prim files).1, fold_own own _ _ [] h1]
  simp

/-! ## regenerated tie: order of effects in `CleanupOldWALFiles` -/

def expCleanup : List String :=
  ["range:walfileAbsPaths{", "if:fp == c.ignoreFile{", "continue", "}", "call:os.Stat", "if:err != nil{", "continue", "}",
   "call:fi.Size", "if:fi.Size() <= walStatusLenBytes{", "call:os.Remove", "if:err != nil{", "}", "continue", "}",
   "call:TakeOverWALFile", "if:err != nil{", "return", "}", "call:w.Replay", "if:err != nil{",
   "if:!errors.As(err, &walReplayErr){", "return", "}", "if:walReplayErr.Cont{", "call:wal.Move", "if:err2 != nil{",
   "return", "}", "}", "continue", "}", "call:w.Delete", "if:err != nil{", "return", "}", "}", "return"]

theorem skel_CleanupOldWALFiles : dropNoise executor_WALCleaner_CleanupOldWALFiles = expCleanup := by decide

example : (cleanupOne 7 [] ⟨3, false, .replayInProcess, [.tgData 1 [⟨2020, 1, [9]⟩], .tgSum 1]⟩).1 = .replayedAndDeleted := by
  decide

end Mkts.Props.C34
