import Mkts.Model.Store
/-!
# WAL protocol model (executor/wal.go: FlushToWAL, FlushCommandsToWAL, CreateCheckpoint, the
rotation arm of SyncWAL; executor/walreplay.go: Replay; executor/walclean.go; internal/di/wal.go)

One *effect* = one file-mutating system call of the server, in the order the code issues them
(the order is re-extracted from the source by factgen — `Mkts.Extracted.Skel` — and recorded from
the running code with strace; see Props/C01 and lib/walcheck.py).  A crash is a prefix of the
effect trace.  Fixed-length primary files are slot maps (`Mkts.Store.Slots`); the WAL is a list of
records; `cache` is what the OS page cache holds (survives a process crash), `durable` what
reached the disk (survives power loss).
-/
namespace Mkts.WalProto
open Mkts.Store Mkts.Bytes

/-- records appended to the WAL file, one per `write(2)` -/
inductive Rec where
  | tgPrep (id : Nat)                      -- TXNINFO id WAL PREPARING
  | tgMid (id : Nat)                       -- message id byte TGDATA
  | tgLen (id : Nat)                       -- 8-byte length
  | tgData (id : Nat) (cmds : List Cmd)    -- serialized transaction group
  | tgSum (id : Nat)                       -- 16-byte MD5
  | tgCommit (id : Nat)                    -- TXNINFO id WAL COMMITCOMPLETE
  | ckPrep (id : Nat)                      -- TXNINFO id CHECKPOINT PREPARING
  | ckDone (id : Nat)                      -- TXNINFO id CHECKPOINT COMMITCOMPLETE
  | status                                 -- status header (re)written at offset 0
deriving Repr, DecidableEq

inductive Effect where
  | walAppend (r : Rec)
  | walFsync
  | prim (c : Cmd)          -- pwrite of index+payload into a primary file
  | sync                    -- sync(2): everything in the page cache becomes durable
  | walTruncate
  | ack                     -- the write request returns to the client
deriving Repr, DecidableEq

/-- events of the single-threaded WAL writer -/
inductive Event where
  | flush (cmds : List Cmd)     -- one transaction group (one write request in sync mode)
  | checkpoint
  | rotate
deriving Repr

structure St where
  wal : List Rec := []
  prim : Slots := []
  walDurable : List Rec := []     -- WAL content as of its last fsync / sync
  primDurable : Slots := []       -- primary content as of the last sync
  acked : Nat := 0                -- number of acknowledged flushes
  applied : List Cmd := []        -- ghost: every primary write performed so far, in order
  appliedAtSync : Nat := 0        -- ghost: how many of them the last sync(2) made durable
deriving Repr

/-- writer bookkeeping carried between events: next TG id, lastCommittedTGID -/
structure Ctl where
  tgid : Nat := 1
  lastCommitted : Option Nat := none
deriving Repr

/-- effects of `FlushToWAL`+`FlushCommandsToWAL` for transaction group `id` -/
def flushEffects (id : Nat) (cmds : List Cmd) : List Effect :=
  [.walAppend (.tgPrep id), .walAppend (.tgMid id), .walAppend (.tgLen id), .walAppend (.tgData id cmds),
   .walAppend (.tgSum id), .walAppend (.tgCommit id), .walFsync] ++ cmds.map .prim ++ [.ack]

/-- effects of `CreateCheckpoint` -/
def checkpointEffects (last : Option Nat) : List Effect :=
  match last with
  | none => []
  | some id => [.walAppend (.ckPrep id), .sync, .walAppend (.ckDone id)]

/-- the rotation arm: checkpoint, truncate, status (WriteStatus fsyncs) -/
def rotateEffects (last : Option Nat) : List Effect :=
  checkpointEffects last ++ [.walTruncate, .walAppend .status, .walFsync]

def eventEffects (c : Ctl) : Event → List Effect × Ctl
  | .flush cmds => (flushEffects c.tgid cmds, { tgid := c.tgid + 1, lastCommitted := some c.tgid })
  | .checkpoint => (checkpointEffects c.lastCommitted, { c with lastCommitted := none })
  | .rotate => (rotateEffects c.lastCommitted, { c with lastCommitted := none })

def trace : Ctl → List Event → List Effect
  | _, [] => []
  | c, e :: rest => (eventEffects c e).1 ++ trace (eventEffects c e).2 rest

def exec (s : St) : Effect → St
  | .walAppend r => { s with wal := s.wal ++ [r] }
  | .walFsync => { s with walDurable := s.wal }
  | .prim c => { s with prim := s.prim.put (c.year, c.index) c.payload, applied := s.applied ++ [c] }
  | .sync => { s with walDurable := s.wal, primDurable := s.prim, appliedAtSync := s.applied.length }
  | .walTruncate => { s with wal := [] }
  | .ack => { s with acked := s.acked + 1 }

def run (s : St) (es : List Effect) : St := es.foldl exec s

/-- first pass of `Replay`: transaction groups whose data record is complete (checksum record
    present) and that no later CHECKPOINT COMMITCOMPLETE covers, in WAL order. -/
def scanLive : List Rec → List (Nat × List Cmd) → Option (Nat × List Cmd) → List (Nat × List Cmd)
  | [], live, _ => live
  | .tgData id cmds :: rest, live, _ => scanLive rest live (some (id, cmds))
  | .tgSum id :: rest, live, pend =>
    match pend with
    | some (id', cmds) => if id' = id then scanLive rest (live ++ [(id, cmds)]) none else scanLive rest live none
    | none => scanLive rest live none
  | .ckDone id :: rest, live, pend =>
    if live.any (fun t => t.1 = id) then scanLive rest (live.filter (fun t => ¬ t.1 ≤ id)) pend
    else scanLive rest live pend
  | _ :: rest, live, pend => scanLive rest live pend

def liveTGs (wal : List Rec) : List (Nat × List Cmd) := scanLive wal [] none

/-- second pass of `Replay` (TGs are already in ascending id order in a protocol trace): apply -/
def replay (prim : Slots) (live : List (Nat × List Cmd)) : Slots :=
  live.foldl (fun p t => applyCmds p t.2) prim

/-- primary content after a process crash and restart -/
def recover (s : St) : Slots := replay s.prim (liveTGs s.wal)

/-- primary content after power loss (nothing beyond the durable views survives) and restart -/
def recoverPowerLoss (s : St) : Slots := replay s.primDurable (liveTGs s.walDurable)

/-- all commands of the flush events of a history, in commit order -/
def allCmds : List Event → List Cmd
  | [] => []
  | .flush cmds :: rest => cmds ++ allCmds rest
  | _ :: rest => allCmds rest

def flushCount : List Event → Nat
  | [] => 0
  | .flush _ :: rest => 1 + flushCount rest
  | _ :: rest => flushCount rest

end Mkts.WalProto
