import Mkts.Model.Time
import Mkts.Model.Bytes
/-!
# Storage-engine model for fixed-length buckets
(`executor/writer.go` WriteCSM/WriteRecords, `executor/wal.go` flush → primary write,
`executor/scanner.go` NewIOPlan/read/packingReader, `planner/planner.go`, `frontend/query.go`
ExecuteQuery, `catalog` year files), configured zone UTC.

A stored row is `(t, payload)`: the engine never interprets the value columns, so the payload is
an opaque byte string (concatenation of the non-Epoch columns in schema order).  A bucket is a
map from `(year file, slot index)` to payload; slot index 0 exists on disk (1D, January 1) but is
never returned by the reader, exactly as in the code.
-/
namespace Mkts.Store
open Mkts.Time Mkts.Bytes

/-- a row of a write request / of a query result: epoch seconds, payload -/
structure Row where
  sec : Int
  payload : Bytes
deriving Repr, DecidableEq, BEq

/-- a queued write command for a fixed-length file: year file, slot index, payload -/
structure Cmd where
  year : Int
  index : Int
  payload : Bytes
deriving Repr, DecidableEq

/-- `(year, index) ↦ payload`, association list, later entries shadow earlier ones on lookup via
    `put` (which replaces in place). -/
abbrev Slots := List ((Int × Int) × Bytes)

def Slots.put (s : Slots) (k : Int × Int) (v : Bytes) : Slots :=
  match s with
  | [] => [(k, v)]
  | (k', v') :: rest => if k' = k then (k, v) :: rest else (k', v') :: Slots.put rest k v

def Slots.get (s : Slots) (k : Int × Int) : Option Bytes :=
  match s with
  | [] => none
  | (k', v') :: rest => if k' = k then some v' else Slots.get rest k

def nsOfSec (s : Int) : Int := s * nsPerSec

/-- `WriteRecords` for a fixed-length bucket (after the `prevYear` fix): the list of commands
    queued for one request.  State of the loop: the pending command, `prevIndex`, `prevYear`.
    `tbi.Year` only selects the file and always equals the row's year when the command is built. -/
def writeRecordsAux (tf : Int) : List Row → Option Cmd → Int → Int → List Cmd → List Cmd
  | [], cc, _, _, acc => match cc with | none => acc.reverse | some c => (c :: acc).reverse
  | r :: rest, cc, prevIndex, prevYear, acc =>
    let t := nsOfSec r.sec
    let year := localYear utc t
    let index := timeToIndex utc t tf
    match cc with
    | none => writeRecordsAux tf rest (some ⟨year, index, r.payload⟩) index year acc
    | some c =>
      if index = prevIndex ∧ year = prevYear then
        -- interior of a multi-row write to one slot: fixed records keep the last row
        writeRecordsAux tf rest (some { c with payload := r.payload }) prevIndex prevYear acc
      else
        writeRecordsAux tf rest (some ⟨year, index, r.payload⟩) index year (c :: acc)

def writeRecords (tf : Int) (rows : List Row) : List Cmd := writeRecordsAux tf rows none 0 0 []

/-- primary write of a flushed transaction group: every command overwrites its slot, in order
    (commands of different files commute; within a file the order is the queue order). -/
def applyCmds (s : Slots) (cs : List Cmd) : Slots :=
  cs.foldl (fun s c => s.put (c.year, c.index) c.payload) s

/-! ## reading -/

structure Query where
  /-- `none` = no bound given by the client -/
  start : Option Int     -- ns
  stop : Option Int      -- ns
  limit : Option (Nat × Bool)   -- (N, fromStart)
deriving Repr

def insertSorted (k : Int × Int) (v : Bytes) : List ((Int × Int) × Bytes) → List ((Int × Int) × Bytes)
  | [] => [(k, v)]
  | (k', v') :: rest =>
    if k.1 < k'.1 ∨ (k.1 = k'.1 ∧ k.2 ≤ k'.2) then (k, v) :: (k', v') :: rest
    else (k', v') :: insertSorted k v rest

/-- all filled slots in (year, index) order -/
def sortedSlots (s : Slots) : List ((Int × Int) × Bytes) :=
  s.foldr (fun kv acc => insertSorted kv.1 kv.2 acc) []

/-- the byte-range restriction of `NewIOPlan` expressed on slot indices: file `y` is scanned iff
    `startYear ≤ y ≤ endYear`; in the start year from the slot of `start`, in the end year up to
    and including the slot of `stop`; never below the first slot of the data area except through
    the start offset (index 0 is a hole to the reader in any case). -/
def inRange (tf : Int) (q : Query) (y idx : Int) : Bool :=
  let okStart := match q.start with
    | none => true
    | some st =>
      let sy := localYear utc st
      decide (sy < y) || (sy == y && decide (timeToIndex utc st tf ≤ idx))
  let okEnd := match q.stop with
    | none => true
    | some en =>
      let ey := localYear utc en
      decide (y < ey) || (ey == y && decide (idx ≤ timeToIndex utc en tf))
  okStart && okEnd && decide (1 ≤ idx)

def rowOfSlot (tf : Int) (kv : (Int × Int) × Bytes) : Row :=
  ⟨(indexToTime utc kv.1.2 tf kv.1.1) / nsPerSec, kv.2⟩

def takeLast {α} (n : Nat) (l : List α) : List α := l.drop (l.length - n)

/-- `ExecuteQuery` on a fixed-length bucket -/
def query (tf : Int) (s : Slots) (q : Query) : List Row :=
  let inr := (sortedSlots s).filter (fun kv => inRange tf q kv.1.1 kv.1.2)
  let rows := inr.map (rowOfSlot tf)
  match q.limit with
  | none => rows
  | some (n, true) => rows.take n
  | some (n, false) => takeLast n rows

/-! ## the abstract specification: last-writer-wins interval map -/

/-- key of the interval a row falls into -/
def slotKey (tf : Int) (r : Row) : Int × Int :=
  (localYear utc (nsOfSec r.sec), timeToIndex utc (nsOfSec r.sec) tf)

/-- last-writer-wins map of a whole history (list of requests, each a list of rows) -/
def lww (tf : Int) (hist : List (List Row)) : Slots :=
  hist.foldl (fun s req => req.foldl (fun s r => s.put (slotKey tf r) r.payload) s) []

/-- what the store holds after a history of requests -/
def applyHist (tf : Int) (hist : List (List Row)) : Slots :=
  hist.foldl (fun s req => applyCmds s (writeRecords tf req)) []

/-- C08's demanded answer to the unrestricted query -/
def specAll (tf : Int) (hist : List (List Row)) : List Row :=
  (sortedSlots (lww tf hist)).map (rowOfSlot tf)

end Mkts.Store
