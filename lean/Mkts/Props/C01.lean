import Mkts.Lemmas.WalProto
/-!
# C01 — Acknowledged writes survive a process crash  (also the core of C02, C05)

Model: `Mkts.WalProto` — the single-threaded WAL writer as a sequence of events (flush of one
transaction group, checkpoint, rotation), each event a fixed list of system-call effects; a
crash is ANY prefix of the effect trace; restart = first pass (`scanLive`) + second pass
(`replay`) of `Replay`.  Fixed-length buckets (slot maps).

Main theorem `C01_crash_recovery`: for every history of events and every crash point, the
recovered primary content is observationally the last-writer-wins map of the first `m` flushed
transaction groups, where `m` is the number of acknowledged groups or one more (the group in
flight, applied entirely or not at all).
-/
namespace Mkts.Props.C01
open Mkts.WalProto Mkts.Store Mkts.Bytes

theorem allCmds_append (a b : List Event) : allCmds (a ++ b) = allCmds a ++ allCmds b := by
  induction a with
  | nil => rfl
  | cons e rest ih => cases e <;> simp [allCmds, ih]

theorem flushCount_append (a b : List Event) : flushCount (a ++ b) = flushCount a + flushCount b := by
  induction a with
  | nil => simp [flushCount]
  | cons e rest ih => cases e <;> simp [flushCount, ih] <;> omega

theorem crash_recovery_gen (evs : List Event) :
    ∀ (s : St) (c : Ctl) (done : List Cmd) (liveL : List (Nat × List Cmd)) (doneEvs : List Event),
      Bnd s c done liveL → done = allCmds doneEvs → s.acked = flushCount doneEvs →
      ∀ es, es <+: trace c evs →
        ∃ evs1, evs1 <+: evs ∧
          Shape (run s es) (allCmds (doneEvs ++ evs1)) ∧
          (run s es).acked ≤ flushCount (doneEvs ++ evs1) ∧
          flushCount (doneEvs ++ evs1) ≤ (run s es).acked + 1 := by
  induction evs with
  | nil =>
    intro s c done liveL doneEvs hb hd ha es hes
    have : es = [] := by simpa [trace] using hes
    subst this
    refine ⟨[], List.prefix_refl _, ?_, ?_, ?_⟩
    · rw [List.append_nil, ← hd]; exact recover_of_bnd hb
    · simp [run, ha]
    · simp [run, ha]
  | cons e rest ih =>
    intro s c done liveL doneEvs hb hd ha es hes
    simp only [trace] at hes
    rcases prefix_append_cases _ _ _ hes with h1 | ⟨t, ht, rfl⟩
    · -- crash inside event `e`
      cases e with
      | flush cmds =>
        rcases flush_step hb cmds es h1 with ⟨heq, hack⟩ | ⟨heq, hack⟩
        · refine ⟨[], List.nil_prefix, ?_, ?_, ?_⟩
          · rw [List.append_nil, ← hd]; exact heq
          · rw [List.append_nil, hack, ha]; exact Nat.le_refl _
          · rw [List.append_nil, hack, ha]; exact Nat.le_succ _
        · refine ⟨[Event.flush cmds], by simp, ?_, ?_, ?_⟩
          · rw [allCmds_append, ← hd]; simpa [allCmds] using heq
          · rw [flushCount_append]; simp only [flushCount]
            rcases hack with h | ⟨_, h⟩ <;> omega
          · rw [flushCount_append]; simp only [flushCount]
            rcases hack with h | ⟨_, h⟩ <;> omega
      | checkpoint =>
        obtain ⟨heq, hack⟩ := checkpoint_step hb es h1
        refine ⟨[], List.nil_prefix, ?_, ?_, ?_⟩
        · rw [List.append_nil, ← hd]; exact heq
        · rw [List.append_nil, hack, ha]; exact Nat.le_refl _
        · rw [List.append_nil, hack, ha]; exact Nat.le_succ _
      | rotate =>
        obtain ⟨heq, hack⟩ := rotate_step hb es h1
        refine ⟨[], List.nil_prefix, ?_, ?_, ?_⟩
        · rw [List.append_nil, ← hd]; exact heq
        · rw [List.append_nil, hack, ha]; exact Nat.le_refl _
        · rw [List.append_nil, hack, ha]; exact Nat.le_succ _
    · -- event `e` completed; continue in the rest of the history
      rw [run_append]
      cases e with
      | flush cmds =>
        simp only [eventEffects] at ht ⊢
        obtain ⟨hb', hack'⟩ := flush_full hb cmds
        obtain ⟨evs1, hp, heq, h2, h3⟩ := ih _ _ (done ++ cmds) _ (doneEvs ++ [Event.flush cmds]) hb'
          (by rw [allCmds_append, hd]; simp [allCmds])
          (by rw [flushCount_append, hack', ha]; simp [flushCount]) t ht
        exact ⟨Event.flush cmds :: evs1, (List.cons_prefix_cons).mpr ⟨rfl, hp⟩,
          by simpa [List.append_assoc] using heq, by simpa [List.append_assoc] using h2,
          by simpa [List.append_assoc] using h3⟩
      | checkpoint =>
        simp only [eventEffects] at ht ⊢
        obtain ⟨liveL', hb', hack'⟩ := checkpoint_full hb
        obtain ⟨evs1, hp, heq, h2, h3⟩ := ih _ _ done _ (doneEvs ++ [Event.checkpoint]) hb'
          (by rw [allCmds_append, hd]; simp [allCmds])
          (by rw [flushCount_append, hack', ha]; simp [flushCount]) t ht
        exact ⟨Event.checkpoint :: evs1, (List.cons_prefix_cons).mpr ⟨rfl, hp⟩,
          by simpa [List.append_assoc] using heq, by simpa [List.append_assoc] using h2,
          by simpa [List.append_assoc] using h3⟩
      | rotate =>
        simp only [eventEffects] at ht ⊢
        obtain ⟨hb', hack'⟩ := rotate_full hb
        obtain ⟨evs1, hp, heq, h2, h3⟩ := ih _ _ done _ (doneEvs ++ [Event.rotate]) hb'
          (by rw [allCmds_append, hd]; simp [allCmds])
          (by rw [flushCount_append, hack', ha]; simp [flushCount]) t ht
        exact ⟨Event.rotate :: evs1, (List.cons_prefix_cons).mpr ⟨rfl, hp⟩,
          by simpa [List.append_assoc] using heq, by simpa [List.append_assoc] using h2,
          by simpa [List.append_assoc] using h3⟩

/-- the structural form of the theorem: the crash state has the `Shape` of a prefix `evs1` of the
    history (used again by C02 for the record multiplicities of variable-length buckets) -/
theorem C01_crash_shape (evs : List Event) (es : List Effect) (hes : es <+: trace {} evs) :
    ∃ evs1, evs1 <+: evs ∧ Shape (run {} es) (allCmds evs1) ∧
      (run {} es).acked ≤ flushCount evs1 ∧ flushCount evs1 ≤ (run {} es).acked + 1 := by
  simpa using crash_recovery_gen evs {} {} [] [] [] bnd_init rfl rfl es hes

/-- C01 / C02 / C05 (fixed-length buckets): for EVERY history of writer events (flushes,
    checkpoints, rotations in any order) and EVERY crash point (any prefix `es` of the
    system-call trace), restart recovers exactly the last-writer-wins content of a prefix `evs1`
    of the history that contains every acknowledged flush and at most one more (the transaction
    group in flight, atomically). -/
theorem C01_crash_recovery (evs : List Event) (es : List Effect) (hes : es <+: trace {} evs) :
    ∃ evs1, evs1 <+: evs ∧
      Equiv (recover (run {} es)) (applyCmds [] (allCmds evs1)) ∧
      (run {} es).acked ≤ flushCount evs1 ∧ flushCount evs1 ≤ (run {} es).acked + 1 := by
  obtain ⟨evs1, hp, hs, h1, h2⟩ := C01_crash_shape evs es hes
  exact ⟨evs1, hp, shape_recover hs, h1, h2⟩

/-- every acknowledged write is visible after recovery: the recovered value of a slot is the
    payload of the last command for it among a prefix of the history that contains all
    acknowledged flushes -/
theorem C01_acked_visible (evs : List Event) (es : List Effect) (hes : es <+: trace {} evs) (k : Int × Int) :
    ∃ evs1, evs1 <+: evs ∧ (run {} es).acked ≤ flushCount evs1 ∧
      (recover (run {} es)).get k =
        ((allCmds evs1).reverse.find? (fun c => (c.year, c.index) = k)).map (·.payload) := by
  obtain ⟨evs1, hp, heq, h1, _⟩ := C01_crash_recovery evs es hes
  refine ⟨evs1, hp, h1, ?_⟩
  rw [heq k, get_applyCmds]
  cases (allCmds evs1).reverse.find? (fun c => decide ((c.year, c.index) = k)) <;> simp [Slots.get]

/-! non-vacuity: two flushes to the same slot with a checkpoint between; crash after the second
TG's checksum record, before its primary write -/
def demoEvs : List Event := [.flush [⟨2020, 1, [1]⟩], .checkpoint, .flush [⟨2020, 1, [2]⟩, ⟨2020, 2, [3]⟩]]
example : ((trace {} demoEvs).take 17) <+: trace {} demoEvs := List.take_prefix _ _
example : (recover (run {} ((trace {} demoEvs).take 17))).get (2020, 1) = some [2] := by decide
example : (run {} ((trace {} demoEvs).take 17)).acked = 1 := by decide
example : (run {} ((trace {} demoEvs).take 17)).prim.get (2020, 1) = some [1] := by decide

end Mkts.Props.C01
