import Mkts.Lemmas.Catalog
import Mkts.Lemmas.CatalogConc
import Mkts.Model.CatalogTie
import Mkts.Model.Skel
/-!
# C17 — the catalog stays consistent with the disk

`Consistent s`: the catalog tree is what a restart would load from the directory tree
(`load s.disk`), it holds the same `(bucket, year)` pairs as the disk, and the root's `directMap`
resolves no Directory object that is not in the tree.

The model carries the `Variant` of three repaired statements of `catalog/catalog.go`, read off the
regenerated skeletons (`Mkts.CatalogTie.codeVariant`); `code_variant` pins it: the CURRENT source
is the repaired one.  If a repair is reverted `code_variant` no longer holds, the model (driver)
follows the code, and the specification line of the `cat` / `catrace` cases exposes the defect.

Sequential part
* `C17_seq` / `C17_code` (FULL, induction over the history): for every history over the key space
  of the property (Create / Write keys have three items, Destroy may carry ANY key), `Consistent`
  holds after every operation — including creations that are rejected, and Destroy of a whole
  symbol or timeframe.
* `C17_before_repair_*`: the two former counterexamples, kept as statements about
  `Variant.original` (the code before the fix commits), each with the same history being
  consistent under `Variant.repaired`.

Concurrent part: second half of this file.
-/
namespace Mkts.Props.C17
open Mkts.Catalog Mkts.CatalogTie

/-- the CURRENT source implements the repaired variant of all three statements
    (regenerated skeletons of `removeSubDir`, `AddTimeBucket`, `RemoveTimeBucket`,
    `GetSubDirectoryAndAddFile`) -/
theorem code_variant : codeVariant = Variant.repaired := by decide

/-- the year files a tree holds for a bucket path -/
def HasYear (d : Dir) (p : Path) (y : Int) : Prop := ∃ r, find p d = some r ∧ ∃ f ∈ r.files, f.1 = y

structure Consistent (s : St) : Prop where
  /-- a fresh restart lists the same: every path resolves to the same Directory content -/
  restart_same : ∀ p, find p (restart s).tree = find p s.tree
  /-- the catalog's set of (bucket, year) equals the disk's -/
  years_same : ∀ p y, HasYear s.tree p y ↔ HasYear s.disk p y
  /-- the directMap view is the tree view -/
  dmap_same : ∀ p, dlookup s p = (find p s.tree).bind (fun r => if r.files.isEmpty then none else some r)

theorem consistent_of_inv {s : St} (I : Inv s) : Consistent s where
  restart_same := fun p => by simp only [restart]; rw [find_load_wf I.wf, I.same]
  years_same := fun p y => by simp only [HasYear, I.same]
  dmap_same := fun p => by
    simp only [dlookup, I.stale, find]
    cases find p s.tree <;> simp

/-- Sequential theorem for every variant with the two sequential repairs: after EVERY history whose
    Create / Write keys have three items the catalog is consistent. -/
theorem C17_seq (v : Variant) (hd : v.deepDelete = true) (hc : v.checkFirst = true)
    (now : Int) (ops : List Op) (hk : ∀ op ∈ ops, op.keyOK) : Consistent (run v now St.init ops) :=
  consistent_of_inv (run_inv hd hc now ops St.init Inv_init hk)

/-- The full-strength statement for the code that exists. -/
def C17_full : Prop :=
  ∀ (now : Int) (ops : List Op), (∀ op ∈ ops, op.keyOK) → ∀ n, Consistent (run codeVariant now St.init (ops.take n))

/-- …it holds: after every operation of every history (every prefix). -/
theorem C17_code : C17_full := by
  intro now ops hk n
  rw [code_variant]
  exact C17_seq _ rfl rfl now _ (fun op ho => hk op (List.mem_of_mem_take ho))

/-- a restart of the server lists the same buckets and years as are on disk -/
theorem C17_restart_lists_same (now : Int) (ops : List Op) (hk : ∀ op ∈ ops, op.keyOK) (p : Path) (y : Int) :
    HasYear (restart (run codeVariant now St.init ops)).tree p y ↔ HasYear (run codeVariant now St.init ops).disk p y := by
  have C := C17_code now ops hk ops.length
  rw [List.take_length] at C
  simp only [HasYear, C.restart_same]
  exact C.years_same p y

def defaultCats' : List String := ["Symbol", "Timeframe", "AttributeGroup"]

/-! ### before the repair (statements about `Variant.original`, i.e. the code before the fix commits) -/

/-- Destroy "A" (one item) after Create A/1Min/X. -/
def cexPrefix : List Op := [.create ["A", "1Min", "X"] defaultCats' 0, .destroy ["A"]]

/-- BEFORE the repair of `removeSubDir`: the bucket is gone from disk and from the listing, but the
    directMap still resolves it (GetInfo answers, writes are accepted). -/
theorem C17_before_repair_prefix_destroy :
    (run .original 2026 St.init cexPrefix).disk = [([], ⟨some "Symbol", []⟩)] ∧
    find ["A", "1Min", "X"] (run .original 2026 St.init cexPrefix).tree = none ∧
    dlookup (run .original 2026 St.init cexPrefix) ["A", "1Min", "X"] = some ⟨some "Year", [(2026, 0)]⟩ := by
  decide

/-- the same history now: the directMap no longer resolves the destroyed bucket -/
theorem C17_prefix_destroy_repaired :
    dlookup (run .repaired 2026 St.init cexPrefix) ["A", "1Min", "X"] = none ∧
    (run .repaired 2026 St.init cexPrefix).stale = [] := by decide

/-- Create B/1D/Y with root category "Sym" on a root whose category is "Symbol". -/
def cexCreate : List Op :=
  [.create ["A", "1Min", "X"] defaultCats' 0, .create ["B", "1D", "Y"] ["Sym", "Timeframe", "AttributeGroup"] 0]

/-- BEFORE the repair of `AddTimeBucket`: error, but the directory B exists; the running catalog
    does not list B, a restarted one does. -/
theorem C17_before_repair_failed_create :
    results .original 2026 St.init cexCreate = [.ok, .catMismatch] ∧
    find ["B"] (run .original 2026 St.init cexCreate).tree = none ∧
    find ["B"] (restart (run .original 2026 St.init cexCreate)).tree = some ⟨none, []⟩ := by
  decide

/-- the same history now: same error, nothing left behind; a key with more items than categories is
    rejected (`err:keylen`) instead of panicking after the mkdir -/
theorem C17_failed_create_repaired :
    results .repaired 2026 St.init cexCreate = [.ok, .catMismatch] ∧
    find ["B"] (run .repaired 2026 St.init cexCreate).disk = none ∧
    (step .repaired 2026 St.init (.create ["A", "1Min", "X", "Z"] defaultCats' 0)) = (St.init, .keyLen) := by
  decide

/-! non-vacuity: a history of the covered key space with a recreation under another schema, a
new-year write, an auto-creating write, a rejected creation, a Destroy of a whole symbol, a restart -/
def demo : List Op :=
  [.create ["A", "1Min", "X"] defaultCats' 0, .write ["A", "1Min", "X"] 0 [2026, 2020],
   .destroy ["A", "1Min", "X"], .create ["A", "1Min", "X"] defaultCats' 1,
   .write ["A", "1Min", "X"] 0 [2021], .write ["B", "1D", "Y"] 1 [2019, 2020],
   .create ["C", "1D", "Y"] ["Sym", "Timeframe", "AttributeGroup"] 0, .destroy ["A"], .restart]

example : ∀ op ∈ demo, op.keyOK := by decide

example : results .repaired 2026 St.init demo = [.ok, .ok, .ok, .ok, .colMismatch, .ok, .catMismatch, .ok, .ok] ∧
    yearsOf (run .repaired 2026 St.init demo).tree = [(["B", "1D", "Y"], 2019), (["B", "1D", "Y"], 2020)] := by
  decide

/-! # Concurrent part

## Tie: the lock atoms of the Go source (regenerated skeletons)

The step relation of `Mkts.CatalogConc` assumes: `AddTimeBucket`, `RemoveTimeBucket` and
`GetSubDirectoryAndAddFile` hold the root's `mutMu` from their first statement to their return
(`codeVariant.serialised`); `AddTimeBucket` and `GetSubDirectoryAndAddFile` then hold the root's write
lock to their return and take no other lock themselves; `RemoveTimeBucket` takes no Directory lock
itself and is the sequence descent → (removeDirFiles | removeSubDir) → DirHasSubDirs →
removeDirFiles per level → removeDirFiles → root.removeSubDir; the helpers lock exactly one
Directory for their whole body.  These are `decide`d on the constants factgen regenerates from
`catalog/catalog.go` on every run. -/
section Skeleton
open Mkts.Extracted.Skel

def lockCalls (recv : String) : List String :=
  ["call:" ++ recv ++ ".Lock", "call:" ++ recv ++ ".Unlock", "call:" ++ recv ++ ".RLock", "call:" ++ recv ++ ".RUnlock"]

/-- `recv.<lock>(); defer recv.<unlock>()` are the first statements and no other lock call follows -/
def holdsThroughout (recv lock unlock : String) (sk : List String) : Bool :=
  sk.take 4 == ["call:" ++ recv ++ "." ++ lock, "defer{", "call:" ++ recv ++ "." ++ unlock, "}"] &&
  (sk.drop 4).all (fun a => !((lockCalls recv).contains a))

/-- `mutMu` first, then the root's write lock, both to the end of the function -/
theorem C17_skel_AddTimeBucket_holds_locks :
    holdsThroughout "d.mutMu" "Lock" "Unlock" catalog_Directory_AddTimeBucket = true ∧
    holdsThroughout "d" "Lock" "Unlock" (catalog_Directory_AddTimeBucket.drop 4) = true := by decide

theorem C17_skel_GetSubDirectoryAndAddFile_holds_locks :
    holdsThroughout "d.mutMu" "Lock" "Unlock" catalog_Directory_GetSubDirectoryAndAddFile = true ∧
    holdsThroughout "d" "Lock" "Unlock" (catalog_Directory_GetSubDirectoryAndAddFile.drop 4) = true ∧
    catalog_Directory_GetSubDirectoryAndAddFile.contains "call:dir2.AddFile" = true := by decide

theorem C17_skel_helpers_lock_one_directory :
    holdsThroughout "td" "Lock" "Unlock" catalog_removeDirFiles = true ∧
    catalog_removeDirFiles.contains "call:os.RemoveAll" = true ∧
    holdsThroughout "d" "Lock" "Unlock" catalog_Directory_removeSubDir = true ∧
    holdsThroughout "d" "RLock" "RUnlock" catalog_Directory_GetSubDirWithItemName = true ∧
    holdsThroughout "d" "RLock" "RUnlock" catalog_Directory_DirHasSubDirs = true := by decide

/-- `removeSubDir`, after the guard and under the parent's lock: walk the direct map and delete in
    the callback (keys at or below the removed directory) -/
theorem C17_skel_removeSubDir :
    catalog_Directory_removeSubDir =
      ["call:d.Lock", "defer{", "call:d.Unlock", "}", "if:ok{", "func{", "call:strings.HasPrefix",
       "if:ok && (k == subdir.pathToItemName || strings.HasPrefix(k, prefix)){", "call:directMap.Delete", "}",
       "return", "}", "call:directMap.Range", "}", "if:len(d.subDirs) == 0{", "set:d.subDirs", "}"] := by decide

/-- `RemoveTimeBucket` holds `mutMu` from before the descent to its return, takes no Directory
    lock of its own; its calls, in source order -/
theorem C17_skel_RemoveTimeBucket_sections :
    hasSub catalog_Directory_RemoveTimeBucket (mutMuHeld ++ ["call:tbk.GetItems"]) = true ∧
    (catalog_Directory_RemoveTimeBucket.filter (fun a => a == "call:d.mutMu.Unlock")).length = 1 ∧
    catalog_Directory_RemoveTimeBucket.all (fun a => !((lockCalls "d").contains a)) = true ∧
    catalog_Directory_RemoveTimeBucket.filter (fun a =>
        ["call:current.GetSubDirWithItemName", "call:removeDirFiles", "call:tree[i].removeSubDir",
         "call:tree[i].DirHasSubDirs", "call:d.removeSubDir"].contains a) =
      ["call:current.GetSubDirWithItemName", "call:removeDirFiles",
       "call:tree[i].removeSubDir", "call:tree[i].DirHasSubDirs", "call:removeDirFiles",
       "call:removeDirFiles", "call:d.removeSubDir"] := by decide

/-- effect order of `AddTimeBucket`: count check and read-only category checks FIRST, then per
    level mkdir / category write, year file after the chain, subtree reload + replacement last -/
theorem C17_skel_AddTimeBucket_effects :
    catalog_Directory_AddTimeBucket.filter (fun a =>
        ["if:len(catkeySplit) != len(datakeySplit){", "call:checkCategoryNameFile", "call:os.Mkdir",
         "call:writeCategoryNameFile", "call:newTimeBucketInfoFromTemplate",
         "call:NewDirectory", "call:d.addSubdir", "set:d.category"].contains a) =
      ["if:len(catkeySplit) != len(datakeySplit){", "call:checkCategoryNameFile", "call:checkCategoryNameFile",
       "call:os.Mkdir", "call:writeCategoryNameFile", "call:writeCategoryNameFile",
       "call:newTimeBucketInfoFromTemplate", "set:d.category", "call:NewDirectory", "call:d.addSubdir"] := by
  decide

/-- `AddFile`: the file is created outside any lock section, the catalog insert is its own section -/
theorem C17_skel_AddFile_sections :
    catalog_Directory_AddFile.filter (fun a => (lockCalls "d").contains a ||
        a == "call:newTimeBucketInfoFromTemplate" || a == "setidx:d.datafile") =
      ["call:d.RLock", "call:d.RUnlock", "call:d.RUnlock", "call:d.RLock", "call:d.RUnlock",
       "call:newTimeBucketInfoFromTemplate", "call:d.Lock", "setidx:d.datafile", "call:d.Unlock"] := by decide

end Skeleton

/-! ## Destroy ‖ Create on the same symbol

Before the repair (`Variant.original`): `RemoveTimeBucket` removes the symbol's directory from disk,
`AddTimeBucket` of another bucket of that symbol then re-creates it and installs a fresh subtree,
and `RemoveTimeBucket`'s last section `root.removeSubDir(symbol)` drops that fresh subtree: both
requests succeed, the new bucket is on disk, the catalog does not list it
(`C17_before_repair_race`).  In the current code the three structure-changing operations hold the
root's `mutMu`: EVERY schedule is consistent (`C17_conc_*`, closed reachable state graphs). -/
section Race
open Mkts.CatalogConc

/-- catalog after `Create A/1Min/X` -/
def sh0 (v : Variant) : Shared :=
  (runSeq v 0 40 ⟨[.mkCreate ["A", "1Min", "X"] defaultCats' 2026 0], Shared.init⟩).sh

def raceSys (v : Variant) : Sys :=
  ⟨[.mkDestroy ["A", "1Min", "X"], .mkCreate ["A", "1H", "Z"] defaultCats' 2026 0], sh0 v⟩

/-- Destroy: (lock), descent (3), levels 2,1,0 (3 sections each), removeDirFiles(A) = 14 atoms;
    Create: lock, 3×(mkdir, category), Year, file, reload, unlock = 11 atoms; Destroy: root.removeSubDir -/
def raceSched : List Nat := List.replicate 14 0 ++ List.replicate 11 1 ++ [0]

/-- BEFORE the repair: a schedule after which both requests have succeeded, the bucket is on disk
    and the catalog does not list it. -/
theorem C17_before_repair_race :
    ∃ fin, Sys.run .original (raceSys .original) raceSched = some fin ∧
      fin.threads = [.done .ok, .done .ok] ∧
      diskYears fin.sh = [(["A", "1H", "Z"], 2026)] ∧
      catalogYears fin.sh = [] ∧
      CatalogConc.consistent fin.sh = false := by
  refine ⟨(Sys.run .original (raceSys .original) raceSched).get (by decide), by simp, ?_, ?_, ?_, ?_⟩ <;> decide

/-- that schedule is not a schedule of the current code: Create cannot take `mutMu` while Destroy
    holds it -/
theorem C17_race_schedule_disabled_now :
    Sys.run .repaired (raceSys .repaired) raceSched = none := by decide

def diffSys (v : Variant) : Sys :=
  ⟨[.mkDestroy ["A", "1Min", "X"], .mkCreate ["B", "1H", "Z"] defaultCats' 2026 0], sh0 v⟩
/-- Destroy of the whole symbol (one-item key) ‖ Create in that symbol -/
def prefixSys (v : Variant) : Sys :=
  ⟨[.mkDestroy ["A"], .mkCreate ["A", "1H", "Z"] defaultCats' 2026 0], sh0 v⟩
/-- a write adding a new year file ‖ Create on the same symbol (the pair DESIGN F20 named) -/
def f20Sys (v : Variant) : Sys :=
  ⟨[.mkAddYear ["A", "1Min", "X"] 2020, .mkCreate ["A", "1H", "Z"] defaultCats' 2026 0], sh0 v⟩

def reach (s : Sys) : List Sys := bfs .repaired 80 [s] [s]

/-- every terminal state of the reachable graph: both requests finished successfully, catalog
    consistent with the disk -/
def allGood (s : Sys) : Bool :=
  closed .repaired (reach s) &&
  ((reach s).filter (terminal .repaired)).all (fun t => t.finished && CatalogConc.consistent t.sh &&
    t.threads == [.done .ok, .done .ok])

set_option maxRecDepth 100000 in
theorem reach_ok : allGood (raceSys .repaired) = true ∧ allGood (diffSys .repaired) = true ∧
    allGood (prefixSys .repaired) = true ∧ allGood (f20Sys .repaired) = true := by
  refine ⟨?_, ?_, ?_, ?_⟩ <;> decide +kernel

theorem all_schedules_of (s : Sys) (hg : allGood s = true) (sched : List Nat) (fin : Sys)
    (h : Sys.run .repaired s sched = some fin) (ht : terminal .repaired fin = true) :
    fin.finished = true ∧ CatalogConc.consistent fin.sh = true ∧ fin.threads = [.done .ok, .done .ok] := by
  unfold allGood at hg
  simp only [Bool.and_eq_true] at hg
  have hmem : fin ∈ reach s := run_mem_of_closed hg.1 sched s fin (mem_bfs_of_mem _ _ _ (by simp)) h
  have := (List.all_eq_true.1 hg.2) fin (List.mem_filter.2 ⟨hmem, ht⟩)
  simp only [Bool.and_eq_true, beq_iff_eq] at this
  exact ⟨this.1.1, this.1.2, this.2⟩

/-- For EVERY schedule (any length) of the current code — Destroy A/1Min/X ‖ Create A/1H/Z (same
    symbol), Destroy A/1Min/X ‖ Create B/1H/Z, Destroy A ‖ Create A/1H/Z, new-year write ‖ Create —
    when no step is enabled any more both requests have succeeded and the catalog is consistent
    with the disk (no deadlock, no inconsistency). -/
theorem C17_conc_same_symbol (sched : List Nat) (fin : Sys)
    (h : Sys.run codeVariant (raceSys codeVariant) sched = some fin) (ht : terminal codeVariant fin = true) :
    fin.finished = true ∧ CatalogConc.consistent fin.sh = true ∧ fin.threads = [.done .ok, .done .ok] := by
  rw [code_variant] at h ht
  exact all_schedules_of _ reach_ok.1 sched fin h ht

theorem C17_conc_different_symbols (sched : List Nat) (fin : Sys)
    (h : Sys.run codeVariant (diffSys codeVariant) sched = some fin) (ht : terminal codeVariant fin = true) :
    fin.finished = true ∧ CatalogConc.consistent fin.sh = true ∧ fin.threads = [.done .ok, .done .ok] := by
  rw [code_variant] at h ht
  exact all_schedules_of _ reach_ok.2.1 sched fin h ht

theorem C17_conc_prefix_destroy (sched : List Nat) (fin : Sys)
    (h : Sys.run codeVariant (prefixSys codeVariant) sched = some fin) (ht : terminal codeVariant fin = true) :
    fin.finished = true ∧ CatalogConc.consistent fin.sh = true ∧ fin.threads = [.done .ok, .done .ok] := by
  rw [code_variant] at h ht
  exact all_schedules_of _ reach_ok.2.2.1 sched fin h ht

theorem C17_conc_addfile_vs_create (sched : List Nat) (fin : Sys)
    (h : Sys.run codeVariant (f20Sys codeVariant) sched = some fin) (ht : terminal codeVariant fin = true) :
    fin.finished = true ∧ CatalogConc.consistent fin.sh = true ∧ fin.threads = [.done .ok, .done .ok] := by
  rw [code_variant] at h ht
  exact all_schedules_of _ reach_ok.2.2.2 sched fin h ht

end Race

end Mkts.Props.C17
