import Mkts.Model.Header
import Mkts.Model.Time
import Mkts.Model.Timeframe
/-!
# Bucket schema on disk across create / write / restart / GetInfo (C15)

`frontend.Create` → `NewTimeBucketInfo` → `AddTimeBucket` → `WriteHeader`; the catalog is re-read
from disk inside `AddTimeBucket`, so the schema the server reports (`GetInfo`) and enforces
(`WriteCSM`) is `decode` of the header bytes, cached in the `TimeBucketInfo` object after the first
access (`IsRead`) and re-read after a restart.  A fixed-length 1D bucket writes the record dated
January 1 at slot index 0 = offset `Headersize - recordLength`, i.e. INSIDE the header.
One year file per bucket (the generator keeps every row in the bucket's year).
-/
namespace Mkts.HeaderStore
open Mkts.Bytes Mkts.Header

/-- `typeMap` of utils/io/numpy.go: wire type string ↦ EnumElementType -/
def typeMap : List (String × Nat) :=
  [("i1", 5), ("i2", 9), ("i4", 1), ("i8", 3), ("u1", 10), ("u2", 11), ("u4", 12), ("u8", 13), ("f4", 0), ("f8", 2),
   ("U16", 14)]

def typeSize (t : Nat) : Nat :=
  match Mkts.Extracted.attributeMap.find? (fun e => e.1 == t) with
  | some e => e.2.2
  | none => 0

structure Col where
  name : Str
  ty : String
deriving Repr, DecidableEq

structure Bucket where
  key : String
  tf : Nat
  year : Nat
  /-- bytes of the year file's header (`[]` = the 0-byte file left by a creation that panicked) -/
  disk : Bytes
  inCatalog : Bool
  cached : Option TBI
  /-- `once.Do` already ran and failed -/
  dead : Bool
deriving Repr

abbrev State := List Bucket

def find (st : State) (key : String) : Option Bucket := st.find? (·.key == key)
def put (st : State) (b : Bucket) : State :=
  if (find st b.key).isSome then st.map (fun x => if x.key == b.key then b else x) else st ++ [b]

def defaultDesc : Str := "Default".toUTF8.toList
def writerDesc : Str := "Created By Writer".toUTF8.toList

def keyTf (key : String) : Option Nat :=
  match key.splitOn "/" with
  | [_, tf, _] => (Mkts.Timeframe.timeframeFromString tf.toList).map Int.toNat
  | _ => none

def resolveCols (cols : List Col) : Option (List (Str × Nat)) :=
  cols.mapM (fun c => (typeMap.lookup c.ty).map (fun t => (c.name, t)))

/-- the file creation inside `AddTimeBucket` -/
def createFile (st : State) (key : String) (tf : Nat) (tbi : TBI) : State × String :=
  -- `AddTimeBucket` validates the schema first (as far as the current source does)
  if !validSchema codeFlags tbi then (st, "err:other") else
  match find st key with
  | some _ => (st, "err:exists")
  | none =>
    match encode tbi with
    | none => (put st ⟨key, tf, tbi.year, [], false, none, false⟩, "panic:index")
    | some b => (put st ⟨key, tf, tbi.year, b, true, none, false⟩, "ok")

def create (st : State) (nowYear : Nat) (key : String) (isVar : Bool) (cols : List Col) : State × String :=
  match keyTf key with
  | none => (st, "err:timeframe")
  | some tf =>
    match resolveCols cols with
    | none => (st, "err:type")
    | some dsv =>
      createFile st key tf (newTimeBucketInfo typeSize tf defaultDesc nowYear dsv (if isVar then 1 else 0))

/-- first access to the `TimeBucketInfo` of the bucket: `initFromFile` -/
def tbiOf (b : Bucket) : Option TBI × Bucket :=
  match b.cached with
  | some t => (some t, b)
  | none =>
    if b.dead then (some ⟨0, [], b.year, 0, 0, 0, [], []⟩, b) else
    match decode b.disk with
    | some t => (some t, { b with cached := some t })
    | none => (none, { b with dead := true })

def hexStr (s : Str) : String :=
  if s.isEmpty then "-" else
  String.ofList (s.foldr (fun x acc =>
    let nib (n : Nat) : Char := if n < 10 then Char.ofNat (n + 48) else Char.ofNat (n + 87)
    nib (x.toNat / 16) :: nib (x.toNat % 16) :: acc) [])

def showInfo (tf rt : Nat) (cols : List (Str × Nat)) : String :=
  s!"tf{tf},rt{rt}," ++ ",".intercalate (((epochName, 3) :: cols).map (fun c => hexStr c.1 ++ "=" ++ toString c.2))

def info (st : State) (key : String) : State × String :=
  match find st key with
  | none => (st, "err:nokey")
  | some b =>
    if !b.inCatalog then (st, "err:nokey") else
    match tbiOf b with
    | (none, b') => (put st b', "fatal")
    | (some t, b') => (put st b', showInfo t.timeframe t.recordType (t.names.zip t.types))

structure RowIn where
  sec : Int
  payload : Bytes
deriving Repr

/-- outcome of the schema test of `WriteCSM` for the cases the C15 generator produces: identical
    shapes ⇒ ok; different count or a bucket column name absent from the input ⇒ mismatch;
    `none` = needs the coercion model (C14), not generated here -/
def schemaTest (db cs : List (Str × Nat)) : Option Bool :=
  if db == cs then some true
  else if db.length != cs.length then some false
  else if db.any (fun d => !(cs.any (fun c => c.1 == d.1))) then some false
  else none

def write (st : State) (key : String) (isVar : Bool) (cols : List Col) (rows : List RowIn) : Option (State × String) :=
  match keyTf key, resolveCols cols with
  | none, _ => some (st, "err:timeframe")
  | _, none => none
  | some tf, some dsv =>
    match rows with
    | [] => none
    | r0 :: _ =>
      let year := (Mkts.Time.localYear Mkts.Time.utc (r0.sec * 1000000000)).toNat
      -- all rows must be in the bucket's year
      -- (bucket, the TimeBucketInfo the write uses, result so far); an auto-creating write keeps
      -- using the info it built itself, the catalog's objects are re-read from disk
      let (st1, b?, res) : State × Option (Bucket × Option TBI) × String :=
        match find st key with
        | some b =>
          if b.inCatalog then
            (match tbiOf b with
              | (none, b') => (put st b', none, "fatal")
              | (some t, b') => (st, some (b', some t), "ok"))
          else (st, none, "unsupported")
        | none =>
          let tbi := newTimeBucketInfo typeSize tf writerDesc year ((epochName, 3) :: dsv) (if isVar then 1 else 0)
          let (st', r) := createFile st key tf tbi
          (st', if r == "ok" then (find st' key).map (fun b => (b, some tbi)) else none, r)
      match b? with
      | none => if res == "unsupported" then none else some (st1, res)
      | some (b', t?) =>
        if b'.year != year || rows.any (fun r => (Mkts.Time.localYear Mkts.Time.utc (r.sec * 1000000000)).toNat != year) then none else
        match t? with
        | none => none
        | some t =>
          match schemaTest ((epochName, 3) :: t.names.zip t.types) ((epochName, 3) :: dsv) with
          | none => none
          | some false => some (put st1 b', "err:colmismatch")
          | some true =>
            -- fixed-length records dated in slot 0 land inside the header
            let disk := if t.recordType != 0 then b'.disk else
              rows.foldl (fun d r =>
                if Mkts.Time.timeToIndex Mkts.Time.utc (r.sec * 1000000000) t.timeframe == 0 then
                  overwrite d (headersize - t.recordLength) (le 8 0 ++ r.payload)
                else d) b'.disk
            some (put st1 { b' with disk := disk }, "ok")

/-- abrupt restart: every object is rebuilt from the directory tree, nothing is cached -/
def restart (st : State) : State :=
  st.map (fun b => { b with inCatalog := true, cached := none, dead := false })

end Mkts.HeaderStore
