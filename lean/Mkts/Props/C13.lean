import Mkts.Model.Project
import Mkts.Props.C12
/-!
# C13 — Multi-symbol and column-projected queries agree with single queries

Projection: `C13_project` — for every schema with distinct column names, every row and every
list of requested names (any order, unknown names, repeated names) the projected payload is the
concatenation, in requested order, of exactly the requested columns' values; `C13_project_names`
gives the returned column list.  Multi-symbol queries are evaluated by the model symbol by symbol
with the very function used for a single symbol (`Mkts.Driver.Store.stepM`), so agreement with the
single query holds by construction in the model; what is checked against the code is that the
real planner/reader/wire path behaves that way (present, missing, `*`, empty symbols, other
attribute groups, mismatching column names, a symbol listed twice — finding C13-F30, repaired:
`C13_restriction_is_set` pins the repaired `AddRestriction`).
-/
namespace Mkts.Props.C13
open Mkts.Project Mkts.Bytes

/-- a row whose column values have the sizes the schema says -/
inductive WellSized : Schema → List Bytes → Prop
  | nil : WellSized [] []
  | cons {c : String × Nat} {v : Bytes} {rest : Schema} {vs : List Bytes} :
      v.length = c.2 → WellSized rest vs → WellSized (c :: rest) (v :: vs)

/-- value of column `w` in a row -/
def valueOf : Schema → List Bytes → String → Option Bytes
  | (n, _) :: rest, v :: vs, w => if n = w then some v else valueOf rest vs w
  | _, _, _ => none

theorem locate_slice (cols : Schema) (vals : List Bytes) (w : String) (pre : Bytes)
    (h : WellSized cols vals) :
    (match locate cols w pre.length with
      | some (off, sz) => some (((pre ++ vals.flatten).drop off).take sz)
      | none => none) = valueOf cols vals w := by
  induction h generalizing pre with
  | nil => simp [locate, valueOf]
  | @cons c v rest vs hv _ ih =>
    obtain ⟨n, sz⟩ := c
    simp only at hv
    simp only [locate, valueOf]
    by_cases hn : n = w
    · simp only [hn, if_true, List.flatten_cons]
      rw [List.drop_append_of_le_length (Nat.le_refl _)]
      simp [← hv]
    · simp only [hn, if_false]
      have := ih (pre ++ v)
      simpa [List.length_append, hv, List.append_assoc] using this

/-- C13 (projection): the projected payload is the requested columns' values, in requested order;
    unknown names contribute nothing; a repeated name is returned again -/
theorem C13_project (cols : Schema) (vals : List Bytes) (want : List String) (h : WellSized cols vals) :
    projectPayload cols want vals.flatten = (want.map (fun w => (valueOf cols vals w).getD [])).flatten := by
  unfold projectPayload
  congr 1
  apply List.map_congr_left
  intro w _
  have := locate_slice cols vals w [] h
  simp only [List.length_nil, List.nil_append] at this
  cases hl : locate cols w 0 with
  | none => rw [hl] at this; simp [← this]
  | some p => obtain ⟨off, sz⟩ := p; rw [hl] at this; simp [← this]

/-- the returned column list: the requested names that are columns, in requested order -/
theorem C13_project_names (cols : Schema) (want : List String) (w : String) :
    w ∈ projectNames cols want ↔ w ∈ want ∧ (locate cols w 0).isSome := by
  simp [projectNames, List.mem_filter]

/-- projecting to the full column list in schema order is the identity (distinct names) -/
theorem C13_project_all (cols : Schema) (vals : List Bytes) (h : WellSized cols vals)
    (hnd : (cols.map (·.1)).Nodup) :
    projectPayload cols (cols.map (·.1)) vals.flatten = vals.flatten := by
  rw [C13_project cols vals _ h]
  congr 1
  induction h with
  | nil => rfl
  | @cons c v rest vs hv _ ih =>
    obtain ⟨n, sz⟩ := c
    simp only [List.map_cons, List.nodup_cons, List.mem_map, not_exists, not_and] at hnd
    simp only [List.map_cons, valueOf, if_true, Option.getD_some]
    congr 1
    have e : List.map (fun w => (valueOf ((n, sz) :: rest) (v :: vs) w).getD []) (rest.map (·.1)) =
        List.map (fun w => (valueOf rest vs w).getD []) (rest.map (·.1)) := by
      apply List.map_congr_left
      intro w hw
      have hne : n ≠ w := by
        intro e; subst e
        obtain ⟨p, hp, rfl⟩ := List.mem_map.mp hw
        exact hnd.1 p hp rfl
      simp [valueOf, hne]
    exact Eq.trans (by simpa [valueOf] using e) (ih hnd.2)

example : projectPayload [("a", 2), ("b", 1), ("c", 2)] ["c", "x", "a", "c"] [1, 2, 3, 4, 5] = [4, 5, 1, 2, 4, 5] := by
  decide

/-- the planner's restriction list of the current source is a set (regenerated skeleton): a
    symbol listed twice is scanned once -/
theorem C13_restriction_is_set : Mkts.Project.restrictionIsSet = true := by decide

end Mkts.Props.C13
