import Mkts.Lemmas.Sql
import Mkts.Props.C11
/-!
Push-down of Epoch bounds (C19): the rows the planner's range restriction drops are rows the
post-filter would drop anyway (the pushed-down instant is the converted literal, moved one
nanosecond inwards for an exclusive bound).  Built on C11 (`inRange = inRangeTime` on valid slots).
-/
namespace Mkts.Sql
open Mkts.Store Mkts.Time Mkts.Bytes Mkts.Props Mkts.Props.C11

theorem slotStart_mod (tf y idx : Int) (hsec : tf % 1000000000 = 0) :
    slotStart tf y idx % 1000000000 = 0 := by
  unfold slotStart
  rw [utc_yearStart]
  have h1 : tf = 1000000000 * (tf / 1000000000) := by omega
  rw [h1, Int.mul_assoc]
  generalize tf / 1000000000 * (idx - 1) = m
  omega

/-- the stamp of a returned row, in nanoseconds, is the start of its slot -/
theorem stamp_ns (tf : Int) (kv : (Int × Int) × Bytes) (hd : tf ≠ dayNs) (hsec : tf % 1000000000 = 0) :
    (rowOfSlot tf kv).sec * 1000000000 = slotStart tf kv.1.1 kv.1.2 := by
  have := slotStart_mod tf kv.1.1 kv.1.2 hsec
  simp only [rowOfSlot, slotStart_eq _ _ _ hd, nsPerSec]
  omega

/-- stored stamps are representable as int64 nanoseconds and lie before the year 3000 -/
def NsRange (sec : Int) : Prop := 0 ≤ sec ∧ sec * 1000000000 < 9223372036854775808

theorem convUnit_sec (sec : Int) (h : NsRange sec) : convUnit sec = sec * 1000000000 := by
  obtain ⟨h0, h1⟩ := h
  unfold convUnit threshold wrap64 wrapN
  have hle : ¬ sec > 32503680000 := by omega
  simp only [hle, if_false]
  have e64 : ((2 ^ 64 : Nat) : Int) = 18446744073709551616 := by decide
  have e63 : ((2 ^ (64 - 1) : Nat) : Int) = 9223372036854775808 := by decide
  rw [e64, e63]
  have : sec * 1000000000 % 18446744073709551616 = sec * 1000000000 := by
    apply Int.emod_eq_of_lt <;> omega
  rw [this]
  simp only [h1, if_true]

theorem convUnit_ns (x : Int) (h : x > threshold) : convUnit x = x := by
  unfold convUnit; exact if_pos h

/-- a valid slot whose row passes the Epoch tests lies inside the pushed-down range -/
theorem inRange_of_keepEpoch (tf : Int) (g : Group) (kv : (Int × Int) × Bytes)
    (htf : 0 < tf) (hd : tf ≠ dayNs) (hsec : tf % 1000000000 = 0)
    (hv : ValidSlot tf kv.1.1 kv.1.2) (hr : NsRange (rowOfSlot tf kv).sec)
    (hkeep : (match g.get "Epoch" with | none => true | some sp => keepEpoch sp (rowOfSlot tf kv).sec) = true) :
    inRange tf ⟨(pushdown g).1, (pushdown g).2, none⟩ kv.1.1 kv.1.2 = true := by
  rw [C11_fixed_slot tf _ _ _ htf hd hv]
  unfold pushdown inRangeTime
  cases hg : g.get "Epoch" with
  | none => simp
  | some sp =>
    rw [hg] at hkeep
    simp only [keepEpoch, Bool.and_eq_true] at hkeep
    obtain ⟨_, hmin, hmax⟩ := hkeep
    have hstamp := stamp_ns tf kv hd hsec
    simp only [Bool.and_eq_true]
    constructor
    · cases hm : sp.min with
      | none => simp
      | some m =>
        simp only [Option.map_some, decide_eq_true_eq]
        rw [hm] at hmin
        simp only [optKeep] at hmin
        rw [convUnit_sec _ hr, hstamp] at hmin
        have hst : (convUnit m.asI64 + if sp.inclMin = true then 0 else 1) ≤ slotStart tf kv.1.1 kv.1.2 := by
          cases hi : sp.inclMin with
          | true => simp only [hi, if_true, keepInt, decide_eq_true_eq] at hmin ⊢; omega
          | false =>
            simp only [hi, keepInt, decide_eq_true_eq, Bool.false_eq_true, if_false] at hmin ⊢; omega
        generalize (convUnit m.asI64 + if sp.inclMin = true then 0 else 1) = st at hst ⊢
        have hs := C30.C30_interval utc C30.utc_coherent st tf htf hd
        rw [slotStart_eq _ _ _ hd] at hs
        have h1 := hs.1
        omega
    · cases hm : sp.max with
      | none => simp
      | some m =>
        simp only [Option.map_some, decide_eq_true_eq]
        rw [hm] at hmax
        simp only [optKeep] at hmax
        rw [convUnit_sec _ hr, hstamp] at hmax
        cases hi : sp.inclMax with
        | true =>
          simp only [hi, if_true, keepInt, decide_eq_true_eq] at hmax
          simp only [if_true]
          omega
        | false =>
          simp only [hi, keepInt, decide_eq_true_eq, Bool.false_eq_true, if_false] at hmax
          simp only [Bool.false_eq_true, if_false]
          omega

/-- filtering the pushed-down read gives the same rows as filtering the unrestricted read -/
theorem filter_pushdown (tf : Int) (hist : List (List Row)) (cols : List ColDef) (g : Group)
    (htf : 0 < tf) (hd : tf ≠ dayNs) (hsec : tf % 1000000000 = 0)
    (hr : ∀ r ∈ query tf (applyHist tf hist) ⟨none, none, none⟩, NsRange r.sec) :
    (query tf (applyHist tf hist) ⟨(pushdown g).1, (pushdown g).2, none⟩).filter (keepRow cols g) =
      (query tf (applyHist tf hist) ⟨none, none, none⟩).filter (keepRow cols g) := by
  have hmemAll : ∀ kv ∈ sortedSlots (applyHist tf hist),
      rowOfSlot tf kv ∈ query tf (applyHist tf hist) ⟨none, none, none⟩ := by
    intro kv hkv
    have hv := valid_of_applyHist tf hist htf hd kv ((mem_sortedSlots _ _).mp hkv)
    simp only [query]
    refine List.mem_map.mpr ⟨kv, List.mem_filter.mpr ⟨hkv, ?_⟩, rfl⟩
    simp [inRange, hv.one_le]
  simp only [query, List.filter_map, List.filter_filter]
  congr 1
  apply List.filter_congr
  intro kv hkv
  have hv := valid_of_applyHist tf hist htf hd kv ((mem_sortedSlots _ _).mp hkv)
  have hall : inRange tf ⟨none, none, none⟩ kv.1.1 kv.1.2 = true := by simp [inRange, hv.one_le]
  simp only [Function.comp]
  cases hk : keepRow cols g (rowOfSlot tf kv) with
  | false => simp
  | true =>
    have hm := hmemAll kv hkv
    have hE : (match g.get "Epoch" with | none => true | some sp => keepEpoch sp (rowOfSlot tf kv).sec) = true := by
      unfold keepRow at hk
      simp only [Bool.and_eq_true] at hk
      exact hk.1
    rw [inRange_of_keepEpoch tf g kv htf hd hsec hv (hr _ hm) hE, hall]

end Mkts.Sql
