import Mkts.Proto
import Mkts.Model.Agg
import Mkts.Driver.Timeframe
/-! Driver ops for the candlers (C21, C22).  Prices are IEEE-754 binary32 bit patterns (decimal
`uint32`), sums are computed with Lean's `Float` (binary64, the C `double` of the runtime). -/
namespace Mkts.Driver.Agg
open Mkts.Proto Mkts.Time Mkts.Timeframe Mkts.Agg
open Mkts.Driver.Time (parseZone b2s)
open Mkts.Driver.Timeframe (parseStr isUtc windowHyps)

/-! ## float32 bit patterns as an ordered type (TRUSTED: standard order-preserving map) -/

def f32IsNaN (b : Nat) : Bool := b % 2147483648 > 2139095040

/-- order-preserving key of a non-NaN binary32 bit pattern; `+0` and `-0` both map to 0 -/
def f32Key (b : Nat) : Int := if b < 2147483648 then (b : Int) else - ((b - 2147483648 : Nat) : Int)

/-- Go's `a > b`, `a < b` on `float32` -/
def f32Ops : PriceOps Nat :=
  { gt := fun a b => !f32IsNaN a && !f32IsNaN b && decide (f32Key a > f32Key b),
    lt := fun a b => !f32IsNaN a && !f32IsNaN b && decide (f32Key a < f32Key b),
    zero := 0 }

def f64Ops : SumOps Float :=
  { zero := 0.0, add := fun a b => a + b, divCount := fun s n => s / Float.ofInt n }

def f32ToF64 (b : Nat) : Float := (Float32.ofBits (UInt32.ofNat b)).toFloat

def showF64 (x : Float) : String := if x.isNaN then "nan" else toString x.toBits.toNat

/-! ## parsing rows -/

/-- `tick`: `sec,nsec,price,v…`; `candle`: `sec,nsec,o,h,l,c,v…` -/
def parseRow (candle : Bool) (s : String) : Option (Row Nat Float) := do
  let fs ← (s.splitOn ",").mapM parseInt
  match candle, fs with
  | false, sec :: nsec :: p :: vs =>
    pure { t := sec * 1000000000 + nsec, o := p.toNat, h := p.toNat, l := p.toNat, c := p.toNat,
           sums := vs.map (fun v => f32ToF64 v.toNat) }
  | true, sec :: nsec :: o :: h :: l :: c :: vs =>
    pure { t := sec * 1000000000 + nsec, o := o.toNat, h := h.toNat, l := l.toNat, c := c.toNat,
           sums := vs.map (fun v => f32ToF64 v.toNat) }
  | _, _ => none

def parseChunks (candle : Bool) (s : String) : Option (List (List (Row Nat Float))) :=
  (s.splitOn "|").mapM (fun ch => if ch == "-" || ch == "" then some [] else (ch.splitOn ";").mapM (parseRow candle))

def showCandle (c : Candle Nat Float) : String :=
  ",".intercalate ([toString c.epoch, toString c.op, toString c.hi, toString c.lo, toString c.cl]
    ++ c.sums.map showF64 ++ (c.avgs f64Ops).map showF64)

/-! ## the property's predicate, evaluated on an output (abstract spec, independent of `addCandle`) -/

def dedupSorted : List Int → List Int
  | [] => []
  | x :: xs => let r := dedupSorted xs; insertSortedUniq x r
where insertSortedUniq (x : Int) : List Int → List Int
  | [] => [x]
  | y :: ys => if x < y then x :: y :: ys else if x = y then y :: ys else y :: insertSortedUniq x ys

def minT : List (Row Nat Float) → Int
  | [] => 0
  | r :: rs => rs.foldl (fun m r => min m r.t) r.t
def maxT : List (Row Nat Float) → Int
  | [] => 0
  | r :: rs => rs.foldl (fun m r => max m r.t) r.t

/-- flags: windows, open, close, high, low, sum+avg (the count is observable only through avg) -/
def specFlags (cd : CandleDuration) (z : Zone) (rows : List (Row Nat Float)) (out : List (Candle Nat Float)) : String :=
  let wins := dedupSorted (rows.map (fun r => truncate cd z r.t))
  let fW := out.map (·.epoch) == wins.map (· / 1000000000)
  let per (f : Candle Nat Float → List (Row Nat Float) → Bool) : Bool :=
    (out.zip wins).all (fun (c, w) =>
      let g := rows.filter (fun r => truncate cd z r.t == w)
      !g.isEmpty && f c g)
  let fO := per (fun c g => g.any (fun r => r.t == minT g && r.o == c.op))
  let fC := per (fun c g => g.any (fun r => r.t == maxT g && r.c == c.cl))
  let fH := per (fun c g => g.any (fun r => r.h == c.hi) && g.all (fun r => !f32Ops.gt r.h c.hi))
  let fL := per (fun c g => g.any (fun r => r.l == c.lo) && g.all (fun r => !f32Ops.lt r.l c.lo))
  let fS := per (fun c g =>
    let n := match g with | [] => 0 | r :: _ => r.sums.length
    let sums := g.foldl (fun acc r => addSums f64Ops acc r.sums) (List.replicate n 0.0)
    (c.sums.map showF64) == (sums.map showF64) &&
    ((c.avgs f64Ops).map showF64) == (sums.map (fun s => showF64 (s / Float.ofInt g.length))))
  b2s fW ++ b2s fO ++ b2s fC ++ b2s fH ++ b2s fL ++ b2s fS

def hasNaN (rows : List (Row Nat Float)) : Bool :=
  rows.any (fun r => f32IsNaN r.o || f32IsNaN r.h || f32IsNaN r.l || f32IsNaN r.c)

/-- `candle <tick|candle> <hex timeframe> <zone> <nsums> <chunk|chunk…>` -/
def candleOp : Op := fun args =>
  match args with
  | [mode, tfs, zs, ns, rs] =>
    let isC := mode == "candle"
    match parseStr tfs, parseZone zs, parseNat ns, parseChunks isC rs with
    | some tf, some z, some nsums, some chunks =>
      match candleDurationFromString tf with
      | none => "M:err:init"
      | some cd =>
        if chunks.any (·.isEmpty) then "M:err:empty"
        else
          let m := accum f32Ops f64Ops cd z nsums chunks
          let out := output m
          let rows := chunks.flatten
          let flags := specFlags cd z rows out
          let line := ";".intercalate (out.map showCandle) ++ " P=" ++ flags
          let inScope := isUtc z && !hasNaN rows && rows.all (fun r => r.t != goZero)
          if inScope then
            let hyps := (rows.foldl (fun acc r => acc ++ (windowHyps cd z r.t).filter (fun h => !acc.contains h)) [])
            s!"M:{line}\tS:~P=111111\tH:{",".intercalate hyps}"
          else s!"M:{line}"
    | _, _, _, _ => badArgs
  | _ => badArgs

def showOHLC (c : Candle Nat Float) : String :=
  ",".intercalate [toString c.epoch, toString c.op, toString c.hi, toString c.lo, toString c.cl]

def f32Eq (a b : Nat) : Bool := !f32IsNaN a && !f32IsNaN b && f32Key a == f32Key b

/-- `compose <hex fine tf> <hex coarse tf> <zone> <tick rows>`: fine candles re-aggregated vs. direct -/
def composeOp : Op := fun args =>
  match args with
  | [fs, cs, zs, rs] =>
    match parseStr fs, parseStr cs, parseZone zs, parseChunks false rs with
    | some tff, some tfc, some z, some [rows] =>
      match candleDurationFromString tff, candleDurationFromString tfc with
      | some cdF, some cdC =>
        if rows.isEmpty then "M:err:empty" else
        let co := composed f32Ops f64Ops cdF cdC z rows
        let di := direct f32Ops f64Ops cdC z rows
        let zipAll (f : Candle Nat Float → Candle Nat Float → Bool) : Bool := (co.zip di).all (fun (a, b) => f a b)
        let fW := co.map (·.epoch) == di.map (·.epoch)
        let flags := b2s fW ++ b2s (zipAll (fun a b => a.op == b.op)) ++ b2s (zipAll (fun a b => a.cl == b.cl)) ++
          b2s (zipAll (fun a b => f32Eq a.hi b.hi)) ++ b2s (zipAll (fun a b => f32Eq a.lo b.lo))
        let line := ";".intercalate (co.map showOHLC) ++ " | " ++ ";".intercalate (di.map showOHLC) ++ " P=" ++ flags
        let inScope := isUtc z && !hasNaN rows && rows.all (fun r => r.t != goZero) && divides cdF cdC
        if inScope then
          let hy (cd : CandleDuration) := rows.foldl (fun acc r => acc ++ (windowHyps cd z r.t).filter (fun h => !acc.contains h)) []
          let hyps := hy cdF ++ (hy cdC).filter (fun h => !(hy cdF).contains h)
          s!"M:{line}\tS:~P=11111\tH:{",".intercalate hyps}"
        else s!"M:{line}"
      | _, _ => "M:err:init"
    | _, _, _, _ => badArgs
  | _ => badArgs

def ops : OpTable := [("candle", candleOp), ("compose", composeOp)]

end Mkts.Driver.Agg
