#!/bin/bash
# Build everything the checks need, offline, from files on disk only.
set -e
cd "$(dirname "$0")"
export GOFLAGS=-mod=mod GOPROXY=off GOSUMDB=off GOTOOLCHAIN=local GOCACHE="$PWD/.cache/go-build"
mkdir -p .build .work .cache evidence replays
( cd go/factgen && go build -o ../../.build/factgen . )
( cd go/harness && cp /repo/go.sum . 2>/dev/null; go build -tags verif -o ../../.build/harness . )
mkdir -p .work/setup-extracted
./.build/factgen /repo .work/setup-extracted go/factgen/wants.d
for f in .work/setup-extracted/*.lean; do
  cmp -s "$f" "lean/Mkts/Extracted/$(basename "$f")" || cp "$f" "lean/Mkts/Extracted/$(basename "$f")"
done
rm -rf .work/setup-extracted
python3 lib/genall.py
( cd lean && lake build Mkts mktsdrv 2>&1 | tail -5 )
echo setup done
