package main

// C06: WAL replay on arbitrary bytes.  The op writes the bytes to a WAL file in a fresh directory
// holding real bucket files (created by catalog.AddTimeBucket) and runs the real startup path
// executor.NewWALCleaner(...).CleanupOldWALFiles; the result is the returned status, what became of
// the WAL file, and the non-zero content of every bucket file's data area.

import (
	"crypto/md5" //nolint:gosec
	"encoding/binary"
	"errors"
	"fmt"
	"io"
	"os"
	"path/filepath"
	"strconv"
	"strings"

	"github.com/alpacahq/marketstore/v4/catalog"
	"github.com/alpacahq/marketstore/v4/executor"
	"github.com/alpacahq/marketstore/v4/executor/wal"
	"github.com/alpacahq/marketstore/v4/utils"
	mio "github.com/alpacahq/marketstore/v4/utils/io"
	mlog "github.com/alpacahq/marketstore/v4/utils/log"
)

const c06Header = 37024

type c06File struct {
	key  string
	size int64
}

type c06Exp struct {
	must bool
	file int
	off  int64
	data []byte
}

type c06Run struct {
	off  int64
	data []byte
}

// c06Shapes gives a schema whose FIXED record length is 8 (epoch) + 4*ncol.
func c06Shapes(ncol int) []mio.DataShape {
	dsv := []mio.DataShape{{Name: "Epoch", Type: mio.INT64}}
	for i := 0; i < ncol; i++ {
		dsv = append(dsv, mio.DataShape{Name: fmt.Sprintf("C%d", i), Type: mio.FLOAT32})
	}
	return dsv
}

// c06Bucket: key "SYM/TF/AG/YEAR.bin" -> real TimeBucketInfo (ncol encoded in AG as "A<ncol>").
func c06Bucket(root, key string) (*mio.TimeBucketKey, *mio.TimeBucketInfo) {
	p := strings.Split(key, "/")
	if len(p) != 4 || !strings.HasSuffix(p[3], ".bin") {
		panic("bad-arg bucket key " + key)
	}
	year, err := strconv.Atoi(strings.TrimSuffix(p[3], ".bin"))
	must(err)
	ncol, err := strconv.Atoi(strings.TrimPrefix(p[2], "A"))
	must(err)
	tf := utils.TimeframeFromString(p[1])
	if tf == nil {
		panic("bad-arg timeframe " + p[1])
	}
	tbk := mio.NewTimeBucketKey(p[0] + "/" + p[1] + "/" + p[2])
	tbi := mio.NewTimeBucketInfo(*tf, tbk.GetPathToYearFiles(root), "verif", int16(year), c06Shapes(ncol), mio.FIXED)
	return tbk, tbi
}

func c06FileSize(key string) int64 {
	_, tbi := c06Bucket("/r", key)
	return mio.FileSize(tbi.GetTimeframe(), int(tbi.Year), int(tbi.GetRecordLength()))
}

func c06RecLen(key string) int64 {
	_, tbi := c06Bucket("/r", key)
	return int64(tbi.GetRecordLength())
}

// nonZeroRuns scans the data area of a (sparse) file using SEEK_DATA / SEEK_HOLE.
func nonZeroRuns(path string) (int64, []c06Run) {
	f, err := os.Open(path)
	must(err)
	defer f.Close()
	st, err := f.Stat()
	must(err)
	size := st.Size()
	var runs []c06Run
	pos := int64(c06Header)
	const seekData, seekHole = 3, 4
	for pos < size {
		ds, err := f.Seek(pos, seekData)
		if err != nil { // ENXIO: no more data
			break
		}
		he, err := f.Seek(ds, seekHole)
		if err != nil {
			he = size
		}
		buf := make([]byte, he-ds)
		_, err = f.ReadAt(buf, ds)
		if err != nil && !errors.Is(err, io.EOF) {
			must(err)
		}
		for i := 0; i < len(buf); {
			if buf[i] == 0 {
				i++
				continue
			}
			j := i
			for j < len(buf) && buf[j] != 0 {
				j++
			}
			if n := len(runs); n > 0 && runs[n-1].off+int64(len(runs[n-1].data)) == ds+int64(i) {
				runs[n-1].data = append(runs[n-1].data, buf[i:j]...)
			} else {
				runs = append(runs, c06Run{ds + int64(i), append([]byte{}, buf[i:j]...)})
			}
			i = j
		}
		pos = he
	}
	return size, runs
}

func c06ByteAt(runs []c06Run, p int64) byte {
	for _, r := range runs {
		if r.off <= p && p < r.off+int64(len(r.data)) {
			return r.data[p-r.off]
		}
	}
	return 0
}

func c06Verdict(isPanic bool, files [][]c06Run, exps []c06Exp) string {
	p2 := true
	for fi, runs := range files {
		for _, r := range runs {
			for i, v := range r.data {
				p := r.off + int64(i)
				ok := false
				for _, e := range exps {
					if e.file == fi && e.off <= p && p < e.off+int64(len(e.data)) && e.data[p-e.off] == v {
						ok = true
						break
					}
				}
				if !ok {
					p2 = false
				}
			}
		}
	}
	p3 := true
	for _, e := range exps {
		if !e.must {
			continue
		}
		if e.file >= len(files) {
			p3 = false
			continue
		}
		for i, v := range e.data {
			if c06ByteAt(files[e.file], e.off+int64(i)) != v {
				p3 = false
			}
		}
	}
	return "P=" + b2s(!isPanic) + b2s(p2) + b2s(p3)
}

func c06Replay(walPath string) (st string) {
	defer func() {
		if r := recover(); r != nil {
			st = panicClass(r)
		}
	}()
	err := executor.NewWALCleaner("", 4242).CleanupOldWALFiles([]string{walPath})
	switch {
	case err == nil:
		return "ok"
	case strings.HasPrefix(err.Error(), "opening "):
		return "err:takeover"
	case strings.HasPrefix(err.Error(), "unable to replay"):
		return "err:replay"
	}
	return "err:other"
}

func parseC06Files(s string) []c06File {
	var out []c06File
	if s == "-" || s == "" {
		return out
	}
	for _, p := range strings.Split(s, ",") {
		kv := strings.Split(p, ":")
		k, err := unhx(kv[0])
		must(err)
		out = append(out, c06File{string(k), atoi(kv[1])})
	}
	return out
}

func parseC06Exps(s string) []c06Exp {
	var out []c06Exp
	if s == "-" || s == "" {
		return out
	}
	for _, p := range strings.Split(s, ",") {
		f := strings.Split(p, ":")
		d, err := unhx(f[3])
		must(err)
		out = append(out, c06Exp{f[0] == "m", int(atoi(f[1])), atoi(f[2]), d})
	}
	return out
}

func init() {
	mlog.SetLevel(mlog.FATAL)

	ops["md5"] = func(a []string) string {
		b, err := unhx(a[0])
		must(err)
		s := md5.Sum(b) //nolint:gosec
		return hx(s[:])
	}

	// walreplay <walhex> <files> <exps>
	ops["walreplay"] = func(a []string) string {
		walBytes, err := unhx(a[0])
		must(err)
		files := parseC06Files(a[1])
		exps := parseC06Exps(a[2])
		base := os.Getenv("VERIF_WORK")
		root, err := os.MkdirTemp(base, "c06-")
		must(err)
		defer os.RemoveAll(root)
		cat, err := catalog.NewDirectory(root)
		var nf catalog.ErrCategoryFileNotFound
		if err != nil && !errors.As(err, &nf) {
			panic("bad-arg catalog: " + err.Error())
		}
		for _, f := range files {
			tbk, tbi := c06Bucket(root, f.key)
			if err := cat.AddTimeBucket(tbk, tbi); err != nil {
				panic("bad-arg AddTimeBucket: " + err.Error())
			}
			st, err := os.Stat(filepath.Join(root, f.key))
			must(err)
			if st.Size() != f.size {
				panic(fmt.Sprintf("bad-arg file size %s: %d != %d", f.key, st.Size(), f.size))
			}
		}
		walPath := filepath.Join(root, "WALFile.1.walfile")
		must(os.WriteFile(walPath, walBytes, 0o600))
		st := c06Replay(walPath)
		walState := "kept"
		if _, err := os.Stat(walPath); err != nil {
			walState = "gone"
			if _, err := os.Stat(walPath + ".tmp"); err == nil {
				walState = "tmp"
			}
		}
		var fruns [][]c06Run
		var fstr []string
		for _, f := range files {
			size, runs := nonZeroRuns(filepath.Join(root, f.key))
			fruns = append(fruns, runs)
			s := strconv.FormatInt(size, 10)
			for _, r := range runs {
				s += fmt.Sprintf("/%d:%s", r.off, hx(r.data))
			}
			fstr = append(fstr, s)
		}
		fs := "-"
		if len(fstr) > 0 {
			fs = strings.Join(fstr, ",")
		}
		return fmt.Sprintf("st=%s wal=%s f=%s %s", st, walState, fs, c06Verdict(strings.HasPrefix(st, "panic:"), fruns, exps))
	}

	gens["C06"] = genC06
}

// ---------------------------------------------------------------- generator

type c06Seg struct {
	kind  string // "hdr" "tg" "info" "raw"
	bytes []byte
	tgid  int64
	dest  int
	stat  int
	exps  []c06Exp // regions written by this TG (class decided later)
	adv   string   // adversarial kind ("" = ordinary)
}

func c06TGRecord(body []byte) []byte {
	l := le64(int64(len(body)))
	h := md5.New() //nolint:gosec
	h.Write(l)
	h.Write(body)
	out := append([]byte{0}, l...)
	out = append(out, body...)
	return append(out, h.Sum(nil)...)
}

func c06Info(tgid int64, dest, stat int) []byte {
	return append(append([]byte{1}, le64(tgid)...), byte(dest), byte(stat))
}

var c06Keys = []string{"AAPL/1Min/A4/2020.bin", "TSLA/1D/A2/2021.bin", "BTC/1H/A5/2019.bin"}

func genC06(g *Gen) {
	files := make([]c06File, len(c06Keys))
	recLen := make([]int64, len(c06Keys))
	nslots := make([]int64, len(c06Keys))
	var ftoks []string
	for i, k := range c06Keys {
		files[i] = c06File{k, c06FileSize(k)}
		recLen[i] = c06RecLen(k)
		nslots[i] = (files[i].size - c06Header) / recLen[i]
		ftoks = append(ftoks, hx([]byte(k))+":"+strconv.FormatInt(files[i].size, 10))
	}
	ftok := strings.Join(ftoks, ",")

	// md5 cross-check stream
	for i := 0; i < g.N(40, 400); i++ {
		g.Emit("md5 "+hx(g.Bytes(int(g.Pick(0, 1, 55, 56, 57, 63, 64, 65, 119, 120, 128, int64(g.Intn(600)))))), "md5")
	}

	n := g.N(900, 12000)
	for it := 0; it < n; it++ {
		slot := int64(1 + g.Intn(50))
		nextSlot := func(fi int) int64 {
			slot += int64(1 + g.Intn(3))
			return 1 + slot%nslots[fi]
		}
		// nonZero payload so that presence is observable
		payload := func(nb int64) []byte {
			b := g.Bytes(int(nb))
			for i := range b {
				if b[i] == 0 {
					b[i] = 0x5a
				}
			}
			return b
		}
		mkCmd := func(fi int) (*wal.WriteCommand, c06Exp) {
			idx := nextSlot(fi)
			off := c06Header + (idx-1)*recLen[fi]
			data := payload(recLen[fi] - 8)
			return &wal.WriteCommand{RecordType: mio.FIXED, WALKeyPath: files[fi].key, VarRecLen: 0, Offset: off, Index: idx,
					Data: data, DataShapes: c06Shapes(int(recLen[fi]-8) / 4)},
				c06Exp{false, fi, off, append(le64(idx), data...)}
		}
		owner := int64(0x0101010101010101)
		segs := []c06Seg{{kind: "hdr", bytes: append([]byte{2, 1, byte(g.Pick(1, 1, 1, 3))}, le64(owner)...)}}
		tgid := g.R.Int63n(1 << 62)
		if g.Intn(6) == 0 {
			tgid = int64(g.Pick(1, 2, 255, 256, 1<<32, 1<<56-1))
		}
		ntg := int(g.Pick(0, 1, 1, 2, 2, 3, 3, 4, 6))
		advAt := -1
		advKind := ""
		if g.Intn(5) == 0 && ntg > 0 {
			advAt = g.Intn(ntg)
			advKind = []string{"nofile", "rectype2", "rectype77", "negoff", "cols300", "emptytg", "innercut", "bufshort",
				"dirpath", "variable_nofile", "tgid0"}[g.Intn(11)]
		}
		for t := 0; t < ntg; t++ {
			var cmds []*wal.WriteCommand
			var exps []c06Exp
			for c := 0; c < 1+g.Intn(3); c++ {
				cmd, e := mkCmd(g.Intn(len(files)))
				cmds = append(cmds, cmd)
				exps = append(exps, e)
			}
			seg := c06Seg{kind: "tg", tgid: tgid}
			id := tgid
			if t == advAt {
				seg.adv = advKind
				last := cmds[len(cmds)-1]
				switch advKind {
				case "nofile":
					last.WALKeyPath = "NOPE/1Min/A4/2020.bin"
					exps = exps[:len(exps)-1]
				case "dirpath":
					last.WALKeyPath = "AAPL/1Min"
					exps = exps[:len(exps)-1]
				case "rectype2", "rectype77":
					last.RecordType = mio.EnumRecordType(map[string]int8{"rectype2": 2, "rectype77": 77}[advKind])
					exps = exps[:len(exps)-1]
				case "variable_nofile": // VARIABLE record type is reached only behind a failing open (not modelled otherwise)
					last.RecordType = mio.VARIABLE
					last.WALKeyPath = "NOPE/1Min/A4/2020.bin"
					exps = exps[:len(exps)-1]
				case "negoff":
					last.Offset = -int64(1 + g.Intn(1000))
					exps = exps[:len(exps)-1]
				case "cols300": // the C28 width overflow inside a checksum-valid group
					cmds[0].DataShapes = c06Shapes(299 + g.Intn(3))
				case "emptytg":
					cmds, exps = nil, nil
				case "tgid0":
					id = 0
				}
			}
			body, _ := executor.VerifSerializeTG(id, cmds)
			if t == advAt && advKind == "innercut" { // checksum-valid group whose inner lengths overrun
				body = body[:len(body)-1-g.Intn(minInt(len(body)-16, 40))]
				exps = nil
			}
			if t == advAt && advKind == "bufshort" { // dataLen = -12: buffer of 4 bytes
				cmd := cmds[0]
				pos := 16 + 1 + 2 + len(cmd.WALKeyPath)
				binary.LittleEndian.PutUint32(body[pos:], uint32(0xfffffff4))
				exps = nil
			}
			seg.tgid = id
			seg.exps = exps
			seg.bytes = c06TGRecord(body)
			if g.Intn(3) > 0 {
				segs = append(segs, c06Seg{kind: "info", bytes: c06Info(id, 0, 0), tgid: id, dest: 0, stat: 0})
			}
			segs = append(segs, seg)
			if g.Intn(8) > 0 {
				segs = append(segs, c06Seg{kind: "info", bytes: c06Info(id, 0, 2), tgid: id, dest: 0, stat: 2})
			}
			if g.Intn(6) == 0 { // checkpoint of everything so far
				segs = append(segs, c06Seg{kind: "info", bytes: c06Info(id, 1, 0), tgid: id, dest: 1, stat: 0})
				if g.Intn(4) > 0 {
					segs = append(segs, c06Seg{kind: "info", bytes: c06Info(id, 1, 2), tgid: id, dest: 1, stat: 2})
				}
			}
			tgid += int64(1 + g.Intn(3))
		}
		// ---- layout
		starts := make([]int, len(segs)+1)
		var walBytes []byte
		for i, s := range segs {
			starts[i] = len(walBytes)
			walBytes = append(walBytes, s.bytes...)
		}
		starts[len(segs)] = len(walBytes)
		total := len(walBytes)
		damaged := make([]bool, len(segs))
		firstDamage := total + 1
		segAt := func(pos int) int {
			for i := range segs {
				if starts[i] <= pos && pos < starts[i+1] {
					return i
				}
			}
			return -1
		}
		tgSegs := []int{}
		for i, s := range segs {
			if s.kind == "tg" {
				tgSegs = append(tgSegs, i)
			}
		}
		boundary := func() int { return starts[g.Intn(len(starts))] }
		mut := "none"
		out := walBytes
		damageAt := func(pos int) {
			if i := segAt(pos); i >= 0 {
				damaged[i] = true
			}
			if pos < firstDamage {
				firstDamage = pos
			}
		}
		flip := func(pos int) {
			out = append([]byte{}, out...)
			out[pos] ^= byte(1 << g.Intn(8))
			damageAt(pos)
		}
		switch g.Intn(14) {
		case 0, 1:
			mut = "none"
		case 2, 3: // truncation
			var cut int
			switch g.Intn(4) {
			case 0:
				cut = g.Intn(total + 1)
			case 1:
				cut = boundary() + int(g.Pick(-1, 0, 1, 2, 8, 9, 10))
			case 2:
				cut = g.Intn(minInt(total, 30) + 1)
			default:
				cut = total - g.Intn(minInt(total, 20)+1)
			}
			if cut < 0 {
				cut = 0
			}
			if cut > total {
				cut = total
			}
			out = walBytes[:cut]
			for i := range segs {
				if starts[i+1] > cut {
					damaged[i] = true
				}
			}
			firstDamage = cut
			mut = "truncate"
		case 4:
			flip(g.Intn(total))
			mut = "bitflip"
		case 5: // two flips, each inside a TG record if there are two
			if len(tgSegs) >= 2 {
				ia := g.Intn(len(tgSegs) - 1)
				a, b := tgSegs[ia], tgSegs[ia+1+g.Intn(len(tgSegs)-ia-1)]
				flip(starts[a] + 9 + g.Intn(starts[a+1]-starts[a]-9))
				flip(starts[b] + 9 + g.Intn(starts[b+1]-starts[b]-9))
				mut = "two_tg_flips"
			} else {
				flip(g.Intn(total))
				flip(g.Intn(total))
				mut = "two_flips"
			}
		case 6: // overwrite a TG length field
			if len(tgSegs) > 0 {
				s := tgSegs[g.Intn(len(tgSegs))]
				v := g.Pick(0, 1, 3, 6, 7, 8, -1, -(1 << 63), 1<<63-1, int64(1000*total), int64(1000*total-1), int64(total), int64(g.Intn(64)))
				out = append([]byte{}, out...)
				copy(out[starts[s]+1:], le64(v))
				damaged[s] = true
				if starts[s]+1 < firstDamage {
					firstDamage = starts[s] + 1
				}
				mut = "tglen:" + map[bool]string{true: "neg", false: "nonneg"}[v < 0]
				if v >= 0 && v < 8 {
					mut = "tglen:lt8"
				}
			}
		case 7: // insert garbage
			pos := boundary()
			if g.Intn(2) == 0 {
				pos = g.Intn(total + 1)
			}
			var ins []byte
			switch g.Intn(6) {
			case 0:
				ins = g.Bytes(1 + g.Intn(40))
			case 1:
				ins = make([]byte, 1+g.Intn(30)) // zeros: TGDATA ids with tgLen 0
			case 2:
				ins = []byte{2} // STATUS id
			case 3:
				ins = append([]byte{1}, g.Bytes(10)...)
			case 4:
				ins = []byte{byte(3 + g.Intn(250))}
			default:
				ins = append([]byte{0}, le64(g.Pick(-5, 2, 6, 40, 1<<40))...)
			}
			out = append(append(append([]byte{}, walBytes[:pos]...), ins...), walBytes[pos:]...)
			if i := segAt(pos); i >= 0 && starts[i] < pos {
				damaged[i] = true
			}
			firstDamage = pos
			mut = "insert"
		case 8: // duplicate a TG record (with its commit info) at a later boundary
			if len(tgSegs) > 0 {
				s := tgSegs[g.Intn(len(tgSegs))]
				pos := starts[s+1+g.Intn(len(segs)-s)]
				out = append(append(append([]byte{}, walBytes[:pos]...), segs[s].bytes...), walBytes[pos:]...)
				firstDamage = pos
				mut = "dup_record"
			}
		case 9: // swap two adjacent TG records
			if len(tgSegs) >= 2 {
				k := g.Intn(len(tgSegs) - 1)
				a, b := tgSegs[k], tgSegs[k+1]
				out = append([]byte{}, walBytes[:starts[a]]...)
				out = append(out, segs[b].bytes...)
				out = append(out, walBytes[starts[a+1]:starts[b]]...)
				out = append(out, segs[a].bytes...)
				out = append(out, walBytes[starts[b+1]:]...)
				firstDamage = starts[a]
				mut = "swap_records"
			}
		case 10: // garbage suffix
			suffix := [][]byte{{2}, {0}, {1}, {0, 1, 2, 3}, {2, 1, 1}, g.Bytes(1 + g.Intn(30)), {9, 9, 9},
				make([]byte, 1+g.Intn(60))}[g.Intn(8)] // the last one: a zero-filled tail
			out = append(append([]byte{}, walBytes...), suffix...)
			firstDamage = total
			mut = "suffix"
		case 11: // header damage
			pos := g.Intn(11)
			out = append([]byte{}, walBytes...)
			switch g.Intn(3) {
			case 0:
				out[pos] = byte(g.Intn(256))
			case 1:
				out[2] = byte(g.Pick(0, 2, 4, 255))
			default:
				copy(out[3:], le64(0))
			}
			damaged[0] = true
			firstDamage = 0
			mut = "header"
		case 12: // pure garbage file
			out = g.Bytes(int(g.Pick(0, 1, 10, 11, 12, int64(g.Intn(200)))))
			if len(out) > 11 && g.Intn(2) == 0 {
				copy(out, []byte{2, 1, 1, 7, 7, 7, 7, 7, 7, 7, 7})
			}
			for i := range damaged {
				damaged[i] = true
			}
			firstDamage = 0
			mut = "garbage"
		case 13: // flip inside an info record
			infos := []int{}
			for i, s := range segs {
				if s.kind == "info" {
					infos = append(infos, i)
				}
			}
			if len(infos) > 0 {
				s := infos[g.Intn(len(infos))]
				flip(starts[s] + g.Intn(11))
				mut = "info_flip"
			}
		}
		if !c06Safe(out) {
			continue
		}
		// ---- expectations
		var etoks []string
		for i, s := range segs {
			if s.kind != "tg" || damaged[i] {
				continue
			}
			if s.adv != "" && firstDamage > starts[i] { // an adversarial (but checksum-valid) group counts as damage
				firstDamage = starts[i]
			}
		}
		for i, s := range segs {
			if s.kind != "tg" || damaged[i] {
				continue
			}
			committed := false
			checkpointed := false
			for j := i + 1; j < len(segs); j++ {
				if segs[j].kind == "info" && segs[j].tgid >= s.tgid && segs[j].dest == 1 {
					checkpointed = true
				}
				if segs[j].kind == "info" && segs[j].tgid == s.tgid && segs[j].dest == 0 && segs[j].stat == 2 &&
					!damaged[j] && starts[j+1] <= firstDamage {
					committed = true
				}
			}
			mustApply := committed && !checkpointed && starts[i+1] <= firstDamage && s.adv == "" && s.tgid != 0
			for _, e := range s.exps {
				cls := "y"
				if mustApply {
					cls = "m"
				}
				etoks = append(etoks, fmt.Sprintf("%s:%d:%d:%s", cls, e.file, e.off, hx(e.data)))
			}
		}
		etok := "-"
		if len(etoks) > 0 {
			etok = strings.Join(etoks, ",")
		}
		tags := []string{"mut:" + mut, fmt.Sprintf("ntg:%d", ntg)}
		if advKind != "" {
			tags = append(tags, "adv:"+advKind)
		}
		g.Emit(fmt.Sprintf("walreplay %s %s %s", hx(out), ftok, etok), tags...)
	}
}

// c06Safe rejects WAL images on which the real code would try to allocate gigabytes:
// an embedded checksum-valid group is impossible to forge by mutation, so only the tgLen
// sanity bound (1000 x file size) matters; keep files below 64 KiB (<= 64 MB allocations).
func c06Safe(b []byte) bool { return len(b) < 1<<16 }
