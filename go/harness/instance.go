package main

// In-process marketstore instance on a scratch directory, started through the REAL startup
// path (internal/di container, re-exported by /repo/verifhook with build tag verif), and the
// `store` op: one line = a whole scenario of API calls (create / write / query / restart / …)
// against frontend.DataService, i.e. the layer directly under the HTTP transport.

import (
	"fmt"
	"os"
	"path/filepath"
	"sort"
	"strconv"
	"strings"
	"sync/atomic"
	"time"

	"github.com/alpacahq/marketstore/v4/executor"
	"github.com/alpacahq/marketstore/v4/frontend"
	"github.com/alpacahq/marketstore/v4/utils"
	mio "github.com/alpacahq/marketstore/v4/utils/io"
	"github.com/alpacahq/marketstore/v4/utils/log"
	"github.com/alpacahq/marketstore/v4/verifhook"
)

type Inst struct {
	root string
	c    *verifhook.Container
	ds   *frontend.DataService
	wf   *executor.WALFileType
	// variable-length rows written so far per bucket key (oracle of the C09 predicate)
	vwritten map[string][]rowIn
}

// c09ok is the property C09 asks of an unrestricted query on a variable-length bucket: rows in
// non-decreasing time order, and a bijection onto the written rows with equal values, same
// interval, returned time <= written time and early by less than one resolution step
// (tf/2^32, +1 ns of rounding).  Mirrors Mkts.VStore.c09ok.
func c09ok(tfNs int64, written []rowIn, out []rowIn) bool {
	ns := func(r rowIn) int64 { return r.sec*1e9 + r.nanos }
	for i := 1; i < len(out); i++ {
		if ns(out[i-1]) > ns(out[i]) {
			return false
		}
	}
	w := append([]rowIn(nil), written...)
	sort.SliceStable(w, func(i, j int) bool { return ns(w[i]) < ns(w[j]) })
	used := make([]bool, len(w))
	tf := time.Duration(tfNs)
	slot := func(t int64) (int, int64) {
		tt := time.Unix(0, t).UTC()
		return tt.Year(), mio.TimeToIndex(tt, tf)
	}
	for _, o := range out {
		found := false
		oy, oi := slot(ns(o))
		for k, wr := range w {
			if used[k] || string(wr.payload) != string(o.payload) {
				continue
			}
			wy, wi := slot(ns(wr))
			d := ns(wr) - ns(o)
			// (w - o) * 2^32 < tf + 2 * 2^32, without overflow
			if wy == oy && wi == oi && d >= 0 && float64(d) < float64(tfNs)/4294967296.0+2 {
				used[k] = true
				found = true
				break
			}
		}
		if !found {
			return false
		}
	}
	for _, u := range used {
		if !u {
			return false
		}
	}
	return true
}

var instSeq int64

func scratchDir(prefix string) string {
	base := os.Getenv("VERIF_WORK")
	if base == "" {
		base = os.TempDir()
	}
	d := filepath.Join(base, fmt.Sprintf("%s-%d-%d", prefix, os.Getpid(), atomic.AddInt64(&instSeq, 1)))
	must(os.MkdirAll(d, 0o755))
	return d
}

func baseConfig(root string) *utils.MktsConfig {
	return &utils.MktsConfig{
		RootDirectory:     root,
		Timezone:          time.UTC,
		InitCatalog:       true,
		InitWALCache:      true,
		BackgroundSync:    false,
		WALBypass:         false,
		WALRotateInterval: 5,
	}
}

// startInst runs the startup sequence of cmd/start (container, catalog, WAL file with
// replay/cleanup of leftover WAL files, instance setup, data service). A panic during startup
// propagates to the caller (the `store` op reports it as startup_panic).
func startInst(root string, cfg *utils.MktsConfig) *Inst {
	log.SetLevel(log.FATAL)
	if cfg == nil {
		cfg = baseConfig(root)
	}
	utils.InstanceConfig = *cfg
	c := verifhook.NewContainer(cfg)
	c.GetStartTriggerPluginDispatcher()
	cat := c.GetCatalogDir()
	wf := c.GetInitWALFile()
	executor.NewInstanceSetup(cat, wf)
	_, ds := frontend.NewServer(c.GetAbsRootDir(), cat, c.GetAggRunner(), c.GetWriter(), c.GetHTTPService())
	return &Inst{root: root, c: c, ds: ds, wf: wf}
}

// abandon simulates the process disappearing: the WAL file descriptor is closed, nothing is
// flushed or checkpointed (the page cache survives, as after kill -9).
func (in *Inst) abandon() {
	if in.wf != nil && in.wf.FilePtr != nil {
		in.wf.FilePtr.Close()
	}
}

// ---- schema / row helpers -------------------------------------------------------------

type colSpec struct {
	name string
	typ  mio.EnumElementType
}

func parseCols(s string) []colSpec {
	if s == "-" || s == "" {
		return nil
	}
	var out []colSpec
	for _, p := range strings.Split(s, ",") {
		nt := strings.SplitN(p, "=", 2)
		if len(nt) != 2 {
			panic("bad-arg col " + p)
		}
		t := mio.EnumElementTypeFromName(nt[1])
		if t == mio.NONE {
			panic("bad-arg type " + nt[1])
		}
		out = append(out, colSpec{nt[0], t})
	}
	return out
}

type rowIn struct {
	sec, nanos int64
	payload    []byte
}

func parseRows(s string) []rowIn {
	if s == "-" || s == "" {
		return nil
	}
	var out []rowIn
	for _, r := range strings.Split(s, "+") {
		f := strings.Split(r, ",")
		if len(f) != 3 {
			panic("bad-arg row " + r)
		}
		b, err := unhx(f[2])
		if err != nil {
			panic("bad-arg rowhex")
		}
		out = append(out, rowIn{atoi(f[0]), atoi(f[1]), b})
	}
	return out
}

func typeStr(t mio.EnumElementType) string {
	s, ok := mio.ToTypeStr(t)
	if !ok {
		panic("bad-arg wire type " + t.String())
	}
	return s
}

// buildDataset makes the wire dataset of a write request for one bucket: Epoch (i8), the value
// columns cut out of each row's payload in `cols` order, and for variable-length writes the
// Nanoseconds (i4) column last.
func buildDataset(key string, cols []colSpec, rows []rowIn, isVar bool) *mio.NumpyMultiDataset {
	n := len(rows)
	names := []string{"Epoch"}
	types := []string{"i8"}
	data := [][]byte{make([]byte, 0, 8*n)}
	for _, c := range cols {
		names = append(names, c.name)
		types = append(types, typeStr(c.typ))
		data = append(data, make([]byte, 0, c.typ.Size()*n))
	}
	for _, r := range rows {
		data[0] = append(data[0], le64(r.sec)...)
		off := 0
		for i, c := range cols {
			sz := c.typ.Size()
			if off+sz > len(r.payload) {
				panic("bad-arg payload too short")
			}
			data[i+1] = append(data[i+1], r.payload[off:off+sz]...)
			off += sz
		}
	}
	if isVar {
		names = append(names, "Nanoseconds")
		types = append(types, "i4")
		nb := make([]byte, 0, 4*n)
		for _, r := range rows {
			nb = append(nb, le64(r.nanos)[:4]...)
		}
		data = append(data, nb)
	}
	tbk := mio.NewTimeBucketKey(key)
	return &mio.NumpyMultiDataset{
		NumpyDataset: mio.NumpyDataset{ColumnTypes: types, ColumnNames: names, ColumnData: data, Length: n},
		StartIndex:   map[string]int{tbk.String(): 0},
		Lengths:      map[string]int{tbk.String(): n},
	}
}

func le64(v int64) []byte {
	b := make([]byte, 8)
	for i := 0; i < 8; i++ {
		b[i] = byte(uint64(v) >> (8 * i))
	}
	return b
}

func errClass(msg string) string {
	m := strings.ToLower(msg)
	switch {
	case msg == "":
		return "ok"
	case strings.Contains(m, "no files returned from query parse"), strings.Contains(m, "not in catalog"):
		return "err:nofiles"
	case strings.Contains(m, "unable to match data columns"):
		return "err:colmismatch"
	case strings.Contains(m, "can not overwrite file"), strings.Contains(m, "file exists"):
		return "err:exists"
	case strings.Contains(m, "reverse scan only supported"):
		return "err:reverse_unlimited"
	case strings.Contains(m, "not in proper format"):
		return "err:keyformat"
	case strings.Contains(m, "snappy"), strings.Contains(m, "corrupt"):
		return "err:corrupt"
	case strings.Contains(m, "symbols in a query must have the same data type"):
		return "err:symbolschema"
	case strings.Contains(m, "unexpected data type"):
		return "err:type"
	case strings.Contains(m, " items but ") && strings.Contains(m, " categories"):
		// AddTimeBucket's key check; the message quotes the key, which may contain any word
		return "err:other"
	case strings.Contains(m, "timeframe"):
		return "err:timeframe"
	case strings.Contains(m, "removal of catalog entry failed"), strings.Contains(m, "unable to get info"):
		return "err:nokey"
	}
	return "err:other"
}

// renderCS prints a query result: rows in returned order as sec,nanos,payloadhex where payload is
// the concatenation of the non-time columns in returned column order; prefixed by the column list.
func renderCS(cs *mio.ColumnSeries) string {
	if cs == nil || cs.Len() == 0 {
		return "0[]"
	}
	names := cs.GetColumnNames()
	n := cs.Len()
	epoch := cs.GetEpoch()
	var nanos []int32
	if c, ok := cs.GetColumn("Nanoseconds").([]int32); ok {
		nanos = c
	}
	type bc struct {
		b  []byte
		sz int
	}
	var cols []bc
	var hdr []string
	for _, nm := range names {
		if nm == "Epoch" || nm == "Nanoseconds" {
			continue
		}
		col := cs.GetColumn(nm)
		b := mio.CastToByteSlice(col)
		cols = append(cols, bc{b, len(b) / n})
		hdr = append(hdr, nm)
	}
	var sb strings.Builder
	fmt.Fprintf(&sb, "%d[%s]", n, strings.Join(hdr, ","))
	for i := 0; i < n; i++ {
		if i > 0 {
			sb.WriteByte('+')
		}
		var ns int64
		if nanos != nil {
			ns = int64(nanos[i])
		}
		var p []byte
		for _, c := range cols {
			p = append(p, c.b[i*c.sz:(i+1)*c.sz]...)
		}
		fmt.Fprintf(&sb, "%d,%d,%s", epoch[i], ns, hx(p))
	}
	return sb.String()
}

// csRows extracts (sec, nanos, payload) rows from a query result
func csRows(cs *mio.ColumnSeries) []rowIn {
	if cs == nil || cs.Len() == 0 {
		return nil
	}
	n := cs.Len()
	epoch := cs.GetEpoch()
	nanos, _ := cs.GetColumn("Nanoseconds").([]int32)
	var out []rowIn
	for i := 0; i < n; i++ {
		var p []byte
		for _, nm := range cs.GetColumnNames() {
			if nm == "Epoch" || nm == "Nanoseconds" {
				continue
			}
			b := mio.CastToByteSlice(cs.GetColumn(nm))
			sz := len(b) / n
			p = append(p, b[i*sz:(i+1)*sz]...)
		}
		var nsv int64
		if nanos != nil {
			nsv = int64(nanos[i])
		}
		out = append(out, rowIn{epoch[i], nsv, p})
	}
	return out
}

func optI64(s string) *int64 {
	if s == "-" || s == "" {
		return nil
	}
	v := atoi(s)
	return &v
}

// runStoreStep executes one step; see Appendix A of DESIGN.md / Mkts/Driver/Store.lean.
func (in *Inst) runStoreStep(step string) string {
	f := strings.Split(step, ":")
	switch f[0] {
	case "C": // C:key:f|v:name=type,...
		cols := parseCols(f[3])
		req := frontend.CreateRequest{Key: f[1] + ":Symbol/Timeframe/AttributeGroup", IsVariableLength: f[2] == "v"}
		for _, c := range cols {
			req.ColumnNames = append(req.ColumnNames, c.name)
			req.ColumnTypes = append(req.ColumnTypes, typeStr(c.typ))
		}
		var resp frontend.MultiServerResponse
		in.ds.Create(nil, &frontend.MultiCreateRequest{Requests: []frontend.CreateRequest{req}}, &resp)
		if len(resp.Responses) == 0 {
			return "C=noresp"
		}
		return "C=" + errClass(resp.Responses[0].Error)
	case "W": // W:key:f|v:cols:rows
		isVar := f[2] == "v"
		ds := buildDataset(f[1], parseCols(f[3]), parseRows(f[4]), isVar)
		var resp frontend.MultiServerResponse
		in.ds.Write(nil, &frontend.MultiWriteRequest{Requests: []frontend.WriteRequest{{Data: ds, IsVariableLength: isVar}}}, &resp)
		if len(resp.Responses) == 0 {
			if isVar {
				if in.vwritten == nil {
					in.vwritten = map[string][]rowIn{}
				}
				in.vwritten[f[1]] = append(in.vwritten[f[1]], parseRows(f[4])...)
			}
			return "W=ok"
		}
		return "W=" + errClass(resp.Responses[0].Error)
	case "Q": // Q:key:startS:startNs:endS:endNs:limit:F|L:cols
		req := frontend.QueryRequest{Destination: f[1]}
		req.EpochStart, req.EpochStartNanos = optI64(f[2]), optI64(f[3])
		req.EpochEnd, req.EpochEndNanos = optI64(f[4]), optI64(f[5])
		if f[6] != "-" {
			n := int(atoi(f[6]))
			req.LimitRecordCount = &n
			fs := f[7] == "F"
			req.LimitFromStart = &fs
		}
		if len(f) > 8 && f[8] != "-" {
			req.Columns = strings.Split(f[8], ",")
		}
		var resp frontend.MultiQueryResponse
		err := in.ds.Query(nil, &frontend.MultiQueryRequest{Requests: []frontend.QueryRequest{req}}, &resp)
		if err != nil {
			return "Q=" + errClass(err.Error())
		}
		csm, err := resp.ToColumnSeriesMap()
		if err != nil {
			return "Q=err:decode"
		}
		var keys []string
		byKey := map[string]*mio.ColumnSeries{}
		for k, cs := range *csm {
			keys = append(keys, k.GetItemKey())
			byKey[k.GetItemKey()] = cs
		}
		sort.Strings(keys)
		if len(keys) == 0 {
			return "Q=0[]"
		}
		var parts []string
		unrestricted := f[2] == "-" && f[3] == "-" && f[4] == "-" && f[5] == "-" && f[6] == "-" && (len(f) <= 8 || f[8] == "-")
		for _, k := range keys {
			body := renderCS(byKey[k])
			if w, isVar := in.vwritten[k]; isVar && unrestricted {
				tfd, _ := mio.NewTimeBucketKey(k).GetTimeFrame()
				if c09ok(int64(tfd.Duration), w, csRows(byKey[k])) {
					body += ";V=ok"
				} else {
					body += ";V=bad"
				}
			}
			if len(keys) == 1 {
				parts = append(parts, body)
			} else {
				parts = append(parts, k+"~"+body)
			}
		}
		return "Q=" + strings.Join(parts, "&")
	case "D": // D:key
		var resp frontend.MultiServerResponse
		in.ds.Destroy(nil, &frontend.MultiKeyRequest{Requests: []frontend.KeyRequest{{Key: f[1]}}}, &resp)
		if len(resp.Responses) == 0 {
			return "D=noresp"
		}
		return "D=" + errClass(resp.Responses[0].Error)
	case "I": // I:key
		var resp frontend.MultiGetInfoResponse
		in.ds.GetInfo(nil, &frontend.MultiKeyRequest{Requests: []frontend.KeyRequest{{Key: f[1]}}}, &resp)
		if len(resp.Responses) == 0 {
			return "I=noresp"
		}
		r := resp.Responses[0]
		if r.ServerResp.Error != "" {
			return "I=" + errClass(r.ServerResp.Error)
		}
		var cs []string
		for _, d := range r.DSV {
			cs = append(cs, hx([]byte(d.Name))+"="+strings.ToLower(d.Type.String()))
		}
		return fmt.Sprintf("I=tf%d,rt%d,%s", int64(r.TimeFrame), int(r.RecordType), strings.Join(cs, ","))
	case "L": // list bucket keys
		var resp frontend.ListSymbolsResponse
		frontend.Queryable = 1
		err := in.ds.ListSymbols(nil, &frontend.ListSymbolsRequest{Format: "tbk"}, &resp)
		if err != nil {
			return "L=err"
		}
		sort.Strings(resp.Results)
		if len(resp.Results) == 0 {
			return "L=-"
		}
		return "L=" + strings.Join(resp.Results, ",")
	}
	panic("bad-arg step " + step)
}

// store <nowYear> <step> <step> ...   (R = abrupt restart, S = graceful shutdown + restart)
func storeOp(a []string) (res string) {
	root := scratchDir("store")
	defer os.RemoveAll(root)
	var out []string
	var in *Inst
	start := func() (ok bool) {
		defer func() {
			if r := recover(); r != nil {
				lastPanic = fmt.Sprint(r)
				out = append(out, "startup_panic")
				ok = false
			}
		}()
		in = startInst(root, nil)
		return true
	}
	if !start() {
		return strings.Join(out, " ")
	}
	defer func() { in.abandon() }()
	nowYear := time.Now().UTC().Year()
	if a[0] != strconv.Itoa(nowYear) {
		return "harness:bad-arg now-year " + a[0] + " != " + strconv.Itoa(nowYear)
	}
	for _, step := range a[1:] {
		switch step {
		case "R":
			in.abandon()
			if !start() {
				return strings.Join(out, " ")
			}
			out = append(out, "R=ok")
		case "S":
			in.wf.Shutdown()
			in.abandon()
			if !start() {
				return strings.Join(out, " ")
			}
			out = append(out, "S=ok")
		default:
			func() {
				defer func() {
					if r := recover(); r != nil {
						lastPanic = fmt.Sprint(r)
						out = append(out, step[:1]+"="+panicClass(r))
					}
				}()
				out = append(out, in.runStoreStep(step))
			}()
		}
	}
	return strings.Join(out, " ")
}

func init() {
	ops["store"] = storeOp
	slowOps["store"] = true
}
