#!/bin/bash
# C18 witness generator (not a check): builds the harness with the Go race detector (works
# offline here: cgo + gcc present, cold build ~6 min) and runs the two scenarios that exercise the
# accesses flagged by Mkts.Props.C18.lockset_*.  Prints, per shared variable, how many race
# reports name its source line.  usage: go/harness/race_witness.sh [outdir]
set -u
here="$(cd "$(dirname "$0")" && pwd)"
out="${1:-/tmp/race_witness}"
mkdir -p "$out"
export GOFLAGS=-mod=mod GOPROXY=off GOSUMDB=off GOTOOLCHAIN=local
export GOCACHE="${VERIF_GOCACHE:-$here/../../.cache/go-build}"
( cd "$here" && go build -race -tags verif -o "$out/harness_race" . ) || { echo "race build failed"; exit 2; }
for sc in racebg raceflush; do
  echo "$sc" > "$out/$sc.ops"
  GORACE="halt_on_error=0 log_path=$out/$sc.race" VERIF_WORK="$out" timeout 300 "$out/harness_race" exec "$out/$sc.ops" "$out/$sc.out" > /dev/null 2>"$out/$sc.stderr"
  echo "$sc: exit=$? result=$(cat "$out/$sc.out" 2>/dev/null)"
done
cat "$out"/*.race.* 2>/dev/null > "$out/all_races.txt"
echo "race reports: $(grep -c 'WARNING: DATA RACE' "$out/all_races.txt")"
for pat in 'wal.go:722' 'wal.go:765' 'wal.go:788' 'wal.go:730' 'wal.go:804' 'written.go:5[2-6]' 'written.go:6[3-6]'; do
  echo "  $pat: $(grep -c "executor/$pat" "$out/all_races.txt")"
done
grep -c 'concurrent map' "$out"/*.stderr 2>/dev/null
