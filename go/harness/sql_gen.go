package main

// Generators for the `sqlstore` op: C19 (WHERE predicates) and C20 (select list / alias / LIMIT /
// INSERT INTO).  Every statement is built as a structure and printed twice: as SQL text (hex, for
// the real parser) and as the structured form the Lean model reads (see Mkts/Driver/Sql.lean).

import (
	"encoding/binary"
	"fmt"
	"math"
	"strings"
	"time"
)

type sqlLit struct {
	kind byte // 'i' integer, 'd' decimal, 's' string
	text string
}

func litI(v int64) sqlLit     { return sqlLit{'i', fmt.Sprint(v)} }
func litD(t string) sqlLit    { return sqlLit{'d', t} }
func litS(t string) sqlLit    { return sqlLit{'s', t} }
func (l sqlLit) sql() string {
	if l.kind == 's' {
		return "'" + l.text + "'"
	}
	return l.text
}
func (l sqlLit) enc() string {
	if l.kind == 's' {
		return "s" + hx([]byte(l.text))
	}
	return string(l.kind) + l.text
}

type sqlConj struct {
	col, op string // op: eq lt le gt ge bt
	a, b    sqlLit
}

var opText = map[string]string{"eq": "=", "lt": "<", "le": "<=", "gt": ">", "ge": ">="}

func (c sqlConj) sql() string {
	if c.op == "bt" {
		return fmt.Sprintf("%s BETWEEN %s AND %s", c.col, c.a.sql(), c.b.sql())
	}
	return fmt.Sprintf("%s %s %s", c.col, opText[c.op], c.a.sql())
}
func (c sqlConj) enc() string {
	if c.op == "bt" {
		return fmt.Sprintf("%s,bt,%s,%s", c.col, c.a.enc(), c.b.enc())
	}
	return fmt.Sprintf("%s,%s,%s", c.col, c.op, c.a.enc())
}

type sqlSel struct {
	star  bool
	items [][2]string // name, alias ("" = none)
	table string
	conj  []sqlConj
	limit int // -1 = no LIMIT clause
}

func (s sqlSel) sql() string {
	its := "*"
	if !s.star {
		var p []string
		for _, it := range s.items {
			if it[1] != "" {
				p = append(p, it[0]+" AS "+it[1])
			} else {
				p = append(p, it[0])
			}
		}
		its = strings.Join(p, ", ")
	}
	out := fmt.Sprintf("SELECT %s FROM `%s`", its, s.table)
	if len(s.conj) > 0 {
		var p []string
		for _, c := range s.conj {
			p = append(p, c.sql())
		}
		out += " WHERE " + strings.Join(p, " AND ")
	}
	if s.limit >= 0 {
		out += fmt.Sprintf(" LIMIT %d", s.limit)
	}
	return out
}

func (s sqlSel) enc() string {
	its := "*"
	if !s.star {
		var p []string
		for _, it := range s.items {
			if it[1] != "" {
				p = append(p, it[0]+"~"+it[1])
			} else {
				p = append(p, it[0])
			}
		}
		its = strings.Join(p, ",")
	}
	cj := "-"
	if len(s.conj) > 0 {
		var p []string
		for _, c := range s.conj {
			p = append(p, c.enc())
		}
		cj = strings.Join(p, "&")
	}
	lim := "-"
	if s.limit >= 0 {
		lim = fmt.Sprint(s.limit)
	}
	return fmt.Sprintf("%s|%s|%s|%s", its, s.table, cj, lim)
}

func selStep(s sqlSel) string { return "X:" + hx([]byte(s.sql()+";")) + ":S|" + s.enc() }

func insStep(target string, aliases []string, s sqlSel) string {
	a, ae := "", "-"
	if aliases != nil {
		a = " (" + strings.Join(aliases, ", ") + ")"
		ae = strings.Join(aliases, ",")
	}
	text := fmt.Sprintf("INSERT INTO `%s`%s %s;", target, a, s.sql())
	return "X:" + hx([]byte(text)) + ":N|" + target + "|" + ae + "|" + s.enc()
}

// ---- typed buckets -----------------------------------------------------------------------

type sqlCol struct {
	name, typ string
	size      int
}

var sqlMainTypes = []sqlCol{{"", "int32", 4}, {"", "int64", 8}, {"", "float32", 4}, {"", "float64", 8}}
var sqlOtherTypes = []sqlCol{{"", "int16", 2}, {"", "byte", 1}, {"", "uint8", 1}, {"", "uint16", 2}, {"", "uint32", 4}, {"", "uint64", 8}}

type sqlBucket struct {
	key   string
	tfS   int64
	cols  []sqlCol
	times []int64     // stored row times (unix seconds), as written
	vals  [][]float64 // numeric value per row and column (NaN possible for float columns)
}

func (b *sqlBucket) colsArg() string {
	var p []string
	for _, c := range b.cols {
		p = append(p, c.name+"="+c.typ)
	}
	return strings.Join(p, ",")
}

func encodeVal(c sqlCol, v float64) []byte {
	out := make([]byte, c.size)
	switch c.typ {
	case "float32":
		binary.LittleEndian.PutUint32(out, math.Float32bits(float32(v)))
	case "float64":
		binary.LittleEndian.PutUint64(out, math.Float64bits(v))
	default:
		u := uint64(int64(v))
		for i := 0; i < c.size; i++ {
			out[i] = byte(u >> (8 * i))
		}
	}
	return out
}

func (b *sqlBucket) rowsArg(idx []int) string {
	var parts []string
	for _, i := range idx {
		var p []byte
		for j, c := range b.cols {
			p = append(p, encodeVal(c, b.vals[i][j])...)
		}
		parts = append(parts, fmt.Sprintf("%d,0,%s", b.times[i], hx(p)))
	}
	return strings.Join(parts, "+")
}

var sqlTFs = []struct {
	name string
	s    int64
}{{"1Sec", 1}, {"1Min", 60}, {"5Min", 300}, {"15Min", 900}, {"1H", 3600}, {"4H", 14400}}

// newSQLBucket draws a bucket with nrows rows on consecutive-ish intervals near a boundary.
func (g *Gen) newSQLBucket(sym string, tfi int, cols []sqlCol, nrows int, tags map[string]bool) *sqlBucket {
	tf := sqlTFs[tfi]
	b := &sqlBucket{key: sym + "/" + tf.name + "/OHLC", tfS: tf.s, cols: cols}
	y := 2000 + g.Intn(30)
	var base int64
	switch g.Intn(5) {
	case 0: // first slots of a year
		base = time.Date(y, 1, 1, 0, 0, 0, 0, time.UTC).Unix()
		tags["year_first_slots"] = true
	case 1: // straddling a year boundary
		base = time.Date(y+1, 1, 1, 0, 0, 0, 0, time.UTC).Unix() - tf.s*int64(1+g.Intn(nrows))
		tags["year_straddle"] = true
	case 2: // leap day
		base = time.Date(y-y%4, 2, 29, 0, 0, 0, 0, time.UTC).Unix() + tf.s*int64(g.Intn(100))
		tags["leap_day"] = true
	default:
		base = time.Date(y, time.Month(1+g.Intn(12)), 1+g.Intn(28), g.Intn(24), 0, 0, 0, time.UTC).Unix() + tf.s*int64(g.Intn(50))
	}
	base -= base % tf.s
	t := base
	for i := 0; i < nrows; i++ {
		b.times = append(b.times, t)
		t += tf.s * g.Pick(1, 1, 1, 2, 3)
		row := make([]float64, len(cols))
		for j, c := range cols {
			v := float64(g.Intn(7))
			switch {
			case c.typ == "float32" || c.typ == "float64":
				// fractions that are exact in binary (.25 .5 .75) and fractions that are not (.2 .7 .1):
				// for the latter a FLOAT32 column stores float32(v) != v, so `col = 3.2` only matches
				// when the literal is narrowed to the column's precision
				f := g.Pick(0, 25, 50, 75, 20, 70, 10)
				v += float64(f) / 100
				if f == 20 || f == 70 || f == 10 {
					tags["float:inexact_value:"+c.typ] = true
				}
				if g.Intn(8) == 0 {
					v = -v
				}
				if g.Intn(25) == 0 {
					v = math.NaN()
					tags["nan_value"] = true
				}
			case c.typ == "int32" || c.typ == "int64" || c.typ == "int16":
				if g.Intn(8) == 0 {
					v = -v
				}
			}
			row[j] = v
		}
		b.vals = append(b.vals, row)
	}
	return b
}

func dateLit(t int64, g *Gen, tags map[string]bool) sqlLit {
	tm := time.Unix(t, 0).UTC()
	switch {
	case tm.Second() != 0 || g.Intn(3) == 0:
		if g.Intn(4) == 0 {
			tags["lit:date28"] = true
			return litS(tm.Format("2006-01-02-15:04:05") + ".00000000")
		}
		tags["lit:date19"] = true
		return litS(tm.Format("2006-01-02-15:04:05"))
	case tm.Hour() != 0 || tm.Minute() != 0 || g.Intn(2) == 0:
		tags["lit:date16"] = true
		return litS(tm.Format("2006-01-02-15:04"))
	default:
		tags["lit:date10"] = true
		return litS(tm.Format("2006-01-02"))
	}
}

// epochConj: a bound on Epoch placed on / between / outside the stored rows, in one of the three
// literal forms. safe = only forms and positions for which the code is correct.
func (g *Gen) epochConj(b *sqlBucket, safe bool, tags map[string]bool) sqlConj {
	i := g.Intn(len(b.times))
	t := b.times[i]
	pos := g.Intn(6)
	switch pos {
	case 0:
		tags["epoch:on_row"] = true
	case 1:
		t += b.tfS / 2
		if b.tfS == 1 {
			t = b.times[i]
		}
		tags["epoch:between"] = true
	case 2:
		t = b.times[0] - b.tfS*int64(1+g.Intn(3))
		tags["epoch:before_all"] = true
	case 3:
		t = b.times[len(b.times)-1] + b.tfS*int64(1+g.Intn(3))
		tags["epoch:after_all"] = true
	case 4:
		t += g.Pick(-1, 1)
		tags["epoch:row_pm1s"] = true
	default:
		t = b.times[i] + b.tfS
		tags["epoch:next_edge"] = true
	}
	ops := []string{"lt", "le", "gt", "ge", "eq", "bt"}
	op := ops[g.Intn(len(ops))]
	form := g.Intn(3) // 0 date string, 1 seconds, 2 nanoseconds
	if safe {
		form = g.Intn(2) * 2
		if op == "le" {
			op = "lt"
		}
	}
	mk := func(t int64) sqlLit {
		switch form {
		case 0:
			return dateLit(t, g, tags)
		case 1:
			tags["lit:epoch_sec"] = true
			return litI(t)
		default:
			tags["lit:epoch_ns"] = true
			ns := t * 1000000000
			if !safe && g.Intn(4) == 0 {
				ns += g.Pick(-1, 1)
				tags["epoch:pm1ns"] = true
			}
			return litI(ns)
		}
	}
	c := sqlConj{col: "Epoch", op: op, a: mk(t)}
	if op == "bt" {
		c.b = mk(t + b.tfS*int64(1+g.Intn(4)))
	}
	return c
}

// valueConj: a comparison on value column j with the bound on / between / outside stored values.
func (g *Gen) valueConj(b *sqlBucket, j int, safe bool, tags map[string]bool) sqlConj {
	c := b.cols[j]
	v := b.vals[g.Intn(len(b.vals))][j]
	if math.IsNaN(v) || v < 0 {
		v = float64(g.Intn(7))
	}
	ops := []string{"lt", "le", "gt", "ge", "eq", "bt"}
	op := ops[g.Intn(len(ops))]
	isFloat := c.typ == "float32" || c.typ == "float64"
	mk := func(v float64) sqlLit {
		switch k := g.Intn(10); {
		case isFloat && k < 6:
			tags["lit:decimal"] = true
			x := v + float64(g.Pick(0, 0, 25, -25))/100
			if x < 0 {
				x = 0.5
			}
			return litD(fmt.Sprintf("%.2f", x))
		case isFloat:
			tags["lit:int_on_float"] = true
			return litI(int64(v) + g.Pick(0, 1))
		case !safe && k == 0:
			tags["lit:decimal_on_int"] = true
			return litD(fmt.Sprintf("%d.%s", int64(v), []string{"0", "5", "25"}[g.Intn(3)]))
		case !safe && k == 1:
			tags["lit:huge_int"] = true
			return litI(g.Pick(2147483647, 2147483648, 3000000000, 4294967296, 4294967299))
		default:
			tags["lit:int"] = true
			return litI(int64(v) + g.Pick(0, 0, 1, 2, 7, 100))
		}
	}
	cj := sqlConj{col: c.name, op: op, a: mk(v)}
	if op == "bt" {
		cj.b = mk(v + float64(g.Pick(1, 2, 3)))
	}
	return cj
}

func tagList(tags map[string]bool) []string {
	var out []string
	for k := range tags {
		out = append(out, k)
	}
	sortStrings(out)
	return out
}

func sortStrings(s []string) {
	for i := 1; i < len(s); i++ {
		for j := i; j > 0 && s[j] < s[j-1]; j-- {
			s[j], s[j-1] = s[j-1], s[j]
		}
	}
}

func (g *Gen) sqlCols(n int, allowOther bool, tags map[string]bool) []sqlCol {
	var cols []sqlCol
	for i := 0; i < n; i++ {
		c := sqlMainTypes[g.Intn(len(sqlMainTypes))]
		if allowOther && g.Intn(6) == 0 {
			c = sqlOtherTypes[g.Intn(len(sqlOtherTypes))]
			tags["coltype:other"] = true
		}
		c.name = string(rune('A' + i))
		tags["coltype:"+c.typ] = true
		cols = append(cols, c)
	}
	return cols
}

func allIdx(n int) []int {
	out := make([]int, n)
	for i := range out {
		out[i] = i
	}
	return out
}

// ---- C19 -----------------------------------------------------------------------------------

func genC19(g *Gen) {
	nowYear := time.Now().UTC().Year()
	n := g.N(260, 2600)
	for k := 0; k < n; k++ {
		tags := map[string]bool{}
		cols := g.sqlCols(1+g.Intn(4), true, tags)
		b := g.newSQLBucket("S", g.Intn(len(sqlTFs)), cols, 3+g.Intn(7), tags)
		steps := []string{fmt.Sprintf("C:%s:f:%s", b.key, b.colsArg())}
		steps = append(steps, fmt.Sprintf("W:%s:f:%s:%s", b.key, b.colsArg(), b.rowsArg(allIdx(len(b.times)))))
		if g.Intn(3) == 0 { // overwrite one interval (last writer wins)
			i := g.Intn(len(b.times))
			for j := range b.vals[i] {
				if !math.IsNaN(b.vals[i][j]) {
					b.vals[i][j] = float64(g.Intn(7))
				}
			}
			steps = append(steps, fmt.Sprintf("W:%s:f:%s:%s", b.key, b.colsArg(), b.rowsArg([]int{i})))
			tags["overwrite"] = true
		}
		nst := 2 + g.Intn(4)
		for s := 0; s < nst; s++ {
			sel := sqlSel{star: true, table: b.key, limit: -1}
			nc := 1 + g.Intn(4)
			tags[fmt.Sprintf("conj:%d", nc)] = true
			used := map[string]bool{}
			for c := 0; c < nc; c++ {
				var cj sqlConj
				if g.Intn(3) == 0 {
					cj = g.epochConj(b, false, tags)
				} else {
					cj = g.valueConj(b, g.Intn(len(cols)), false, tags)
				}
				// mostly one predicate per column; repeated columns are the F1 class
				if used[cj.col] && g.Intn(3) != 0 {
					continue
				}
				if used[cj.col] {
					tags["class:repeated_column"] = true
				}
				used[cj.col] = true
				tags["op:"+cj.op] = true
				sel.conj = append(sel.conj, cj)
			}
			if len(sel.conj) == 0 {
				sel.conj = append(sel.conj, g.valueConj(b, 0, false, tags))
			}
			steps = append(steps, selStep(sel))
		}
		// malformed / rejected stream
		switch g.Intn(12) {
		case 0:
			bad := []string{"2020-13-01", "2020-02-30", "2020-01-01-25:00", "2020-01-01-10:61:00", "20200101", "2020-1-1", "2020-01-01-10:00:00 XYZ9"}
			steps = append(steps, selStep(sqlSel{star: true, table: b.key, limit: -1,
				conj: []sqlConj{{col: "Epoch", op: "lt", a: litS(bad[g.Intn(len(bad)-1)])}}}))
			tags["malformed:date"] = true
		case 1:
			steps = append(steps, selStep(sqlSel{star: true, table: "NOPE/1Min/OHLC", limit: -1,
				conj: []sqlConj{{col: "A", op: "lt", a: litI(3)}}}))
			tags["malformed:unknown_table"] = true
		case 2: // contradictory bounds: empty result even for an unknown table
			steps = append(steps, selStep(sqlSel{star: true, table: []string{b.key, "NOPE/1Min/OHLC"}[g.Intn(2)], limit: -1,
				conj: []sqlConj{{col: "A", op: "gt", a: litI(5)}, {col: "A", op: "lt", a: litI(2)}}}))
			tags["contradiction"] = true
		case 3:
			steps = append(steps, selStep(sqlSel{star: true, table: b.key, limit: -1,
				conj: []sqlConj{{col: "ZZ", op: "lt", a: litI(3)}}}))
			tags["unknown_where_column"] = true
		case 4, 5: // tiny epoch-seconds literal: re-scaled on every row of the post-filter loop
			steps = append(steps, selStep(sqlSel{star: true, table: b.key, limit: -1,
				conj: []sqlConj{{col: "Epoch", op: []string{"gt", "ge", "eq"}[g.Intn(3)], a: litI(g.Pick(0, 1, 5, 9, 10, 32, 33))}}}))
			tags["class:tiny_epoch_literal"] = true
		}
		g.Emit(fmt.Sprintf("sqlstore %d %s", nowYear, strings.Join(steps, " ")), tagList(tags)...)
	}
}

// ---- C20 -----------------------------------------------------------------------------------

func (g *Gen) safeConj(b *sqlBucket, tags map[string]bool) []sqlConj {
	var out []sqlConj
	used := map[string]bool{}
	for c := 0; c < g.Intn(3); c++ {
		var cj sqlConj
		if g.Intn(3) == 0 {
			cj = g.epochConj(b, true, tags)
		} else {
			j := g.Intn(len(b.cols))
			cj = g.valueConj(b, j, true, tags)
		}
		if used[cj.col] {
			continue
		}
		used[cj.col] = true
		out = append(out, cj)
	}
	return out
}

func genC20(g *Gen) {
	nowYear := time.Now().UTC().Year()
	n := g.N(240, 1500)
	for k := 0; k < n; k++ {
		tags := map[string]bool{}
		cols := g.sqlCols(1+g.Intn(4), false, tags)
		tfi := g.Intn(len(sqlTFs) - 1)
		nrows := 2 + g.Intn(7)
		b := g.newSQLBucket("S", tfi, cols, nrows, tags)
		// no NaN in C20 scenarios with predicates on that column is needed: NaN only makes the spec silent
		steps := []string{fmt.Sprintf("C:%s:f:%s", b.key, b.colsArg()),
			fmt.Sprintf("W:%s:f:%s:%s", b.key, b.colsArg(), b.rowsArg(allIdx(nrows)))}
		names := []string{"Epoch"}
		for _, c := range cols {
			names = append(names, c.name)
		}
		// projections / aliases / limits
		for s := 0; s < 2+g.Intn(3); s++ {
			sel := sqlSel{table: b.key, limit: -1, conj: g.safeConj(b, tags)}
			if g.Intn(4) == 0 {
				sel.star = true
				tags["select:star"] = true
			} else {
				perm := g.R.Perm(len(names))
				ni := 1 + g.Intn(len(names))
				for _, p := range perm[:ni] {
					it := [2]string{names[p], ""}
					if g.Intn(3) == 0 {
						it[1] = fmt.Sprintf("X%d", p)
						tags["select:alias"] = true
					}
					sel.items = append(sel.items, it)
				}
				tags[fmt.Sprintf("select:items%d", ni)] = true
				switch g.Intn(14) {
				case 0: // duplicate item
					sel.items = append(sel.items, sel.items[0])
					tags["select:dup_item"] = true
				case 1: // alias colliding with another column
					sel.items[0][1] = names[len(names)-1]
					tags["select:alias_collision"] = true
				case 2:
					sel.items = append(sel.items, [2]string{"ZZ", ""})
					tags["select:unknown_column"] = true
				}
			}
			switch g.Intn(3) {
			case 0:
				sel.limit = g.Intn(nrows + 2)
				if sel.limit == 0 {
					tags["limit:0"] = true
				} else if sel.limit >= nrows {
					tags["limit:ge_rows"] = true
				} else {
					tags["limit:lt_rows"] = true
				}
			case 1:
				sel.limit = 1 + g.Intn(nrows+1)
				tags["limit:nonzero"] = true
			}
			if len(sel.conj) > 0 {
				tags["select:where"] = true
			}
			steps = append(steps, selStep(sel))
		}
		// INSERT INTO … SELECT
		if g.Intn(4) != 0 {
			ttf := tfi
			if g.Intn(2) == 0 {
				ttf = tfi + 1 + g.Intn(len(sqlTFs)-tfi-1)
				tags["insert:coarser_tf"] = true
			} else {
				tags["insert:same_tf"] = true
			}
			tcols := cols
			kind := g.Intn(10)
			switch kind {
			case 0:
				if len(cols) > 1 { // target has a subset of the columns
					tcols = cols[:len(cols)-1]
					tags["insert:target_subset"] = true
				}
			case 1: // target has an extra column: error
				extra := sqlCol{"Z", "int32", 4}
				tcols = append(append([]sqlCol{}, cols...), extra)
				tags["insert:target_extra_col"] = true
			}
			tb := &sqlBucket{key: "T/" + sqlTFs[ttf].name + "/OHLC", tfS: sqlTFs[ttf].s, cols: tcols}
			if kind == 2 {
				tags["insert:unknown_target"] = true
			} else {
				steps = append(steps, fmt.Sprintf("C:%s:f:%s", tb.key, tb.colsArg()))
			}
			if kind == 3 { // target already holds a row in one of the intervals
				tb.times = []int64{b.times[0]}
				tb.vals = [][]float64{make([]float64, len(tcols))}
				steps = append(steps, fmt.Sprintf("W:%s:f:%s:%s", tb.key, tb.colsArg(), tb.rowsArg([]int{0})))
				tags["insert:target_prefilled"] = true
			}
			sel := sqlSel{star: true, table: b.key, limit: -1, conj: g.safeConj(b, tags)}
			var aliases []string
			switch g.Intn(6) {
			case 0: // explicit select list in another order
				sel.star = false
				perm := g.R.Perm(len(names))
				for _, p := range perm {
					sel.items = append(sel.items, [2]string{names[p], ""})
				}
				tags["insert:item_list"] = true
			case 1: // select list without Epoch: rejected
				sel.star = false
				for _, c := range cols {
					sel.items = append(sel.items, [2]string{c.name, ""})
				}
				tags["insert:no_epoch"] = true
			case 2:
				aliases = []string{"Epoch"}
				for _, c := range tcols {
					aliases = append(aliases, c.name)
				}
				tags["insert:aliases"] = true
			case 3:
				if g.Intn(2) == 0 {
					sel.limit = 1 + g.Intn(nrows)
					tags["insert:limit"] = true
				}
			}
			if g.Intn(10) == 0 { // select returns nothing
				sel.conj = []sqlConj{{col: "Epoch", op: "lt", a: litI((b.times[0] - 10*b.tfS) * 1000000000)}}
				tags["insert:empty_select"] = true
			}
			steps = append(steps, insStep(tb.key, aliases, sel))
			steps = append(steps, selStep(sqlSel{star: true, table: tb.key, limit: -1}))
			if sqlTFs[ttf].name != "4H" { // the query API re-routes 4H to 2H (utils.Timeframes order): not this property
				steps = append(steps, fmt.Sprintf("Q:%s:-:-:-:-:-:-:-", tb.key))
			}
		}
		g.Emit(fmt.Sprintf("sqlstore %d %s", nowYear, strings.Join(steps, " ")), tagList(tags)...)
	}
}

func init() {
	gens["C19"] = genC19
	gens["C20"] = genC20
}
