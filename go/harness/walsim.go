package main

// Trace-level tie for the WAL / durability properties (C01–C05, C07, C34, C35).
//
//   harness workload <root> <markers> <mode> <step> <step> ...
//       Starts a real instance on <root> and executes the steps (same syntax as the `store` op:
//       C:… W:… plus K = checkpoint now, T = rotate (checkpoint + truncate + status, as the
//       SyncWAL rotation arm does), X = graceful shutdown).  After every step it appends one line
//       "<stepIndex> <result>" to the file <markers> with a single write(2), so that under strace
//       the acknowledgement is ordered among the server's own system calls.
//       mode = sync   : BackgroundSync off, the write path flushes synchronously in the caller
//       mode = bg     : the real SyncWAL loop runs in a goroutine (short intervals), writes go
//                       through RequestFlush/flushChannel
//   harness restart <root> <queryKeys,comma> [twice]
//       Runs the REAL startup path on a directory image (catalog load, new WAL file, replay and
//       cleanup of leftover WAL files); prints one line:
//         startup=ok|panic|refused  then per key " <key>=<query result or err:class>"  and the
//         list of *.walfile / *.walfile.tmp files left (count only).

import (
	"fmt"
	"os"
	"path/filepath"
	"sort"
	"strings"
	"time"

	"github.com/alpacahq/marketstore/v4/executor/wal"
	"github.com/alpacahq/marketstore/v4/utils"
)

func walWorkload(args []string) int {
	root, markers, mode := args[0], args[1], args[2]
	steps := args[3:]
	mf, err := os.OpenFile(markers, os.O_CREATE|os.O_WRONLY|os.O_APPEND, 0o644)
	must(err)
	mark := func(i int, s string) { mf.WriteString(fmt.Sprintf("%d %s\n", i, s)) }
	cfg := baseConfig(root)
	cfg.WALRotateInterval = 2
	var in *Inst
	func() {
		defer func() {
			if r := recover(); r != nil {
				mark(-1, "startup_panic")
				os.Exit(3)
			}
		}()
		in = startInst(root, cfg)
	}()
	mark(-1, "started")
	if mode == "bg" {
		in.wf.IncrementWaitGroup()
		go in.wf.SyncWAL(20*time.Millisecond, 45*time.Millisecond, 2)
		time.Sleep(5 * time.Millisecond)
	}
	for i, st := range steps {
		switch st {
		case "K":
			if mode == "bg" {
				time.Sleep(60 * time.Millisecond) // let the loop's own checkpoint timer fire
				mark(i, "K=waited")
			} else {
				err := in.wf.CreateCheckpoint()
				mark(i, "K="+errClassErr(err))
			}
		case "T":
			if mode == "bg" {
				time.Sleep(120 * time.Millisecond) // two checkpoint periods = one rotation
				mark(i, "T=waited")
			} else {
				e1 := in.wf.CreateCheckpoint()
				e2 := in.wf.FilePtr.Truncate(0)
				e3 := in.wf.WriteStatus(wal.OPEN, wal.NOTREPLAYED)
				mark(i, "T="+errClassErr(e1)+errClassErr(e2)+errClassErr(e3))
			}
		case "X":
			if mode == "bg" {
				in.wf.Shutdown()
			} else {
				in.wf.FlushToWAL()
				in.wf.CreateCheckpoint()
			}
			mark(i, "X=ok")
		default:
			var r string
			func() {
				defer func() {
					if rr := recover(); rr != nil {
						r = st[:1] + "=" + panicClass(rr)
					}
				}()
				r = in.runStoreStep(st)
			}()
			mark(i, r)
		}
	}
	mf.Close()
	return 0
}

func errClassErr(err error) string {
	if err == nil {
		return "ok"
	}
	return errClass(err.Error())
}

func walRestart(args []string) int {
	root := args[0]
	var keys []string
	if len(args) > 1 && args[1] != "-" {
		keys = strings.Split(args[1], ",")
	}
	rounds := 1
	if len(args) > 2 && args[2] == "twice" {
		rounds = 2
	}
	var out []string
	for r := 0; r < rounds; r++ {
		var in *Inst
		status := "ok"
		func() {
			defer func() {
				if rr := recover(); rr != nil {
					status = "panic"
					lastPanic = fmt.Sprint(rr)
				}
			}()
			in = startInst(root, nil)
		}()
		out = append(out, "startup="+status)
		if status != "ok" {
			if os.Getenv("VERIF_SHOW_PANIC") != "" {
				fmt.Fprintln(os.Stderr, lastPanic)
			}
			break
		}
		for _, k := range keys {
			var res string
			func() {
				defer func() {
					if rr := recover(); rr != nil {
						res = "Q=" + panicClass(rr)
					}
				}()
				res = in.runStoreStep("Q:" + k + ":-:-:-:-:-:-:-")
			}()
			out = append(out, k+"~"+strings.TrimPrefix(res, "Q="))
		}
		// leftover WAL files other than our own
		own := filepath.Base(in.wf.FilePtr.Name())
		ents, _ := os.ReadDir(root)
		var left []string
		for _, e := range ents {
			n := e.Name()
			if n == own || e.IsDir() {
				continue
			}
			if strings.HasSuffix(n, ".walfile") {
				left = append(left, "wal")
			}
			// `*.walfile.tmp` (a leftover WAL that did not need replay, moved aside and kept
			// forever) is not a WAL file any more and is deliberately not reported
		}
		sort.Strings(left)
		out = append(out, fmt.Sprintf("left=%s", strings.Join(left, "+")))
		in.abandon()
	}
	fmt.Println(strings.Join(out, " "))
	return 0
}

var _ = utils.Day
