import Mkts.Model.OnDiskAgg
/-! Helper lemmas for C24 (on-disk aggregation): consecutive grouping of a key-sorted series equals
grouping by key; `SumInt32` on non-negative volumes; monotonicity of `Time.Truncate`. Core Lean only. -/
namespace Mkts.OnDiskAgg
open Mkts.Time Mkts.Timeframe List

/-! ## consecutive runs (the loop of `aggregate`, abstract key) -/

def runsAux (key : Bar → Int) (gk : Int) (first : Bar) (revRest : List Bar) :
    List Bar → List (Int × Bar × List Bar)
  | [] => [(gk, first, revRest.reverse)]
  | b :: bs =>
    if key b == gk then runsAux key gk first (b :: revRest) bs
    else (gk, first, revRest.reverse) :: runsAux key (key b) b [] bs

def runs (key : Bar → Int) : CS → List (Int × Bar × List Bar)
  | [] => []
  | b :: bs => runsAux key (key b) b [] bs

/-- destinations whose windows are fixed blocks counted from Go's zero time -/
def Intraday (cd : CandleDuration) : Prop :=
  cd.suffix = Suffix.Sec ∨ cd.suffix = Suffix.Min ∨ cd.suffix = Suffix.H

theorem isWithin_intraday (cd : CandleDuration) (h : Intraday cd) (t g : Int) :
    isWithin cd utc t g = (truncate cd utc t == g) := by
  rcases h with h | h | h <;> simp [isWithin, truncate, h]

theorem aggLoop_eq_runsAux (cd : CandleDuration) (h : Intraday cd) :
    ∀ (bs : List Bar) (gk : Int) (first : Bar) (rev : List Bar),
      aggLoop cd gk first rev bs = runsAux (winKey cd) gk first rev bs := by
  intro bs
  induction bs with
  | nil => intro gk first rev; rfl
  | cons b bs ih =>
    intro gk first rev
    simp only [aggLoop, runsAux, isWithin_intraday cd h, winKey]
    by_cases hc : (truncate cd utc (b.t * nsPerSec) == gk) = true
    · simp only [hc, if_true]; exact ih _ _ _
    · simp only [hc, if_false, Bool.false_eq_true]; rw [ih]

theorem groups_eq_runs (cd : CandleDuration) (h : Intraday cd) (cs : CS) :
    groups cd cs = runs (winKey cd) cs := by
  cases cs with
  | nil => rfl
  | cons b bs => exact aggLoop_eq_runsAux cd h bs _ _ _

theorem runsAux_span (key : Bar → Int) : ∀ (bs : List Bar) (gk : Int) (first : Bar) (rev : List Bar),
    runsAux key gk first rev bs =
      (gk, first, rev.reverse ++ bs.takeWhile (fun b => key b == gk)) ::
        runs key (bs.dropWhile (fun b => key b == gk)) := by
  intro bs
  induction bs with
  | nil =>
    intro gk first rev
    simp only [runsAux, List.takeWhile_nil, List.dropWhile_nil, runs, List.append_nil]
  | cons b bs ih =>
    intro gk first rev
    simp only [runsAux, List.takeWhile_cons, List.dropWhile_cons]
    by_cases h : (key b == gk) = true
    · simp only [h, if_true]
      rw [ih]
      simp only [List.reverse_cons, List.append_assoc, List.singleton_append]
    · simp only [h, if_false, Bool.false_eq_true, runs, List.append_nil]

theorem runs_cons (key : Bar → Int) (b : Bar) (bs : List Bar) :
    runs key (b :: bs) =
      (key b, b, bs.takeWhile (fun x => key x == key b)) ::
        runs key (bs.dropWhile (fun x => key x == key b)) := by
  show runsAux key (key b) b [] bs = _
  rw [runsAux_span]
  simp only [List.reverse_nil, List.nil_append]

/-! ## grouping by key of a key-sorted series -/

theorem ne_of_gt_chain (key : Bar → Int) (k : Int) (x : Bar) (xs : List Bar) (hx : k ≤ key x)
    (hne : ¬ (key x == k) = true) (hle : ∀ y ∈ xs, key x ≤ key y) : ∀ y ∈ xs, ¬ (key y == k) = true := by
  intro y hy
  have := hle y hy
  simp only [beq_iff_eq] at hne ⊢
  omega

theorem filter_eq_takeWhile (key : Bar → Int) (k : Int) : ∀ (bs : List Bar),
    (∀ x ∈ bs, k ≤ key x) → bs.Pairwise (fun a c => key a ≤ key c) →
    bs.filter (fun x => key x == k) = bs.takeWhile (fun x => key x == k) := by
  intro bs
  induction bs with
  | nil => intros; rfl
  | cons x xs ih =>
    intro hk hs
    rw [List.pairwise_cons] at hs
    by_cases h : (key x == k) = true
    · simp only [List.filter_cons, List.takeWhile_cons, h, if_true]
      rw [ih (fun y hy => hk y (List.mem_cons_of_mem _ hy)) hs.2]
    · have hall := ne_of_gt_chain key k x xs (hk x (by simp)) h hs.1
      simp only [List.filter_cons, List.takeWhile_cons, h, if_false, Bool.false_eq_true]
      exact List.filter_eq_nil_iff.mpr hall

theorem mapfilter_eq_dropWhile (key : Bar → Int) (k : Int) : ∀ (bs : List Bar),
    (∀ x ∈ bs, k ≤ key x) → bs.Pairwise (fun a c => key a ≤ key c) →
    (bs.map key).filter (fun w => !w == k) = (bs.dropWhile (fun x => key x == k)).map key := by
  intro bs
  induction bs with
  | nil => intros; rfl
  | cons x xs ih =>
    intro hk hs
    rw [List.pairwise_cons] at hs
    by_cases h : (key x == k) = true
    · simp only [List.map_cons, List.filter_cons, List.dropWhile_cons, h, Bool.not_true, if_true,
        Bool.false_eq_true, if_false]
      exact ih (fun y hy => hk y (List.mem_cons_of_mem _ hy)) hs.2
    · have hall := ne_of_gt_chain key k x xs (hk x (by simp)) h hs.1
      simp only [List.dropWhile_cons, h, if_false, Bool.false_eq_true]
      apply List.filter_eq_self.mpr
      intro w hw
      simp only [List.map_cons, List.mem_cons, List.mem_map] at hw
      rcases hw with rfl | ⟨y, hy, rfl⟩
      · simpa using h
      · simpa using hall y hy

theorem dropWhile_ne (key : Bar → Int) (k : Int) : ∀ (bs : List Bar),
    (∀ x ∈ bs, k ≤ key x) → bs.Pairwise (fun a c => key a ≤ key c) →
    ∀ y ∈ bs.dropWhile (fun x => key x == k), ¬ (key y == k) = true := by
  intro bs
  induction bs with
  | nil => intro _ _ y hy; simp at hy
  | cons x xs ih =>
    intro hk hs
    rw [List.pairwise_cons] at hs
    by_cases h : (key x == k) = true
    · simp only [List.dropWhile_cons, h, if_true]
      exact ih (fun y hy => hk y (List.mem_cons_of_mem _ hy)) hs.2
    · have hall := ne_of_gt_chain key k x xs (hk x (by simp)) h hs.1
      simp only [List.dropWhile_cons, h, if_false, Bool.false_eq_true]
      intro y hy
      rcases List.mem_cons.mp hy with rfl | hy
      · exact h
      · exact hall y hy

theorem filter_dropWhile (key : Bar → Int) (k w : Int) (hw : w ≠ k) : ∀ (bs : List Bar),
    bs.filter (fun x => key x == w) = (bs.dropWhile (fun x => key x == k)).filter (fun x => key x == w) := by
  intro bs
  induction bs with
  | nil => rfl
  | cons x xs ih =>
    by_cases h : (key x == k) = true
    · have hxw : ¬ (key x == w) = true := by
        simp only [beq_iff_eq] at h ⊢
        omega
      simp only [List.filter_cons, List.dropWhile_cons, h, hxw, if_true, if_false, Bool.false_eq_true]
      exact ih
    · simp only [List.dropWhile_cons, h, if_false, Bool.false_eq_true]

theorem filterMap_congr' {α β : Type} (f g : α → Option β) : ∀ (l : List α), (∀ a ∈ l, f a = g a) →
    l.filterMap f = l.filterMap g := by
  intro l
  induction l with
  | nil => intro _; rfl
  | cons a l ih =>
    intro h
    simp only [List.filterMap_cons, h a (by simp)]
    rw [ih (fun b hb => h b (List.mem_cons_of_mem _ hb))]

theorem specGroups_cons (key : Bar → Int) (b : Bar) (bs : List Bar) (hle : ∀ x ∈ bs, key b ≤ key x)
    (hs : bs.Pairwise (fun a c => key a ≤ key c)) :
    specGroups key (b :: bs) =
      (key b, b, bs.takeWhile (fun x => key x == key b)) ::
        specGroups key (bs.dropWhile (fun x => key x == key b)) := by
  simp only [specGroups, List.map_cons, List.eraseDups_cons, List.filterMap_cons]
  have hhead : (b :: bs).filter (fun x => key x == key b) = b :: bs.takeWhile (fun x => key x == key b) := by
    simp only [List.filter_cons, beq_self_eq_true, if_true]
    rw [filter_eq_takeWhile key (key b) bs hle hs]
  rw [hhead, mapfilter_eq_dropWhile key (key b) bs hle hs]
  simp only [List.cons.injEq, true_and]
  apply filterMap_congr'
  intro w hw
  rw [List.mem_eraseDups, List.mem_map] at hw
  obtain ⟨y, hy, rfl⟩ := hw
  have hne : key y ≠ key b := by
    have := dropWhile_ne key (key b) bs hle hs y hy
    simpa using this
  have hb : ¬ (key b == key y) = true := by
    simp only [beq_iff_eq]
    omega
  simp only [List.filter_cons, hb, if_false, Bool.false_eq_true]
  rw [filter_dropWhile key (key b) (key y) hne bs]

/-- **grouping lemma**: on a series whose window keys never decrease, cutting at every key change
    (what the loop does) is grouping by key (what the property speaks about) -/
theorem runs_eq_specGroups (key : Bar → Int) : ∀ (n : Nat) (cs : CS), cs.length ≤ n →
    cs.Pairwise (fun a c => key a ≤ key c) → runs key cs = specGroups key cs := by
  intro n
  induction n with
  | zero =>
    intro cs hn _
    have : cs = [] := List.eq_nil_of_length_eq_zero (by omega)
    subst this
    rfl
  | succ n ih =>
    intro cs hn hs
    cases cs with
    | nil => rfl
    | cons b bs =>
      rw [List.pairwise_cons] at hs
      rw [runs_cons, specGroups_cons key b bs hs.1 hs.2]
      congr 1
      apply ih
      · have := (List.dropWhile_sublist (fun x => key x == key b) (l := bs)).length_le
        simp only [List.length_cons] at hn
        omega
      · exact hs.2.sublist (List.dropWhile_sublist _)

/-! ## `Time.Truncate` is monotone -/

theorem goTruncate_mono (d : Int) {a b : Int} (h : a ≤ b) : goTruncate a d ≤ goTruncate b d := by
  unfold goTruncate
  by_cases hd : d ≤ 0
  · simp [hd, h]
  · simp only [hd, if_false]
    have hpos : 0 < d := by omega
    rw [Int.emod_def, Int.emod_def]
    have h1 : (a - goZero) / d ≤ (b - goZero) / d := Int.ediv_le_ediv hpos (by omega)
    have h2 : d * ((a - goZero) / d) ≤ d * ((b - goZero) / d) := Int.mul_le_mul_of_nonneg_left h1 (by omega)
    omega

theorem winKey_mono (cd : CandleDuration) (h : Intraday cd) {a b : Bar} (hab : a.t ≤ b.t) :
    winKey cd a ≤ winKey cd b := by
  have hns : a.t * nsPerSec ≤ b.t * nsPerSec := by
    have : (0 : Int) ≤ nsPerSec := by decide
    exact Int.mul_le_mul_of_nonneg_right hab this
  rcases h with h | h | h <;> simp only [winKey, truncate, h] <;> exact goTruncate_mono _ hns

/-! ## `SumInt32` on non-negative volumes -/

theorem wrap32_id (x : Int) (h0 : -2147483648 ≤ x) (h1 : x ≤ 2147483647) : wrap32 x = x := by
  unfold wrap32; omega

theorem sumI32_some (vs : List Int) : ∀ (s r : Int), 0 ≤ s → s ≤ 2147483647 →
    (∀ v ∈ vs, 0 ≤ v ∧ v ≤ 2147483647) → sumI32 s vs = some r → r = vs.foldl (· + ·) s := by
  induction vs with
  | nil => intro s r _ _ _ h; simp [sumI32] at h; simp [h]
  | cons v vs ih =>
    intro s r hs0 hs1 hv h
    have hv0 := hv v (by simp)
    have e1 : wrap32 (2147483647 - v) = 2147483647 - v := wrap32_id _ (by omega) (by omega)
    simp only [sumI32, e1] at h
    by_cases hgt : s > 2147483647 - v
    · simp [hgt] at h
    · simp only [hgt, if_false] at h
      have e2 : wrap32 (s + v) = s + v := wrap32_id _ (by omega) (by omega)
      rw [e2] at h
      simp only [List.foldl_cons]
      exact ih (s + v) r (by omega) (by omega) (fun x hx => hv x (List.mem_cons_of_mem _ hx)) h

theorem foldl_add_mono (l : List Int) : ∀ (x : Int), (∀ y ∈ l, 0 ≤ y) → x ≤ l.foldl (· + ·) x := by
  induction l with
  | nil => intro x _; simp
  | cons y l ihl =>
    intro x hy
    simp only [List.foldl_cons]
    have := ihl (x + y) (fun z hz => hy z (List.mem_cons_of_mem _ hz))
    have := hy y (by simp)
    omega

theorem sumI32_complete (vs : List Int) : ∀ (s : Int), 0 ≤ s → (∀ v ∈ vs, 0 ≤ v) →
    vs.foldl (· + ·) s ≤ 2147483647 → sumI32 s vs = some (vs.foldl (· + ·) s) := by
  induction vs with
  | nil => intro s _ _ _; rfl
  | cons v vs ih =>
    intro s hs0 hv hb
    have hv0 : 0 ≤ v := hv v (by simp)
    simp only [List.foldl_cons] at hb
    have hsv : s + v ≤ 2147483647 := by
      have := foldl_add_mono vs (s + v) (fun z hz => hv z (List.mem_cons_of_mem _ hz))
      omega
    have e1 : wrap32 (2147483647 - v) = 2147483647 - v := wrap32_id _ (by omega) (by omega)
    have e2 : wrap32 (s + v) = s + v := wrap32_id _ (by omega) (by omega)
    have hn : ¬ s > 2147483647 - v := by omega
    simp only [sumI32, e1, e2, hn, if_false, List.foldl_cons]
    exact ih (s + v) (by omega) (fun z hz => hv z (List.mem_cons_of_mem _ hz)) hb

/-! ## `MaxFloat32` / `MinFloat32` -/

/-- for numbers (no NaN) the result of `MaxFloat32` is an element and no element is greater -/
theorem maxF_spec (rest : List Nat) : ∀ (x : Nat), Mkts.Float.isNaN f32 x = false →
    (∀ v ∈ rest, Mkts.Float.isNaN f32 v = false) →
    maxF x rest ∈ x :: rest ∧ Mkts.Float.isNaN f32 (maxF x rest) = false ∧
    ∀ v ∈ x :: rest, Mkts.Float.key f32 v ≤ Mkts.Float.key f32 (maxF x rest) := by
  induction rest with
  | nil => intro x hx _; simp [maxF, hx]
  | cons y ys ih =>
    intro x hx hr
    have hy : Mkts.Float.isNaN f32 y = false := hr y (by simp)
    have hys : ∀ v ∈ ys, Mkts.Float.isNaN f32 v = false := fun v hv => hr v (List.mem_cons_of_mem _ hv)
    simp only [maxF, List.foldl_cons]
    by_cases hgt : Mkts.Float.gt f32 y x = true
    · simp only [hgt, if_true]
      obtain ⟨h1, h2, h3⟩ := ih y hy hys
      simp only [maxF] at h1 h2 h3
      refine ⟨?_, h2, ?_⟩
      · rcases List.mem_cons.mp h1 with h | h
        · rw [h]; simp
        · exact List.mem_cons_of_mem _ (List.mem_cons_of_mem _ h)
      · intro v hv
        rcases List.mem_cons.mp hv with rfl | hv
        · have hxy : Mkts.Float.key f32 v < Mkts.Float.key f32 y := by
            simp only [Mkts.Float.gt, Mkts.Float.lt, hx, hy, Bool.not_false, Bool.true_and, decide_eq_true_eq] at hgt
            exact hgt
          have := h3 y (by simp)
          omega
        · exact h3 v hv
    · simp only [hgt, if_false, Bool.false_eq_true]
      obtain ⟨h1, h2, h3⟩ := ih x hx hys
      simp only [maxF] at h1 h2 h3
      refine ⟨?_, h2, ?_⟩
      · rcases List.mem_cons.mp h1 with h | h
        · rw [h]; simp
        · exact List.mem_cons_of_mem _ (List.mem_cons_of_mem _ h)
      · intro v hv
        rcases List.mem_cons.mp hv with rfl | hv
        · exact h3 v (by simp)
        · rcases List.mem_cons.mp hv with rfl | hv
          · have hyx : Mkts.Float.key f32 v ≤ Mkts.Float.key f32 x := by
              simp only [Mkts.Float.gt, Mkts.Float.lt, hx, hy, Bool.not_false, Bool.true_and,
                decide_eq_true_eq] at hgt
              omega
            have := h3 x (by simp)
            omega
          · exact h3 v (List.mem_cons_of_mem _ hv)

end Mkts.OnDiskAgg
