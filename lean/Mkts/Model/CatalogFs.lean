/-!
# Year-file creation on disk (catalog/catalog.go: newTimeBucketInfoFromTemplate, load)

After the repair `fix: create year files atomically`, a year file is built under
`<year>.bin.tmp` (create, write the 37024-byte header, truncate to the full size) and renamed to
`<year>.bin`.  The catalog loader registers every `*.bin` of a bucket directory and later reads
its header (a short or missing header is a fatal error that stops the server).
One effect = one system call; a crash is a prefix.
-/
namespace Mkts.CatalogFs

inductive Effect where
  | createTmp (f : Nat)      -- open(<f>.bin.tmp, O_CREAT|O_TRUNC)
  | writeHeader (f : Nat)    -- write of the header to the tmp file
  | truncateFull (f : Nat)   -- ftruncate of the tmp file to FileSize
  | rename (f : Nat)         -- rename(<f>.bin.tmp, <f>.bin)
deriving Repr, DecidableEq

structure File where
  hasHeader : Bool := false
  fullSize : Bool := false
deriving Repr, DecidableEq

structure Fs where
  tmp : List (Nat × File) := []    -- *.bin.tmp (ignored by the loader)
  bin : List (Nat × File) := []    -- *.bin (registered by the loader)
deriving Repr

def upd (l : List (Nat × File)) (f : Nat) (g : File → File) : List (Nat × File) :=
  l.map (fun p => if p.1 = f then (p.1, g p.2) else p)

def exec (s : Fs) : Effect → Fs
  | .createTmp f => { s with tmp := (f, {}) :: s.tmp.filter (·.1 ≠ f) }
  | .writeHeader f => { s with tmp := upd s.tmp f (fun x => { x with hasHeader := true }) }
  | .truncateFull f => { s with tmp := upd s.tmp f (fun x => { x with fullSize := true }) }
  | .rename f =>
    match s.tmp.find? (·.1 = f) with
    | some p => { tmp := s.tmp.filter (·.1 ≠ f), bin := p :: s.bin.filter (·.1 ≠ f) }
    | none => s

def run (s : Fs) (es : List Effect) : Fs := es.foldl exec s

/-- system calls of `newTimeBucketInfoFromTemplate` for year file `f` -/
def createYearFile (f : Nat) : List Effect := [.createTmp f, .writeHeader f, .truncateFull f, .rename f]

/-- what startup needs of the directory: every registered year file is complete -/
def Loadable (s : Fs) : Prop := ∀ p ∈ s.bin, p.2.hasHeader = true ∧ p.2.fullSize = true

end Mkts.CatalogFs
