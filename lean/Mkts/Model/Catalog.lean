import Mkts.Model.Timeframe
/-!
# Catalog tree vs. directory tree (mirrors `catalog/catalog.go`, `frontend/write.go` Create/Destroy,
`executor/writer.go` WriteCSM/WriteRecords as far as they touch the catalog)

Abstract file system: a directory tree is an association list `path ↦ Rec` where a path is the list
of item names below the data root (`[]` = the root), `Rec.cat` is the content of the directory's
`category_name` file (`none` = no such file) and `Rec.files` are the `<year>.bin` files in it, each
with the schema id stored in its header.  The in-memory catalog (`Directory` tree: `subDirs`,
`datafile`, `category`) has the same shape (`tree`); the root's `directMap` is represented by
"the leaf of `tree` at that path if it carries files" plus `stale`: Directory objects that are still
in the `directMap` although they are no longer reachable through `subDirs`.

One definition per Go function, quirks included.  Three statements were repaired in the code
(fix commits "Destroy of a symbol or timeframe forgets the buckets below it", "AddTimeBucket checks
the key before it creates directories", "catalog structure changes under the root are
serialized"); the model carries a `Variant` read off the regenerated skeletons, so both the repaired
and the former behaviour are definitions here and the one in force is the one in the source.
* `AddTimeBucket` (repaired: after a read-only pass over the key's directory chain that rejects
  unequal item/category counts and non-matching `category_name`s) creates each sub-directory, then
  writes/compares the parent's `category_name` (before the repair a mismatch was detected only here
  and left the new directory behind; `catkeySplit[i]` after the mkdir gave an index panic when there
  were fewer categories than items), refuses to overwrite an existing year file AFTER
  the directory chain was made, and finally REPLACES the whole subtree of the symbol by a fresh
  `NewDirectory` of the symbol's directory.
* `load` registers a sub-directory without `category_name` as an empty Directory (it is listed as
  an item of its parent but has no content), and forgets the year files met before a sub-directory
  of the same directory (`d.datafile = nil` in the `ReadDir` loop).
* `RemoveTimeBucket` removes the last item's directory from disk, then walks up removing every
  level whose in-memory Directory has no sub-directories left; `removeSubDir` deletes the
  `directMap` entries at or below the removed directory (before the repair only the entry of the
  removed directory itself: a key with fewer than three items left stale Directory objects
  reachable through the `directMap`).
* `AddFile` does not register the year in the catalog when the file already exists on disk.
Core Lean only.
-/
namespace Mkts.Catalog

abbrev Path := List String

/-- one directory: `category_name` content and the year files `(year, schema id)` -/
structure Rec where
  cat : Option String
  files : List (Int × Nat)
deriving DecidableEq, Repr, Inhabited

abbrev Dir := List (Path × Rec)

def emptyRec : Rec := ⟨none, []⟩

def find (p : Path) : Dir → Option Rec
  | [] => none
  | (q, r) :: rest => if q = p then some r else find p rest

/-- replace the first entry keyed `p`, or append -/
def set (p : Path) (r : Rec) : Dir → Dir
  | [] => [(p, r)]
  | (q, r') :: rest => if q = p then (p, r) :: rest else (q, r') :: set p r rest

/-- `p` is a (non-strict) prefix of `q` -/
def isPre : Path → Path → Bool
  | [], _ => true
  | _ :: _, [] => false
  | a :: p, b :: q => a = b && isPre p q

/-- `os.RemoveAll(p)` on the abstract tree; also "drop the subtree at `p`" on the catalog tree -/
def removeAll (p : Path) (d : Dir) : Dir := d.filter (fun e => !(isPre p e.1))

/-- a directory is reachable by `load` from the root iff every proper ancestor exists and has a
    `category_name` file (`load` returns `ErrCategoryFileNotFound` before descending otherwise) -/
def visibleAux (d : Dir) (p : Path) : Nat → Bool
  | 0 => true
  | k + 1 => (match find (p.take k) d with
              | some r => r.cat.isSome
              | none => false) && visibleAux d p k

def visible (d : Dir) (p : Path) : Bool := visibleAux d p p.length

/-- names of the sub-directories of `p` -/
def childNames (d : Dir) (p : Path) : List String :=
  (d.filter (fun e => e.1.length = p.length + 1 && isPre p e.1)).map (fun e => e.1.getLastD "")

/-- `load` walks `os.ReadDir` (sorted by name) and executes `d.datafile = nil` at every
    sub-directory: a year file whose name sorts before some sub-directory's name is forgotten -/
def keepFiles (d : Dir) (p : Path) (files : List (Int × Nat)) : List (Int × Nat) :=
  files.filter (fun f => (childNames d p).all (fun c => decide (c < toString f.1 ++ ".bin")))

/-- what `load` records for a directory: nothing but its name when `category_name` is missing -/
def norm (d : Dir) (p : Path) (r : Rec) : Rec :=
  if r.cat.isSome then { r with files := keepFiles d p r.files } else emptyRec

/-- `NewDirectory(root)`: the catalog tree that a (re)start builds from the directory tree -/
def load (d : Dir) : Dir :=
  d.filterMap (fun e => if visible d e.1 then some (e.1, norm d e.1 e.2) else none)

/-! ## state -/

structure St where
  tree : Dir      -- catalog: Directory objects reachable through `subDirs`
  stale : Dir     -- Directory objects only reachable through the root's `directMap`
  disk : Dir
deriving DecidableEq, Repr

def initDisk : Dir := [([], emptyRec)]
def St.init : St := ⟨load initDisk, [], initDisk⟩

/-- restart: a new process builds the catalog from the directory -/
def restart (s : St) : St := ⟨load s.disk, [], s.disk⟩

/-- `directMap.Load(path)` -/
def dlookup (s : St) (p : Path) : Option Rec :=
  match find p s.stale with
  | some r => some r
  | none =>
    match find p s.tree with
    | some r => if r.files.isEmpty then none else some r
    | none => none

inductive Res
  | ok | exists_ | catMismatch | noKey | notInCatalog | colMismatch | timeframe | panicIndex | other | keyLen
deriving DecidableEq, Repr

/-- Which variant of three statements the source implements (read off the regenerated skeletons
    in `Mkts.CatalogTie`, so that the model follows the code if a repair is reverted):
    * `deepDelete`: `removeSubDir` deletes every `directMap` entry at or below the removed directory
      (before the repair: only the entry of the removed directory itself);
    * `checkFirst`: `AddTimeBucket` compares item/category counts and the on-disk category names
      BEFORE it creates anything (before the repair: mkdir first, check after);
    * `serialised`: `AddTimeBucket`, `RemoveTimeBucket`, `GetSubDirectoryAndAddFile` hold the root's
      `mutMu` for their whole body (concurrent model only). -/
structure Variant where
  deepDelete : Bool
  checkFirst : Bool
  serialised : Bool
deriving DecidableEq, Repr

def Variant.repaired : Variant := ⟨true, true, true⟩
def Variant.original : Variant := ⟨false, false, false⟩

def Res.str : Res → String
  | .ok => "ok" | .exists_ => "err:exists" | .catMismatch => "err:catmismatch" | .noKey => "err:nokey"
  | .notInCatalog => "err:notincatalog" | .colMismatch => "err:colmismatch" | .timeframe => "err:timeframe"
  | .panicIndex => "panic:index" | .other => "err:other" | .keyLen => "err:keylen"

/-! ## `AddTimeBucket` -/

/-- `writeCategoryNameFile(catName, dir)`: `none` = "category name does not match on-disk name" -/
def writeCategoryNameFile (catName : String) (p : Path) (d : Dir) : Option Dir :=
  match find p d with
  | none => none
  | some r =>
    match r.cat with
    | some c => if c = catName then some d else none
    | none => some (set p { r with cat := some catName } d)

/-- `os.Mkdir` unless the path exists -/
def mkdirIfMissing (p : Path) (d : Dir) : Dir :=
  if (find p d).isSome then d else set p emptyRec d

/-- the directory loop of `AddTimeBucket` (disk effects only); the disk is returned also on error -/
def atbLoop (pre : Path) : List String → List String → Dir → Dir × Option Res
  | [], _, d => (d, none)
  | item :: items, cats, d =>
    let d1 := mkdirIfMissing (pre ++ [item]) d
    match cats with
    | [] => (d1, some .panicIndex)
    | c :: cs =>
      match writeCategoryNameFile c pre d1 with
      | none => (d1, some .catMismatch)
      | some d2 => atbLoop (pre ++ [item]) items cs d2

def hasFile (y : Int) (r : Rec) : Bool := r.files.any (fun f => f.1 = y)

/-- `newTimeBucketInfoFromTemplate`: create `<year>.bin` with the given schema in directory `p` -/
def createFile (p : Path) (y : Int) (schema : Nat) (d : Dir) : Option Dir :=
  match find p d with
  | none => none
  | some r => if hasFile y r then none else some (set p { r with files := r.files ++ [(y, schema)] } d)

/-- subtree of a loaded tree below the symbol directory `[s]` -/
def subtree (s : String) (t : Dir) : Dir := t.filter (fun e => isPre [s] e.1)

/-- `addSubdir(NewDirectory(root/s), s)`: replace the symbol's subtree, store every leaf that has
    files into the root's `directMap` (overwriting stale objects under the same path) -/
def reloadSymbol (s : String) (c0 : String) (st : St) (disk' : Dir) : St :=
  let sub := subtree s (load disk')
  let rootRec := match find [] st.tree with
    | some r => if r.cat.isSome then r else { r with cat := some c0 }
    | none => ⟨some c0, []⟩
  { tree := set [] rootRec (removeAll [s] st.tree) ++ sub
    stale := st.stale.filter (fun e => !(sub.any (fun f => f.1 = e.1 && !f.2.files.isEmpty)))
    disk := disk' }

/-- `checkCategoryNameFile(catName, dir)`: a missing directory or file is fine -/
def checkCategoryNameFile (catName : String) (p : Path) (d : Dir) : Bool :=
  match find p d with
  | none => true
  | some r => match r.cat with
    | none => true
    | some c => c = catName

/-- the read-only pass of the repaired `AddTimeBucket` over the key's directory chain
    (`none` = accepted) -/
def validateKey (pre : Path) : List String → List String → Dir → Option Res
  | [], _, d => if checkCategoryNameFile "Year" pre d then none else some .catMismatch
  | _ :: _, [], _ => some .panicIndex
  | item :: items, c :: cs, d =>
    if checkCategoryNameFile c pre d then validateKey (pre ++ [item]) items cs d else some .catMismatch

/-- `AddTimeBucket` from the directory loop on (the whole function before the repair) -/
def addTimeBucketBody (items cats : List String) (year : Int) (schema : Nat) (st : St) : St × Res :=
  match atbLoop [] items cats st.disk with
  | (d1, some e) => ({ st with disk := d1 }, e)
  | (d1, none) =>
    match writeCategoryNameFile "Year" items d1 with
    | none => ({ st with disk := d1 }, .catMismatch)
    | some d2 =>
      match createFile items year schema d2 with
      | none => ({ st with disk := d2 }, .exists_)
      | some d3 =>
        match items, cats with
        | s :: _, c0 :: _ => (reloadSymbol s c0 st d3, .ok)
        | _, _ => ({ st with disk := d3 }, .panicIndex)

/-- `(*Directory).AddTimeBucket(tbk, f)` on the root -/
def addTimeBucket (v : Variant) (items cats : List String) (year : Int) (schema : Nat) (st : St) : St × Res :=
  if v.checkFirst then
    if cats.length ≠ items.length then (st, .keyLen) else
    match validateKey [] items cats st.disk with
    | some e => (st, e)
    | none => addTimeBucketBody items cats year schema st
  else addTimeBucketBody items cats year schema st

/-! ## `frontend.Create` -/

def validTF (s : String) : Bool := (Mkts.Timeframe.timeframeFromString s.toList).isSome

/-- `tbk.GetItemInCategory("Timeframe")`: `none` = index panic (`GetItems()[i]` out of range) -/
def itemInCategory (name : String) : List String → List String → Option String
  | [], _ => some ""
  | c :: cs, items =>
    if c = name then (match items with | [] => none | i :: _ => some i)
    else itemInCategory name cs items.tail

/-- `tbk.GetTimeFrame()` -/
def getTimeFrame (items cats : List String) : Res :=
  match itemInCategory "Timeframe" cats items with
  | none => .panicIndex
  | some tfs => if tfs = "" then .timeframe else if validTF tfs then .ok else .timeframe

def create (v : Variant) (items cats : List String) (nowYear : Int) (schema : Nat) (st : St) : St × Res :=
  match getTimeFrame items cats with
  | .ok => addTimeBucket v items cats nowYear schema st
  | e => (st, e)

/-! ## `RemoveTimeBucket` / `frontend.Destroy` -/

/-- `DirHasSubDirs` -/
def hasSubDirs (p : Path) (t : Dir) : Bool :=
  t.any (fun e => e.1.length = p.length + 1 && isPre p e.1)

/-- `parent.removeSubDir(name, directMap)`: `delete(parent.subDirs, name)` and
    * `deep` (repaired): `directMap.Range` deleting every key at or below the child's path;
    * before the repair: `directMap.Delete(path of the child)` only — Directory objects deeper in the
      dropped subtree that are in the `directMap` stay there (stale) -/
def removeSubDir (deep : Bool) (p : Path) (st : St) : St :=
  if deep then
    { st with tree := removeAll p st.tree, stale := st.stale.filter (fun e => !(isPre p e.1)) }
  else
  let dropped := st.tree.filter (fun e => isPre p e.1 && e.1 != p && !e.2.files.isEmpty
                                          && (find e.1 st.stale).isNone)
  { st with tree := removeAll p st.tree, stale := st.stale.filter (fun e => e.1 != p) ++ dropped }

/-- `removeDirFiles(dir)` -/
def removeDirFiles (p : Path) (st : St) : St := { st with disk := removeAll p st.disk }

/-- the bottom-up loop of `RemoveTimeBucket` for levels `k-1 … 0`; `del` = `deleteMap[k]`;
    returns `deleteMap[0]` -/
def rtbLoop (deep : Bool) (items : Path) : Nat → Bool → St → St × Bool
  | 0, del, s => (s, del)
  | k + 1, del, s =>
    let p := items.take (k + 1)
    let r1 : St × Bool :=
      if k + 1 = items.length then (removeDirFiles p s, true)
      else if del then (removeSubDir deep (items.take (k + 2)) s, false)
      else (s, false)
    let r2 : St × Bool :=
      if hasSubDirs p r1.1.tree then r1 else (removeDirFiles p r1.1, true)
    rtbLoop deep items k r2.2 r2.1

/-- the descent of `RemoveTimeBucket`: every level must be found in the parent's `subDirs` -/
def walkOK (t : Dir) (items : Path) : Nat → Bool
  | 0 => true
  | k + 1 => (find (items.take (k + 1)) t).isSome && walkOK t items k

def removeTimeBucket (deep : Bool) (items : Path) (st : St) : St × Res :=
  if items.isEmpty then (st, .other) else
  if !(walkOK st.tree items items.length) then (st, .noKey) else
  let r := rtbLoop deep items items.length false st
  if r.2 then (removeSubDir deep (items.take 1) (removeDirFiles (items.take 1) r.1), .ok)
  else (r.1, .ok)

/-! ## `AddFile`, `WriteRecords`, `WriteCSM` -/

/-- `GetLatestYearFile` -/
def latest : List (Int × Nat) → Option (Int × Nat)
  | [] => none
  | f :: fs => match latest fs with
    | none => some f
    | some g => if g.1 > f.1 then some g else some f

/-- write a Directory object back where the `directMap` found it -/
def dstore (p : Path) (r : Rec) (st : St) : St :=
  if (find p st.stale).isSome then { st with stale := set p r st.stale }
  else { st with tree := set p r st.tree }

/-- `GetSubDirectoryAndAddFile(path, year)` → `AddFile(year)` -/
def addFile (p : Path) (y : Int) (st : St) : St × Res :=
  match dlookup st p with
  | none => (st, .notInCatalog)
  | some r =>
    match r.files with
    | [] => (st, .other)
    | tmpl :: _ =>
      match createFile p y tmpl.2 st.disk with
      | none =>
        -- FileAlreadyExists (not registered) or the directory is gone (error)
        if (find p st.disk).isSome then (st, .ok) else (st, .other)
      | some d' => (dstore p { r with files := r.files ++ [(y, tmpl.2)] } { st with disk := d' }, .ok)

/-- the year loop of `WriteRecords`: a record whose year differs from the current file's adds
    (or finds) that year's file -/
def writeYears (p : Path) : Int → List Int → St → St × Res
  | _, [], st => (st, .ok)
  | cur, y :: ys, st =>
    if y = cur then writeYears p cur ys st
    else match addFile p y st with
      | (st', .ok) => writeYears p y ys st'
      | (st', e) => (st', e)

def defaultCats : List String := ["Symbol", "Timeframe", "AttributeGroup"]

/-- `WriteCSM` for one bucket: years of the records in request order, schema id of the request -/
def write (v : Variant) (items : Path) (schema : Nat) (years : List Int) (st : St) : St × Res :=
  match getTimeFrame items defaultCats with
  | .ok =>
    match (dlookup st items).bind (fun r => latest r.files) with
    | some (ly, ls) =>
      if ls ≠ schema then (st, .colMismatch) else writeYears items ly years st
    | none =>
      match years with
      | [] => (st, .ok)
      | y0 :: _ =>
        match addTimeBucket v items defaultCats y0 schema st with
        | (st', .ok) => writeYears items y0 years st'
        | (st', .exists_) => writeYears items y0 years st'
        | (st', .panicIndex) => (st', .panicIndex)
        | (st', _) => (st', .notInCatalog)
  | e => (st, e)

/-! ## operations and histories -/

inductive Op
  | create (items cats : List String) (schema : Nat)
  | write (items : List String) (schema : Nat) (years : List Int)
  | destroy (items : List String)
  | restart
deriving DecidableEq, Repr

def step (v : Variant) (nowYear : Int) (st : St) : Op → St × Res
  | .create items cats schema => create v items cats nowYear schema st
  | .write items schema years => write v items schema years st
  | .destroy items => removeTimeBucket v.deepDelete items st
  | .restart => (restart st, .ok)

def run (v : Variant) (nowYear : Int) : St → List Op → St
  | st, [] => st
  | st, op :: ops => run v nowYear (step v nowYear st op).1 ops

/-- results of a history -/
def results (v : Variant) (nowYear : Int) : St → List Op → List Res
  | _, [] => []
  | st, op :: ops => (step v nowYear st op).2 :: results v nowYear (step v nowYear st op).1 ops

/-! ## observations -/

/-- the `(bucket path, year)` pairs a tree holds -/
def yearsOf (d : Dir) : List (Path × Int) :=
  d.flatMap (fun e => e.2.files.map (fun f => (e.1, f.1)))

/-- `GetInfo`: latest year and schema of the bucket the `directMap` resolves -/
def info (st : St) (p : Path) : Option (Int × Nat) := (dlookup st p).bind (fun r => latest r.files)

end Mkts.Catalog
