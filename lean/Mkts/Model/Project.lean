import Mkts.Model.Bytes
import Mkts.Extracted.Skeletons
/-!
Column projection on opaque row payloads (`ColumnSeriesMap.FilterColumns` → `ColumnSeries.Project`):
a payload is the concatenation of the value columns in schema order; projecting to a list of
wanted names returns, in the REQUESTED order, the bytes of every wanted name that is a column
(unknown names are dropped, a name requested twice is returned twice).  Core Lean only.
-/
namespace Mkts.Project
open Mkts.Bytes

/-- schema: (column name, size in bytes) in on-disk order -/
abbrev Schema := List (String × Nat)

/-- byte offset and size of a column -/
def locate : Schema → String → Nat → Option (Nat × Nat)
  | [], _, _ => none
  | (n, sz) :: rest, w, off => if n = w then some (off, sz) else locate rest w (off + sz)

def projectPayload (cols : Schema) (want : List String) (payload : Bytes) : Bytes :=
  (want.map (fun w => match locate cols w 0 with
    | some (off, sz) => (payload.drop off).take sz
    | none => [])).flatten

/-- names actually returned -/
def projectNames (cols : Schema) (want : List String) : List String :=
  want.filter (fun w => (locate cols w 0).isSome)

/-- does `RestrictionList.AddRestriction` of the CURRENT source treat the list as a set (skip an
    item that is already listed)?  Read off the regenerated skeleton.  Without it a symbol listed
    m times has its year files scanned m times (finding C13-F30, repaired). -/
def restrictionIsSet : Bool :=
  Mkts.Extracted.Skel.planner_RestrictionList_AddRestriction ==
    ["range:r[category]{", "if:have == item{", "return", "}", "}", "setidx:r"]

end Mkts.Project
