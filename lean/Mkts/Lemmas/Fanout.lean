import Mkts.Model.Fanout
/-! Inductive invariant of the fan-out transition system (C26) and its preservation by every step. -/
namespace Mkts.Fanout

def busyTg : Sender → Option Nat
  | .idle => none
  | .iter tg _ => some tg
  | .holding tg _ _ => some tg

/-- what must hold of a live stream `x` registered under `rid` when the fan-out frontier for it is `u` -/
def StreamOk (x : Stream) (u : Nat) : Prop :=
  x.inMap = true ∧ x.closed = false ∧ ∃ a, a ≤ x.openedAt ∧ a ≤ u ∧ x.seq = List.range' a (u - a)

structure Inv (s : St) : Prop where
  next_le : s.next ≤ s.n
  queue_eq : s.queue = List.range' s.next (s.n - s.next)
  busy : ∀ tg, busyTg s.sender = some tg → tg + 1 = s.next
  hold_fresh : ∀ tg rid vis, s.sender = .holding tg rid vis → vis.contains rid = false
  hold_exists : ∀ tg rid vis, s.sender = .holding tg rid vis → (s.streams rid).isSome = true
  /-- the sender only panics on the channel of a replica that has been disconnected -/
  panic_dead : s.panicked = true → ∃ rid x, s.streams rid = some x ∧ x.alive = false
  known : ∀ rid x, s.streams rid = some x → rid ∈ s.rids
  live_ok : ∀ rid x, s.streams rid = some x → x.live = true → StreamOk x (upTo s rid)
  /-- a connected replica's goroutine is in its loop and its channel is open -/
  alive_live : ∀ rid x, s.streams rid = some x → x.alive = true → x.live = true
  closed_dead : ∀ rid x, s.streams rid = some x → x.closed = true → x.live = false

theorem inv_init : Inv init := by
  refine ⟨Nat.le_refl _, by simp [init], ?_, ?_, ?_, ?_, ?_, ?_, ?_, ?_⟩ <;> intros <;> simp_all [init, busyTg]

theorem upTo_le_n (s : St) (h : Inv s) (rid : Nat) : upTo s rid ≤ s.n := by
  have h1 := h.next_le
  have h2 := h.busy
  unfold upTo
  split
  · exact h1
  · rename_i tg vis heq
    have := h2 tg (by rw [heq]; rfl)
    split <;> omega
  · rename_i tg r vis heq
    have := h2 tg (by rw [heq]; rfl)
    split <;> omega

/-- a stream event: one stream record replaced, the replica-id list possibly extended -/
theorem inv_set (s : St) (h : Inv s) (rid : Nat) (x' : Stream) (rids' : List Nat)
    (hin : rid ∈ rids') (hsub : ∀ r, r ∈ s.rids → r ∈ rids')
    (hx : x'.live = true → StreamOk x' (upTo s rid))
    (ha : x'.alive = true → x'.live = true) (hc : x'.closed = true → x'.live = false)
    (hp : s.panicked = false) :
    Inv { (s.set rid x') with rids := rids' } := by
  refine ⟨h.next_le, h.queue_eq, h.busy, h.hold_fresh, ?_, ?_, ?_, ?_, ?_, ?_⟩
  · intro tg r vis hv
    have := h.hold_exists tg r vis hv
    simp only [St.set]
    split
    · rfl
    · exact this
  · intro hpp; simp only [St.set] at hpp; rw [hp] at hpp; cases hpp
  · intro r x hr
    simp only [St.set] at hr
    split at hr
    · subst_vars; exact hin
    · exact hsub r (h.known r x hr)
  · intro r x hr hl
    simp only [St.set] at hr
    split at hr
    · rename_i heq; subst heq; cases hr; exact hx hl
    · exact h.live_ok r x hr hl
  · intro r x hr hl
    simp only [St.set] at hr
    split at hr
    · cases hr; exact ha hl
    · exact h.alive_live r x hr hl
  · intro r x hr hl
    simp only [St.set] at hr
    split at hr
    · cases hr; exact hc hl
    · exact h.closed_dead r x hr hl

theorem set_same_rids (s : St) (rid : Nat) (x : Stream) :
    ({ (s.set rid x) with rids := s.rids } : St) = s.set rid x := rfl

theorem range'_snoc (a u : Nat) (h : a ≤ u) : List.range' a (u - a) ++ [u] = List.range' a (u + 1 - a) := by
  have e : u + 1 - a = (u - a) + 1 := by omega
  rw [e, List.range'_1_concat]
  congr 2; omega

theorem allVisited_mem (s : St) (vis : List Nat) (hv : allVisited s vis = true) (rid : Nat) (x : Stream)
    (hr : s.streams rid = some x) (hin : rid ∈ s.rids) (hm : x.inMap = true) : vis.contains rid = true := by
  unfold allVisited at hv
  rw [List.all_eq_true] at hv
  have := hv rid hin
  simp only [hr, hm, Bool.not_true, Bool.false_or] at this
  exact this

theorem inv_step (c : Cfg) (s s' : St) (e : Ev) (h : Inv s) (hs : step c s e = some s') : Inv s' := by
  unfold step at hs
  split at hs
  · cases hs
  rename_i hnp
  have hp : s.panicked = false := by simpa using hnp
  have hpd : s.panicked = true → ∃ rid x, s.streams rid = some x ∧ x.alive = false := by
    intro hh; rw [hp] at hh; cases hh
  cases e with
  | «open» rid =>
    simp only at hs
    split at hs
    · cases hs
    · cases hs
      apply inv_set s h rid _ _ (by simp) (fun r hr => by simp [hr])
      · intro _
        refine ⟨rfl, rfl, upTo s rid, upTo_le_n s h rid, Nat.le_refl _, by simp [Stream.seq]⟩
      · intro _; rfl
      · intro hc; cases hc
      · exact hp
  | disconnect rid =>
    simp only at hs
    split at hs
    · rename_i x hx
      split at hs
      · cases hs
        rw [← set_same_rids]
        apply inv_set s h rid _ _ (h.known rid x hx) (fun r hr => hr)
        · intro hl
          have := h.live_ok rid x hx hl
          exact this
        · intro hc; cases hc
        · intro hc; exact h.closed_dead rid x hx hc
        · exact hp
      · cases hs
    · cases hs
  | commit =>
    simp only at hs
    split at hs
    · cases hs
      have hn := h.next_le
      refine ⟨by simp; omega, ?_, h.busy, h.hold_fresh, h.hold_exists, hpd, h.known, h.live_ok, h.alive_live,
        h.closed_dead⟩
      simp only
      rw [h.queue_eq]
      have := range'_snoc s.next s.n hn
      have e : s.next + (s.n - s.next) = s.n := by omega
      rw [← this]
    · cases hs
  | senderTake =>
    simp only at hs
    split at hs
    · rename_i tg rest hsd hq
      cases hs
      have hqe := h.queue_eq
      rw [hq] at hqe
      have hn := h.next_le
      have hlen : s.n - s.next = (s.n - s.next - 1) + 1 := by
        cases hk : s.n - s.next with
        | zero => rw [hk] at hqe; simp at hqe
        | succ k => simp
      rw [hlen, List.range'_succ] at hqe
      have htg : tg = s.next := (List.cons.inj hqe).1
      have hrest : rest = List.range' (s.next + 1) (s.n - s.next - 1) := (List.cons.inj hqe).2
      refine ⟨by simp; omega, ?_, ?_, ?_, ?_, hpd, h.known, ?_, h.alive_live, h.closed_dead⟩
      · simp only; rw [hrest]; congr 1
      · intro t ht; simp [busyTg] at ht; simp; omega
      · intro t r v hv; cases hv
      · intro t r v hv; cases hv
      · intro r x hr hl
        have := h.live_ok r x hr hl
        simp only [upTo, hsd] at this
        simp only [upTo, List.contains_nil, Bool.false_eq_true, if_false]
        rw [htg]; exact this
    · cases hs
  | senderPick rid =>
    simp only at hs
    split at hs
    · rename_i tg vis x hsd hx
      split at hs
      · rename_i hcond
        cases hs
        simp only [Bool.and_eq_true, Bool.not_eq_true'] at hcond
        refine ⟨h.next_le, h.queue_eq, ?_, ?_, ?_, hpd, h.known, ?_, h.alive_live, h.closed_dead⟩
        · intro t ht; simp [busyTg] at ht; exact h.busy t (by rw [hsd]; simp [busyTg, ht])
        · intro t r v hv; cases hv; exact hcond.2
        · intro t r v hv; cases hv; simp [hx]
        · intro r y hr hl
          have := h.live_ok r y hr hl
          simp only [upTo, hsd] at this
          simp only [upTo]; exact this
      · cases hs
    · cases hs
  | senderSend =>
    simp only at hs
    split at hs
    · rename_i tg rid vis hsd
      split at hs
      · rename_i x hx
        split at hs
        · rename_i hcl
          cases hs
          refine ⟨h.next_le, h.queue_eq, h.busy, h.hold_fresh, h.hold_exists, ?_, h.known, h.live_ok, h.alive_live,
            h.closed_dead⟩
          intro _
          refine ⟨rid, x, hx, ?_⟩
          have hd := h.closed_dead rid x hx hcl
          cases hal : x.alive with
          | false => rfl
          | true => have := h.alive_live rid x hx hal; rw [hd] at this; cases this
        · rename_i hncl
          split at hs
          · cases hs
            have hfresh := h.hold_fresh tg rid vis hsd
            refine ⟨h.next_le, h.queue_eq, ?_, ?_, ?_, ?_, ?_, ?_, ?_, ?_⟩
            · intro t ht; simp [busyTg] at ht; exact h.busy t (by rw [hsd]; simp [busyTg, ht])
            · intro t r v hv; cases hv
            · intro t r v hv; cases hv
            · intro hh; simp only [St.set] at hh; rw [hp] at hh; cases hh
            · intro r y hr
              simp only [St.set] at hr
              split at hr
              · subst_vars; exact h.known _ x hx
              · exact h.known r y hr
            · intro r y hr hl
              simp only [St.set] at hr
              split at hr
              · rename_i heq; subst heq; cases hr
                have hl' : x.live = true := by simpa [Stream.live] using hl
                obtain ⟨hm, hcl, a, ha1, ha2, hseq⟩ := h.live_ok r x hx hl'
                simp only [upTo, hsd, hfresh, Bool.false_eq_true, if_false] at ha2 hseq
                refine ⟨hm, hcl, a, ha1, ?_, ?_⟩
                · simp [upTo]; omega
                · simp only [upTo, List.contains_cons, BEq.rfl, Bool.true_or, if_true]
                  rw [← range'_snoc a tg ha2, ← hseq]
                  simp [Stream.seq]
              · rename_i hne
                have := h.live_ok r y hr hl
                simp only [upTo, hsd] at this
                have hb : (r == rid) = false := by simpa using hne
                simp only [upTo, List.contains_cons, hb, Bool.false_or]
                exact this
            · intro r y hr hl
              simp only [St.set] at hr
              split at hr
              · cases hr; have := h.alive_live _ x hx hl; simpa [Stream.live] using this
              · exact h.alive_live r y hr hl
            · intro r y hr hl
              simp only [St.set] at hr
              split at hr
              · cases hr; have := h.closed_dead _ x hx hl; simpa [Stream.live] using this
              · exact h.closed_dead r y hr hl
          · cases hs
      · cases hs
    · cases hs
  | senderDone =>
    simp only at hs
    split at hs
    · rename_i tg vis hsd
      split at hs
      · rename_i hav
        cases hs
        refine ⟨h.next_le, h.queue_eq, ?_, ?_, ?_, hpd, h.known, ?_, h.alive_live, h.closed_dead⟩
        · intro t ht; simp [busyTg] at ht
        · intro t r v hv; cases hv
        · intro t r v hv; cases hv
        · intro r y hr hl
          obtain ⟨hm, hcl, hrest⟩ := h.live_ok r y hr hl
          have hvis := allVisited_mem s vis hav r y hr (h.known r y hr) hm
          have hb := h.busy tg (by rw [hsd]; rfl)
          simp only [upTo, hsd, hvis, if_true] at hrest
          refine ⟨hm, hcl, ?_⟩
          simp only [upTo]; rw [← hb]; exact hrest
      · cases hs
    · cases hs
  | streamRecv rid =>
    simp only at hs
    split at hs
    · rename_i x hx
      split at hs
      · rename_i tg rest hpc hbuf
        cases hs
        rw [← set_same_rids]
        apply inv_set s h rid _ _ (h.known rid x hx) (fun r hr => hr)
        · intro _
          have hl : x.live = true := by simp [Stream.live, hpc]
          obtain ⟨hm, hcl, a, ha1, ha2, hseq⟩ := h.live_ok rid x hx hl
          refine ⟨hm, hcl, a, ha1, ha2, ?_⟩
          rw [← hseq]; simp [Stream.seq, hpc, hbuf]
        · intro _; rfl
        · intro hc; have := h.closed_dead rid x hx hc; simp [Stream.live, hpc] at this
        · exact hp
      · cases hs
    · cases hs
  | streamSend rid =>
    simp only at hs
    split at hs
    · rename_i x hx
      split at hs
      · rename_i tg hpc
        have hl : x.live = true := by simp [Stream.live, hpc]
        split at hs
        · cases hs
          rw [← set_same_rids]
          apply inv_set s h rid _ _ (h.known rid x hx) (fun r hr => hr)
          · intro _
            obtain ⟨hm, hcl, a, ha1, ha2, hseq⟩ := h.live_ok rid x hx hl
            refine ⟨hm, hcl, a, ha1, ha2, ?_⟩
            rw [← hseq]; simp [Stream.seq, hpc]
          · intro _; rfl
          · intro hc; have := h.closed_dead rid x hx hc; rw [hl] at this; cases this
          · exact hp
        · rename_i hna
          cases hs
          rw [← set_same_rids]
          apply inv_set s h rid _ _ (h.known rid x hx) (fun r hr => hr)
          · intro hl'; simp [Stream.live] at hl'
          · intro ha; exact absurd ha hna
          · intro _; rfl
          · exact hp
      · cases hs
    · cases hs
  | streamDelete rid =>
    simp only at hs
    split at hs
    · rename_i x hx
      split at hs
      · rename_i hpc
        cases hs
        rw [← set_same_rids]
        apply inv_set s h rid _ _ (h.known rid x hx) (fun r hr => hr)
        · intro hl'; simp [Stream.live] at hl'
        · intro ha; have := h.alive_live rid x hx ha; simp [Stream.live, hpc] at this
        · intro _; rfl
        · exact hp
      · cases hs
    · cases hs
  | streamClose rid =>
    simp only at hs
    split at hs
    · rename_i x hx
      split at hs
      · rename_i hpc
        cases hs
        rw [← set_same_rids]
        apply inv_set s h rid _ _ (h.known rid x hx) (fun r hr => hr)
        · intro hl'; simp [Stream.live] at hl'
        · intro ha; have := h.alive_live rid x hx ha; simp [Stream.live, hpc] at this
        · intro _; rfl
        · exact hp
      · cases hs
    · cases hs

theorem inv_run (c : Cfg) (evs : List Ev) (s s' : St) (h : Inv s) (hr : run c s evs = some s') : Inv s' := by
  induction evs generalizing s with
  | nil => simp [run] at hr; subst hr; exact h
  | cons e es ih =>
    simp only [run] at hr
    split at hr
    · rename_i s1 hs1; exact ih s1 (inv_step c s s1 e h hs1) hr
    · cases hr

/-! ## no replica ever disconnects -/

def isDisconnect : Ev → Bool
  | .disconnect _ => true
  | _ => false

def AllAlive (s : St) : Prop := ∀ rid x, s.streams rid = some x → x.alive = true

theorem allAlive_set (s : St) (h : AllAlive s) (rid : Nat) (x' : Stream) (rids' : List Nat) (hx : x'.alive = true) :
    AllAlive { (s.set rid x') with rids := rids' } := by
  intro r y hr
  simp only [St.set] at hr
  split at hr
  · cases hr; exact hx
  · exact h r y hr

theorem allAlive_step (c : Cfg) (s s' : St) (e : Ev) (h : AllAlive s) (hd : isDisconnect e = false)
    (hs : step c s e = some s') : AllAlive s' := by
  unfold step at hs
  split at hs
  · cases hs
  cases e with
  | «open» rid =>
    simp only at hs
    split at hs
    · cases hs
    · cases hs; exact allAlive_set s h rid _ _ rfl
  | disconnect rid => simp [isDisconnect] at hd
  | commit => simp only at hs; split at hs <;> cases hs; exact h
  | senderTake => simp only at hs; split at hs <;> cases hs; exact h
  | senderPick rid =>
    simp only at hs
    split at hs
    · split at hs <;> cases hs; exact h
    · cases hs
  | senderSend =>
    simp only at hs
    split at hs
    · split at hs
      · rename_i x hx
        split at hs
        · cases hs; exact h
        · split at hs
          · cases hs
            intro r y hr
            simp only [St.set] at hr
            split at hr
            · cases hr; exact h _ x hx
            · exact h r y hr
          · cases hs
      · cases hs
    · cases hs
  | senderDone =>
    simp only at hs
    split at hs
    · split at hs <;> cases hs; exact h
    · cases hs
  | streamRecv rid =>
    simp only at hs
    split at hs
    · rename_i x hx
      split at hs
      · cases hs; rw [← set_same_rids]; exact allAlive_set s h rid _ _ (h rid x hx)
      · cases hs
    · cases hs
  | streamSend rid =>
    simp only at hs
    split at hs
    · rename_i x hx
      split at hs
      · split at hs
        · cases hs; rw [← set_same_rids]; exact allAlive_set s h rid _ _ (h rid x hx)
        · rename_i hna; exact absurd (h rid x hx) hna
      · cases hs
    · cases hs
  | streamDelete rid =>
    simp only at hs
    split at hs
    · rename_i x hx
      split at hs
      · cases hs; rw [← set_same_rids]; exact allAlive_set s h rid _ _ (h rid x hx)
      · cases hs
    · cases hs
  | streamClose rid =>
    simp only at hs
    split at hs
    · rename_i x hx
      split at hs
      · cases hs; rw [← set_same_rids]; exact allAlive_set s h rid _ _ (h rid x hx)
      · cases hs
    · cases hs

theorem allAlive_run (c : Cfg) (evs : List Ev) (s s' : St) (h : AllAlive s)
    (hd : evs.all (fun e => !isDisconnect e) = true) (hr : run c s evs = some s') : AllAlive s' := by
  induction evs generalizing s with
  | nil => simp [run] at hr; subst hr; exact h
  | cons e es ih =>
    simp only [List.all_cons, Bool.and_eq_true, Bool.not_eq_true'] at hd
    simp only [run] at hr
    split at hr
    · rename_i s1 hs1; exact ih s1 (allAlive_step c s s1 e h hd.1 hs1) hd.2 hr
    · cases hr

end Mkts.Fanout
