import Mkts.Model.Skel
import Mkts.Model.WalProto
/-!
# Regenerated tie for the WAL protocol (shared by C01–C05, C07, C34, C35)

`Mkts.Extracted.Skel.*` is regenerated from /repo's Go source on every run.  The theorems here
state that the noise-filtered skeleton of each protocol function is *exactly* the normal form the
model `Mkts.WalProto` was written against, and that its sequence of effect kinds is the one the
model's event functions produce.  Any change that moves, removes or adds an effect (a `Sync`
after the primary write, an early `return` before the rendez-vous, a checkpoint record before
`Syncfs`, truncation without checkpoint …) changes the generated constant and breaks the
corresponding `decide`.
-/
namespace Mkts.Props.WalSkeleton
open Mkts.Skel Mkts.Extracted.Skel Mkts.WalProto Mkts.Store

def expFlushToWAL : List String :=
  ["if:wf.txnPipe == nil{", "return", "}", "if:WTCount == 0{", "call:wf.txnPipe.IncrementTGID", "return", "}",
   "if:!wf.WALBypass{", "call:wf.CanWrite", "if:err != nil || !canWrite{", "call:panic", "}", "call:wf.txnPipe.TGID",
   "call:wf.WriteTransactionInfo", "if:err != nil{", "return", "}", "}", "for{", "recv:wf.txnPipe.writeChannel",
   "setidx:writeCommands", "}", "call:wf.FlushCommandsToWAL", "return"]

def expFlushCommandsToWAL : List String :=
  ["defer{", "call:wf.tpd.DispatchRecords", "}", "for{", "if:!ok{", "setidx:fileRecordTypes", "}", "if:!ok{",
   "setidx:varRecLens", "}", "}", "call:serializeTG", "if:!wf.WALBypass{", "call:wf.initMessage", "call:wf.FilePtr.Write",
   "if:err != nil{", "return", "}", "call:wf.FilePtr.Write", "if:err != nil{", "return", "}", "call:wf.FilePtr.Write",
   "if:err != nil{", "return", "}", "call:wf.FilePtr.Write", "if:err != nil{", "return", "}", "call:wf.txnPipe.TGID",
   "call:wf.WriteTransactionInfo", "if:err != nil{", "return", "}", "set:wf.lastCommittedTGID",
   "call:wf.txnPipe.IncrementTGID", "call:wf.FilePtr.Sync", "if:err != nil{", "return", "}",
   "if:wf.ReplicationSender != nil{", "call:wf.ReplicationSender.Send", "}", "}", "range:writesPerFile{",
   "call:wf.writePrimary", "if:err != nil{", "}", "range:writes{", "call:buffer.IndexAndPayload",
   "call:wf.tpd.AppendRecord", "setidx:writes", "}", "setidx:writesPerFile", "}", "return"]

def expCreateCheckpoint : List String :=
  ["if:wf.lastCommittedTGID == 0{", "return", "}", "if:wf.WALBypass{", "call:io.Syncfs", "set:wf.lastCommittedTGID",
   "return", "}", "call:wf.WriteTransactionInfo", "if:err != nil{", "return", "}", "call:io.Syncfs",
   "call:wf.WriteTransactionInfo", "if:err != nil{", "return", "}", "set:wf.lastCommittedTGID", "return"]

def expWriteStatus : List String :=
  ["set:wf.FileStatus", "set:wf.ReplayState", "call:wf.initMessage", "call:wf.FilePtr.Seek", "if:err != nil{", "return",
   "}", "call:wf.FilePtr.Write", "if:err != nil{", "return", "}", "call:wf.FilePtr.Sync", "if:err != nil{", "return", "}",
   "call:wf.FilePtr.Seek", "if:err != nil{", "return", "}", "return"]

def expWriteTransactionInfo : List String :=
  ["call:wf.initMessage", "call:wf.FilePtr.Write", "if:err != nil{", "return", "}", "return"]

def expSyncfs : List String := ["call:syscall.Sync"]

def expSyncWAL : List String :=
  ["for{", "if:!*wf.shutdownPending{", "select{", "comm:<-tickerWAL.C{", "call:wf.FlushToWAL", "if:err != nil{", "}", "}",
   "comm:<-wf.txnPipe.flushChannel{", "call:wf.FlushToWAL", "if:err != nil{", "}", "send:f", "}", "comm:<-tickerCheck.C{",
   "if:float64(queued) / float64(chanCap) >= writeChannelCapThreshold{", "call:wf.FlushToWAL", "if:err != nil{", "}", "}",
   "}", "comm:<-tickerPrimary.C{", "call:wf.CreateCheckpoint", "if:err != nil{", "}",
   "if:primaryFlushCounter % walRotateInterval == 0{", "call:wf.FilePtr.Truncate", "if:err != nil{", "}",
   "call:wf.WriteStatus", "if:err != nil{", "}", "}", "}", "}", "}", "else{", "call:wf.FlushToWAL", "if:err != nil{", "}",
   "call:wf.CreateCheckpoint", "if:err != nil{", "}", "call:wf.walWaitGroup.Done", "return", "}", "}"]

def expReplayTGData : List String :=
  ["if:len(wtSets) == 0{", "return", "}", "call:NewCachedFP", "defer{", "func{", "call:cfp.Close", "if:err2 != nil{", "}",
   "}", "call:(func() literal)", "}", "range:wtSets{", "call:cfp.GetFP", "if:err2 != nil{", "call:err2.Error", "return",
   "}", "switch{", "case:io.FIXED{", "call:WriteBufferToFile", "if:err3 != nil{", "return", "}", "}", "case:io.VARIABLE{",
   "call:WriteBufferToFileIndirect", "if:err != nil{", "return", "}", "}", "case:default{", "return", "}", "}", "}",
   "set:wf.lastCommittedTGID", "call:wf.CreateCheckpoint", "if:err != nil{", "return", "}", "return"]

def expWriteBufferToFile : List String :=
  ["call:buffer.Offset", "call:buffer.IndexAndPayload", "call:fp.WriteAt", "return"]

theorem skel_FlushToWAL : dropNoise executor_WALFileType_FlushToWAL = expFlushToWAL := by decide
theorem skel_FlushCommandsToWAL : dropNoise executor_WALFileType_FlushCommandsToWAL = expFlushCommandsToWAL := by decide
theorem skel_CreateCheckpoint : dropNoise executor_WALFileType_CreateCheckpoint = expCreateCheckpoint := by decide
theorem skel_WriteStatus : dropNoise executor_WALFileType_WriteStatus = expWriteStatus := by decide
theorem skel_WriteTransactionInfo : dropNoise executor_WALFileType_WriteTransactionInfo = expWriteTransactionInfo := by decide
theorem skel_Syncfs : dropNoise utils_io_Syncfs = expSyncfs := by decide
theorem skel_SyncWAL : dropNoise executor_WALFileType_SyncWAL = expSyncWAL := by decide
theorem skel_replayTGData : dropNoise executor_WALFileType_replayTGData = expReplayTGData := by decide
theorem skel_WriteBufferToFile : dropNoise executor_WriteBufferToFile = expWriteBufferToFile := by decide

/-! ## start-up replay (`Replay`): the two decisions the model's `scanLive` / `replay` stand for -/

/-- first pass: a CHECKPOINT record discards transaction groups only when it is COMMITCOMPLETE and
    names a group whose data is in this file, and then it discards EVERY group up to that id;
    any other checkpoint record is only recorded -/
theorem skel_Replay_checkpoint_rule :
    hasSub executor_WALFileType_Replay
      ["case:CHECKPOINT{", "if:ok && txnStatus == COMMITCOMPLETE{", "range:tgData{", "if:tgid <= TGID{",
       "setidx:tgData", "}", "}", "}", "else{", "setidx:txnStatePrimary", "}"] = true := by decide

/-- second pass: the surviving groups are applied in ascending id (= commit) order -/
theorem skel_Replay_ascending :
    hasSub executor_WALFileType_Replay ["call:sort.Sort", "range:sortedTGIDs{"] = true ∧
    executor_WALFileType_Replay.contains "call:sort.Reverse" = false := by decide

/-- `NeedsReplay`: a leftover WAL is replayed when it was never replayed OR when a previous
    start-up died in the middle of replaying it (C34: replay is idempotent, so the second case is
    safe and necessary) -/
theorem skel_NeedsReplay :
    hasSub executor_WALFileType_NeedsReplay
      ["if:wf.ReplayState == wal.NOTREPLAYED || wf.ReplayState == wal.REPLAYINPROCESS{", "ret:true,nil", "return", "}",
       "ret:false,nil", "return"] = true := by decide

/-- `WriteRecords`: a write command is queued only when it is COMPLETE — when the next row belongs
    to another interval (or year), and once after the loop; rows of the same interval are appended to
    the pending command before it is queued (`Mkts.Store.writeRecordsAux`) -/
theorem skel_WriteRecords_queue_points :
    (dropNoise executor_Writer_WriteRecords).filter
        (fun a => a = "call:w.walFile.QueueWriteCommand" ∨ a = "call:w.walFile.WriteCommand" ∨ a = "set:cc.Data" ∨
                  a = "if:index == prevIndex && year == prevYear{" ∨ a = "if:index != prevIndex || year != prevYear{" ∨
                  a = "if:i == 0{") =
      ["if:i == 0{", "call:w.walFile.WriteCommand", "if:index == prevIndex && year == prevYear{", "set:cc.Data",
       "if:index != prevIndex || year != prevYear{", "call:w.walFile.QueueWriteCommand", "call:w.walFile.WriteCommand",
       "call:w.walFile.QueueWriteCommand"] := by decide

/-! ## effect kinds -/

inductive K where
  | W   -- write(2) to the WAL file
  | F   -- fsync of the WAL file
  | R   -- hand the transaction to the replication sender
  | P   -- primary file write (per file; the model has one per command)
  | S   -- sync(2)
  | T   -- truncate the WAL file
deriving DecidableEq, Repr

/-- effect kinds, in order, of a skeleton (calls to WriteTransactionInfo / WriteStatus expanded
    by their own skeletons' kinds: one WAL write, resp. WAL write + fsync) -/
def kinds : List String → List K
  | [] => []
  | a :: rest =>
    (if a = "call:wf.FilePtr.Write" ∨ a = "call:wf.WriteTransactionInfo" then [K.W]
     else if a = "call:wf.FilePtr.Sync" then [K.F]
     else if a = "call:wf.ReplicationSender.Send" then [K.R]
     else if a = "call:wf.writePrimary" then [K.P]
     else if a = "call:io.Syncfs" ∨ a = "call:syscall.Sync" then [K.S]
     else if a = "call:wf.FilePtr.Truncate" then [K.T]
     else if a = "call:wf.WriteStatus" then [K.W, K.F]
     else []) ++ kinds rest

/-- the write-ahead rule, read off the code: one PREPARING record, four data writes and the
    COMMITCOMPLETE record, THEN fsync, THEN replication, THEN the primary files -/
theorem flush_kinds :
    kinds (dropNoise executor_WALFileType_FlushToWAL) ++ kinds (dropNoise executor_WALFileType_FlushCommandsToWAL)
      = [K.W, K.W, K.W, K.W, K.W, K.W, K.F, K.R, K.P] := by
  rw [skel_FlushToWAL, skel_FlushCommandsToWAL]; decide

/-- WALBypass branch first (Syncfs only), then: PREPARING, sync(2), COMMITCOMPLETE -/
theorem checkpoint_kinds :
    kinds (dropNoise executor_WALFileType_CreateCheckpoint) = [K.S, K.W, K.S, K.W] := by
  rw [skel_CreateCheckpoint]; decide

theorem writeStatus_kinds : kinds (dropNoise executor_WALFileType_WriteStatus) = [K.W, K.F] := by
  rw [skel_WriteStatus]; decide

def kindOf : Effect → Option K
  | .walAppend _ => some K.W
  | .walFsync => some K.F
  | .prim _ => some K.P
  | .sync => some K.S
  | .walTruncate => some K.T
  | .ack => none

/-- the model's flush has the same shape: six WAL writes, fsync, one primary write per command -/
theorem model_flush_kinds (id : Nat) (cmds : List Cmd) :
    (flushEffects id cmds).filterMap kindOf =
      [K.W, K.W, K.W, K.W, K.W, K.W, K.F] ++ List.replicate cmds.length K.P := by
  simp only [flushEffects, List.filterMap_append, List.filterMap_cons, kindOf, List.filterMap_nil,
    List.append_nil]
  congr 1
  induction cmds with
  | nil => rfl
  | cons c rest ih => simp [List.replicate_succ, kindOf, ih]

theorem model_checkpoint_kinds (id : Nat) :
    (checkpointEffects (some id)).filterMap kindOf = [K.W, K.S, K.W] := by simp [checkpointEffects, kindOf]

theorem model_rotate_kinds (id : Nat) :
    (rotateEffects (some id)).filterMap kindOf = [K.W, K.S, K.W, K.T, K.W, K.F] := by
  simp [rotateEffects, checkpointEffects, kindOf]

end Mkts.Props.WalSkeleton
