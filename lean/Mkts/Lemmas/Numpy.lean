import Mkts.Model.Numpy
import Mkts.Lemmas.Rows
/-! Helper lemmas for C27: decoding a row range of a composed dataset. -/
namespace Mkts.Numpy
open Mkts.Rows Mkts.Bytes

def flat (c : Column) : Bytes := c.elems.flatten

/-- a column blob seen as prefix ++ one bucket's elements ++ suffix -/
abbrev Tri := Bytes × Column × Bytes
def Tri.mid (t : Tri) : Column := t.2.1
def glue (t : Tri) : Bytes := t.1 ++ flat t.2.1 ++ t.2.2

theorem chunk_flatten (sz : Nat) (hsz : 0 < sz) (l : List Bytes) (hl : ∀ e ∈ l, e.length = sz) (fuel : Nat)
    (hf : l.flatten.length ≤ fuel) : chunk sz fuel l.flatten = l := by
  induction l generalizing fuel with
  | nil =>
    cases fuel with
    | zero => rfl
    | succ f =>
      have : ((([] : List Bytes).flatten.length < sz) || sz == 0) = true := by simp; omega
      simp only [chunk, this, if_true]
  | cons a t ih =>
    have ha : a.length = sz := hl a (by simp)
    rw [List.flatten_cons, List.length_append] at hf
    cases fuel with
    | zero => omega
    | succ f =>
      have h1 : (((a ++ t.flatten).length < sz) || sz == 0) = false := by
        simp only [List.length_append, Bool.or_eq_false_iff, decide_eq_false_iff_not, beq_eq_false_iff_ne]
        omega
      rw [List.flatten_cons, chunk]
      simp only [h1, Bool.false_eq_true, if_false]
      have ih' := ih (fun e he => hl e (by simp [he])) f (by omega)
      rw [← ha] at ih' ⊢
      rw [List.take_left' rfl, List.drop_left' rfl, ih']

theorem sliceI_mid (p x q : Bytes) (a b : Int) (ha : a = p.length) (hb : b = a + x.length) :
    sliceI (p ++ x ++ q) a b = .ok x := by
  unfold sliceI
  have hc : 0 ≤ a ∧ a ≤ b ∧ b ≤ ((p ++ x ++ q).length : Int) := by
    simp only [List.length_append]; omega
  rw [if_pos hc]
  have h1 : a.toNat = p.length := by omega
  have h2 : (b - a).toNat = x.length := by omega
  rw [h1, h2, List.append_assoc, List.drop_left', List.take_left']
  · rfl
  · rfl

theorem typeMap_inverse :
    Mkts.Extracted.typeMap.all (fun e => elemTypeOf e.2 == some e.1 && decide (0 < typeSize e.1)) = true := by decide

theorem elemTypeOf_typeStr (t : Nat) (s : String) (h : typeStrOf t = some s) :
    elemTypeOf s = some t ∧ 0 < typeSize t := by
  have hm := lookup_some_mem _ _ _ h
  have := List.all_eq_true.mp typeMap_inverse _ hm
  simpa using this

/-- wire-valid column: supported type, `n` elements of the type's size -/
def WireCol (n : Nat) (c : Column) : Prop := (typeStrOf c.typ).isSome ∧ c.WF n

theorem convertLoop_ok (s n : Nat) (T : List Tri) (done : List Column)
    (hnd : ((done ++ T.map Tri.mid).map (·.name)).Nodup)
    (hT : ∀ t ∈ T, t.1.length = s * typeSize t.mid.typ ∧ WireCol n t.mid) :
    convertLoop s n (T.map (fun t => toShape t.mid)) (T.map glue) ⟨done, []⟩ =
      .ok ⟨done ++ T.map Tri.mid, []⟩ := by
  induction T generalizing done with
  | nil => simp [convertLoop]
  | cons t r ih =>
    obtain ⟨hp, hw, hwf⟩ := hT t (by simp)
    obtain ⟨str, hstr⟩ := Option.isSome_iff_exists.mp hw
    have hsz := (elemTypeOf_typeStr _ _ hstr).2
    have hflat : (flat t.mid).length = n * typeSize t.mid.typ := by
      unfold flat; rw [flatten_length_uniform _ _ hwf.2, hwf.1]
    rw [List.map_cons, List.map_cons, convertLoop]
    have hs : sliceI (glue t) ((s : Int) * (typeSize t.mid.typ : Int))
        ((s : Int) * (typeSize t.mid.typ : Int) + (n : Int) * (typeSize t.mid.typ : Int)) = .ok (flat t.mid) := by
      unfold glue
      apply sliceI_mid
      · rw [hp]; push_cast; rfl
      · show _ = _ + ((flat t.2.1).length : Int)
        have : flat t.2.1 = flat t.mid := rfl
        rw [this, hflat]; push_cast; rfl
    simp only [toShape, hs, bind, Except.bind]
    have hch : chunk (typeSize t.mid.typ) (flat t.mid).length (flat t.mid) = t.mid.elems :=
      chunk_flatten _ hsz _ hwf.2 _ (Nat.le_refl _)
    rw [hch]
    have hfresh : t.mid.name ∉ done.map (·.name) := by
      intro hm
      rw [List.map_append, List.map_cons, List.map_cons] at hnd
      exact (List.nodup_append.mp hnd).2.2 _ hm t.mid.name (by simp) rfl
    rw [addColumn_fresh done _ _ _ hfresh]
    have hc : (⟨t.mid.name, t.mid.typ, t.mid.elems⟩ : Column) = t.mid := rfl
    rw [hc]
    have := ih (done ++ [t.mid]) (by simpa [List.map_append] using hnd) (fun x hx => hT x (by simp [hx]))
    simpa [toShape, List.append_assoc] using this

theorem typeStrings_ok (cols : List Column) (hc : ∀ c ∈ cols, (typeStrOf c.typ).isSome) :
    typeStrings cols = .ok (cols.map (fun c => (typeStrOf c.typ).getD "")) := by
  unfold typeStrings
  apply mapM_ok
  intro c hcm
  obtain ⟨s, hs⟩ := Option.isSome_iff_exists.mp (hc c hcm)
  simp only [hs, Option.getD_some]; rfl

theorem elemTypes_ok (cols : List Column) (hc : ∀ c ∈ cols, (typeStrOf c.typ).isSome) :
    elemTypes (cols.map (fun c => (typeStrOf c.typ).getD "")) = .ok (cols.map (·.typ)) := by
  unfold elemTypes
  apply mapM_map_ok
  intro c hcm
  obtain ⟨s, hs⟩ := Option.isSome_iff_exists.mp (hc c hcm)
  simp only [hs, Option.getD_some, (elemTypeOf_typeStr _ _ hs).1]; rfl

def typesOf (cols : List Column) : List String := cols.map (fun c => (typeStrOf c.typ).getD "")

theorem typesOf_shapes {a b : List Column} (h : a.map toShape = b.map toShape) : typesOf a = typesOf b := by
  have := congrArg (List.map (fun s : DataShape => (typeStrOf s.typ).getD "")) h
  rw [List.map_map, List.map_map] at this
  exact this

theorem zip_names_types (cols : List Column) :
    ((cols.map (·.name)).zip (cols.map (·.typ))).map (fun p => (⟨p.1, p.2⟩ : DataShape)) = cols.map toShape := by
  induction cols with
  | nil => rfl
  | cons c t ih => simp only [List.map_cons, List.zip_cons_cons, ih]; rfl

theorem buildDataShapes_ok (cols : List Column) (hc : ∀ c ∈ cols, (typeStrOf c.typ).isSome)
    (data : List Bytes) (L : Int) :
    buildDataShapes ⟨typesOf cols, cols.map (·.name), data, L⟩ = .ok (cols.map toShape) := by
  unfold buildDataShapes typesOf
  rw [elemTypes_ok cols hc]
  simp only [bind, Except.bind, List.length_map, Nat.lt_irrefl, if_false, pure, Except.pure,
    zip_names_types]

/-! ## `Decodes`: a row range of the dataset holds exactly the given columns -/

def Decodes (data : List Bytes) (s : Nat) (cols : List Column) : Prop :=
  ∃ T : List Tri, T.map Tri.mid = cols ∧ data = T.map glue ∧ ∀ t ∈ T, t.1.length = s * typeSize t.mid.typ

/-- same, and the range is the end of every blob (the bucket appended last) -/
def DecodesLast (data : List Bytes) (s : Nat) (cols : List Column) : Prop :=
  ∃ T : List Tri, T.map Tri.mid = cols ∧ data = T.map glue ∧
    ∀ t ∈ T, t.1.length = s * typeSize t.mid.typ ∧ t.2.2 = []

theorem DecodesLast.decodes {data : List Bytes} {s : Nat} {cols : List Column}
    (h : DecodesLast data s cols) : Decodes data s cols := by
  obtain ⟨T, h1, h2, h3⟩ := h
  exact ⟨T, h1, h2, fun t ht => (h3 t ht).1⟩

/-- pinned: the current `ToColumnSeries` only returns early for a dataset without columns -/
theorem guardsNoColumns_true : guardsNoColumns = true := by decide

theorem toColumnSeries_ok (cols : List Column) (data : List Bytes) (L : Int) (s n : Nat)
    (hw : ∀ c ∈ cols, WireCol n c)
    (hnd : (cols.map (·.name)).Nodup) (hd : Decodes data s cols) :
    (⟨typesOf cols, cols.map (·.name), data, L⟩ : NumpyDataset).toColumnSeries s n = .ok ⟨cols, []⟩ := by
  obtain ⟨T, hT, hdata, hpre⟩ := hd
  cases T with
  | nil =>
    have hc : cols = [] := by simpa using hT.symm
    have hdn : data = [] := by simpa using hdata
    unfold NumpyDataset.toColumnSeries
    simp only [hdn, hc, guardsNoColumns_true, if_true]
    rfl
  | cons t r =>
    unfold NumpyDataset.toColumnSeries
    simp only [hdata, List.map_cons, guardsNoColumns_true, Bool.not_true, Bool.false_and, Bool.false_eq_true,
      if_false]
    have hb := buildDataShapes_ok cols (fun c hc => (hw c hc).1) (glue t :: r.map glue) L
    simp only [hb, bind, Except.bind]
    have hshape : cols.map toShape = (t :: r).map (fun t => toShape t.mid) := by
      rw [← hT, List.map_map]; rfl
    rw [hshape]
    have := convertLoop_ok s n (t :: r) [] (by simpa [hT] using hnd)
      (fun x hx => ⟨hpre x hx, hw _ (by rw [← hT]; exact List.mem_map.mpr ⟨x, hx, rfl⟩)⟩)
    simpa [ColumnSeries.empty, hT] using this

/-- a range without rows can be read at index 0 as well -/
theorem Decodes.at_zero {data : List Bytes} {s : Nat} {cols : List Column} (h : Decodes data s cols)
    (hempty : ∀ c ∈ cols, c.elems = []) : Decodes data 0 cols := by
  obtain ⟨T, h1, h2, _⟩ := h
  refine ⟨T.map (fun t => ([], t.2.1, t.1 ++ t.2.2)), ?_, ?_, ?_⟩
  · rw [List.map_map, ← h1]; rfl
  · rw [h2, List.map_map]
    apply List.map_congr_left
    intro t ht
    have : t.mid.elems = [] := hempty _ (by rw [← h1]; exact List.mem_map.mpr ⟨t, ht, rfl⟩)
    have hf : flat t.2.1 = [] := by show flat t.mid = []; simp [flat, this]
    simp [glue, hf]
  · intro t ht
    obtain ⟨x, _, rfl⟩ := List.mem_map.mp ht
    simp

theorem appendData_ok (D : List Bytes) (cols : List Column) (h : D.length = cols.length) :
    appendData D (cols.map (fun c => c.elems.flatten)) = .ok ((D.zip cols).map (fun p => p.1 ++ flat p.2)) := by
  induction D generalizing cols with
  | nil =>
    cases cols with
    | nil => rfl
    | cons c t => simp at h
  | cons d ds ih =>
    cases cols with
    | nil => simp at h
    | cons c t =>
      simp only [List.length_cons, Nat.add_right_cancel_iff] at h
      simp only [List.map_cons, appendData, ih t h, bind, Except.bind, pure, Except.pure, List.zip_cons_cons]
      rfl

/-- earlier buckets keep decoding after an append -/
theorem decodes_append (T : List Tri) (cols' : List Column) (hlen : T.length = cols'.length) :
    ∃ T' : List Tri, T'.map Tri.mid = T.map Tri.mid ∧
      ((T.map glue).zip cols').map (fun p => p.1 ++ flat p.2) = T'.map glue ∧
      ∀ t' ∈ T', ∃ t ∈ T, t'.1 = t.1 ∧ t'.mid = t.mid := by
  induction T generalizing cols' with
  | nil => exact ⟨[], rfl, by simp, by simp⟩
  | cons t r ih =>
    cases cols' with
    | nil => simp at hlen
    | cons c cs =>
      simp only [List.length_cons, Nat.add_right_cancel_iff] at hlen
      obtain ⟨T', h1, h2, h3⟩ := ih cs hlen
      refine ⟨(t.1, t.2.1, t.2.2 ++ flat c) :: T', ?_, ?_, ?_⟩
      · simp only [List.map_cons, h1]; rfl
      · simp only [List.map_cons, List.zip_cons_cons, h2]
        simp [glue, List.append_assoc]
      · intro t' ht'
        rcases List.mem_cons.mp ht' with h | h
        · exact ⟨t, by simp, by rw [h], by rw [h]; rfl⟩
        · obtain ⟨x, hx, hx1, hx2⟩ := h3 t' h
          exact ⟨x, by simp [hx], hx1, hx2⟩

theorem Decodes.append {D : List Bytes} {s : Nat} {cols : List Column} (h : Decodes D s cols)
    (cols' : List Column) (hlen : D.length = cols'.length) :
    Decodes ((D.zip cols').map (fun p => p.1 ++ flat p.2)) s cols := by
  obtain ⟨T, h1, h2, h3⟩ := h
  subst h2
  obtain ⟨T', g1, g2, g3⟩ := decodes_append T cols' (by simpa using hlen)
  refine ⟨T', by rw [g1, h1], g2, ?_⟩
  intro t' ht'
  obtain ⟨t, ht, e1, e2⟩ := g3 t' ht'
  rw [e1, e2]; exact h3 t ht

/-- the appended bucket decodes at the old total length -/
theorem decodes_new (T : List Tri) (s n : Nat) (cols' : List Column)
    (hT : ∀ t ∈ T, (t.1.length = s * typeSize t.mid.typ ∧ t.2.2 = []) ∧ t.mid.WF n)
    (hsh : cols'.map toShape = T.map (fun t => toShape t.mid)) :
    DecodesLast (((T.map glue).zip cols').map (fun p => p.1 ++ flat p.2)) (s + n) cols' := by
  induction T generalizing cols' with
  | nil =>
    cases cols' with
    | nil => exact ⟨[], rfl, rfl, by simp⟩
    | cons c cs => simp at hsh
  | cons t r ih =>
    cases cols' with
    | nil => simp at hsh
    | cons c cs =>
      simp only [List.map_cons, List.cons.injEq] at hsh
      obtain ⟨T', h1, h2, h3⟩ := ih cs (fun x hx => hT x (by simp [hx])) hsh.2
      obtain ⟨⟨hp, hq⟩, hwf⟩ := hT t (by simp)
      have htyp : c.typ = t.mid.typ := by have := hsh.1; simp only [toShape, DataShape.mk.injEq] at this; exact this.2
      refine ⟨(glue t, c, []) :: T', ?_, ?_, ?_⟩
      · simp only [List.map_cons, h1]; rfl
      · simp only [List.map_cons, List.zip_cons_cons, h2]
        simp [glue]
      · intro x hx
        rcases List.mem_cons.mp hx with h | h
        · subst h
          refine ⟨?_, rfl⟩
          show (glue t).length = (s + n) * typeSize c.typ
          have hf : (flat t.2.1).length = n * typeSize t.mid.typ := by
            show (flat t.mid).length = _
            unfold flat; rw [flatten_length_uniform _ _ hwf.2, hwf.1]
          unfold glue
          rw [List.length_append, List.length_append, hp, hf, hq, htyp, Nat.add_mul]; rfl
        · exact h3 x h

theorem decodes_first (cols : List Column) :
    DecodesLast (cols.map (fun c => c.elems.flatten)) 0 cols := by
  refine ⟨cols.map (fun c => ([], c, [])), ?_, ?_, ?_⟩
  · rw [List.map_map]; exact List.map_id' _
  · rw [List.map_map]; apply List.map_congr_left; intro c _; simp [glue, flat]
  · intro t ht
    obtain ⟨c, _, rfl⟩ := List.mem_map.mp ht
    simp

/-! ## the composition loop -/

def starts : Nat → List (String × ColumnSeries) → List (String × Int)
  | _, [] => []
  | acc, (k, cs) :: r => (normKey k, (acc : Int)) :: starts (acc + cs.len) r

def lens (bs : List (String × ColumnSeries)) : List (String × Int) :=
  bs.map (fun p => (normKey p.1, (p.2.len : Int)))

/-- (start, length, columns) of every bucket -/
def items : Nat → List (String × ColumnSeries) → List (Nat × Nat × List Column)
  | _, [] => []
  | acc, (_, cs) :: r => (acc, cs.len, cs.cols) :: items (acc + cs.len) r

/-- pinned: the current `Append` compares the type strings too -/
theorem appendChecksTypes_true : appendChecksTypes = true := by decide

theorem shapesMatch_self (cols : List Column) (hw : ∀ c ∈ cols, (typeStrOf c.typ).isSome) :
    shapesMatch (cols.map (·.name)) (typesOf cols) cols = .ok () := by
  induction cols with
  | nil => rfl
  | cons c t ih =>
    obtain ⟨str, hstr⟩ := Option.isSome_iff_exists.mp (hw c (by simp))
    have := ih (fun x hx => hw x (by simp [hx]))
    simp only [typesOf] at this ⊢
    simp only [List.map_cons, shapesMatch, bne_self_eq_false, Bool.false_eq_true, if_false,
      appendChecksTypes_true, if_true, hstr, Option.getD_some]
    exact this

theorem mapSet_fresh (m : List (String × Int)) (k : String) (v : Int) (h : k ∉ m.map (·.1)) :
    mapSet m k v = m ++ [(k, v)] := by
  unfold mapSet
  have : m.any (fun p => p.1 == k) = false := by
    rw [List.any_eq_false]; intro p hp heq
    exact h (List.mem_map.mpr ⟨p, hp, by simpa using heq⟩)
  simp [this]

theorem shapes_names {a b : List Column} (h : a.map toShape = b.map toShape) :
    a.map (·.name) = b.map (·.name) := by
  have := congrArg (List.map DataShape.name) h
  rw [List.map_map, List.map_map] at this
  exact this

theorem append_ok (n : NumpyMultiDataset) (cs : ColumnSeries) (key : String) (lastcols : List Column) (s : Nat)
    (hnames : n.nds.columnNames = lastcols.map (·.name))
    (htypes : n.nds.columnTypes = typesOf lastcols)
    (hlast : DecodesLast n.nds.columnData s lastcols)
    (hsh : cs.cols.map toShape = lastcols.map toShape)
    (hw : ∀ c ∈ cs.cols, (typeStrOf c.typ).isSome)
    (hk1 : key ∉ n.startIndex.map (·.1)) (hk2 : key ∉ n.lengths.map (·.1)) :
    n.append cs key = .ok ⟨⟨n.nds.columnTypes, n.nds.columnNames,
      (n.nds.columnData.zip cs.cols).map (fun p => p.1 ++ flat p.2), n.nds.length + cs.len⟩,
      n.startIndex ++ [(key, n.nds.length)], n.lengths ++ [(key, (cs.len : Int))]⟩ := by
  obtain ⟨T, hT1, hT2, _⟩ := hlast
  have hlen : n.nds.columnData.length = cs.cols.length := by
    have h1 := congrArg List.length hsh
    have h2 := congrArg List.length hT1
    simp only [List.length_map] at h1 h2
    rw [hT2, List.length_map, h2, h1]
  unfold NumpyMultiDataset.append
  have hne : (n.nds.columnData.length != cs.cols.length) = false := by simp [hlen]
  rw [hnames, htypes, ← shapes_names hsh, ← typesOf_shapes hsh, shapesMatch_self cs.cols hw,
    appendData_ok _ _ hlen, mapSet_fresh _ _ _ hk1, mapSet_fresh _ _ _ hk2]
  simp only [hne, Bool.false_eq_true, if_false, bind, Except.bind, pure, Except.pure]


theorem composeLoop_ok (types names : List String) (rest : List (String × ColumnSeries)) :
    ∀ (n : NumpyMultiDataset) (s nl : Nat) (lastcols : List Column) (doneL : List (Nat × Nat × List Column)),
      n.nds.columnTypes = types → n.nds.columnNames = names →
      n.nds.length = ((s + nl : Nat) : Int) →
      DecodesLast n.nds.columnData s lastcols → (∀ c ∈ lastcols, c.WF nl) →
      lastcols.map (·.name) = names → typesOf lastcols = types →
      (∀ b ∈ rest, b.2.cols.map toShape = lastcols.map toShape ∧ ∀ c ∈ b.2.cols, WireCol b.2.len c) →
      (∀ d ∈ doneL, Decodes n.nds.columnData d.1 d.2.2) →
      ((n.startIndex.map (·.1)) ++ rest.map (fun b => normKey b.1)).Nodup →
      n.lengths.map (·.1) = n.startIndex.map (·.1) →
      ∃ n', composeLoop (some n) rest = .ok (some n') ∧ n'.nds.columnTypes = types ∧
        n'.nds.columnNames = names ∧
        n'.startIndex = n.startIndex ++ starts (s + nl) rest ∧ n'.lengths = n.lengths ++ lens rest ∧
        (∀ d ∈ doneL ++ items (s + nl) rest, Decodes n'.nds.columnData d.1 d.2.2) := by
  induction rest with
  | nil =>
    intro n s nl lastcols doneL ht hn _ _ _ _ _ _ hd _ _
    exact ⟨n, rfl, ht, hn, by simp [starts], by simp [lens], by simpa [items] using hd⟩
  | cons b rest ih =>
    intro n s nl lastcols doneL ht hn hL hlast hwf hnm htm hall hd hnd hkeys
    obtain ⟨k, cs⟩ := b
    obtain ⟨hsh, hcwf⟩ := hall (k, cs) (by simp)
    have hk1 : normKey k ∉ n.startIndex.map (·.1) := by
      intro hm
      exact (List.nodup_append.mp hnd).2.2 _ hm (normKey k) (by simp) rfl
    have hk2 : normKey k ∉ n.lengths.map (·.1) := by rw [hkeys]; exact hk1
    have happ := append_ok n cs (normKey k) lastcols s (by rw [hn, hnm]) (by rw [ht, htm]) hlast hsh
      (fun c hc => (hcwf c hc).1) hk1 hk2
    obtain ⟨T, hT1, hT2, hT3⟩ := hlast
    have hnew : DecodesLast ((n.nds.columnData.zip cs.cols).map (fun p => p.1 ++ flat p.2)) (s + nl) cs.cols := by
      rw [hT2]
      apply decodes_new T s nl cs.cols
      · intro t ht'
        exact ⟨hT3 t ht', hwf _ (by rw [← hT1]; exact List.mem_map.mpr ⟨t, ht', rfl⟩)⟩
      · rw [hsh, ← hT1, List.map_map]; rfl
    have hlen : n.nds.columnData.length = cs.cols.length := by
      have h1 := congrArg List.length hsh
      have h2 := congrArg List.length hT1
      simp only [List.length_map] at h1 h2
      rw [hT2, List.length_map, h2, h1]
    let n1 : NumpyMultiDataset := ⟨⟨n.nds.columnTypes, n.nds.columnNames,
      (n.nds.columnData.zip cs.cols).map (fun p => p.1 ++ flat p.2), n.nds.length + cs.len⟩,
      n.startIndex ++ [(normKey k, n.nds.length)], n.lengths ++ [(normKey k, (cs.len : Int))]⟩
    have := ih n1 (s + nl) cs.len cs.cols (doneL ++ [(s + nl, cs.len, cs.cols)]) ht hn
      (by show n.nds.length + (cs.len : Int) = _; rw [hL]; push_cast; rfl) hnew (fun c hc => (hcwf c hc).2)
      (by rw [shapes_names hsh, hnm]) (by rw [typesOf_shapes hsh, htm])
      (fun b' hb' => by
        obtain ⟨h1, h2⟩ := hall b' (by simp [hb'])
        exact ⟨by rw [h1, hsh], h2⟩)
      (by
        intro d hd'
        rcases List.mem_append.mp hd' with h | h
        · exact (hd d h).append cs.cols hlen
        · simp only [List.mem_singleton] at h; subst h; exact hnew.decodes)
      (by
        show ((n.startIndex ++ [(normKey k, n.nds.length)]).map (·.1) ++ rest.map (fun b => normKey b.1)).Nodup
        simpa [List.map_append, List.append_assoc] using hnd)
      (by show (n.lengths ++ [(normKey k, (cs.len : Int))]).map (·.1) = (n.startIndex ++ [(normKey k, n.nds.length)]).map (·.1)
          simp [List.map_append, hkeys])
    obtain ⟨n', h1, h2, h3, h4, h5, h6⟩ := this
    refine ⟨n', ?_, h2, h3, ?_, ?_, ?_⟩
    · rw [composeLoop, happ]; exact h1
    · rw [h4]; show (n.startIndex ++ [(normKey k, n.nds.length)]) ++ _ = _
      rw [hL]; simp [starts, List.append_assoc]
    · rw [h5]; show (n.lengths ++ [(normKey k, (cs.len : Int))]) ++ _ = _
      simp [lens, List.append_assoc]
    · intro d hd'
      apply h6
      simpa [items, List.append_assoc] using hd'

/-! ## building the result maps -/

theorem lookup_of_mem_nodup (l : List (String × Int)) (k : String) (v : Int) (hm : (k, v) ∈ l)
    (hnd : (l.map (·.1)).Nodup) : l.lookup k = some v := by
  induction l with
  | nil => simp at hm
  | cons a t ih =>
    obtain ⟨ak, av⟩ := a
    simp only [List.map_cons, List.nodup_cons] at hnd
    rcases List.mem_cons.mp hm with h | h
    · simp only [Prod.mk.injEq] at h
      simp [List.lookup, h.1, h.2]
    · have hne : k ≠ ak := by
        intro e
        exact hnd.1 (List.mem_map.mpr ⟨(k, v), h, e⟩)
      have : (k == ak) = false := by simpa using hne
      simp only [List.lookup, this]
      exact ih h hnd.2

def stepF (key : String) (m : CSM) (c : Column) : CSM :=
  if m.any (fun p => p.1 == key) then m.map (fun p => if p.1 == key then (key, p.2.addColumn c.name c.typ c.elems) else p)
  else m ++ [(key, ColumnSeries.empty.addColumn c.name c.typ c.elems)]

theorem map_other_keys (csm : CSM) (key : String) (f : String × ColumnSeries → String × ColumnSeries)
    (hk : key ∉ csm.map (·.1)) :
    csm.map (fun p => if p.1 == key then f p else p) = csm := by
  induction csm with
  | nil => rfl
  | cons a t ih =>
    simp only [List.map_cons, List.mem_cons, not_or] at hk
    have : (a.1 == key) = false := by simpa using (fun e => hk.1 e.symm)
    rw [List.map_cons, this, ih hk.2]
    rfl

theorem fold_existing (csm : CSM) (key : String) (r done : List Column) (hk : key ∉ csm.map (·.1))
    (hnd : ((done ++ r).map (·.name)).Nodup) :
    r.foldl (stepF key) (csm ++ [(key, ⟨done, []⟩)]) = csm ++ [(key, ⟨done ++ r, []⟩)] := by
  induction r generalizing done with
  | nil => simp
  | cons c t ih =>
    have hfresh : c.name ∉ done.map (·.name) := by
      intro hm
      rw [List.map_append, List.map_cons] at hnd
      exact (List.nodup_append.mp hnd).2.2 _ hm c.name (by simp) rfl
    have hany : (csm ++ [(key, (⟨done, []⟩ : ColumnSeries))]).any (fun p => p.1 == key) = true := by simp
    rw [List.foldl_cons]
    have hstep : stepF key (csm ++ [(key, ⟨done, []⟩)]) c = csm ++ [(key, ⟨done ++ [c], []⟩)] := by
      unfold stepF
      rw [if_pos hany, List.map_append, map_other_keys csm key _ hk]
      simp only [List.map_cons, List.map_nil, beq_self_eq_true, if_true, addColumn_fresh done _ _ _ hfresh]
    rw [hstep]
    have := ih (done ++ [c]) (by simpa [List.append_assoc] using hnd)
    simpa [List.append_assoc] using this

theorem addColumnSeries_fresh (csm : CSM) (key : String) (cols : List Column) (hne : cols ≠ [])
    (hnd : (cols.map (·.name)).Nodup) (hk : key ∉ csm.map (·.1)) :
    addColumnSeries csm key ⟨cols, []⟩ = csm ++ [(key, ⟨cols, []⟩)] := by
  cases cols with
  | nil => exact absurd rfl hne
  | cons c t =>
    show (c :: t).foldl (stepF key) csm = _
    rw [List.foldl_cons]
    have hany : csm.any (fun p => p.1 == key) = false := by
      rw [List.any_eq_false]; intro p hp heq
      exact hk (List.mem_map.mpr ⟨p, hp, by simpa using heq⟩)
    have hstep : stepF key csm c = csm ++ [(key, ⟨[c], []⟩)] := by
      unfold stepF
      simp only [hany, Bool.false_eq_true, if_false]
      rw [show ColumnSeries.empty = ⟨[], []⟩ from rfl, addColumn_fresh [] _ _ _ (by simp)]
      rfl
    rw [hstep]
    exact fold_existing csm key t [c] hk (by simpa using hnd)

theorem csmSet_fresh (csm : CSM) (key : String) (cs : ColumnSeries) (hk : key ∉ csm.map (·.1)) :
    csmSet csm key cs = csm ++ [(key, cs)] := by
  unfold csmSet
  have hany : csm.any (fun p => p.1 == key) = false := by
    rw [List.any_eq_false]; intro p hp heq
    exact hk (List.mem_map.mpr ⟨p, hp, by simpa using heq⟩)
  simp [hany]

/-- pinned: the current `ToColumnSeriesMap` decodes buckets without rows -/
theorem emptyBucketDecoded_true : emptyBucketDecoded = true := by decide

/-- what both decoders need to know about a bucket list inside the dataset `n` -/
structure BucketOK (n : NumpyMultiDataset) (b : String × ColumnSeries) : Prop where
  key : normKey b.1 = b.1
  len : mapGet n.lengths b.1 = (b.2.len : Int)
  ne : b.2.cols ≠ []
  nodup : (b.2.cols.map (·.name)).Nodup

theorem foldA_ok (n : NumpyMultiDataset) (rest : List (String × ColumnSeries)) :
    ∀ (s : Nat) (acc : CSM), (∀ b ∈ rest, BucketOK n b) →
      (∀ d ∈ items s rest, n.nds.toColumnSeries d.1 d.2.1 = .ok ⟨d.2.2, []⟩ ∧
        (d.2.1 = 0 → n.nds.toColumnSeries 0 0 = .ok ⟨d.2.2, []⟩)) →
      (acc.map (·.1) ++ rest.map (·.1)).Nodup →
      (starts s rest).foldlM (fun csm (p : String × Int) => do
        let cs ← n.bucketSeries p
        pure (addColumnSeries csm (normKey p.1) cs)) acc = .ok (acc ++ expectCSM rest) := by
  induction rest with
  | nil => intro s acc _ _ _; simp [starts, expectCSM]; rfl
  | cons b rest ih =>
    intro s acc hb hdec hnd
    obtain ⟨k, cs⟩ := b
    have hok := hb (k, cs) (by simp)
    have hk : normKey k = k := hok.key
    have hfresh : k ∉ acc.map (·.1) := by
      intro hm
      exact (List.nodup_append.mp hnd).2.2 _ hm k (by simp) rfl
    have hd0 := hdec (s, cs.len, cs.cols) (by simp [items])
    have hlen : mapGet n.lengths k = (cs.len : Int) := hok.len
    have hcs : n.bucketSeries (k, (s : Int)) = .ok ⟨cs.cols, []⟩ := by
      unfold NumpyMultiDataset.bucketSeries
      simp only [hlen]
      by_cases hp : (cs.len : Int) > 0
      · rw [if_pos hp]; exact hd0.1
      · rw [if_neg hp, emptyBucketDecoded_true, if_pos rfl]
        exact hd0.2 (by show cs.len = 0; omega)
    simp only [starts, List.foldlM_cons, hk, bind, Except.bind]
    rw [hcs]
    simp only [pure, Except.pure, addColumnSeries_fresh acc k cs.cols hok.ne hok.nodup hfresh]
    have := ih (s + cs.len) (acc ++ [(k, ⟨cs.cols, []⟩)]) (fun b hb' => hb b (by simp [hb']))
      (fun d hd => hdec d (by simp [items, hd]))
      (by simpa [List.map_append, List.append_assoc] using hnd)
    simp only [bind, Except.bind, pure, Except.pure] at this
    rw [this]
    simp [expectCSM, hk, List.append_assoc]

theorem foldB_ok (n : NumpyMultiDataset) (rest : List (String × ColumnSeries)) :
    ∀ (s : Nat) (acc : CSM), (∀ b ∈ rest, BucketOK n b) →
      (∀ d ∈ items s rest, n.nds.toColumnSeries d.1 d.2.1 = .ok ⟨d.2.2, []⟩) →
      (acc.map (·.1) ++ rest.map (·.1)).Nodup →
      (starts s rest).foldlM (fun csm (p : String × Int) => do
        let cs ← n.nds.toColumnSeries p.2 (mapGet n.lengths p.1)
        pure (csmSet csm (normKey p.1) cs)) acc = .ok (acc ++ expectCSM rest) := by
  induction rest with
  | nil => intro s acc _ _ _; simp [starts, expectCSM]; rfl
  | cons b rest ih =>
    intro s acc hb hdec hnd
    obtain ⟨k, cs⟩ := b
    have hok := hb (k, cs) (by simp)
    have hk : normKey k = k := hok.key
    have hfresh : k ∉ acc.map (·.1) := by
      intro hm
      exact (List.nodup_append.mp hnd).2.2 _ hm k (by simp) rfl
    have hd0 := hdec (s, cs.len, cs.cols) (by simp [items])
    have hlen : mapGet n.lengths k = (cs.len : Int) := hok.len
    simp only [starts, List.foldlM_cons, hk, hlen, bind, Except.bind]
    simp only at hd0
    rw [hd0]
    simp only [pure, Except.pure, csmSet_fresh acc k _ hfresh]
    have := ih (s + cs.len) (acc ++ [(k, ⟨cs.cols, []⟩)]) (fun b hb' => hb b (by simp [hb']))
      (fun d hd => hdec d (by simp [items, hd]))
      (by simpa [List.map_append, List.append_assoc] using hnd)
    simp only [bind, Except.bind, pure, Except.pure] at this
    rw [this]
    simp [expectCSM, hk, List.append_assoc]

/-! ## the whole round trip -/

theorem items_mem (bs : List (String × ColumnSeries)) (s : Nat) :
    ∀ d ∈ items s bs, ∃ b ∈ bs, d.2.1 = b.2.len ∧ d.2.2 = b.2.cols := by
  induction bs generalizing s with
  | nil => intro d hd; simp [items] at hd
  | cons b t ih =>
    intro d hd
    obtain ⟨k, cs⟩ := b
    simp only [items, List.mem_cons] at hd
    rcases hd with h | h
    · exact ⟨(k, cs), by simp, by rw [h], by rw [h]⟩
    · obtain ⟨b', hb', h1, h2⟩ := ih (s + cs.len) d h
      exact ⟨b', by simp [hb'], h1, h2⟩

/-- a wire-valid bucket: normalised key, at least one column, distinct column names, supported
types, equal lengths -/
def ValidBucket (b : String × ColumnSeries) : Prop :=
  normKey b.1 = b.1 ∧ b.2.cols ≠ [] ∧ (b.2.cols.map (·.name)).Nodup ∧
  ∀ c ∈ b.2.cols, (typeStrOf c.typ).isSome ∧ c.elems.length = b.2.len ∧ ∀ x ∈ c.elems, x.length = typeSize c.typ

theorem compose_roundtrip (b0 : String × ColumnSeries) (rest : List (String × ColumnSeries))
    (hkeys : ((b0 :: rest).map (·.1)).Nodup) (hv : ∀ b ∈ b0 :: rest, ValidBucket b)
    (hsh : ∀ b ∈ b0 :: rest, b.2.cols.map toShape = b0.2.cols.map toShape) :
    ∃ n, compose (b0 :: rest) = .ok (some n) ∧
      n.toColumnSeriesMap = .ok (expectCSM (b0 :: rest)) ∧
      n.toColumnSeriesMapClient = .ok (expectCSM (b0 :: rest)) ∧
      n.startIndex = starts 0 (b0 :: rest) ∧ n.lengths = lens (b0 :: rest) := by
  obtain ⟨k0, cs0⟩ := b0
  have hv0 := hv (k0, cs0) (by simp)
  have hwire0 : ∀ c ∈ cs0.cols, (typeStrOf c.typ).isSome := fun c hc => (hv0.2.2.2 c hc).1
  have hnk : ∀ b ∈ (k0, cs0) :: rest, normKey b.1 = b.1 := fun b hb => (hv b hb).1
  have hmapk : ((k0, cs0) :: rest).map (fun b => normKey b.1) = ((k0, cs0) :: rest).map (·.1) :=
    List.map_congr_left hnk
  let nds0 : NumpyDataset := ⟨typesOf cs0.cols, cs0.cols.map (·.name), cs0.cols.map (fun c => c.elems.flatten), cs0.len⟩
  have hnew : newNumpyDataset cs0 = .ok nds0 := by
    unfold newNumpyDataset
    rw [typeStrings_ok cs0.cols hwire0]
    rfl
  have hloop := composeLoop_ok (typesOf cs0.cols) (cs0.cols.map (·.name)) rest
    (newNumpyMultiDataset nds0 (normKey k0)) 0 cs0.len cs0.cols [(0, cs0.len, cs0.cols)] rfl rfl
    (by show ((cs0.len : Nat) : Int) = _; simp) (decodes_first cs0.cols)
    (fun c hc => ⟨(hv0.2.2.2 c hc).2.1, (hv0.2.2.2 c hc).2.2⟩) rfl rfl
    (fun b hb => ⟨hsh b (by simp [hb]), fun c hc =>
      ⟨((hv b (by simp [hb])).2.2.2 c hc).1, ((hv b (by simp [hb])).2.2.2 c hc).2.1,
        ((hv b (by simp [hb])).2.2.2 c hc).2.2⟩⟩)
    (by intro d hd; simp only [List.mem_singleton] at hd; subst hd; exact (decodes_first cs0.cols).decodes)
    (by
      show ([(normKey k0, (0 : Int))].map (·.1) ++ rest.map (fun b => normKey b.1)).Nodup
      have : [(normKey k0, (0 : Int))].map (·.1) ++ rest.map (fun b => normKey b.1) =
          ((k0, cs0) :: rest).map (fun b => normKey b.1) := rfl
      rw [this, hmapk]; exact hkeys)
    rfl
  obtain ⟨n, hc, hty, hnm, hsi, hln, hdec⟩ := hloop
  have hsi' : n.startIndex = starts 0 ((k0, cs0) :: rest) := by
    rw [hsi]; simp [newNumpyMultiDataset, starts]
  have hln' : n.lengths = lens ((k0, cs0) :: rest) := by
    rw [hln]; simp [newNumpyMultiDataset, lens, nds0]
  have hitems : ∀ d ∈ items 0 ((k0, cs0) :: rest),
      n.nds.toColumnSeries d.1 d.2.1 = .ok ⟨d.2.2, []⟩ ∧
      (d.2.1 = 0 → n.nds.toColumnSeries 0 0 = .ok ⟨d.2.2, []⟩) := by
    intro d hd
    obtain ⟨b, hb, h1, h2⟩ := items_mem _ 0 d hd
    have hD := hdec d (by simpa [items] using hd)
    have hvb := hv b hb
    have hshb := hsh b hb
    have hnds : n.nds = ⟨typesOf d.2.2, d.2.2.map (·.name), n.nds.columnData, n.nds.length⟩ := by
      rw [h2, typesOf_shapes hshb, shapes_names hshb, ← hty, ← hnm]
    have hw : ∀ c ∈ d.2.2, WireCol b.2.len c := by
      rw [h2]; intro c hc'
      exact ⟨(hvb.2.2.2 c hc').1, (hvb.2.2.2 c hc').2.1, (hvb.2.2.2 c hc').2.2⟩
    have hndb : (d.2.2.map (·.name)).Nodup := by rw [h2]; exact hvb.2.2.1
    refine ⟨?_, ?_⟩
    · rw [hnds, h1]
      exact toColumnSeries_ok d.2.2 _ _ d.1 b.2.len hw hndb hD
    · intro hz
      rw [hnds]
      have hempty : ∀ c ∈ d.2.2, c.elems = [] := by
        intro c hc'
        have := (hw c hc').2.1
        rw [← h1, hz] at this
        exact List.eq_nil_of_length_eq_zero this
      have := toColumnSeries_ok d.2.2 n.nds.columnData n.nds.length 0 b.2.len hw hndb (hD.at_zero hempty)
      rw [← h1, hz] at this
      exact this
  have hok : ∀ b ∈ (k0, cs0) :: rest, BucketOK n b := by
    intro b hb
    have hvb := hv b hb
    refine ⟨hvb.1, ?_, hvb.2.1, hvb.2.2.1⟩
    unfold mapGet
    rw [hln', lookup_of_mem_nodup (lens ((k0, cs0) :: rest)) b.1 b.2.len]
    · rfl
    · unfold lens
      exact List.mem_map.mpr ⟨b, hb, by rw [hvb.1]⟩
    · unfold lens
      rw [List.map_map]
      have : ((k0, cs0) :: rest).map ((fun x : String × Int => x.1) ∘ fun p => (normKey p.1, (p.2.len : Int))) =
          ((k0, cs0) :: rest).map (fun b => normKey b.1) := rfl
      rw [this, hmapk]; exact hkeys
  refine ⟨n, ?_, ?_, ?_, hsi', hln'⟩
  · unfold compose
    rw [composeLoop, hnew]
    exact hc
  · unfold NumpyMultiDataset.toColumnSeriesMap
    rw [hsi']
    have := foldA_ok n ((k0, cs0) :: rest) 0 [] hok hitems (by simpa using hkeys)
    simpa using this
  · unfold NumpyMultiDataset.toColumnSeriesMapClient
    rw [hsi']
    have := foldB_ok n ((k0, cs0) :: rest) 0 [] hok (fun d hd => (hitems d hd).1) (by simpa using hkeys)
    simpa using this

theorem shapes_of_names_types : ∀ (a b : List Column), a.map (·.name) = b.map (·.name) →
    a.map (·.typ) = b.map (·.typ) → a.map toShape = b.map toShape
  | [], [], _, _ => rfl
  | [], _ :: _, h, _ => by simp at h
  | _ :: _, [], h, _ => by simp at h
  | x :: xs, y :: ys, h1, h2 => by
    simp only [List.map_cons, List.cons.injEq] at h1 h2 ⊢
    exact ⟨by simp [toShape, h1.1, h2.1], shapes_of_names_types xs ys h1.2 h2.2⟩


end Mkts.Numpy
