import Mkts.Model.Bytes
/-!
# WAL transaction-group codec (executor/wal.go `serializeTG`, `ParseTGData`;
utils/io/datashape.go `DSVToBytes`, `DSVFromBytes`, `toBytes`, `dsFromBytes`). Core Lean only.

Go strings are byte strings (`Bytes`).  Go integer conversions at the `Serialize` call sites wrap
(`int8/int16/int32/uint8`): `leInt w` encodes `i mod 256^w`.  Decoding is two's complement
(`leDecodeInt`).  Every Go slice expression / index expression of the parser is a `takeN` / `index`
here; an out-of-range one is the explicit outcome `.error Panic.slice` / `.error Panic.index`.

`ParseTGData` is modelled for an input slice with `cap = len` (the replay path allocates it with
`make([]byte, tgLen)`): with spare capacity Go would read stale bytes beyond `len` instead of
panicking.  The parser is written as "consume from the front"; `tgSerialized[cursor:cursor+n]`
with `cursor ≤ len` is `take n (drop cursor b)`.
-/
namespace Mkts.WalCodec
open Mkts.Bytes

deriving instance DecidableEq for Except

/-- classes of Go run-time panics that the codec / replay can raise -/
inductive Panic where
  | slice      -- slice bounds out of range
  | index      -- index out of range
  | makeslice  -- makeslice: len out of range
  deriving DecidableEq, Repr, Inhabited

def Panic.str : Panic → String
  | .slice => "panic:slice"
  | .index => "panic:index"
  | .makeslice => "panic:makeslice"

/-- `io.DataShape` : column name and `EnumElementType` (a `byte`) -/
structure DataShape where
  name : Bytes
  typ : Nat
  deriving DecidableEq, Repr, Inhabited

/-- `wal.WriteCommand` (what the write path queues).  Types in Go: `RecordType int8`,
`VarRecLen int`, `Offset, Index int64`. -/
structure WriteCommand where
  recordType : Int
  path : Bytes
  varRecLen : Int
  offset : Int
  index : Int
  data : Bytes
  shapes : List DataShape
  deriving DecidableEq, Repr, Inhabited

/-- `wal.WTSet` as produced by `ParseTGData`; `key` is the decoded WALKeyPath (Go stores
`FilePath = walKeyToFullPath rootPath key`, see `fullPath`). `buffer` = offset(8) index(8) data. -/
structure WTSet where
  recordType : Int
  key : Bytes
  dataLen : Int
  varRecLen : Int
  buffer : Bytes
  shapes : List DataShape
  deriving DecidableEq, Repr, Inhabited

/-! ## widths of the length fields (the Go conversion types at each `Serialize` call site) -/
def recordTypeBytes : Nat := 1   -- int8(commands[i].RecordType)     / recordLenLenBytes
def fpLenBytes : Nat := 2        -- int16(len(WALKeyPath))           / fpLenLenBytes
def dataLenBytes : Nat := 4      -- int32(len(Data))                 / dataLenLenBytes
def varRecLenBytes : Nat := 4    -- int32(VarRecLen)                 / varRecLenLenBytes
def offsetBytes : Nat := 8       -- int64 Offset                     / offsetLenBytes
def indexBytes : Nat := 8        -- int64 Index                      / indexLenBytes
def tgIDLenBytes : Nat := 8      -- int64 tgID
def wtCountLenBytes : Nat := 8   -- int64(WTCount)

/-! ## serialisation -/

/-- `(*DataShape).toBytes`: `uint8(len(Name))`, name, `byte(Type)` -/
def dsToBytes (d : DataShape) : Bytes :=
  le 1 d.name.length ++ d.name ++ le 1 d.typ

/-- `DSVToBytes`: `dsLen := uint8(len(dss)); if dsLen == 0 { return nil }`, then ALL shapes -/
def dsvToBytes (l : List DataShape) : Bytes :=
  if l.length % 256 = 0 then [] else le 1 l.length ++ (l.map dsToBytes).flatten

/-- the `offset index data` part of a command: what is sliced into `writesPerFile` -/
def cmdBuffer (c : WriteCommand) : Bytes :=
  leInt offsetBytes c.offset ++ leInt indexBytes c.index ++ c.data

/-- one iteration of the loop in `serializeTG` -/
def serializeCmd (c : WriteCommand) : Bytes :=
  leInt recordTypeBytes c.recordType ++ leInt fpLenBytes c.path.length ++ c.path ++
  leInt dataLenBytes c.data.length ++ leInt varRecLenBytes c.varRecLen ++
  cmdBuffer c ++ dsvToBytes c.shapes

/-- `serializeTG` (first result) -/
def serializeTG (tgID : Int) (cs : List WriteCommand) : Bytes :=
  leInt tgIDLenBytes tgID ++ leInt wtCountLenBytes cs.length ++ (cs.map serializeCmd).flatten

/-- `serializeTG` (second result `writesPerFile`, as an association list in command order) -/
def writesPerFile (cs : List WriteCommand) : List (Bytes × Bytes) :=
  cs.map (fun c => (c.path, cmdBuffer c))

/-! ## parsing -/

/-- Go `b[0:n]` followed by advancing the cursor: `(b[:n], b[n:])`, panics unless `0 ≤ n ≤ len b` -/
def takeN (b : Bytes) (n : Int) : Except Panic (Bytes × Bytes) :=
  if 0 ≤ n ∧ n ≤ (b.length : Int) then .ok (b.take n.toNat, b.drop n.toNat) else .error .slice

/-- `dsFromBytes` -/
def dsFromBytes (b : Bytes) : Except Panic (DataShape × Bytes) :=
  match takeN b 1 with
  | .error e => .error e
  | .ok (l, r) =>
    match takeN r (leDecode l) with
    | .error e => .error e
    | .ok (name, r) =>
      match r with
      | [] => .error .index
      | t :: r => .ok ({ name := name, typ := t.toNat }, r)

/-- the loop of `DSVFromBytes` -/
def dsLoop : Nat → Bytes → Except Panic (List DataShape × Bytes)
  | 0, b => .ok ([], b)
  | n + 1, b =>
    match dsFromBytes b with
    | .error e => .error e
    | .ok (d, r) =>
      match dsLoop n r with
      | .error e => .error e
      | .ok (ds, r) => .ok (d :: ds, r)

/-- `DSVFromBytes` on a non-nil slice (in `ParseTGData` the argument `tgSerialized[cursor:]` is never nil) -/
def dsvFromBytes (b : Bytes) : Except Panic (List DataShape × Bytes) :=
  match takeN b 1 with
  | .error e => .error e
  | .ok (l, r) => dsLoop (leDecode l) r

/-- one iteration of the loop of `ParseTGData` -/
def parseWTSet (b : Bytes) : Except Panic (WTSet × Bytes) :=
  match takeN b recordTypeBytes with
  | .error e => .error e
  | .ok (rt, r) =>
  match takeN r fpLenBytes with
  | .error e => .error e
  | .ok (fl, r) =>
  match takeN r (leDecodeInt fl) with
  | .error e => .error e
  | .ok (path, r) =>
  match takeN r dataLenBytes with
  | .error e => .error e
  | .ok (dl, r) =>
  match takeN r varRecLenBytes with
  | .error e => .error e
  | .ok (vl, r) =>
  match takeN r ((offsetBytes : Int) + indexBytes + leDecodeInt dl) with
  | .error e => .error e
  | .ok (buf, r) =>
  match dsvFromBytes r with
  | .error e => .error e
  | .ok (ds, r) =>
    .ok ({ recordType := leDecodeInt rt, key := path, dataLen := leDecodeInt dl,
           varRecLen := leDecodeInt vl, buffer := buf, shapes := ds }, r)

def parseWTSets : Nat → Bytes → Except Panic (List WTSet × Bytes)
  | 0, b => .ok ([], b)
  | n + 1, b =>
    match parseWTSet b with
    | .error e => .error e
    | .ok (w, r) =>
      match parseWTSets n r with
      | .error e => .error e
      | .ok (ws, r) => .ok (w :: ws, r)

/-- `unsafe.Sizeof(wal.WTSet{})` on 64-bit (int8 padded, string, int, int, slice, slice) -/
def wtSetSize : Int := 88
/-- `runtime.maxAlloc` on linux/amd64 -/
def maxAlloc : Int := 281474976710656

/-- `make([]wal.WTSet, WTCount)` panics iff the count is negative or the size exceeds `maxAlloc`
(counts below the limit but beyond the machine's memory kill the process: not modelled). -/
def makeWTSetsPanics (cnt : Int) : Bool := decide (cnt < 0) || decide (maxAlloc < cnt * wtSetSize)

/-- `ParseTGData` (without the path join, see `fullPath`): `(tgID, wtSets)`; trailing bytes are ignored -/
def parseTGData (b : Bytes) : Except Panic (Int × List WTSet) :=
  match takeN b tgIDLenBytes with
  | .error e => .error e
  | .ok (idb, r) =>
  match takeN r wtCountLenBytes with
  | .error e => .error e
  | .ok (cb, r) =>
    if makeWTSetsPanics (leDecodeInt cb) then .error .makeslice else
    match parseWTSets (leDecodeInt cb).toNat r with
    | .error e => .error e
    | .ok (ws, _) => .ok (leDecodeInt idb, ws)

/-- what the property demands `ParseTGData` to return for a command -/
def toWTSet (c : WriteCommand) : WTSet :=
  { recordType := c.recordType, key := c.path, dataLen := c.data.length, varRecLen := c.varRecLen,
    buffer := cmdBuffer c, shapes := c.shapes }

/-! ## `walKeyToFullPath` = `filepath.Join(root, key)` for an absolute, clean `root` (lexical) -/

def slash : UInt8 := 47
def dot : UInt8 := 46

/-- split at '/' -/
def splitSlash : Bytes → List Bytes
  | [] => [[]]
  | c :: rest =>
    if c = slash then [] :: splitSlash rest
    else match splitSlash rest with
      | [] => [[c]]
      | h :: t => (c :: h) :: t

/-- `filepath.Clean` component walk for a rooted path: stack of kept components (reversed) -/
def cleanStep (stack : List Bytes) (comp : Bytes) : List Bytes :=
  if comp = [] ∨ comp = [dot] then stack
  else if comp = [dot, dot] then stack.drop 1
  else comp :: stack

def joinSlash : List Bytes → Bytes
  | [] => []
  | c :: rest => slash :: c ++ joinSlash rest

/-- `filepath.Clean` of a path that starts with '/' -/
def cleanAbs (p : Bytes) : Bytes :=
  match joinSlash ((splitSlash p).foldl cleanStep []).reverse with
  | [] => [slash]
  | r => r

/-- `walKeyToFullPath(root, key)` for absolute `root`: `filepath.Join` drops empty elements and cleans -/
def fullPath (root key : Bytes) : Bytes :=
  if key = [] then cleanAbs root else cleanAbs (root ++ [slash] ++ key)

end Mkts.WalCodec

namespace Mkts.WalCodec
open Mkts.Bytes
/-! ## `wal.OffsetIndexBuffer` accessors (executor/wal/oib.go) on a buffer of at least 16 bytes -/
def oibOffset (b : Bytes) : Int := leDecodeInt (b.take 8)
def oibIndex (b : Bytes) : Int := leDecodeInt ((b.drop 8).take 8)
def oibPayload (b : Bytes) : Bytes := b.drop 16
end Mkts.WalCodec
