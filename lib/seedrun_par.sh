#!/bin/bash
# Run checks against one seeded change WITHOUT touching /repo: a scratch copy of /verif and a
# scratch worktree of /repo with the patch applied (VERIF_REPO). Same checks, same code paths as
# `git -C /repo apply`; lets several seeds run side by side.
# usage: lib/seedrun_par.sh <seed id under /verif/seeded> Cxx [Cyy ...]    (TIER=quick|thorough)
id=$1; shift
W=/work/sr/$id
if [ -d "$W/repo" ]; then git -C /repo worktree remove --force "$W/repo" >/dev/null 2>&1; fi
rm -rf "$W"; mkdir -p "$W"
rsync -a --exclude .git --exclude .work --exclude replays --exclude .cache --exclude seeded /verif/ "$W/verif/"
git -C /repo worktree add --detach "$W/repo" HEAD >/dev/null 2>&1
git -C "$W/repo" apply "/verif/seeded/$id/patch.diff" || { echo "$id: patch does not apply"; exit 2; }
cd "$W/verif" || { echo "$id: scratch copy failed"; exit 2; }
mkdir -p .work replays
for p in "$@"; do
  t0=$(date +%s)
  out=$(VERIF_REPO=$W/repo VERIF_GOCACHE=/verif/.cache/go-build ./check $p --tier ${TIER:-quick} 2>&1 | grep "^VIOLATION\|^OK\|^BROKEN" | head -3 | cut -c1-600 | tr '\n' ' ')
  echo "$id $p ${TIER:-quick} $(( $(date +%s) - t0 ))s: $out"
  rp=$(echo "$out" | grep -o 'replay=[^ ]*' | head -1 | cut -d= -f2)
  if [ -n "$rp" ] && [ -f "$rp" ]; then cp "$rp" "/verif/seeded/$id/replay_$p.json"; fi
done
cd /
git -C /repo worktree remove --force "$W/repo" >/dev/null 2>&1
rm -rf "$W"
