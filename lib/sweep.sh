#!/bin/bash
# unchanged-tree sweep: every claimed check, several seeds; prints one line per run
cd /verif
seeds="${1:-1 2 3}"
tier="${2:-quick}"
for s in $seeds; do
  for p in $(python3 -c "import json;print(' '.join(c['property_id'] for c in json.load(open('MANIFEST.json'))['checks']))"); do
    t0=$(date +%s)
    out=$(VERIF_SEED=$s ./check $p --tier $tier 2>&1 | grep -v "^KNOWN-FINDING" | tail -2 | tr '\n' ' ' | cut -c1-300)
    echo "seed=$s $p $(( $(date +%s) - t0 ))s $out"
  done
done
