namespace Mkts.Props.Selftest
theorem t1 (a b : Nat) : a + b = b + a := by omega
theorem t2 (p : Prop) : p ∨ ¬p := Classical.em p
end Mkts.Props.Selftest
