import Mkts.Props.C01
/-!
# C02 — Crash recovery adds no duplicate or phantom data

Fixed-length buckets: corollaries of the crash-recovery theorem (`C01_crash_shape`) — whatever a
restart shows was issued (no phantom), and the transaction group in flight is applied entirely or
not at all.  Variable-length buckets: a primary write APPENDS to the interval, so the replay of a
live (non-checkpointed) transaction group whose records had already reached the file appends them
a second time.  `C02_variable_multiplicity` states exactly which records are duplicated;
`C02_cex_variable` refutes the property as stated; `C02_variable_partial` is what holds.
-/
namespace Mkts.Props.C02
open Mkts.WalProto Mkts.Store Mkts.Bytes Mkts.Props

theorem allCmds_prefix {a b : List Event} (h : a <+: b) : allCmds a <+: allCmds b := by
  obtain ⟨t, rfl⟩ := h
  rw [C01.allCmds_append]
  exact List.prefix_append _ _

/-- NO PHANTOM (fixed): every value visible after a crash and restart is the payload of a command
    that was issued, for the very slot it is found in. -/
theorem C02_no_phantom (evs : List Event) (es : List Effect) (hes : es <+: trace {} evs)
    (k : Int × Int) (v : Bytes) (hv : (recover (run {} es)).get k = some v) :
    ∃ c ∈ allCmds evs, (c.year, c.index) = k ∧ c.payload = v := by
  obtain ⟨evs1, hp, _, hget⟩ := C01.C01_acked_visible evs es hes k
  rw [hget] at hv
  cases hf : (allCmds evs1).reverse.find? (fun c => decide ((c.year, c.index) = k)) with
  | none => simp [hf] at hv
  | some c =>
    simp [hf] at hv
    have hm := List.mem_of_find?_eq_some hf
    have hk := List.find?_some hf
    refine ⟨c, ?_, by simpa using hk, hv⟩
    exact (allCmds_prefix hp).subset (List.mem_reverse.mp hm)

/-- IN-FLIGHT ATOMICITY (fixed): the recovered content is the last-writer-wins content of a whole
    number of transaction groups — a prefix of the history, hence never "half of a group". -/
theorem C02_inflight_atomic (evs : List Event) (es : List Effect) (hes : es <+: trace {} evs) :
    ∃ evs1, evs1 <+: evs ∧ Equiv (recover (run {} es)) (applyCmds [] (allCmds evs1)) :=
  let ⟨evs1, hp, heq, _, _⟩ := C01.C01_crash_recovery evs es hes
  ⟨evs1, hp, heq⟩

/-! ## variable-length buckets: the append interpretation -/

/-- payloads appended to interval `k` by a command sequence -/
def appendedTo (k : Int × Int) (cmds : List Cmd) : List Bytes :=
  (cmds.filter (fun c => (c.year, c.index) = k)).map (·.payload)

theorem appendedTo_append (k : Int × Int) (a b : List Cmd) :
    appendedTo k (a ++ b) = appendedTo k a ++ appendedTo k b := by
  simp [appendedTo, List.filter_append]

/-- what interval `k` of a variable-length file holds after crash + restart: everything appended
    before the crash, then everything the replay of the live transaction groups appends -/
def recoveredAppends (st : St) (k : Int × Int) : List Bytes :=
  appendedTo k st.applied ++ appendedTo k ((liveTGs st.wal).map (·.2)).flatten

/-- MULTIPLICITY after recovery: every record of the recovered history `evs1` is present, and the
    extra copies are exactly the records of `dup` — live-group commands that had already been
    written when the crash happened. -/
theorem C02_variable_multiplicity (evs : List Event) (es : List Effect) (hes : es <+: trace {} evs)
    (k : Int × Int) :
    ∃ evs1 dup, evs1 <+: evs ∧
      (run {} es).acked ≤ flushCount evs1 ∧ flushCount evs1 ≤ (run {} es).acked + 1 ∧
      dup <+: ((liveTGs (run {} es).wal).map (·.2)).flatten ∧
      (recoveredAppends (run {} es) k).Perm (appendedTo k (allCmds evs1) ++ appendedTo k dup) := by
  obtain ⟨evs1, hp, ⟨liveL, pre, i, hl, _, ha, hall⟩, h1, h2⟩ := C01.C01_crash_shape evs es hes
  refine ⟨evs1, ((liveL.map (·.2)).flatten).take i, hp, h1, h2, by rw [hl]; exact List.take_prefix _ _, ?_⟩
  unfold recoveredAppends
  rw [hl, ha, hall]
  simp only [appendedTo_append]
  -- pre ++ dup ++ flat  ~  pre ++ flat ++ dup
  rw [List.append_assoc, List.append_assoc]
  exact List.Perm.append_left _ List.perm_append_comm

/-- The property as stated for variable-length buckets: after any crash, each interval holds every
    record exactly as often as it was written (in the recovered prefix of the history). -/
def C02_full_variable : Prop :=
  ∀ (evs : List Event) (es : List Effect), es <+: trace {} evs → ∀ k,
    ∃ evs1, evs1 <+: evs ∧ (recoveredAppends (run {} es) k).Perm (appendedTo k (allCmds evs1))

/-- FALSE of the code (finding C02-F2): one acknowledged write to a variable-length bucket, crash
    before the next checkpoint: restart replays the transaction group over a file that already
    holds its record, which is then present twice. -/
theorem C02_cex_variable : ¬ C02_full_variable := by
  intro h
  obtain ⟨evs1, hp, hperm⟩ := h [.flush [⟨2020, 1, [7]⟩]] (trace {} [.flush [⟨2020, 1, [7]⟩]])
    (List.prefix_refl _) (2020, 1)
  have hlen := hperm.length_eq
  have h2 : (recoveredAppends (run {} (trace {} [Event.flush [⟨2020, 1, [7]⟩]])) (2020, 1)).length = 2 := by decide
  rw [h2] at hlen
  have : evs1 = [] ∨ evs1 = [Event.flush [⟨2020, 1, [7]⟩]] := by
    have := (mem_inits _ evs1).mpr hp
    simpa [inits] using this
  rcases this with rfl | rfl <;> revert hlen <;> decide

/-- What holds: when no live transaction group had reached the primary files at the crash point
    (in particular at any point where the last event was a completed checkpoint), nothing is
    duplicated. -/
theorem C02_variable_partial (evs : List Event) (es : List Effect) (hes : es <+: trace {} evs)
    (k : Int × Int) (hlive : liveTGs (run {} es).wal = []) :
    ∃ evs1, evs1 <+: evs ∧ (recoveredAppends (run {} es) k).Perm (appendedTo k (allCmds evs1)) := by
  obtain ⟨evs1, dup, hp, _, _, hd, hperm⟩ := C02_variable_multiplicity evs es hes k
  rw [hlive] at hd
  have : dup = [] := by simpa using hd
  subst this
  exact ⟨evs1, hp, by simpa [appendedTo] using hperm⟩

/-! non-vacuity of the partial theorem: after flush; checkpoint nothing is live -/
example : liveTGs (run {} (trace {} [.flush [⟨2020, 1, [7]⟩], .checkpoint])).wal = [] := by decide

end Mkts.Props.C02
