import Mkts.Proto
import Mkts.Model.WalProto
import Mkts.Driver.Store
/-!
Driver for the trace-level WAL checks:

  walcrash <nowYear> <a> <j> <keys> <step> <step> …
      steps as in the `store` op plus K (checkpoint) and T (rotation).  The first `a` steps
      completed (were acknowledged); the crash happened `j` effects into step number `a`.
      `j` = `*`  : somewhere inside catalog operations the WAL model does not describe;
      `j` = `m<n>`: after `n` effects AND between the data write and the index write of the next
                    command of a variable-length file.
      M: the restart output the model predicts (`*` if it predicts nothing),
      S: `?alt0||alt1||…` — the outputs the properties C01/C02/C03 allow: startup ok, nothing
         left over, every bucket showing exactly the content of the acknowledged requests, or of
         those plus the request in flight (fixed: last writer wins; variable: every record once).
      H: `var_replay_duplicates` when the model predicts duplicated variable-length records,
         `var_crash_between_data_and_index` for `m` positions.
  waltrace <nowYear> <step> …
      M: effect kinds per step, e.g. `W:WWWWWWFPP K:WSW T:WSWTWF C:-` (one P per command)

Variable-length commands are carried through `Mkts.WalProto` as ONE command whose payload is the
concatenation of its records (payload ++ 4-byte ticks); the recovered file content of such a
bucket is the append interpretation of `Mkts.Props.C02` (everything applied before the crash, then
everything replay appends), split into records, stably sorted by ticks and decoded.
-/
namespace Mkts.Driver.Wal
open Mkts.Proto Mkts.Store Mkts.WalProto Mkts.Bytes Mkts.Driver.Store Mkts.VStore

structure BInfo where
  key : String
  idx : Nat
  tf : Int
  cols : List Col
  isVar : Bool

def yearTag : Int := 100000

def payloadSize (cols : List Col) : Nat := (cols.map (fun c => (typeSize c.ty).getD 0)).sum

def tagCmd (b : BInfo) (c : Cmd) : Cmd := { c with year := c.year + yearTag * (b.idx + 1) }

/-- commands of a write step, tagged with the bucket number in the year field -/
def stepCmds (b : BInfo) (rows : List (Int × Int × Bytes)) : List Cmd :=
  if b.isVar then
    (VStore.writeRecords tickFns b.tf (rows.map (fun r => (⟨r.1, r.2.1, r.2.2⟩ : VRow)))).map
      (fun vc => tagCmd b ⟨vc.year, vc.index,
        (vc.recs.map (fun r => r.payload ++ le 4 r.ticks.toNat)).flatten⟩)
  else
    (Store.writeRecords b.tf (rows.map (fun r => (⟨r.1, r.2.2⟩ : Row)))).map (tagCmd b)

inductive PStep where
  | ev (e : Event)          -- a WAL writer event
  | create (key : String)   -- catalog only
  | unsupported

def parseStep (bs : List BInfo) (st : String) : List BInfo × PStep :=
  match st.splitOn ":" with
  | ["C", key, rt, cols] =>
    match keyTf key, parseCols cols with
    | some (_, tfs, _), some cs =>
      match parseTf tfs with
      | some tf =>
        if bs.any (·.key == key) then (bs, .create key)
        else (bs ++ [⟨key, bs.length, tf, cs, rt == "v"⟩], .create key)
      | none => (bs, .unsupported)
    | _, _ => (bs, .unsupported)
  | ["W", key, rt, cols, rows] =>
    match keyTf key, parseCols cols, parseRows rows with
    | some (_, tfs, _), some cs, some rws =>
      match parseTf tfs with
      | some tf =>
        if rws.isEmpty then (bs, .unsupported) else
        let (bs', b) := match bs.find? (·.key == key) with
          | some b => (bs, b)
          | none => let b : BInfo := ⟨key, bs.length, tf, cs, rt == "v"⟩; (bs ++ [b], b)
        if b.cols != cs || b.isVar != (rt == "v") then (bs, .unsupported)
        else (bs', .ev (.flush (stepCmds b rws)))
      | none => (bs, .unsupported)
    | _, _, _ => (bs, .unsupported)
  | ["K"] => (bs, .ev .checkpoint)
  | ["T"] => (bs, .ev .rotate)
  | ["X"] => (bs, .ev .checkpoint)   -- graceful shutdown: last flush (nothing queued) + checkpoint
  | _ => (bs, .unsupported)

def parseSteps : List BInfo → List String → List PStep → List BInfo × List PStep
  | bs, [], acc => (bs, acc.reverse)
  | bs, st :: rest, acc => let (bs', p) := parseStep bs st; parseSteps bs' rest (p :: acc)

def eventsOf (ps : List PStep) : List Event := ps.filterMap (fun p => match p with | .ev e => some e | _ => none)

def untag (b : BInfo) (k : Int × Int) : Option (Int × Int) :=
  let y := k.1 - yearTag * (b.idx + 1)
  if 0 ≤ y ∧ y < yearTag then some (y, k.2) else none

/-- split a blob into records of `n + 4` bytes -/
def splitRecs (n : Nat) (fuel : Nat) (b : Bytes) : List VRec :=
  match fuel with
  | 0 => []
  | fuel + 1 =>
    if b.length < n + 4 then [] else
    ⟨b.take n, (leDecode ((b.drop n).take 4) : Nat)⟩ :: splitRecs n fuel (b.drop (n + 4))

/-- rows of a fixed-length bucket in a recovered slot map -/
def fixedRows (b : BInfo) (slots : Slots) : List Row :=
  let mine : Slots := slots.filterMap (fun kv => (untag b kv.1).map (fun k => (k, kv.2)))
  Store.query b.tf mine ⟨none, none, none⟩

/-- rows of a variable-length bucket after the given command sequence has been APPENDED -/
def varRows (b : BInfo) (appended : List Cmd) : List VRow :=
  let n := payloadSize b.cols
  let vs : VSlots := appended.foldl (fun s c => match untag b (c.year, c.index) with
    | some k => s.put k (s.get k ++ splitRecs n c.payload.length c.payload)
    | none => s) []
  let vs' : VSlots := vs.map (fun kv => (kv.1, sortByTicks kv.2))
  VStore.query tickFns b.tf vs' ⟨none, none, none⟩

/-- output of `restart` for the listed keys: fixed buckets from the slot map `slots`, variable
    buckets from the appended command sequence `appended` -/
def renderKeys (bs : List BInfo) (keys : List String) (slots : Slots) (appended : List Cmd) : String :=
  " ".intercalate (keys.map (fun k => match bs.find? (·.key == k) with
    | some b =>
      if b.isVar then k ++ "~" ++ renderVRows (b.cols.map (·.name)) (varRows b appended)
      else k ++ "~" ++ renderRows (b.cols.map (·.name)) (fixedRows b slots)
    | none => k ++ "~err:nofiles"))

def ctlAfter : Ctl → List Event → Ctl
  | c, [] => c
  | c, e :: rest => ctlAfter (eventEffects c e).2 rest

def kindChar : Effect → String
  | .walAppend _ => "W" | .walFsync => "F" | .prim _ => "P" | .sync => "S" | .walTruncate => "T" | .ack => ""

/-- `tolerateDup`: C01 asks only that acknowledged records are present, so a prediction that
    differs from the exact content by duplicated variable-length records is allowed as well -/
def walcrashOpWith (tolerateDup : Bool) : Op := fun args =>
  match args with
  | _ :: aS :: jS :: keysS :: steps =>
    match parseNat aS with
    | none => badArgs
    | some a =>
      let keys := if keysS == "-" then [] else keysS.splitOn ","
      let (_, ps) := parseSteps [] steps []
      if ps.any (fun p => match p with | .unsupported => true | _ => false) then "M:unsupported" else
      let (bsDone, _) := parseSteps [] (steps.take a) []
      let (bsNext, _) := parseSteps [] (steps.take (a + 1)) []
      let evDone := eventsOf (ps.take a)
      let evNext := eventsOf (ps.take (a + 1))
      -- what the properties allow: exactly the acknowledged requests, or those plus the one in flight
      let allDone := allCmds evDone
      let allNext := allCmds evNext
      let line := fun (bs : List BInfo) (all : List Cmd) =>
        "startup=ok " ++ renderKeys bs keys (applyCmds [] all) all ++ " left="
      let alts := [line bsDone allDone, line bsNext allNext, line bsDone allNext, line bsNext allDone]
      let spec := "?" ++ "||".intercalate alts.eraseDups
      let mid := jS.startsWith "m"
      let jS' := if mid then String.ofList (jS.toList.drop 1) else jS
      match parseNat jS' with
      | none =>
        -- `*`: crash inside catalog operations of step `a` (the WAL and the primary files are as
        -- after the acknowledged steps; whether the bucket being created exists is open).
        -- power-loss images: `u` = a header / category_name write is among the unsynced data,
        -- `g` = the durable WAL has a hole or a torn record before surviving later records
        let s := run {} (trace {} evDone)
        let live := ((liveTGs s.wal).map (·.2)).flatten
        let mk := fun (bs : List BInfo) => "startup=ok " ++ renderKeys bs keys (recover s) (s.applied ++ live) ++ " left="
        let dup := bsNext.any (fun b => b.isVar &&
          (s.applied.any (fun c => (untag b (c.year, c.index)).isSome && live.any (· == c))))
        let power := jS.contains 'u' || jS.contains 'g'
        let spec' := if tolerateDup && dup && !power then spec ++ "||" ++ mk bsDone ++ "||" ++ mk bsNext else spec
        -- (`g`, garbage in the WAL tail, is no hypothesis any more: replay stops at / skips damaged
        --  records since the C06 repairs)
        let hy := (if jS.contains 'u' then ["unsynced_catalog_data"] else []) ++
                  (if dup && !power then ["var_replay_duplicates"] else [])
        s!"M:*\tS:{spec'}\tH:{",".intercalate hy}"
      | some j =>
        if mid then s!"M:*\tS:{spec}\tH:var_crash_between_data_and_index" else
        let predict := fun (extra : List Effect) (bs : List BInfo) =>
          let s := run {} (trace {} evDone ++ extra)
          let live := ((liveTGs s.wal).map (·.2)).flatten
          let m := "startup=ok " ++ renderKeys bs keys (recover s) (s.applied ++ live) ++ " left="
          -- duplicated variable-length records: a live command that was already applied
          let dup := bs.any (fun b => b.isVar &&
            (s.applied.any (fun c => (untag b (c.year, c.index)).isSome && live.any (· == c))))
          let spec' := if tolerateDup && dup then spec ++ "||" ++ m else spec
          s!"M:{m}\tS:{spec'}\tH:{if dup then "var_replay_duplicates" else ""}"
        match ps.drop a with
        | .ev e :: _ =>
          let c := ctlAfter {} evDone
          predict ((eventEffects c e).1.take j) (if j == 0 then bsDone else bsNext)
        | [] => predict [] bsDone
        | _ => s!"M:*\tS:{spec}\tH:"
  | _ => badArgs

def waltraceOp : Op := fun args =>
  match args with
  | _ :: steps =>
    let (_, ps) := parseSteps [] steps []
    let rec go (c : Ctl) : List PStep → List String → List String
      | [], acc => acc.reverse
      | .ev e :: rest, acc =>
        let (effs, c') := eventEffects c e
        let tag := match e with | .flush _ => "W" | .checkpoint => "K" | .rotate => "T"
        go c' rest ((tag ++ ":" ++ String.join (effs.map kindChar)) :: acc)
      | .create _ :: rest, acc => go c rest ("C:-" :: acc)
      | .unsupported :: rest, acc => go c rest ("?:?" :: acc)
    "M:" ++ " ".intercalate (go {} ps [])
  | _ => badArgs

/-- trace validation (C05): is a recorded sequence of effect kinds a path of the model, i.e. a
    concatenation of event traces  flush = W⁶ F P*,  checkpoint = W S W,  rotation = [W S W] T W F ? -/
def acceptKinds : Nat → List Char → Bool
  | 0, _ => false
  | _, [] => true
  | fuel + 1, 'W' :: 'S' :: 'W' :: 'T' :: 'W' :: 'F' :: rest => acceptKinds fuel rest
  | fuel + 1, 'W' :: 'S' :: 'W' :: rest => acceptKinds fuel rest
  | fuel + 1, 'T' :: 'W' :: 'F' :: rest => acceptKinds fuel rest
  | fuel + 1, 'W' :: 'W' :: 'W' :: 'W' :: 'W' :: 'W' :: 'F' :: rest =>
    acceptKinds fuel (rest.dropWhile (· == 'P'))
  -- the recorded process may end in the MIDDLE of the loop's last event: a proper prefix of an
  -- event's kinds is accepted at the very end of the trace
  | _, rest =>
    rest.length < 7 &&
      ((['W', 'S', 'W', 'T', 'W', 'F'].take rest.length == rest) ||
       (['T', 'W', 'F'].take rest.length == rest) ||
       (['W', 'W', 'W', 'W', 'W', 'W', 'F'].take rest.length == rest))

def walacceptOp : Op := fun args =>
  match args with
  | [k] => if k == "-" || acceptKinds (k.length + 1) k.toList then "M:accepted" else "M:rejected"
  | _ => badArgs

def ops : OpTable := [("walaccept", walacceptOp), ("walcrash", walcrashOpWith false), ("walcrash01", walcrashOpWith true), ("waltrace", waltraceOp)]

end Mkts.Driver.Wal
